#!/usr/bin/env python3
"""reseed_all.py [ID-prefix ...] [-j N] : re-runs every stored seeded change (seeded/<id>/patch.diff) against the
checks recorded in its meta.json (checks_quick keys) with tools/runseed.py and prints one line per (seed, check).
Used after a generator/kit change to confirm nothing that was caught is now missed."""
import sys, os, json, subprocess, glob
from concurrent.futures import ThreadPoolExecutor
args = sys.argv[1:]
j = 4
if "-j" in args:
    k = args.index("-j"); j = int(args[k+1]); del args[k:k+2]
seeds = sorted(glob.glob("/verif/seeded/*/patch.diff"))
jobs = []
for p in seeds:
    sid = os.path.basename(os.path.dirname(p))
    if args and not any(sid.startswith(a) for a in args): continue
    meta = json.load(open(os.path.dirname(p) + "/meta.json"))
    ids = list((meta.get("checks_quick") or {}).keys()) or [sid.split("-")[0]]
    jobs.append((sid, p, ids))
def run(job):
    sid, p, ids = job
    r = subprocess.run(["python3", "/verif/tools/runseed.py", p] + ids, stdout=subprocess.PIPE, stderr=subprocess.STDOUT, text=True)
    lines = [l for l in r.stdout.splitlines() if any(l.startswith(i + ": exit") for i in ids)]
    return sid, lines, r.stdout
bad = 0
with ThreadPoolExecutor(j) as ex:
    for sid, lines, out in ex.map(run, jobs):
        print(sid, "|", " ; ".join(lines), flush=True)
        if not lines: print(out[-800:])
