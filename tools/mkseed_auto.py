#!/usr/bin/env python3
"""mkseed_auto.py <PID> <tag> : mkseed.py with the flavour text built from the summaries of the seeds already stored for PID."""
import sys, json, glob, subprocess
pid, tag = sys.argv[1], sys.argv[2]
prev = []
for m in sorted(glob.glob("/verif/seeded/%s-*/meta.json" % pid)):
    d = json.load(open(m))
    prev.append('"%s" (files: %s)' % (d.get("summary", "")[:150].replace("\n", " "), d.get("files_changed")))
flav = ""
if prev:
    flav = ("Other engineers already produced these changes for the same property: " + " ; ".join(prev) +
            ". Pick a DIFFERENT code site and mechanism, exercising a clause or sub-area of the property those do not touch; prefer changes that need a multi-step history, state reuse across calls, an unusual boundary value, or two cooperating sites.")
subprocess.run(["python3", "/verif/tools/mkseed.py", pid, tag, flav], check=True)
