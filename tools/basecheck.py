#!/usr/bin/env python3
"""basecheck.py [--repo DIR] <pkg-dir>... : run the repository's own tests of the given package dirs
(guard off, no overlay) and compare with the stable_pass list of /root/.vp/BASELINE.json.
Exit 0 iff every baseline-stable test of those packages passes."""
import json, subprocess, sys, os
repo = "/repo"
a = sys.argv[1:]
if a and a[0] == "--repo":
    repo = a[1]; a = a[2:]
base = json.load(open("/root/.vp/BASELINE.json"))
mod = "github.com/ChainSafe/gossamer"
env = dict(os.environ, GOFLAGS="-mod=mod", GOPROXY="off", GOSUMDB="off", GOTOOLCHAIN="local")
bad = 0
for pkg in a:
    pkg = pkg.strip("./")
    imp = mod + "/" + pkg
    want = set(x.split("::", 1)[1] for x in base["stable_pass"] if x.split("::", 1)[0] == imp)
    r = subprocess.run(["go", "test", "-json", "-vet=off", "-count=1", "-timeout", "25m", "./" + pkg], cwd=repo, env=env,
                       stdout=subprocess.PIPE, stderr=subprocess.STDOUT, text=True)
    res = {}
    for l in r.stdout.splitlines():
        try:
            e = json.loads(l)
        except Exception:
            continue
        if e.get("Test") and e.get("Action") in ("pass", "fail", "skip"):
            res[e["Test"]] = e["Action"]
    missing = sorted(t for t in want if res.get(t) != "pass")
    print("%s: baseline-stable %d, passed now %d, NOT passing %d" % (pkg, len(want), len(want) - len(missing), len(missing)))
    for t in missing[:40]:
        print("   ", t, res.get(t))
    bad += len(missing)
    if missing:
        # show failure output of the first failing test
        print(r.stdout[-3000:] if len(missing) == len(want) else "")
sys.exit(1 if bad else 0)
