#!/usr/bin/env python3
"""merge_findings.py [ID ...]: merge checks/<ID>/findings.json entries into known_findings.json (by id; existing ids are replaced).
addfixed: merge_findings.py --fixed <property> <commit> <text>"""
import json, sys, os
V = os.path.dirname(os.path.dirname(os.path.abspath(__file__)))
kp = os.path.join(V, "known_findings.json")
k = json.load(open(kp))
a = sys.argv[1:]
if a and a[0] == "--fixed":
    line = "fixed: property=%s %s %s" % (a[1], a[2], a[3])
    k["fixed"] = [x for x in k["fixed"] if not x.startswith("fixed: property=%s %s " % (a[1], a[2]))] + [line]
else:
    ids = a or [d for d in sorted(os.listdir(os.path.join(V, "checks"))) if os.path.exists(os.path.join(V, "checks", d, "findings.json"))]
    for cid in ids:
        fp = os.path.join(V, "checks", cid, "findings.json")
        if not os.path.exists(fp):
            continue
        for f in json.load(open(fp)).get("findings", []):
            k["findings"] = [x for x in k["findings"] if x["id"] != f["id"]] + [f]
            print("merged", f["id"])
k["findings"].sort(key=lambda x: x["id"])
json.dump(k, open(kp, "w"), indent=1)
