#!/bin/bash
# applyfix.sh <ID> <NN-name> : apply checks/<ID>/fixes/<NN-name>.patch to /repo, build, commit with the .msg, record in known_findings.json
set -e
export GOFLAGS=-mod=mod GOPROXY=off GOSUMDB=off GOTOOLCHAIN=local
ID=$1; N=$2; P=/verif/checks/$ID/fixes/$N
cd /repo
git apply $P.patch
files=$(git diff --name-only)
bad=$(gofmt -l $files); [ -z "$bad" ] || { echo "gofmt: $bad"; exit 1; }
for d in $(for f in $files; do dirname $f; done | sort -u); do go build ./$d; done
git add -A; git commit -q -F $P.msg
c=$(git log --format=%h -1)
subj=$(head -1 $P.msg | sed 's/^fix: //')
body=$(tail -n +3 $P.msg | tr '\n' ' ' | sed 's/  */ /g' | cut -c1-500)
/verif/tools/merge_findings.py --fixed $ID $c "$subj -- $body (full text: checks/$ID/fixes/$N.msg; regression cases in the $ID check)"
echo "committed $c $subj"
