#!/usr/bin/env python3
"""runseed.py <patch.diff> <ID> [<ID>...] [--tier quick|thorough] [--seed N]
Applies the patch to a fresh scratch worktree of /repo HEAD (never to /repo itself), runs the named checks against it with separate
build/work/evidence dirs, prints exit code per check and removes the worktree. Exit 0 iff every named check reported a VIOLATION (caught)."""
import sys, subprocess, os, shutil, tempfile
a = sys.argv[1:]
tier, seed = "quick", "1"
ids = []
patch = a[0]
i = 1
while i < len(a):
    if a[i] == "--tier": tier = a[i+1]; i += 2
    elif a[i] == "--seed": seed = a[i+1]; i += 2
    else: ids.append(a[i]); i += 1
wt = tempfile.mkdtemp(prefix="runseed-", dir="/tmp")
os.rmdir(wt)
subprocess.run(["git", "-C", "/repo", "worktree", "add", "--detach", wt], check=True, stdout=subprocess.DEVNULL, stderr=subprocess.DEVNULL)
ok = True
try:
    r = subprocess.run(["git", "-C", wt, "apply", os.path.abspath(patch)])
    if r.returncode != 0:
        print("PATCH DOES NOT APPLY"); sys.exit(3)
    scratch = wt + "-out"
    env = dict(os.environ, VERIF_REPO=wt, VERIF_BUILD_DIR=scratch + "/build", VERIF_WORK_DIR=scratch + "/work",
               VERIF_EVIDENCE_DIR=scratch + "/evidence", VERIF_SEED=seed)
    for cid in ids:
        r = subprocess.run(["/verif/vcheck", cid, "--tier", tier], env=env, stdout=subprocess.PIPE, stderr=subprocess.STDOUT, text=True)
        viol = [l for l in r.stdout.splitlines() if l.startswith("VIOLATION")]
        print("%s: exit %d %s" % (cid, r.returncode, "CAUGHT" if r.returncode == 1 and viol else "MISSED" if r.returncode == 0 else "INCONCLUSIVE"))
        if r.returncode != 1:
            ok = False
            print(r.stdout[-1500:])
        else:
            fails = [l for l in r.stdout.splitlines() if "[rapid] failed" in l or "[rapid] panic" in l or "--- FAIL" in l]
            print("   " + "\n   ".join(x[:300] for x in fails[:3]))
finally:
    subprocess.run(["git", "-C", "/repo", "worktree", "remove", "--force", wt])
    shutil.rmtree(wt + "-out", ignore_errors=True)
sys.exit(0 if ok else 1)
