#!/usr/bin/env python3
"""mkseed.py <PID> <tag> [flavour text] : create a scratch worktree /tmp/seed-<PID>-<tag> of /repo HEAD and write PROMPT.md into it."""
import json, sys, subprocess, os
pid, tag = sys.argv[1], sys.argv[2]
flav = sys.argv[3] if len(sys.argv) > 3 else ""
d = "/tmp/seed-%s-%s" % (pid, tag)
subprocess.run(["git", "-C", "/repo", "worktree", "add", "--detach", d], check=True, stdout=subprocess.DEVNULL, stderr=subprocess.DEVNULL)
p = [json.loads(l) for l in open("/verif/properties.jsonl") if json.loads(l)["id"] == pid][0]
text = "Title: %s\nStatement: %s\nQuantified over: %s" % (p["title"], p["statement"], p["quantifier"]["text"])
anch = ", ".join(p["anchors"]["files"])
s = open("/verif/tools/seed_prompt.txt").read()
s = s.replace("{DIR}", d).replace("{TAG}", "seed-%s-%s" % (pid, tag)).replace("{PROPERTY}", text).replace("{ANCHORS}", anch).replace("{PID}", pid).replace("{FLAVOUR}", flav)
open(os.path.join(d, "PROMPT.md"), "w").write(s)
print(d)
