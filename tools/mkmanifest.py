#!/usr/bin/env python3
"""Regenerates /verif/MANIFEST.json from checks/*/check.json (claimed) and properties.jsonl (everything else -> not_applicable)."""
import json, os, subprocess
V = os.path.dirname(os.path.dirname(os.path.abspath(__file__)))
props = [json.loads(l) for l in open(os.path.join(V, "properties.jsonl"))]
checks = []
na = []
pending = json.load(open(os.path.join(V, "tools", "not_applicable.json"))) if os.path.exists(os.path.join(V, "tools", "not_applicable.json")) else {}
try:
    fixes = subprocess.run(["git", "-C", "/repo", "log", "--format=%h %s", "--grep=^fix:"], stdout=subprocess.PIPE, text=True).stdout.strip().splitlines()
except Exception:
    fixes = []
for p in props:
    cid = p["id"]
    cj = os.path.join(V, "checks", cid, "check.json")
    if os.path.exists(cj) and not json.load(open(cj)).get("unclaimed") and cid not in pending:
        c = json.load(open(cj))
        e = {
            "property_id": cid,
            "quick_cmd": "./vcheck %s --tier quick" % cid,
            "thorough_cmd": "./vcheck %s --tier thorough" % cid,
            "evidence_file": "/verif/evidence/%s.json" % cid,
            "replay_cmd_template": "./vcheck %s --replay {path}" % cid,
            "engine": "vcheck",
            "level_claimed": {
                "category": c.get("level", "exploration"),
                "text": c.get("level_text", c.get("rule", "")),
                "design_ref": "DESIGN.md §3 " + cid,
            },
            "level_note": c.get("level_note", "; ".join(c.get("assumptions", [])) or "generated-input search; absence of a counterexample within the explored cases, not a proof"),
            "technique": c.get("technique", "property-based testing (pgregory.net/rapid) against an independent reference model"),
        }
        checks.append(e)
    else:
        na.append({"property_id": cid, "reason": pending.get(cid, "check not built yet in this session; planned per DESIGN.md §3 %s (property-based), not claimed until it is silent on the tree and catches its mutants" % cid)})
m = {
    "version": 1,
    "setup_cmd": "./vcheck --setup",
    "hooks": {
        "guard": "verif",
        "enable": "no source hooks: checks are Go test files injected at build time with `go test -c -overlay` (in-package access) and built with `-tags verif -modfile=/verif/build/alt.mod`",
        "baseline_off_cmd": json.load(open("/root/.vp/BASELINE.json"))["cmd"],
        "source_commits": [],
        "add_only": True,
    },
    "engines": [{"name": "vcheck", "path": "/verif/vcheck", "serves_properties": [c["property_id"] for c in checks],
                 "kind_free_text": "python driver: builds per-property Go test binaries against /repo's working tree via overlay, shards rapid property runs / fuzz targets, merges statistics into evidence, maps rapid fail files to replay files"}],
    "checks": checks,
    "not_applicable": na,
    "notes": "fix: commits in /repo (genuine defects repaired, listed in known_findings.json 'fixed'): " + " | ".join(fixes),
}
json.dump(m, open(os.path.join(V, "MANIFEST.json"), "w"), indent=1)
print("claimed", len(checks), "not_applicable", len(na))
