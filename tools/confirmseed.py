#!/usr/bin/env python3
"""confirmseed.py <seed-worktree-dir> <seed-id> <check-id>[,<check-id>] [basecheck pkg dirs...]
Independently confirms a seeded change delivered in <dir>/SEEDED (patch.diff, demo file(s), meta.json):
 fresh worktree of /repo HEAD: demo passes without the patch, fails with it, baseline tests of the given packages pass with it;
 then runs the named checks (quick) against the patched tree. Stores everything under /verif/seeded/<seed-id>/ with the results in meta.json."""
import sys, os, json, subprocess, shutil, tempfile, glob, re
src, sid, cids = sys.argv[1], sys.argv[2], sys.argv[3].split(",")
pkgs = sys.argv[4:]
S = os.path.join(src, "SEEDED")
meta = json.load(open(os.path.join(S, "meta.json")))
env = dict(os.environ, GOFLAGS="-mod=mod", GOPROXY="off", GOSUMDB="off", GOTOOLCHAIN="local")
wt = tempfile.mkdtemp(prefix="confirm-", dir="/tmp"); os.rmdir(wt)
subprocess.run(["git", "-C", "/repo", "worktree", "add", "--detach", wt], check=True, stdout=subprocess.DEVNULL, stderr=subprocess.DEVNULL)
res = {}
try:
    # place demo files where they are in the seed worktree (untracked files there)
    out = subprocess.run(["git", "-C", src, "status", "--porcelain", "--untracked-files=all"], stdout=subprocess.PIPE, text=True).stdout
    demos = [l[3:] for l in out.splitlines() if l.startswith("??") and not l[3:].startswith("SEEDED/") and l[3:] != "PROMPT.md"]
    if not demos:  # demo only delivered inside SEEDED/: keep those files
        demos = ["SEEDED/" + f for f in os.listdir(S) if f.endswith(".go")]
    for d in demos:
        os.makedirs(os.path.dirname(os.path.join(wt, d)) or wt, exist_ok=True)
        shutil.copy(os.path.join(src, d), os.path.join(wt, d))
    shutil.copytree(S, os.path.join(wt, "SEEDED"), dirs_exist_ok=True)
    cmd = meta.get("demo_cmd")
    cmd = re.sub(r"\s{2,}\((with|after) [^)]*\)\s*$", "", cmd)   # trailing prose remark
    def run_demo():
        r = subprocess.run(cmd, shell=True, executable="/bin/bash", cwd=wt, env=env, stdout=subprocess.PIPE, stderr=subprocess.STDOUT, text=True)
        return r.returncode, r.stdout[-1500:]
    rc0, o0 = run_demo()
    res["demo_without_patch"] = "pass" if rc0 == 0 else "FAIL(%d)" % rc0
    r = subprocess.run(["git", "-C", wt, "apply", os.path.join(S, "patch.diff")])
    res["patch_applies"] = r.returncode == 0
    rc1, o1 = run_demo()
    res["demo_with_patch"] = "fail" if rc1 != 0 else "PASSES(unexpected)"
    if pkgs:
        # the repository's own tests are judged without the demonstration files in the packages
        for d in list(demos):
            for q in {os.path.join(wt, d), os.path.join(wt, d.replace("SEEDED/", "", 1))}:
                if q.endswith("_test.go") and os.path.exists(q) and "/SEEDED/" not in q:
                    os.remove(q)
        for root, _, files in os.walk(wt):
            if "/SEEDED" in root or "/.git" in root: continue
            for f in files:
                if f.startswith("zz_seeded") and f.endswith("_test.go"): os.remove(os.path.join(root, f))
        r = subprocess.run(["/verif/tools/basecheck.py", "--repo", wt] + pkgs, stdout=subprocess.PIPE, text=True)
        res["basecheck"] = "ok" if r.returncode == 0 else "FAILS: " + r.stdout[-800:]
    print(json.dumps(res, indent=1))
    if rc0 != 0: print(o0)
    if rc1 == 0: print(o1)
finally:
    subprocess.run(["git", "-C", "/repo", "worktree", "remove", "--force", wt])
ok = res.get("demo_without_patch") == "pass" and res.get("demo_with_patch") == "fail" and res.get("patch_applies") and res.get("basecheck", "ok") == "ok"
if not ok:
    print("NOT CONFIRMED"); sys.exit(1)
dst = os.path.join("/verif/seeded", sid)
os.makedirs(dst, exist_ok=True)
shutil.copy(os.path.join(S, "patch.diff"), dst)
for d in demos:
    shutil.copy(os.path.join(src, d), os.path.join(dst, os.path.basename(d)))
meta["demo_paths"] = demos
meta["confirmed"] = res
caught = {}
for cid in cids:
    r = subprocess.run(["/verif/tools/runseed.py", os.path.join(dst, "patch.diff"), cid], stdout=subprocess.PIPE, text=True)
    caught[cid] = r.stdout.splitlines()[0] if r.stdout else "?"
    print(r.stdout[:1200])
meta["checks_quick"] = caught
json.dump(meta, open(os.path.join(dst, "meta.json"), "w"), indent=1)
print("stored", dst)
