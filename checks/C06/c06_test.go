package triedb

// C06 - Database-backed trie engine agrees with the spec.
//
// Oracle: kit.SpecRoot (from-the-spec root builder, shares no code with
// pkg/trie) after every commit, and a fresh NewTrieDB(root, db) that must
// return model[k] for every present key and nothing for generated absent keys.

import (
	"bytes"
	"fmt"
	"runtime/debug"
	"sort"
	"strings"
	"testing"

	"github.com/ChainSafe/gossamer/internal/database"
	chash "github.com/ChainSafe/gossamer/internal/primitives/core/hash"
	"github.com/ChainSafe/gossamer/internal/primitives/runtime"
	kit "github.com/ChainSafe/gossamer/internal/verifkit"
	"github.com/ChainSafe/gossamer/pkg/trie"
	triedbif "github.com/ChainSafe/gossamer/pkg/trie/db"
	"pgregory.net/rapid"
)

const c06Rule = "history of 2-45 Put/Delete/Commit(Hash) ops on triedb.TrieDB over an in-memory key-value store (V0 or V1; keys 0-4 bytes over a nibble-colliding alphabet plus 31-202 byte keys with long common prefixes; values 0..120 bytes centred on 31/32/33; after a commit the history continues either on the same instance or on a fresh instance opened at the committed root); " +
	"after every commit: root == spectrie root of the model map, and a fresh NewTrieDB(root, db) returns model[k] for every present key and nothing for absent keys (generated + neighbours of present keys); every call gets its own never-reused key slice which must be left unchanged; " +
	"non-trivial = >= 2 commits and a delete of a present key after the first commit; distinct by (version, op list)"

// ---------------------------------------------------------------------------
// in-memory database with the semantics of the real backend (Pebble table):
// Get of a missing key is an error, Put/Get copy, a batch is buffered until
// Flush and discarded by Close. The null node hash(0x00) -> [0x00] is always
// present under any prefix and cannot be removed (as in substrate's memory-db
// and in the package's own test database) - the engine requires it.

type c06DB struct {
	data    map[string][]byte
	nullKey string
}

var errC06NotFound = fmt.Errorf("c06db: not found")

func newC06DB() *c06DB {
	h := kit.Blake256([]byte{0})
	return &c06DB{data: map[string][]byte{}, nullKey: string(h[:])}
}

func (d *c06DB) isNull(key []byte) bool {
	return len(key) >= 32 && string(key[len(key)-32:]) == d.nullKey
}

func (d *c06DB) Get(key []byte) ([]byte, error) {
	if d.isNull(key) {
		return []byte{0}, nil
	}
	v, ok := d.data[string(key)]
	if !ok {
		return nil, errC06NotFound
	}
	return append([]byte{}, v...), nil
}

func (d *c06DB) Put(key, value []byte) error {
	if d.isNull(key) {
		return nil
	}
	d.data[string(key)] = append([]byte{}, value...)
	return nil
}

func (d *c06DB) Del(key []byte) error {
	delete(d.data, string(key))
	return nil
}

func (d *c06DB) Flush() error { return nil }

func (d *c06DB) NewBatch() database.Batch { return &c06Batch{db: d} }

type c06BatchOp struct {
	del  bool
	k, v []byte
}

type c06Batch struct {
	db  *c06DB
	ops []c06BatchOp
}

func (b *c06Batch) Put(key, value []byte) error {
	b.ops = append(b.ops, c06BatchOp{false, append([]byte{}, key...), append([]byte{}, value...)})
	return nil
}

func (b *c06Batch) Del(key []byte) error {
	b.ops = append(b.ops, c06BatchOp{true, append([]byte{}, key...), nil})
	return nil
}

func (b *c06Batch) Flush() error {
	for _, o := range b.ops {
		if o.del {
			_ = b.db.Del(o.k)
		} else {
			_ = b.db.Put(o.k, o.v)
		}
	}
	b.ops = nil
	return nil
}

func (b *c06Batch) Close() error   { b.ops = nil; return nil }
func (b *c06Batch) Reset()         { b.ops = nil }
func (b *c06Batch) ValueSize() int { return len(b.ops) }

var _ triedbif.RWDatabase = &c06DB{}

type c06Trie = TrieDB[chash.H256, runtime.BlakeTwo256]

func c06Open(root [32]byte, d *c06DB, v1 bool) *c06Trie {
	t := NewTrieDB[chash.H256, runtime.BlakeTwo256](chash.H256(root[:]), d)
	if v1 {
		t.SetVersion(trie.V1)
	}
	return t
}

// ---------------------------------------------------------------------------

type c06Op struct {
	kind   byte // 'P', 'D', 'C'
	k, v   []byte
	slack  bool // the key slice handed to the engine has spare capacity
	reopen bool // (commit) continue on a fresh instance opened at the new root
}

func (o c06Op) String() string {
	s := ""
	if o.slack {
		s = "+"
	}
	switch o.kind {
	case 'C':
		if o.reopen {
			return "C!"
		}
		return "C"
	case 'D':
		return fmt.Sprintf("D%s%s", s, c06Hex(o.k))
	}
	if len(o.v) > 3 {
		return fmt.Sprintf("P%s%s=%x..%d", s, c06Hex(o.k), o.v[:2], len(o.v))
	}
	return fmt.Sprintf("P%s%s=%x", s, c06Hex(o.k), o.v)
}

// c06Hex renders long keys run-length compressed so that descriptions stay readable.
func c06Hex(k []byte) string {
	if len(k) <= 8 {
		return fmt.Sprintf("%x", k)
	}
	var sb strings.Builder
	for i := 0; i < len(k); {
		j := i
		for j < len(k) && k[j] == k[i] {
			j++
		}
		if j-i > 3 {
			fmt.Fprintf(&sb, "(%02x*%d)", k[i], j-i)
		} else {
			fmt.Fprintf(&sb, "%x", k[i:j])
		}
		i = j
	}
	return sb.String()
}

func c06GenValue() *rapid.Generator[[]byte] {
	return rapid.Custom(func(t *rapid.T) []byte {
		if rapid.IntRange(0, 2).Draw(t, "thr") == 0 {
			n := rapid.SampledFrom([]int{31, 32, 33}).Draw(t, "vlen3")
			seed := rapid.Byte().Draw(t, "vseed3")
			v := make([]byte, n)
			for i := range v {
				v[i] = seed ^ byte(i*13)
			}
			return v
		}
		return kit.GenValue().Draw(t, "v")
	})
}

func c06GenOps(t *rapid.T, n int) []c06Op {
	ops := make([]c06Op, 0, n+1)
	var pool [][]byte
	for i := 0; i < n; i++ {
		c := rapid.IntRange(0, 9).Draw(t, "opkind")
		if c <= 1 && i > 0 {
			ops = append(ops, c06Op{kind: 'C', reopen: rapid.Bool().Draw(t, "reopen")})
			continue
		}
		var k []byte
		if len(pool) > 0 && rapid.IntRange(0, 2).Draw(t, "reuse") > 0 {
			k = pool[rapid.IntRange(0, len(pool)-1).Draw(t, "ki")]
		} else {
			k = kit.GenKey().Draw(t, "k")
			pool = append(pool, k)
		}
		slack := rapid.Bool().Draw(t, "slack")
		if c <= 4 {
			ops = append(ops, c06Op{kind: 'D', k: k, slack: slack})
		} else {
			ops = append(ops, c06Op{kind: 'P', k: k, v: c06GenValue().Draw(t, "v"), slack: slack})
		}
	}
	return append(ops, c06Op{kind: 'C'})
}

// c06KeyArg returns a slice equal to k that nothing else references.
func c06KeyArg(k []byte, slack bool) []byte {
	c := 0
	if slack {
		c = 64
	}
	out := make([]byte, len(k), len(k)+c)
	copy(out, k)
	return out
}

func c06LCP(a, b []byte) int {
	i := 0
	for i < len(a) && i < len(b) && a[i] == b[i] {
		i++
	}
	return i
}

// c06Branches is the set of branch positions (nibble prefixes) of the radix
// trie holding the keys of m: the distinct longest common prefixes of keys that
// are adjacent in sorted order.
func c06Branches(m kit.OrdMap) map[string]bool {
	ks := m.Keys()
	out := map[string]bool{}
	for i := 0; i+1 < len(ks); i++ {
		a, b := kit.KeyNibbles([]byte(ks[i])), kit.KeyNibbles([]byte(ks[i+1]))
		out[string(a[:c06LCP(a, b)])] = true
	}
	return out
}

// c06Absent returns keys that are not in the model: neighbours of present keys
// (prefix, extension, last byte changed, nibble flipped) and the given extras.
func c06Absent(m kit.OrdMap, extra [][]byte) [][]byte {
	var out [][]byte
	add := func(k []byte) {
		if _, ok := m[string(k)]; !ok {
			out = append(out, k)
		}
	}
	for _, e := range extra {
		add(e)
	}
	for _, ks := range m.Keys() {
		k := []byte(ks)
		if len(k) > 0 {
			add(k[:len(k)-1])
			c := append([]byte{}, k...)
			c[len(c)-1] ^= 0x01
			add(c)
			c = append([]byte{}, k...)
			c[len(c)-1] ^= 0x10
			add(c)
			c = append([]byte{}, k...)
			c[0] ^= 0x10
			add(c)
		}
		add(append(append([]byte{}, k...), 0x00))
		add(append(append([]byte{}, k...), 0x10))
	}
	return out
}

type c06Fataler interface {
	Fatalf(format string, args ...any)
}

// c06CheckCommitted: the committed root is the spec root and a fresh instance
// reads exactly the model.
func c06CheckCommitted(t c06Fataler, d *c06DB, got chash.H256, model kit.OrdMap, v1 bool, absent [][]byte, ctx string) [32]byte {
	want := kit.SpecRoot(model, v1)
	if !bytes.Equal(got.Bytes(), want[:]) {
		t.Fatalf("%s: committed root %x, spec root %x; v1=%v map %s", ctx, got.Bytes(), want, v1, model.Describe())
	}
	fresh := c06Open(want, d, v1)
	for _, ks := range model.Keys() {
		k := []byte(ks)
		arg := c06KeyArg(k, false)
		v := fresh.Get(arg)
		if !bytes.Equal(arg, k) {
			t.Fatalf("%s: Get modified the caller's key %x -> %x", ctx, k, arg)
		}
		if !bytes.Equal(v, model[ks]) {
			t.Fatalf("%s: fresh instance at root %x: Get(%x) = %x (nil=%v), model has %x; v1=%v map %s", ctx, want, k, v, v == nil, model[ks], v1, model.Describe())
		}
	}
	for _, k := range absent {
		if v := fresh.Get(c06KeyArg(k, false)); len(v) != 0 {
			t.Fatalf("%s: fresh instance at root %x: Get(absent %x) = %x; v1=%v map %s", ctx, want, k, v, v1, model.Describe())
		}
	}
	return want
}

// c06Call runs one engine call; a panic of the engine is reported with the
// history that led to it.
func c06Call(t c06Fataler, ctx, what string, f func() error) {
	var err error
	pv, st := c06Try(func() { err = f() })
	if pv != nil {
		t.Fatalf("%s: %s panicked: %v\n%s", ctx, what, pv, st)
	}
	if err != nil {
		t.Fatalf("%s: %s: %v", ctx, what, err)
	}
}

func c06Try(f func()) (pv any, st string) {
	defer func() {
		if r := recover(); r != nil {
			pv = r
			st = string(debug.Stack())
			if i := strings.Index(st, "panic("); i >= 0 {
				st = st[i:]
			}
			if len(st) > 1800 {
				st = st[:1800]
			}
		}
	}()
	f()
	return nil, ""
}

type c06Result struct {
	commits, effDelAfterCommit int
	labels                     map[string]bool
}

// c06Run executes a history against a fresh database and checks it.
func c06Run(t c06Fataler, v1 bool, ops []c06Op, extraAbsent [][]byte) c06Result {
	d := newC06DB()
	tr := NewEmptyTrieDB[chash.H256, runtime.BlakeTwo256](d)
	if v1 {
		tr.SetVersion(trie.V1)
	}
	model := kit.OrdMap{}
	res := c06Result{labels: map[string]bool{}}
	touched := map[string]bool{} // keys written or deleted since the last commit
	var done []string
	for i, o := range ops {
		done = append(done, o.String())
		ctx := fmt.Sprintf("v1=%v after step %d of [%s]", v1, i, strings.Join(done, " "))
		switch o.kind {
		case 'C':
			var root chash.H256
			c06Call(t, ctx, "Hash", func() (err error) { root, err = tr.Hash(); return err })
			want := c06CheckCommitted(t, d, root, model, v1, c06Absent(model, extraAbsent), ctx)
			res.commits++
			touched = map[string]bool{}
			if o.reopen {
				tr = c06Open(want, d, v1)
				res.labels["continue-on-reopened-instance"] = true
			}
		case 'P':
			arg := c06KeyArg(o.k, o.slack)
			c06Call(t, ctx, "Put", func() error { return tr.Put(arg, append([]byte{}, o.v...)) })
			if !bytes.Equal(arg, o.k) {
				t.Fatalf("%s: Put modified the caller's key slice: passed %x, now %x", ctx, o.k, arg)
			}
			if _, ok := model[string(o.k)]; ok {
				res.labels["overwrite"] = true
			}
			model[string(o.k)] = o.v
			touched[string(o.k)] = true
			if l := len(o.v); l >= 31 && l <= 33 {
				res.labels[fmt.Sprintf("value-len-%d", l)] = true
				if v1 {
					res.labels[fmt.Sprintf("v1-value-len-%d", l)] = true
				}
			}
			if v1 && len(o.v) > 32 {
				res.labels["v1-hashed-value"] = true
			}
			if len(o.v) == 0 {
				res.labels["empty-value"] = true
			}
			if len(o.k) >= 33 {
				res.labels["key>=33-bytes"] = true
				if res.commits > 0 {
					res.labels["key>=33-bytes-after-commit"] = true
				}
			}
			if len(o.k) == 0 {
				res.labels["empty-key"] = true
			}
		case 'D':
			arg := c06KeyArg(o.k, o.slack)
			c06Call(t, ctx, "Delete", func() error { return tr.Delete(arg) })
			if !bytes.Equal(arg, o.k) {
				t.Fatalf("%s: Delete modified the caller's key slice: passed %x, now %x", ctx, o.k, arg)
			}
			if _, ok := model[string(o.k)]; ok {
				before := c06Branches(model)
				delete(model, string(o.k))
				after := c06Branches(model)
				if res.commits > 0 {
					res.effDelAfterCommit++
					res.labels["effective-delete-after-commit"] = true
				}
				// a branch position disappeared: the branch was merged into its
				// remaining child or turned into a leaf
				for p := range before {
					if after[p] {
						continue
					}
					res.labels["branch-collapse"] = true
					if res.commits > 0 {
						untouched := true
						for ks := range model {
							if strings.HasPrefix(string(kit.KeyNibbles([]byte(ks))), p) && touched[ks] {
								untouched = false
							}
						}
						if untouched {
							res.labels["branch-collapse-onto-persisted-nodes"] = true
						}
					}
				}
				if len(o.k) >= 33 {
					res.labels["delete-key>=33-bytes"] = true
				}
			} else {
				res.labels["delete-absent"] = true
			}
			touched[string(o.k)] = true
		}
	}
	if len(model) == 0 {
		res.labels["final-map-empty"] = true
	}
	return res
}

// TestC06History: generated histories, oracle after every commit.
func TestC06History(t *testing.T) {
	defer kit.Flush()
	kit.Note("rule", c06Rule)
	rapid.Check(t, func(t *rapid.T) {
		v1 := rapid.Bool().Draw(t, "v1")
		n := rapid.IntRange(2, 45).Draw(t, "n")
		ops := c06GenOps(t, n)
		na := rapid.IntRange(0, 4).Draw(t, "nabsent")
		var extra [][]byte
		for i := 0; i < na; i++ {
			extra = append(extra, kit.GenKey().Draw(t, "absent"))
		}
		res := c06Run(t, v1, ops, extra)
		strs := make([]string, len(ops))
		for i, o := range ops {
			strs[i] = o.String()
		}
		ls := make([]string, 0, len(res.labels)+1)
		for l := range res.labels {
			ls = append(ls, l)
		}
		if v1 {
			ls = append(ls, "V1")
		} else {
			ls = append(ls, "V0")
		}
		sort.Strings(ls)
		kit.Case(fmt.Sprintf("v1=%v %s", v1, strings.Join(strs, " ")), res.commits >= 2 && res.effDelAfterCommit > 0, ls...)
	})
}

// ---------------------------------------------------------------------------
// Regressions: shrunk failures of TestC06History on the pinned tree (repaired
// by fixes/01 and fixes/02), as plain deterministic histories.

type c06PlainT struct{ t *testing.T }

func (p c06PlainT) Fatalf(format string, args ...any) { p.t.Helper(); p.t.Fatalf(format, args...) }

func c06Rep(b byte, n int, tail ...byte) []byte {
	return append(bytes.Repeat([]byte{b}, n), tail...)
}

func TestC06Regressions(t *testing.T) {
	defer kit.Flush()
	v32 := bytes.Repeat([]byte{0xaa}, 32)
	v31 := bytes.Repeat([]byte{0xbb}, 31)
	v64 := bytes.Repeat([]byte{0xcc}, 64)
	P := func(k []byte, v []byte) c06Op { return c06Op{kind: 'P', k: k, v: v} }
	D := func(k []byte) c06Op { return c06Op{kind: 'D', k: k} }
	C := c06Op{kind: 'C'}
	CR := c06Op{kind: 'C', reopen: true}
	cases := []struct {
		name string
		v1   bool
		ops  []c06Op
	}{
		// fixes/01: a 32-byte value is inlined under V1 (hashed only when > 32 bytes)
		{"01-v1-value-of-32-bytes", true, []c06Op{P([]byte{0x01}, v32), C}},
		{"01-v1-value-of-32-bytes-on-branch", true, []c06Op{P([]byte{0x01}, v32), P([]byte{0x01, 0x10}, []byte{1}), C}},
		// fixes/02: append(prefix.JoinedBytes(), hash...) wrote the hash into the caller's key buffer
		{"02-delete-31-byte-key-with-spare-capacity-on-empty-trie", false, []c06Op{{kind: 'D', k: c06Rep(0x00, 31), slack: true}, C}},
		{"02-put-32-byte-key-after-commit", false, []c06Op{P([]byte{0x01}, []byte{1}), C, P(c06Rep(0x11, 32), []byte{2}), C}},
		{"02-put-40-byte-key-after-commit-spare-capacity", false, []c06Op{P([]byte{0x01}, []byte{1}), C, {kind: 'P', k: c06Rep(0xab, 40), v: []byte{2}, slack: true}, C}},
		{"02-delete-long-key-after-commit", true, []c06Op{P(c06Rep(0x11, 33), []byte{1}), P(c06Rep(0x11, 33, 0x01), []byte{2}), C, D(c06Rep(0x11, 33, 0x01)), C}},
		// fixes/03: the saved branch position was an alias of the advancing key
		{"03-delete-merges-branch-in-memory", false, []c06Op{P([]byte{0x01, 0x10}, []byte{1}), CR, P([]byte{0x01, 0x11}, []byte{2}), D([]byte{0x01, 0x10}), C}},
		{"03-delete-merges-branch-onto-persisted-child", false, []c06Op{P(c06Rep(0x00, 31), v31), P([]byte{0x01}, v31), C, D(c06Rep(0x00, 31)), C}},
		// fixes/04: inlined children of a loaded node were allocated in a copy of the node storage
		{"04-put-below-loaded-branch-with-inlined-children", false, []c06Op{P([]byte{0x00, 0x11}, []byte{0x1d}), P([]byte{0x01}, []byte{0x01}), CR, P([]byte{0x01}, v64), C}},
		// fixes/05: absent key ending where a value-carrying branch with a partial key hangs
		{"05-delete-empty-key-above-branch-with-value", true, []c06Op{P(c06Rep(0x00, 31), v64), P([]byte{0x00}, v64), C, D([]byte{}), C}},
		{"05-delete-absent-prefix-key", true, []c06Op{P(c06Rep(0x00, 80), v32), P(c06Rep(0x00, 33), []byte{0x20, 0x27}), P([]byte{0x01}, v32), C, D([]byte{0x00}), C}},
	}
	for _, c := range cases {
		c := c
		t.Run(c.name, func(t *testing.T) {
			c06Run(c06PlainT{t}, c.v1, c.ops, [][]byte{{0x01, 0x00}, c06Rep(0x11, 32, 0x00)})
			kit.Case("regression "+c.name, true, "regression")
		})
	}
}
