package state

// C27 - Slot equivocations are detected exactly.
//
// SlotState.CheckEquivocation over an in-memory Pebble database, judged after
// every call by a map-based model of Substrate's sc-consensus-slots
// `check_equivocation` (client/consensus/slots/src/aux_schema.rs), which the
// Go code ports: MAX_SLOT_CAPACITY = 1000, PRUNING_BOUND = 2000, the
// "first saved slot" rule, pruning only when a new entry is saved.

import (
	"bytes"
	"fmt"
	"strings"
	"testing"

	"github.com/ChainSafe/gossamer/dot/types"
	"github.com/ChainSafe/gossamer/internal/database"
	kit "github.com/ChainSafe/gossamer/internal/verifkit"
	"github.com/ChainSafe/gossamer/lib/common"
	"github.com/ChainSafe/gossamer/pkg/scale"
	"pgregory.net/rapid"
)

// Constants of sc-consensus-slots aux_schema.rs (written here independently of slot.go).
const (
	c27MaxSlotCapacity = uint64(1000)
	c27PruningBound    = uint64(2000)
)

type c27Key struct {
	slot   uint64
	signer int
}

// c27Model is the reference: what Substrate keeps in aux storage, as a map
// (slot, signer) -> variant of the first header saved, plus SLOT_HEADER_START.
type c27Model struct {
	rec      map[c27Key]int
	perSlot  map[uint64]int // number of records per slot (for the non-triviality rule / labels)
	hasFirst bool
	first    uint64
}

type c27Verdict struct {
	proof        bool
	firstVariant int
	kind         string // gate / outcome, for labels
	hadEntry     bool   // slot already held an entry when the gates were passed
	pruned       int    // records removed by pruning in this call
}

// check applies one call to the model and says what the implementation must return.
func (m *c27Model) check(slotNow, slot uint64, signer, variant int) c27Verdict {
	// "We don't check equivocations for old headers out of our capacity."
	if slotNow > slot && slotNow-slot > c27MaxSlotCapacity {
		return c27Verdict{kind: "too-old"}
	}
	first := slot // unwrap_or(slot)
	if m.hasFirst {
		first = m.first
	}
	if slotNow < first {
		// "The code below assumes that slots will be visited sequentially."
		return c27Verdict{kind: "before-first-saved"}
	}
	v := c27Verdict{hadEntry: m.perSlot[slot] > 0}
	if prev, ok := m.rec[c27Key{slot, signer}]; ok {
		if prev != variant {
			v.proof, v.firstVariant, v.kind = true, prev, "proof"
			return v
		}
		v.kind = "duplicate"
		return v
	}
	newFirst := first
	if slotNow-first >= c27PruningBound {
		newFirst = slotNow - c27MaxSlotCapacity // slotNow >= 2000 here, no saturation
		for k := range m.rec {
			if k.slot >= first && k.slot < newFirst {
				delete(m.rec, k)
				m.perSlot[k.slot]--
				v.pruned++
			}
		}
	}
	m.rec[c27Key{slot, signer}] = variant
	m.perSlot[slot]++
	m.hasFirst, m.first = true, newFirst
	v.kind = "saved"
	return v
}

var c27Signers = func() [3]types.AuthorityID {
	var s [3]types.AuthorityID
	for i := range s {
		for j := range s[i] {
			s[i][j] = byte(0x11*(i+1) + j)
		}
	}
	// signers 0 and 1 additionally share a long common prefix
	copy(s[1][:], s[0][:31])
	return s
}()

// c27Header builds the header of (slot, variant). It does not depend on the
// signer, so different signers may present the very same header for a slot.
func c27Header(slot uint64, variant int) *types.Header {
	pre, err := types.NewBabeSecondaryPlainPreDigest(0, slot).ToPreRuntimeDigest()
	if err != nil {
		panic(err)
	}
	seal := types.SealDigest{ConsensusEngineID: types.BabeEngineID, Data: bytes.Repeat([]byte{0xaa}, 64)}
	h := &types.Header{
		ParentHash:     common.Hash{1, 2, 3},
		Number:         uint(slot%50) + 1,
		StateRoot:      common.Hash{4, 5, 6},
		ExtrinsicsRoot: common.Hash{7, 8, 9},
	}
	switch variant {
	case 0:
	case 1:
		h.Number++
	case 2:
		h.StateRoot[31] = 1
	case 3:
		seal.Data = bytes.Repeat([]byte{0xab}, 64) // differs in the seal only
	default:
		h.ParentHash[0] = byte(variant)
	}
	h.Digest = types.NewDigest()
	if err := h.Digest.Add(*pre, seal); err != nil {
		panic(err)
	}
	return h
}

func c27SameHeader(a, b *types.Header) error {
	if a.ParentHash != b.ParentHash || a.Number != b.Number || a.StateRoot != b.StateRoot ||
		a.ExtrinsicsRoot != b.ExtrinsicsRoot {
		return fmt.Errorf("fields differ: %v vs %v", a, b)
	}
	da, err := scale.Marshal(a.Digest)
	if err != nil {
		return err
	}
	db, err := scale.Marshal(b.Digest)
	if err != nil {
		return err
	}
	if !bytes.Equal(da, db) {
		return fmt.Errorf("digests differ: %x vs %x", da, db)
	}
	// fresh copies: no cached hash
	ca := types.Header{ParentHash: a.ParentHash, Number: a.Number, StateRoot: a.StateRoot, ExtrinsicsRoot: a.ExtrinsicsRoot, Digest: a.Digest}
	cb := types.Header{ParentHash: b.ParentHash, Number: b.Number, StateRoot: b.StateRoot, ExtrinsicsRoot: b.ExtrinsicsRoot, Digest: b.Digest}
	if ca.Hash() != cb.Hash() || a.Hash() != ca.Hash() {
		return fmt.Errorf("hashes differ")
	}
	return nil
}

var c27Anchors = []uint64{0, 1, 2, 999, 1000, 1001, 1002, 1999, 2000, 2001, 2002, 2999, 3000, 3001, 3999, 4000, 4001, 5000, 6001}
// slotNow moves mostly forward (as a clock does), sometimes backward
var c27NowDeltas = []int64{0, 0, 0, 0, 1, 1, 1, -1, 2, -2, 999, 1000, 1001, -999, -1000, -1001, 1999, 2000, 2001, -2000}

// header slots are mostly at or shortly behind slotNow, around the 1000 capacity, sometimes ahead
var c27SlotDeltas = []int64{0, 0, 0, 0, -1, -1, -2, 1, 2, -500, -998, -999, -1000, -1000, -1001, 1000, -2000}

func c27Shift(base uint64, d int64) uint64 {
	if d < 0 && uint64(-d) > base {
		return 0
	}
	return uint64(int64(base) + d)
}

type c27Op struct {
	now, slot       uint64
	signer, variant int
	reopen          bool
}

func (o c27Op) String() string {
	r := ""
	if o.reopen {
		r = "R "
	}
	return fmt.Sprintf("%sn%d s%d g%d v%d", r, o.now, o.slot, o.signer, o.variant)
}

func c27GenOp(t *rapid.T, prevNow uint64, usedSlots []uint64, prior []c27Op) c27Op {
	var o c27Op
	if len(prior) > 0 && rapid.IntRange(0, 3).Draw(t, "again") == 0 {
		// come back to an earlier (slot, signer) with a drawn variant, at the same or a nearby slotNow
		o = prior[rapid.IntRange(0, len(prior)-1).Draw(t, "againIdx")]
		o.now = c27Shift(o.now, rapid.SampledFrom([]int64{0, 0, 0, 1, -1, 1000, 1001}).Draw(t, "againNow"))
		o.variant = rapid.IntRange(0, 3).Draw(t, "variant")
		o.reopen = false
		return o
	}
	switch rapid.IntRange(0, 3).Draw(t, "nowMode") {
	case 0:
		o.now = c27Shift(rapid.SampledFrom(c27Anchors).Draw(t, "nowAnchor"), rapid.SampledFrom([]int64{0, 0, 1, -1}).Draw(t, "nowJit"))
	default:
		o.now = c27Shift(prevNow, rapid.SampledFrom(c27NowDeltas).Draw(t, "nowDelta"))
	}
	switch m := rapid.IntRange(0, 5).Draw(t, "slotMode"); {
	case m <= 1 && len(usedSlots) > 0:
		o.slot = usedSlots[rapid.IntRange(0, len(usedSlots)-1).Draw(t, "slotIdx")]
	case m == 2:
		o.slot = rapid.SampledFrom(c27Anchors).Draw(t, "slotAnchor")
	default:
		o.slot = c27Shift(o.now, rapid.SampledFrom(c27SlotDeltas).Draw(t, "slotDelta"))
	}
	o.signer = rapid.IntRange(0, 2).Draw(t, "signer")
	o.variant = rapid.IntRange(0, 3).Draw(t, "variant")
	o.reopen = rapid.IntRange(0, 15).Draw(t, "reopen") == 0
	return o
}

// c27Run executes ops against a fresh in-memory database and the model; it
// returns the label set and whether the case is non-trivial. fail is called
// with a message on the first disagreement.
func c27Run(ops []c27Op, fail func(format string, args ...any)) (labels map[string]bool, nontrivial bool) {
	db, err := database.NewPebble("c27", true)
	if err != nil {
		fail("opening in-memory database: %v", err)
		return nil, false
	}
	defer db.Close()
	ss := NewSlotState(db)
	model := &c27Model{rec: map[c27Key]int{}, perSlot: map[uint64]int{}}
	labels = map[string]bool{}
	for i, o := range ops {
		if o.reopen {
			ss = NewSlotState(db) // all state lives in the database
			labels["reopen"] = true
		}
		hdr := c27Header(o.slot, o.variant)
		want := model.check(o.now, o.slot, o.signer, o.variant)
		got, err := ss.CheckEquivocation(o.now, o.slot, hdr, c27Signers[o.signer])
		ctx := func() string {
			var sb strings.Builder
			for _, p := range ops[:i+1] {
				sb.WriteString(p.String())
				sb.WriteString("; ")
			}
			return fmt.Sprintf("step %d of [%s] (model: %s, first saved %v/%d)", i, sb.String(), want.kind, model.hasFirst, model.first)
		}
		if err != nil {
			fail("%s: unexpected error: %v", ctx(), err)
			return labels, false
		}
		if want.proof != (got != nil) {
			fail("%s: proof expected=%v, got=%v", ctx(), want.proof, got != nil)
			return labels, false
		}
		if got != nil {
			if got.Slot != o.slot || got.Offender != c27Signers[o.signer] {
				fail("%s: proof names slot %d offender %x", ctx(), got.Slot, got.Offender)
				return labels, false
			}
			if err := c27SameHeader(&got.FirstHeader, c27Header(o.slot, want.firstVariant)); err != nil {
				fail("%s: first header is not the recorded variant %d: %v", ctx(), want.firstVariant, err)
				return labels, false
			}
			if err := c27SameHeader(&got.SecondHeader, c27Header(o.slot, o.variant)); err != nil {
				fail("%s: second header is not the checked header: %v", ctx(), err)
				return labels, false
			}
			if got.FirstHeader.Hash() == got.SecondHeader.Hash() {
				fail("%s: proof with two identical headers", ctx())
				return labels, false
			}
		}
		labels[want.kind] = true
		if want.hadEntry {
			nontrivial = true
			labels["slot-had-entry/"+want.kind] = true
		}
		if want.pruned > 0 {
			labels["pruned-records"] = true
		}
		if want.kind == "saved" && want.pruned == 0 && model.hasFirst && o.slot < model.first {
			labels["saved-below-first-saved"] = true
		}
		if o.slot > o.now {
			labels["slot-ahead-of-now"] = true
		}
		if o.now > o.slot && o.now-o.slot == c27MaxSlotCapacity {
			labels["age-exactly-1000"] = true
		}
		if want.kind == "proof" && want.pruned == 0 {
			// a proof for a slot older than the first saved slot window start or equal to it
			if model.hasFirst && o.slot == model.first {
				labels["proof-at-first-saved"] = true
			}
		}
	}
	if len(model.rec) > 0 {
		seenAfterPrune := false
		for k := range model.rec {
			if model.hasFirst && k.slot == model.first {
				seenAfterPrune = true
			}
		}
		if seenAfterPrune {
			labels["record-at-first-saved"] = true
		}
	}
	return labels, nontrivial
}

func TestC27Equivocation(t *testing.T) {
	defer kit.Flush()
	rapid.Check(t, func(t *rapid.T) {
		n := rapid.IntRange(1, 40).Draw(t, "n")
		ops := make([]c27Op, 0, n)
		var used []uint64
		prevNow := rapid.SampledFrom(c27Anchors).Draw(t, "start")
		for i := 0; i < n; i++ {
			o := c27GenOp(t, prevNow, used, ops)
			ops = append(ops, o)
			prevNow = o.now
			used = append(used, o.slot)
		}
		labels, nontrivial := c27Run(ops, t.Fatalf)
		var sb strings.Builder
		for _, o := range ops {
			sb.WriteString(o.String())
			sb.WriteString("; ")
		}
		ls := make([]string, 0, len(labels))
		for l := range labels {
			ls = append(ls, l)
		}
		kit.Case(sb.String(), nontrivial, ls...)
	})
}

// TestC27Scenarios: deterministic boundary scenarios (age exactly 1000/1001,
// pruning exactly at 2000, survivor at the new first saved slot), judged by the
// same model; they bypass the generator.
func TestC27Scenarios(t *testing.T) {
	defer kit.Flush()
	scen := map[string][]c27Op{
		"equivocation-then-duplicate": {
			{now: 5, slot: 5, signer: 0, variant: 0}, {now: 5, slot: 5, signer: 0, variant: 1},
			{now: 5, slot: 5, signer: 0, variant: 0}, {now: 6, slot: 5, signer: 1, variant: 1},
			{now: 6, slot: 5, signer: 1, variant: 1}, {now: 6, slot: 5, signer: 1, variant: 3}},
		"age-1000-checked-1001-not": {
			{now: 0, slot: 0, signer: 0, variant: 0}, {now: 1000, slot: 0, signer: 0, variant: 1},
			{now: 1001, slot: 0, signer: 0, variant: 1}, {now: 1001, slot: 1, signer: 0, variant: 0}},
		"prune-at-2000-keeps-1000": {
			{now: 0, slot: 0, signer: 0, variant: 0}, {now: 999, slot: 999, signer: 0, variant: 0},
			{now: 1000, slot: 1000, signer: 0, variant: 0}, {now: 1999, slot: 1999, signer: 1, variant: 0},
			{now: 2000, slot: 2000, signer: 0, variant: 0}, {now: 2000, slot: 1000, signer: 0, variant: 2},
			{now: 1999, slot: 999, signer: 0, variant: 2}, {now: 1000, slot: 1000, signer: 0, variant: 2},
			{now: 999, slot: 999, signer: 0, variant: 2}},
		"no-prune-at-1999": {
			{now: 0, slot: 0, signer: 0, variant: 0}, {now: 1, slot: 1, signer: 0, variant: 0},
			{now: 1999, slot: 1999, signer: 0, variant: 0}, {now: 1000, slot: 0, signer: 0, variant: 1},
			{now: 1001, slot: 1, signer: 0, variant: 1}},
		"backwards-before-first-saved": {
			{now: 3000, slot: 3000, signer: 0, variant: 0}, {now: 2999, slot: 2999, signer: 0, variant: 0},
			{now: 3000, slot: 2999, signer: 0, variant: 0}, {now: 3000, slot: 2999, signer: 0, variant: 1}},
	}
	for name, ops := range scen {
		labels, _ := c27Run(ops, func(f string, a ...any) { t.Errorf(name+": "+f, a...) })
		ls := []string{"scenario"}
		for l := range labels {
			ls = append(ls, "scenario/"+l)
		}
		kit.Case("scenario "+name, true, ls...)
	}
}
