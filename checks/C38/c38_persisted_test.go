package modules

import (
	"bytes"
	"fmt"
	"sort"
	"strings"
	"testing"

	"github.com/ChainSafe/gossamer/dot/state"
	"github.com/ChainSafe/gossamer/dot/telemetry"
	"github.com/ChainSafe/gossamer/dot/types"
	kit "github.com/ChainSafe/gossamer/internal/verifkit"
	"github.com/ChainSafe/gossamer/lib/common"
	"github.com/ChainSafe/gossamer/pkg/trie"
	"pgregory.net/rapid"
)

// The listing of a state that is persisted but NOT in the tries cache: what a
// node serves after a restart, or for an older block whose trie was evicted.
// InmemoryStorageState.GetKeysWithPrefix / Entries then rebuild the trie from
// the database (loadTrie -> LoadFromDB -> InMemoryTrie.Load).

const c38PersistedRule = "persisted states: a generated state (V0 or V1; single key / one key that is a byte prefix of every other key / general 0-10 puts; values " +
	"around the 32-byte inline threshold) is written by the node's own path (InmemoryStorageState.TrieState(parent root) -> SetVersion -> Put/Delete -> StoreTrie), " +
	"optionally followed by a second block derived from the first; one of the stored states becomes the best-block state and is listed through a FRESH " +
	"InmemoryStorageState with an EMPTY tries cache over the same database (restart / evicted trie: loadTrie -> LoadFromDB), with a fresh cache again before " +
	"some of the later requests and state_getPairs or state_getKeysPaged first in generated order; same oracle as the cached listing; non-trivial = the listed " +
	"state is not empty and some request matched >= 1 key (values compared against the reloaded state); distinct by (version, blocks, listed block, requests)"

// c38ThresholdLens: value lengths around the V1 inline/hash threshold (values
// longer than 32 bytes are stored by hash under V1).
var c38ThresholdLens = []int{0, 1, 31, 32, 33, 33, 34, 40, 64}

func c38GenThresholdValue(t *rapid.T) []byte {
	if rapid.IntRange(0, 3).Draw(t, "anyval") == 0 {
		return kit.GenValue().Draw(t, "v")
	}
	n := rapid.SampledFrom(c38ThresholdLens).Draw(t, "vlen")
	seed := rapid.Byte().Draw(t, "vseed")
	v := make([]byte, n)
	for i := range v {
		v[i] = seed + byte(i*11)
	}
	return v
}

// c38RootKeyHolder returns the key held by the root node of the state trie,
// if the root node holds a value: the key that is a prefix of every key.
func c38RootKeyHolder(m kit.OrdMap) (string, bool) {
	ks := m.Keys()
	if len(ks) == 0 {
		return "", false
	}
	for _, k := range ks[1:] {
		if !strings.HasPrefix(k, ks[0]) {
			return "", false
		}
	}
	return ks[0], true
}

// c38Block is one stored block state: model after the block and its root.
type c38Block struct {
	model kit.OrdMap
	root  common.Hash
}

// c38Store opens the parent state the way block import does, applies ops and
// stores the result. It returns the new state root.
func c38Store(ss *state.InmemoryStorageState, parent common.Hash, v1 bool, ops func(put func(k, v []byte) error, del func(k []byte) error) error) (common.Hash, error) {
	ts, err := ss.TrieState(&parent)
	if err != nil {
		return common.Hash{}, fmt.Errorf("TrieState(%s): %w", parent, err)
	}
	if v1 {
		ts.SetVersion(trie.V1)
	}
	if err := ops(ts.Put, ts.Delete); err != nil {
		return common.Hash{}, err
	}
	root, err := ts.Trie().Hash()
	if err != nil {
		return common.Hash{}, fmt.Errorf("Hash: %w", err)
	}
	if err := ss.StoreTrie(ts, nil); err != nil {
		return common.Hash{}, fmt.Errorf("StoreTrie: %w", err)
	}
	return root, nil
}

// writer returns the storage state that writes block states (its own cache,
// holding the empty trie like a node at genesis).
func (e *c38Env) writer() (*state.InmemoryStorageState, *state.Tries, error) {
	tries := state.NewTries()
	tries.SetEmptyTrie()
	ss, err := state.NewStorageState(e.db, nil, tries)
	return ss, tries, err
}

// liveModule builds a StateModule over the tries cache of the node that wrote
// the blocks (no restart): older states are served from the in-memory tries
// that later blocks were derived from. root is the best block's state root.
func (e *c38Env) liveModule(tries *state.Tries, root common.Hash) (*StateModule, error) {
	header := types.NewHeader(common.Hash{}, root, trie.EmptyHash, 0, types.NewDigest())
	bs, err := state.NewBlockStateFromGenesis(e.db, tries, header, telemetry.NewNoopMailer())
	if err != nil {
		return nil, fmt.Errorf("block state: %w", err)
	}
	ss, err := state.NewStorageState(e.db, bs, tries)
	if err != nil {
		return nil, fmt.Errorf("storage state: %w", err)
	}
	return NewStateModule(nil, ss, nil, nil), nil
}

// restarted builds a StateModule over a fresh storage state with an empty
// tries cache over the same database; root is the best block's state root.
type c38Restart struct {
	env *c38Env
	bs  *state.BlockState
}

func (e *c38Env) restartable(root common.Hash) (*c38Restart, error) {
	header := types.NewHeader(common.Hash{}, root, trie.EmptyHash, 0, types.NewDigest())
	bs, err := state.NewBlockStateFromGenesis(e.db, state.NewTries(), header, telemetry.NewNoopMailer())
	if err != nil {
		return nil, fmt.Errorf("block state: %w", err)
	}
	return &c38Restart{env: e, bs: bs}, nil
}

func (r *c38Restart) module() (*StateModule, error) {
	ss, err := state.NewStorageState(r.env.db, r.bs, state.NewTries())
	if err != nil {
		return nil, fmt.Errorf("storage state: %w", err)
	}
	return NewStateModule(nil, ss, nil, nil), nil
}

func c38First(v []byte) byte {
	if len(v) == 0 {
		return 0
	}
	return v[0]
}

func c38HexKeys(ks []string) []string {
	out := make([]string, len(ks))
	for i, k := range ks {
		out[i] = c38Hex([]byte(k))
	}
	return out
}

func TestC38PersistedListing(t *testing.T) {
	defer kit.Flush()
	kit.Note("rule", c38PersistedRule)
	env := newC38Env(t)
	rapid.Check(t, func(t *rapid.T) {
		v1 := rapid.Bool().Draw(t, "v1")
		// live: the states are listed through the cache of the node that wrote them
		// (no restart); an older state is then the in-memory trie block 2 was derived from
		live := rapid.IntRange(0, 3).Draw(t, "live") == 0
		labels := map[string]bool{}
		if live {
			labels["live-cache-of-the-writing-node"] = true
		} else {
			labels["persisted-uncached"] = true
		}
		if v1 {
			labels["v1"] = true
		}
		// ---- block 1: the shape of the state
		type kv struct{ k, v []byte }
		var puts []kv
		switch shape := rapid.IntRange(0, 9).Draw(t, "shape"); {
		case shape <= 1: // a single key: the root node is a leaf holding the value
			var k []byte
			if rapid.IntRange(0, 4).Draw(t, "longkey") == 0 {
				k = kit.GenKey().Draw(t, "k")
			} else {
				k = kit.GenShortKey().Draw(t, "k")
			}
			puts = append(puts, kv{k, c38GenThresholdValue(t)})
			labels["shape-single-key"] = true
		case shape <= 4: // one key is a byte prefix of every other key: the root branch holds its value
			base := kit.GenShortKey().Draw(t, "base")
			nExt := rapid.IntRange(1, 6).Draw(t, "next")
			for i := 0; i < nExt; i++ {
				ext := rapid.SliceOfN(rapid.SampledFrom(c38Alphabet), 1, 2).Draw(t, "ext")
				puts = append(puts, kv{append(append([]byte{}, base...), ext...), c38GenThresholdValue(t)})
			}
			if rapid.IntRange(0, 3).Draw(t, "withbase") > 0 {
				at := rapid.IntRange(0, len(puts)).Draw(t, "baseat")
				puts = append(puts[:at], append([]kv{{base, c38GenThresholdValue(t)}}, puts[at:]...)...)
			}
			labels["shape-common-prefix"] = true
		default: // general
			n := rapid.IntRange(0, 10).Draw(t, "n")
			for i := 0; i < n; i++ {
				var k []byte
				switch m := rapid.IntRange(0, 9).Draw(t, "kmode"); {
				case m <= 2 && len(puts) > 0:
					b := puts[rapid.IntRange(0, len(puts)-1).Draw(t, "ki")].k
					k = append(append([]byte{}, b...), rapid.SampledFrom(c38Alphabet).Draw(t, "ext"))
				case m == 9:
					k = kit.GenKey().Draw(t, "k")
				default:
					k = kit.GenShortKey().Draw(t, "k")
				}
				puts = append(puts, kv{k, c38GenThresholdValue(t)})
			}
			labels["shape-general"] = true
		}
		ss, liveTries, err := env.writer()
		if err != nil {
			t.Fatalf("harness: %v", err)
		}
		model := kit.OrdMap{}
		descr := fmt.Sprintf("persisted v1=%v B1[", v1)
		root, err := c38Store(ss, trie.EmptyHash, v1, func(put func(k, v []byte) error, _ func(k []byte) error) error {
			for _, p := range puts {
				if err := put(p.k, p.v); err != nil {
					return fmt.Errorf("Put(%x): %w", p.k, err)
				}
				model[string(p.k)] = append([]byte{}, p.v...)
				descr += fmt.Sprintf(" %x:%d/%02x", p.k, len(p.v), c38First(p.v))
			}
			return nil
		})
		if err != nil {
			t.Fatalf("harness: block 1: %v", err)
		}
		descr += " ]"
		blocks := []c38Block{{model.Clone(), root}}
		// ---- optional block 2 derived from block 1 (incremental write: unchanged nodes are not rewritten)
		if rapid.IntRange(0, 2).Draw(t, "block2") == 0 || (live && rapid.IntRange(0, 3).Draw(t, "block2live") > 0) {
			maxOps := 4
			if live {
				maxOps = 8
			}
			nOps := rapid.IntRange(1, maxOps).Draw(t, "nops")
			descr += " B2["
			root2, err := c38Store(ss, root, v1, func(put func(k, v []byte) error, del func(k []byte) error) error {
				for i := 0; i < nOps; i++ {
					ks := model.Keys()
					op := rapid.IntRange(0, 3).Draw(t, "op")
					switch {
					case op == 0 && len(ks) > 0: // delete an existing key
						k := []byte(ks[rapid.IntRange(0, len(ks)-1).Draw(t, "dk")])
						if err := del(k); err != nil {
							return fmt.Errorf("Delete(%x): %w", k, err)
						}
						delete(model, string(k))
						descr += fmt.Sprintf(" D%x", k)
					default:
						var k []byte
						if op == 1 && len(ks) > 0 { // overwrite (may cross the threshold)
							k = []byte(ks[rapid.IntRange(0, len(ks)-1).Draw(t, "ok")])
						} else {
							k = kit.GenShortKey().Draw(t, "nk")
						}
						v := c38GenThresholdValue(t)
						if err := put(k, v); err != nil {
							return fmt.Errorf("Put(%x): %w", k, err)
						}
						model[string(k)] = append([]byte{}, v...)
						descr += fmt.Sprintf(" %x:%d/%02x", k, len(v), c38First(v))
					}
				}
				return nil
			})
			if err != nil {
				t.Fatalf("harness: block 2: %v", err)
			}
			descr += " ]"
			blocks = append(blocks, c38Block{model.Clone(), root2})
			labels["two-blocks"] = true
		}
		// ---- which stored state is listed (the newest, or the older one)
		li := len(blocks) - 1
		if len(blocks) == 2 && (rapid.IntRange(0, 3).Draw(t, "older") == 0 || (live && rapid.Bool().Draw(t, "olderlive"))) {
			li = 0
			labels["older-block-listed"] = true
		}
		listed := blocks[li].model
		descr += fmt.Sprintf(" list=B%d", li+1)
		if len(listed) == 0 {
			labels["empty-state"] = true
		}
		if rk, ok := c38RootKeyHolder(listed); ok {
			labels["root-node-holds-value"] = true
			if v1 && len(listed[rk]) > 32 {
				labels["root-node-holds-hashed-v1-value"] = true
			}
		}
		for _, v := range listed {
			if v1 && len(v) > 32 {
				labels["hashed-v1-value"] = true
			}
			if len(v) == 32 || len(v) == 33 {
				labels["value-at-threshold-32-33"] = true
			}
		}
		rs, err := env.restartable(blocks[li].root)
		if err != nil {
			t.Fatalf("harness: %v", err)
		}
		var sm *StateModule
		if live {
			if sm, err = env.liveModule(liveTries, blocks[li].root); err != nil {
				t.Fatalf("harness: %v", err)
			}
			if li == 0 && len(blocks) == 2 {
				labels["live:older-state-listed-after-block-2-was-derived-from-it"] = true
			}
		}
		matched := false
		nReq := rapid.IntRange(1, 3).Draw(t, "nreq")
		for r := 0; r < nReq; r++ {
			fresh := !live && (r == 0 || rapid.Bool().Draw(t, "restart"))
			if fresh {
				if sm, err = rs.module(); err != nil {
					t.Fatalf("harness: %v", err)
				}
			}
			p := c38GenPrefix(t, listed)
			if kit.KnownOpen(c38ZeroNibble) && c38ZeroNibbleTrigger(listed, p) {
				kit.Excluded(c38ZeroNibble)
				continue
			}
			want := listed.WithPrefix(p)
			var qty int
			if len(want) >= 2 && rapid.IntRange(0, 2).Draw(t, "small") > 0 {
				qty = rapid.IntRange(1, len(want)-1).Draw(t, "qty")
			} else {
				qty = rapid.IntRange(1, len(want)+1).Draw(t, "qty")
			}
			ph := c38Hex(p)
			if len(p) == 0 && rapid.Bool().Draw(t, "omitprefix") {
				ph = ""
			}
			pairsFirst := rapid.Bool().Draw(t, "pairsfirst")
			mark := ""
			if fresh {
				mark = "R"
			}
			if pairsFirst {
				mark += "P"
			}
			ctx := fmt.Sprintf("state %s (%s, live=%v) request %d%s prefix %q qty %d", descr, listed.Describe(), live, r, mark, ph, qty)
			pp := c38Hex(p)
			pages := 0
			if pairsFirst {
				c38Pairs(t, sm, &pp, listed, want, ctx)
				pages = c38Page(t, sm, ph, qty, c38HexKeys(want), ctx)
			} else {
				pages = c38Page(t, sm, ph, qty, c38HexKeys(want), ctx)
				c38Pairs(t, sm, &pp, listed, want, ctx)
			}
			descr += fmt.Sprintf(" | %s%s/%d", mark, ph, qty)
			if len(want) > 0 {
				matched = true
			}
			if fresh {
				switch {
				case pairsFirst && len(p) == 0:
					labels["uncached:getPairs-all-first"] = true
				case pairsFirst:
					labels["uncached:getPairs-prefix-first"] = true
				default:
					labels["uncached:getKeysPaged-first"] = true
				}
			} else if !live {
				labels["request-on-state-cached-by-an-earlier-listing"] = true
			}
			if pages >= 2 {
				labels["pages>=2"] = true
			}
			if len(p) == 0 {
				labels["empty-prefix"] = true
			} else if len(want) == 0 {
				labels["non-matching-prefix"] = true
			}
			if _, ok := listed[string(p)]; ok {
				labels["prefix-equal-to-key"] = true
			}
		}
		var ls []string
		for l := range labels {
			ls = append(ls, l)
		}
		sort.Strings(ls)
		kit.Case(descr, len(listed) > 0 && matched, ls...)
	})
}

// TestC38PersistedRegressions: pinned persisted-and-reloaded states around the
// inline threshold, V0 and V1 (modelled on seeded change C38-c: the root node
// holding a hashed V1 value must be resolved by the database load).
func TestC38PersistedRegressions(t *testing.T) {
	defer kit.Flush()
	env := newC38Env(t)
	long := func(tag byte, n int) []byte { return bytes.Repeat([]byte{tag}, n) }
	cases := []struct {
		name   string
		model  kit.OrdMap
		prefix []byte
		qty    int
	}{
		{"single-key-33-byte-value", kit.OrdMap{"\xab\xcd": long(1, 33)}, []byte{0xab}, 1},
		{"single-key-32-byte-value", kit.OrdMap{"\xab\xcd": long(2, 32)}, []byte{}, 1},
		{"single-empty-key-long-value", kit.OrdMap{"": long(3, 64)}, []byte{}, 2},
		{"key-prefixing-all-others-long-value", kit.OrdMap{"\xab": long(4, 40), "\xab\x01": []byte("short"), "\xab\xff\x02": long(5, 50)}, []byte{}, 2},
		{"key-prefixing-all-others-long-value-by-prefix", kit.OrdMap{"\xab": long(6, 33), "\xab\x01": {}, "\xab\x10": long(7, 33)}, []byte{0xab}, 1},
		{"long-values-below-the-root", kit.OrdMap{"\xab\x01": long(8, 40), "\xab\x02\x03": []byte("short"), "\xab\x02": long(9, 41), "\xcd": {}}, []byte{0xab}, 2},
		{"empty-state", kit.OrdMap{}, []byte{}, 1},
	}
	for _, c := range cases {
		for _, v1 := range []bool{false, true} {
			for _, pairsFirst := range []bool{false, true} {
				name := fmt.Sprintf("%s v1=%v pairsFirst=%v", c.name, v1, pairsFirst)
				ss, _, err := env.writer()
				if err != nil {
					t.Fatal(err)
				}
				root, err := c38Store(ss, trie.EmptyHash, v1, func(put func(k, v []byte) error, _ func(k []byte) error) error {
					for _, k := range c.model.Keys() {
						if err := put([]byte(k), c.model[k]); err != nil {
							return err
						}
					}
					return nil
				})
				if err != nil {
					t.Fatalf("%s: %v", name, err)
				}
				rs, err := env.restartable(root)
				if err != nil {
					t.Fatalf("%s: %v", name, err)
				}
				sm, err := rs.module()
				if err != nil {
					t.Fatalf("%s: %v", name, err)
				}
				want := c.model.WithPrefix(c.prefix)
				ph := c38Hex(c.prefix)
				if msg := c38Try(func(ft interface{ Fatalf(string, ...any) }) {
					if pairsFirst {
						c38Pairs(ft, sm, &ph, c.model, want, name)
						c38Page(ft, sm, ph, c.qty, c38HexKeys(want), name)
					} else {
						c38Page(ft, sm, ph, c.qty, c38HexKeys(want), name)
						c38Pairs(ft, sm, &ph, c.model, want, name)
					}
					// and the whole state through the empty-prefix (Entries) path
					all := "0x"
					c38Pairs(ft, sm, &all, c.model, c.model.Keys(), name+" (all pairs)")
				}); msg != "" {
					t.Errorf("%s: %s", name, msg)
				}
				kit.Case(name, true, "regression", "persisted-uncached")
			}
		}
	}
}
