package modules

import (
	"bytes"
	"fmt"
	"sort"
	"strings"
	"testing"

	"github.com/ChainSafe/gossamer/dot/state"
	"github.com/ChainSafe/gossamer/dot/telemetry"
	"github.com/ChainSafe/gossamer/dot/types"
	"github.com/ChainSafe/gossamer/internal/database"
	"github.com/ChainSafe/gossamer/internal/log"
	kit "github.com/ChainSafe/gossamer/internal/verifkit"
	"github.com/ChainSafe/gossamer/lib/common"
	"github.com/ChainSafe/gossamer/pkg/trie"
	"github.com/ChainSafe/gossamer/pkg/trie/inmemory"
	"pgregory.net/rapid"
)

const c38Rule = "a generated state (0-14 entries over the nibble-colliding key alphabet, V0 or V1) is installed as the best-block state of a real dot/state " +
	"InmemoryStorageState (BlockState from a genesis header carrying the trie root + Tries) behind a real StateModule; for 1-3 generated prefixes (empty, byte prefix " +
	"of a key, equal to a key, last byte with zeroed low nibble / replaced / extended, fresh) and a page size 1..matches+1, state_getKeysPaged is called " +
	"with AfterKey = last key returned until a page comes back empty; oracle (kit.OrdMap): concatenated pages = ascending list of exactly the model's keys " +
	"with the byte prefix, every page but the last full, at most ceil(n/qty)+1 calls; state_getPairs(prefix) = exactly those keys with the model's values; " +
	"non-trivial = some prefix needed >= 2 non-empty pages; distinct by (version, state, requests)"

const c38ZeroNibble = "C38-zero-nibble-prefix"

var c38Alphabet = []byte{0x00, 0x01, 0x0f, 0x10, 0x11, 0x1f, 0xf0, 0xff}

func c38TrimmedNibbleMatches(m kit.OrdMap, p []byte) int {
	pn := kit.KeyNibbles(p)
	if len(pn) > 0 && pn[len(pn)-1] == 0 {
		pn = pn[:len(pn)-1]
	}
	n := 0
	for k := range m {
		if bytes.HasPrefix(kit.KeyNibbles([]byte(k)), pn) {
			n++
		}
	}
	return n
}

// c38ZeroNibbleTrigger: the prefix's last byte has a zero low nibble and the
// nibble prefix without that nibble matches other keys than the byte prefix.
func c38ZeroNibbleTrigger(m kit.OrdMap, p []byte) bool {
	if len(p) == 0 || p[len(p)-1]&0x0f != 0 {
		return false
	}
	return c38TrimmedNibbleMatches(m, p) != len(m.WithPrefix(p))
}

type c38Env struct {
	db database.Database
}

func newC38Env(t *testing.T) *c38Env {
	// dot/state logs one INFO line per genesis block; thousands of cases would drown the output
	log.Patch(log.SetLevel(log.Critical))
	db, err := database.LoadDatabase(t.TempDir(), true)
	if err != nil {
		t.Fatalf("database: %v", err)
	}
	t.Cleanup(func() { _ = db.Close() })
	return &c38Env{db: db}
}

// module builds a StateModule over a real InmemoryStorageState whose best
// block (the genesis block) has the given trie as its state.
func (e *c38Env) module(tr *inmemory.InMemoryTrie) (*StateModule, error) {
	tries := state.NewTries()
	tries.SetTrie(tr)
	root, err := tr.Hash()
	if err != nil {
		return nil, err
	}
	header := types.NewHeader(common.Hash{}, root, trie.EmptyHash, 0, types.NewDigest())
	bs, err := state.NewBlockStateFromGenesis(e.db, tries, header, telemetry.NewNoopMailer())
	if err != nil {
		return nil, fmt.Errorf("block state: %w", err)
	}
	ss, err := state.NewStorageState(e.db, bs, tries)
	if err != nil {
		return nil, fmt.Errorf("storage state: %w", err)
	}
	return NewStateModule(nil, ss, nil, nil), nil
}

func c38Hex(b []byte) string { return fmt.Sprintf("0x%x", b) }

func c38GenPrefix(t *rapid.T, model kit.OrdMap) []byte {
	ks := model.Keys()
	mode := rapid.IntRange(0, 10).Draw(t, "pmode")
	if mode == 0 {
		return []byte{}
	}
	if len(ks) > 0 && mode <= 8 {
		k := []byte(ks[rapid.IntRange(0, len(ks)-1).Draw(t, "ki")])
		if mode == 1 { // equal to a key
			return k
		}
		p := append([]byte{}, k[:rapid.IntRange(0, len(k)).Draw(t, "cut")]...)
		switch {
		case mode <= 4: // byte prefix of a key
			return p
		case mode <= 6 && len(p) > 0: // low nibble of the last byte zeroed
			p[len(p)-1] &= 0xf0
			return p
		case mode == 7 && len(p) > 0: // last byte replaced
			p[len(p)-1] = rapid.SampledFrom(c38Alphabet).Draw(t, "sib")
			return p
		default: // extended by one byte
			return append(p, rapid.SampledFrom(c38Alphabet).Draw(t, "ext"))
		}
	}
	return kit.GenShortKey().Draw(t, "p")
}

// c38Page runs the paging loop for one prefix and checks it against want
// (ascending matching keys, hex). It returns the number of non-empty pages.
func c38Page(t interface{ Fatalf(string, ...any) }, sm *StateModule, prefixHex string, qty int, want []string, ctx string) int {
	var all []string
	after := ""
	calls, pages := 0, 0
	maxCalls := (len(want)+qty-1)/qty + 1
	for {
		calls++
		if calls > maxCalls {
			t.Fatalf("%s: paging does not terminate within ceil(%d/%d)+1 = %d calls; keys so far %v", ctx, len(want), qty, maxCalls, all)
		}
		var res StateStorageKeysResponse
		req := &StateStorageKeyRequest{Prefix: prefixHex, Qty: uint32(qty), AfterKey: after}
		if err := sm.GetKeysPaged(nil, req, &res); err != nil {
			t.Fatalf("%s: GetKeysPaged(after=%q): %v", ctx, after, err)
		}
		if len(res) == 0 {
			break
		}
		pages++
		if len(res) > qty {
			t.Fatalf("%s: page after %q has %d keys, page size %d: %v", ctx, after, len(res), qty, []string(res))
		}
		for _, k := range res {
			if len(all) >= len(want) || want[len(all)] != k {
				t.Fatalf("%s: page after %q = %v: key %s at position %d of the enumeration, model (ascending keys with the prefix) = %v",
					ctx, after, []string(res), k, len(all), want)
			}
			all = append(all, k)
		}
		after = res[len(res)-1]
		if len(res) < qty && len(all) < len(want) {
			t.Fatalf("%s: short page %v after %q although keys remain; want all of %v", ctx, []string(res), after, want)
		}
	}
	if strings.Join(all, " ") != strings.Join(want, " ") {
		t.Fatalf("%s: pages concatenated = %v, model (ascending keys with the prefix) = %v", ctx, all, want)
	}
	return pages
}

func c38Pairs(t interface{ Fatalf(string, ...any) }, sm *StateModule, prefixHex *string, model kit.OrdMap, want []string, ctx string) {
	var res StatePairResponse
	if err := sm.GetPairs(nil, &StatePairRequest{Prefix: prefixHex}, &res); err != nil {
		t.Fatalf("%s: GetPairs: %v", ctx, err)
	}
	var got []string
	for _, it := range res {
		kv, ok := it.([]string)
		if !ok || len(kv) != 2 {
			t.Fatalf("%s: GetPairs item %#v is not a [key, value] pair", ctx, it)
		}
		got = append(got, kv[0]+"="+kv[1])
	}
	sort.Strings(got) // the pair listing is compared as a set; duplicates stay visible
	var wantPairs []string
	for _, k := range want {
		wantPairs = append(wantPairs, c38Hex([]byte(k))+"="+c38Hex(model[k]))
	}
	sort.Strings(wantPairs)
	if strings.Join(got, " ") != strings.Join(wantPairs, " ") {
		t.Fatalf("%s: GetPairs = %v, model = %v", ctx, got, wantPairs)
	}
}

func c38Build(v1 bool, model kit.OrdMap) (*inmemory.InMemoryTrie, error) {
	tr := inmemory.NewEmptyTrie()
	if v1 {
		tr.SetVersion(trie.V1)
	}
	for _, k := range model.Keys() {
		if err := tr.Put([]byte(k), model[k]); err != nil {
			return nil, err
		}
	}
	return tr, nil
}

func TestC38Paging(t *testing.T) {
	defer kit.Flush()
	kit.Note("rule", c38Rule)
	env := newC38Env(t)
	rapid.Check(t, func(t *rapid.T) {
		v1 := rapid.Bool().Draw(t, "v1")
		n := rapid.IntRange(0, 14).Draw(t, "n")
		model := kit.OrdMap{}
		tr := inmemory.NewEmptyTrie()
		if v1 {
			tr.SetVersion(trie.V1)
		}
		var pool [][]byte
		for i := 0; i < n; i++ {
			var k []byte
			switch m := rapid.IntRange(0, 9).Draw(t, "kmode"); {
			case m <= 2 && len(pool) > 0: // extension of an earlier key: keys that are prefixes of keys
				b := pool[rapid.IntRange(0, len(pool)-1).Draw(t, "ki")]
				k = append(append([]byte{}, b...), rapid.SampledFrom(c38Alphabet).Draw(t, "ext"))
			case m == 9:
				k = kit.GenKey().Draw(t, "k")
			default:
				k = kit.GenShortKey().Draw(t, "k")
			}
			pool = append(pool, k)
			v := kit.GenValue().Draw(t, "v")
			// insertion order is the generated order (not sorted), overwrites included
			if err := tr.Put(k, v); err != nil {
				t.Fatalf("Put: %v", err)
			}
			model[string(k)] = append([]byte{}, v...)
		}
		// "for every state": also states reached through deletions and (limited) prefix
		// clears, whose in-memory nodes carry history-dependent bookkeeping. The contents
		// after such an operation are re-read key by key with point reads (Get), which
		// share no code with the listing functions under test; what a limited clear
		// removes is C02's subject, not C38's.
		history := ""
		nHist := 0
		if len(pool) > 0 && rapid.IntRange(0, 2).Draw(t, "hist") > 0 {
			nHist = rapid.IntRange(1, 4).Draw(t, "nhist")
		}
		for i := 0; i < nHist; i++ {
			b := pool[rapid.IntRange(0, len(pool)-1).Draw(t, "hk")]
			pfx := append([]byte{}, b[:rapid.IntRange(0, len(b)).Draw(t, "hcut")]...)
			switch rapid.IntRange(0, 3).Draw(t, "hop") {
			case 0:
				if err := tr.Delete(b); err != nil {
					t.Fatalf("Delete: %v", err)
				}
				history += fmt.Sprintf(" D%x", b)
			case 1:
				if err := tr.ClearPrefix(pfx); err != nil {
					t.Fatalf("ClearPrefix: %v", err)
				}
				history += fmt.Sprintf(" C%x", pfx)
			default:
				lim := uint32(rapid.IntRange(1, 4).Draw(t, "hlim"))
				if _, _, err := tr.ClearPrefixLimit(pfx, lim); err != nil {
					t.Fatalf("ClearPrefixLimit: %v", err)
				}
				history += fmt.Sprintf(" L%x/%d", pfx, lim)
			}
			for k := range model {
				if v := tr.Get([]byte(k)); v == nil {
					delete(model, k)
				} else if !bytes.Equal(v, model[k]) {
					t.Fatalf("harness: Get(%x) changed from %x to %x after%s", k, model[k], v, history)
				}
			}
		}
		sm, err := env.module(tr)
		if err != nil {
			t.Fatalf("harness: %v", err)
		}
		descr := fmt.Sprintf("v1=%v %s%s", v1, model.Describe(), history)
		labels := map[string]bool{}
		if nHist > 0 {
			labels["state-reached-through-deletes-or-prefix-clears"] = true
		}
		if v1 {
			labels["v1"] = true
		}
		multiPage := false
		nReq := rapid.IntRange(1, 3).Draw(t, "nreq")
		for r := 0; r < nReq; r++ {
			p := c38GenPrefix(t, model)
			if kit.KnownOpen(c38ZeroNibble) && c38ZeroNibbleTrigger(model, p) {
				kit.Excluded(c38ZeroNibble)
				continue
			}
			want := model.WithPrefix(p)
			var qty int
			if len(want) >= 2 && rapid.IntRange(0, 2).Draw(t, "small") > 0 {
				qty = rapid.IntRange(1, len(want)-1).Draw(t, "qty") // several pages
			} else {
				qty = rapid.IntRange(1, len(want)+1).Draw(t, "qty")
			}
			wantHex := make([]string, len(want))
			for i, k := range want {
				wantHex[i] = c38Hex([]byte(k))
			}
			ph := c38Hex(p)
			if len(p) == 0 && rapid.Bool().Draw(t, "omitprefix") {
				ph = "" // the RPC treats an omitted prefix as "0x"
			}
			ctx := fmt.Sprintf("state %s prefix %q qty %d", descr, ph, qty)
			pages := c38Page(t, sm, ph, qty, wantHex, ctx)
			pp := c38Hex(p)
			c38Pairs(t, sm, &pp, model, want, ctx)
			descr += fmt.Sprintf(" | %s/%d", ph, qty)
			if pages >= 2 {
				multiPage = true
				labels["pages>=2"] = true
			}
			switch {
			case len(p) == 0:
				labels["empty-prefix"] = true
			case len(want) == 0:
				labels["non-matching-prefix"] = true
			}
			if len(p) > 0 && p[len(p)-1]&0x0f == 0 {
				labels["zero-low-nibble-prefix"] = true
			}
			if _, ok := model[string(p)]; ok {
				labels["prefix-equal-to-key"] = true
			}
			if len(want) > 0 && len(want)%qty == 0 {
				labels["last-page-full"] = true
			}
			if qty == 1 && len(want) >= 2 {
				labels["qty-1"] = true
			}
			if qty > len(want) {
				labels["qty>matches"] = true
			}
			for i := 0; i+1 < len(want); i++ {
				if strings.HasPrefix(want[i+1], want[i]) {
					labels["key-is-prefix-of-key"] = true
				}
			}
		}
		var ls []string
		for l := range labels {
			ls = append(ls, l)
		}
		sort.Strings(ls)
		kit.Case(descr, multiPage, ls...)
	})
}

type c38Fatal struct{ msg string }

type c38Recorder struct{}

func (c38Recorder) Fatalf(f string, a ...any) { panic(c38Fatal{fmt.Sprintf(f, a...)}) }

// c38Try runs f and returns the message of the oracle failure, if any.
func c38Try(f func(t interface{ Fatalf(string, ...any) })) (msg string) {
	defer func() {
		if r := recover(); r != nil {
			if cf, ok := r.(c38Fatal); ok {
				msg = cf.msg
				return
			}
			msg = fmt.Sprintf("panic: %v", r)
		}
	}()
	f(c38Recorder{})
	return ""
}

// TestC38Regressions: plain deterministic cases (shrunk failures repaired by
// checks/C02/fixes/01, and basic paging shapes).
func TestC38Regressions(t *testing.T) {
	defer kit.Flush()
	env := newC38Env(t)
	cases := []struct {
		name   string
		model  kit.OrdMap
		prefix []byte
		qty    int
	}{
		{"prefix-diverges-from-branch-partial-key", kit.OrdMap{"\x13\x00": {1}, "\x13\x11": {2}}, []byte{0x12}, 1},
		{"prefix-diverges-longer", kit.OrdMap{"\x13\x05": {1}, "\x13\x11": {2}}, []byte{0x12, 0x05}, 1},
		{"two-pages", kit.OrdMap{"\x01": {1}, "\x01\x00": {}, "\x01\x01": {3}, "\x02": {4}}, []byte{0x01}, 2},
		{"empty-key-first", kit.OrdMap{"": {9}, "\x00": {1}, "\xff": {2}}, []byte{}, 1},
	}
	for _, c := range cases {
		for _, v1 := range []bool{false, true} {
			tr, err := c38Build(v1, c.model)
			if err != nil {
				t.Fatal(err)
			}
			sm, err := env.module(tr)
			if err != nil {
				t.Fatal(err)
			}
			want := c.model.WithPrefix(c.prefix)
			wantHex := make([]string, len(want))
			for i, k := range want {
				wantHex[i] = c38Hex([]byte(k))
			}
			ph := c38Hex(c.prefix)
			if msg := c38Try(func(ft interface{ Fatalf(string, ...any) }) {
				c38Page(ft, sm, ph, c.qty, wantHex, c.name)
				c38Pairs(ft, sm, &ph, c.model, want, c.name)
			}); msg != "" {
				t.Errorf("%s v1=%v: %s", c.name, v1, msg)
			}
			kit.Case(fmt.Sprintf("%s v1=%v", c.name, v1), true, "regression")
		}
	}
}

// TestC38KnownZeroNibblePrefix: witness of finding C38-zero-nibble-prefix.
func TestC38KnownZeroNibblePrefix(t *testing.T) {
	defer kit.Flush()
	env := newC38Env(t)
	model := kit.OrdMap{"\x10\x01": {1}, "\x11\x01": {2}, "\x20": {3}}
	tr, err := c38Build(false, model)
	if err != nil {
		t.Fatal(err)
	}
	sm, err := env.module(tr)
	if err != nil {
		t.Fatal(err)
	}
	var paged []string
	after := ""
	for i := 0; i < 5; i++ {
		var res StateStorageKeysResponse
		if err := sm.GetKeysPaged(nil, &StateStorageKeyRequest{Prefix: "0x10", Qty: 1, AfterKey: after}, &res); err != nil {
			t.Fatalf("GetKeysPaged: %v", err)
		}
		if len(res) == 0 {
			break
		}
		paged = append(paged, res...)
		after = res[len(res)-1]
	}
	var pr StatePairResponse
	p := "0x10"
	if err := sm.GetPairs(nil, &StatePairRequest{Prefix: &p}, &pr); err != nil {
		t.Fatalf("GetPairs: %v", err)
	}
	var pairs []string
	for _, it := range pr {
		pairs = append(pairs, strings.Join(it.([]string), "="))
	}
	gotPaged, gotPairs := strings.Join(paged, " "), strings.Join(pairs, " ")
	const rightK, wideK = "0x1001", "0x1001 0x1101"
	const rightP, wideP = "0x1001=0x01", "0x1001=0x01 0x1101=0x02"
	switch {
	case gotPaged == wideK && gotPairs == wideP:
		kit.WitnessResult(c38ZeroNibble, true, "on {1001,1101,20} state_getKeysPaged and state_getPairs with prefix 0x10 also list 0x1101")
	case gotPaged == rightK && gotPairs == rightP:
		kit.WitnessResult(c38ZeroNibble, false, "")
	default:
		t.Fatalf("prefix 0x10 on {1001,1101,20}: paged %q pairs %q: neither the byte-wise nor the trimmed-nibble result", gotPaged, gotPairs)
	}
}
