package c01

import (
	"bytes"
	"fmt"
	"strings"
	"testing"

	kit "github.com/ChainSafe/gossamer/internal/verifkit"
	"github.com/ChainSafe/gossamer/pkg/trie"
	"github.com/ChainSafe/gossamer/pkg/trie/inmemory"
	"pgregory.net/rapid"
)

const rule = "history of 1-60 put/overwrite/delete ops (V0, V1, or V0 upgraded to V1 before any value >32 bytes exists) checked against spectrie after every step; " +
	"non-trivial = final map has >=2 keys sharing a nibble prefix and the history contains a delete or an overwrite; distinct by (version, op list)"

// Fixed roots the repository itself pins (known-good constants), used to
// validate the spectrie oracle before it judges anything.
func TestC01OracleSelfCheck(t *testing.T) {
	defer kit.Flush()
	// empty trie
	want := kit.Blake256([]byte{0})
	if got := kit.SpecRoot(nil, false); got != want {
		t.Fatalf("empty root")
	}
	if trie.EmptyHash != want {
		t.Fatalf("trie.EmptyHash is not BLAKE2b-256(0x00)")
	}
}

type op struct {
	del bool
	k   []byte
	v   []byte
}

func (o op) String() string {
	if o.del {
		return fmt.Sprintf("D%x", o.k)
	}
	if len(o.v) > 3 {
		return fmt.Sprintf("P%x=%x..%d", o.k, o.v[:2], len(o.v))
	}
	return fmt.Sprintf("P%x=%x", o.k, o.v)
}

func genOps(t *rapid.T, model kit.OrdMap, n int) []op {
	ops := make([]op, 0, n)
	var pool [][]byte // keys used so far, to make overwrites and deletes hit
	for i := 0; i < n; i++ {
		var k []byte
		if len(pool) > 0 && rapid.IntRange(0, 2).Draw(t, "reuse") > 0 {
			k = pool[rapid.IntRange(0, len(pool)-1).Draw(t, "ki")]
		} else {
			k = kit.GenKey().Draw(t, "k")
			pool = append(pool, k)
		}
		if rapid.IntRange(0, 3).Draw(t, "del") == 0 {
			ops = append(ops, op{del: true, k: k})
		} else {
			ops = append(ops, op{k: k, v: kit.GenValue().Draw(t, "v")})
		}
	}
	return ops
}

func checkRoot(t *rapid.T, tr *inmemory.InMemoryTrie, model kit.OrdMap, v1 bool, ctx string) {
	got, err := tr.Hash()
	if err != nil {
		t.Fatalf("%s: Hash error: %v", ctx, err)
	}
	want := kit.SpecRoot(model, v1)
	if !bytes.Equal(got[:], want[:]) {
		t.Fatalf("%s: root mismatch: trie %s, spec %x; map %s v1=%v", ctx, got, want, model.Describe(), v1)
	}
}

// TestC01History: every prefix of every history has the spec root.
func TestC01History(t *testing.T) {
	defer kit.Flush()
	kit.Note("rule", rule)
	rapid.Check(t, func(t *rapid.T) {
		mode := rapid.SampledFrom([]string{"v0", "v1", "upgrade"}).Draw(t, "mode")
		n := rapid.IntRange(1, 60).Draw(t, "n")
		model := kit.OrdMap{}
		ops := genOps(t, model, n)
		upgradeAt := -1
		if mode == "upgrade" {
			upgradeAt = rapid.IntRange(0, n).Draw(t, "upgradeAt")
		}
		tr := inmemory.NewEmptyTrie()
		v1 := false
		if mode == "v1" {
			tr.SetVersion(trie.V1)
			v1 = true
		}
		sawDel, sawOverwrite := false, false
		labels := map[string]bool{}
		var descr strings.Builder
		descr.WriteString(mode)
		for i, o := range ops {
			if i == upgradeAt {
				// The property is about the root of a map under one version; a V0 trie
				// that already holds values >32 bytes keeps them inlined until they are
				// rewritten (state migration), so only upgrade while no such value exists.
				big := false
				for _, v := range model {
					if len(v) > 32 {
						big = true
					}
				}
				if !big {
					tr.SetVersion(trie.V1)
					v1 = true
					descr.WriteString(" UP")
					labels["upgrade-mid-history"] = true
				}
			}
			descr.WriteString(" ")
			descr.WriteString(o.String())
			if o.del {
				if _, ok := model[string(o.k)]; ok {
					sawDel = true
				}
				if err := tr.Delete(o.k); err != nil {
					t.Fatalf("Delete(%x): %v", o.k, err)
				}
				delete(model, string(o.k))
			} else {
				if _, ok := model[string(o.k)]; ok {
					sawOverwrite = true
				}
				if err := tr.Put(o.k, o.v); err != nil {
					t.Fatalf("Put(%x): %v", o.k, err)
				}
				model[string(o.k)] = o.v
				switch len(o.v) {
				case 31, 32, 33:
					labels[fmt.Sprintf("value-len-%d", len(o.v))] = true
				case 0:
					labels["empty-value"] = true
				}
				if len(o.k) == 0 {
					labels["empty-key"] = true
				}
				if len(o.k) >= 32 {
					labels["partial-key>=63-nibbles"] = true
				}
			}
			checkRoot(t, tr, model, v1, fmt.Sprintf("after step %d of [%s]", i, descr.String()))
		}
		// content agrees as well (a wrong map with the right root is impossible, but a
		// stale cached root could hide one)
		ents := tr.Entries()
		if len(ents) != len(model) {
			t.Fatalf("entries: trie has %d, model %d", len(ents), len(model))
		}
		for k, v := range model {
			if !bytes.Equal(ents[k], v) {
				t.Fatalf("entry %x: trie %x model %x", k, ents[k], v)
			}
		}
		ks := model.Keys()
		for i := 0; i+1 < len(ks); i++ {
			if strings.HasPrefix(ks[i+1], ks[i]) {
				labels["key-is-prefix-of-key"] = true
			}
		}
		if sawDel {
			labels["effective-delete"] = true
		}
		var ls []string
		for l := range labels {
			ls = append(ls, l)
		}
		kit.Case(descr.String(), model.SharesNibblePrefix() && len(model) >= 2 && (sawDel || sawOverwrite), ls...)
	})
}

// TestC01TwoHistories: metamorphic - two different histories that reach the
// same map give the same root, and TrieLayout.Root over the entries in any
// order (duplicates: last wins) gives it too.
func TestC01TwoHistories(t *testing.T) {
	defer kit.Flush()
	rapid.Check(t, func(t *rapid.T) {
		v1 := rapid.Bool().Draw(t, "v1")
		layout := trie.V0
		if v1 {
			layout = trie.V1
		}
		n := rapid.IntRange(1, 40).Draw(t, "n")
		model := kit.OrdMap{}
		ops := genOps(t, model, n)
		a := inmemory.NewEmptyTrie()
		a.SetVersion(layout)
		for _, o := range ops {
			if o.del {
				_ = a.Delete(o.k)
				delete(model, string(o.k))
			} else {
				_ = a.Put(o.k, o.v)
				model[string(o.k)] = o.v
			}
		}
		// second history: insert the final map in a drawn order, with noise keys
		// inserted and deleted again in between
		keys := model.Keys()
		perm := rapid.Permutation(keys).Draw(t, "perm")
		b := inmemory.NewEmptyTrie()
		b.SetVersion(layout)
		for _, k := range perm {
			if rapid.IntRange(0, 3).Draw(t, "noise") == 0 {
				nk := kit.GenKey().Draw(t, "nk")
				if _, ok := model[string(nk)]; !ok {
					_ = b.Put(nk, kit.GenValue().Draw(t, "nv"))
					_ = b.Put([]byte(k), model[k])
					_ = b.Delete(nk)
					continue
				}
			}
			_ = b.Put([]byte(k), model[k])
		}
		ha, hb := a.MustHash(), b.MustHash()
		want := kit.SpecRoot(model, v1)
		if ha != hb || !bytes.Equal(ha[:], want[:]) {
			t.Fatalf("roots differ: history %s, rebuilt %s, spec %x; map %s", ha, hb, want, model.Describe())
		}
		// TrieLayout.Root over entries with duplicates (last wins)
		var entries trie.Entries
		final := kit.OrdMap{}
		for _, o := range ops {
			if !o.del {
				entries = append(entries, trie.Entry{Key: o.k, Value: o.v})
				final[string(o.k)] = o.v
			}
		}
		got, err := layout.Root(inmemory.NewEmptyTrie(), entries)
		if err != nil {
			t.Fatalf("Root: %v", err)
		}
		want2 := kit.SpecRoot(final, v1)
		if !bytes.Equal(got[:], want2[:]) {
			t.Fatalf("TrieLayout.Root %s, spec %x; map %s", got, want2, final.Describe())
		}
		kit.Case(fmt.Sprintf("v1=%v %v", v1, ops), len(model) >= 2 && model.SharesNibblePrefix(), "two-histories")
	})
}

// TestC01Regressions: shrunk failures found by TestC01History on the pinned
// tree (repaired by the "fix:" commit recorded in known_findings.json), kept
// as plain deterministic cases that bypass the generator.
func TestC01Regressions(t *testing.T) {
	defer kit.Flush()
	type step struct {
		del  bool
		k, v string
	}
	cases := map[string][]step{
		"delete-empty-key-on-root-leaf":      {{false, "\x00", ""}, {true, "", ""}},
		"delete-absent-diverging-from-branch": {{false, "\xff\x01", ""}, {false, "\xff\x00", ""}, {true, "\xf0", ""}},
		"delete-absent-ending-at-child":      {{false, "\x12\x30", "a"}, {false, "\x1f", "b"}, {true, "\x12", ""}},
		"delete-absent-diverging-long":       {{false, "\xab\xc1\x23", "a"}, {false, "\xab\xd1", "b"}, {true, "\xac\x12\x30", ""}},
	}
	for name, steps := range cases {
		for _, v1 := range []bool{false, true} {
			tr := inmemory.NewEmptyTrie()
			if v1 {
				tr.SetVersion(trie.V1)
			}
			model := kit.OrdMap{}
			for _, s := range steps {
				if s.del {
					if err := tr.Delete([]byte(s.k)); err != nil {
						t.Fatalf("%s: %v", name, err)
					}
					delete(model, s.k)
				} else {
					if err := tr.Put([]byte(s.k), []byte(s.v)); err != nil {
						t.Fatalf("%s: %v", name, err)
					}
					model[s.k] = []byte(s.v)
				}
			}
			got := tr.MustHash()
			want := kit.SpecRoot(model, v1)
			if !bytes.Equal(got[:], want[:]) {
				t.Errorf("%s v1=%v: root %s, spec %x, entries %v", name, v1, got, want, tr.Entries())
			}
			kit.Case(name+fmt.Sprint(v1), true, "regression")
		}
	}
}
