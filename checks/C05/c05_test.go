package proof

// C05 - storage read proofs are complete and sound.
//
// In-package check of pkg/trie/inmemory/proof: states are generated as maps,
// built with the in-memory trie, persisted with WriteDirty into a map-backed
// database; the root handed to Generate / Verify is always the from-the-spec
// root of the map (kit.SpecRoot), so every judgement is made against the map
// and never against the trie code itself.

import (
	"bytes"
	"errors"
	"fmt"
	"runtime/debug"
	"sort"
	"strings"
	"testing"

	"github.com/ChainSafe/gossamer/internal/database"
	"github.com/ChainSafe/gossamer/internal/log"
	kit "github.com/ChainSafe/gossamer/internal/verifkit"
	"github.com/ChainSafe/gossamer/pkg/trie"
	"github.com/ChainSafe/gossamer/pkg/trie/inmemory"
	"pgregory.net/rapid"
)

const c05Rule = "state = map of 0-12 keys (nibble-colliding alphabet, derived prefix/extension keys, long keys) with values of 0..100 bytes, V0 or V1, " +
	"persisted with WriteDirty; honest proof for a drawn subset of present keys (completeness: Generate ok, Verify(k, model[k]) and Verify(k, empty) nil); " +
	"(every Verify call is preceded by a Verify against the empty state with the empty node as proof: verifications must not depend on each other); then up to 8 adversarial variants of the proof (drop / duplicate / reorder / foreign nodes of a neighbouring state / byte flip / truncation / random and special byte strings / value pre-images / hash of a stored-by-hash value without its trailing zero bytes (in a quarter of the V1 states one value hash ends in a zero byte) / all nodes) " +
	"x claims (present key with true, wrong, hash-of-value, empty value; absent keys derived from present keys or fresh, with empty and borrowed values): " +
	"Verify == nil => claim true in the map. non-trivial = the map has >= 2 keys sharing a nibble prefix and (a V1 value > 32 bytes is among the proven keys or >= 1 variant differs from the honest proof as a multiset) " +
	"and >= 1 false claim was evaluated; distinct by (version, map, proven keys, variant ops, claims)"

func init() {
	// loadProof logs every visited child at Info level
	logger.Patch(log.SetLevel(log.Critical))
}

// ---------------------------------------------------------------------------
// map-backed database (db.DBGetter + db.NewBatcher), missing key = error like Pebble

var errC05NotFound = errors.New("c05 memdb: not found")

type c05DB struct{ m map[string][]byte }

func newC05DB() *c05DB { return &c05DB{m: map[string][]byte{}} }

func (d *c05DB) Get(k []byte) ([]byte, error) {
	v, ok := d.m[string(k)]
	if !ok {
		return nil, errC05NotFound
	}
	return append([]byte{}, v...), nil
}
func (d *c05DB) Put(k, v []byte) error {
	d.m[string(k)] = append([]byte{}, v...)
	return nil
}
func (d *c05DB) NewBatch() database.Batch { return &c05Batch{d} }

type c05Batch struct{ d *c05DB }

func (b *c05Batch) Put(k, v []byte) error { return b.d.Put(k, v) }
func (b *c05Batch) Del(k []byte) error    { delete(b.d.m, string(k)); return nil }
func (b *c05Batch) Flush() error          { return nil }
func (b *c05Batch) Close() error          { return nil }
func (b *c05Batch) ValueSize() int        { return 0 }
func (b *c05Batch) Reset()                {}

// ---------------------------------------------------------------------------
// state

type c05State struct {
	model kit.OrdMap
	v1    bool
	root  [32]byte
	db    *c05DB
}

type fataler interface {
	Fatalf(format string, args ...any)
}

func c05Build(t fataler, model kit.OrdMap, v1 bool) *c05State {
	tr := inmemory.NewEmptyTrie()
	if v1 {
		tr.SetVersion(trie.V1)
	}
	for _, k := range model.Keys() {
		if err := tr.Put([]byte(k), model[k]); err != nil {
			t.Fatalf("harness: Put(%x): %v", k, err)
		}
	}
	st := &c05State{model: model, v1: v1, root: kit.SpecRoot(model, v1), db: newC05DB()}
	got := tr.MustHash()
	if !bytes.Equal(got[:], st.root[:]) {
		t.Fatalf("harness precondition (property C01, not C05): trie root %s != spec root %x for %s v1=%v", got, st.root, model.Describe(), v1)
	}
	if err := tr.WriteDirty(st.db); err != nil {
		t.Fatalf("harness: WriteDirty: %v", err)
	}
	return st
}

// c05TrimmedHash returns BLAKE2b-256(v) without its trailing zero bytes (at
// least one byte is cut): a byte string shorter than a hash that a proof
// database keyed by anything but the digest of its items might file under the
// value's hash.
func c05TrimmedHash(v []byte) []byte {
	h := kit.Blake256(v)
	n := 31
	for n > 0 && h[n-1] == 0 && h[n] == 0 {
		n--
	}
	return append([]byte{}, h[:n]...)
}

// c05ZeroTailKeys: keys whose value is stored by hash (V1, > 32 bytes) and
// whose value hash ends in a zero byte.
func c05ZeroTailKeys(st *c05State) (out []string) {
	if !st.v1 {
		return nil
	}
	for _, k := range st.model.Keys() {
		if v := st.model[k]; len(v) > 32 {
			if h := kit.Blake256(v); h[31] == 0 {
				out = append(out, k)
			}
		}
	}
	return out
}

// c05ZeroTailValue returns a 40-byte value derived from seed whose BLAKE2b-256
// hash ends in a zero byte (about 256 trials).
func c05ZeroTailValue(seed byte) []byte {
	v := make([]byte, 40)
	for i := range v {
		v[i] = seed + byte(i*3)
	}
	for c := 0; c < 1<<20; c++ {
		v[36], v[37], v[38] = byte(c), byte(c>>8), byte(c>>16)
		if h := kit.Blake256(v); h[31] == 0 {
			return v
		}
	}
	return v
}

// claimTrue is the oracle: what a nil result of Verify(proof, root, k, v) asserts.
// Verify documents "compare the value only if the caller pass a non empty value",
// so an empty v only claims that k exists.
func claimTrue(model kit.OrdMap, k, v []byte) bool {
	mv, ok := model[string(k)]
	if !ok {
		return false
	}
	if len(v) == 0 {
		return true
	}
	return bytes.Equal(mv, v)
}

func c05Generate(t fataler, st *c05State, keys [][]byte) (p [][]byte, err error) {
	defer func() {
		if r := recover(); r != nil {
			t.Fatalf("Generate panicked: %v; state %s v1=%v keys %x\n%s", r, st.model.Describe(), st.v1, keys, debug.Stack())
		}
	}()
	return Generate(st.root[:], keys, st.db)
}

var c05EmptyRoot = kit.Blake256([]byte{0x00})

func c05Verify(t fataler, st *c05State, p [][]byte, k, v []byte) (err error) {
	defer func() {
		if r := recover(); r != nil {
			t.Fatalf("Verify panicked: %v; state %s v1=%v proof %s key %x value %x\n%s", r, st.model.Describe(), st.v1, descrProof(p), k, v, debug.Stack())
		}
	}()
	// verifications are independent of each other: a lookup against the empty state
	// (its proof is the empty node, its root BLAKE2b-256(0x00)) precedes every call
	func() {
		defer func() { _ = recover() }()
		_ = Verify([][]byte{{0x00}}, c05EmptyRoot[:], []byte{0x01}, nil)
	}()
	// Verify must not be handed slices it could corrupt for the next call
	cp := make([][]byte, len(p))
	for i := range p {
		cp[i] = append([]byte{}, p[i]...)
	}
	return Verify(cp, st.root[:], append([]byte{}, k...), append([]byte(nil), v...))
}

func descrProof(p [][]byte) string {
	var sb strings.Builder
	sb.WriteString("[")
	for i, n := range p {
		if i > 0 {
			sb.WriteString(" ")
		}
		fmt.Fprintf(&sb, "%x", n)
	}
	sb.WriteString("]")
	return sb.String()
}

func shortHex(b []byte) string {
	if len(b) > 6 {
		return fmt.Sprintf("%x..%d", b[:3], len(b))
	}
	return fmt.Sprintf("%x", b)
}

// ---------------------------------------------------------------------------
// structure of the spec trie of a map (for labels and for the trigger classes
// of known findings): computed from the map only.

// isBranchKey: k carries its value in a branch <=> another key extends k.
func isBranchKey(model kit.OrdMap, k string) bool {
	for o := range model {
		if len(o) > len(k) && strings.HasPrefix(o, k) {
			return true
		}
	}
	return false
}

// leafPartialLen returns the number of nibbles of the partial key of the leaf
// holding k (k must not be a branch key): nibbles of k after the longest
// common nibble prefix with any other key, minus the child index nibble.
func leafPartialLen(model kit.OrdMap, k string) int {
	kn := kit.KeyNibbles([]byte(k))
	if len(model) == 1 {
		return len(kn)
	}
	best := 0
	for o := range model {
		if o == k {
			continue
		}
		on := kit.KeyNibbles([]byte(o))
		c := 0
		for c < len(kn) && c < len(on) && kn[c] == on[c] {
			c++
		}
		if c > best {
			best = c
		}
	}
	return len(kn) - best - 1
}

// inlinedEmptyLeaf: k is held by a non-root leaf with an empty value whose
// encoding is shorter than 32 bytes (so it is inlined in its parent).
func inlinedEmptyLeaf(model kit.OrdMap, k string) bool {
	v, ok := model[k]
	if !ok || len(v) != 0 || len(model) < 2 || isBranchKey(model, k) {
		return false
	}
	pl := leafPartialLen(model, k)
	hdr := 1
	if pl >= 63 {
		hdr = 2 + (pl-63)/255
	}
	return hdr+(pl+1)/2+1 < 32
}

// ---------------------------------------------------------------------------
// generators

var c05Alphabet = []byte{0x00, 0x01, 0x0f, 0x10, 0x11, 0x1f, 0xf0, 0xff}

func genModel(t *rapid.T) kit.OrdMap {
	model := kit.OrdMap{}
	n := rapid.SampledFrom([]int{1, 2, 2, 3, 3, 4, 4, 5, 6, 8, 12}).Draw(t, "nkeys")
	if rapid.IntRange(0, 39).Draw(t, "emptystate") == 17 {
		n = 0
	}
	var pool [][]byte
	for i := 0; i < n; i++ {
		var k []byte
		if len(pool) > 0 && rapid.IntRange(0, 2).Draw(t, "derive") == 0 {
			base := pool[rapid.IntRange(0, len(pool)-1).Draw(t, "base")]
			ext := rapid.SliceOfN(rapid.SampledFrom(c05Alphabet), 1, 2).Draw(t, "ext")
			k = append(append([]byte{}, base...), ext...)
		} else {
			k = kit.GenKey().Draw(t, "k")
		}
		var v []byte
		switch {
		case len(pool) > 0 && rapid.IntRange(0, 3).Draw(t, "twin") == 0:
			// twin of an existing key: same tail and same value below a different first
			// byte, so that identical node encodings (leaves, hashed value pre-images)
			// occur at different positions of the trie
			base := pool[rapid.IntRange(0, len(pool)-1).Draw(t, "twinbase")]
			if len(base) > 0 {
				k = append([]byte{}, base...)
				k[0] = rapid.SampledFrom(c05Alphabet).Draw(t, "twinbyte")
				v = append([]byte{}, model[string(base)]...)
				kit.Label("twin-key-same-tail-same-value")
			}
		case len(pool) > 0 && rapid.IntRange(0, 3).Draw(t, "sharedv") == 0:
			base := pool[rapid.IntRange(0, len(pool)-1).Draw(t, "sharedbase")]
			v = append([]byte{}, model[string(base)]...)
			kit.Label("value-shared-with-another-key")
		}
		if v == nil {
			v = kit.GenValue().Draw(t, "v")
		}
		pool = append(pool, k)
		model[string(k)] = v
	}
	return model
}

// mutateKey derives a key close to a present key: the classes that make a
// lookup end at, or diverge inside, a node of the path of the present key.
func mutateKey(t *rapid.T, k []byte) []byte {
	out := append([]byte{}, k...)
	switch rapid.IntRange(0, 5).Draw(t, "kmut") {
	case 0: // strict prefix
		if len(out) > 0 {
			return out[:rapid.IntRange(0, len(out)-1).Draw(t, "plen")]
		}
	case 1: // extension
		return append(out, rapid.SliceOfN(rapid.SampledFrom(c05Alphabet), 1, 2).Draw(t, "ext")...)
	case 2: // one byte removed
		if len(out) > 0 {
			i := rapid.IntRange(0, len(out)-1).Draw(t, "ri")
			return append(out[:i], out[i+1:]...)
		}
	case 3: // one byte replaced
		if len(out) > 0 {
			i := rapid.IntRange(0, len(out)-1).Draw(t, "ri")
			out[i] = rapid.SampledFrom(c05Alphabet).Draw(t, "rb")
			return out
		}
	case 4: // one byte inserted
		i := rapid.IntRange(0, len(out)).Draw(t, "ii")
		b := rapid.SampledFrom(c05Alphabet).Draw(t, "ib")
		return append(out[:i], append([]byte{b}, out[i:]...)...)
	case 5: // nibble rotation of one byte
		if len(out) > 0 {
			i := rapid.IntRange(0, len(out)-1).Draw(t, "ri")
			out[i] = out[i]<<4 | out[i]>>4
			return out
		}
	}
	return append(out, 0x00)
}

// all byte strings stored by the persisted state (node encodings and value
// pre-images), sorted for determinism.
func dbBlobs(d *c05DB) [][]byte {
	ks := make([]string, 0, len(d.m))
	for k := range d.m {
		ks = append(ks, k)
	}
	sort.Strings(ks)
	out := make([][]byte, 0, len(ks))
	for _, k := range ks {
		out = append(out, append([]byte{}, d.m[k]...))
	}
	return out
}

type variant struct {
	ops   string
	proof [][]byte
}

func multisetEqual(a, b [][]byte) bool {
	if len(a) != len(b) {
		return false
	}
	cnt := map[string]int{}
	for _, x := range a {
		cnt[string(x)]++
	}
	for _, x := range b {
		cnt[string(x)]--
	}
	for _, c := range cnt {
		if c != 0 {
			return false
		}
	}
	return true
}

// genVariant applies 1-3 adversarial edits to the honest proof.
func genVariant(t *rapid.T, st *c05State, honest [][]byte, foreign [][]byte, nbProof [][]byte, labels map[string]bool) variant {
	p := make([][]byte, len(honest))
	for i := range honest {
		p[i] = append([]byte{}, honest[i]...)
	}
	var ops []string
	nops := rapid.IntRange(1, 3).Draw(t, "nops")
	for o := 0; o < nops; o++ {
		nbefore := len(ops)
		op := rapid.SampledFrom([]string{"drop", "drop", "dup", "reorder", "foreign", "foreign", "foreignproof", "foreignproof", "flip", "trunc", "random", "special", "preimage", "allnodes", "hashval", "hashprefix"}).Draw(t, "vop")
		switch op {
		case "drop":
			if len(p) == 0 {
				continue
			}
			i := rapid.IntRange(0, len(p)-1).Draw(t, "di")
			p = append(p[:i], p[i+1:]...)
			ops = append(ops, fmt.Sprintf("drop%d", i))
		case "dup":
			if len(p) == 0 {
				continue
			}
			i := rapid.IntRange(0, len(p)-1).Draw(t, "di")
			p = append(p, append([]byte{}, p[i]...))
			ops = append(ops, fmt.Sprintf("dup%d", i))
		case "reorder":
			if len(p) < 2 {
				continue
			}
			p = rapid.Permutation(p).Draw(t, "perm")
			ops = append(ops, "reorder")
		case "foreign":
			if len(foreign) == 0 {
				continue
			}
			n := rapid.IntRange(1, 3).Draw(t, "nf")
			for j := 0; j < n; j++ {
				i := rapid.IntRange(0, len(foreign)-1).Draw(t, "fi")
				at := rapid.IntRange(0, len(p)).Draw(t, "fat")
				p = append(p[:at], append([][]byte{append([]byte{}, foreign[i]...)}, p[at:]...)...)
				ops = append(ops, fmt.Sprintf("foreign%d@%d", i, at))
			}
		case "foreignproof":
			// a valid proof of the same keys against the neighbouring state,
			// put in front of, behind, or instead of the honest nodes
			if len(nbProof) == 0 {
				continue
			}
			cp := make([][]byte, len(nbProof))
			for i := range nbProof {
				cp[i] = append([]byte{}, nbProof[i]...)
			}
			switch rapid.IntRange(0, 2).Draw(t, "fpmode") {
			case 0:
				p = append(cp, p...)
				ops = append(ops, "foreignproof-front")
			case 1:
				p = append(p, cp...)
				ops = append(ops, "foreignproof-back")
			case 2:
				p = cp
				ops = append(ops, "foreignproof-only")
			}
		case "flip":
			if len(p) == 0 {
				continue
			}
			i := rapid.IntRange(0, len(p)-1).Draw(t, "fi")
			if len(p[i]) == 0 {
				continue
			}
			j := rapid.IntRange(0, len(p[i])-1).Draw(t, "fj")
			bit := rapid.IntRange(0, 7).Draw(t, "fb")
			keep := rapid.Bool().Draw(t, "keep")
			flipped := append([]byte{}, p[i]...)
			flipped[j] ^= 1 << bit
			if keep {
				p = append(p, flipped)
			} else {
				p[i] = flipped
			}
			ops = append(ops, fmt.Sprintf("flip%d.%d.%d.%v", i, j, bit, keep))
		case "trunc":
			if len(p) == 0 {
				continue
			}
			i := rapid.IntRange(0, len(p)-1).Draw(t, "ti")
			if len(p[i]) == 0 {
				continue
			}
			n := rapid.IntRange(0, len(p[i])-1).Draw(t, "tn")
			p[i] = p[i][:n]
			ops = append(ops, fmt.Sprintf("trunc%d.%d", i, n))
		case "random":
			b := rapid.SliceOfN(rapid.Byte(), 0, 70).Draw(t, "rnd")
			p = append(p, b)
			ops = append(ops, fmt.Sprintf("random:%x", b))
		case "special":
			b := rapid.SampledFrom([][]byte{{}, {0x00}, {0x01}, {0x40}, {0x41, 0x01, 0x00}, {0x80, 0x00, 0x00}, {0xc0, 0x00, 0x00, 0x00}, {0x20}, {0x10}, {0x7f}, {0xbf, 0xff}}).Draw(t, "sp")
			at := rapid.IntRange(0, len(p)).Draw(t, "sat")
			p = append(p[:at], append([][]byte{append([]byte{}, b...)}, p[at:]...)...)
			ops = append(ops, fmt.Sprintf("special:%x@%d", b, at))
		case "preimage":
			// the value pre-images of this state (what a V1 proof may carry as extra items)
			ks := st.model.Keys()
			if len(ks) == 0 {
				continue
			}
			k := ks[rapid.IntRange(0, len(ks)-1).Draw(t, "pk")]
			p = append(p, append([]byte{}, st.model[k]...))
			ops = append(ops, fmt.Sprintf("preimage(%x)", k))
		case "hashval":
			// H(v) as a proof item and H(H(v))-style confusion: the hash of a value as a "pre-image"
			ks := st.model.Keys()
			if len(ks) == 0 {
				continue
			}
			k := ks[rapid.IntRange(0, len(ks)-1).Draw(t, "hk")]
			h := kit.Blake256(st.model[k])
			p = append(p, h[:])
			ops = append(ops, fmt.Sprintf("hashval(%x)", k))
		case "hashprefix":
			// a foreign item shorter than 32 bytes that equals the hash of a hashed value
			// without its trailing zero bytes, with or without the genuine value
			ks := c05ZeroTailKeys(st)
			if len(ks) == 0 {
				for _, k := range st.model.Keys() {
					if st.v1 && len(st.model[k]) > 32 {
						ks = append(ks, k)
					}
				}
			}
			if len(ks) == 0 {
				continue
			}
			k := ks[rapid.IntRange(0, len(ks)-1).Draw(t, "hpk")]
			if rapid.Bool().Draw(t, "hpreplace") {
				for i := range p {
					if bytes.Equal(p[i], st.model[k]) {
						p = append(p[:i], p[i+1:]...)
						break
					}
				}
			}
			p = append(p, c05TrimmedHash(st.model[k]))
			ops = append(ops, fmt.Sprintf("hashprefix(%x)", k))
		case "allnodes":
			p = append(p, dbBlobs(st.db)...)
			ops = append(ops, "allnodes")
		}
		if len(ops) > nbefore {
			labels["variant-"+op] = true
		}
	}
	return variant{ops: strings.Join(ops, ","), proof: p}
}

type claim struct {
	kind string
	k, v []byte
}

// genClaims draws up to 6 claims; at least one is false in the model whenever
// one can be built.
func genClaims(t *rapid.T, st *c05State, nb *c05State, proven [][]byte) []claim {
	var out []claim
	keys := st.model.Keys()
	// entries of the neighbouring state that do not hold in this state
	var nbDiff []string
	for _, k := range nb.model.Keys() {
		if mv, ok := st.model[k]; !ok || !bytes.Equal(mv, nb.model[k]) {
			nbDiff = append(nbDiff, k)
		}
	}
	n := rapid.IntRange(2, 6).Draw(t, "nclaims")
	for i := 0; i < n; i++ {
		if len(nbDiff) > 0 && rapid.IntRange(0, 3).Draw(t, "foreignclaim") == 0 {
			k := nbDiff[rapid.IntRange(0, len(nbDiff)-1).Draw(t, "fck")]
			v := nb.model[k]
			if rapid.IntRange(0, 3).Draw(t, "fcexists") == 0 {
				v = nil
			}
			out = append(out, claim{kind: "foreign-entry", k: []byte(k), v: v})
			continue
		}
		kind := rapid.SampledFrom([]string{"true", "wrong", "wrong", "hash-as-value", "hash-prefix-as-value", "exists", "absent-mut", "absent-mut", "absent-mut", "absent-fresh"}).Draw(t, "ckind")
		if len(keys) == 0 && kind != "absent-fresh" {
			kind = "absent-fresh"
		}
		var k []byte
		switch kind {
		case "hash-prefix-as-value":
			if zk := c05ZeroTailKeys(st); len(zk) > 0 {
				k = []byte(zk[rapid.IntRange(0, len(zk)-1).Draw(t, "zk")])
			} else {
				k = []byte(keys[rapid.IntRange(0, len(keys)-1).Draw(t, "ck")])
			}
		case "true", "wrong", "hash-as-value", "exists":
			// prefer keys the honest proof covers
			if len(proven) > 0 && rapid.IntRange(0, 3).Draw(t, "fromproven") > 0 {
				k = proven[rapid.IntRange(0, len(proven)-1).Draw(t, "cpk")]
			} else {
				k = []byte(keys[rapid.IntRange(0, len(keys)-1).Draw(t, "ck")])
			}
		case "absent-mut":
			var base []byte
			if len(proven) > 0 && rapid.Bool().Draw(t, "mutproven") {
				base = proven[rapid.IntRange(0, len(proven)-1).Draw(t, "cpk")]
			} else {
				base = []byte(keys[rapid.IntRange(0, len(keys)-1).Draw(t, "ck")])
			}
			k = mutateKey(t, base)
		case "absent-fresh":
			k = kit.GenKey().Draw(t, "fk")
		}
		mv := st.model[string(k)]
		var v []byte
		switch kind {
		case "true":
			v = mv
		case "exists":
			v = nil
		case "hash-as-value":
			h := kit.Blake256(mv)
			v = h[:]
		case "hash-prefix-as-value":
			v = c05TrimmedHash(mv)
		case "wrong":
			switch rapid.IntRange(0, 4).Draw(t, "wkind") {
			case 0:
				v = append(append([]byte{}, mv...), 0x00)
			case 1:
				if len(mv) > 0 {
					v = append([]byte{}, mv[:len(mv)-1]...)
				} else {
					v = []byte{0x00}
				}
			case 2:
				v = append([]byte{}, mv...)
				if len(v) > 0 {
					v[rapid.IntRange(0, len(v)-1).Draw(t, "wi")] ^= 0x01
				} else {
					v = []byte{0x01}
				}
			case 3:
				v = st.model[keys[rapid.IntRange(0, len(keys)-1).Draw(t, "wk")]]
			case 4:
				v = kit.GenValue().Draw(t, "wv")
			}
		default: // absent-*
			switch rapid.IntRange(0, 3).Draw(t, "akind") {
			case 0:
				v = nil
			case 1:
				v = []byte{}
			case 2:
				if len(keys) > 0 {
					v = st.model[keys[rapid.IntRange(0, len(keys)-1).Draw(t, "ak")]]
				}
			case 3:
				v = kit.GenValue().Draw(t, "av")
			}
		}
		out = append(out, claim{kind: kind, k: k, v: v})
	}
	return out
}

// neighbourState returns a state that differs from st in one entry (or in the
// version): its nodes are the "foreign nodes of a different state".
func neighbourState(t *rapid.T, st *c05State) *c05State {
	m := st.model.Clone()
	keys := m.Keys()
	v1 := st.v1
	switch rapid.IntRange(0, 4).Draw(t, "nb") {
	case 0:
		if len(keys) > 0 {
			k := keys[rapid.IntRange(0, len(keys)-1).Draw(t, "nk")]
			m[k] = kit.GenValue().Draw(t, "nv")
		}
	case 1:
		if len(keys) > 0 {
			delete(m, keys[rapid.IntRange(0, len(keys)-1).Draw(t, "nk")])
		}
	case 2:
		if len(keys) > 0 {
			k := mutateKey(t, []byte(keys[rapid.IntRange(0, len(keys)-1).Draw(t, "nk")]))
			m[string(k)] = kit.GenValue().Draw(t, "nv")
		} else {
			m[string(kit.GenKey().Draw(t, "nk2"))] = kit.GenValue().Draw(t, "nv")
		}
	case 3:
		v1 = !v1
	case 4:
		// swap the values of two keys
		if len(keys) > 1 {
			a := keys[rapid.IntRange(0, len(keys)-1).Draw(t, "na")]
			b := keys[rapid.IntRange(0, len(keys)-1).Draw(t, "nb2")]
			m[a], m[b] = m[b], m[a]
		}
	}
	return c05Build(t, m, v1)
}

// ---------------------------------------------------------------------------
// the property

func TestC05Proofs(t *testing.T) {
	defer kit.Flush()
	kit.Note("rule", c05Rule)
	rapid.Check(t, func(t *rapid.T) {
		v1 := rapid.Bool().Draw(t, "v1")
		model := genModel(t)
		if ks := model.Keys(); v1 && len(ks) > 0 && rapid.IntRange(0, 3).Draw(t, "zerotail") == 0 {
			// one stored-by-hash value whose hash ends in a zero byte
			model[ks[rapid.IntRange(0, len(ks)-1).Draw(t, "ztk")]] = c05ZeroTailValue(rapid.Byte().Draw(t, "ztseed"))
			kit.Label("value-hash-ends-in-zero-byte")
		}
		c05Property(t, model, v1)
	})
}

func c05Property(t *rapid.T, model kit.OrdMap, v1 bool) {
	labels := map[string]bool{}
	st := c05Build(t, model, v1)
	keys := model.Keys()
	if v1 {
		labels["v1"] = true
	} else {
		labels["v0"] = true
	}
	if len(keys) == 0 {
		labels["empty-state"] = true
	}

	var descr strings.Builder
	fmt.Fprintf(&descr, "v1=%v %s", v1, model.Describe())

	// ---- completeness: honest proof of a subset of present keys
	var proven [][]byte
	if len(keys) > 0 {
		sub := rapid.SliceOfNDistinct(rapid.IntRange(0, len(keys)-1), 1, min(len(keys), 4), func(i int) int { return i }).Draw(t, "proven")
		for _, i := range sub {
			proven = append(proven, []byte(keys[i]))
		}
	}
	hashedProven := false
	var honest [][]byte
	if len(proven) > 0 {
		var err error
		honest, err = c05Generate(t, st, proven)
		if err != nil {
			t.Fatalf("completeness: Generate failed for present keys %x: %v; state %s v1=%v", proven, err, model.Describe(), v1)
		}
		fmt.Fprintf(&descr, " prove%x", proven)
		for _, k := range proven {
			mv := model[string(k)]
			branch := isBranchKey(model, string(k))
			if v1 && len(mv) > 32 {
				hashedProven = true
				if branch {
					labels["proven-hashed-branch-value"] = true
				} else {
					labels["proven-hashed-leaf"] = true
				}
			}
			if inlinedEmptyLeaf(model, string(k)) {
				labels["proven-inlined-leaf-empty-value"] = true
			}
			if len(mv) == 0 {
				labels["proven-empty-value"] = true
			}
			if branch {
				labels["proven-branch-value"] = true
			}
			if err := c05Verify(t, st, honest, k, mv); err != nil {
				t.Fatalf("completeness: Verify(honest proof, key %x, value %x) = %v; state %s v1=%v proven %x proof %s",
					k, mv, err, model.Describe(), v1, proven, descrProof(honest))
			}
			if err := c05Verify(t, st, honest, k, nil); err != nil {
				t.Fatalf("completeness: Verify(honest proof, key %x, no value) = %v; state %s v1=%v proven %x proof %s",
					k, err, model.Describe(), v1, proven, descrProof(honest))
			}
		}
	}

	// ---- variants
	nb := neighbourState(t, st)
	var foreign [][]byte
	own := map[string]bool{}
	for _, b := range dbBlobs(st.db) {
		own[string(b)] = true
	}
	for _, b := range dbBlobs(nb.db) {
		if !own[string(b)] {
			foreign = append(foreign, b)
		}
	}
	var nbProof [][]byte
	{
		var nbKeys [][]byte
		for _, k := range proven {
			if _, ok := nb.model[string(k)]; ok {
				nbKeys = append(nbKeys, k)
			}
		}
		for _, k := range nb.model.Keys() {
			if _, ok := model[k]; !ok {
				nbKeys = append(nbKeys, []byte(k))
			}
		}
		if len(nbKeys) > 0 {
			var err error
			nbProof, err = c05Generate(t, nb, nbKeys)
			if err != nil {
				t.Fatalf("completeness: Generate failed for present keys %x: %v; state %s v1=%v", nbKeys, err, nb.model.Describe(), nb.v1)
			}
		}
	}
	fmt.Fprintf(&descr, " nb(v1=%v %s)", nb.v1, nb.model.Describe())
	variants := []variant{{ops: "honest", proof: honest}}
	// a request mixing present and absent keys: ErrKeyNotFound is documented and
	// accepted; when a proof comes back it must still serve the present keys.
	if rapid.Bool().Draw(t, "mixed") {
		req := append([][]byte{}, proven...)
		na := rapid.IntRange(1, 2).Draw(t, "nabsent")
		hasAbsent := false
		for i := 0; i < na; i++ {
			var k []byte
			if len(keys) > 0 && rapid.Bool().Draw(t, "absmut") {
				k = mutateKey(t, []byte(keys[rapid.IntRange(0, len(keys)-1).Draw(t, "ak")]))
			} else {
				k = kit.GenKey().Draw(t, "afk")
			}
			if _, ok := model[string(k)]; !ok {
				hasAbsent = true
			}
			at := rapid.IntRange(0, len(req)).Draw(t, "aat")
			req = append(req[:at], append([][]byte{k}, req[at:]...)...)
		}
		mixed, err := c05Generate(t, st, req)
		fmt.Fprintf(&descr, " mixed%x", req)
		switch {
		case err != nil && !hasAbsent:
			t.Fatalf("completeness: Generate failed for present keys %x: %v; state %s v1=%v", req, err, model.Describe(), v1)
		case err != nil:
			labels["mixed-request-error"] = true
			if errors.Is(err, ErrKeyNotFound) {
				labels["mixed-request-ErrKeyNotFound"] = true
			}
		default:
			if hasAbsent {
				labels["mixed-request-with-absent-key-served"] = true
			}
			for _, k := range req {
				if mv, ok := model[string(k)]; ok {
					if err := c05Verify(t, st, mixed, k, mv); err != nil {
						t.Fatalf("completeness: Generate(%x) succeeded but Verify(key %x, value %x) = %v; state %s v1=%v proof %s",
							req, k, mv, err, model.Describe(), v1, descrProof(mixed))
					}
				}
			}
			variants = append(variants, variant{ops: "mixed", proof: mixed})
		}
	}
	nv := rapid.IntRange(1, 7).Draw(t, "nvariants")
	differs := false
	for i := 0; i < nv; i++ {
		vr := genVariant(t, st, honest, foreign, nbProof, labels)
		if !multisetEqual(vr.proof, honest) {
			differs = true
		}
		variants = append(variants, vr)
	}

	// ---- claims
	claims := genClaims(t, st, nb, proven)
	falseClaims := 0
	for _, c := range claims {
		fmt.Fprintf(&descr, " claim(%s %x=%s)", c.kind, c.k, shortHex(c.v))
	}
	for _, vr := range variants {
		fmt.Fprintf(&descr, " var{%s}", vr.ops)
		for _, c := range claims {
			truth := claimTrue(model, c.k, c.v)
			if !truth {
				falseClaims++
			}
			err := c05Verify(t, st, vr.proof, c.k, c.v)
			if err == nil && !truth {
				mv, present := model[string(c.k)]
				t.Fatalf("soundness: Verify accepted a false claim: key %x value %x (in state: present=%v value %x); state %s v1=%v; proof variant {%s} of the honest proof of %x: %s",
					c.k, c.v, present, mv, model.Describe(), v1, vr.ops, proven, descrProof(vr.proof))
			}
			if err == nil {
				labels["accepted-true-claim"] = true
				if vr.ops != "honest" && vr.ops != "mixed" {
					labels["accepted-true-claim-under-variant"] = true
				}
			} else if !truth {
				labels["rejected-false-claim-"+c.kind] = true
			} else {
				labels["rejected-true-claim(allowed)"] = true
			}
		}
	}
	for _, k := range keys {
		if inlinedEmptyLeaf(model, k) {
			labels["state-has-inlined-leaf-empty-value"] = true
		}
		if v1 && len(model[k]) > 32 {
			if isBranchKey(model, k) {
				labels["state-has-hashed-branch-value"] = true
			} else {
				labels["state-has-hashed-leaf"] = true
			}
		}
	}
	var ls []string
	for l := range labels {
		ls = append(ls, l)
	}
	sort.Strings(ls)
	nontrivial := len(model) >= 2 && model.SharesNibblePrefix() && (hashedProven || differs) && falseClaims > 0
	kit.Case(descr.String(), nontrivial, ls...)
}

// ---------------------------------------------------------------------------
// TestC05Regressions: shrunk failures found by TestC05Proofs on the pinned
// tree, one group per root cause (see NOTES.md and fixes/), as plain
// deterministic cases that bypass the generator.

func TestC05Regressions(t *testing.T) {
	defer kit.Flush()
	long := func(n int, seed byte) []byte {
		v := make([]byte, n)
		for i := range v {
			v[i] = seed + byte(i*7)
		}
		return v
	}
	type reg struct {
		name   string
		v1     bool
		model  kit.OrdMap
		prove  []string // keys of the honest proof (all present): Generate must succeed, each must verify
		reject []claim  // false claims that the honest proof must not confirm
	}
	cases := []reg{
		// fixes/02: the pre-image of a hashed (V1, > 32 bytes) value was not part of the proof
		{name: "v1-hashed-root-leaf", v1: true, model: kit.OrdMap{"\x01": long(33, 0)}, prove: []string{"\x01"}},
		{name: "v1-hashed-leaf", v1: true, model: kit.OrdMap{"\x01\x00": long(40, 1), "\x01\x10": long(64, 2), "\xf0": []byte("a")}, prove: []string{"\x01\x10", "\x01\x00"}},
		// fixes/03: a branch with a hashed value returned the hash as the value
		{name: "v1-hashed-branch-value", v1: true, model: kit.OrdMap{"\x01": long(40, 3), "\x01\x02": []byte("a")}, prove: []string{"\x01"},
			reject: []claim{{k: []byte("\x01"), v: func() []byte { h := kit.Blake256(long(40, 3)); return h[:] }()}}},
		{name: "v1-hashed-root-branch-value", v1: true, model: kit.OrdMap{"": long(33, 4), "\x00": long(33, 5)}, prove: []string{"", "\x00"},
			reject: []claim{{k: []byte(""), v: func() []byte { h := kit.Blake256(long(33, 4)); return h[:] }()}}},
		// fixes/04: an inlined leaf with an empty value was dropped from the proof trie
		{name: "inlined-leaf-empty-value", model: kit.OrdMap{"": []byte{}, "\x00": []byte{}}, prove: []string{"\x00"}},
		{name: "inlined-leaf-empty-value-below-hashed-branch", model: kit.OrdMap{"\x00": []byte{}, "\x11": long(31, 6), "\x11\x11": []byte{}}, prove: []string{"\x00", "\x11\x11"}},
		// checks/C02/fixes/01 (GetKeysWithPrefix index out of range): Generate -> Load -> GetKeysWithPrefix(":child_storage:default:")
		// panicked when the root branch has a partial key longer than that prefix (44 nibbles) that diverges from it
		{name: "generate-two-keys-branch-after-leaf", model: kit.OrdMap{strings.Repeat("\x00", 23): []byte{}, strings.Repeat("\x00", 31): []byte{}},
			prove: []string{strings.Repeat("\x00", 31), strings.Repeat("\x00", 23)}},
		// checks/C02/fixes (Get of an absent key): lookup ending at, or diverging inside, a branch
		{name: "absent-key-ends-at-branch-position", model: kit.OrdMap{"\x01\x23": []byte("a"), "\x01\x23\x45": []byte("b"), "\x0f": []byte("c")}, prove: []string{"\x01\x23"},
			reject: []claim{{k: []byte("\x01"), v: []byte("a")}, {k: []byte("\x01"), v: nil}}},
		{name: "absent-empty-key-at-root-branch", model: kit.OrdMap{"\x00": []byte{}, "\x00\x00": []byte{}}, prove: []string{"\x00"},
			reject: []claim{{k: []byte(""), v: nil}}},
		{name: "absent-key-diverging-in-branch-partial-key", model: kit.OrdMap{"\x01\x52\x37": []byte("v"), "\x01\x52\x38": []byte("w"), "\x01\x60": []byte("x")}, prove: []string{"\x01\x52\x37"},
			reject: []claim{{k: []byte("\x05\x27"), v: []byte("v")}, {k: []byte("\x05\x27"), v: nil}}},
	}
	for _, c := range cases {
		st := c05Build(t, c.model, c.v1)
		var keys [][]byte
		for _, k := range c.prove {
			keys = append(keys, []byte(k))
		}
		p, err := c05Generate(t, st, keys)
		if err != nil {
			t.Errorf("%s: Generate(%x): %v", c.name, keys, err)
			continue
		}
		for _, k := range keys {
			if err := c05Verify(t, st, p, k, c.model[string(k)]); err != nil {
				t.Errorf("%s: completeness: Verify(key %x, value %x) = %v; proof %s", c.name, k, c.model[string(k)], err, descrProof(p))
			}
			if err := c05Verify(t, st, p, k, nil); err != nil {
				t.Errorf("%s: completeness: Verify(key %x, no value) = %v; proof %s", c.name, k, err, descrProof(p))
			}
		}
		for _, cl := range c.reject {
			if claimTrue(c.model, cl.k, cl.v) {
				t.Fatalf("%s: regression case is wrong: claim %x=%x holds", c.name, cl.k, cl.v)
			}
			if err := c05Verify(t, st, p, cl.k, cl.v); err == nil {
				t.Errorf("%s: soundness: Verify accepted key %x value %x; state %s v1=%v proof %s", c.name, cl.k, cl.v, c.model.Describe(), c.v1, descrProof(p))
			}
		}
		kit.Case("regression "+c.name, true, "regression")
	}

	// fixes/01 and fixes/05: the empty state (root = BLAKE2b-256(0x00)) made Generate and Verify panic
	empty := c05Build(t, kit.OrdMap{}, false)
	func() {
		defer func() {
			if r := recover(); r != nil {
				t.Errorf("empty-state: Generate panicked: %v", r)
			}
		}()
		_, err := Generate(empty.root[:], [][]byte{{0x00}}, empty.db)
		if err == nil {
			t.Errorf("empty-state: Generate for an absent key returned no error")
		}
	}()
	func() {
		defer func() {
			if r := recover(); r != nil {
				t.Errorf("empty-state: Verify panicked: %v", r)
			}
		}()
		for _, v := range [][]byte{nil, {0x01}} {
			if err := Verify([][]byte{{0x00}}, empty.root[:], []byte{0x00}, v); err == nil {
				t.Errorf("empty-state: Verify accepted key 00 value %x in the empty state", v)
			}
		}
	}()
	kit.Case("regression empty-state", true, "regression")
}
