package vchk

import (
	"bytes"
	"fmt"
	"math/big"
	"reflect"
	"strings"
	"testing"

	kit "github.com/ChainSafe/gossamer/internal/verifkit"
	"pgregory.net/rapid"
)

func init() { zeroSizeSeqElems = true }

const ruleC11 = "a random SCALE type (reflect: StructOf with shuffled scale:\"N\" tags and scale:\"-\" fields, ArrayOf, SliceOf (also of zero-size elements: empty structs, structs of skipped fields, arrays of those), MapOf, PointerTo=Option, " +
	"named primitives, *big.Int, *Uint128, scale.Result, harness-defined VaryingDataType; depth <= 4) and a random value of it with integers concentrated on " +
	"compact-mode boundaries (2^6, 2^14, 2^30, every byte length 4..8, 2^64.., 2^536-1); oracle: scale.Marshal(v) == refscale encoding (maps key-sorted) byte for byte, " +
	"marshalling twice is identical, scale.Unmarshal into a fresh destination (from a buffer that is overwritten after the call) gives a value whose value tree equals v (nil/empty slices identified, skipped fields ignored); " +
	"non-trivial = the value contains a compact integer in a >=4-byte mode or the type nests composites >= 2 deep; distinct by (type, canonical bytes)"

// checkRoundTrip is the C11 oracle for one (type, value).
func checkRoundTrip(t failer, d *desc, v val) (want []byte) {
	activate(d)
	want = refEncode(d, v)
	g := toGo(d, v)
	got, err := safeMarshal(g.Interface())
	if err != nil {
		t.Fatalf("Marshal failed: %v\n type %s\n canonical %s", err, d, hexs(want))
	}
	if !bytes.Equal(got, want) {
		t.Fatalf("Marshal is not the canonical encoding\n type %s\n got  %s\n want %s", d, hexs(got), hexs(want))
	}
	again, err := safeMarshal(g.Interface())
	if err != nil || !bytes.Equal(again, got) {
		t.Fatalf("marshalling twice differs (%v)\n type %s\n 1st %s\n 2nd %s", err, d, hexs(got), hexs(again))
	}
	dst := newDst(d)
	// the decoder gets its own copy of the bytes, which is overwritten afterwards: the
	// decoded value must not depend on the caller keeping its input buffer intact
	// (network code decodes from pooled read buffers)
	wire := append([]byte{}, got...)
	if err := safeUnmarshal(wire, dst.Interface()); err != nil {
		t.Fatalf("Unmarshal(Marshal(v)) failed: %v\n type %s\n bytes %s", err, d, hexs(got))
	}
	for i := range wire {
		wire[i] ^= 0xa5
	}
	back, err := fromGo(d, dst.Elem())
	if err != nil {
		t.Fatalf("Unmarshal(Marshal(v)) gave an incomplete value: %v\n type %s\n bytes %s", err, d, hexs(got))
	}
	if !valEqual(d, v, back) {
		t.Fatalf("Unmarshal(Marshal(v)) != v\n type %s\n bytes %s\n decoded value re-encodes to %s", d, hexs(got), hexs(refEncode(d, back)))
	}
	return want
}

func isNontrivialC11(d *desc, set map[string]bool) bool {
	for _, l := range []string{"compact-4byte", "compact-big-4", "compact-big-5", "compact-big-6", "compact-big-7", "compact-big-8", "compact-big-9+"} {
		if set[l] {
			return true
		}
	}
	return d.depth() >= 2
}

// TestC11RoundTrip: random types and values.
func TestC11RoundTrip(t *testing.T) {
	defer kit.Flush()
	kit.Note("rule", ruleC11)
	rapid.Check(t, func(t *rapid.T) {
		d := genDesc(4).Draw(t, "type")
		activate(d)
		v := genVal(t, d)
		want := checkRoundTrip(t, d, v)
		// harness self-check: the reference decoder inverts the reference encoder
		rv, n, err := refDecode(d, want)
		if err != nil || n != len(want) || !valEqual(d, v, rv) {
			t.Fatalf("HARNESS: refDecode(refEncode(v)) != v (%v, %d of %d) type %s bytes %s", err, n, len(want), d, hexs(want))
		}
		set := map[string]bool{}
		valLabels(d, v, set)
		set[fmt.Sprintf("depth-%d", d.depth())] = true
		kit.Case(d.String()+" | "+hexs(want), isNontrivialC11(d, set), labelsOf(set)...)
	})
}

// TestC11Integers: the integer shapes alone and in the small containers real
// callers use (struct field, vec element, option), so that every compact mode
// boundary of every integer type is hit thousands of times.
func TestC11Integers(t *testing.T) {
	defer kit.Flush()
	rapid.Check(t, func(t *rapid.T) {
		p := genPrim(t, []kind{kCUint, kCUint, kCInt, kBigInt, kBigInt, kU128, kU8, kI8, kU16, kI16, kU32, kI32, kU64, kI64})
		var d *desc
		switch rapid.IntRange(0, 4).Draw(t, "wrap") {
		case 0, 1:
			d = p
		case 2:
			d = &desc{k: kStruct, fields: []field{{tagNone, &desc{k: kBool}}, {tagNone, p}, {tagNone, &desc{k: kU8}}}}
		case 3:
			d = &desc{k: kVec, elem: p}
		default:
			d = &desc{k: kOption, elem: p}
		}
		v := genVal(t, d)
		want := checkRoundTrip(t, d, v)
		set := map[string]bool{"integers-run": true}
		valLabels(d, v, set)
		kit.Case(d.String()+" | "+hexs(want), isNontrivialC11(d, set), labelsOf(set)...)
	})
}

// TestC11OracleSelfCheck validates refscale against the worked examples of the
// SCALE specification (docs.substrate.io "Type encoding (SCALE)") before it
// judges anything.
func TestC11OracleSelfCheck(t *testing.T) {
	defer kit.Flush()
	cu := &desc{k: kCUint}
	for _, c := range []struct {
		v    string
		want string
	}{
		{"0", "00"}, {"1", "04"}, {"42", "a8"}, {"69", "1501"}, {"65535", "feff0300"}, {"100000000000000", "0b00407a10f35a"},
		{"63", "fc"}, {"64", "0101"}, {"16383", "fdff"}, {"16384", "02000100"}, {"1073741823", "feffffff"}, {"1073741824", "0300000040"},
		{"18446744073709551615", "13ffffffffffffffff"},
	} {
		x, _ := new(big.Int).SetString(c.v, 10)
		if got := hexs(refEncode(cu, val{u: x.Uint64()})); got != c.want {
			t.Fatalf("compact(%s) = %s, spec says %s", c.v, got, c.want)
		}
		if got := hexs(refEncode(&desc{k: kBigInt}, val{bi: x})); got != c.want {
			t.Fatalf("compact big(%s) = %s, spec says %s", c.v, got, c.want)
		}
	}
	u16 := &desc{k: kU16}
	vec := &desc{k: kVec, elem: u16}
	vv := val{}
	for _, x := range []uint64{4, 8, 15, 16, 23, 42} {
		vv.e = append(vv.e, val{u: x})
	}
	if got := hexs(refEncode(vec, vv)); got != "18040008000f00100017002a00" {
		t.Fatalf("Vec<u16> = %s", got)
	}
	if got := hexs(refEncode(&desc{k: kI8}, val{u: ^uint64(0)})); got != "ff" {
		t.Fatalf("i8 -1 = %s", got)
	}
	if got := hexs(refEncode(&desc{k: kI16}, val{u: ^uint64(1)})); got != "feff" {
		t.Fatalf("i16 = %s", got)
	}
	if got := hexs(refEncode(&desc{k: kU32}, val{u: 16777215})); got != "ffffff00" {
		t.Fatalf("u32 = %s", got)
	}
	tup := &desc{k: kStruct, fields: []field{{tagNone, &desc{k: kCUint}}, {tagNone, &desc{k: kBool}}}}
	if got := hexs(refEncode(tup, val{e: []val{{u: 3}, {u: 0}}})); got != "0c00" {
		t.Fatalf("(Compact 3,false) = %s", got)
	}
	if got := hexs(refEncode(&desc{k: kString}, val{b: []byte("Test")})); got != "1054657374" {
		t.Fatalf("str = %s", got)
	}
	res := &desc{k: kResult, okD: &desc{k: kU8}, errD: &desc{k: kBool}}
	if got := hexs(refEncode(res, val{e: []val{{u: 42}}})); got != "002a" {
		t.Fatalf("Ok(42) = %s", got)
	}
	if got := hexs(refEncode(res, val{flag: true, e: []val{{u: 0}}})); got != "0100" {
		t.Fatalf("Err(false) = %s", got)
	}
	// tagged struct order: tags ascending, then untagged
	st := &desc{k: kStruct, fields: []field{{tagNone, u16}, {2, &desc{k: kU8}}, {tagSkip, &desc{k: kU8}}, {1, &desc{k: kBool}}}}
	if got := hexs(refEncode(st, val{e: []val{{u: 0x0102}, {u: 7}, {u: 9}, {u: 1}}})); got != "01070201" {
		t.Fatalf("tagged struct = %s", got)
	}
	// the repo's own pinned vector for maps with one entry
	m := &desc{k: kMap, key: &desc{k: kI8}, elem: &desc{k: kBytes}}
	if got := refEncode(m, val{e: []val{{u: 2}, {b: []byte("some string")}}}); !bytes.Equal(got, []byte{4, 2, 44, 115, 111, 109, 101, 32, 115, 116, 114, 105, 110, 103}) {
		t.Fatalf("map = %x", got)
	}
}

// TestC11Regressions: shrunk failing cases found on the pinned tree, replayed
// without the generator.
func TestC11Regressions(t *testing.T) {
	defer kit.Flush()
	// maps with several entries: canonical (key-sorted) bytes, on every marshal
	m := &desc{k: kMap, key: &desc{k: kU16}, elem: &desc{k: kBool}}
	mv := val{}
	for _, k := range []uint64{256, 1, 2, 255, 3, 1000, 4, 5} {
		mv.e = append(mv.e, val{u: k}, val{u: k & 1})
	}
	for i := 0; i < 20; i++ {
		checkRoundTrip(t, m, mv)
	}
	ms := &desc{k: kMap, key: &desc{k: kString}, elem: &desc{k: kU8}}
	checkRoundTrip(t, ms, val{e: []val{{b: []byte("b")}, {u: 1}, {b: []byte("aa")}, {u: 2}, {b: []byte("")}, {u: 3}}})
	// a map nested in a struct / slice / option: the decoder has to create the map
	st := &desc{k: kStruct, fields: []field{{tagNone, &desc{k: kU8}}, {tagNone, m}}}
	checkRoundTrip(t, st, val{e: []val{{u: 1}, mv}})
	checkRoundTrip(t, &desc{k: kVec, elem: m}, val{e: []val{mv, {}}})
	checkRoundTrip(t, &desc{k: kOption, elem: m}, val{flag: true, e: []val{mv}})
	var top map[uint16]bool
	if err := safeUnmarshal(refEncode(m, mv), &top); err != nil || len(top) != 8 || !top[255] || top[256] {
		t.Fatalf("Unmarshal into a nil map variable: err=%v map=%v", err, top)
	}
	_ = reflect.TypeOf
}

// TestC11KnownOptionOfVdt is the witness of finding C11-option-of-varying-data-type.
func TestC11KnownOptionOfVdt(t *testing.T) {
	defer kit.Flush()
	enum := &desc{k: kEnum, slot: 0, variants: []variant{{0, &desc{k: kU8}}}}
	d := &desc{k: kOption, elem: enum}
	activate(d)
	some := val{flag: true, e: []val{{idx: 0, e: []val{{u: 5}}}}}
	gotSome, errSome := safeMarshal(toGo(d, some).Interface())
	gotNone, errNone := safeMarshal(toGo(d, val{}).Interface())
	okSome := errSome == nil && bytes.Equal(gotSome, []byte{1, 0, 5})
	okNone := errNone == nil && bytes.Equal(gotNone, []byte{0})
	switch {
	case okSome && okNone:
		checkRoundTrip(t, d, some)
		checkRoundTrip(t, d, val{})
		kit.WitnessResult(findingOptVdt, false, "")
	case errSome == nil && bytes.Equal(gotSome, []byte{0, 5}) && errNone != nil:
		kit.WitnessResult(findingOptVdt, true, fmt.Sprintf("Some(enum{0:5}) -> %x (want 010005); None -> %v (want 00)", gotSome, errNone))
	default:
		t.Fatalf("different signature: Some -> %x, %v; None -> %x, %v", gotSome, errSome, gotNone, errNone)
	}
}

// TestC11KnownCompactUint5to7 is the witness of finding C11-compact-uint-5-to-7-bytes.
func TestC11KnownCompactUint5to7(t *testing.T) {
	defer kit.Flush()
	var back uint
	enc, err := safeMarshal(uint(1 << 32))
	if err != nil || !bytes.Equal(enc, []byte{0x07, 0, 0, 0, 0, 1}) {
		t.Fatalf("different signature: Marshal(uint(1<<32)) = %x, %v", enc, err)
	}
	err = safeUnmarshal(enc, &back)
	switch {
	case err == nil && back == 1<<32:
		cu := &desc{k: kCUint}
		for _, u := range []uint64{1 << 32, 1<<40 - 1, 1 << 40, 1<<48 - 1, 1 << 48, 1<<56 - 1} {
			checkRoundTrip(t, cu, val{u: u})
		}
		checkRoundTrip(t, &desc{k: kCInt, named: true}, val{u: 1 << 33})
		kit.WitnessResult(findingCompact57, false, "")
	case err != nil && strings.Contains(err.Error(), "unknown prefix for compact uint"):
		kit.WitnessResult(findingCompact57, true, fmt.Sprintf("Unmarshal(Marshal(uint(1<<32)) = %x) fails: %v", enc, err))
	default:
		t.Fatalf("different signature: Unmarshal(%x) = %d, %v", enc, back, err)
	}
}
