package vchk

// refscale: a SCALE encoder/decoder written from the SCALE specification over
// an explicit type descriptor (desc) and an explicit value tree (val). It
// shares no code with pkg/scale. The descriptor also knows how to build the Go
// type (reflect) that pkg/scale maps to that SCALE type, how to build a Go
// value from a value tree (toGo) and how to read one back (fromGo).
//
// Mapping of Go types to SCALE types, as documented/implemented by pkg/scale:
//   uint8..uint64, int8..int64 (and named types of those kinds)  fixed width LE
//   uint, int (and named)                                        Compact<u64> (int: non-negative values)
//   *big.Int                                                     Compact (up to 2^536-1)
//   *scale.Uint128                                               u128, 16 bytes LE
//   bool, string, []byte                                         bool, str, Vec<u8>
//   *T                                                           Option<T>
//   scale.Result                                                 Result<T,E> (nil = unit)
//   VaryingDataType                                              enum: index byte + value
//   [N]T, []T, map[K]V                                           array, Vec<T>, BTreeMap<K,V> (key-sorted)
//   struct with `scale:"N"` / `scale:"-"` tags                   tuple: tagged fields by N, then untagged in order

import (
	"bytes"
	"encoding/hex"
	"errors"
	"fmt"
	"math/big"
	"reflect"
	"sort"
	"strings"
	"unicode/utf8"

	"github.com/ChainSafe/gossamer/pkg/scale"
)

type kind int

const (
	kU8 kind = iota
	kI8
	kU16
	kI16
	kU32
	kI32
	kU64
	kI64
	kCUint // Go uint
	kCInt  // Go int
	kBool
	kString
	kBytes
	kBigInt
	kU128
	kOption
	kResult
	kEnum
	kArray
	kVec
	kMap
	kStruct
)

var kindNames = map[kind]string{kU8: "u8", kI8: "i8", kU16: "u16", kI16: "i16", kU32: "u32", kI32: "i32", kU64: "u64", kI64: "i64",
	kCUint: "cuint", kCInt: "cint", kBool: "bool", kString: "str", kBytes: "bytes", kBigInt: "big", kU128: "u128"}

const (
	tagNone = -1
	tagSkip = -2
)

type field struct {
	tag int // >= 0: scale:"N"; tagNone; tagSkip
	d   *desc
}

type variant struct {
	index byte
	d     *desc
}

type desc struct {
	k         kind
	named     bool
	elem, key *desc
	n         int
	fields    []field
	okD, errD *desc // nil = unit
	slot      int
	variants  []variant
	rt        reflect.Type
}

// value tree
type val struct {
	u    uint64   // fixed ints (two's complement), compact uint/int, bool
	bi   *big.Int // big, u128
	b    []byte   // bytes, string
	flag bool     // option: some; result: is Err
	idx  int      // enum: position in desc.variants
	e    []val    // option/result/enum inner (0 or 1), array/vec elements, struct fields (Go order), map k,v,k,v...
}

// ---- named primitives (custom primitives of pkg/scale)

type (
	NU8     uint8
	NI8     int8
	NU16    uint16
	NI16    int16
	NU32    uint32
	NI32    int32
	NU64    uint64
	NI64    int64
	NUint   uint
	NInt    int
	NBool   bool
	NString string
)

var baseTypes = map[kind]reflect.Type{
	kU8: reflect.TypeOf(uint8(0)), kI8: reflect.TypeOf(int8(0)), kU16: reflect.TypeOf(uint16(0)), kI16: reflect.TypeOf(int16(0)),
	kU32: reflect.TypeOf(uint32(0)), kI32: reflect.TypeOf(int32(0)), kU64: reflect.TypeOf(uint64(0)), kI64: reflect.TypeOf(int64(0)),
	kCUint: reflect.TypeOf(uint(0)), kCInt: reflect.TypeOf(int(0)), kBool: reflect.TypeOf(false), kString: reflect.TypeOf(""),
	kBytes: reflect.TypeOf([]byte(nil)), kBigInt: reflect.TypeOf((*big.Int)(nil)), kU128: reflect.TypeOf((*scale.Uint128)(nil)),
	kResult: reflect.TypeOf(scale.Result{}),
}

var namedTypes = map[kind]reflect.Type{
	kU8: reflect.TypeOf(NU8(0)), kI8: reflect.TypeOf(NI8(0)), kU16: reflect.TypeOf(NU16(0)), kI16: reflect.TypeOf(NI16(0)),
	kU32: reflect.TypeOf(NU32(0)), kI32: reflect.TypeOf(NI32(0)), kU64: reflect.TypeOf(NU64(0)), kI64: reflect.TypeOf(NI64(0)),
	kCUint: reflect.TypeOf(NUint(0)), kCInt: reflect.TypeOf(NInt(0)), kBool: reflect.TypeOf(NBool(false)), kString: reflect.TypeOf(NString("")),
}

// ---- harness-defined varying data types (enums). Go cannot create method
// sets by reflection, so three static types exist whose variant tables are
// installed per generated type (activate) before the type is used.

type slotVariant struct {
	index byte
	t     reflect.Type
}

var slotTabs [3][]slotVariant

type vdtState struct {
	set bool
	idx uint
	v   any
}

func (s vdtState) indexValue() (uint, any, error) {
	if !s.set {
		return 0, nil, scale.ErrVaryingDataTypeNotSet
	}
	return s.idx, s.v, nil
}

func slotValueAt(slot int, index uint) (any, error) {
	for _, sv := range slotTabs[slot] {
		if uint(sv.index) == index {
			return reflect.Zero(sv.t).Interface(), nil
		}
	}
	return nil, scale.ErrUnknownVaryingDataTypeValue
}

func (s *vdtState) setValue(slot int, value any) error {
	t := reflect.TypeOf(value)
	for _, sv := range slotTabs[slot] {
		if sv.t == t {
			s.set, s.idx, s.v = true, uint(sv.index), value
			return nil
		}
	}
	return fmt.Errorf("%w: %T", scale.ErrUnsupportedVaryingDataTypeValue, value)
}

type vdtGetter interface{ state() vdtState }

type Vdt0 struct{ S vdtState }
type Vdt1 struct{ S vdtState }
type Vdt2 struct{ S vdtState }

func (e Vdt0) state() vdtState                { return e.S }
func (e Vdt0) IndexValue() (uint, any, error) { return e.S.indexValue() }
func (e Vdt0) Value() (any, error)            { _, v, err := e.S.indexValue(); return v, err }
func (e Vdt0) ValueAt(i uint) (any, error)    { return slotValueAt(0, i) }
func (e *Vdt0) SetValue(v any) error          { return e.S.setValue(0, v) }
func (e Vdt1) state() vdtState                { return e.S }
func (e Vdt1) IndexValue() (uint, any, error) { return e.S.indexValue() }
func (e Vdt1) Value() (any, error)            { _, v, err := e.S.indexValue(); return v, err }
func (e Vdt1) ValueAt(i uint) (any, error)    { return slotValueAt(1, i) }
func (e *Vdt1) SetValue(v any) error          { return e.S.setValue(1, v) }
func (e Vdt2) state() vdtState                { return e.S }
func (e Vdt2) IndexValue() (uint, any, error) { return e.S.indexValue() }
func (e Vdt2) Value() (any, error)            { _, v, err := e.S.indexValue(); return v, err }
func (e Vdt2) ValueAt(i uint) (any, error)    { return slotValueAt(2, i) }
func (e *Vdt2) SetValue(v any) error          { return e.S.setValue(2, v) }

var slotTypes = [3]reflect.Type{reflect.TypeOf(Vdt0{}), reflect.TypeOf(Vdt1{}), reflect.TypeOf(Vdt2{})}

var (
	_ scale.VaryingDataType = &Vdt0{}
	_ scale.VaryingDataType = &Vdt1{}
	_ scale.VaryingDataType = &Vdt2{}
)

// activate installs the variant tables of every enum of d.
func activate(d *desc) {
	for i := range slotTabs {
		slotTabs[i] = nil
	}
	d.walk(func(x *desc) {
		if x.k == kEnum {
			var tab []slotVariant
			for _, v := range x.variants {
				tab = append(tab, slotVariant{v.index, v.d.goType()})
			}
			slotTabs[x.slot] = tab
		}
	})
}

func (d *desc) walk(fn func(*desc)) {
	if d == nil {
		return
	}
	fn(d)
	d.elem.walk(fn)
	d.key.walk(fn)
	d.okD.walk(fn)
	d.errD.walk(fn)
	for _, f := range d.fields {
		f.d.walk(fn)
	}
	for _, v := range d.variants {
		v.d.walk(fn)
	}
}

func (d *desc) has(k kind) bool {
	found := false
	d.walk(func(x *desc) {
		if x.k == k {
			found = true
		}
	})
	return found
}

// depth: nesting depth of composite types (a primitive has depth 0).
func (d *desc) depth() int {
	if d == nil {
		return 0
	}
	m := 0
	up := func(x *desc) {
		if x != nil && x.depth() > m {
			m = x.depth()
		}
	}
	up(d.elem)
	up(d.key)
	up(d.okD)
	up(d.errD)
	for _, f := range d.fields {
		if f.tag != tagSkip {
			up(f.d)
		}
	}
	for _, v := range d.variants {
		up(v.d)
	}
	if d.k >= kOption {
		return m + 1
	}
	return 0
}

func (d *desc) goType() reflect.Type {
	if d.rt != nil {
		return d.rt
	}
	var t reflect.Type
	switch d.k {
	case kOption:
		t = reflect.PointerTo(d.elem.goType())
	case kEnum:
		t = slotTypes[d.slot]
	case kArray:
		t = reflect.ArrayOf(d.n, d.elem.goType())
	case kVec:
		t = reflect.SliceOf(d.elem.goType())
	case kMap:
		t = reflect.MapOf(d.key.goType(), d.elem.goType())
	case kStruct:
		fs := make([]reflect.StructField, len(d.fields))
		for i, f := range d.fields {
			fs[i] = reflect.StructField{Name: fmt.Sprintf("F%d", i), Type: f.d.goType()}
			switch {
			case f.tag == tagSkip:
				fs[i].Tag = `scale:"-"`
			case f.tag >= 0:
				fs[i].Tag = reflect.StructTag(fmt.Sprintf(`scale:"%d"`, f.tag))
			}
		}
		t = reflect.StructOf(fs)
	default:
		if d.named {
			t = namedTypes[d.k]
		} else {
			t = baseTypes[d.k]
		}
	}
	d.rt = t
	return t
}

// minSize: minimal number of bytes of an encoding of the type.
func (d *desc) minSize() int {
	switch d.k {
	case kU8, kI8, kBool, kCUint, kCInt, kString, kBytes, kBigInt, kOption, kResult, kEnum, kVec, kMap:
		return 1
	case kU16, kI16:
		return 2
	case kU32, kI32:
		return 4
	case kU64, kI64:
		return 8
	case kU128:
		return 16
	case kArray:
		return d.n * d.elem.minSize()
	case kStruct:
		s := 0
		for _, f := range d.fields {
			if f.tag != tagSkip {
				s += f.d.minSize()
			}
		}
		return s
	}
	return 0
}

// order: indices of the encoded fields of a struct in encoding order: tagged
// fields ascending by tag, then untagged fields in declaration order.
func (d *desc) order() []int {
	var tagged, plain []int
	for i, f := range d.fields {
		switch {
		case f.tag == tagSkip:
		case f.tag >= 0:
			tagged = append(tagged, i)
		default:
			plain = append(plain, i)
		}
	}
	sort.SliceStable(tagged, func(a, b int) bool { return d.fields[tagged[a]].tag < d.fields[tagged[b]].tag })
	return append(tagged, plain...)
}

func (d *desc) String() string {
	if d == nil {
		return "()"
	}
	n := ""
	if d.named {
		n = "N"
	}
	switch d.k {
	case kOption:
		return "opt<" + d.elem.String() + ">"
	case kResult:
		return "res<" + d.okD.String() + "," + d.errD.String() + ">"
	case kEnum:
		var p []string
		for _, v := range d.variants {
			p = append(p, fmt.Sprintf("%d:%s", v.index, v.d))
		}
		return fmt.Sprintf("enum%d{%s}", d.slot, strings.Join(p, "|"))
	case kArray:
		return fmt.Sprintf("[%d]%s", d.n, d.elem)
	case kVec:
		return "vec<" + d.elem.String() + ">"
	case kMap:
		return "map<" + d.key.String() + "," + d.elem.String() + ">"
	case kStruct:
		var p []string
		for _, f := range d.fields {
			switch {
			case f.tag == tagSkip:
				p = append(p, "-"+f.d.String())
			case f.tag >= 0:
				p = append(p, fmt.Sprintf("@%d:%s", f.tag, f.d))
			default:
				p = append(p, f.d.String())
			}
		}
		return "{" + strings.Join(p, ";") + "}"
	}
	return n + kindNames[d.k]
}

// ---- compact integers (spec: "Compact/general integers")

var (
	big1   = big.NewInt(1)
	bigMax = new(big.Int).Sub(new(big.Int).Lsh(big1, 536), big1)
)

func compactU64(v uint64) []byte {
	return compactBig(new(big.Int).SetUint64(v))
}

func compactBig(v *big.Int) []byte {
	if v.Sign() < 0 || v.Cmp(bigMax) > 0 {
		panic("refscale: compact out of range")
	}
	if v.BitLen() <= 6 {
		return []byte{byte(v.Uint64() << 2)}
	}
	if v.BitLen() <= 14 {
		x := v.Uint64()<<2 | 1
		return []byte{byte(x), byte(x >> 8)}
	}
	if v.BitLen() <= 30 {
		x := v.Uint64()<<2 | 2
		return []byte{byte(x), byte(x >> 8), byte(x >> 16), byte(x >> 24)}
	}
	be := v.Bytes()
	out := []byte{byte(len(be)-4)<<2 | 3}
	for i := len(be) - 1; i >= 0; i-- {
		out = append(out, be[i])
	}
	return out
}

// compactMode returns a label for the mode the canonical encoding of v uses.
func compactMode(v *big.Int) string {
	switch {
	case v.BitLen() <= 6:
		return "compact-1byte"
	case v.BitLen() <= 14:
		return "compact-2byte"
	case v.BitLen() <= 30:
		return "compact-4byte"
	}
	n := (v.BitLen() + 7) / 8
	if n > 8 {
		return "compact-big-9+"
	}
	return fmt.Sprintf("compact-big-%d", n)
}

// nonCanonicalCompacts returns encodings of v in wider modes than necessary.
func nonCanonicalCompacts(v *big.Int) [][]byte {
	var out [][]byte
	if v.BitLen() <= 6 {
		x := v.Uint64()<<2 | 1
		out = append(out, []byte{byte(x), byte(x >> 8)})
	}
	if v.BitLen() <= 14 {
		x := v.Uint64()<<2 | 2
		out = append(out, []byte{byte(x), byte(x >> 8), byte(x >> 16), byte(x >> 24)})
	}
	be := v.Bytes()
	le := make([]byte, 0, len(be)+2)
	for i := len(be) - 1; i >= 0; i-- {
		le = append(le, be[i])
	}
	if v.BitLen() <= 30 { // big mode with 4 bytes for a value that fits a smaller mode
		p := append([]byte{}, le...)
		for len(p) < 4 {
			p = append(p, 0)
		}
		out = append(out, append([]byte{3}, p...))
	}
	// big mode with a zero most significant byte
	p := append([]byte{}, le...)
	for len(p) < 4 {
		p = append(p, 0)
	}
	p = append(p, 0)
	if len(p) <= 67 {
		out = append(out, append([]byte{byte(len(p)-4)<<2 | 3}, p...))
	}
	return out
}

// ---- encoder

const (
	cValue = iota
	cBytesLen
	cVecLen
	cMapLen
)

type cspan struct {
	off, n int
	v      *big.Int
	role   int
}

type uspan struct{ off, n int } // body of a multi-byte primitive

type encoder struct {
	buf      []byte
	compacts []cspan
	units    []uspan
}

func (e *encoder) compact(v *big.Int, role int) {
	c := compactBig(v)
	e.compacts = append(e.compacts, cspan{len(e.buf), len(c), new(big.Int).Set(v), role})
	if len(c) >= 3 {
		e.units = append(e.units, uspan{len(e.buf) + 1, len(c) - 1})
	}
	e.buf = append(e.buf, c...)
}

func (e *encoder) fixed(v uint64, n int) {
	if n >= 2 {
		e.units = append(e.units, uspan{len(e.buf), n})
	}
	for i := 0; i < n; i++ {
		e.buf = append(e.buf, byte(v>>(8*i)))
	}
}

func (e *encoder) bytes(b []byte) {
	e.compact(big.NewInt(int64(len(b))), cBytesLen)
	if len(b) >= 2 {
		e.units = append(e.units, uspan{len(e.buf), len(b)})
	}
	e.buf = append(e.buf, b...)
}

var fixedSize = map[kind]int{kU8: 1, kI8: 1, kU16: 2, kI16: 2, kU32: 4, kI32: 4, kU64: 8, kI64: 8}

func (e *encoder) encode(d *desc, v val) {
	switch d.k {
	case kU8, kI8, kU16, kI16, kU32, kI32, kU64, kI64:
		e.fixed(v.u, fixedSize[d.k])
	case kCUint, kCInt:
		// a Go int is encoded through its unsigned 64-bit image; SCALE compacts are unsigned, the
		// generators of C11 only produce non-negative ints
		e.compact(new(big.Int).SetUint64(v.u), cValue)
	case kBool:
		e.buf = append(e.buf, byte(v.u&1))
	case kString, kBytes:
		e.bytes(v.b)
	case kBigInt:
		e.compact(v.bi, cValue)
	case kU128:
		be := v.bi.Bytes()
		out := make([]byte, 16)
		for i := 0; i < len(be); i++ {
			out[i] = be[len(be)-1-i]
		}
		e.buf = append(e.buf, out...)
	case kOption:
		if !v.flag {
			e.buf = append(e.buf, 0)
			return
		}
		e.buf = append(e.buf, 1)
		e.encode(d.elem, v.e[0])
	case kResult:
		inner := d.okD
		if v.flag {
			e.buf = append(e.buf, 1)
			inner = d.errD
		} else {
			e.buf = append(e.buf, 0)
		}
		if inner != nil {
			e.encode(inner, v.e[0])
		}
	case kEnum:
		e.buf = append(e.buf, d.variants[v.idx].index)
		e.encode(d.variants[v.idx].d, v.e[0])
	case kArray:
		for i := 0; i < d.n; i++ {
			e.encode(d.elem, v.e[i])
		}
	case kVec:
		e.compact(big.NewInt(int64(len(v.e))), cVecLen)
		for _, x := range v.e {
			e.encode(d.elem, x)
		}
	case kMap:
		ents := sortedEntries(d, v)
		e.compact(big.NewInt(int64(len(ents)/2)), cMapLen)
		for i := 0; i < len(ents); i += 2 {
			e.encode(d.key, ents[i])
			e.encode(d.elem, ents[i+1])
		}
	case kStruct:
		for _, i := range d.order() {
			e.encode(d.fields[i].d, v.e[i])
		}
	}
}

func refEncode(d *desc, v val) []byte {
	var e encoder
	e.encode(d, v)
	return e.buf
}

// sortedEntries: map entries in ascending key order (the order of the Rust
// BTreeMap the SCALE map encoding is defined by): integers numerically,
// booleans false<true, strings and byte arrays lexicographically.
func sortedEntries(d *desc, v val) []val {
	n := len(v.e) / 2
	idx := make([]int, n)
	for i := range idx {
		idx[i] = i
	}
	sort.SliceStable(idx, func(a, b int) bool { return compareKey(d.key, v.e[2*idx[a]], v.e[2*idx[b]]) < 0 })
	out := make([]val, 0, len(v.e))
	for _, i := range idx {
		out = append(out, v.e[2*i], v.e[2*i+1])
	}
	return out
}

func compareKey(d *desc, a, b val) int {
	switch d.k {
	case kI8, kI16, kI32, kI64, kCInt:
		x, y := int64(a.u), int64(b.u)
		switch {
		case x < y:
			return -1
		case x > y:
			return 1
		}
		return 0
	case kU8, kU16, kU32, kU64, kCUint, kBool:
		switch {
		case a.u < b.u:
			return -1
		case a.u > b.u:
			return 1
		}
		return 0
	case kString:
		return bytes.Compare(a.b, b.b)
	case kArray:
		for i := 0; i < d.n; i++ {
			if c := compareKey(d.elem, a.e[i], b.e[i]); c != 0 {
				return c
			}
		}
		return 0
	}
	panic("refscale: unsupported map key kind " + d.String())
}

// ---- strict decoder (canonical encodings only, except that map entries are
// accepted in any order and with repeated keys, as parity-scale-codec does;
// the value tree keeps them in input order)

var (
	errShort       = errors.New("ref: input ends at a primitive boundary")
	errShortInside = errors.New("ref: input ends inside a multi-byte primitive body")
	errBad         = errors.New("ref: invalid encoding")
)

type decoder struct {
	in       []byte
	pos      int
	overlong uint64 // a byte string declared this many bytes, more than the input has left (0: none)
}

func (r *decoder) take(n int, multi bool) ([]byte, error) {
	rem := len(r.in) - r.pos
	if n < 0 || rem < n {
		if multi && rem > 0 && (n >= 2 || n < 0) {
			return nil, errShortInside
		}
		return nil, errShort
	}
	b := r.in[r.pos : r.pos+n]
	r.pos += n
	return b, nil
}

func (r *decoder) compact() (*big.Int, error) {
	p, err := r.take(1, false)
	if err != nil {
		return nil, err
	}
	b0 := p[0]
	switch b0 & 3 {
	case 0:
		return big.NewInt(int64(b0 >> 2)), nil
	case 1:
		q, err := r.take(1, false)
		if err != nil {
			return nil, err
		}
		v := (uint64(q[0])<<8 | uint64(b0)) >> 2
		if v < 1<<6 {
			return nil, fmt.Errorf("%w: non-canonical 2-byte compact %d", errBad, v)
		}
		return new(big.Int).SetUint64(v), nil
	case 2:
		q, err := r.take(3, true)
		if err != nil {
			return nil, err
		}
		v := (uint64(q[2])<<24 | uint64(q[1])<<16 | uint64(q[0])<<8 | uint64(b0)) >> 2
		if v < 1<<14 {
			return nil, fmt.Errorf("%w: non-canonical 4-byte compact %d", errBad, v)
		}
		return new(big.Int).SetUint64(v), nil
	}
	n := int(b0>>2) + 4
	q, err := r.take(n, true)
	if err != nil {
		return nil, err
	}
	if q[n-1] == 0 {
		return nil, fmt.Errorf("%w: big-integer compact with zero most significant byte", errBad)
	}
	be := make([]byte, n)
	for i := range q {
		be[n-1-i] = q[i]
	}
	v := new(big.Int).SetBytes(be)
	if v.BitLen() <= 30 {
		return nil, fmt.Errorf("%w: non-canonical big-integer compact %s", errBad, v)
	}
	return v, nil
}

func (r *decoder) length() (int, error) {
	v, err := r.compact()
	if err != nil {
		return 0, err
	}
	if !v.IsUint64() {
		return 0, fmt.Errorf("%w: length %s", errBad, v)
	}
	if v.Uint64() > 1<<40 {
		return -1, nil // larger than any input; take(-1) classifies the shortage
	}
	return int(v.Uint64()), nil
}

func (r *decoder) decode(d *desc) (val, error) {
	switch d.k {
	case kU8, kI8, kU16, kI16, kU32, kI32, kU64, kI64:
		n := fixedSize[d.k]
		b, err := r.take(n, true)
		if err != nil {
			return val{}, err
		}
		var u uint64
		for i := 0; i < n; i++ {
			u |= uint64(b[i]) << (8 * i)
		}
		// sign-extend so that val.u is the two's complement image in 64 bits
		switch d.k {
		case kI8:
			u = uint64(int64(int8(u)))
		case kI16:
			u = uint64(int64(int16(u)))
		case kI32:
			u = uint64(int64(int32(u)))
		}
		return val{u: u}, nil
	case kCUint, kCInt:
		v, err := r.compact()
		if err != nil {
			return val{}, err
		}
		if !v.IsUint64() {
			return val{}, fmt.Errorf("%w: compact %s exceeds 64 bits", errBad, v)
		}
		return val{u: v.Uint64()}, nil
	case kBool:
		b, err := r.take(1, false)
		if err != nil {
			return val{}, err
		}
		if b[0] > 1 {
			return val{}, fmt.Errorf("%w: bool %d", errBad, b[0])
		}
		return val{u: uint64(b[0])}, nil
	case kString, kBytes:
		n, err := r.length()
		if err != nil {
			if errors.Is(err, errShortInside) {
				r.overlong = 1 << 62 // the length prefix itself is cut short: a zero-filling decoder sees any length
			}
			return val{}, err
		}
		b, err := r.take(n, true)
		if err != nil {
			r.overlong = uint64(n)
			if n < 0 {
				r.overlong = 1 << 62
			}
			return val{}, err
		}
		return val{b: append([]byte{}, b...)}, nil
	case kBigInt:
		v, err := r.compact()
		if err != nil {
			return val{}, err
		}
		return val{bi: v}, nil
	case kU128:
		b, err := r.take(16, false)
		if err != nil {
			return val{}, err
		}
		be := make([]byte, 16)
		for i := range b {
			be[15-i] = b[i]
		}
		return val{bi: new(big.Int).SetBytes(be)}, nil
	case kOption:
		b, err := r.take(1, false)
		if err != nil {
			return val{}, err
		}
		switch b[0] {
		case 0:
			return val{}, nil
		case 1:
			x, err := r.decode(d.elem)
			if err != nil {
				return val{}, err
			}
			return val{flag: true, e: []val{x}}, nil
		}
		return val{}, fmt.Errorf("%w: option byte %d", errBad, b[0])
	case kResult:
		b, err := r.take(1, false)
		if err != nil {
			return val{}, err
		}
		if b[0] > 1 {
			return val{}, fmt.Errorf("%w: result byte %d", errBad, b[0])
		}
		inner := d.okD
		if b[0] == 1 {
			inner = d.errD
		}
		out := val{flag: b[0] == 1}
		if inner != nil {
			x, err := r.decode(inner)
			if err != nil {
				return val{}, err
			}
			out.e = []val{x}
		}
		return out, nil
	case kEnum:
		b, err := r.take(1, false)
		if err != nil {
			return val{}, err
		}
		for i, vr := range d.variants {
			if vr.index == b[0] {
				x, err := r.decode(vr.d)
				if err != nil {
					return val{}, err
				}
				return val{idx: i, e: []val{x}}, nil
			}
		}
		return val{}, fmt.Errorf("%w: enum index %d", errBad, b[0])
	case kArray:
		out := val{}
		for i := 0; i < d.n; i++ {
			x, err := r.decode(d.elem)
			if err != nil {
				return val{}, err
			}
			out.e = append(out.e, x)
		}
		return out, nil
	case kVec, kMap:
		n, err := r.length()
		if err != nil {
			return val{}, err
		}
		out := val{}
		for i := 0; i < n || n < 0; i++ {
			if d.k == kMap {
				x, err := r.decode(d.key)
				if err != nil {
					return val{}, err
				}
				out.e = append(out.e, x)
			}
			x, err := r.decode(d.elem)
			if err != nil {
				return val{}, err
			}
			out.e = append(out.e, x)
		}
		return out, nil
	case kStruct:
		out := val{e: make([]val, len(d.fields))}
		for _, i := range d.order() {
			x, err := r.decode(d.fields[i].d)
			if err != nil {
				return val{}, err
			}
			out.e[i] = x
		}
		for i, f := range d.fields {
			if f.tag == tagSkip {
				out.e[i] = zeroVal(f.d)
			}
		}
		return out, nil
	}
	panic("refscale: decode of unknown kind")
}

// refDecode decodes one value of type d from the start of in.
func refDecode(d *desc, in []byte) (val, int, error) {
	r := decoder{in: in}
	v, err := r.decode(d)
	return v, r.pos, err
}

func zeroVal(d *desc) val {
	switch d.k {
	case kBigInt, kU128:
		return val{bi: new(big.Int)}
	case kArray:
		out := val{}
		for i := 0; i < d.n; i++ {
			out.e = append(out.e, zeroVal(d.elem))
		}
		return out
	case kStruct:
		out := val{}
		for _, f := range d.fields {
			out.e = append(out.e, zeroVal(f.d))
		}
		return out
	case kEnum:
		return val{idx: 0, e: []val{zeroVal(d.variants[0].d)}}
	case kResult:
		out := val{}
		if d.okD != nil {
			out.e = []val{zeroVal(d.okD)}
		}
		return out
	}
	return val{}
}

// ---- equality of value trees. Maps compare as sets of entries (for repeated
// keys the last entry wins), skipped struct fields are ignored.

func dedupEntries(d *desc, v val) []val {
	var out []val
	for i := 0; i+1 < len(v.e); i += 2 {
		replaced := false
		for j := 0; j < len(out); j += 2 {
			if compareKey(d.key, out[j], v.e[i]) == 0 {
				out[j+1] = v.e[i+1]
				replaced = true
			}
		}
		if !replaced {
			out = append(out, v.e[i], v.e[i+1])
		}
	}
	return sortedEntries(d, val{e: out})
}

func valEqual(d *desc, a, b val) bool {
	switch d.k {
	case kU8, kI8, kU16, kI16, kU32, kI32, kU64, kI64, kCUint, kCInt, kBool:
		return a.u == b.u
	case kString, kBytes:
		return bytes.Equal(a.b, b.b)
	case kBigInt, kU128:
		return a.bi != nil && b.bi != nil && a.bi.Cmp(b.bi) == 0
	case kOption:
		if a.flag != b.flag {
			return false
		}
		return !a.flag || valEqual(d.elem, a.e[0], b.e[0])
	case kResult:
		if a.flag != b.flag {
			return false
		}
		inner := d.okD
		if a.flag {
			inner = d.errD
		}
		return inner == nil || valEqual(inner, a.e[0], b.e[0])
	case kEnum:
		return a.idx == b.idx && valEqual(d.variants[a.idx].d, a.e[0], b.e[0])
	case kArray, kVec:
		if len(a.e) != len(b.e) {
			return false
		}
		for i := range a.e {
			if !valEqual(d.elem, a.e[i], b.e[i]) {
				return false
			}
		}
		return true
	case kMap:
		x, y := dedupEntries(d, a), dedupEntries(d, b)
		if len(x) != len(y) {
			return false
		}
		for i := 0; i < len(x); i += 2 {
			if compareKey(d.key, x[i], y[i]) != 0 || !valEqual(d.elem, x[i+1], y[i+1]) {
				return false
			}
		}
		return true
	case kStruct:
		for i, f := range d.fields {
			if f.tag != tagSkip && !valEqual(f.d, a.e[i], b.e[i]) {
				return false
			}
		}
		return true
	}
	return false
}

// ---- Go values

func u128ToBig(u *scale.Uint128) *big.Int {
	x := new(big.Int).SetUint64(u.Upper)
	x.Lsh(x, 64)
	return x.Or(x, new(big.Int).SetUint64(u.Lower))
}

func bigToU128(x *big.Int) *scale.Uint128 {
	lo := new(big.Int).And(x, new(big.Int).SetUint64(^uint64(0)))
	hi := new(big.Int).Rsh(x, 64)
	return &scale.Uint128{Upper: hi.Uint64(), Lower: lo.Uint64()}
}

func proto(d *desc) any {
	if d == nil {
		return nil
	}
	return reflect.Zero(d.goType()).Interface()
}

// toGo builds the Go value of type d.goType() that denotes v.
func toGo(d *desc, v val) reflect.Value {
	t := d.goType()
	out := reflect.New(t).Elem()
	switch d.k {
	case kU8, kU16, kU32, kU64, kCUint:
		out.SetUint(v.u)
	case kI8, kI16, kI32, kI64, kCInt:
		out.SetInt(int64(v.u))
	case kBool:
		out.SetBool(v.u == 1)
	case kString:
		out.SetString(string(v.b))
	case kBytes:
		out.SetBytes(append([]byte{}, v.b...))
	case kBigInt:
		out.Set(reflect.ValueOf(new(big.Int).Set(v.bi)))
	case kU128:
		out.Set(reflect.ValueOf(bigToU128(v.bi)))
	case kOption:
		if v.flag {
			p := reflect.New(d.elem.goType())
			p.Elem().Set(toGo(d.elem, v.e[0]))
			out.Set(p)
		}
	case kResult:
		res := scale.NewResult(proto(d.okD), proto(d.errD))
		mode, inner := scale.OK, d.okD
		if v.flag {
			mode, inner = scale.Err, d.errD
		}
		var in any
		if inner != nil {
			in = toGo(inner, v.e[0]).Interface()
		}
		if err := res.Set(mode, in); err != nil {
			panic("refscale: Result.Set: " + err.Error())
		}
		out.Set(reflect.ValueOf(res))
	case kEnum:
		p := reflect.New(t)
		if err := p.Interface().(scale.VaryingDataType).SetValue(toGo(d.variants[v.idx].d, v.e[0]).Interface()); err != nil {
			panic("refscale: SetValue: " + err.Error())
		}
		out.Set(p.Elem())
	case kArray:
		for i := 0; i < d.n; i++ {
			out.Index(i).Set(toGo(d.elem, v.e[i]))
		}
	case kVec:
		s := reflect.MakeSlice(t, 0, len(v.e))
		for _, x := range v.e {
			s = reflect.Append(s, toGo(d.elem, x))
		}
		out.Set(s)
	case kMap:
		m := reflect.MakeMap(t)
		for i := 0; i+1 < len(v.e); i += 2 {
			m.SetMapIndex(toGo(d.key, v.e[i]), toGo(d.elem, v.e[i+1]))
		}
		out.Set(m)
	case kStruct:
		for i, f := range d.fields {
			out.Field(i).Set(toGo(f.d, v.e[i]))
		}
	}
	return out
}

// newDst returns a pointer to a fresh destination of type d. scale.Result
// needs its ok/err prototypes in the destination (documented use: NewResult),
// they are installed at top level and in struct fields.
func newDst(d *desc) reflect.Value {
	p := reflect.New(d.goType())
	fillProto(d, p.Elem())
	return p
}

func fillProto(d *desc, v reflect.Value) {
	switch d.k {
	case kResult:
		v.Set(reflect.ValueOf(scale.NewResult(proto(d.okD), proto(d.errD))))
	case kStruct:
		for i, f := range d.fields {
			if f.tag != tagSkip {
				fillProto(f.d, v.Field(i))
			}
		}
	}
}

// fromGo reads the value tree back from a Go value (error: the Go value does
// not denote a value of the type, e.g. nil *big.Int or unset Result).
func fromGo(d *desc, g reflect.Value) (val, error) {
	switch d.k {
	case kU8, kU16, kU32, kU64, kCUint:
		return val{u: g.Uint()}, nil
	case kI8, kI16, kI32, kI64, kCInt:
		return val{u: uint64(g.Int())}, nil
	case kBool:
		if g.Bool() {
			return val{u: 1}, nil
		}
		return val{}, nil
	case kString:
		return val{b: []byte(g.String())}, nil
	case kBytes:
		return val{b: append([]byte{}, g.Bytes()...)}, nil
	case kBigInt:
		if g.IsNil() {
			return val{}, errors.New("nil *big.Int")
		}
		return val{bi: new(big.Int).Set(g.Interface().(*big.Int))}, nil
	case kU128:
		if g.IsNil() {
			return val{}, errors.New("nil *Uint128")
		}
		return val{bi: u128ToBig(g.Interface().(*scale.Uint128))}, nil
	case kOption:
		if g.IsNil() {
			return val{}, nil
		}
		x, err := fromGo(d.elem, g.Elem())
		return val{flag: true, e: []val{x}}, err
	case kResult:
		res := g.Interface().(scale.Result)
		okv, err := res.Unwrap()
		out := val{}
		inner := d.okD
		var in any = okv
		if err != nil {
			var w scale.WrappedErr
			if !errors.As(err, &w) {
				return val{}, fmt.Errorf("result: %w", err)
			}
			out.flag, inner, in = true, d.errD, w.Err
		}
		if inner != nil {
			if in == nil || reflect.TypeOf(in) != inner.goType() {
				return val{}, fmt.Errorf("result holds %T, want %s", in, inner.goType())
			}
			x, err := fromGo(inner, reflect.ValueOf(in))
			if err != nil {
				return val{}, err
			}
			out.e = []val{x}
		} else if in != nil {
			return val{}, fmt.Errorf("result holds %T, want unit", in)
		}
		return out, nil
	case kEnum:
		st := g.Interface().(vdtGetter).state()
		if !st.set {
			return val{}, errors.New("varying data type not set")
		}
		for i, vr := range d.variants {
			if uint(vr.index) == st.idx {
				if reflect.TypeOf(st.v) != vr.d.goType() {
					return val{}, fmt.Errorf("enum holds %T for index %d", st.v, st.idx)
				}
				x, err := fromGo(vr.d, reflect.ValueOf(st.v))
				return val{idx: i, e: []val{x}}, err
			}
		}
		return val{}, fmt.Errorf("enum index %d unknown", st.idx)
	case kArray, kVec:
		out := val{}
		for i := 0; i < g.Len(); i++ {
			x, err := fromGo(d.elem, g.Index(i))
			if err != nil {
				return val{}, err
			}
			out.e = append(out.e, x)
		}
		return out, nil
	case kMap:
		out := val{}
		it := g.MapRange()
		for it.Next() {
			k, err := fromGo(d.key, it.Key())
			if err != nil {
				return val{}, err
			}
			x, err := fromGo(d.elem, it.Value())
			if err != nil {
				return val{}, err
			}
			out.e = append(out.e, k, x)
		}
		out.e = sortedEntries(d, out) // never depend on Go's map iteration order
		return out, nil
	case kStruct:
		out := val{e: make([]val, len(d.fields))}
		for i, f := range d.fields {
			if f.tag == tagSkip {
				out.e[i] = zeroVal(f.d)
				continue
			}
			x, err := fromGo(f.d, g.Field(i))
			if err != nil {
				return val{}, fmt.Errorf("field %d: %w", i, err)
			}
			out.e[i] = x
		}
		return out, nil
	}
	return val{}, errors.New("unknown kind")
}

// ---- labels and rendering

func valLabels(d *desc, v val, set map[string]bool) {
	switch d.k {
	case kCUint, kCInt:
		set[compactMode(new(big.Int).SetUint64(v.u))] = true
		set["compact-u64-type"] = true
	case kBigInt:
		set[compactMode(v.bi)] = true
		set["big-int-type"] = true
	case kU128:
		set["u128"] = true
	case kString:
		if !utf8.Valid(v.b) {
			set["string-invalid-utf8"] = true
		} else if len(v.b) != utf8.RuneCount(v.b) {
			set["string-multibyte"] = true
		}
		if len(v.b) >= 64 {
			set["bytes-len>=64"] = true
		}
	case kBytes:
		if len(v.b) >= 64 {
			set["bytes-len>=64"] = true
		}
	case kOption:
		if v.flag {
			set["option-some"] = true
			valLabels(d.elem, v.e[0], set)
		} else {
			set["option-none"] = true
		}
	case kResult:
		set["result"] = true
		inner := d.okD
		if v.flag {
			inner = d.errD
		}
		if inner != nil {
			valLabels(inner, v.e[0], set)
		} else {
			set["result-unit"] = true
		}
	case kEnum:
		set["enum"] = true
		valLabels(d.variants[v.idx].d, v.e[0], set)
	case kArray, kVec:
		if d.k == kVec && len(v.e) >= 64 {
			set["vec-len>=64"] = true
		}
		if d.k == kVec && len(v.e) == 0 {
			set["vec-empty"] = true
		}
		for _, x := range v.e {
			valLabels(d.elem, x, set)
		}
	case kMap:
		switch n := len(v.e) / 2; {
		case n == 0:
			set["map-empty"] = true
		case n == 1:
			set["map-1-entry"] = true
		default:
			set["map-multi-entry"] = true
		}
		for i := 0; i+1 < len(v.e); i += 2 {
			valLabels(d.key, v.e[i], set)
			valLabels(d.elem, v.e[i+1], set)
		}
	case kStruct:
		tagged, skip := false, false
		for i, f := range d.fields {
			if f.tag == tagSkip {
				skip = true
				continue
			}
			if f.tag >= 0 {
				tagged = true
			}
			valLabels(f.d, v.e[i], set)
		}
		if tagged {
			set["struct-with-tags"] = true
		}
		if skip {
			set["struct-with-skipped-field"] = true
		}
	}
	if d.named {
		set["named-primitive"] = true
	}
}

func hexs(b []byte) string {
	if len(b) > 96 {
		return hex.EncodeToString(b[:96]) + fmt.Sprintf("..(%d bytes)", len(b))
	}
	return hex.EncodeToString(b)
}
