package vchk

// Named (statically declared) struct types: pkg/scale caches the field layout of
// named struct types across calls, which reflect.StructOf types bypass. The types
// below put unexported and skipped fields before, between and after the exported
// ones; every value is encoded and decoded several times in one process, alone
// and as elements of a slice, and compared with a hand-written encoding.

import (
	"bytes"
	"fmt"
	"testing"

	kit "github.com/ChainSafe/gossamer/internal/verifkit"
	"pgregory.net/rapid"
)

type c11LeadHidden struct {
	hidden int //nolint:unused
	B      uint8
	C      uint16
	D      string
}

type c11MidHidden struct {
	A     bool
	note  string //nolint:unused
	B     uint32
	Skip  uint64 `scale:"-"`
	C     []byte
	trail int //nolint:unused
}

type c11Tagged struct {
	cache [2]int //nolint:unused
	Z     uint8  `scale:"2"`
	Y     uint16 `scale:"1"`
	X     bool   `scale:"3"`
}

type c11Outer struct {
	private uint8 //nolint:unused
	In      c11LeadHidden
	List    []c11Tagged
	N       uint8
}

func c11Str(s string) []byte { return append(kit.SpecCompact(uint64(len(s))), s...) }

func (v c11LeadHidden) ref() []byte {
	return append([]byte{v.B, byte(v.C), byte(v.C >> 8)}, c11Str(v.D)...)
}

func (v c11MidHidden) ref() []byte {
	a := byte(0)
	if v.A {
		a = 1
	}
	out := []byte{a, byte(v.B), byte(v.B >> 8), byte(v.B >> 16), byte(v.B >> 24)}
	return append(out, append(kit.SpecCompact(uint64(len(v.C))), v.C...)...)
}

func (v c11Tagged) ref() []byte {
	x := byte(0)
	if v.X {
		x = 1
	}
	return []byte{byte(v.Y), byte(v.Y >> 8), v.Z, x}
}

func (v c11Outer) ref() []byte {
	out := v.In.ref()
	out = append(out, kit.SpecCompact(uint64(len(v.List)))...)
	for _, e := range v.List {
		out = append(out, e.ref()...)
	}
	return append(out, v.N)
}

func genLead(t *rapid.T) c11LeadHidden {
	return c11LeadHidden{B: rapid.Byte().Draw(t, "b"), C: rapid.Uint16().Draw(t, "c"), D: rapid.StringMatching("[a-z]{0,5}").Draw(t, "d")}
}

func genTagged(t *rapid.T) c11Tagged {
	return c11Tagged{Z: rapid.Byte().Draw(t, "z"), Y: rapid.Uint16().Draw(t, "y"), X: rapid.Bool().Draw(t, "x")}
}

// c11NamedRound encodes v, compares with want, and decodes it back `times` times.
func c11NamedRound[T any](t failer, name string, v T, want []byte, times int, eq func(a, b T) bool) {
	for i := 0; i < times; i++ {
		got, err := safeMarshal(v)
		if err != nil || !bytes.Equal(got, want) {
			t.Fatalf("%s: Marshal #%d = %s, %v; want %s (value %+v)", name, i+1, hexs(got), err, hexs(want), v)
		}
		var back T
		wire := append([]byte{}, want...)
		if err := safeUnmarshal(wire, &back); err != nil {
			t.Fatalf("%s: Unmarshal #%d of %s: %v (value %+v)", name, i+1, hexs(want), err, v)
		}
		if !eq(v, back) {
			t.Fatalf("%s: Unmarshal #%d of %s = %+v, want %+v", name, i+1, hexs(want), back, v)
		}
	}
}

func TestC11NamedStructs(t *testing.T) {
	defer kit.Flush()
	kit.Note("rule-named", "statically declared struct types with unexported / scale:\"-\" fields before, between and after the exported ones and with shuffled scale:\"N\" tags, nested and as slice elements; each generated value is marshalled and unmarshalled 3 times in one process (the per-type field cache of pkg/scale is reused) and compared with a hand-written encoding; non-trivial = a slice of >= 2 such structs")
	rapid.Check(t, func(t *rapid.T) {
		lead := genLead(t)
		c11NamedRound(t, "c11LeadHidden", lead, lead.ref(), 3, func(a, b c11LeadHidden) bool { return a.B == b.B && a.C == b.C && a.D == b.D })
		mid := c11MidHidden{A: rapid.Bool().Draw(t, "a"), B: rapid.Uint32().Draw(t, "b32"), C: rapid.SliceOfN(rapid.Byte(), 0, 4).Draw(t, "cbytes")}
		c11NamedRound(t, "c11MidHidden", mid, mid.ref(), 3, func(a, b c11MidHidden) bool {
			return a.A == b.A && a.B == b.B && bytes.Equal(a.C, b.C)
		})
		tg := genTagged(t)
		c11NamedRound(t, "c11Tagged", tg, tg.ref(), 3, func(a, b c11Tagged) bool { return a.X == b.X && a.Y == b.Y && a.Z == b.Z })

		n := rapid.IntRange(0, 4).Draw(t, "n")
		leads := make([]c11LeadHidden, n)
		want := kit.SpecCompact(uint64(n))
		for i := range leads {
			leads[i] = genLead(t)
			want = append(want, leads[i].ref()...)
		}
		c11NamedRound(t, "[]c11LeadHidden", leads, want, 2, func(a, b []c11LeadHidden) bool {
			if len(a) != len(b) {
				return false
			}
			for i := range a {
				if a[i].B != b[i].B || a[i].C != b[i].C || a[i].D != b[i].D {
					return false
				}
			}
			return true
		})
		out := c11Outer{In: genLead(t), N: rapid.Byte().Draw(t, "n8")}
		for i, k := 0, rapid.IntRange(0, 3).Draw(t, "nl"); i < k; i++ {
			out.List = append(out.List, genTagged(t))
		}
		c11NamedRound(t, "c11Outer", out, out.ref(), 2, func(a, b c11Outer) bool {
			if a.In.B != b.In.B || a.In.C != b.In.C || a.In.D != b.In.D || a.N != b.N || len(a.List) != len(b.List) {
				return false
			}
			for i := range a.List {
				if a.List[i].X != b.List[i].X || a.List[i].Y != b.List[i].Y || a.List[i].Z != b.List[i].Z {
					return false
				}
			}
			return true
		})
		kit.Case(fmt.Sprintf("named %+v %+v %+v %d %+v", lead, mid, tg, n, out), n >= 2 || len(out.List) >= 2, "named-struct-types")
	})
}
