package vchk

// Generators of random SCALE types (desc) and values (val), shared by C11 and C12.

import (
	"fmt"
	"math/big"
	"sort"

	kit "github.com/ChainSafe/gossamer/internal/verifkit"
	"github.com/ChainSafe/gossamer/pkg/scale"
	"pgregory.net/rapid"
)

const findingOptVdt = "C11-option-of-varying-data-type"
const findingCompact57 = "C11-compact-uint-5-to-7-bytes"

// steerCompact57: known finding - Go uint/int values whose compact encoding
// uses the 5-, 6- or 7-byte big-integer mode (2^32 <= v < 2^56) are encoded
// but rejected by the decoder. While the finding is open such a value is moved
// into the 8-byte mode (bit 56 set) and the exclusion is counted.
func steerCompact57(v uint64) uint64 {
	if v >= 1<<32 && v < 1<<56 && kit.KnownOpen(findingCompact57) {
		kit.Excluded(findingCompact57)
		return v | 1<<56
	}
	return v
}

type gctx struct {
	slots    []int // free enum slots
	maxDepth int
}

var primKinds = []kind{kU8, kI8, kU16, kI16, kU32, kI32, kU64, kI64, kCUint, kCUint, kCUint, kCInt, kBool, kString, kBytes, kBigInt, kBigInt, kU128}
var keyKinds = []kind{kU8, kI8, kU16, kI16, kU32, kI32, kU64, kI64, kCUint, kCInt, kBool, kString}

func genPrim(t *rapid.T, kinds []kind) *desc {
	k := rapid.SampledFrom(kinds).Draw(t, "prim")
	d := &desc{k: k}
	if _, ok := namedTypes[k]; ok && rapid.IntRange(0, 4).Draw(t, "named") == 0 {
		d.named = true
	}
	return d
}

// genDescAt draws a type. allowResult: the position can hold a scale.Result
// (top level and struct fields reachable through struct fields only, the
// positions where a destination can carry the Result prototypes).
func genDescAt(t *rapid.T, depth int, c *gctx, allowResult bool) *desc {
	compositePct := []int{90, 60, 45, 30, 0, 0, 0}[depth]
	if depth >= c.maxDepth || rapid.IntRange(0, 99).Draw(t, "composite") >= compositePct {
		return genPrim(t, primKinds)
	}
	choices := []kind{kOption, kOption, kArray, kVec, kVec, kMap, kStruct, kStruct, kStruct}
	if len(c.slots) > 0 {
		choices = append(choices, kEnum)
	}
	if allowResult {
		choices = append(choices, kResult)
	}
	k := rapid.SampledFrom(choices).Draw(t, "kind")
	d := &desc{k: k}
	switch k {
	case kOption:
		d.elem = genDescAt(t, depth+1, c, false)
		if d.elem.k == kEnum && kit.KnownOpen(findingOptVdt) {
			// known finding: a pointer to a VaryingDataType is encoded as the enum itself (no option
			// byte, nil panics) but decoded as an Option. Steer to Option<struct{enum}>.
			kit.Excluded(findingOptVdt)
			d.elem = &desc{k: kStruct, fields: []field{{tagNone, d.elem}}}
		}
	case kArray:
		d.n = rapid.IntRange(1, 3).Draw(t, "arrlen")
		d.elem = genDescAt(t, depth+1, c, false)
	case kVec:
		d.elem = genDescAt(t, depth+1, c, false)
		if zeroSizeSeqElems {
			// Vec<()>-like types are legal SCALE: the canonical encoding of such a vector
			// is its length prefix alone (round trip only; see nonEmptyEnc for decoding
			// of arbitrary input)
			if rapid.IntRange(0, 11).Draw(t, "zerosize") == 0 {
				d.elem = &desc{k: kStruct}
				if rapid.Bool().Draw(t, "zsskip") {
					d.elem.fields = []field{{tagSkip, genPrim(t, []kind{kI32, kString, kU8, kBool})}}
				}
				if rapid.IntRange(0, 3).Draw(t, "zsarr") == 0 {
					d.elem = &desc{k: kArray, n: rapid.IntRange(1, 3).Draw(t, "zsarrlen"), elem: d.elem}
				}
			}
			if d.elem.minSize() == 0 {
				kit.Label("vec-of-zero-size-elements")
			}
		} else {
			d.elem = nonEmptyEnc(d.elem)
		}
		if d.elem.k == kU8 && !d.elem.named {
			return &desc{k: kBytes} // []uint8 is []byte: a byte string
		}
	case kMap:
		if rapid.IntRange(0, 5).Draw(t, "arrkey") == 0 {
			d.key = &desc{k: kArray, n: rapid.IntRange(1, 3).Draw(t, "keylen"), elem: &desc{k: kU8}}
		} else {
			d.key = genPrim(t, keyKinds)
		}
		d.elem = genDescAt(t, depth+1, c, false)
	case kStruct:
		n := rapid.IntRange(0, 5).Draw(t, "nfields")
		// distinct tag numbers in a drawn order (shuffled scale:"N" tags)
		tagPool := []int{0, 1, 2, 3, 4, 5, 7, 10}
		wide := depth <= 1 && rapid.IntRange(0, 7).Draw(t, "wide") == 0
		if wide {
			// wide structs (more fields than the insertion-sort cut-off of sort.Slice) with
			// mixed tagged/untagged fields: the field order must not depend on sort stability
			n = rapid.IntRange(13, 24).Draw(t, "nwide")
			tagPool = []int{0, 1, 2, 3, 4, 5, 6, 7, 8, 9, 10, 11, 12, 13, 14, 15, 16, 17, 18, 19, 20, 21, 22, 23, 30, 40, 50, 60}
			kit.Label("wide-struct>12-fields")
		}
		tags := rapid.Permutation(tagPool).Draw(t, "tags")
		tagMode := rapid.IntRange(0, 3).Draw(t, "tagmode") // 0 none, 1 all, 2/3 mixed
		for i := 0; i < n; i++ {
			f := field{tag: tagNone}
			if wide {
				if tagMode >= 1 && rapid.IntRange(0, 2).Draw(t, "tagged") == 0 {
					f.tag = tags[i]
				}
				f.d = genPrim(t, []kind{kU8, kU8, kBool, kI32, kString})
				d.fields = append(d.fields, f)
				continue
			}
			switch {
			case tagMode == 1, tagMode >= 2 && rapid.Bool().Draw(t, "tagged"):
				f.tag = tags[i]
			}
			if rapid.IntRange(0, 7).Draw(t, "skip") == 0 {
				f.tag = tagSkip
				f.d = genPrim(t, []kind{kI32, kString, kU8, kBool})
			} else {
				f.d = genDescAt(t, depth+1, c, allowResult)
			}
			d.fields = append(d.fields, f)
		}
	case kEnum:
		d.slot = c.slots[0]
		c.slots = c.slots[1:]
		n := rapid.IntRange(1, 4).Draw(t, "nvariants")
		idxs := rapid.Permutation([]int{0, 1, 2, 3, 4, 7, 127, 128, 255}).Draw(t, "indices")
		for i := 0; i < n; i++ {
			vd := genDescAt(t, depth+1, c, false)
			dup := false
			for _, o := range d.variants {
				if o.d.goType() == vd.goType() {
					dup = true
				}
			}
			if !dup {
				d.variants = append(d.variants, variant{byte(idxs[i]), vd})
			}
		}
	case kResult:
		if rapid.IntRange(0, 3).Draw(t, "okunit") != 0 {
			d.okD = genDescAt(t, depth+1, c, false)
		}
		if rapid.IntRange(0, 2).Draw(t, "errunit") != 0 {
			d.errD = genDescAt(t, depth+1, c, false)
		}
	}
	return d
}

// zeroSizeSeqElems: the round-trip check (C11) switches this on; checks that
// decode arbitrary input keep sequence elements at >= 1 byte.
var zeroSizeSeqElems = false

// nonEmptyEnc: elements of sequences must occupy at least one byte (a
// sequence of zero-sized elements is not described by its input).
func nonEmptyEnc(d *desc) *desc {
	if d.minSize() == 0 {
		return &desc{k: kOption, elem: d}
	}
	return d
}

func genDesc(maxDepth int) *rapid.Generator[*desc] {
	return rapid.Custom(func(t *rapid.T) *desc {
		c := &gctx{slots: []int{0, 1, 2}, maxDepth: maxDepth}
		return genDescAt(t, 0, c, true)
	})
}

// ---- values

var u64Bounds = func() []uint64 {
	out := []uint64{0, 1, 2, 42, 63, 64, 65, 255, 256}
	for _, s := range []uint{14, 16, 24, 30, 31, 32, 40, 48, 56, 63} {
		x := uint64(1) << s
		out = append(out, x-1, x, x+1)
	}
	return append(out, 1<<64-2, 1<<64-1)
}()

func genU64(t *rapid.T, max uint64) uint64 {
	var v uint64
	switch rapid.IntRange(0, 9).Draw(t, "intclass") {
	case 0, 1, 2, 3, 4, 5:
		v = rapid.SampledFrom(u64Bounds).Draw(t, "bound")
	case 6, 7:
		// uniform over the byte lengths, so that each compact mode of 4..8 bytes is hit
		bits := rapid.IntRange(1, 64).Draw(t, "bits")
		v = rapid.Uint64().Draw(t, "raw")
		if bits < 64 {
			v = v&(1<<uint(bits)-1) | 1<<uint(bits-1)
		}
	default:
		v = rapid.Uint64().Draw(t, "u64")
	}
	if v > max {
		v = v & max // max is always 2^k-1
	}
	return v
}

var bigBounds = func() []*big.Int {
	var out []*big.Int
	for _, u := range u64Bounds {
		out = append(out, new(big.Int).SetUint64(u))
	}
	for _, s := range []uint{64, 72, 80, 127, 128, 256, 528, 535} {
		x := new(big.Int).Lsh(big1, s)
		out = append(out, new(big.Int).Sub(x, big1), x, new(big.Int).Add(x, big1))
	}
	return append(out, new(big.Int).Set(bigMax))
}()

func genBig(t *rapid.T, maxBits int) *big.Int {
	var v *big.Int
	if rapid.IntRange(0, 9).Draw(t, "bigclass") < 6 {
		v = new(big.Int).Set(rapid.SampledFrom(bigBounds).Draw(t, "bigbound"))
	} else {
		nb := rapid.IntRange(0, (maxBits+7)/8).Draw(t, "bigbytes")
		b := rapid.SliceOfN(rapid.Byte(), nb, nb).Draw(t, "bigraw")
		v = new(big.Int).SetBytes(b)
	}
	if v.BitLen() > maxBits {
		v.And(v, new(big.Int).Sub(new(big.Int).Lsh(big1, uint(maxBits)), big1))
	}
	return v
}

var seqLens = []int{0, 0, 1, 1, 2, 2, 3, 4}

func genLen(t *rapid.T, small bool) int {
	if small && rapid.IntRange(0, 19).Draw(t, "longseq") == 0 {
		return rapid.SampledFrom([]int{63, 64, 65, 70}).Draw(t, "seqlen64")
	}
	return rapid.SampledFrom(seqLens).Draw(t, "seqlen")
}

func genBytes(t *rapid.T, utf bool) []byte {
	n := genLen(t, true)
	if rapid.IntRange(0, 199).Draw(t, "hugebytes") == 0 {
		n = rapid.SampledFrom([]int{1<<14 - 1, 1 << 14, 1<<14 + 1}).Draw(t, "len16k")
	}
	if utf {
		alphabet := []rune{'a', 'b', 'Z', '0', ' ', 0, 'é', 'ß', '€', '漢', '🙂'}
		s := string(rapid.SliceOfN(rapid.SampledFrom(alphabet), n, n).Draw(t, "runes"))
		return []byte(s)
	}
	if n > 100 {
		seed := rapid.Byte().Draw(t, "fill")
		b := make([]byte, n)
		for i := range b {
			b[i] = seed + byte(i)
		}
		return b
	}
	return rapid.SliceOfN(rapid.Byte(), n, n).Draw(t, "bytes")
}

func genVal(t *rapid.T, d *desc) val {
	switch d.k {
	case kU8:
		return val{u: genU64(t, 1<<8-1)}
	case kU16:
		return val{u: genU64(t, 1<<16-1)}
	case kU32:
		return val{u: genU64(t, 1<<32-1)}
	case kU64:
		return val{u: genU64(t, 1<<64-1)}
	case kCUint:
		return val{u: steerCompact57(genU64(t, 1<<64-1))}
	case kCInt:
		return val{u: steerCompact57(genU64(t, 1<<63-1)) & (1<<63 - 1)} // compacts are unsigned: non-negative ints only
	case kI8:
		return val{u: uint64(int64(int8(genU64(t, 1<<8-1))))}
	case kI16:
		return val{u: uint64(int64(int16(genU64(t, 1<<16-1))))}
	case kI32:
		return val{u: uint64(int64(int32(genU64(t, 1<<32-1))))}
	case kI64:
		return val{u: genU64(t, 1<<64-1)}
	case kBool:
		if rapid.Bool().Draw(t, "bool") {
			return val{u: 1}
		}
		return val{}
	case kString:
		return val{b: genBytes(t, true)}
	case kBytes:
		return val{b: genBytes(t, false)}
	case kBigInt:
		return val{bi: genBig(t, 536)}
	case kU128:
		return val{bi: genBig(t, 128)}
	case kOption:
		if rapid.IntRange(0, 2).Draw(t, "some") == 0 {
			return val{}
		}
		return val{flag: true, e: []val{genVal(t, d.elem)}}
	case kResult:
		out := val{flag: rapid.Bool().Draw(t, "iserr")}
		inner := d.okD
		if out.flag {
			inner = d.errD
		}
		if inner != nil {
			out.e = []val{genVal(t, inner)}
		}
		return out
	case kEnum:
		i := rapid.IntRange(0, len(d.variants)-1).Draw(t, "variant")
		return val{idx: i, e: []val{genVal(t, d.variants[i].d)}}
	case kArray:
		out := val{}
		for i := 0; i < d.n; i++ {
			out.e = append(out.e, genVal(t, d.elem))
		}
		return out
	case kVec:
		n := genLen(t, d.elem.k < kOption && d.elem.k != kBigInt && d.elem.k != kString && d.elem.k != kBytes)
		out := val{}
		for i := 0; i < n; i++ {
			out.e = append(out.e, genVal(t, d.elem))
		}
		return out
	case kMap:
		n := rapid.SampledFrom([]int{0, 1, 2, 2, 3, 4, 5}).Draw(t, "mapsize")
		out := val{}
		for i := 0; i < n; i++ {
			k := genVal(t, d.key)
			dup := false
			for j := 0; j < len(out.e); j += 2 {
				if compareKey(d.key, out.e[j], k) == 0 {
					dup = true
				}
			}
			if dup {
				continue
			}
			out.e = append(out.e, k, genVal(t, d.elem))
		}
		return out
	case kStruct:
		out := val{}
		for _, f := range d.fields {
			out.e = append(out.e, genVal(t, f.d))
		}
		return out
	}
	panic("genVal: unknown kind")
}

// ---- helpers shared by the checks

func labelsOf(set map[string]bool) []string {
	var ls []string
	for l := range set {
		ls = append(ls, l)
	}
	sort.Strings(ls)
	return ls
}

// marshal/unmarshal with panics turned into errors (a panic is a violation,
// reported by the caller with the case description).
func safeMarshal(v any) (b []byte, err error) {
	defer func() {
		if r := recover(); r != nil {
			err = fmt.Errorf("PANIC in scale.Marshal: %v", r)
		}
	}()
	return scale.Marshal(v)
}

func safeUnmarshal(data []byte, dst any) (err error) {
	defer func() {
		if r := recover(); r != nil {
			err = fmt.Errorf("PANIC in scale.Unmarshal: %v", r)
		}
	}()
	return scale.Unmarshal(data, dst)
}

type failer interface {
	Fatalf(format string, args ...any)
}
