package digest

// C23 - authority set changes are applied as Substrate applies them.
//
// Second unit, in-package in dot/digest: the same driver and model as the dot/state
// unit (c23_test.go, this file is derived from it), but a block's digests go through the
// real BlockImportHandler.HandleDigests (checkForGRANDPAForcedChanges included) and a block
// may carry BOTH a scheduled and a forced change digest, in either order; Substrate
// ignores the scheduled change of such a block. Real BlockState + GrandpaState +
// EpochState from dot/state (exported constructors), driven the way
// dot/core.Service.handleBlock and dot/digest.Handler.handleBlockFinalisation do, against c23Model, a
// port of the rules of Substrate's sc-consensus-grandpa AuthoritySet
// (authorities.rs) + fork-tree written from their specification. The model
// knows the tree only as a parent array.

import (
	"encoding/json"
	"errors"
	"fmt"
	"io"
	"sort"
	"strings"
	"testing"

	"github.com/ChainSafe/gossamer/dot/state"
	"github.com/ChainSafe/gossamer/dot/types"
	"github.com/ChainSafe/gossamer/internal/database"
	"github.com/ChainSafe/gossamer/internal/log"
	kit "github.com/ChainSafe/gossamer/internal/verifkit"
	"github.com/ChainSafe/gossamer/lib/common"
	"github.com/ChainSafe/gossamer/lib/crypto/ed25519"
	"github.com/ChainSafe/gossamer/pkg/scale"
	"pgregory.net/rapid"
)

const c23DigestRule = "unit dot/digest: imports through BlockImportHandler.HandleDigests, blocks may carry [scheduled], [forced], [scheduled, forced] or [forced, scheduled] change digests (a forced change supersedes the scheduled change of the same block); otherwise as the dot/state unit: block tree of 3-14 blocks with GRANDPA scheduled (delay 0-4) and forced (delay 0-4, median-last-finalised = local finalised number + 0..3) change digests at generated blocks of competing forks; " +
	"ops drawn step by step: import any block whose parent is imported (AddBlock, HandleGRANDPADigest, ApplyForcedChanges) or finalise a live block (SetFinalisedHash, ApplyScheduledChanges) never past the first pending scheduled change of its fork; " +
	"after every op GetCurrentSetID, GetAuthorities(all ids), GetSetIDByBlockNumber(all n), NextGrandpaAuthorityChange(every live block) and the error/no-error outcome are compared with a port of Substrate's AuthoritySet; " +
	"non-trivial = change digests on >= 2 different forks (two announcing blocks neither of which is an ancestor of the other) were imported and >= 1 change was enacted; distinct by canonical op string"

type c23NoTelemetry struct{}

func (c23NoTelemetry) SendMessage(json.Marshaler) {}

// ---------------------------------------------------------------- model

type c23Change struct {
	ann    int  // announcing block (index)
	number uint // its number
	delay  uint
	forced bool
	median uint // forced only
	auths  int  // identifies the authority list
}

func (c *c23Change) eff() uint { return c.number + c.delay }

type c23Node struct {
	ch       *c23Change
	children []*c23Node
}

type c23SetChange struct {
	setID uint64
	block uint
}

type c23Model struct {
	parent  []int
	number  []uint
	setID   uint64
	auths   map[uint64]int
	roots   []*c23Node   // pending standard changes (fork tree)
	forced  []*c23Change // pending forced changes, ordered by (effective number, announcing number)
	changes []c23SetChange
}

var (
	errC23MultipleForced = errors.New("model: multiple pending forced authority set changes")
	errC23Dependency     = errors.New("model: forced change depends on an unapplied standard change")
	errC23Unfinalized    = errors.New("model: finalised a block past an unfinalised ancestor change")
)

// strict ancestry, as Substrate's is_descendent_of(base, block)
func (m *c23Model) isDesc(base, b int) bool {
	if m.number[b] <= m.number[base] {
		return false
	}
	for x := m.parent[b]; x >= 0; x = m.parent[x] {
		if x == base {
			return true
		}
		if m.number[x] <= m.number[base] {
			return false
		}
	}
	return false
}

func (m *c23Model) isDescOrEq(base, b int) bool { return base == b || m.isDesc(base, b) }

func (m *c23Model) clone() *c23Model {
	n := &c23Model{parent: m.parent, number: m.number, setID: m.setID, auths: map[uint64]int{}}
	for k, v := range m.auths {
		n.auths[k] = v
	}
	var cp func(x *c23Node) *c23Node
	cp = func(x *c23Node) *c23Node {
		y := &c23Node{ch: x.ch}
		for _, c := range x.children {
			y.children = append(y.children, cp(c))
		}
		return y
	}
	for _, r := range m.roots {
		n.roots = append(n.roots, cp(r))
	}
	n.forced = append(n.forced, m.forced...)
	n.changes = append(n.changes, m.changes...)
	return n
}

// fork-tree import: child of the deepest pending change that is an ancestor, else a new root
func (m *c23Model) addStandard(ch *c23Change) {
	var place func(nodes *[]*c23Node) bool
	place = func(nodes *[]*c23Node) bool {
		for _, n := range *nodes {
			if m.isDesc(n.ch.ann, ch.ann) {
				if !place(&n.children) {
					n.children = append(n.children, &c23Node{ch: ch})
				}
				return true
			}
		}
		return false
	}
	if !place(&m.roots) {
		m.roots = append(m.roots, &c23Node{ch: ch})
	}
}

func (m *c23Model) addForced(ch *c23Change) error {
	for _, f := range m.forced {
		if m.isDescOrEq(f.ann, ch.ann) {
			return errC23MultipleForced
		}
	}
	i := sort.Search(len(m.forced), func(i int) bool {
		f := m.forced[i]
		return f.eff() > ch.eff() || (f.eff() == ch.eff() && f.number >= ch.number)
	})
	m.forced = append(m.forced, nil)
	copy(m.forced[i+1:], m.forced[i:])
	m.forced[i] = ch
	return nil
}

// applyForced: a forced change whose effective number is the imported block's number and that was
// signalled on the imported block's chain is enacted at import, unless a pending standard change
// (a root) on its chain has an effective number <= its median last finalised number.
func (m *c23Model) applyForced(b int) (enacted *c23Change, err error) {
	for _, f := range m.forced {
		if f.eff() != m.number[b] || !m.isDescOrEq(f.ann, b) {
			continue
		}
		for _, r := range m.roots {
			if r.ch.eff() <= f.median && m.isDesc(r.ch.ann, f.ann) {
				return nil, errC23Dependency
			}
		}
		m.changes = append(m.changes, c23SetChange{m.setID, f.median})
		m.setID++
		m.auths[m.setID] = f.auths
		m.roots = nil
		m.forced = nil
		return f, nil
	}
	return nil, nil
}

// importBlock = add_pending_change + apply_forced_changes; on error the set is left as it was.
func (m *c23Model) importBlock(b int, ch *c23Change) (enacted *c23Change, err error) {
	saved := m.clone()
	restore := func() {
		m.setID, m.auths, m.roots, m.forced, m.changes = saved.setID, saved.auths, saved.roots, saved.forced, saved.changes
	}
	if ch != nil {
		if ch.forced {
			if err := m.addForced(ch); err != nil {
				restore()
				return nil, err
			}
		} else {
			m.addStandard(ch)
		}
	}
	enacted, err = m.applyForced(b)
	if err != nil {
		restore()
	}
	return enacted, err
}

// finalise = apply_standard_changes(finalized) = fork-tree finalize_with_descendent_if(effective <= number)
func (m *c23Model) finalise(f int) (enacted *c23Change, err error) {
	num := m.number[f]
	pos := -1
	for i, r := range m.roots {
		if r.ch.eff() <= num && m.isDescOrEq(r.ch.ann, f) {
			for _, c := range r.children {
				if c.ch.number <= num && m.isDescOrEq(c.ch.ann, f) {
					return nil, errC23Unfinalized
				}
			}
			pos = i
			break
		}
	}
	changed := false
	if pos >= 0 {
		enacted = m.roots[pos].ch
		m.roots = m.roots[pos].children
		changed = true
	}
	var keep []*c23Node
	for _, r := range m.roots {
		retain := (r.ch.number > num && m.isDesc(f, r.ch.ann)) || r.ch.ann == f || m.isDesc(r.ch.ann, f)
		if retain {
			keep = append(keep, r)
		} else {
			changed = true
		}
	}
	m.roots = keep
	if changed {
		var kf []*c23Change
		for _, fc := range m.forced {
			if fc.eff() > num && m.isDesc(f, fc.ann) {
				kf = append(kf, fc)
			}
		}
		m.forced = kf
	}
	if enacted != nil {
		m.changes = append(m.changes, c23SetChange{m.setID, num})
		m.setID++
		m.auths[m.setID] = enacted.auths
	}
	return enacted, nil
}

// set id in charge of block number n: the first recorded change whose last block is >= n, else the current set
func (m *c23Model) setIDOf(n uint) uint64 {
	for _, c := range m.changes {
		if c.block >= n {
			return c.setID
		}
	}
	return m.setID
}

// nextChange: the earliest effective number among the pending changes signalled on best's chain
// (the standard root of that chain, the forced change of that chain) that is <= best's number; ok=false if none.
func (m *c23Model) nextChange(best int) (uint, bool) {
	var next uint
	found := false
	for _, r := range m.roots {
		if m.isDescOrEq(r.ch.ann, best) && r.ch.eff() <= m.number[best] {
			if !found || r.ch.eff() < next {
				next, found = r.ch.eff(), true
			}
		}
	}
	for _, f := range m.forced {
		if m.isDescOrEq(f.ann, best) && f.eff() <= m.number[best] {
			if !found || f.eff() < next {
				next, found = f.eff(), true
			}
		}
	}
	return next, found
}

// pendingOnChain reports the pending standard roots signalled at ancestors-or-self of b.
func (m *c23Model) rootsOnChain(b int) []*c23Node {
	var out []*c23Node
	for _, r := range m.roots {
		if m.isDescOrEq(r.ch.ann, b) {
			out = append(out, r)
		}
	}
	return out
}

// ---------------------------------------------------------------- harness

type c23Block struct {
	parent    int
	number    uint
	kind      int // 0 none, 1 scheduled, 2 forced, 3 scheduled then forced, 4 forced then scheduled (digest order)
	delay     uint // of the forced digest if there is one, else of the scheduled one
	sdelay    uint // kinds 3, 4: delay of the scheduled digest
	medianOff uint
	header    *types.Header
	imported  bool
	failed    bool
}

var c23Keys [][32]byte

func c23InitKeys() {
	if c23Keys != nil {
		return
	}
	for i := 0; i < 4; i++ {
		seed := make([]byte, 32)
		seed[0] = byte(i + 1)
		kp, err := ed25519.NewKeypairFromSeed(seed)
		if err != nil {
			panic(err)
		}
		var k [32]byte
		copy(k[:], kp.Public().Encode())
		c23Keys = append(c23Keys, k)
	}
}

// authority list number a: 1 + a%2 voters, weights derived from a
func c23AuthsRaw(a int) []types.GrandpaAuthoritiesRaw {
	c23InitKeys()
	out := []types.GrandpaAuthoritiesRaw{{Key: c23Keys[a%4], ID: uint64(a) + 1}}
	if a%2 == 1 {
		out = append(out, types.GrandpaAuthoritiesRaw{Key: c23Keys[(a+1)%4], ID: uint64(a) + 100})
	}
	return out
}

func c23Voters(a int) []types.GrandpaVoter {
	raw := c23AuthsRaw(a)
	out := make([]types.GrandpaVoter, len(raw))
	for i, r := range raw {
		pk, err := ed25519.NewPublicKey(r.Key[:])
		if err != nil {
			panic(err)
		}
		out[i] = types.GrandpaVoter{Key: *pk, ID: r.ID}
	}
	return out
}

func c23SameVoters(got []types.GrandpaVoter, a int) bool {
	want := c23AuthsRaw(a)
	if len(got) != len(want) {
		return false
	}
	for i := range want {
		if got[i].ID != want[i].ID || string(got[i].Key.Encode()) != string(want[i].Key[:]) {
			return false
		}
	}
	return true
}

const c23GenesisAuths = 1000

const c23FindingForcedRange = "C23-forced-change-setid-range"

type c23T interface {
	Fatalf(format string, args ...any)
}

type c23Harness struct {
	bs      *state.BlockState
	gs      *state.GrandpaState
	es      *state.EpochState
	handler *BlockImportHandler
	db      database.Database
}

func c23NewHarness() (*c23Harness, *types.Header, error) {
	log.Patch(log.SetLevel(log.Critical), log.SetWriter(io.Discard))
	logger.Patch(log.SetLevel(log.Critical), log.SetWriter(io.Discard))
	db, err := database.LoadDatabase("", true)
	if err != nil {
		return nil, nil, err
	}
	gen := types.NewHeader(common.Hash{}, common.Hash{0x01}, common.Hash{0x02}, 0, types.NewDigest())
	bs, err := state.NewBlockStateFromGenesis(db, state.NewTries(), gen, c23NoTelemetry{})
	if err != nil {
		return nil, nil, err
	}
	gs, err := state.NewGrandpaStateFromGenesis(db, bs, c23Voters(c23GenesisAuths), c23NoTelemetry{})
	if err != nil {
		return nil, nil, err
	}
	var a types.AuthorityRaw
	a.Key[0] = 0xAA
	a.Weight = 1
	es, err := state.NewEpochStateFromGenesis(db, bs, &types.BabeConfiguration{
		SlotDuration: 6000, EpochLength: 200, C1: 1, C2: 4, GenesisAuthorities: []types.AuthorityRaw{a}, SecondarySlots: 1,
	})
	if err != nil {
		return nil, nil, err
	}
	return &c23Harness{bs: bs, gs: gs, es: es, handler: NewBlockImportHandler(es, gs), db: db}, gen, nil
}

// c23BuildHeader builds the header of block i; the GRANDPA consensus digest (if any) is part of the header and is
// decoded from it again, as dot/digest does.
func c23BuildHeader(parent *types.Header, i int, b *c23Block, median uint) (*types.Header, *types.GrandpaConsensusDigest, error) {
	digest := types.NewDigest()
	pre, err := types.NewBabeSecondaryPlainPreDigest(0, uint64(100+i)).ToPreRuntimeDigest()
	if err != nil {
		return nil, nil, err
	}
	if err = digest.Add(*pre); err != nil {
		return nil, nil, err
	}
	addDigest := func(v any) error {
		d := types.NewGrandpaConsensusDigest()
		if err := d.SetValue(v); err != nil {
			return err
		}
		enc, err := scale.Marshal(d)
		if err != nil {
			return err
		}
		return digest.Add(types.ConsensusDigest{ConsensusEngineID: types.GrandpaEngineID, Data: enc})
	}
	sched := func(delay uint) any {
		// the scheduled digest of a two-digest block announces another list (i+50) than the forced one (i)
		a := i
		if b.kind >= 3 {
			a = i + 50
		}
		return types.GrandpaScheduledChange{Auths: c23AuthsRaw(a), Delay: uint32(delay)}
	}
	frc := types.GrandpaForcedChange{BestFinalizedBlock: uint32(median), Auths: c23AuthsRaw(i), Delay: uint32(b.delay)}
	var items []any
	switch b.kind {
	case 1:
		items = []any{sched(b.delay)}
	case 2:
		items = []any{frc}
	case 3:
		items = []any{sched(b.sdelay), frc}
	case 4:
		items = []any{frc, sched(b.sdelay)}
	}
	for _, it := range items {
		if err := addDigest(it); err != nil {
			return nil, nil, err
		}
	}
	var dec *types.GrandpaConsensusDigest
	var xroot common.Hash
	xroot[0] = byte(i)
	xroot[1] = 0x23
	return types.NewHeader(parent.Hash(), common.Hash{0x01}, xroot, b.number, digest), dec, nil
}

type c23Step struct {
	final bool
	pick  int
}

// c23Run executes one case. next(nImportable, nFinalisable) chooses the next op; it returns ok=false to stop.
func c23Run(t c23T, blocks []c23Block, allowFinaliseError bool, next func(nImp, nFin int) (c23Step, bool), record bool, extra ...string) {
	h, gen, err := c23NewHarness()
	if err != nil {
		t.Fatalf("harness: %v", err)
	}
	defer h.db.Close()
	blocks[0].header = gen
	blocks[0].imported = true

	m := &c23Model{auths: map[uint64]int{0: c23GenesisAuths}}
	for _, b := range blocks {
		m.parent = append(m.parent, b.parent)
		m.number = append(m.number, b.number)
	}
	var hist strings.Builder
	labels := map[string]bool{}
	for _, l := range extra {
		labels[l] = true
	}
	forcedAnnounced := 0
	lastFinal := 0
	forcedLine := -1 // block at whose import a forced change was enacted last
	round := uint64(0)
	enactments := 0
	var announcers []int
	maxNumber := uint(0)
	forcedEnacted, excludedCounted := false, false
	maxForcedEff := uint(0)

	okBlock := func(i int) bool { return blocks[i].imported && !blocks[i].failed }
	live := func(i int) bool { return okBlock(i) && m.isDescOrEq(lastFinal, i) }

	compare := func(after string) {
		cur, err := h.gs.GetCurrentSetID()
		if err != nil || cur != m.setID {
			t.Fatalf("after %s: GetCurrentSetID = %d, %v; model %d; history: %s", after, cur, err, m.setID, hist.String())
		}
		for id := uint64(0); id <= m.setID; id++ {
			v, err := h.gs.GetAuthorities(id)
			if err != nil || !c23SameVoters(v, m.auths[id]) {
				t.Fatalf("after %s: GetAuthorities(%d) = %v, %v; model: the list announced by block %d; history: %s", after, id, v, err, m.auths[id], hist.String())
			}
		}
		if v, err := h.gs.GetAuthorities(m.setID + 1); err == nil {
			t.Fatalf("after %s: GetAuthorities(%d) = %v for a set that does not exist yet (current %d); history: %s", after, m.setID+1, v, m.setID, hist.String())
		}
		for n := uint(0); n <= maxNumber+2; n++ {
			if forcedEnacted && n <= maxForcedEff && kit.KnownOpen(c23FindingForcedRange) {
				// known finding: block numbers up to the effective number of an enacted forced change
				// are attributed differently (see findings.json); everything above is still compared
				if !excludedCounted && record {
					kit.Excluded(c23FindingForcedRange)
					excludedCounted = true
				}
				continue
			}
			got, err := h.gs.GetSetIDByBlockNumber(n)
			want := m.setIDOf(n)
			if err != nil || got != want {
				t.Fatalf("after %s: GetSetIDByBlockNumber(%d) = %d, %v; model %d (recorded changes %v, current %d); history: %s", after, n, got, err, want, m.changes, m.setID, hist.String())
			}
		}
		for i := range blocks {
			if !live(i) {
				continue
			}
			got, err := h.gs.NextGrandpaAuthorityChange(blocks[i].header.Hash(), blocks[i].number)
			want, ok := m.nextChange(i)
			if ok {
				labels["next-change-some"] = true
				if err != nil || got != want {
					t.Fatalf("after %s: NextGrandpaAuthorityChange(b%d #%d) = %d, %v; model %d; history: %s", after, i, blocks[i].number, got, err, want, hist.String())
				}
			} else if !errors.Is(err, state.ErrNoNextAuthorityChange) {
				t.Fatalf("after %s: NextGrandpaAuthorityChange(b%d #%d) = %d, %v; model: no pending change limits this chain; history: %s", after, i, blocks[i].number, got, err, hist.String())
			}
		}
	}

	for steps := 0; steps < 64; steps++ {
		// ---- what can be done now
		var imp, fin []int
		for i := 1; i < len(blocks); i++ {
			b := &blocks[i]
			if b.imported || !live(b.parent) {
				continue
			}
			if forcedLine >= 0 && !m.isDescOrEq(forcedLine, b.parent) {
				continue // narrowing: after a forced change only its own line is extended
			}
			imp = append(imp, i)
		}
		for i := 1; i < len(blocks); i++ {
			if i == lastFinal || !live(i) {
				continue
			}
			if forcedLine >= 0 && !m.isDescOrEq(i, forcedLine) && !m.isDescOrEq(forcedLine, i) {
				continue
			}
			ok := true
			// the voter's cap: never past the effective block of the first pending standard change of this fork
			for _, r := range m.rootsOnChain(i) {
				if blocks[i].number > r.ch.eff() {
					ok = false
				}
			}
			// narrowing: a block at or after the signal of a still pending forced change is not finalised
			for _, f := range m.forced {
				if m.isDescOrEq(f.ann, i) {
					ok = false
				}
			}
			if ok && !allowFinaliseError {
				// mostly stay away from finalisations that Substrate refuses (a later change was signalled at or
				// below the finalised block while the first one becomes effective): they end the history
				if _, err := m.clone().finalise(i); err != nil {
					ok = false
				}
			}
			if ok {
				fin = append(fin, i)
			}
		}
		if len(imp) == 0 && len(fin) == 0 {
			break
		}
		st, more := next(len(imp), len(fin))
		if !more {
			break
		}
		if st.final && len(fin) == 0 || !st.final && len(imp) == 0 {
			st.final = !st.final
		}
		if !st.final {
			// ---- import
			i := imp[st.pick%len(imp)]
			b := &blocks[i]
			median := m.number[lastFinal] + b.medianOff
			if median > b.number {
				median = b.number
			}
			hdr, dig, err := c23BuildHeader(blocks[b.parent].header, i, b, median)
			if err != nil {
				t.Fatalf("header: %v", err)
			}
			b.header = hdr
			var ch *c23Change
			switch b.kind {
			case 1:
				ch = &c23Change{ann: i, number: b.number, delay: b.delay, auths: i}
				fmt.Fprintf(&hist, " I%d(p%d #%d S+%d)", i, b.parent, b.number, b.delay)
			case 2:
				ch = &c23Change{ann: i, number: b.number, delay: b.delay, forced: true, median: median, auths: i}
				fmt.Fprintf(&hist, " I%d(p%d #%d F+%d m%d)", i, b.parent, b.number, b.delay, median)
			case 3, 4:
				// a forced change supersedes the scheduled change of the same block, whatever the digest order
				ch = &c23Change{ann: i, number: b.number, delay: b.delay, forced: true, median: median, auths: i}
				if b.kind == 3 {
					fmt.Fprintf(&hist, " I%d(p%d #%d [S+%d,F+%d m%d])", i, b.parent, b.number, b.sdelay, b.delay, median)
					labels["block-with-scheduled-then-forced-digest"] = true
				} else {
					fmt.Fprintf(&hist, " I%d(p%d #%d [F+%d m%d,S+%d])", i, b.parent, b.number, b.delay, median, b.sdelay)
					labels["block-with-forced-then-scheduled-digest"] = true
				}
				if b.number+b.sdelay < b.number+b.delay {
					labels["superseded-scheduled-change-would-be-effective-first"] = true
				}
			default:
				fmt.Fprintf(&hist, " I%d(p%d #%d)", i, b.parent, b.number)
			}
			if b.number > maxNumber {
				maxNumber = b.number
			}
			// what handleBlock does
			if err := h.bs.AddBlock(&types.Block{Header: *hdr, Body: types.Body{}}); err != nil {
				t.Fatalf("AddBlock(b%d): %v; history: %s", i, err, hist.String())
			}
			b.imported = true
			_ = dig
			gotErr := h.handler.HandleDigests(hdr)
			if gotErr == nil {
				gotErr = h.gs.ApplyForcedChanges(hdr)
			}
			if ch != nil && ch.forced {
				// shape labels, from the model's pending list before this import
				blocker := -1
				for k, f := range m.forced {
					if m.isDescOrEq(f.ann, i) {
						blocker = k
						break
					}
				}
				if blocker >= 0 {
					labels["second-forced-attempt-while-one-pending"] = true
					for k := 0; k < blocker; k++ {
						if m.forced[k].number >= ch.number {
							// an entry of a competing fork with an announcing number >= ours sorts before the
							// pending change of our own fork (effective order != announcing order)
							labels["second-forced-attempt-behind-crossing-entry"] = true
						}
					}
				}
			}
			enacted, wantErr := m.importBlock(i, ch)
			if (gotErr != nil) != (wantErr != nil) {
				t.Fatalf("import of b%d: implementation error %v, model error %v; history: %s", i, gotErr, wantErr, hist.String())
			}
			if wantErr != nil {
				b.failed = true
				hist.WriteString("!err")
				switch {
				case errors.Is(wantErr, errC23MultipleForced):
					labels["import-error-second-forced-on-fork"] = true
				case errors.Is(wantErr, errC23Dependency):
					labels["import-error-forced-depends-on-standard"] = true
				}
			} else if ch != nil {
				for _, a := range announcers {
					if !m.isDescOrEq(a, i) && !m.isDescOrEq(i, a) {
						labels["changes-on-competing-forks"] = true
					}
				}
				announcers = append(announcers, i)
				if ch.forced {
					labels["forced-announced"] = true
					forcedAnnounced++
					if forcedAnnounced >= 2 {
						labels["forced-announced>=2"] = true
					}
					if forcedAnnounced >= 3 {
						labels["forced-announced>=3"] = true
					}
					if len(m.forced) >= 2 {
						labels["forced-pending-on->=2-forks"] = true
					}
					for _, f := range m.forced {
						for _, g := range m.forced {
							if f.number > g.number && f.eff() < g.eff() {
								labels["forced-pending-effective-order!=announcing-order"] = true
							}
						}
					}
				} else {
					labels["scheduled-announced"] = true
				}
			}
			if enacted != nil {
				enactments++
				forcedLine = i
				forcedEnacted = true
				if enacted.eff() > maxForcedEff {
					maxForcedEff = enacted.eff()
				}
				labels["forced-enacted"] = true
				if enacted.delay > 0 {
					labels["forced-enacted-with-delay"] = true
				}
				hist.WriteString("=>set" + fmt.Sprint(m.setID))
			}
			compare(fmt.Sprintf("import of b%d", i))
			continue
		}
		// ---- finalise
		f := fin[st.pick%len(fin)]
		round++
		fmt.Fprintf(&hist, " FIN%d(#%d)", f, blocks[f].number)
		cur, _ := h.gs.GetCurrentSetID()
		if err := h.bs.SetFinalisedHash(blocks[f].header.Hash(), round, cur); err != nil {
			t.Fatalf("SetFinalisedHash(b%d): %v; history: %s", f, err, hist.String())
		}
		// Handler.handleBlockFinalisation: BABE next epoch data, config (errors are only logged), then GRANDPA
		_ = h.es.FinalizeBABENextEpochData(blocks[f].header)
		_ = h.es.FinalizeBABENextConfigData(blocks[f].header)
		gotErr := h.gs.ApplyScheduledChanges(blocks[f].header)
		before := len(m.roots)
		enacted, wantErr := m.finalise(f)
		lastFinal = f
		if (gotErr != nil) != (wantErr != nil) {
			t.Fatalf("finalisation of b%d: ApplyScheduledChanges error %v, model error %v; history: %s", f, gotErr, wantErr, hist.String())
		}
		if wantErr != nil {
			// Substrate's voter stops here; the history ends
			labels["finalise-error-unfinalised-ancestor"] = true
			hist.WriteString("!err")
			break
		}
		if enacted != nil {
			enactments++
			labels["scheduled-enacted"] = true
			if enacted.delay > 0 {
				labels["scheduled-enacted-with-delay"] = true
			}
			hist.WriteString("=>set" + fmt.Sprint(m.setID))
		} else if before > 0 && len(m.roots) < before {
			labels["pending-changes-discarded-by-finality"] = true
		} else if before > 0 {
			labels["finalised-below-pending-change"] = true
		}
		compare(fmt.Sprintf("finalisation of b%d", f))
	}
	if !record {
		return
	}
	nontrivial := labels["changes-on-competing-forks"] && enactments > 0
	if enactments >= 2 {
		labels["enactments>=2"] = true
	}
	var ls []string
	for l := range labels {
		ls = append(ls, l)
	}
	sort.Strings(ls)
	kit.Case(hist.String(), nontrivial, ls...)
}

func c23GenDigestBlocks(t *rapid.T) []c23Block {
	n := rapid.IntRange(3, 14).Draw(t, "n")
	blocks := make([]c23Block, 1, n+1)
	blocks[0] = c23Block{parent: -1}
	for i := 1; i <= n; i++ {
		var p int
		switch rapid.IntRange(0, 9).Draw(t, "pk") {
		case 0, 1, 2, 3, 4, 5:
			p = i - 1
		default:
			p = rapid.IntRange(0, i-1).Draw(t, "p")
		}
		b := c23Block{parent: p, number: blocks[p].number + 1}
		switch rapid.IntRange(0, 15).Draw(t, "kind") {
		case 0, 1, 2:
			b.kind = 1
		case 3:
			b.kind = 2
		case 4, 5:
			b.kind = 3
		case 6:
			b.kind = 4
		}
		if b.kind != 0 {
			b.delay = uint(rapid.IntRange(0, 4).Draw(t, "delay"))
		}
		if b.kind >= 2 {
			b.medianOff = uint(rapid.IntRange(0, 3).Draw(t, "medianOff"))
		}
		if b.kind >= 3 {
			b.sdelay = uint(rapid.IntRange(0, 3).Draw(t, "sdelay"))
		}
		blocks = append(blocks, b)
	}
	return blocks
}

// TestC23DigestImport: histories whose imports go through BlockImportHandler.HandleDigests.
func TestC23DigestImport(t *testing.T) {
	defer kit.Flush()
	kit.Note("rule", c23DigestRule)
	rapid.Check(t, func(t *rapid.T) {
		blocks := c23GenDigestBlocks(t)
		allowErr := rapid.IntRange(0, 7).Draw(t, "allowFinaliseError") == 0
		c23Run(t, blocks, allowErr, func(nImp, nFin int) (c23Step, bool) {
			final := nFin > 0 && rapid.IntRange(0, 3).Draw(t, "op") == 0
			return c23Step{final: final, pick: rapid.IntRange(0, 15).Draw(t, "pick")}, true
		}, true, "unit-dot/digest")
	})
}

// TestC23DigestRegressions: a block with [scheduled(+0), forced(+2)] digests followed by two blocks; the scheduled
// change must never become pending (NextGrandpaAuthorityChange(b1) = none), the forced one is enacted at b3.
func TestC23DigestRegressions(t *testing.T) {
	defer kit.Flush()
	for _, kind := range []int{3, 4} {
		blocks := []c23Block{{parent: -1}, {parent: 0, number: 1, kind: kind, delay: 2, sdelay: 0}, {parent: 1, number: 2}, {parent: 2, number: 3}}
		i := 0
		c23Run(t, blocks, false, func(nImp, nFin int) (c23Step, bool) {
			i++
			return c23Step{}, i <= 3 && nImp > 0
		}, false)
	}
}
