// Package c23model is the reference model of the C23 check: a port of the rules of Substrate's
// sc-consensus-grandpa AuthoritySet (authorities.rs) + fork-tree, written from their specification.
// It knows the block tree only as a parent array and imports nothing from gossamer.
//
// It is the model of c23_test.go / c23_digest_test.go (same code, exported names), shared with the
// dot/core unit (c23_core_test.go) through check.json "extra_overlay".
package c23model

import (
	"errors"
	"sort"
)

type Change struct {
	Ann    int  // announcing block (index)
	Number uint // its number
	Delay  uint
	Forced bool
	Median uint // forced only
	Auths  int  // identifies the authority list
}

func (c *Change) Eff() uint { return c.Number + c.Delay }

type Node struct {
	Ch       *Change
	Children []*Node
}

type SetChange struct {
	SetID uint64
	Block uint
}

type Model struct {
	Parent  []int
	Number  []uint
	SetID   uint64
	Auths   map[uint64]int
	Roots   []*Node   // pending standard changes (fork tree)
	Forced  []*Change // pending forced changes, ordered by (effective number, announcing number)
	Changes []SetChange
}

var (
	ErrMultipleForced = errors.New("model: multiple pending forced authority set changes")
	ErrDependency     = errors.New("model: forced change depends on an unapplied standard change")
	ErrUnfinalized    = errors.New("model: finalised a block past an unfinalised ancestor change")
)

// strict ancestry, as Substrate's is_descendent_of(base, block)
func (m *Model) IsDesc(base, b int) bool {
	if m.Number[b] <= m.Number[base] {
		return false
	}
	for x := m.Parent[b]; x >= 0; x = m.Parent[x] {
		if x == base {
			return true
		}
		if m.Number[x] <= m.Number[base] {
			return false
		}
	}
	return false
}

func (m *Model) IsDescOrEq(base, b int) bool { return base == b || m.IsDesc(base, b) }

func (m *Model) Clone() *Model {
	n := &Model{Parent: m.Parent, Number: m.Number, SetID: m.SetID, Auths: map[uint64]int{}}
	for k, v := range m.Auths {
		n.Auths[k] = v
	}
	var cp func(x *Node) *Node
	cp = func(x *Node) *Node {
		y := &Node{Ch: x.Ch}
		for _, c := range x.Children {
			y.Children = append(y.Children, cp(c))
		}
		return y
	}
	for _, r := range m.Roots {
		n.Roots = append(n.Roots, cp(r))
	}
	n.Forced = append(n.Forced, m.Forced...)
	n.Changes = append(n.Changes, m.Changes...)
	return n
}

// fork-tree import: child of the deepest pending change that is an ancestor, else a new root
func (m *Model) AddStandard(ch *Change) {
	var place func(nodes *[]*Node) bool
	place = func(nodes *[]*Node) bool {
		for _, n := range *nodes {
			if m.IsDesc(n.Ch.Ann, ch.Ann) {
				if !place(&n.Children) {
					n.Children = append(n.Children, &Node{Ch: ch})
				}
				return true
			}
		}
		return false
	}
	if !place(&m.Roots) {
		m.Roots = append(m.Roots, &Node{Ch: ch})
	}
}

func (m *Model) AddForced(ch *Change) error {
	for _, f := range m.Forced {
		if m.IsDescOrEq(f.Ann, ch.Ann) {
			return ErrMultipleForced
		}
	}
	i := sort.Search(len(m.Forced), func(i int) bool {
		f := m.Forced[i]
		return f.Eff() > ch.Eff() || (f.Eff() == ch.Eff() && f.Number >= ch.Number)
	})
	m.Forced = append(m.Forced, nil)
	copy(m.Forced[i+1:], m.Forced[i:])
	m.Forced[i] = ch
	return nil
}

// applyForced: a forced change whose effective number is the imported block's number and that was
// signalled on the imported block's chain is enacted at import, unless a pending standard change
// (a root) on its chain has an effective number <= its median last finalised number.
func (m *Model) ApplyForced(b int) (enacted *Change, err error) {
	for _, f := range m.Forced {
		if f.Eff() != m.Number[b] || !m.IsDescOrEq(f.Ann, b) {
			continue
		}
		for _, r := range m.Roots {
			if r.Ch.Eff() <= f.Median && m.IsDesc(r.Ch.Ann, f.Ann) {
				return nil, ErrDependency
			}
		}
		m.Changes = append(m.Changes, SetChange{m.SetID, f.Median})
		m.SetID++
		m.Auths[m.SetID] = f.Auths
		m.Roots = nil
		m.Forced = nil
		return f, nil
	}
	return nil, nil
}

// importBlock = add_pending_change + apply_forced_changes; on error the set is left as it was.
func (m *Model) ImportBlock(b int, ch *Change) (enacted *Change, err error) {
	saved := m.Clone()
	restore := func() {
		m.SetID, m.Auths, m.Roots, m.Forced, m.Changes = saved.SetID, saved.Auths, saved.Roots, saved.Forced, saved.Changes
	}
	if ch != nil {
		if ch.Forced {
			if err := m.AddForced(ch); err != nil {
				restore()
				return nil, err
			}
		} else {
			m.AddStandard(ch)
		}
	}
	enacted, err = m.ApplyForced(b)
	if err != nil {
		restore()
	}
	return enacted, err
}

// finalise = apply_standard_changes(finalized) = fork-tree finalize_with_descendent_if(effective <= number)
func (m *Model) Finalise(f int) (enacted *Change, err error) {
	num := m.Number[f]
	pos := -1
	for i, r := range m.Roots {
		if r.Ch.Eff() <= num && m.IsDescOrEq(r.Ch.Ann, f) {
			for _, c := range r.Children {
				if c.Ch.Number <= num && m.IsDescOrEq(c.Ch.Ann, f) {
					return nil, ErrUnfinalized
				}
			}
			pos = i
			break
		}
	}
	changed := false
	if pos >= 0 {
		enacted = m.Roots[pos].Ch
		m.Roots = m.Roots[pos].Children
		changed = true
	}
	var keep []*Node
	for _, r := range m.Roots {
		retain := (r.Ch.Number > num && m.IsDesc(f, r.Ch.Ann)) || r.Ch.Ann == f || m.IsDesc(r.Ch.Ann, f)
		if retain {
			keep = append(keep, r)
		} else {
			changed = true
		}
	}
	m.Roots = keep
	if changed {
		var kf []*Change
		for _, fc := range m.Forced {
			if fc.Eff() > num && m.IsDesc(f, fc.Ann) {
				kf = append(kf, fc)
			}
		}
		m.Forced = kf
	}
	if enacted != nil {
		m.Changes = append(m.Changes, SetChange{m.SetID, num})
		m.SetID++
		m.Auths[m.SetID] = enacted.Auths
	}
	return enacted, nil
}

// set id in charge of block number n: the first recorded change whose last block is >= n, else the current set
func (m *Model) SetIDOf(n uint) uint64 {
	for _, c := range m.Changes {
		if c.Block >= n {
			return c.SetID
		}
	}
	return m.SetID
}

// nextChange: the earliest effective number among the pending changes signalled on best's chain
// (the standard root of that chain, the forced change of that chain) that is <= best's number; ok=false if none.
func (m *Model) NextChange(best int) (uint, bool) {
	var next uint
	found := false
	for _, r := range m.Roots {
		if m.IsDescOrEq(r.Ch.Ann, best) && r.Ch.Eff() <= m.Number[best] {
			if !found || r.Ch.Eff() < next {
				next, found = r.Ch.Eff(), true
			}
		}
	}
	for _, f := range m.Forced {
		if m.IsDescOrEq(f.Ann, best) && f.Eff() <= m.Number[best] {
			if !found || f.Eff() < next {
				next, found = f.Eff(), true
			}
		}
	}
	return next, found
}

// pendingOnChain reports the pending standard roots signalled at ancestors-or-self of b.
func (m *Model) RootsOnChain(b int) []*Node {
	var out []*Node
	for _, r := range m.Roots {
		if m.IsDescOrEq(r.Ch.Ann, b) {
			out = append(out, r)
		}
	}
	return out
}
