package core

// C23 - authority set changes are applied as Substrate applies them.
//
// Third unit, in-package in dot/core: the driver, comparisons, narrowings and known-finding
// exclusion of the dot/digest unit (c23_digest_test.go, this file is derived from it), but every
// block is imported through the real core.Service - handleBlock, HandleBlockImport or
// HandleBlockProduced, the only production callers of BlockImportHandler.HandleDigests and
// GrandpaState.ApplyForcedChanges - so that the order in which the import path registers a
// block's change digests and enacts forced changes is the code's own, not the harness's.
// Real state.BlockState, state.GrandpaState, state.EpochState and digest.BlockImportHandler;
// fakes only for what has nothing to do with GRANDPA (trie storage, runtime instance, network,
// the epoch lookup of HandleBlockImport). The reference model is c23model (the model of the other
// two units with exported names, shared through check.json "extra_overlay").

import (
	"encoding/json"
	"errors"
	"fmt"
	"io"
	"sort"
	"strings"
	"sync"
	"testing"

	"github.com/libp2p/go-libp2p/core/peer"

	"github.com/ChainSafe/gossamer/dot/digest"
	"github.com/ChainSafe/gossamer/dot/network"
	"github.com/ChainSafe/gossamer/dot/peerset"
	"github.com/ChainSafe/gossamer/dot/state"
	"github.com/ChainSafe/gossamer/dot/types"
	"github.com/ChainSafe/gossamer/internal/database"
	"github.com/ChainSafe/gossamer/internal/log"
	"github.com/ChainSafe/gossamer/internal/verifchk/c23model"
	kit "github.com/ChainSafe/gossamer/internal/verifkit"
	"github.com/ChainSafe/gossamer/lib/common"
	"github.com/ChainSafe/gossamer/lib/crypto/ed25519"
	"github.com/ChainSafe/gossamer/lib/runtime"
	rtstorage "github.com/ChainSafe/gossamer/lib/runtime/storage"
	inmemory_trie "github.com/ChainSafe/gossamer/pkg/trie/inmemory"
	"github.com/ChainSafe/gossamer/pkg/scale"
	"pgregory.net/rapid"
)

const c23CoreRule = "unit dot/core: every block is imported through the real core.Service (entry point drawn per block: handleBlock, HandleBlockImport without/with announce, HandleBlockProduced) wired to a real BlockState, GrandpaState and digest.BlockImportHandler (fakes for trie storage, runtime, network, epoch lookup); " +
	"block tree of 3-14 blocks carrying no change digest, [scheduled], [forced], [scheduled, forced] or [forced, scheduled] (delay 0-4, forced: median-last-finalised = local finalised number + 0..3) at generated blocks of competing forks; a block whose ancestor at distance k announces a forced change with delay k (the effective block of that change) carries a change digest of its own in 2 of 3 cases; " +
	"ops drawn step by step: import any block whose parent is imported or finalise a live block (SetFinalisedHash, FinalizeBABENext*, ApplyScheduledChanges - dot/digest.Handler.handleBlockFinalisation) never past the first pending scheduled change of its fork; " +
	"after every op GetCurrentSetID, GetAuthorities(all ids), GetSetIDByBlockNumber(all n), NextGrandpaAuthorityChange(every live block) and the error/no-error outcome of the import are compared with a port of Substrate's AuthoritySet (a block's changes are registered first, then a forced change whose effective block is the imported block is enacted: a delay-0 forced change at its own announcing block; a change announced in the effective block of a forced change is dropped with the replaced set / rejected as second forced change of the fork); " +
	"non-trivial = change digests on >= 2 different forks (two announcing blocks neither of which is an ancestor of the other) were imported and >= 1 change was enacted; distinct by canonical op string"

type c23NoTelemetry struct{}

func (c23NoTelemetry) SendMessage(json.Marshaler) {}

// ---------------------------------------------------------------- fakes (nothing GRANDPA related)

// c23BlockState is the real BlockState; only the runtime lookups of handleBlock are stubbed.
type c23BlockState struct {
	*state.BlockState
}

func (c23BlockState) GetRuntime(common.Hash) (runtime.Instance, error) { return nil, nil }

func (c23BlockState) HandleRuntimeChanges(*rtstorage.TrieState, runtime.Instance, common.Hash) error {
	return nil
}

type c23Storage struct {
	sync.Mutex
	stored int
}

func (s *c23Storage) TrieState(*common.Hash) (*rtstorage.TrieState, error) {
	return nil, errors.New("c23 fake storage: no trie state")
}
func (s *c23Storage) StoreTrie(*rtstorage.TrieState, *types.Header) error { s.stored++; return nil }
func (s *c23Storage) GetStateRootFromBlock(*common.Hash) (*common.Hash, error) {
	return nil, errors.New("c23 fake storage: no state root")
}
func (s *c23Storage) GenerateTrieProof(common.Hash, [][]byte) ([][]byte, error) {
	return nil, errors.New("c23 fake storage: no proof")
}

type c23Network struct {
	mu       sync.Mutex
	gossiped int
}

func (n *c23Network) GossipMessage(network.NotificationsMessage) {
	n.mu.Lock()
	n.gossiped++
	n.mu.Unlock()
}
func (n *c23Network) IsSynced() bool                                 { return true }
func (n *c23Network) ReportPeer(peerset.ReputationChange, peer.ID) {}

// c23Epochs answers the epoch lookup HandleBlockImport does before handleBlock: all blocks in epoch 0.
type c23Epochs struct{}

func (c23Epochs) GetEpochForBlock(*types.Header) (uint64, error) { return 0, nil }
func (c23Epochs) UpdateSkippedEpochDefinitions(uint64, uint64, *types.Header) error {
	return nil
}

// ---------------------------------------------------------------- harness

const (
	c23EntryHandleBlock = iota
	c23EntryImport
	c23EntryImportAnnounce
	c23EntryProduced
)

var c23EntryNames = []string{"handleBlock", "HandleBlockImport", "HandleBlockImport+announce", "HandleBlockProduced"}

type c23Block struct {
	parent    int
	number    uint
	kind      int  // 0 none, 1 scheduled, 2 forced, 3 scheduled then forced, 4 forced then scheduled (digest order)
	delay     uint // of the forced digest if there is one, else of the scheduled one
	sdelay    uint // kinds 3, 4: delay of the scheduled digest
	medianOff uint
	entry     int // entry point of core.Service used for the import
	header    *types.Header
	imported  bool
	failed    bool
}

var c23Keys [][32]byte

func c23InitKeys() {
	if c23Keys != nil {
		return
	}
	for i := 0; i < 4; i++ {
		seed := make([]byte, 32)
		seed[0] = byte(i + 1)
		kp, err := ed25519.NewKeypairFromSeed(seed)
		if err != nil {
			panic(err)
		}
		var k [32]byte
		copy(k[:], kp.Public().Encode())
		c23Keys = append(c23Keys, k)
	}
}

// authority list number a: 1 + a%2 voters, weights derived from a
func c23AuthsRaw(a int) []types.GrandpaAuthoritiesRaw {
	c23InitKeys()
	out := []types.GrandpaAuthoritiesRaw{{Key: c23Keys[a%4], ID: uint64(a) + 1}}
	if a%2 == 1 {
		out = append(out, types.GrandpaAuthoritiesRaw{Key: c23Keys[(a+1)%4], ID: uint64(a) + 100})
	}
	return out
}

func c23Voters(a int) []types.GrandpaVoter {
	raw := c23AuthsRaw(a)
	out := make([]types.GrandpaVoter, len(raw))
	for i, r := range raw {
		pk, err := ed25519.NewPublicKey(r.Key[:])
		if err != nil {
			panic(err)
		}
		out[i] = types.GrandpaVoter{Key: *pk, ID: r.ID}
	}
	return out
}

func c23SameVoters(got []types.GrandpaVoter, a int) bool {
	want := c23AuthsRaw(a)
	if len(got) != len(want) {
		return false
	}
	for i := range want {
		if got[i].ID != want[i].ID || string(got[i].Key.Encode()) != string(want[i].Key[:]) {
			return false
		}
	}
	return true
}

const c23GenesisAuths = 1000

const c23FindingForcedRange = "C23-forced-change-setid-range"

type c23T interface {
	Fatalf(format string, args ...any)
}

type c23Harness struct {
	bs      *state.BlockState
	gs      *state.GrandpaState
	es      *state.EpochState
	svc     *Service
	storage *c23Storage
	net     *c23Network
	db      database.Database
}

func c23NewHarness() (*c23Harness, *types.Header, error) {
	log.Patch(log.SetLevel(log.Critical), log.SetWriter(io.Discard))
	db, err := database.LoadDatabase("", true)
	if err != nil {
		return nil, nil, err
	}
	gen := types.NewHeader(common.Hash{}, common.Hash{0x01}, common.Hash{0x02}, 0, types.NewDigest())
	bs, err := state.NewBlockStateFromGenesis(db, state.NewTries(), gen, c23NoTelemetry{})
	if err != nil {
		return nil, nil, err
	}
	gs, err := state.NewGrandpaStateFromGenesis(db, bs, c23Voters(c23GenesisAuths), c23NoTelemetry{})
	if err != nil {
		return nil, nil, err
	}
	var a types.AuthorityRaw
	a.Key[0] = 0xAA
	a.Weight = 1
	es, err := state.NewEpochStateFromGenesis(db, bs, &types.BabeConfiguration{
		SlotDuration: 6000, EpochLength: 200, C1: 1, C2: 4, GenesisAuthorities: []types.AuthorityRaw{a}, SecondarySlots: 1,
	})
	if err != nil {
		return nil, nil, err
	}
	storage, net := &c23Storage{}, &c23Network{}
	// the production wiring (dot/services.go): the GrandpaState that core enacts forced changes on is the one the
	// block import digest handler registers the changes in
	svc, err := NewService(&Config{
		LogLvl:        log.Critical,
		BlockState:    c23BlockState{bs},
		StorageState:  storage,
		GrandpaState:  gs,
		EpochState:    c23Epochs{},
		Network:       net,
		OnBlockImport: digest.NewBlockImportHandler(es, gs),
	})
	if err != nil {
		return nil, nil, err
	}
	logger.Patch(log.SetLevel(log.Critical), log.SetWriter(io.Discard))
	return &c23Harness{bs: bs, gs: gs, es: es, svc: svc, storage: storage, net: net, db: db}, gen, nil
}

// importBlock hands the block to the core service through the entry point chosen for it.
func (h *c23Harness) importBlock(hdr *types.Header, entry int) error {
	block := &types.Block{Header: *hdr, Body: types.Body{}}
	ts := rtstorage.NewTrieState(inmemory_trie.NewEmptyTrie())
	switch entry {
	case c23EntryImport:
		return h.svc.HandleBlockImport(block, ts, false)
	case c23EntryImportAnnounce:
		return h.svc.HandleBlockImport(block, ts, true)
	case c23EntryProduced:
		return h.svc.HandleBlockProduced(block, ts)
	default:
		return h.svc.handleBlock(block, ts)
	}
}

// c23BuildHeader builds the header of block i with its GRANDPA consensus digests in digest order.
func c23BuildHeader(parent *types.Header, i int, b *c23Block, median uint) (*types.Header, error) {
	dg := types.NewDigest()
	pre, err := types.NewBabeSecondaryPlainPreDigest(0, uint64(100+i)).ToPreRuntimeDigest()
	if err != nil {
		return nil, err
	}
	if err = dg.Add(*pre); err != nil {
		return nil, err
	}
	addDigest := func(v any) error {
		d := types.NewGrandpaConsensusDigest()
		if err := d.SetValue(v); err != nil {
			return err
		}
		enc, err := scale.Marshal(d)
		if err != nil {
			return err
		}
		return dg.Add(types.ConsensusDigest{ConsensusEngineID: types.GrandpaEngineID, Data: enc})
	}
	sched := func(delay uint) any {
		// the scheduled digest of a two-digest block announces another list (i+50) than the forced one (i)
		a := i
		if b.kind >= 3 {
			a = i + 50
		}
		return types.GrandpaScheduledChange{Auths: c23AuthsRaw(a), Delay: uint32(delay)}
	}
	frc := types.GrandpaForcedChange{BestFinalizedBlock: uint32(median), Auths: c23AuthsRaw(i), Delay: uint32(b.delay)}
	var items []any
	switch b.kind {
	case 1:
		items = []any{sched(b.delay)}
	case 2:
		items = []any{frc}
	case 3:
		items = []any{sched(b.sdelay), frc}
	case 4:
		items = []any{frc, sched(b.sdelay)}
	}
	for _, it := range items {
		if err := addDigest(it); err != nil {
			return nil, err
		}
	}
	var xroot common.Hash
	xroot[0] = byte(i)
	xroot[1] = 0x23
	return types.NewHeader(parent.Hash(), common.Hash{0x01}, xroot, b.number, dg), nil
}

type c23Step struct {
	final bool
	pick  int
}

// c23Run executes one case. next(nImportable, nFinalisable) chooses the next op; it returns ok=false to stop.
func c23Run(t c23T, blocks []c23Block, allowFinaliseError bool, next func(nImp, nFin int) (c23Step, bool), record bool, extra ...string) {
	h, gen, err := c23NewHarness()
	if err != nil {
		t.Fatalf("harness: %v", err)
	}
	defer h.db.Close()
	defer h.svc.Stop() //nolint:errcheck
	blocks[0].header = gen
	blocks[0].imported = true

	m := &c23model.Model{Auths: map[uint64]int{0: c23GenesisAuths}}
	for _, b := range blocks {
		m.Parent = append(m.Parent, b.parent)
		m.Number = append(m.Number, b.number)
	}
	var hist strings.Builder
	labels := map[string]bool{}
	for _, l := range extra {
		labels[l] = true
	}
	forcedAnnounced := 0
	lastFinal := 0
	forcedLine := -1 // block at whose import a forced change was enacted last
	round := uint64(0)
	enactments := 0
	var announcers []int
	maxNumber := uint(0)
	forcedEnacted, excludedCounted := false, false
	maxForcedEff := uint(0)
	importsOK := 0

	okBlock := func(i int) bool { return blocks[i].imported && !blocks[i].failed }
	live := func(i int) bool { return okBlock(i) && m.IsDescOrEq(lastFinal, i) }

	compare := func(after string) {
		cur, err := h.gs.GetCurrentSetID()
		if err != nil || cur != m.SetID {
			t.Fatalf("after %s: GetCurrentSetID = %d, %v; model %d; history: %s", after, cur, err, m.SetID, hist.String())
		}
		for id := uint64(0); id <= m.SetID; id++ {
			v, err := h.gs.GetAuthorities(id)
			if err != nil || !c23SameVoters(v, m.Auths[id]) {
				t.Fatalf("after %s: GetAuthorities(%d) = %v, %v; model: the list announced by block %d; history: %s", after, id, v, err, m.Auths[id], hist.String())
			}
		}
		if v, err := h.gs.GetAuthorities(m.SetID + 1); err == nil {
			t.Fatalf("after %s: GetAuthorities(%d) = %v for a set that does not exist yet (current %d); history: %s", after, m.SetID+1, v, m.SetID, hist.String())
		}
		for n := uint(0); n <= maxNumber+2; n++ {
			if forcedEnacted && n <= maxForcedEff && kit.KnownOpen(c23FindingForcedRange) {
				// known finding: block numbers up to the effective number of an enacted forced change
				// are attributed differently (see findings.json); everything above is still compared
				if !excludedCounted && record {
					kit.Excluded(c23FindingForcedRange)
					excludedCounted = true
				}
				continue
			}
			got, err := h.gs.GetSetIDByBlockNumber(n)
			want := m.SetIDOf(n)
			if err != nil || got != want {
				t.Fatalf("after %s: GetSetIDByBlockNumber(%d) = %d, %v; model %d (recorded changes %v, current %d); history: %s", after, n, got, err, want, m.Changes, m.SetID, hist.String())
			}
		}
		for i := range blocks {
			if !live(i) {
				continue
			}
			got, err := h.gs.NextGrandpaAuthorityChange(blocks[i].header.Hash(), blocks[i].number)
			want, ok := m.NextChange(i)
			if ok {
				labels["next-change-some"] = true
				if err != nil || got != want {
					t.Fatalf("after %s: NextGrandpaAuthorityChange(b%d #%d) = %d, %v; model %d; history: %s", after, i, blocks[i].number, got, err, want, hist.String())
				}
			} else if !errors.Is(err, state.ErrNoNextAuthorityChange) {
				t.Fatalf("after %s: NextGrandpaAuthorityChange(b%d #%d) = %d, %v; model: no pending change limits this chain; history: %s", after, i, blocks[i].number, got, err, hist.String())
			}
		}
	}

	for steps := 0; steps < 64; steps++ {
		// ---- what can be done now
		var imp, fin []int
		for i := 1; i < len(blocks); i++ {
			b := &blocks[i]
			if b.imported || !live(b.parent) {
				continue
			}
			if forcedLine >= 0 && !m.IsDescOrEq(forcedLine, b.parent) {
				continue // narrowing: after a forced change only its own line is extended
			}
			imp = append(imp, i)
		}
		for i := 1; i < len(blocks); i++ {
			if i == lastFinal || !live(i) {
				continue
			}
			if forcedLine >= 0 && !m.IsDescOrEq(i, forcedLine) && !m.IsDescOrEq(forcedLine, i) {
				continue
			}
			ok := true
			// the voter's cap: never past the effective block of the first pending standard change of this fork
			for _, r := range m.RootsOnChain(i) {
				if blocks[i].number > r.Ch.Eff() {
					ok = false
				}
			}
			// narrowing: a block at or after the signal of a still pending forced change is not finalised
			for _, f := range m.Forced {
				if m.IsDescOrEq(f.Ann, i) {
					ok = false
				}
			}
			if ok && !allowFinaliseError {
				// mostly stay away from finalisations that Substrate refuses (a later change was signalled at or
				// below the finalised block while the first one becomes effective): they end the history
				if _, err := m.Clone().Finalise(i); err != nil {
					ok = false
				}
			}
			if ok {
				fin = append(fin, i)
			}
		}
		if len(imp) == 0 && len(fin) == 0 {
			break
		}
		st, more := next(len(imp), len(fin))
		if !more {
			break
		}
		if st.final && len(fin) == 0 || !st.final && len(imp) == 0 {
			st.final = !st.final
		}
		if !st.final {
			// ---- import
			i := imp[st.pick%len(imp)]
			b := &blocks[i]
			median := m.Number[lastFinal] + b.medianOff
			if median > b.number {
				median = b.number
			}
			hdr, err := c23BuildHeader(blocks[b.parent].header, i, b, median)
			if err != nil {
				t.Fatalf("header: %v", err)
			}
			b.header = hdr
			var ch *c23model.Change
			via := ""
			if b.entry != c23EntryHandleBlock {
				via = " via " + c23EntryNames[b.entry]
			}
			switch b.kind {
			case 1:
				ch = &c23model.Change{Ann: i, Number: b.number, Delay: b.delay, Auths: i}
				fmt.Fprintf(&hist, " I%d(p%d #%d S+%d%s)", i, b.parent, b.number, b.delay, via)
			case 2:
				ch = &c23model.Change{Ann: i, Number: b.number, Delay: b.delay, Forced: true, Median: median, Auths: i}
				fmt.Fprintf(&hist, " I%d(p%d #%d F+%d m%d%s)", i, b.parent, b.number, b.delay, median, via)
			case 3, 4:
				// a forced change supersedes the scheduled change of the same block, whatever the digest order
				ch = &c23model.Change{Ann: i, Number: b.number, Delay: b.delay, Forced: true, Median: median, Auths: i}
				if b.kind == 3 {
					fmt.Fprintf(&hist, " I%d(p%d #%d [S+%d,F+%d m%d]%s)", i, b.parent, b.number, b.sdelay, b.delay, median, via)
					labels["block-with-scheduled-then-forced-digest"] = true
				} else {
					fmt.Fprintf(&hist, " I%d(p%d #%d [F+%d m%d,S+%d]%s)", i, b.parent, b.number, b.delay, median, b.sdelay, via)
					labels["block-with-forced-then-scheduled-digest"] = true
				}
			default:
				fmt.Fprintf(&hist, " I%d(p%d #%d%s)", i, b.parent, b.number, via)
			}
			labels["entry-"+c23EntryNames[b.entry]] = true
			if b.number > maxNumber {
				maxNumber = b.number
			}
			// shape labels, from the model's pending list before this import
			if ch != nil {
				for _, f := range m.Forced {
					if f.Eff() == b.number && m.IsDescOrEq(f.Ann, i) {
						// this block is the effective block of a pending forced change of its fork and announces a change itself
						if ch.Forced {
							labels["forced-announced-in-effective-block-of-pending-forced-change"] = true
						} else {
							labels["scheduled-announced-in-effective-block-of-pending-forced-change"] = true
						}
					}
				}
			}
			if ch != nil && ch.Forced {
				for _, f := range m.Forced {
					if m.IsDescOrEq(f.Ann, i) {
						labels["second-forced-attempt-while-one-pending"] = true
					}
				}
			}
			// the import path of the node
			b.imported = true
			gotErr := h.importBlock(hdr, b.entry)
			if _, err := h.bs.GetHeader(hdr.Hash()); err != nil {
				t.Fatalf("import of b%d%s (error %v): the block is not in the BlockState: %v; history: %s", i, via, gotErr, err, hist.String())
			}
			enacted, wantErr := m.ImportBlock(i, ch)
			if (gotErr != nil) != (wantErr != nil) {
				t.Fatalf("import of b%d%s: implementation error %v, model error %v; history: %s", i, via, gotErr, wantErr, hist.String())
			}
			if wantErr != nil {
				b.failed = true
				hist.WriteString("!err")
				switch {
				case errors.Is(wantErr, c23model.ErrMultipleForced):
					labels["import-error-second-forced-on-fork"] = true
				case errors.Is(wantErr, c23model.ErrDependency):
					labels["import-error-forced-depends-on-standard"] = true
				}
			} else {
				importsOK++
			}
			if wantErr == nil && ch != nil {
				for _, a := range announcers {
					if !m.IsDescOrEq(a, i) && !m.IsDescOrEq(i, a) {
						labels["changes-on-competing-forks"] = true
					}
				}
				announcers = append(announcers, i)
				if ch.Forced {
					labels["forced-announced"] = true
					forcedAnnounced++
					if forcedAnnounced >= 2 {
						labels["forced-announced>=2"] = true
					}
					if len(m.Forced) >= 2 {
						labels["forced-pending-on->=2-forks"] = true
					}
				} else {
					labels["scheduled-announced"] = true
				}
			}
			if enacted != nil {
				enactments++
				forcedLine = i
				forcedEnacted = true
				if enacted.Eff() > maxForcedEff {
					maxForcedEff = enacted.Eff()
				}
				labels["forced-enacted"] = true
				switch {
				case enacted.Ann == i:
					labels["forced-enacted-at-its-announcing-block(delay 0)"] = true
				case ch != nil:
					labels["forced-enacted-at-a-block-that-announces-a-change"] = true
				default:
					labels["forced-enacted-with-delay"] = true
				}
				hist.WriteString("=>set" + fmt.Sprint(m.SetID))
			}
			compare(fmt.Sprintf("import of b%d%s", i, via))
			continue
		}
		// ---- finalise
		f := fin[st.pick%len(fin)]
		round++
		fmt.Fprintf(&hist, " FIN%d(#%d)", f, blocks[f].number)
		cur, _ := h.gs.GetCurrentSetID()
		if err := h.bs.SetFinalisedHash(blocks[f].header.Hash(), round, cur); err != nil {
			t.Fatalf("SetFinalisedHash(b%d): %v; history: %s", f, err, hist.String())
		}
		// Handler.handleBlockFinalisation: BABE next epoch data, config (errors are only logged), then GRANDPA
		_ = h.es.FinalizeBABENextEpochData(blocks[f].header)
		_ = h.es.FinalizeBABENextConfigData(blocks[f].header)
		gotErr := h.gs.ApplyScheduledChanges(blocks[f].header)
		before := len(m.Roots)
		enacted, wantErr := m.Finalise(f)
		lastFinal = f
		if (gotErr != nil) != (wantErr != nil) {
			t.Fatalf("finalisation of b%d: ApplyScheduledChanges error %v, model error %v; history: %s", f, gotErr, wantErr, hist.String())
		}
		if wantErr != nil {
			// Substrate's voter stops here; the history ends
			labels["finalise-error-unfinalised-ancestor"] = true
			hist.WriteString("!err")
			break
		}
		if enacted != nil {
			enactments++
			labels["scheduled-enacted"] = true
			if forcedEnacted {
				labels["scheduled-enacted-after-a-forced-change"] = true
			}
			hist.WriteString("=>set" + fmt.Sprint(m.SetID))
		} else if before > 0 && len(m.Roots) < before {
			labels["pending-changes-discarded-by-finality"] = true
		} else if before > 0 {
			labels["finalised-below-pending-change"] = true
		}
		compare(fmt.Sprintf("finalisation of b%d", f))
	}
	// harness sanity: every import went through the service's storage step
	if h.storage.stored < importsOK {
		t.Fatalf("harness: %d imports succeeded but StoreTrie ran %d times; history: %s", importsOK, h.storage.stored, hist.String())
	}
	if !record {
		return
	}
	nontrivial := labels["changes-on-competing-forks"] && enactments > 0
	if enactments >= 2 {
		labels["enactments>=2"] = true
	}
	var ls []string
	for l := range labels {
		ls = append(ls, l)
	}
	sort.Strings(ls)
	kit.Case(hist.String(), nontrivial, ls...)
}

func c23GenCoreBlocks(t *rapid.T) []c23Block {
	n := rapid.IntRange(3, 14).Draw(t, "n")
	blocks := make([]c23Block, 1, n+1)
	blocks[0] = c23Block{parent: -1}
	for i := 1; i <= n; i++ {
		var p int
		switch rapid.IntRange(0, 9).Draw(t, "pk") {
		case 0, 1, 2, 3, 4, 5:
			p = i - 1
		default:
			p = rapid.IntRange(0, i-1).Draw(t, "p")
		}
		b := c23Block{parent: p, number: blocks[p].number + 1}
		switch rapid.IntRange(0, 15).Draw(t, "kind") {
		case 0, 1, 2:
			b.kind = 1
		case 3, 4:
			b.kind = 2
		case 5:
			b.kind = 3
		case 6:
			b.kind = 4
		}
		if b.kind == 0 {
			// the effective block of a forced change announced by an ancestor (ancestor at distance k, delay k):
			// in 2 of 3 cases it announces a change of its own
			dist := uint(1)
			for a := p; a > 0 && dist <= 4; a, dist = blocks[a].parent, dist+1 {
				if blocks[a].kind >= 2 && blocks[a].delay == dist {
					switch rapid.IntRange(0, 5).Draw(t, "effKind") {
					case 0, 1:
						b.kind = 1
					case 2:
						b.kind = 2
					case 3:
						b.kind = 3
					}
					break
				}
			}
		}
		if b.kind != 0 {
			b.delay = uint(rapid.IntRange(0, 4).Draw(t, "delay"))
		}
		if b.kind >= 2 {
			b.medianOff = uint(rapid.IntRange(0, 3).Draw(t, "medianOff"))
		}
		if b.kind >= 3 {
			b.sdelay = uint(rapid.IntRange(0, 3).Draw(t, "sdelay"))
		}
		b.entry = rapid.SampledFrom([]int{c23EntryHandleBlock, c23EntryHandleBlock, c23EntryImport, c23EntryImport, c23EntryImportAnnounce, c23EntryProduced}).Draw(t, "entry")
		blocks = append(blocks, b)
	}
	return blocks
}

// TestC23CoreImport: histories whose imports go through core.Service.
func TestC23CoreImport(t *testing.T) {
	defer kit.Flush()
	kit.Note("rule", c23CoreRule)
	rapid.Check(t, func(t *rapid.T) {
		blocks := c23GenCoreBlocks(t)
		allowErr := rapid.IntRange(0, 7).Draw(t, "allowFinaliseError") == 0
		c23Run(t, blocks, allowErr, func(nImp, nFin int) (c23Step, bool) {
			final := nFin > 0 && rapid.IntRange(0, 3).Draw(t, "op") == 0
			return c23Step{final: final, pick: rapid.IntRange(0, 15).Draw(t, "pick")}, true
		}, true, "unit-dot/core")
	})
}

// c23Script replays a fixed op list: {0, k} imports the k-th importable block, {1, k} finalises the k-th finalisable one.
func c23Script(ops [][2]int) func(int, int) (c23Step, bool) {
	i := 0
	return func(nImp, nFin int) (c23Step, bool) {
		if i >= len(ops) {
			return c23Step{}, false
		}
		op := ops[i]
		i++
		return c23Step{final: op[0] == 1, pick: op[1]}, true
	}
}

// TestC23CoreRegressions: pinned histories on one chain b1..b4, each through every entry point of the service.
//  1. b2 announces a forced change with delay 0: enacted at the import of b2 itself; nothing stays pending, so the
//     forced change of b3 (delay 1) is accepted and enacted at b4 (set id 2).
//  2. b2 announces a forced change with delay 1, its effective block b3 announces a scheduled change (delay 1):
//     the scheduled change is dropped with the set the forced change replaces; finalising b1..b4 enacts nothing.
//  3. the effective block b3 of b2's forced change announces a second forced change of the fork: rejected.
//  4. control: forced change with delay 1 and a silent effective block.
func TestC23CoreRegressions(t *testing.T) {
	defer kit.Flush()
	imp := [2]int{0, 0}
	fin := [2]int{1, 0}
	cases := []struct {
		name   string
		blocks []c23Block
		ops    [][2]int
	}{
		{"forced change with delay 0", []c23Block{{parent: -1}, {parent: 0, number: 1}, {parent: 1, number: 2, kind: 2, delay: 0},
			{parent: 2, number: 3, kind: 2, delay: 1, medianOff: 2}, {parent: 3, number: 4}}, [][2]int{imp, imp, imp, imp}},
		{"scheduled change announced in the effective block of a forced change", []c23Block{{parent: -1}, {parent: 0, number: 1}, {parent: 1, number: 2, kind: 2, delay: 1},
			{parent: 2, number: 3, kind: 1, delay: 1}, {parent: 3, number: 4}}, [][2]int{imp, imp, imp, imp, fin, fin, fin, fin}},
		{"forced change announced in the effective block of a forced change", []c23Block{{parent: -1}, {parent: 0, number: 1}, {parent: 1, number: 2, kind: 2, delay: 1},
			{parent: 2, number: 3, kind: 2, delay: 0}, {parent: 3, number: 4}}, [][2]int{imp, imp, imp}},
		{"control", []c23Block{{parent: -1}, {parent: 0, number: 1}, {parent: 1, number: 2, kind: 2, delay: 1},
			{parent: 2, number: 3}, {parent: 3, number: 4}}, [][2]int{imp, imp, imp, imp, fin, fin}},
	}
	for _, c := range cases {
		for entry := range c23EntryNames {
			blocks := append([]c23Block{}, c.blocks...)
			for i := range blocks {
				blocks[i].entry = entry
			}
			c23Run(c23Named{t, c.name + " via " + c23EntryNames[entry]}, blocks, false, c23Script(c.ops), false)
		}
	}
}

type c23Named struct {
	t    *testing.T
	name string
}

func (n c23Named) Fatalf(format string, args ...any) {
	n.t.Helper()
	n.t.Fatalf("regression %q: %s", n.name, fmt.Sprintf(format, args...))
}
