package vchk

import (
	"bytes"
	"errors"
	"fmt"
	"math/big"
	"reflect"
	"runtime"
	"testing"

	kit "github.com/ChainSafe/gossamer/internal/verifkit"
	"github.com/ChainSafe/gossamer/pkg/scale"
	"pgregory.net/rapid"
)

const ruleC12 = "a random SCALE type (as C11) and an input that is random bytes, a strict prefix of a canonical encoding, a canonical encoding with one bit flipped, " +
	"with trailing bytes, with one compact integer re-encoded non-canonically, or with one length prefix replaced by a huge length; oracle: decoding (scale.NewDecoder over a counting " +
	"reader, and scale.Unmarshal) must not panic, must allocate <= 512*len(input)+128KiB (runtime.MemStats.TotalAlloc delta), and must either fail or return a value whose " +
	"from-the-spec canonical encoding is exactly the consumed prefix (maps: entries may appear in any order, as parity-scale-codec accepts; Go int decodes through its 64-bit image); " +
	"strict prefixes, non-canonical compacts and over-long length prefixes must fail; non-trivial = a mutated canonical encoding of >= 2 bytes of which the reference decoder " +
	"consumes at least one field before the mutation takes effect"

const findingShortRead = "C12-short-read-zero-fill"
const findingUsedDst = "C12-option-into-used-destination"
const findingBomb = "C12-decode-bytes-preallocates-declared-length"

// bombThreshold: declared byte-string lengths up to this size cannot exceed the allocation bound.
const bombThreshold = 64 << 10

func allocBound(n int) uint64 { return 512*uint64(n) + 128<<10 }

type countingReader struct {
	r *bytes.Buffer
	n int
}

func (c *countingReader) Read(p []byte) (int, error) {
	n, err := c.r.Read(p)
	c.n += n
	return n, err
}

type decodeResult struct {
	err      error
	panicked any
	consumed int
	alloc    uint64
	dst      reflect.Value
}

// implDecode runs the decoder of pkg/scale once over data.
func implDecode(d *desc, data []byte) (res decodeResult) {
	activate(d)
	res.dst = newDst(d)
	cr := &countingReader{r: bytes.NewBuffer(append([]byte{}, data...))}
	dec := scale.NewDecoder(cr)
	var m0, m1 runtime.MemStats
	runtime.ReadMemStats(&m0)
	func() {
		defer func() { res.panicked = recover() }()
		res.err = dec.Decode(res.dst.Interface())
	}()
	runtime.ReadMemStats(&m1)
	res.alloc = m1.TotalAlloc - m0.TotalAlloc
	res.consumed = cr.n
	return res
}

type verdict struct {
	accepted     bool
	excluded     bool
	refErr       error
	refPos       int
	lenientMap   bool
	refOKImplErr bool
}

// c12ValidEnc: a valid canonical encoding of a value of the type under test (set by the caller, may be nil).
var c12ValidEnc []byte

// checkDecode is the C12 oracle for one (type, input).
func checkDecode(t failer, d *desc, data []byte, mustFail bool, class string) (vd verdict) {
	rd := decoder{in: data}
	_, rerr := rd.decode(d)
	rpos := rd.pos
	vd.refErr, vd.refPos = rerr, rpos
	if rd.overlong > bombThreshold && kit.KnownOpen(findingBomb) {
		// known finding: a byte string / string whose length prefix declares more bytes than the input has
		// left makes decodeBytes allocate the declared length (up to 4 GiB). The decoder is not run at all.
		kit.Excluded(findingBomb)
		vd.excluded = true
		return vd
	}
	res := implDecode(d, data)
	for i := 0; i < 3 && res.alloc > allocBound(len(data)) && res.panicked == nil; i++ {
		if i > 0 && res.alloc > 64<<20 {
			break // two measurements above 64 MiB: not noise, and not worth repeating
		}
		// TotalAlloc also sees allocations that are not the decoder's (one-off runtime/reflect cache fills;
		// a non-reproducible delta of 7.8 MB was observed once in 2 million cases on a heavily loaded
		// machine). Noise only adds and is not repeatable, a genuine over-allocation shows on every
		// repetition: the smallest of up to four measurements is judged.
		again := implDecode(d, data)
		if again.alloc < res.alloc {
			res = again
		}
	}
	ctx := func() string { return fmt.Sprintf("\n class %s\n type %s\n input %s", class, d, hexs(data)) }
	if res.panicked != nil {
		t.Fatalf("decoding PANICKED: %v%s", res.panicked, ctx())
	}
	if res.alloc > allocBound(len(data)) {
		t.Fatalf("decoding %d input bytes allocated %d bytes (bound %d)%s", len(data), res.alloc, allocBound(len(data)), ctx())
	}
	// scale.Unmarshal must agree with the Decoder
	dst2 := newDst(d)
	err2 := safeUnmarshal(append([]byte{}, data...), dst2.Interface())
	if err2 != nil && len(err2.Error()) > 5 && err2.Error()[:5] == "PANIC" {
		t.Fatalf("%v%s", err2, ctx())
	}
	if (err2 == nil) != (res.err == nil) {
		t.Fatalf("scale.Unmarshal (%v) and Decoder.Decode (%v) disagree%s", err2, res.err, ctx())
	}
	if errors.Is(rerr, errShortInside) && kit.KnownOpen(findingShortRead) {
		// known finding: the input ends inside a multi-byte primitive with at least one of its bytes
		// present; pkg/scale zero-fills the missing bytes. Panic and allocation were still checked.
		kit.Excluded(findingShortRead)
		vd.excluded = true
		return vd
	}
	if res.err != nil {
		vd.refOKImplErr = rerr == nil
		// a rejection does not depend on what the destination held before: the same input
		// decoded into a destination already filled by a successful decode of a valid
		// encoding of the type (c12ValidEnc) is rejected as well
		if c12ValidEnc != nil && d.has(kOption) && kit.KnownOpen(findingUsedDst) {
			// known finding: decodePointer treats a destination whose pointer is already set
			// differently (no fresh element; payload of Some decoded into the old pointee,
			// None leaves it in place; pointer-to-pointer unwrapped without its option byte)
			kit.Excluded(findingUsedDst)
		} else if c12ValidEnc != nil {
			dst3 := newDst(d)
			if e0 := safeUnmarshal(append([]byte{}, c12ValidEnc...), dst3.Interface()); e0 == nil {
				if e1 := safeUnmarshal(append([]byte{}, data...), dst3.Interface()); e1 == nil {
					t.Fatalf("input rejected with a fresh destination (%v) is accepted when the destination already holds the value decoded from %s%s", res.err, hexs(c12ValidEnc), ctx())
				} else if len(e1.Error()) > 5 && e1.Error()[:5] == "PANIC" {
					t.Fatalf("decoding into a used destination: %v%s", e1, ctx())
				}
				kit.Label("rejected-also-with-used-destination")
			}
		}
		return vd
	}
	vd.accepted = true
	n := res.consumed
	got, ferr := fromGo(d, res.dst.Elem())
	if ferr != nil {
		t.Fatalf("decoding succeeded but the value is incomplete: %v%s", ferr, ctx())
	}
	got2, ferr2 := fromGo(d, dst2.Elem())
	if ferr2 != nil || !valEqual(d, got, got2) {
		t.Fatalf("scale.Unmarshal and Decoder.Decode returned different values (%v)%s", ferr2, ctx())
	}
	enc := refEncode(d, got)
	if n > len(data) || !bytes.Equal(enc, data[:n]) {
		ok := false
		if d.has(kMap) && n <= len(data) {
			// maps: the consumed prefix must be a canonical encoding up to the order of map entries
			rv, m, e2 := refDecode(d, data[:n])
			if e2 == nil && m == n && valEqual(d, rv, got) {
				ok, vd.lenientMap = true, true
			}
		}
		if !ok {
			t.Fatalf("decoding succeeded, consumed %d bytes, but the canonical encoding of the returned value is %s%s", n, hexs(enc), ctx())
		}
	}
	if mustFail {
		t.Fatalf("malformed input was accepted (consumed %d bytes, value re-encodes to %s)%s", n, hexs(enc), ctx())
	}
	return vd
}

var mutationClasses = []string{"truncated", "truncated", "bitflip", "bitflip", "random", "trailing", "noncanonical-compact", "noncanonical-compact", "length-bomb"}

var hugeLens = []uint64{1 << 22, 1<<24 + 1, 1 << 27, 1<<30 - 1, 1 << 30}

func genRandomBytes(t *rapid.T) []byte {
	n := rapid.IntRange(0, 40).Draw(t, "rlen")
	small := rapid.SampledFrom([]byte{0, 1, 2, 3, 4, 7, 8, 0x0b, 0x13, 0xfc, 0xfd, 0xfe, 0xff})
	return rapid.SliceOfN(rapid.OneOf(small, small, rapid.Byte()), n, n).Draw(t, "random")
}

// TestC12Decode: mutated canonical encodings and random bytes against random types.
func TestC12Decode(t *testing.T) {
	defer kit.Flush()
	kit.Note("rule", ruleC12)
	rapid.Check(t, func(t *rapid.T) {
		d := genDesc(3).Draw(t, "type")
		activate(d)
		v := genVal(t, d)
		var e encoder
		e.encode(d, v)
		enc := e.buf
		class := rapid.SampledFrom(mutationClasses).Draw(t, "class")
		if len(enc) == 0 && (class == "truncated" || class == "bitflip") {
			class = "random"
		}
		if class == "noncanonical-compact" && len(e.compacts) == 0 {
			class = "truncated"
			if len(enc) == 0 {
				class = "random"
			}
		}
		if class == "noncanonical-compact" {
			any := false
			for _, c := range e.compacts {
				if len(nonCanonicalCompacts(c.v)) > 0 {
					any = true
				}
			}
			if !any { // only 67-byte big integers: nothing wider exists
				class = "truncated"
			}
		}
		var lengths []cspan
		for _, c := range e.compacts {
			if c.role != cValue {
				lengths = append(lengths, c)
			}
		}
		if class == "length-bomb" && kit.KnownOpen(findingBomb) {
			// known finding: byte-string lengths are steered to Vec/map lengths
			var keep []cspan
			for _, c := range lengths {
				if c.role != cBytesLen {
					keep = append(keep, c)
				}
			}
			if len(keep) != len(lengths) {
				kit.Excluded(findingBomb)
			}
			lengths = keep
		}
		if class == "length-bomb" && len(lengths) == 0 {
			class = "random"
		}
		var data []byte
		mustFail := false
		labels := map[string]bool{"class-" + class: true}
		switch class {
		case "truncated":
			cut := rapid.IntRange(0, len(enc)-1).Draw(t, "cut")
			for _, u := range e.units {
				if u.off < cut && cut < u.off+u.n && kit.KnownOpen(findingShortRead) {
					// known finding: a cut inside a multi-byte primitive is zero-filled; cut at its start instead
					kit.Excluded(findingShortRead)
					labels["truncation-steered-to-boundary"] = true
					cut = u.off
				}
			}
			data = append([]byte{}, enc[:cut]...)
			mustFail = true
		case "bitflip":
			pos := rapid.IntRange(0, len(enc)-1).Draw(t, "pos")
			bit := rapid.IntRange(0, 7).Draw(t, "bit")
			data = append([]byte{}, enc...)
			data[pos] ^= 1 << uint(bit)
		case "random":
			data = genRandomBytes(t)
		case "trailing":
			data = append(append([]byte{}, enc...), genRandomBytes(t)...)
		case "noncanonical-compact":
			var cands []cspan
			for _, c := range e.compacts {
				if len(nonCanonicalCompacts(c.v)) > 0 {
					cands = append(cands, c)
				}
			}
			c := cands[rapid.IntRange(0, len(cands)-1).Draw(t, "which")]
			alts := nonCanonicalCompacts(c.v)
			alt := alts[rapid.IntRange(0, len(alts)-1).Draw(t, "alt")]
			data = append(append(append([]byte{}, enc[:c.off]...), alt...), enc[c.off+c.n:]...)
			mustFail = true
			if _, _, rerr := refDecode(d, data); rerr == nil {
				t.Fatalf("HARNESS: reference decoder accepted a non-canonical compact: type %s input %s", d, hexs(data))
			}
		case "length-bomb":
			c := lengths[rapid.IntRange(0, len(lengths)-1).Draw(t, "which")]
			l := rapid.SampledFrom(hugeLens).Draw(t, "hugelen")
			keep := rapid.IntRange(0, len(enc)-c.off-c.n).Draw(t, "keep")
			data = append(append([]byte{}, enc[:c.off]...), compactU64(l)...)
			data = append(data, enc[c.off+c.n:c.off+c.n+keep]...)
			mustFail = true
			labels[fmt.Sprintf("bomb-role-%d", c.role)] = true
		}
		c12ValidEnc = enc
		vd := checkDecode(t, d, data, mustFail, class)
		c12ValidEnc = nil
		if class == "trailing" && !vd.accepted && !vd.excluded {
			// not demanded by C12 (C11 demands that canonical encodings decode); measured only
			labels["trailing-rejected"] = true
		}
		switch {
		case vd.excluded:
			labels["excluded-known-finding"] = true
		case vd.accepted:
			labels["accepted"] = true
		default:
			labels["rejected"] = true
		}
		if vd.lenientMap {
			labels["accepted-map-in-noncanonical-order"] = true
		}
		if vd.refOKImplErr {
			labels["reference-accepts-impl-rejects"] = true
		}
		if errors.Is(vd.refErr, errShort) {
			labels["ends-at-boundary"] = true
		}
		if d.has(kMap) {
			labels["type-has-map"] = true
		}
		if d.has(kBigInt) {
			labels["type-has-bigint"] = true
		}
		nontrivial := class != "random" && len(data) >= 2 && vd.refPos >= 1
		kit.Case(class+" | "+d.String()+" | "+hexs(data), nontrivial, labelsOf(labels)...)
	})
}

// fuzzTypes: the 64 pre-built types of the native fuzz target.
func fuzzTypes() []*desc {
	var out []*desc
	g := genDesc(3)
	for i := 0; len(out) < 64; i++ {
		out = append(out, g.Example(i+1))
	}
	// make sure the plain shapes are present whatever the examples are
	out[0] = &desc{k: kCUint}
	out[1] = &desc{k: kBigInt}
	out[2] = &desc{k: kBytes}
	out[3] = &desc{k: kVec, elem: &desc{k: kU32}}
	out[4] = &desc{k: kMap, key: &desc{k: kU8}, elem: &desc{k: kString}}
	out[5] = &desc{k: kStruct, fields: []field{{1, &desc{k: kU32}}, {0, &desc{k: kOption, elem: &desc{k: kBool}}}, {tagNone, &desc{k: kBytes}}}}
	out[6] = &desc{k: kResult, okD: &desc{k: kCUint}, errD: &desc{k: kString}}
	out[7] = &desc{k: kEnum, slot: 0, variants: []variant{{0, &desc{k: kU16}}, {1, &desc{k: kBytes}}, {255, &desc{k: kBigInt}}}}
	return out
}

// FuzzC12Unmarshal: native coverage-guided fuzzing; the first byte selects one
// of 64 pre-built types, the rest is the input.
func FuzzC12Unmarshal(f *testing.F) {
	defer kit.Flush()
	types := fuzzTypes()
	for i, d := range types {
		d := d
		activate(d)
		for s := 0; s < 3; s++ {
			enc := rapid.Custom(func(t *rapid.T) []byte {
				_ = rapid.Byte().Draw(t, "salt") // a Custom generator must consume data even for unit-like types
				return refEncode(d, genVal(t, d))
			}).Example(100*i + s)
			f.Add(byte(i), enc)
			if len(enc) > 1 {
				f.Add(byte(i), enc[:len(enc)-1])
			}
		}
	}
	f.Add(byte(2), []byte{0x03, 0xff, 0xff, 0xff, 0xff, 1, 2, 3})
	f.Fuzz(func(t *testing.T, sel byte, data []byte) {
		d := types[int(sel)%len(types)]
		vd := checkDecode(t, d, data, false, "fuzz")
		l := "fuzz-rejected"
		if vd.accepted {
			l = "fuzz-accepted"
		}
		kit.Case(fmt.Sprintf("fuzz | %s | %s", d, hexs(data)), len(data) >= 2 && vd.refPos >= 1, l)
	})
}

// TestC12LengthBomb: declared lengths up to 2^32-1 and beyond with a few bytes of
// data, one at a time in one process.
func TestC12LengthBomb(t *testing.T) {
	defer kit.Flush()
	types := []*desc{
		{k: kBytes}, {k: kString}, {k: kString, named: true},
		{k: kVec, elem: &desc{k: kU64}}, {k: kVec, elem: &desc{k: kU8, named: true}},
		{k: kMap, key: &desc{k: kU8}, elem: &desc{k: kU8}},
		{k: kStruct, fields: []field{{tagNone, &desc{k: kU8}}, {tagNone, &desc{k: kBytes}}}},
		{k: kOption, elem: &desc{k: kBytes}},
		{k: kVec, elem: &desc{k: kBytes}},
	}
	for _, d := range types {
		for _, l := range []uint64{1 << 20, 1 << 26, 1<<32 - 1, 1 << 32, 1 << 40, 1<<63 - 1, 1<<64 - 1} {
			for _, tail := range [][]byte{nil, {1}, {1, 2, 3}, bytes.Repeat([]byte{7}, 100)} {
				var e encoder
				e.encode(d, genZeroish(d))
				var at cspan
				found := false
				for _, c := range e.compacts {
					if c.role != cValue {
						at, found = c, true
					}
				}
				if !found {
					t.Fatalf("HARNESS: no length prefix in %s", d)
				}
				data := append(append([]byte{}, e.buf[:at.off]...), compactU64(l)...)
				data = append(data, tail...)
				checkDecode(t, d, data, true, fmt.Sprintf("length-bomb %d", l))
				kit.Case(fmt.Sprintf("bomb | %s | %s", d, hexs(data)), true, "class-length-bomb-dedicated")
			}
		}
	}
}

// genZeroish: a value of d with empty sequences (Some for options).
func genZeroish(d *desc) val {
	switch d.k {
	case kOption:
		return val{flag: true, e: []val{genZeroish(d.elem)}}
	case kStruct:
		out := val{}
		for _, f := range d.fields {
			out.e = append(out.e, genZeroish(f.d))
		}
		return out
	case kVec:
		if d.elem.k == kBytes {
			return val{e: []val{{}}}
		}
	}
	return zeroVal(d)
}

// TestC12Regressions: shrunk failing inputs found on the pinned tree.
func TestC12Regressions(t *testing.T) {
	defer kit.Flush()
	bigD := &desc{k: kBigInt}
	// non-canonical compacts into *big.Int: 0 in 2-byte, 4-byte and big-integer mode, 2^30 with a zero top byte
	for _, in := range [][]byte{{0x01, 0x00}, {0x02, 0, 0, 0}, {0x03, 0, 0, 0, 0}, {0x03, 1, 0, 0, 0}, {0x07, 0, 0, 0, 0x40, 0}, {0xfd, 0x00}} {
		checkDecode(t, bigD, in, true, "noncanonical-compact regression")
	}
	// and non-canonical compacts into uint (5..7-byte modes with zero top byte)
	for _, in := range [][]byte{{0x07, 0xff, 0xff, 0xff, 0xff, 0}, {0x0b, 1, 2, 3, 4, 5, 0}, {0x0f, 1, 2, 3, 4, 5, 6, 0}, {0x13, 1, 2, 3, 4, 5, 6, 7, 0}} {
		checkDecode(t, &desc{k: kCUint}, in, true, "noncanonical-compact regression")
	}
	// nil map destinations
	m := &desc{k: kMap, key: &desc{k: kU8}, elem: &desc{k: kU8}}
	checkDecode(t, m, []byte{4, 1, 2}, false, "map regression")
	checkDecode(t, &desc{k: kStruct, fields: []field{{tagNone, m}}}, []byte{8, 1, 2, 0, 9}, false, "map regression")
	// length bomb
	checkDecode(t, &desc{k: kBytes}, []byte{0x03, 0xff, 0xff, 0xff, 0x3f}, true, "bomb regression")
	_ = big.NewInt
}

// TestC12KnownShortRead is the witness of finding C12-short-read-zero-fill.
func TestC12KnownShortRead(t *testing.T) {
	defer kit.Flush()
	var u uint32
	err := safeUnmarshal([]byte{1, 2}, &u)
	var i64 int64 = -1
	err2 := safeUnmarshal([]byte{0xff}, &i64)
	_ = i64
	switch {
	case err == nil && u == 513:
		kit.WitnessResult(findingShortRead, true, fmt.Sprintf("Unmarshal([01 02], *uint32) = %d, nil error (int64 from 1 byte: err=%v)", u, err2))
	case err != nil && err2 != nil:
		kit.WitnessResult(findingShortRead, false, "")
	default:
		t.Fatalf("different signature: uint32 from 2 bytes -> %d, %v; int64 from 1 byte -> %v", u, err, err2)
	}
}

// TestC12KnownUsedDestination is the witness of finding C12-option-into-used-destination.
func TestC12KnownUsedDestination(t *testing.T) {
	defer kit.Flush()
	// Option<BigInt> is a pointer to *big.Int; the destination handed to Unmarshal points to it
	var fresh **big.Int
	errFresh := safeUnmarshal([]byte{0x01}, &fresh) // Some, payload missing
	var used **big.Int
	if err := safeUnmarshal([]byte{0x01, 0x00}, &used); err != nil || used == nil || *used == nil || (*used).Sign() != 0 {
		t.Fatalf("different signature: Unmarshal(0100, Option<BigInt>) = %v, %v", used, err)
	}
	errUsed := safeUnmarshal([]byte{0x01}, &used)
	switch {
	case errFresh != nil && errUsed == nil:
		kit.WitnessResult(findingUsedDst, true, fmt.Sprintf("Unmarshal(01, Option<BigInt>): fresh destination -> %v; destination already holding Some(0) -> nil error", errFresh))
	case errFresh != nil && errUsed != nil:
		kit.WitnessResult(findingUsedDst, false, "")
	default:
		t.Fatalf("different signature: fresh %v, used %v", errFresh, errUsed)
	}
}

// TestC12KnownLengthBomb is the witness of finding C12-decode-bytes-preallocates-declared-length.
func TestC12KnownLengthBomb(t *testing.T) {
	defer kit.Flush()
	d := &desc{k: kBytes}
	data := []byte{0x02, 0x00, 0x00, 0x04, 0xaa} // declared length 2^24 (16 MiB), one byte of data
	res := implDecode(d, data)
	if again := implDecode(d, data); again.alloc < res.alloc {
		res = again
	}
	switch {
	case res.panicked != nil:
		t.Fatalf("different signature: panic %v", res.panicked)
	case res.alloc >= 1<<24:
		kit.WitnessResult(findingBomb, true, fmt.Sprintf("Unmarshal(02000004aa, *[]byte) allocated %d bytes for 5 input bytes (err=%v)", res.alloc, res.err))
	case res.err != nil && res.alloc <= allocBound(len(data)):
		kit.WitnessResult(findingBomb, false, "")
	default:
		t.Fatalf("different signature: alloc %d err %v", res.alloc, res.err)
	}
}
