package c29

// sr25519: no independent schnorrkel implementation exists offline. The
// reference is an in-harness Schnorr verification written from the
// schnorrkel (w3f, Rust) sources' definition on top of gtank/ristretto255
// and gtank/merlin -- the two primitives go-schnorrkel is itself built on
// (TRUSTED BASE, shared). What is independent: the transcript layout
// (SigningContext / "substrate" / sign-bytes / proto-name / sign:pk / sign:R
// / sign:c), the signature format rules (marker bit, canonical s), the key
// decoding rule, and the verification equation, evaluated on byte strings
// (R is compared in compressed form, as the Rust code does, not decoded).

import (
	"bytes"
	"fmt"
	"math/big"
	"testing"

	kit "github.com/ChainSafe/gossamer/internal/verifkit"
	gsr "github.com/ChainSafe/gossamer/lib/crypto/sr25519"
	"github.com/gtank/merlin"
	r255 "github.com/gtank/ristretto255"
	"pgregory.net/rapid"
)

func srTranscript(ctx, msg []byte) *merlin.Transcript {
	t := merlin.NewTranscript("SigningContext")
	t.AppendMessage([]byte(""), ctx)
	t.AppendMessage([]byte("sign-bytes"), msg)
	return t
}

func srChallenge(ctx, msg, pub, rb []byte) *r255.Scalar {
	t := srTranscript(ctx, msg)
	t.AppendMessage([]byte("proto-name"), []byte("Schnorr-sig"))
	t.AppendMessage([]byte("sign:pk"), pub)
	t.AppendMessage([]byte("sign:R"), rb)
	return r255.NewScalar().FromUniformBytes(t.ExtractBytes([]byte("sign:c"), 64))
}

// refSrVerify: schnorrkel PublicKey::verify_simple(b"substrate", msg, sig)
// after Signature::from_bytes and PublicKey::from_bytes.
func refSrVerify(pub, msg, sig []byte) bool {
	if len(pub) != 32 || len(sig) != 64 {
		return false
	}
	a := r255.NewElement()
	if a.Decode(pub) != nil {
		return false
	}
	if sig[63]&0x80 == 0 {
		return false // not marked as schnorrkel
	}
	sb := append([]byte{}, sig[32:]...)
	sb[31] &= 0x7f
	s := r255.NewScalar()
	if s.Decode(sb) != nil {
		return false // not canonical
	}
	k := srChallenge([]byte("substrate"), msg, pub, sig[:32])
	// R' = [s]B - [k]A, compared in compressed form
	rp := r255.NewElement().ScalarBaseMult(s)
	rp.Subtract(rp, r255.NewElement().ScalarMult(k, a))
	return bytes.Equal(rp.Encode(nil), sig[:32])
}

// srSign signs in the harness with secret scalar x and nonce r (both drawn
// by rapid, so cases replay byte for byte).
func srSign(ctx []byte, x, r *r255.Scalar, pub, msg []byte) []byte {
	rb := r255.NewElement().ScalarBaseMult(r).Encode(nil)
	k := srChallenge(ctx, msg, pub, rb)
	s := r255.NewScalar().Multiply(k, x)
	s.Add(s, r)
	sig := append(append([]byte{}, rb...), s.Encode(nil)...)
	sig[63] |= 0x80
	return sig
}

var srKinds = []string{
	"honest", "honest", "honest-gossamer", "flip-sig", "flip-msg", "flip-pub", "no-marker", "s-plus-L", "negated-R", "random-R",
	"random-pub", "negated-pub", "wrong-context", "no-context-transcript", "random", "wrong-len-sig", "wrong-len-pub", "identity-pub", "other-key",
}

var fieldP = edP // 2^255 - 19, the field ristretto255 encodings live in

func genSrCase(t *rapid.T) (kind string, pub, msg, sig []byte) {
	kind = rapid.SampledFrom(srKinds).Draw(t, "kind")
	msg = genSigMessage(t)
	x := r255.NewScalar().FromUniformBytes(rapid.SliceOfN(rapid.Byte(), 64, 64).Draw(t, "secret"))
	r := r255.NewScalar().FromUniformBytes(rapid.SliceOfN(rapid.Byte(), 64, 64).Draw(t, "nonce"))
	pub = r255.NewElement().ScalarBaseMult(x).Encode(nil)
	ctx := []byte("substrate")
	sig = srSign(ctx, x, r, pub, msg)
	switch kind {
	case "honest-gossamer":
		// key derivation and signing by gossamer (random nonce: the signature bytes are not
		// reproducible, the verdict is)
		seed := rapid.SliceOfN(rapid.Byte(), 32, 32).Draw(t, "seed")
		kp, err := gsr.NewKeypairFromSeed(seed)
		if err != nil {
			t.Fatalf("NewKeypairFromSeed: %v", err)
		}
		pub = kp.Public().Encode()
		sig, err = kp.Sign(msg)
		if err != nil {
			t.Fatalf("Sign: %v", err)
		}
		if !refSrVerify(pub, msg, sig) {
			t.Fatalf("sr25519: a signature made by gossamer (seed %x, msg %x) is rejected by the reference: pub %x sig %x", seed, msg, pub, sig)
		}
	case "flip-sig":
		sig = flipBit(sig, rapid.IntRange(0, 510).Draw(t, "bit")) // bit 511 is the marker: "no-marker"
	case "flip-msg":
		if len(msg) == 0 {
			msg = []byte{1}
		} else {
			msg = flipBit(msg, rapid.IntRange(0, len(msg)*8-1).Draw(t, "bit"))
		}
	case "flip-pub":
		pub = flipBit(pub, rapid.IntRange(0, 255).Draw(t, "bit"))
	case "no-marker":
		sig = append([]byte{}, sig...)
		sig[63] &= 0x7f
	case "s-plus-L":
		sb := append([]byte{}, sig[32:]...)
		sb[31] &= 0x7f
		s := fromLE(sb)
		m := rapid.IntRange(1, 7).Draw(t, "m")
		s.Add(s, new(big.Int).Mul(big.NewInt(int64(m)), edL))
		if s.BitLen() > 255 {
			s.Sub(s, edL)
		}
		sig = append([]byte{}, sig...)
		putLE(sig[32:], s)
		sig[63] |= 0x80
	case "negated-R":
		// p - r: the other square root class representative, a non-canonical ristretto encoding
		v := new(big.Int).Sub(fieldP, fromLE(sig[:32]))
		sig = append([]byte{}, sig...)
		putLE(sig[:32], v)
	case "random-R":
		sig = append(rapid.SliceOfN(rapid.Byte(), 32, 32).Draw(t, "rR"), sig[32:]...)
	case "random-pub":
		pub = rapid.SliceOfN(rapid.Byte(), 32, 32).Draw(t, "rpub")
	case "negated-pub":
		v := new(big.Int).Sub(fieldP, fromLE(pub))
		pub = make([]byte, 32)
		putLE(pub, v)
	case "wrong-context":
		sig = srSign([]byte(rapid.SampledFrom([]string{"", "substrat", "substrate ", "Substrate", "polkadot"}).Draw(t, "ctx")), x, r, pub, msg)
	case "no-context-transcript":
		// ed25519-style / pre-0.8 transcript: label "substrate" directly, which Verify must not accept
		rb := r255.NewElement().ScalarBaseMult(r).Encode(nil)
		tr := merlin.NewTranscript("substrate")
		tr.AppendMessage([]byte("sign-bytes"), msg)
		tr.AppendMessage([]byte("proto-name"), []byte("Schnorr-sig"))
		tr.AppendMessage([]byte("sign:pk"), pub)
		tr.AppendMessage([]byte("sign:R"), rb)
		k := r255.NewScalar().FromUniformBytes(tr.ExtractBytes([]byte("sign:c"), 64))
		s := r255.NewScalar().Multiply(k, x)
		s.Add(s, r)
		sig = append(append([]byte{}, rb...), s.Encode(nil)...)
		sig[63] |= 0x80
	case "random":
		pub = rapid.SliceOfN(rapid.Byte(), 32, 32).Draw(t, "rpub")
		sig = rapid.SliceOfN(rapid.Byte(), 64, 64).Draw(t, "rsig")
	case "wrong-len-sig":
		n := rapid.SampledFrom([]int{0, 1, 32, 63, 65, 128}).Draw(t, "siglen")
		long := append(append([]byte{}, sig...), sig...)
		sig = long[:n]
	case "wrong-len-pub":
		n := rapid.SampledFrom([]int{0, 1, 31, 33, 64}).Draw(t, "publen")
		long := append(append([]byte{}, pub...), pub...)
		pub = long[:n]
	case "identity-pub":
		// A = identity: (R = [r]B, s = r) satisfies the equation for every message
		pub = make([]byte, 32)
		sig = srSign(ctx, r255.NewScalar(), r, pub, msg)
	case "other-key":
		x2 := r255.NewScalar().Add(x, r255.NewScalar().FromUniformBytes(append([]byte{1}, make([]byte, 63)...)))
		pub = r255.NewElement().ScalarBaseMult(x2).Encode(nil)
	}
	if kind != "honest" && kind != "honest-gossamer" && len(sig) == 64 && rapid.IntRange(0, 7).Draw(t, "damage") == 0 {
		sig = flipBit(sig, rapid.IntRange(0, 510).Draw(t, "dbit"))
		kind += "+damaged"
	}
	return kind, pub, msg, sig
}

func gossamerSrVerdict(t *rapid.T, pub, msg, sig []byte) bool {
	v2 := gsr.VerifySignature(pub, sig, msg) == nil
	v1 := false
	if pk, err := gsr.NewPublicKey(pub); err == nil {
		ok, err := pk.Verify(msg, sig)
		v1 = ok && err == nil
	}
	if v1 != v2 {
		t.Fatalf("sr25519 PublicKey.Verify=%v but VerifySignature=%v: pub %x msg %x sig %x", v1, v2, pub, msg, sig)
	}
	return v1
}

// TestC29Sr25519: gossamer's sr25519 verdict equals the in-harness schnorrkel
// verification.
func TestC29Sr25519(t *testing.T) {
	defer kit.Flush()
	rapid.Check(t, func(t *rapid.T) {
		kind, pub, msg, sig := genSrCase(t)
		want := refSrVerify(pub, msg, sig)
		got := gossamerSrVerdict(t, pub, msg, sig)
		labels := []string{"sr25519", "sr25519/" + kind}
		if want {
			labels = append(labels, "sr25519/ref-accept")
		} else {
			labels = append(labels, "sr25519/ref-reject")
		}
		identity := len(pub) == 32 && bytes.Equal(pub, make([]byte, 32))
		if identity && want {
			// Unconstrained (stated in the rule): go-schnorrkel refuses the identity key at
			// Verify; whether Rust schnorrkel does could not be established offline, so no
			// verdict is asserted for a forged signature under the identity key.
			labels = append(labels, "sr25519/identity-key-forgery(unasserted)")
		} else if got != want {
			t.Fatalf("sr25519 verdict differs (%s): gossamer %v, reference %v\n pub %x\n msg %x\n sig %x", kind, got, want, pub, msg, sig)
		}
		descr := fmt.Sprintf("sr25519 %s pub=%x msg=%x sig=%x", kind, pub, msg, sig)
		if kind == "honest-gossamer" {
			descr = fmt.Sprintf("sr25519 %s pub=%x msg=%x", kind, pub, msg) // signature bytes are randomised by the signer
		}
		honest := kind == "honest" || kind == "honest-gossamer"
		kit.Case(descr, !honest || len(msg) >= 128, labels...)
	})
}
