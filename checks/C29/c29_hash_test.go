package c29

// Hash oracles written in the harness from the specifications (RFC 7693,
// the xxHash64 specification, Keccak-f[1600] with the original 0x01 padding,
// FIPS 180-4). They share no code with golang.org/x/crypto, OneOfOne/xxhash
// or crypto/sha256, which lib/common/hasher.go is built on.

import (
	"bytes"
	"encoding/binary"
	"encoding/hex"
	"fmt"
	"math/big"
	"math/bits"
	"testing"

	kit "github.com/ChainSafe/gossamer/internal/verifkit"
	"github.com/ChainSafe/gossamer/lib/common"
	"pgregory.net/rapid"
)

// ---------------------------------------------------------------- BLAKE2b

var b2IV = [8]uint64{
	0x6a09e667f3bcc908, 0xbb67ae8584caa73b, 0x3c6ef372fe94f82b, 0xa54ff53a5f1d36f1,
	0x510e527fade682d1, 0x9b05688c2b3e6c1f, 0x1f83d9abfb41bd6b, 0x5be0cd19137e2179,
}

var b2Sigma = [10][16]byte{
	{0, 1, 2, 3, 4, 5, 6, 7, 8, 9, 10, 11, 12, 13, 14, 15},
	{14, 10, 4, 8, 9, 15, 13, 6, 1, 12, 0, 2, 11, 7, 5, 3},
	{11, 8, 12, 0, 5, 2, 15, 13, 10, 14, 3, 6, 7, 1, 9, 4},
	{7, 9, 3, 1, 13, 12, 11, 14, 2, 6, 5, 10, 4, 0, 15, 8},
	{9, 0, 5, 7, 2, 4, 10, 15, 14, 1, 11, 12, 6, 8, 3, 13},
	{2, 12, 6, 10, 0, 11, 8, 3, 4, 13, 7, 5, 15, 14, 1, 9},
	{12, 5, 1, 15, 14, 13, 4, 10, 0, 7, 6, 3, 9, 2, 8, 11},
	{13, 11, 7, 14, 12, 1, 3, 9, 5, 0, 15, 4, 8, 6, 2, 10},
	{6, 15, 14, 9, 11, 3, 0, 8, 12, 2, 13, 7, 1, 4, 10, 5},
	{10, 2, 8, 4, 7, 6, 1, 5, 15, 11, 9, 14, 3, 12, 13, 0},
}

func b2Compress(h *[8]uint64, block []byte, t uint64, last bool) {
	var m [16]uint64
	for i := range m {
		m[i] = binary.LittleEndian.Uint64(block[8*i:])
	}
	var v [16]uint64
	copy(v[:8], h[:])
	copy(v[8:], b2IV[:])
	v[12] ^= t // low word of the 128-bit offset; the high word stays 0 (< 2^64 bytes)
	if last {
		v[14] = ^v[14]
	}
	g := func(a, b, c, d int, x, y uint64) {
		v[a] = v[a] + v[b] + x
		v[d] = bits.RotateLeft64(v[d]^v[a], -32)
		v[c] = v[c] + v[d]
		v[b] = bits.RotateLeft64(v[b]^v[c], -24)
		v[a] = v[a] + v[b] + y
		v[d] = bits.RotateLeft64(v[d]^v[a], -16)
		v[c] = v[c] + v[d]
		v[b] = bits.RotateLeft64(v[b]^v[c], -63)
	}
	for r := 0; r < 12; r++ {
		s := b2Sigma[r%10]
		g(0, 4, 8, 12, m[s[0]], m[s[1]])
		g(1, 5, 9, 13, m[s[2]], m[s[3]])
		g(2, 6, 10, 14, m[s[4]], m[s[5]])
		g(3, 7, 11, 15, m[s[6]], m[s[7]])
		g(0, 5, 10, 15, m[s[8]], m[s[9]])
		g(1, 6, 11, 12, m[s[10]], m[s[11]])
		g(2, 7, 8, 13, m[s[12]], m[s[13]])
		g(3, 4, 9, 14, m[s[14]], m[s[15]])
	}
	for i := 0; i < 8; i++ {
		h[i] ^= v[i] ^ v[i+8]
	}
}

// refBlake2b is unkeyed BLAKE2b with an outLen-byte digest (RFC 7693 3.3).
func refBlake2b(outLen int, in []byte) []byte {
	h := b2IV
	h[0] ^= 0x01010000 ^ uint64(outLen)
	var t uint64
	for len(in) > 128 {
		t += 128
		b2Compress(&h, in[:128], t, false)
		in = in[128:]
	}
	var last [128]byte
	copy(last[:], in)
	t += uint64(len(in))
	b2Compress(&h, last[:], t, true)
	out := make([]byte, 64)
	for i := 0; i < 8; i++ {
		binary.LittleEndian.PutUint64(out[8*i:], h[i])
	}
	return out[:outLen]
}

// ---------------------------------------------------------------- xxHash64

const (
	xxP1 uint64 = 11400714785074694791
	xxP2 uint64 = 14029467366897019727
	xxP3 uint64 = 1609587929392839161
	xxP4 uint64 = 9650029242287828579
	xxP5 uint64 = 2870177450012600261
)

func xxRound(acc, in uint64) uint64 {
	return bits.RotateLeft64(acc+in*xxP2, 31) * xxP1
}

func xxMerge(h, v uint64) uint64 {
	return (h^xxRound(0, v))*xxP1 + xxP4
}

func refXXH64(in []byte, seed uint64) uint64 {
	n := uint64(len(in))
	p := in
	var h uint64
	if len(p) >= 32 {
		v1, v2, v3, v4 := seed+xxP1+xxP2, seed+xxP2, seed, seed-xxP1
		for len(p) >= 32 {
			v1 = xxRound(v1, binary.LittleEndian.Uint64(p[0:]))
			v2 = xxRound(v2, binary.LittleEndian.Uint64(p[8:]))
			v3 = xxRound(v3, binary.LittleEndian.Uint64(p[16:]))
			v4 = xxRound(v4, binary.LittleEndian.Uint64(p[24:]))
			p = p[32:]
		}
		h = bits.RotateLeft64(v1, 1) + bits.RotateLeft64(v2, 7) + bits.RotateLeft64(v3, 12) + bits.RotateLeft64(v4, 18)
		h = xxMerge(h, v1)
		h = xxMerge(h, v2)
		h = xxMerge(h, v3)
		h = xxMerge(h, v4)
	} else {
		h = seed + xxP5
	}
	h += n
	for len(p) >= 8 {
		h ^= xxRound(0, binary.LittleEndian.Uint64(p))
		h = bits.RotateLeft64(h, 27)*xxP1 + xxP4
		p = p[8:]
	}
	if len(p) >= 4 {
		h ^= uint64(binary.LittleEndian.Uint32(p)) * xxP1
		h = bits.RotateLeft64(h, 23)*xxP2 + xxP3
		p = p[4:]
	}
	for _, b := range p {
		h ^= uint64(b) * xxP5
		h = bits.RotateLeft64(h, 11) * xxP1
	}
	h ^= h >> 33
	h *= xxP2
	h ^= h >> 29
	h *= xxP3
	h ^= h >> 32
	return h
}

// refTwox is xxh64 with seeds 0..n-1, each little endian, concatenated
// (Substrate sp_core::hashing::twox_64 / twox_128 / twox_256).
func refTwox(n int, in []byte) []byte {
	out := make([]byte, 0, 8*n)
	for s := 0; s < n; s++ {
		out = binary.LittleEndian.AppendUint64(out, refXXH64(in, uint64(s)))
	}
	return out
}

// ---------------------------------------------------------------- Keccak-256

// keccakRC is generated with the degree-8 LFSR of the Keccak reference
// (x^8 + x^6 + x^5 + x^4 + 1), not typed in.
var keccakRC = func() [24]uint64 {
	var rc [24]uint64
	lfsr := byte(1)
	for r := 0; r < 24; r++ {
		for j := 0; j < 7; j++ {
			bit := lfsr & 1
			if lfsr&0x80 != 0 {
				lfsr = lfsr<<1 ^ 0x71
			} else {
				lfsr <<= 1
			}
			if bit != 0 {
				rc[r] ^= 1 << ((1 << uint(j)) - 1)
			}
		}
	}
	return rc
}()

func keccakF(a *[25]uint64) {
	for r := 0; r < 24; r++ {
		// theta
		var c [5]uint64
		for x := 0; x < 5; x++ {
			c[x] = a[x] ^ a[x+5] ^ a[x+10] ^ a[x+15] ^ a[x+20]
		}
		for x := 0; x < 5; x++ {
			d := c[(x+4)%5] ^ bits.RotateLeft64(c[(x+1)%5], 1)
			for y := 0; y < 25; y += 5 {
				a[y+x] ^= d
			}
		}
		// rho and pi: walk (x,y) -> (y, 2x+3y), rotation offsets (t+1)(t+2)/2
		x, y := 1, 0
		cur := a[1]
		for t := 0; t < 24; t++ {
			x, y = y, (2*x+3*y)%5
			nxt := a[5*y+x]
			a[5*y+x] = bits.RotateLeft64(cur, ((t+1)*(t+2)/2)%64)
			cur = nxt
		}
		// chi
		for y := 0; y < 25; y += 5 {
			var row [5]uint64
			copy(row[:], a[y:y+5])
			for x := 0; x < 5; x++ {
				a[y+x] = row[x] ^ (^row[(x+1)%5] & row[(x+2)%5])
			}
		}
		// iota
		a[0] ^= keccakRC[r]
	}
}

// refKeccak256 is Keccak[r=1088, c=512] with the pre-FIPS multi-rate padding
// 0x01 .. 0x80 (the hash Ethereum and Substrate's keccak_256 use).
func refKeccak256(in []byte) []byte {
	const rate = 136
	var a [25]uint64
	absorb := func(block []byte) {
		for i := 0; i < rate/8; i++ {
			a[i] ^= binary.LittleEndian.Uint64(block[8*i:])
		}
		keccakF(&a)
	}
	for len(in) >= rate {
		absorb(in[:rate])
		in = in[rate:]
	}
	var last [rate]byte
	copy(last[:], in)
	last[len(in)] ^= 0x01
	last[rate-1] ^= 0x80
	absorb(last[:])
	out := make([]byte, 32)
	for i := 0; i < 4; i++ {
		binary.LittleEndian.PutUint64(out[8*i:], a[i])
	}
	return out
}

// ---------------------------------------------------------------- SHA-256

// The constants are derived as FIPS 180-4 defines them (fractional parts of
// the square / cube roots of the first primes), not typed in.
var sha256H0, sha256K = func() ([8]uint32, [64]uint32) {
	var primes []int64
	for n := int64(2); len(primes) < 64; n++ {
		isP := true
		for _, p := range primes {
			if n%p == 0 {
				isP = false
				break
			}
		}
		if isP {
			primes = append(primes, n)
		}
	}
	mask := big.NewInt(0xffffffff)
	var h0 [8]uint32
	var k [64]uint32
	for i, p := range primes {
		if i < 8 {
			s := new(big.Int).Sqrt(new(big.Int).Lsh(big.NewInt(p), 64)) // floor(sqrt(p) * 2^32)
			h0[i] = uint32(s.And(s, mask).Uint64())
		}
		// floor(cbrt(p) * 2^32) = floor(cbrt(p << 96)), by bisection
		target := new(big.Int).Lsh(big.NewInt(p), 96)
		lo, hi := big.NewInt(0), new(big.Int).Lsh(big.NewInt(1), 40)
		for new(big.Int).Sub(hi, lo).Cmp(big.NewInt(1)) > 0 {
			mid := new(big.Int).Rsh(new(big.Int).Add(lo, hi), 1)
			cube := new(big.Int).Mul(mid, new(big.Int).Mul(mid, mid))
			if cube.Cmp(target) <= 0 {
				lo = mid
			} else {
				hi = mid
			}
		}
		k[i] = uint32(new(big.Int).And(lo, mask).Uint64())
	}
	return h0, k
}()

func refSha256(in []byte) []byte {
	h := sha256H0
	msg := append([]byte{}, in...)
	msg = append(msg, 0x80)
	for len(msg)%64 != 56 {
		msg = append(msg, 0)
	}
	msg = binary.BigEndian.AppendUint64(msg, uint64(len(in))*8)
	for ; len(msg) > 0; msg = msg[64:] {
		var w [64]uint32
		for i := 0; i < 16; i++ {
			w[i] = binary.BigEndian.Uint32(msg[4*i:])
		}
		for i := 16; i < 64; i++ {
			s0 := bits.RotateLeft32(w[i-15], -7) ^ bits.RotateLeft32(w[i-15], -18) ^ (w[i-15] >> 3)
			s1 := bits.RotateLeft32(w[i-2], -17) ^ bits.RotateLeft32(w[i-2], -19) ^ (w[i-2] >> 10)
			w[i] = w[i-16] + s0 + w[i-7] + s1
		}
		a, b, c, d, e, f, g, hh := h[0], h[1], h[2], h[3], h[4], h[5], h[6], h[7]
		for i := 0; i < 64; i++ {
			S1 := bits.RotateLeft32(e, -6) ^ bits.RotateLeft32(e, -11) ^ bits.RotateLeft32(e, -25)
			ch := (e & f) ^ (^e & g)
			t1 := hh + S1 + ch + sha256K[i] + w[i]
			S0 := bits.RotateLeft32(a, -2) ^ bits.RotateLeft32(a, -13) ^ bits.RotateLeft32(a, -22)
			maj := (a & b) ^ (a & c) ^ (b & c)
			t2 := S0 + maj
			hh, g, f, e, d, c, b, a = g, f, e, d+t1, c, b, a, t1+t2
		}
		h[0] += a
		h[1] += b
		h[2] += c
		h[3] += d
		h[4] += e
		h[5] += f
		h[6] += g
		h[7] += hh
	}
	out := make([]byte, 0, 32)
	for _, v := range h {
		out = binary.BigEndian.AppendUint32(out, v)
	}
	return out
}

// ---------------------------------------------------------------- self check

func mustHex(s string) []byte {
	b, err := hex.DecodeString(s)
	if err != nil {
		panic(err)
	}
	return b
}

// TestC29OracleSelfCheck validates the in-harness oracles against published
// known-answer vectors before they judge anything.
func TestC29OracleSelfCheck(t *testing.T) {
	defer kit.Flush()
	a1m := bytes.Repeat([]byte("a"), 1000000)
	kat := []struct {
		name string
		got  []byte
		want string
	}{
		// RFC 7693 appendix A (BLAKE2b-512 "abc")
		{"blake2b-512 abc", refBlake2b(64, []byte("abc")), "ba80a53f981c4d0d6a2797b69f12f6e94c212f14685ac4b74b12bb6fdbffa2d17d87c5392aab792dc252d5de4533cc9518d38aa8dbf1925ab92386edd4009923"},
		{"blake2b-256 empty", refBlake2b(32, nil), "0e5751c026e543b2e8ab2eb06099daa1d1e5df47778f7787faab45cdf12fe3a8"},
		{"blake2b-256 abc", refBlake2b(32, []byte("abc")), "bddd813c634239723171ef3fee98579b94964e3bb1cb3e427262c8c068d52319"},
		{"xxh64 empty seed 0", binary.BigEndian.AppendUint64(nil, refXXH64(nil, 0)), "ef46db3751d8e999"},
		{"xxh64 abc seed 0", binary.BigEndian.AppendUint64(nil, refXXH64([]byte("abc"), 0)), "44bc2cf5ad770999"},
		{"keccak256 empty", refKeccak256(nil), "c5d2460186f7233c927e7db2dcc703c0e500b653ca82273b7bfad8045d85a470"},
		{"keccak256 abc", refKeccak256([]byte("abc")), "4e03657aea45a94fc7d47ba826c8d667c0d1e6e33a64a036ec44f58fa12d6c45"},
		{"sha256 abc", refSha256([]byte("abc")), "ba7816bf8f01cfea414140de5dae2223b00361a396177a9cb410ff61f20015ad"},
		{"sha256 empty", refSha256(nil), "e3b0c44298fc1c149afbf4c8996fb92427ae41e4649b934ca495991b7852b855"},
		{"sha256 two-block", refSha256([]byte("abcdbcdecdefdefgefghfghighijhijkijkljklmklmnlmnomnopnopq")), "248d6a61d20638b8e5c026930c3e6039a33ce45964ff2167f6ecedd419db06c1"},
		{"sha256 1M a", refSha256(a1m), "cdc76e5c9914fb9281a1c7e284d73e67f1809a48a497200e046d39ccc7112cd0"},
		// Substrate storage prefixes: twox_128("System") and twox_128("Account"), polkadot well-known keys
		{"twox128 System", refTwox(2, []byte("System")), "26aa394eea5630e07c48ae0c9558cef7"},
		{"twox128 Account", refTwox(2, []byte("Account")), "b99d880ec681799c0cf30e8886371da9"},
		// Substrate runtime API id of TaggedTransactionQueue = blake2_64(name): BLAKE2b with an 8-byte digest
		{"blake2b-64 TaggedTransactionQueue", refBlake2b(8, []byte("TaggedTransactionQueue")), "d2bc9897eed08f15"},
		// BLAKE2b-128 as used for Substrate storage key hashing: blake2_128("") (well known)
		{"blake2b-128 empty", refBlake2b(16, nil), "cae66941d9efbd404e4d88758ea67670"},
	}
	for _, k := range kat {
		if hex.EncodeToString(k.got) != k.want {
			t.Errorf("oracle self-check %s: got %x want %s", k.name, k.got, k.want)
		}
	}
	kit.Case("oracle-kat", true, "selfcheck")
}

// ---------------------------------------------------------------- property

var hashBoundaryLens = []int{0, 1, 3, 4, 5, 7, 8, 9, 15, 16, 17, 31, 32, 33, 55, 56, 57, 63, 64, 65, 95, 96, 111, 112, 119, 120,
	127, 128, 129, 135, 136, 137, 159, 160, 191, 192, 255, 256, 257, 271, 272, 273, 383, 384, 385}

func genMessage(t *rapid.T, label string) []byte {
	var n int
	switch rapid.IntRange(0, 9).Draw(t, label+"-lenkind") {
	case 0, 1, 2, 3:
		n = rapid.SampledFrom(hashBoundaryLens).Draw(t, label+"-len")
	case 4:
		n = rapid.IntRange(300, 1500).Draw(t, label+"-len")
	default:
		n = rapid.IntRange(0, 300).Draw(t, label+"-len")
	}
	switch rapid.IntRange(0, 5).Draw(t, label+"-fill") {
	case 0: // constant fill (padding bytes 0x00/0x01/0x80/0xff are the interesting ones)
		b := rapid.SampledFrom([]byte{0x00, 0x01, 0x80, 0xff, 0x06}).Draw(t, label+"-fillbyte")
		return bytes.Repeat([]byte{b}, n)
	default:
		return rapid.SliceOfN(rapid.Byte(), n, n).Draw(t, label)
	}
}

func lenLabel(n int) string {
	switch {
	case n == 0:
		return "len-0"
	case n < 32:
		return "len-1..31"
	case n < 128:
		return "len-32..127"
	case n <= 136:
		return "len-128..136"
	case n <= 300:
		return "len-137..300"
	}
	return "len->300"
}

// TestC29Hashes: every helper of lib/common/hasher.go returns the digest of
// the in-harness reference, for messages around all block/stripe boundaries.
func TestC29Hashes(t *testing.T) {
	defer kit.Flush()
	rapid.Check(t, func(t *rapid.T) {
		msg := genMessage(t, "msg")
		orig := append([]byte{}, msg...)
		cmp := func(name string, got []byte, err error, want []byte) {
			if err != nil {
				t.Fatalf("%s(%x): unexpected error %v", name, msg, err)
			}
			if !bytes.Equal(got, want) {
				t.Fatalf("%s(len %d, %x): got %x, reference %x", name, len(msg), msg, got, want)
			}
		}
		b128, err := common.Blake2b128(msg)
		cmp("Blake2b128", b128, err, refBlake2b(16, msg))
		b256, err := common.Blake2bHash(msg)
		cmp("Blake2bHash", b256[:], err, refBlake2b(32, msg))
		mb := common.MustBlake2bHash(msg)
		cmp("MustBlake2bHash", mb[:], nil, refBlake2b(32, msg))
		b8, err := common.Blake2b8(msg)
		cmp("Blake2b8", b8[:], err, refBlake2b(8, msg))
		k, err := common.Keccak256(msg)
		cmp("Keccak256", k[:], err, refKeccak256(msg))
		x64, err := common.Twox64(msg)
		cmp("Twox64", x64, err, refTwox(1, msg))
		x128, err := common.Twox128Hash(msg)
		cmp("Twox128Hash", x128, err, refTwox(2, msg))
		x256, err := common.Twox256(msg)
		cmp("Twox256", x256[:], err, refTwox(4, msg))
		s := common.Sha256(msg)
		cmp("Sha256", s[:], nil, refSha256(msg))
		if !bytes.Equal(msg, orig) {
			t.Fatalf("a hash helper modified its input: %x -> %x", orig, msg)
		}
		// a digest handed out stays the digest of its message: hashing a second
		// message afterwards must not change the slices returned for the first
		msg2 := genMessage(t, "msg2")
		first := msg
		msg = msg2
		b128b, err := common.Blake2b128(msg2)
		cmp("Blake2b128", b128b, err, refBlake2b(16, msg2))
		x64b, err := common.Twox64(msg2)
		cmp("Twox64", x64b, err, refTwox(1, msg2))
		x128b, err := common.Twox128Hash(msg2)
		cmp("Twox128Hash", x128b, err, refTwox(2, msg2))
		b256b, err := common.Blake2bHash(msg2)
		cmp("Blake2bHash", b256b[:], err, refBlake2b(32, msg2))
		msg = first
		for _, r := range []struct {
			name      string
			got, want []byte
		}{
			{"Blake2b128", b128, refBlake2b(16, msg)},
			{"Twox64", x64, refTwox(1, msg)},
			{"Twox128Hash", x128, refTwox(2, msg)},
			{"Blake2bHash", b256[:], refBlake2b(32, msg)},
		} {
			if !bytes.Equal(r.got, r.want) {
				t.Fatalf("%s(%x) returned %x, but after hashing %x the returned slice reads %x: digests share storage", r.name, msg, r.want, msg2, r.got)
			}
		}
		labels := []string{"hash", lenLabel(len(msg))}
		for _, b := range []int{32, 64, 128, 136} {
			if len(msg) > 0 && len(msg)%b == 0 {
				labels = append(labels, fmt.Sprintf("len-multiple-of-%d", b))
			}
		}
		kit.Case(fmt.Sprintf("hash %x", msg), len(msg) >= 128, labels...)
	})
}
