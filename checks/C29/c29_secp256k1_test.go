package c29

// secp256k1: reference = github.com/decred/dcrd/dcrec/secp256k1/v4 (+/ecdsa),
// pure Go; gossamer goes through go-ethereum's cgo binding of libsecp256k1.
//
// Reference semantics (what Substrate does):
//   - recovery (sp_io secp256k1_ecdsa_recover[_compressed] v2): v := sig[64],
//     v-27 if v > 26, v must be 0..3; r, s must be in [1, n-1]; no low-s rule;
//     the key is returned iff the curve recovery succeeds.
//   - verification (sp_core::ecdsa::Pair::verify = "recover and compare"):
//     for a 64-byte (r, s) this is plain ECDSA verification *without* a low-s
//     rule: (r, s) is valid for the key iff some recovery id recovers the key.

import (
	"bytes"
	"fmt"
	"math/big"
	"testing"

	kit "github.com/ChainSafe/gossamer/internal/verifkit"
	gsecp "github.com/ChainSafe/gossamer/lib/crypto/secp256k1"
	dsecp "github.com/decred/dcrd/dcrec/secp256k1/v4"
	decdsa "github.com/decred/dcrd/dcrec/secp256k1/v4/ecdsa"
	"pgregory.net/rapid"
)

const findingSecpHighS = "C29-secp256k1-verify-rejects-high-s"

var (
	secpN, _ = new(big.Int).SetString("fffffffffffffffffffffffffffffffebaaedce6af48a03bbfd25e8cd0364141", 16)
	secpP, _ = new(big.Int).SetString("fffffffffffffffffffffffffffffffffffffffffffffffffffffffefffffc2f", 16)
	secpHalf = new(big.Int).Rsh(secpN, 1)
)

func be32(v *big.Int) []byte {
	out := make([]byte, 32)
	v.FillBytes(out)
	return out
}

// refSecpVerify: standard ECDSA verification of a 64-byte r||s over a 32-byte
// digest with a 33-byte compressed key.
func refSecpVerify(pub, msg, sig []byte) bool {
	if len(pub) != 33 || len(msg) != 32 || len(sig) != 64 {
		return false
	}
	if pub[0] != 2 && pub[0] != 3 {
		return false
	}
	pk, err := dsecp.ParsePubKey(pub)
	if err != nil {
		return false
	}
	var r, s dsecp.ModNScalar
	if r.SetByteSlice(sig[:32]) || s.SetByteSlice(sig[32:]) {
		return false // >= n
	}
	if r.IsZero() || s.IsZero() {
		return false
	}
	return decdsa.NewSignature(&r, &s).Verify(msg, pk)
}

// refSecpRecover returns the recovered key or nil.
func refSecpRecover(msg, sig []byte) *dsecp.PublicKey {
	if len(msg) != 32 || len(sig) != 65 {
		return nil
	}
	v := sig[64]
	if v >= 27 {
		v -= 27
	}
	if v > 3 {
		return nil
	}
	compact := make([]byte, 65)
	compact[0] = 27 + v
	copy(compact[1:], sig[:64])
	pk, _, err := decdsa.RecoverCompact(compact, msg)
	if err != nil {
		return nil
	}
	return pk
}

var secpKinds = []string{
	"honest-gossamer", "honest-ref", "flip-sig", "flip-msg", "flip-pub", "high-s", "high-s-same-v", "wrong-v", "v-plus-27", "v-out-of-range",
	"r-zero", "s-zero", "r-eq-n", "s-eq-n", "r-ge-n", "s-ge-n", "random-sig", "bad-pub-prefix", "pub-x-off-curve", "pub-x-ge-p",
	"wrong-len-sig", "wrong-len-msg", "wrong-len-pub", "other-key",
}

type secpCase struct {
	kind string
	pub  []byte // 33 bytes (or malformed)
	msg  []byte // 32 bytes (or malformed)
	sig  []byte // 65 bytes r||s||v; verification uses sig[:64] (or a malformed length)
	vsig []byte // signature handed to Verify
}

func genSecpCase(t *rapid.T) secpCase {
	kind := rapid.SampledFrom(secpKinds).Draw(t, "kind")
	seed := rapid.SliceOfN(rapid.Byte(), 32, 32).Draw(t, "seed")
	seed[0] &= 0x7f // < n
	seed[31] |= 1   // != 0
	msg := rapid.SliceOfN(rapid.Byte(), 32, 32).Draw(t, "digest")
	dpriv := dsecp.PrivKeyFromBytes(seed)
	pub := dpriv.PubKey().SerializeCompressed()

	gpriv, err := gsecp.NewPrivateKey(seed)
	if err != nil {
		t.Fatalf("NewPrivateKey: %v", err)
	}
	kp, err := gsecp.NewKeypairFromPrivate(gpriv)
	if err != nil {
		t.Fatalf("NewKeypairFromPrivate: %v", err)
	}
	if !bytes.Equal(kp.Public().Encode(), pub) {
		t.Fatalf("secret %x: gossamer public key %x, reference %x", seed, kp.Public().Encode(), pub)
	}

	var sig []byte
	if kind == "honest-ref" || rapid.Bool().Draw(t, "ref-signer") {
		c := decdsa.SignCompact(dpriv, msg, true) // [27+4+recid || r || s]
		sig = append(append([]byte{}, c[1:]...), c[0]-31)
	} else {
		sig, err = kp.Sign(msg)
		if err != nil || len(sig) != 65 {
			t.Fatalf("Sign: %v (len %d)", err, len(sig))
		}
	}
	if kind == "honest-gossamer" {
		sig, err = kp.Sign(msg)
		if err != nil || len(sig) != 65 {
			t.Fatalf("Sign: %v (len %d)", err, len(sig))
		}
		if new(big.Int).SetBytes(sig[32:64]).Cmp(secpHalf) > 0 {
			t.Fatalf("gossamer Sign produced a high-s signature %x", sig)
		}
	}
	sig = append([]byte{}, sig...)
	setR := func(v *big.Int) { copy(sig[:32], be32(v)) }
	setS := func(v *big.Int) { copy(sig[32:64], be32(v)) }
	small := func(label string) *big.Int { return big.NewInt(int64(rapid.IntRange(1, 1000).Draw(t, label))) }

	switch kind {
	case "flip-sig":
		copy(sig, flipBit(sig[:64], rapid.IntRange(0, 511).Draw(t, "bit")))
	case "flip-msg":
		msg = flipBit(msg, rapid.IntRange(0, 255).Draw(t, "bit"))
	case "flip-pub":
		pub = flipBit(pub, rapid.IntRange(0, 33*8-1).Draw(t, "bit"))
	case "high-s":
		// the other valid signature of the pair: (r, n-s) with the y-parity bit flipped
		setS(new(big.Int).Sub(secpN, new(big.Int).SetBytes(sig[32:64])))
		sig[64] ^= 1
	case "high-s-same-v":
		setS(new(big.Int).Sub(secpN, new(big.Int).SetBytes(sig[32:64])))
	case "wrong-v":
		sig[64] ^= byte(rapid.SampledFrom([]int{1, 2, 3}).Draw(t, "vx"))
	case "v-plus-27":
		sig[64] += 27
	case "v-out-of-range":
		sig[64] = byte(rapid.SampledFrom([]int{4, 5, 26, 31, 32, 35, 54, 128, 255}).Draw(t, "v"))
	case "r-zero":
		setR(big.NewInt(0))
	case "s-zero":
		setS(big.NewInt(0))
	case "r-eq-n":
		setR(secpN)
	case "s-eq-n":
		setS(secpN)
	case "r-ge-n":
		setR(new(big.Int).Add(secpN, small("dr")))
	case "s-ge-n":
		setS(new(big.Int).Add(secpN, small("ds")))
	case "random-sig":
		copy(sig, rapid.SliceOfN(rapid.Byte(), 64, 64).Draw(t, "rsig"))
		sig[64] = byte(rapid.IntRange(0, 3).Draw(t, "rv"))
	case "bad-pub-prefix":
		pub = append([]byte{}, pub...)
		pub[0] = byte(rapid.SampledFrom([]int{0, 1, 4, 5, 6, 7, 0x82, 0xff}).Draw(t, "prefix"))
	case "pub-x-off-curve":
		// smallest x >= drawn start with x^3+7 a non-residue
		x := new(big.Int).SetBytes(rapid.SliceOfN(rapid.Byte(), 31, 31).Draw(t, "xstart"))
		for {
			cand := append([]byte{2}, be32(x)...)
			if _, err := dsecp.ParsePubKey(cand); err != nil {
				pub = cand
				break
			}
			x.Add(x, big.NewInt(1))
		}
	case "pub-x-ge-p":
		pub = append([]byte{byte(2 + rapid.IntRange(0, 1).Draw(t, "odd"))}, be32(new(big.Int).Add(secpP, small("dx")))...)
	case "other-key":
		other := append([]byte{}, seed...)
		other[31] ^= 2
		pub = dsecp.PrivKeyFromBytes(other).PubKey().SerializeCompressed()
	}
	c := secpCase{kind: kind, pub: pub, msg: msg, sig: sig, vsig: sig[:64]}
	switch kind {
	case "wrong-len-sig":
		n := rapid.SampledFrom([]int{0, 1, 32, 63, 65, 66, 128}).Draw(t, "siglen")
		long := append(append([]byte{}, sig...), sig...)
		c.vsig = long[:n]
		// recovery takes exactly 65 bytes from wasm memory; only the too-long shape is a
		// meaningful malformed input there (a shorter slice cannot reach it from a caller)
		if n > 65 {
			c.sig = long[:n]
		}
	case "wrong-len-msg":
		n := rapid.SampledFrom([]int{0, 1, 31, 33, 64}).Draw(t, "msglen")
		long := append(append([]byte{}, msg...), msg...)
		c.msg = long[:n]
	case "wrong-len-pub":
		n := rapid.SampledFrom([]int{0, 1, 32, 34, 64, 65}).Draw(t, "publen")
		long := append(append([]byte{}, pub...), pub...)
		c.pub = long[:n]
	}
	return c
}

func gossamerSecpVerdict(t *rapid.T, pub, msg, sig []byte) bool {
	v2 := gsecp.VerifySignature(pub, sig, msg) == nil
	if len(pub) != 33 {
		// a Substrate ecdsa::Public is exactly 33 bytes; PublicKey.Decode is not reachable
		// with another length from the host functions, the free function is
		return v2
	}
	pk := new(gsecp.PublicKey)
	v1 := false
	if err := pk.Decode(pub); err == nil {
		ok, err := pk.Verify(msg, sig)
		v1 = ok && err == nil
	}
	if v1 != v2 {
		t.Fatalf("secp256k1 PublicKey.Verify=%v but VerifySignature=%v: pub %x msg %x sig %x", v1, v2, pub, msg, sig)
	}
	return v1
}

func secpCheckOne(t *rapid.T, c secpCase) (labels []string) {
	labels = []string{"secp256k1", "secp256k1/" + c.kind}
	// ---- verification
	want := refSecpVerify(c.pub, c.msg, c.vsig)
	got := gossamerSecpVerdict(t, c.pub, c.msg, c.vsig)
	highS := len(c.vsig) == 64 && new(big.Int).SetBytes(c.vsig[32:]).Cmp(secpHalf) > 0
	if want {
		labels = append(labels, "secp256k1/verify-ref-accept")
	} else {
		labels = append(labels, "secp256k1/verify-ref-reject")
	}
	if got != want {
		if want && highS && !got && kit.KnownOpen(findingSecpHighS) {
			kit.Excluded(findingSecpHighS)
			labels = append(labels, "secp256k1/valid-high-s(excluded)")
		} else {
			t.Fatalf("secp256k1 verify verdict differs (%s): gossamer %v, reference %v (s > n/2: %v)\n pub %x\n msg %x\n sig %x",
				c.kind, got, want, highS, c.pub, c.msg, c.vsig)
		}
	}
	// ---- recovery (65-byte signatures only: see genSecpCase)
	if len(c.sig) < 65 {
		return labels
	}
	ref := refSecpRecover(c.msg, c.sig)
	in1 := append([]byte{}, c.sig...)
	pub65, err1 := gsecp.RecoverPublicKey(c.msg, in1)
	in2 := append([]byte{}, c.sig...)
	pub33, err2 := gsecp.RecoverPublicKeyCompressed(c.msg, in2)
	if ref == nil {
		labels = append(labels, "secp256k1/recover-ref-none")
		if err1 == nil || err2 == nil {
			t.Fatalf("secp256k1 recovery (%s): reference recovers no key, gossamer returned %x / %x (errors %v / %v)\n msg %x\n sig %x",
				c.kind, pub65, pub33, err1, err2, c.msg, c.sig)
		}
		return labels
	}
	labels = append(labels, "secp256k1/recover-ref-key")
	if err1 != nil || err2 != nil {
		t.Fatalf("secp256k1 recovery (%s): reference recovers %x, gossamer errors %v / %v\n msg %x\n sig %x",
			c.kind, ref.SerializeCompressed(), err1, err2, c.msg, c.sig)
	}
	if !bytes.Equal(pub65, ref.SerializeUncompressed()) {
		t.Fatalf("secp256k1 RecoverPublicKey (%s): got %x, reference %x\n msg %x\n sig %x", c.kind, pub65, ref.SerializeUncompressed(), c.msg, c.sig)
	}
	if !bytes.Equal(pub33, ref.SerializeCompressed()) {
		t.Fatalf("secp256k1 RecoverPublicKeyCompressed (%s): got %x, reference %x\n msg %x\n sig %x", c.kind, pub33, ref.SerializeCompressed(), c.msg, c.sig)
	}
	if bytes.Equal(pub33, c.pub) {
		labels = append(labels, "secp256k1/recovered-signer")
	} else {
		labels = append(labels, "secp256k1/recovered-other-key")
	}
	if (c.kind == "honest-gossamer" || c.kind == "honest-ref" || c.kind == "high-s" || c.kind == "v-plus-27") && !bytes.Equal(pub33, c.pub) {
		t.Fatalf("secp256k1 recovery (%s): recovered %x, signer %x\n msg %x\n sig %x", c.kind, pub33, c.pub, c.msg, c.sig)
	}
	return labels
}

// TestC29Secp256k1: verification verdicts and recovered keys equal the
// reference's.
func TestC29Secp256k1(t *testing.T) {
	defer kit.Flush()
	rapid.Check(t, func(t *rapid.T) {
		c := genSecpCase(t)
		labels := secpCheckOne(t, c)
		honest := c.kind == "honest-gossamer" || c.kind == "honest-ref"
		kit.Case(fmt.Sprintf("secp256k1 %s pub=%x msg=%x sig=%x vsig=%d", c.kind, c.pub, c.msg, c.sig, len(c.vsig)), !honest, labels...)
	})
}
