package c29

// ed25519: in-harness edwards25519 over math/big and a ZIP-215 verifier
// (the rules of ed25519-zebra, which Substrate's sp_core::ed25519 verifies
// with): A and R may be non-canonical encodings of curve points, S < L is
// required, and the cofactored equation [8][S]B = [8]R + [8][k]A decides.

import (
	"bytes"
	"crypto/sha512"
	"fmt"
	"math/big"
	"testing"

	kit "github.com/ChainSafe/gossamer/internal/verifkit"
	ged "github.com/ChainSafe/gossamer/lib/crypto/ed25519"
	"pgregory.net/rapid"
)

const findingEdZip215 = "C29-ed25519-not-zip215"

var (
	edP    = new(big.Int).Sub(new(big.Int).Lsh(big.NewInt(1), 255), big.NewInt(19))
	edL, _ = new(big.Int).SetString("7237005577332262213973186563042994240857116359379907606001950938285454250989", 10) // 2^252 + 27742317777372353535851937790883648493
	edD    = func() *big.Int {
		d := new(big.Int).ModInverse(big.NewInt(121666), edP)
		d.Mul(d, big.NewInt(-121665))
		return d.Mod(d, edP)
	}()
	edD2     = new(big.Int).Mod(new(big.Int).Lsh(edD, 1), edP)
	edSqrtM1 = new(big.Int).Exp(big.NewInt(2), new(big.Int).Rsh(new(big.Int).Sub(edP, big.NewInt(1)), 2), edP)
	edBase   = func() *edPoint {
		// B: y = 4/5, x even
		y := new(big.Int).ModInverse(big.NewInt(5), edP)
		y.Mul(y, big.NewInt(4)).Mod(y, edP)
		var enc [32]byte
		putLE(enc[:], y)
		p, ok := edDecode(enc[:])
		if !ok {
			panic("base point")
		}
		return p
	}()
)

func putLE(dst []byte, v *big.Int) {
	b := v.Bytes()
	for i := range dst {
		dst[i] = 0
	}
	for i := 0; i < len(b) && i < len(dst); i++ {
		dst[i] = b[len(b)-1-i]
	}
}

func fromLE(b []byte) *big.Int {
	r := make([]byte, len(b))
	for i := range b {
		r[len(b)-1-i] = b[i]
	}
	return new(big.Int).SetBytes(r)
}

type edPoint struct{ X, Y, Z, T *big.Int } // extended coordinates, x=X/Z y=Y/Z xy=T/Z

func edIdentity() *edPoint {
	return &edPoint{big.NewInt(0), big.NewInt(1), big.NewInt(1), big.NewInt(0)}
}

var edMask255 = new(big.Int).Sub(new(big.Int).Lsh(big.NewInt(1), 255), big.NewInt(1))
var big19 = big.NewInt(19)

// mulmod is a*b mod p with the 2^255 = 19 folding (a, b may be any integers
// of moderate size, also negative: those take the generic path).
func mulmod(a, b *big.Int) *big.Int {
	r := new(big.Int).Mul(a, b)
	if r.Sign() < 0 {
		return r.Mod(r, edP)
	}
	hi := new(big.Int)
	for r.BitLen() > 255 {
		hi.Rsh(r, 255)
		r.And(r, edMask255)
		r.Add(r, hi.Mul(hi, big19))
	}
	if r.Cmp(edP) >= 0 {
		r.Sub(r, edP)
	}
	return r
}

// edAdd is the unified (complete, a=-1, d non-square) addition
// add-2008-hwcd-3; it is also used for doubling.
func edAdd(p, q *edPoint) *edPoint {
	a := mulmod(subm(p.Y, p.X), subm(q.Y, q.X))
	b := mulmod(new(big.Int).Add(p.Y, p.X), new(big.Int).Add(q.Y, q.X))
	c := mulmod(mulmod(p.T, edD2), q.T)
	d := mulmod(new(big.Int).Lsh(p.Z, 1), q.Z)
	e := subm(b, a)
	f := subm(d, c)
	g := new(big.Int).Add(d, c)
	h := new(big.Int).Add(b, a)
	return &edPoint{mulmod(e, f), mulmod(g, h), mulmod(f, g), mulmod(e, h)}
}

// subm is a - b made non-negative (a, b in [0, p)).
func subm(a, b *big.Int) *big.Int {
	r := new(big.Int).Sub(a, b)
	if r.Sign() < 0 {
		r.Add(r, edP)
	}
	return r
}

func edNeg(p *edPoint) *edPoint {
	return &edPoint{new(big.Int).Mod(new(big.Int).Neg(p.X), edP), p.Y, p.Z, new(big.Int).Mod(new(big.Int).Neg(p.T), edP)}
}

func edMul(k *big.Int, p *edPoint) *edPoint {
	r := edIdentity()
	for i := k.BitLen() - 1; i >= 0; i-- {
		r = edAdd(r, r)
		if k.Bit(i) == 1 {
			r = edAdd(r, p)
		}
	}
	return r
}

// edBasePow[i] = [2^i]B: fixed-base multiplication is a sum over the set bits.
var edBasePow = func() []*edPoint {
	out := make([]*edPoint, 256)
	out[0] = edBase
	for i := 1; i < 256; i++ {
		out[i] = edAdd(out[i-1], out[i-1])
	}
	return out
}()

func edMulBase(k *big.Int) *edPoint {
	if k.Sign() < 0 || k.BitLen() > 256 {
		return edMul(k, edBase)
	}
	r := edIdentity()
	for i := 0; i < k.BitLen(); i++ {
		if k.Bit(i) == 1 {
			r = edAdd(r, edBasePow[i])
		}
	}
	return r
}

func edIsIdentity(p *edPoint) bool {
	return p.X.Sign() == 0 && new(big.Int).Mod(new(big.Int).Sub(p.Y, p.Z), edP).Sign() == 0
}

func edEqual(p, q *edPoint) bool {
	// X1 Z2 == X2 Z1 and Y1 Z2 == Y2 Z1
	return mulmod(p.X, q.Z).Cmp(mulmod(q.X, p.Z)) == 0 && mulmod(p.Y, q.Z).Cmp(mulmod(q.Y, p.Z)) == 0
}

func edAffine(p *edPoint) (x, y *big.Int) {
	zi := new(big.Int).ModInverse(p.Z, edP)
	return mulmod(p.X, zi), mulmod(p.Y, zi)
}

// edEncode is the canonical RFC 8032 encoding.
func edEncode(p *edPoint) []byte {
	x, y := edAffine(p)
	out := make([]byte, 32)
	putLE(out, y)
	out[31] |= byte(x.Bit(0)) << 7
	return out
}

// edDecode decodes the ZIP-215 way: the low 255 bits are y and are NOT
// required to be < p (reduced), x is recovered from the curve equation, the
// sign bit selects the root; x = 0 with the sign bit set is accepted.
func edDecode(b []byte) (*edPoint, bool) {
	if len(b) != 32 {
		return nil, false
	}
	c := append([]byte{}, b...)
	sign := uint(c[31] >> 7)
	c[31] &= 0x7f
	y := fromLE(c)
	y.Mod(y, edP)
	yy := mulmod(y, y)
	u := new(big.Int).Mod(new(big.Int).Sub(yy, big.NewInt(1)), edP)
	v := new(big.Int).Mod(new(big.Int).Add(mulmod(edD, yy), big.NewInt(1)), edP)
	x2 := mulmod(u, new(big.Int).ModInverse(v, edP))
	x := new(big.Int).Exp(x2, new(big.Int).Rsh(new(big.Int).Add(edP, big.NewInt(3)), 3), edP)
	if mulmod(x, x).Cmp(x2) != 0 {
		x = mulmod(x, edSqrtM1)
		if mulmod(x, x).Cmp(x2) != 0 {
			return nil, false
		}
	}
	if x.Bit(0) != sign && x.Sign() != 0 {
		x.Sub(edP, x)
	}
	return &edPoint{x, y, big.NewInt(1), mulmod(x, y)}, true
}

func edChallenge(rb, ab, msg []byte) *big.Int {
	h := sha512.New()
	h.Write(rb)
	h.Write(ab)
	h.Write(msg)
	k := fromLE(h.Sum(nil))
	return k.Mod(k, edL)
}

// refEd evaluates both rules on one triple.
//
// zip215: the reference verdict -- A and R decode (non-canonical accepted),
// S < L, [8]([S]B - R - [k]A) = 0.
//
// strict: RFC 8032 5.1.7 as crypto/ed25519 implements it (cofactorless, R
// compared as canonical bytes, S < L); it only *classifies* cases for the
// known finding, it is never the expected verdict.
func refEd(pub, msg, sig []byte) (zip215, strict bool) {
	if len(pub) != 32 || len(sig) != 64 {
		return false, false
	}
	a, ok := edDecode(pub)
	if !ok {
		return false, false
	}
	s := fromLE(sig[32:])
	if s.Cmp(edL) >= 0 {
		return false, false
	}
	k := edChallenge(sig[:32], pub, msg)
	q := edAdd(edMulBase(s), edNeg(edMul(k, a))) // [S]B - [k]A
	strict = bytes.Equal(edEncode(q), sig[:32])
	r, ok := edDecode(sig[:32])
	if !ok {
		return false, strict
	}
	zip215 = edIsIdentity(edMul(big.NewInt(8), edAdd(q, edNeg(r))))
	return zip215, strict
}

func refZip215(pub, msg, sig []byte) bool {
	z, _ := refEd(pub, msg, sig)
	return z
}

func refStrict(pub, msg, sig []byte) bool {
	_, st := refEd(pub, msg, sig)
	return st
}

// edTorsion is the 8-torsion subgroup T[0]=identity, T[i] = [i]T8.
var edTorsion = func() []*edPoint {
	for yv := int64(2); ; yv++ {
		var enc [32]byte
		putLE(enc[:], big.NewInt(yv))
		p, ok := edDecode(enc[:])
		if !ok {
			continue
		}
		t8 := edMul(edL, p)
		if edIsIdentity(edMul(big.NewInt(4), t8)) {
			continue
		}
		out := []*edPoint{edIdentity()}
		for i := 1; i < 8; i++ {
			out = append(out, edAdd(out[i-1], t8))
		}
		return out
	}
}()

// edSmallOrderEncodings lists every 32-byte string that ZIP-215 decodes to a
// point of the 8-torsion subgroup: the canonical encodings, the encodings
// with y+p where y < 19, and the "x = 0 with sign bit" variants.
var edSmallOrderEncodings = func() [][]byte {
	var out [][]byte
	seen := map[string]bool{}
	add := func(b []byte) {
		if !seen[string(b)] {
			seen[string(b)] = true
			out = append(out, b)
		}
	}
	for _, tp := range edTorsion {
		x, y := edAffine(tp)
		ys := []*big.Int{y}
		if y.Cmp(big.NewInt(19)) < 0 {
			ys = append(ys, new(big.Int).Add(y, edP))
		}
		for _, yy := range ys {
			enc := make([]byte, 32)
			putLE(enc, yy)
			e0 := append([]byte{}, enc...)
			e0[31] |= byte(x.Bit(0)) << 7
			add(e0)
			if x.Sign() == 0 {
				e1 := append([]byte{}, enc...)
				e1[31] |= 0x80
				add(e1)
			}
		}
	}
	return out
}()

func edIsCanonicalEncoding(b []byte) bool {
	p, ok := edDecode(b)
	return ok && bytes.Equal(edEncode(p), b)
}

// edSecret expands a seed as RFC 8032 5.1.5 does.
func edSecret(seed []byte) (a *big.Int, prefix []byte, pub []byte) {
	h := sha512.Sum512(seed)
	h[0] &= 248
	h[31] &= 127
	h[31] |= 64
	a = fromLE(h[:32])
	return a, h[32:], edEncode(edMulBase(a))
}

// edCraft makes (R bytes, S) for secret scalar a and nonce r so that
// [8][S]B = [8]R + [8][k]A holds for the given encodings: S = r + k a.
func edCraft(a, r *big.Int, rb, ab, msg []byte) []byte {
	k := edChallenge(rb, ab, msg)
	s := new(big.Int).Mul(k, a)
	s.Add(s, r).Mod(s, edL)
	sig := make([]byte, 64)
	copy(sig, rb)
	putLE(sig[32:], s)
	return sig
}

func flipBit(b []byte, i int) []byte {
	c := append([]byte{}, b...)
	if len(c) == 0 {
		return c
	}
	i %= len(c) * 8
	c[i/8] ^= 1 << (i % 8)
	return c
}

var edKinds = []string{
	"honest", "honest", "flip-sig", "flip-msg", "flip-pub", "s-plus-L", "torsion-A", "torsion-R", "torsion-both",
	"small-order-A", "small-order-R", "small-order-both", "noncanonical-A-large-order", "off-curve-A", "random",
	"wrong-len-sig", "wrong-len-pub", "zero-sig",
}

// gossamerEdVerdict runs both entry points of lib/crypto/ed25519; they must
// agree with each other.
func gossamerEdVerdict(t *rapid.T, pub, msg, sig []byte) bool {
	v2 := ged.VerifySignature(pub, sig, msg) == nil
	pk, err := ged.NewPublicKey(pub)
	v1 := false
	if err == nil {
		ok, err := pk.Verify(msg, sig)
		v1 = ok && err == nil
		ok2, err2 := ged.Verify(pk, msg, sig)
		if (ok2 && err2 == nil) != v1 {
			t.Fatalf("ed25519.Verify and PublicKey.Verify disagree: pub %x msg %x sig %x", pub, msg, sig)
		}
	}
	if v1 != v2 {
		t.Fatalf("ed25519 PublicKey.Verify=%v but VerifySignature=%v: pub %x msg %x sig %x", v1, v2, pub, msg, sig)
	}
	return v1
}

func genEdCase(t *rapid.T) (kind string, pub, msg, sig []byte) {
	kind = rapid.SampledFrom(edKinds).Draw(t, "kind")
	seed := rapid.SliceOfN(rapid.Byte(), 32, 32).Draw(t, "seed")
	msg = genSigMessage(t)
	a, prefix, pubHonest := edSecret(seed)
	// deterministic RFC 8032 nonce
	h := sha512.New()
	h.Write(prefix)
	h.Write(msg)
	r := fromLE(h.Sum(nil))
	r.Mod(r, edL)
	rb := edEncode(edMulBase(r))
	pub = pubHonest
	sig = edCraft(a, r, rb, pub, msg)

	switch kind {
	case "honest":
		kp, err := ged.NewKeypairFromSeed(seed)
		if err != nil {
			t.Fatalf("NewKeypairFromSeed: %v", err)
		}
		if !bytes.Equal(kp.Public().Encode(), pubHonest) {
			t.Fatalf("seed %x: gossamer public key %x, RFC 8032 derivation %x", seed, kp.Public().Encode(), pubHonest)
		}
		gsig, err := kp.Sign(msg)
		if err != nil {
			t.Fatalf("Sign: %v", err)
		}
		if !bytes.Equal(gsig, sig) {
			t.Fatalf("seed %x msg %x: gossamer signature %x, RFC 8032 signature %x", seed, msg, gsig, sig)
		}
	case "flip-sig":
		sig = flipBit(sig, rapid.IntRange(0, 511).Draw(t, "bit"))
	case "flip-msg":
		if len(msg) == 0 {
			msg = []byte{1}
		} else {
			msg = flipBit(msg, rapid.IntRange(0, len(msg)*8-1).Draw(t, "bit"))
		}
	case "flip-pub":
		pub = flipBit(pub, rapid.IntRange(0, 255).Draw(t, "bit"))
	case "s-plus-L":
		m := rapid.IntRange(1, 15).Draw(t, "m")
		s := fromLE(sig[32:])
		s.Add(s, new(big.Int).Mul(big.NewInt(int64(m)), edL))
		if s.BitLen() > 256 {
			s.Sub(s, edL)
		}
		sig = append([]byte{}, sig...)
		putLE(sig[32:], s)
	case "torsion-A", "torsion-R", "torsion-both":
		ap := edMulBase(a)
		rp := edMulBase(r)
		if kind != "torsion-R" {
			ap = edAdd(ap, edTorsion[rapid.IntRange(1, 7).Draw(t, "ta")])
		}
		if kind != "torsion-A" {
			rp = edAdd(rp, edTorsion[rapid.IntRange(1, 7).Draw(t, "tr")])
		}
		pub = edEncode(ap)
		sig = edCraft(a, r, edEncode(rp), pub, msg)
	case "small-order-A":
		// [8][k]A = 0: any (R = [r]B (+ torsion), S = r) verifies under ZIP-215
		pub = rapid.SampledFrom(edSmallOrderEncodings).Draw(t, "enc")
		rp := edAdd(edMulBase(r), edTorsion[rapid.IntRange(0, 7).Draw(t, "tr")])
		sig = edCraft(big.NewInt(0), r, edEncode(rp), pub, msg)
	case "small-order-R":
		// R of small order (possibly non-canonically encoded), S = k a
		rb2 := rapid.SampledFrom(edSmallOrderEncodings).Draw(t, "enc")
		sig = edCraft(a, big.NewInt(0), rb2, pub, msg)
	case "small-order-both":
		pub = rapid.SampledFrom(edSmallOrderEncodings).Draw(t, "encA")
		rb2 := rapid.SampledFrom(edSmallOrderEncodings).Draw(t, "encR")
		sig = edCraft(big.NewInt(0), big.NewInt(0), rb2, pub, msg)
	case "noncanonical-A-large-order":
		// y + p for y in 0..18: a decodable non-canonical key nobody has the secret of
		yv := rapid.IntRange(0, 18).Draw(t, "y")
		enc := make([]byte, 32)
		putLE(enc, new(big.Int).Add(big.NewInt(int64(yv)), edP))
		enc[31] |= byte(rapid.IntRange(0, 1).Draw(t, "sign")) << 7
		pub = enc
	case "off-curve-A":
		// smallest y >= drawn start whose x^2 is a non-residue
		start := rapid.Int64Range(2, 1<<40).Draw(t, "ystart")
		for {
			enc := make([]byte, 32)
			putLE(enc, big.NewInt(start))
			if _, ok := edDecode(enc); !ok {
				pub = enc
				break
			}
			start++
		}
	case "random":
		pub = rapid.SliceOfN(rapid.Byte(), 32, 32).Draw(t, "rpub")
		sig = rapid.SliceOfN(rapid.Byte(), 64, 64).Draw(t, "rsig")
	case "wrong-len-sig":
		n := rapid.SampledFrom([]int{0, 1, 32, 63, 65, 96, 128}).Draw(t, "siglen")
		long := append(append([]byte{}, sig...), sig...)
		sig = long[:n]
	case "wrong-len-pub":
		n := rapid.SampledFrom([]int{0, 1, 31, 33, 64}).Draw(t, "publen")
		long := append(append([]byte{}, pub...), pub...)
		pub = long[:n]
	case "zero-sig":
		sig = make([]byte, 64)
		if rapid.Bool().Draw(t, "zero-pub") {
			pub = make([]byte, 32)
		}
	}
	// a crafted case is sometimes damaged afterwards, so that each adversarial
	// shape also occurs in a rejected variant
	if kind != "honest" && len(sig) == 64 && rapid.IntRange(0, 5).Draw(t, "damage") == 0 {
		sig = flipBit(sig, rapid.IntRange(0, 511).Draw(t, "dbit"))
		kind += "+damaged"
	}
	return kind, pub, msg, sig
}

// genSigMessage: messages for signature checks (kept shorter than hash messages).
func genSigMessage(t *rapid.T) []byte {
	var n int
	switch rapid.IntRange(0, 5).Draw(t, "msg-lenkind") {
	case 0:
		n = rapid.SampledFrom([]int{0, 1, 31, 32, 33, 63, 64, 65, 127, 128, 129, 256}).Draw(t, "msg-len")
	case 1:
		n = rapid.IntRange(128, 300).Draw(t, "msg-len")
	default:
		n = rapid.IntRange(0, 100).Draw(t, "msg-len")
	}
	return rapid.SliceOfN(rapid.Byte(), n, n).Draw(t, "msg")
}

func edCheckOne(t *rapid.T, kind string, pub, msg, sig []byte) (labels []string, excluded bool) {
	want, strict := refEd(pub, msg, sig)
	if strict && !want {
		t.Fatalf("harness bug: strict accepts but ZIP-215 rejects: pub %x msg %x sig %x", pub, msg, sig)
	}
	got := gossamerEdVerdict(t, pub, msg, sig)
	labels = []string{"ed25519", "ed25519/" + kind}
	if want {
		labels = append(labels, "ed25519/ref-accept")
	} else {
		labels = append(labels, "ed25519/ref-reject")
	}
	if len(pub) == 32 && len(sig) == 64 {
		if !edIsCanonicalEncoding(pub) {
			if _, ok := edDecode(pub); ok {
				labels = append(labels, "ed25519/noncanonical-A")
			}
		}
		if !edIsCanonicalEncoding(sig[:32]) {
			if _, ok := edDecode(sig[:32]); ok {
				labels = append(labels, "ed25519/noncanonical-R")
			}
		}
	}
	if got != want {
		// Trigger class of the known finding: ZIP-215 accepts, the RFC 8032
		// strict cofactorless rule rejects (non-canonical R, or the equation
		// only holds after multiplying by the cofactor), and gossamer rejects.
		if want && !strict && !got && kit.KnownOpen(findingEdZip215) {
			kit.Excluded(findingEdZip215)
			return append(labels, "ed25519/zip215-only(excluded)"), true
		}
		t.Fatalf("ed25519 verdict differs (%s): gossamer %v, ZIP-215 reference %v (RFC 8032-strict: %v)\n pub %x\n msg %x\n sig %x",
			kind, got, want, strict, pub, msg, sig)
	}
	if want && !strict {
		labels = append(labels, "ed25519/zip215-only(agreed)")
	}
	return labels, false
}

// TestC29Ed25519: gossamer's ed25519 verdict equals the ZIP-215 verdict.
func TestC29Ed25519(t *testing.T) {
	defer kit.Flush()
	rapid.Check(t, func(t *rapid.T) {
		kind, pub, msg, sig := genEdCase(t)
		labels, _ := edCheckOne(t, kind, pub, msg, sig)
		kit.Case(fmt.Sprintf("ed25519 %s pub=%x msg=%x sig=%x", kind, pub, msg, sig), kind != "honest" || len(msg) >= 128, labels...)
	})
}

// TestC29EdOracleSelfCheck: the math/big curve and the ZIP-215 verifier are
// validated on RFC 8032 test vectors and on structural facts before use.
func TestC29EdOracleSelfCheck(t *testing.T) {
	defer kit.Flush()
	// RFC 8032 7.1 TEST 1, TEST 2, TEST 3
	vecs := []struct{ seed, pub, msg, sig string }{
		{"9d61b19deffd5a60ba844af492ec2cc44449c5697b326919703bac031cae7f60", "d75a980182b10ab7d54bfed3c964073a0ee172f3daa62325af021a68f707511a", "",
			"e5564300c360ac729086e2cc806e828a84877f1eb8e5d974d873e065224901555fb8821590a33bacc61e39701cf9b46bd25bf5f0595bbe24655141438e7a100b"},
		{"4ccd089b28ff96da9db6c346ec114e0f5b8a319f35aba624da8cf6ed4fb8a6fb", "3d4017c3e843895a92b70aa74d1b7ebc9c982ccf2ec4968cc0cd55f12af4660c", "72",
			"92a009a9f0d4cab8720e820b5f642540a2b27b5416503f8fb3762223ebdb69da085ac1e43e15996e458f3613d0f11d8c387b2eaeb4302aeeb00d291612bb0c00"},
		{"c5aa8df43f9f837bedb7442f31dcb7b166d38535076f094b85ce3a2e0b4458f7", "fc51cd8e6218a1a38da47ed00230f0580816ed13ba3303ac5deb911548908025", "af82",
			"6291d657deec24024827e69c3abe01a30ce548a284743a445e3680d7db5ac3ac18ff9b538d16f290ae67f760984dc6594a7c15e9716ed28dc027beceea1ec40a"},
	}
	for i, v := range vecs {
		seed, pub, msg, sig := mustHex(v.seed), mustHex(v.pub), mustHex(v.msg), mustHex(v.sig)
		a, prefix, gotPub := edSecret(seed)
		if !bytes.Equal(gotPub, pub) {
			t.Fatalf("vector %d: derived pub %x", i, gotPub)
		}
		h := sha512.New()
		h.Write(prefix)
		h.Write(msg)
		r := fromLE(h.Sum(nil))
		r.Mod(r, edL)
		gotSig := edCraft(a, r, edEncode(edMulBase(r)), pub, msg)
		if !bytes.Equal(gotSig, sig) {
			t.Fatalf("vector %d: derived sig %x", i, gotSig)
		}
		if !refZip215(pub, msg, sig) || !refStrict(pub, msg, sig) {
			t.Fatalf("vector %d: reference rejects an RFC 8032 vector", i)
		}
		if refZip215(pub, append(msg, 0), sig) {
			t.Fatalf("vector %d: reference accepts a wrong message", i)
		}
	}
	if !edIsIdentity(edMul(edL, edBase)) || edIsIdentity(edMul(big.NewInt(8), edBase)) {
		t.Fatalf("base point order")
	}
	if !edIsIdentity(edMul(big.NewInt(8), edTorsion[1])) || edIsIdentity(edMul(big.NewInt(4), edTorsion[1])) {
		t.Fatalf("torsion generator order")
	}
	// ZIP-215 lists exactly 8 canonical + 6 non-canonical = 14 encodings of small-order points
	// ... of which the ones with y in {0,1} (+p) and x = 0 sign variants; count what we built:
	for _, e := range edSmallOrderEncodings {
		p, ok := edDecode(e)
		if !ok || !edIsIdentity(edMul(big.NewInt(8), p)) {
			t.Fatalf("small-order encoding %x does not decode to a torsion point", e)
		}
	}
	if len(edSmallOrderEncodings) != 14 {
		t.Fatalf("expected 14 encodings of 8-torsion points (8 canonical, 6 non-canonical), built %d", len(edSmallOrderEncodings))
	}
	kit.Case("ed-oracle-kat", true, "selfcheck")
}
