package c29

import (
	"bytes"
	"fmt"
	"math/big"
	"testing"

	kit "github.com/ChainSafe/gossamer/internal/verifkit"
	ged "github.com/ChainSafe/gossamer/lib/crypto/ed25519"
	gsecp "github.com/ChainSafe/gossamer/lib/crypto/secp256k1"
)

// plainT adapts the rapid-style helpers for deterministic tests: a failure
// inside a helper is a test failure.
func edVerdictPlain(pub, msg, sig []byte) (bool, error) {
	pk, err := ged.NewPublicKey(pub)
	if err != nil {
		return false, nil
	}
	ok, err := pk.Verify(msg, sig)
	if err != nil {
		return false, nil
	}
	if (ged.VerifySignature(pub, sig, msg) == nil) != ok {
		return ok, fmt.Errorf("PublicKey.Verify=%v and VerifySignature disagree", ok)
	}
	return ok, nil
}

// TestC29Vectors: the published ZIP-215 vector set, reconstructed: every
// combination of the 14 encodings of 8-torsion points as A and as R with
// S = 0 is a valid signature on any message under ZIP-215 (196 vectors,
// message "Zcash"); plus fixed secp256k1 edge vectors. Deterministic, no
// generator.
func TestC29Vectors(t *testing.T) {
	defer kit.Flush()
	msg := []byte("Zcash")
	agreed, excluded := 0, 0
	for i, a := range edSmallOrderEncodings {
		for j, r := range edSmallOrderEncodings {
			sig := append(append([]byte{}, r...), make([]byte, 32)...)
			if !refZip215(a, msg, sig) {
				t.Fatalf("harness: ZIP-215 reference rejects small-order vector A#%d R#%d (%x / %x)", i, j, a, r)
			}
			got, err := edVerdictPlain(a, msg, sig)
			if err != nil {
				t.Fatalf("A=%x R=%x: %v", a, r, err)
			}
			strict := refStrict(a, msg, sig)
			switch {
			case got:
				agreed++
			case !strict && kit.KnownOpen(findingEdZip215):
				kit.Excluded(findingEdZip215)
				excluded++
			default:
				t.Errorf("ZIP-215 vector A=%x R=%x S=0 msg=%q: ZIP-215 accepts, gossamer rejects (RFC 8032-strict: %v)", a, r, msg, strict)
			}
			kit.Case(fmt.Sprintf("zip215-vector A=%x R=%x", a, r), true, "ed25519/zip215-vector")
		}
	}
	t.Logf("ZIP-215 small-order vectors: %d agreed, %d excluded by %s", agreed, excluded, findingEdZip215)

	// secp256k1: r = n-? / s range edges on a fixed key, via the same reference comparison
	seed := bytes.Repeat([]byte{0x11}, 32)
	gpriv, err := gsecp.NewPrivateKey(seed)
	if err != nil {
		t.Fatal(err)
	}
	kp, err := gsecp.NewKeypairFromPrivate(gpriv)
	if err != nil {
		t.Fatal(err)
	}
	digest := refBlake2b(32, []byte("C29 fixed vector"))
	sig, err := kp.Sign(digest)
	if err != nil {
		t.Fatal(err)
	}
	pub := kp.Public().Encode()
	if !refSecpVerify(pub, digest, sig[:64]) {
		t.Fatalf("reference rejects gossamer's signature %x", sig)
	}
	if pk := refSecpRecover(digest, sig); pk == nil || !bytes.Equal(pk.SerializeCompressed(), pub) {
		t.Fatalf("reference does not recover the signer from %x", sig)
	}
	for v := 0; v < 256; v++ { // every recovery byte
		s2 := append([]byte{}, sig...)
		s2[64] = byte(v)
		ref := refSecpRecover(digest, s2)
		got, err := gsecp.RecoverPublicKeyCompressed(digest, append([]byte{}, s2...))
		if (ref == nil) != (err != nil) || (ref != nil && !bytes.Equal(ref.SerializeCompressed(), got)) {
			t.Errorf("recovery byte %d: reference %v, gossamer %x err %v", v, ref != nil, got, err)
		}
		kit.Case(fmt.Sprintf("secp-recid-%d", v), true, "secp256k1/recid-sweep")
	}
}

// TestC29KnownEdZip215 is the witness of C29-ed25519-not-zip215.
// Recorded input: A = the canonical identity encoding, R = the non-canonical
// identity encoding with the sign bit set on x = 0, S = 0, message "Zcash".
func TestC29KnownEdZip215(t *testing.T) {
	defer kit.Flush()
	pub := mustHex("0100000000000000000000000000000000000000000000000000000000000000")
	sig := append(mustHex("0100000000000000000000000000000000000000000000000000000000000080"), make([]byte, 32)...)
	msg := []byte("Zcash")
	if !refZip215(pub, msg, sig) {
		t.Fatalf("harness: reference no longer accepts the recorded vector")
	}
	if refStrict(pub, msg, sig) {
		t.Fatalf("harness: recorded vector is not in the trigger class (strict accepts)")
	}
	got, err := edVerdictPlain(pub, msg, sig)
	if err != nil {
		t.Fatalf("different failure: %v", err)
	}
	// second recorded input: honest key plus an order-8 torsion component (cofactored-only validity)
	seed := bytes.Repeat([]byte{0x42}, 32)
	a, _, _ := edSecret(seed)
	ap := edAdd(edMulBase(a), edTorsion[1])
	pub2 := edEncode(ap)
	msg2 := []byte("C29 torsion witness")
	r := big.NewInt(123456789)
	sig2 := edCraft(a, r, edEncode(edMulBase(r)), pub2, msg2)
	if !refZip215(pub2, msg2, sig2) || refStrict(pub2, msg2, sig2) {
		t.Fatalf("harness: second recorded vector not ZIP-215-only")
	}
	got2, err := edVerdictPlain(pub2, msg2, sig2)
	if err != nil {
		t.Fatalf("different failure: %v", err)
	}
	switch {
	case !got && !got2:
		kit.WitnessResult(findingEdZip215, true, fmt.Sprintf("rejects ZIP-215-valid pub=%x sig=%x msg=%q and pub=%x sig=%x msg=%q", pub, sig, msg, pub2, sig2, msg2))
	case got && got2:
		kit.WitnessResult(findingEdZip215, false, "")
	default:
		t.Fatalf("witness changed shape: non-canonical-R vector accepted=%v, torsion-A vector accepted=%v", got, got2)
	}
}

// TestC29KnownSecpHighS is the witness of C29-secp256k1-verify-rejects-high-s.
// Recorded input: key 0x11..11, digest BLAKE2b-256("C29 fixed vector"),
// gossamer's own signature with s replaced by n - s.
func TestC29KnownSecpHighS(t *testing.T) {
	defer kit.Flush()
	seed := bytes.Repeat([]byte{0x11}, 32)
	gpriv, err := gsecp.NewPrivateKey(seed)
	if err != nil {
		t.Fatal(err)
	}
	kp, err := gsecp.NewKeypairFromPrivate(gpriv)
	if err != nil {
		t.Fatal(err)
	}
	digest := refBlake2b(32, []byte("C29 fixed vector"))
	sig, err := kp.Sign(digest)
	if err != nil {
		t.Fatal(err)
	}
	pub := kp.Public().Encode()
	low := append([]byte{}, sig[:64]...)
	high := append([]byte{}, sig[:64]...)
	copy(high[32:], be32(new(big.Int).Sub(secpN, new(big.Int).SetBytes(sig[32:64]))))
	if !refSecpVerify(pub, digest, low) || !refSecpVerify(pub, digest, high) {
		t.Fatalf("harness: reference rejects the recorded pair")
	}
	// Substrate's rule spelled out: some recovery id recovers the signer from (r, n-s)
	rec := false
	for v := byte(0); v < 4; v++ {
		if pk := refSecpRecover(digest, append(append([]byte{}, high...), v)); pk != nil && bytes.Equal(pk.SerializeCompressed(), pub) {
			rec = true
		}
	}
	if !rec {
		t.Fatalf("harness: no recovery id recovers the signer from the high-s signature")
	}
	pk := new(gsecp.PublicKey)
	if err := pk.Decode(pub); err != nil {
		t.Fatalf("different failure: Decode: %v", err)
	}
	okLow, err := pk.Verify(digest, low)
	if err != nil || !okLow {
		t.Fatalf("different failure: the low-s signature is rejected: %v %v", okLow, err)
	}
	okHigh, err := pk.Verify(digest, high)
	if err != nil {
		t.Fatalf("different failure: %v", err)
	}
	if okHigh {
		kit.WitnessResult(findingSecpHighS, false, "")
		return
	}
	// the same (r, n-s) is accepted by gossamer's own recovery, which is the inconsistency
	got, err := gsecp.RecoverPublicKeyCompressed(digest, append(append([]byte{}, high...), sig[64]^1))
	if err != nil || !bytes.Equal(got, pub) {
		t.Fatalf("different failure: recovery from the high-s signature: %x %v", got, err)
	}
	kit.WitnessResult(findingSecpHighS, true, fmt.Sprintf("PublicKey.Verify rejects pub=%x digest=%x sig=%x although recovery with v=%d returns that key", pub, digest, high, sig[64]^1))
}
