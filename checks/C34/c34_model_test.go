package transaction

// Reference model of C34, written from the property statement: the queue
// yields the highest-priority transaction first and, among equal priorities,
// the earliest inserted; a transaction that is already queued is refused; a
// transaction leaves the queue once (by a pop or a removal). The model is a
// plain list in insertion order; it shares no code with priority_queue.go
// (no heap, no index bookkeeping).

import (
	"fmt"
	"math"
	"strings"

	"github.com/ChainSafe/gossamer/dot/types"
	kit "github.com/ChainSafe/gossamer/internal/verifkit"
)

// priorities: a 3-value set so that ties are common; one value above MaxInt64
// so that a signed comparison would be noticed.
var c34Priorities = []uint64{0, 7, math.MaxUint64 - 3}

// extrinsic universe (index -> bytes); includes the empty extrinsic and two
// extrinsics where one is a prefix of the other.
var c34Exts = []types.Extrinsic{
	{},
	{0x01},
	{0x01, 0x00},
	{0xff, 0xfe, 0xfd, 0xfc},
	{0x02, 0x02, 0x02, 0x02, 0x02, 0x02, 0x02, 0x02, 0x02, 0x02, 0x02, 0x02, 0x02, 0x02, 0x02, 0x02, 0x02, 0x02, 0x02, 0x02, 0x02, 0x02, 0x02, 0x02, 0x02, 0x02, 0x02, 0x02, 0x02, 0x02, 0x02, 0x02, 0x02},
	{0x00},
}

// specHash is the extrinsic hash from the spec (BLAKE2b-256 of the bytes), independent of lib/common.
func specHash(x int) [32]byte { return kit.Blake256(c34Exts[x]) }

type qEnt struct {
	x    int // extrinsic index
	prio int // index into c34Priorities
	id   int // identity of the Push call that inserted it
}

type qModel struct {
	ents []qEnt // insertion order
}

func (m *qModel) find(x int) int {
	for i, e := range m.ents {
		if e.x == x {
			return i
		}
	}
	return -1
}

// push returns false when the transaction is refused as a duplicate.
func (m *qModel) push(x, prio, id int) bool {
	if m.find(x) >= 0 {
		return false
	}
	m.ents = append(m.ents, qEnt{x, prio, id})
	return true
}

// top returns the index of the entry to yield next (-1 when empty) and how many entries share its priority.
func (m *qModel) top() (idx int, ties int) {
	idx = -1
	for i, e := range m.ents {
		switch {
		case idx < 0 || c34Priorities[e.prio] > c34Priorities[m.ents[idx].prio]:
			idx, ties = i, 1
		case c34Priorities[e.prio] == c34Priorities[m.ents[idx].prio]:
			ties++ // earlier inserted entry stays
		}
	}
	return idx, ties
}

func (m *qModel) removeAt(i int) {
	m.ents = append(m.ents[:i:i], m.ents[i+1:]...)
}

func (m *qModel) clone() *qModel {
	return &qModel{ents: append([]qEnt(nil), m.ents...)}
}

func (m *qModel) describe() string {
	var b strings.Builder
	b.WriteString("[")
	for i, e := range m.ents {
		if i > 0 {
			b.WriteString(" ")
		}
		fmt.Fprintf(&b, "x%d/p%d#%d", e.x, e.prio, e.id)
	}
	b.WriteString("]")
	return b.String()
}
