package transaction

// C34 (sequential part): rapid op lists on one PriorityQueue compared step by
// step with the sorted-list model of c34_model_test.go.

import (
	"errors"
	"fmt"
	"sort"
	"strings"
	"testing"
	"time"

	kit "github.com/ChainSafe/gossamer/internal/verifkit"
	"github.com/ChainSafe/gossamer/lib/common"
	"pgregory.net/rapid"
)

const seqRule = "sequential: 1-60 ops (Push with a priority from a 3-value set over a universe of 2-6 extrinsics so duplicates and ties are common, Pop, PopWithTimer(expired), Peek, RemoveExtrinsic, Exists, Pending, Len) " +
	"on one queue; every result (returned transaction identity, refusal, hash, membership, length, pending set) is compared with an insertion-ordered list model, then the queue is drained and the order compared; " +
	"non-trivial = at least one yield (Pop/Peek/drain) decided by insertion order among >= 2 entries of the top priority after at least one entry had left the queue by Pop or removal; distinct by op list"

func closedTimer() <-chan time.Time {
	ch := make(chan time.Time)
	close(ch)
	return ch
}

func TestC34Sequential(t *testing.T) {
	defer kit.Flush()
	kit.Note("rule", seqRule)
	expired := closedTimer()
	rapid.Check(t, func(rt *rapid.T) {
		universe := rapid.IntRange(2, len(c34Exts)).Draw(rt, "universe")
		n := rapid.IntRange(1, 60).Draw(rt, "n")
		q := NewPriorityQueue()
		m := &qModel{}
		txOf := map[*ValidTransaction]int{} // pushed object -> push id
		labels := map[string]bool{}
		var descr strings.Builder
		fmt.Fprintf(&descr, "u=%d", universe)
		left := map[int]bool{} // extrinsics that left the queue at least once
		someoneLeft := false
		nontrivial := false
		maxLen := 0

		ident := func(ctx string, tx *ValidTransaction) int {
			if tx == nil {
				return -1
			}
			id, ok := txOf[tx]
			if !ok {
				rt.Fatalf("%s: returned a transaction object that was never pushed", ctx)
			}
			return id
		}
		checkYield := func(ctx string, got *ValidTransaction, remove bool) {
			idx, ties := m.top()
			want := -1
			if idx >= 0 {
				want = m.ents[idx].id
			}
			if g := ident(ctx, got); g != want {
				rt.Fatalf("%s: yielded push#%d, model expects push#%d; model queue (insertion order) %s", ctx, g, want, m.describe())
			}
			if idx < 0 {
				labels["yield-on-empty"] = true
				return
			}
			if ties >= 2 {
				labels["yield-with-tie"] = true
				if someoneLeft {
					nontrivial = true
				}
			}
			if remove {
				left[m.ents[idx].x] = true
				someoneLeft = true
				m.removeAt(idx)
			}
		}

		for i := 0; i < n; i++ {
			kind := rapid.IntRange(0, 99).Draw(rt, "kind")
			ctx := func(op string) string { return fmt.Sprintf("step %d (%s) of [%s]", i, op, descr.String()) }
			switch {
			case kind < 36: // Push
				x := rapid.IntRange(0, universe-1).Draw(rt, "x")
				p := rapid.IntRange(0, len(c34Priorities)-1).Draw(rt, "prio")
				fmt.Fprintf(&descr, " Push(x%d,p%d)#%d", x, p, i)
				tx := NewValidTransaction(c34Exts[x], &Validity{Priority: c34Priorities[p]})
				txOf[tx] = i
				h, err := q.Push(tx)
				if h != common.Hash(specHash(x)) {
					rt.Fatalf("%s: returned hash %s is not BLAKE2b-256 of the extrinsic", ctx("Push"), h)
				}
				accepted := m.push(x, p, i)
				if accepted && err != nil {
					rt.Fatalf("%s: refused (%v) although the transaction is not queued; model %s", ctx("Push"), err, m.describe())
				}
				if !accepted {
					labels["push-duplicate"] = true
					if !errors.Is(err, ErrTransactionExists) {
						rt.Fatalf("%s: duplicate accepted (err=%v); model %s", ctx("Push"), err, m.describe())
					}
				} else if left[x] {
					labels["repush-after-leaving"] = true
				}
			case kind < 54: // Pop
				descr.WriteString(" Pop")
				checkYield(ctx("Pop"), q.Pop(), true)
			case kind < 58: // PopWithTimer with an expired timer: returns like Pop
				descr.WriteString(" PopT")
				if len(m.ents) == 0 {
					labels["popwithtimer-empty"] = true
				}
				checkYield(ctx("PopWithTimer"), q.PopWithTimer(expired), true)
			case kind < 66: // Peek
				descr.WriteString(" Peek")
				checkYield(ctx("Peek"), q.Peek(), false)
			case kind < 80: // RemoveExtrinsic
				x := rapid.IntRange(0, universe-1).Draw(rt, "x")
				fmt.Fprintf(&descr, " Rm(x%d)", x)
				q.RemoveExtrinsic(c34Exts[x])
				if j := m.find(x); j >= 0 {
					labels["remove-hit"] = true
					top, _ := m.top()
					if j != top && len(m.ents) >= 3 {
						labels["remove-not-top"] = true
					}
					left[x] = true
					someoneLeft = true
					m.removeAt(j)
				} else {
					labels["remove-miss"] = true
				}
			case kind < 90: // Exists
				x := rapid.IntRange(0, universe-1).Draw(rt, "x")
				fmt.Fprintf(&descr, " Ex(x%d)", x)
				want := m.find(x) >= 0
				if got := q.Exists(common.Hash(specHash(x))); got != want {
					rt.Fatalf("%s: Exists = %v, model %v; model %s", ctx("Exists"), got, want, m.describe())
				}
				if !want && left[x] {
					labels["exists-false-after-leaving"] = true
				}
			case kind < 95: // Pending
				descr.WriteString(" Pend")
				var got, want []int
				for _, tx := range q.Pending() {
					got = append(got, ident(ctx("Pending"), tx))
				}
				for _, e := range m.ents {
					want = append(want, e.id)
				}
				sort.Ints(got)
				sort.Ints(want)
				if fmt.Sprint(got) != fmt.Sprint(want) {
					rt.Fatalf("%s: pending set %v, model %v", ctx("Pending"), got, want)
				}
				if len(want) >= 2 {
					labels["pending>=2"] = true
				}
			default:
				descr.WriteString(" Len")
			}
			// Len and the membership table agree with the model after every step
			if got := q.Len(); got != len(m.ents) {
				rt.Fatalf("after step %d of [%s]: Len = %d, model %d %s", i, descr.String(), got, len(m.ents), m.describe())
			}
			if len(q.txs) != len(m.ents) {
				rt.Fatalf("after step %d of [%s]: membership table has %d entries, model %d %s", i, descr.String(), len(q.txs), len(m.ents), m.describe())
			}
			if len(m.ents) > maxLen {
				maxLen = len(m.ents)
			}
		}
		// drain: the complete yield order
		descr.WriteString(" Drain")
		for k := 0; len(m.ents) > 0; k++ {
			checkYield(fmt.Sprintf("drain pop %d of [%s]", k, descr.String()), q.Pop(), true)
		}
		if tx := q.Pop(); tx != nil {
			rt.Fatalf("[%s]: Pop on the drained queue returned push#%d", descr.String(), ident("drain", tx))
		}
		for x := 0; x < universe; x++ {
			if q.Exists(common.Hash(specHash(x))) {
				rt.Fatalf("[%s]: Exists(x%d) is true on the drained queue", descr.String(), x)
			}
		}
		if maxLen >= 4 {
			labels["len>=4"] = true
		}
		var ls []string
		for l := range labels {
			ls = append(ls, l)
		}
		kit.Case(descr.String(), nontrivial, ls...)
	})
}
