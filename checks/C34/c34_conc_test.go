//go:build race

package transaction

// C34 (concurrent part, built with -race): 2-6 goroutines, each with a
// rapid-generated op list on one PriorityQueue, started together.
//
//   - logged phase: every call is logged with invoke/return ticks taken from
//     one atomic counter; the history (<= 60 operations) must be linearizable
//     with respect to the list model (porcupine). Repeated several times per
//     case on a fresh queue (each repetition is another sampled schedule).
//   - hammer phase: the same lists are cycled several hundred operations per
//     goroutine on one queue WITHOUT logging (the shared tick counter adds
//     happens-before edges that would hide an unsynchronised access from the
//     race detector unless the calls overlap exactly); oracle: no race report,
//     no panic, and schedule-independent conservation facts: every yielded
//     object was pushed successfully, is yielded at most once, a Pending
//     snapshot never holds one extrinsic twice, the final drain is ordered.
//
// Only calls that return are generated: Pop returns nil on an empty queue;
// PopWithTimer (which polls) is exercised in the sequential part only.
// Schedules are sampled, not enumerated. The op lists are the replayable unit.

import (
	"fmt"
	"os"
	"runtime"
	"sort"
	"strconv"
	"strings"
	"sync"
	"sync/atomic"
	"testing"
	"time"

	kit "github.com/ChainSafe/gossamer/internal/verifkit"
	"github.com/ChainSafe/gossamer/lib/common"
	"github.com/anishathalye/porcupine"
	"pgregory.net/rapid"
)

const concRule = "concurrent (-race build): 2-6 goroutines with generated lists of Push/Pop/Peek/RemoveExtrinsic/Exists/Len/Pending over 2-5 extrinsics and 3 priorities (<= 60 ops in total), " +
	"run logged (invoke/return ticks, porcupine linearizability vs the list model) several times and then cycled unlogged 400 ops per goroutine under the race detector; " +
	"schedules are sampled, not enumerated; non-trivial = in at least one logged run two operations of different goroutines on the same extrinsic (or a yield and a push) overlap in time; distinct by per-goroutine op lists"

type opKind int

const (
	opPush opKind = iota
	opPop
	opPeek
	opRemove
	opExists
	opLen
	opPending
)

type cop struct {
	kind opKind
	x    int // extrinsic index (Push, Remove, Exists)
	prio int // priority index (Push)
	id   int // unique id of a Push call within the case
}

func (o cop) String() string {
	switch o.kind {
	case opPush:
		return fmt.Sprintf("Push(x%d,p%d)#%d", o.x, o.prio, o.id)
	case opPop:
		return "Pop"
	case opPeek:
		return "Peek"
	case opRemove:
		return fmt.Sprintf("Rm(x%d)", o.x)
	case opExists:
		return fmt.Sprintf("Ex(x%d)", o.x)
	case opLen:
		return "Len"
	}
	return "Pend"
}

// cout is the observed result of one call (comparable, so porcupine can carry it around).
type cout struct {
	refused bool   // Push
	id      int    // Pop/Peek: push id of the yielded object, -1 for nil
	b       bool   // Exists
	n       int    // Len
	set     string // Pending: sorted push ids
}

func (o cop) describeOut(out cout) string {
	switch o.kind {
	case opPush:
		if out.refused {
			return o.String() + " -> refused"
		}
		return o.String() + " -> ok"
	case opPop, opPeek:
		if out.id < 0 {
			return o.String() + " -> nil"
		}
		return fmt.Sprintf("%s -> #%d", o, out.id)
	case opExists:
		return fmt.Sprintf("%s -> %v", o, out.b)
	case opLen:
		return fmt.Sprintf("%s -> %d", o, out.n)
	case opPending:
		return fmt.Sprintf("%s -> {%s}", o, out.set)
	}
	return o.String()
}

func describeLists(lists [][]cop) string {
	var b strings.Builder
	for g, l := range lists {
		if g > 0 {
			b.WriteString(" | ")
		}
		fmt.Fprintf(&b, "g%d:", g)
		for _, o := range l {
			b.WriteString(" " + o.String())
		}
	}
	return b.String()
}

func envInt(name string, def int) int {
	if s := os.Getenv(name); s != "" {
		if n, err := strconv.Atoi(s); err == nil && n > 0 {
			return n
		}
	}
	return def
}

func ensureProcs() {
	if runtime.GOMAXPROCS(0) < 4 {
		runtime.GOMAXPROCS(4)
	}
}

type spinBarrier struct {
	n       int32
	arrived atomic.Int32
}

func (b *spinBarrier) wait() {
	b.arrived.Add(1)
	for i := 0; b.arrived.Load() < b.n; i++ {
		if i%64 == 63 {
			runtime.Gosched()
		}
	}
}

type histOp struct {
	g         int
	op        cop
	out       cout
	call, ret int64
}

func idsString(ids []int) string {
	sort.Ints(ids)
	var b strings.Builder
	for i, id := range ids {
		if i > 0 {
			b.WriteString(",")
		}
		b.WriteString(strconv.Itoa(id))
	}
	return b.String()
}

// runLogged executes the lists once on a fresh queue and returns the history.
func runLogged(lists [][]cop) (hist []histOp, problem string) {
	q := NewPriorityQueue()
	// one transaction object per Push call, created before the start; the maps are read-only while the goroutines run
	txs := map[int]*ValidTransaction{}
	idOf := map[*ValidTransaction]int{}
	for _, l := range lists {
		for _, o := range l {
			if o.kind == opPush {
				tx := NewValidTransaction(c34Exts[o.x], &Validity{Priority: c34Priorities[o.prio]})
				txs[o.id] = tx
				idOf[tx] = o.id
			}
		}
	}
	hashes := make([]common.Hash, len(c34Exts))
	for x := range c34Exts {
		hashes[x] = common.Hash(specHash(x))
	}
	var tick atomic.Int64
	per := make([][]histOp, len(lists))
	problems := make([]string, len(lists))
	bar := &spinBarrier{n: int32(len(lists))}
	var wg sync.WaitGroup
	for g := range lists {
		wg.Add(1)
		go func(g int) {
			defer wg.Done()
			defer func() {
				if r := recover(); r != nil {
					problems[g] = fmt.Sprintf("goroutine %d panicked: %v", g, r)
				}
			}()
			ident := func(tx *ValidTransaction) int {
				if tx == nil {
					return -1
				}
				id, ok := idOf[tx]
				if !ok {
					problems[g] = fmt.Sprintf("goroutine %d received a transaction object that was never pushed", g)
					return -2
				}
				return id
			}
			mine := make([]histOp, 0, len(lists[g]))
			bar.wait()
			for _, o := range lists[g] {
				h := histOp{g: g, op: o}
				switch o.kind {
				case opPush:
					tx := txs[o.id]
					h.call = tick.Add(1)
					hash, err := q.Push(tx)
					h.ret = tick.Add(1)
					h.out.refused = err != nil
					if hash != hashes[o.x] {
						problems[g] = fmt.Sprintf("goroutine %d: %s returned hash %s", g, o, hash)
					}
				case opPop:
					h.call = tick.Add(1)
					tx := q.Pop()
					h.ret = tick.Add(1)
					h.out.id = ident(tx)
				case opPeek:
					h.call = tick.Add(1)
					tx := q.Peek()
					h.ret = tick.Add(1)
					h.out.id = ident(tx)
				case opRemove:
					h.call = tick.Add(1)
					q.RemoveExtrinsic(c34Exts[o.x])
					h.ret = tick.Add(1)
				case opExists:
					h.call = tick.Add(1)
					b := q.Exists(hashes[o.x])
					h.ret = tick.Add(1)
					h.out.b = b
				case opLen:
					h.call = tick.Add(1)
					n := q.Len()
					h.ret = tick.Add(1)
					h.out.n = n
				case opPending:
					h.call = tick.Add(1)
					p := q.Pending()
					h.ret = tick.Add(1)
					ids := make([]int, 0, len(p))
					for _, tx := range p {
						ids = append(ids, ident(tx))
					}
					h.out.set = idsString(ids)
				}
				mine = append(mine, h)
			}
			per[g] = mine
		}(g)
	}
	wg.Wait()
	for _, p := range per {
		hist = append(hist, p...)
	}
	for _, p := range problems {
		if p != "" {
			return hist, p
		}
	}
	return hist, ""
}

var queuePorcupineModel = porcupine.Model{
	Init: func() interface{} { return &qModel{} },
	Step: func(state, input, output interface{}) (bool, interface{}) {
		m := state.(*qModel)
		o := input.(cop)
		out := output.(cout)
		switch o.kind {
		case opPush:
			if m.find(o.x) >= 0 {
				return out.refused, m
			}
			if out.refused {
				return false, m
			}
			n := m.clone()
			n.push(o.x, o.prio, o.id)
			return true, n
		case opPop:
			idx, _ := m.top()
			if idx < 0 {
				return out.id == -1, m
			}
			if out.id != m.ents[idx].id {
				return false, m
			}
			n := m.clone()
			n.removeAt(idx)
			return true, n
		case opPeek:
			idx, _ := m.top()
			if idx < 0 {
				return out.id == -1, m
			}
			return out.id == m.ents[idx].id, m
		case opRemove:
			j := m.find(o.x)
			if j < 0 {
				return true, m
			}
			n := m.clone()
			n.removeAt(j)
			return true, n
		case opExists:
			return out.b == (m.find(o.x) >= 0), m
		case opLen:
			return out.n == len(m.ents), m
		default: // Pending
			ids := make([]int, 0, len(m.ents))
			for _, e := range m.ents {
				ids = append(ids, e.id)
			}
			return out.set == idsString(ids), m
		}
	},
	Equal: func(a, b interface{}) bool {
		x, y := a.(*qModel), b.(*qModel)
		if len(x.ents) != len(y.ents) {
			return false
		}
		for i := range x.ents {
			if x.ents[i] != y.ents[i] {
				return false
			}
		}
		return true
	},
	DescribeOperation: func(input, output interface{}) string {
		return input.(cop).describeOut(output.(cout))
	},
}

func formatHistory(hist []histOp) string {
	var b strings.Builder
	for _, h := range hist {
		fmt.Fprintf(&b, "  g%d [%3d,%3d] %s\n", h.g, h.call, h.ret, h.op.describeOut(h.out))
	}
	return b.String()
}

// contended reports whether two operations of different goroutines that
// concern the same extrinsic (or a yield and a push) overlap in time, and whether anything overlaps.
func contended(hist []histOp) (same, any bool) {
	touches := func(o cop) (x int, yield bool) {
		switch o.kind {
		case opPush, opRemove, opExists:
			return o.x, false
		case opPop, opPeek:
			return -1, true
		}
		return -2, false
	}
	for i := range hist {
		for j := i + 1; j < len(hist); j++ {
			a, b := hist[i], hist[j]
			if a.g == b.g || !(a.call < b.ret && b.call < a.ret) {
				continue
			}
			any = true
			xa, ya := touches(a.op)
			xb, yb := touches(b.op)
			if (xa >= 0 && xa == xb) || (ya && b.op.kind == opPush) || (yb && a.op.kind == opPush) {
				return true, true
			}
		}
	}
	return false, any
}

type pushRec struct {
	tx   *ValidTransaction
	x    int
	prio int
	g    int
	seq  int
	ok   bool
}

// hammer cycles the lists on one queue, opsPerG operations per goroutine, no logging.
func hammer(lists [][]cop, opsPerG int) string {
	q := NewPriorityQueue()
	hashes := make([]common.Hash, len(c34Exts))
	for x := range c34Exts {
		hashes[x] = common.Hash(specHash(x))
	}
	ng := len(lists)
	pushes := make([][]pushRec, ng)
	popped := make([][]*ValidTransaction, ng)
	seen := make([][]*ValidTransaction, ng) // Peek results and Pending members
	problems := make([]string, ng)
	bar := &spinBarrier{n: int32(ng)}
	var wg sync.WaitGroup
	for g := range lists {
		wg.Add(1)
		go func(g int) {
			defer wg.Done()
			defer func() {
				if r := recover(); r != nil {
					problems[g] = fmt.Sprintf("goroutine %d panicked: %v", g, r)
				}
			}()
			l := lists[g]
			bar.wait()
			for i := 0; i < opsPerG; i++ {
				o := l[i%len(l)]
				switch o.kind {
				case opPush:
					tx := NewValidTransaction(c34Exts[o.x], &Validity{Priority: c34Priorities[o.prio]})
					_, err := q.Push(tx)
					pushes[g] = append(pushes[g], pushRec{tx: tx, x: o.x, prio: o.prio, g: g, seq: len(pushes[g]), ok: err == nil})
				case opPop:
					if tx := q.Pop(); tx != nil {
						popped[g] = append(popped[g], tx)
					}
				case opPeek:
					if tx := q.Peek(); tx != nil {
						seen[g] = append(seen[g], tx)
					}
				case opRemove:
					q.RemoveExtrinsic(c34Exts[o.x])
				case opExists:
					_ = q.Exists(hashes[o.x])
				case opLen:
					if n := q.Len(); n < 0 || n > len(c34Exts) {
						problems[g] = fmt.Sprintf("goroutine %d: Len = %d with %d distinct extrinsics", g, n, len(c34Exts))
						return
					}
				case opPending:
					p := q.Pending()
					var xs [8]int
					for _, tx := range p {
						seen[g] = append(seen[g], tx)
						for x := range c34Exts {
							if string(tx.Extrinsic) == string(c34Exts[x]) {
								xs[x]++
								if xs[x] > 1 {
									problems[g] = fmt.Sprintf("goroutine %d: a Pending snapshot holds extrinsic x%d twice", g, x)
									return
								}
							}
						}
					}
				}
			}
		}(g)
	}
	wg.Wait()
	for _, p := range problems {
		if p != "" {
			return p
		}
	}
	// conservation, judged at quiescence
	rec := map[*ValidTransaction]*pushRec{}
	for g := range pushes {
		for i := range pushes[g] {
			if pushes[g][i].ok {
				rec[pushes[g][i].tx] = &pushes[g][i]
			}
		}
	}
	gone := map[*ValidTransaction]bool{}
	for g := range popped {
		for _, tx := range popped[g] {
			if rec[tx] == nil {
				return "a Pop yielded a transaction object whose Push was refused or never happened"
			}
			if gone[tx] {
				r := rec[tx]
				return fmt.Sprintf("the transaction pushed by goroutine %d (its push %d, x%d) was yielded by two Pops", r.g, r.seq, r.x)
			}
			gone[tx] = true
		}
	}
	for g := range seen {
		for _, tx := range seen[g] {
			if rec[tx] == nil {
				return "Peek/Pending showed a transaction object whose Push was refused or never happened"
			}
		}
	}
	if n, k := q.Len(), len(q.txs); n != k {
		return fmt.Sprintf("at quiescence Len = %d but the membership table has %d entries", n, k)
	}
	var drained []*pushRec
	for {
		tx := q.Pop()
		if tx == nil {
			break
		}
		r := rec[tx]
		if r == nil {
			return "the final drain yielded a transaction object whose Push was refused or never happened"
		}
		if gone[tx] {
			return fmt.Sprintf("the transaction pushed by goroutine %d (its push %d, x%d) was yielded twice (Pop and final drain)", r.g, r.seq, r.x)
		}
		gone[tx] = true
		drained = append(drained, r)
		if len(drained) > len(c34Exts) {
			return "the quiescent queue held more entries than there are distinct extrinsics (duplicate accepted)"
		}
	}
	for i := 1; i < len(drained); i++ {
		a, b := drained[i-1], drained[i]
		if c34Priorities[a.prio] < c34Priorities[b.prio] {
			return fmt.Sprintf("final drain out of priority order: p%d before p%d", a.prio, b.prio)
		}
		if a.prio == b.prio && a.g == b.g && a.seq > b.seq {
			return fmt.Sprintf("final drain: equal priority, goroutine %d's push %d yielded before its earlier push %d", a.g, a.seq, b.seq)
		}
	}
	for i := range drained {
		for j := i + 1; j < len(drained); j++ {
			if drained[i].x == drained[j].x {
				return fmt.Sprintf("the quiescent queue held extrinsic x%d twice (duplicate accepted)", drained[i].x)
			}
		}
	}
	removable := map[int]bool{}
	for _, l := range lists {
		for _, o := range l {
			if o.kind == opRemove {
				removable[o.x] = true
			}
		}
	}
	for tx, r := range rec {
		if !gone[tx] && !removable[r.x] {
			return fmt.Sprintf("the transaction pushed by goroutine %d (its push %d, x%d) vanished: never yielded, never drained, and nobody removes x%d", r.g, r.seq, r.x, r.x)
		}
	}
	if q.Len() != 0 || len(q.txs) != 0 {
		return fmt.Sprintf("after the final drain Len = %d, membership table %d", q.Len(), len(q.txs))
	}
	for x := range c34Exts {
		if q.Exists(hashes[x]) {
			return fmt.Sprintf("after the final drain Exists(x%d) is true", x)
		}
	}
	return ""
}

func genLists(rt *rapid.T) (universe int, lists [][]cop) {
	universe = rapid.IntRange(2, 5).Draw(rt, "universe")
	ng := rapid.IntRange(2, 6).Draw(rt, "goroutines")
	maxPer := 60 / ng
	if maxPer > 14 {
		maxPer = 14
	}
	id := 0
	for g := 0; g < ng; g++ {
		n := rapid.IntRange(1, maxPer).Draw(rt, "len")
		l := make([]cop, 0, n)
		for i := 0; i < n; i++ {
			kind := rapid.IntRange(0, 99).Draw(rt, "kind")
			switch {
			case kind < 32:
				l = append(l, cop{kind: opPush, x: rapid.IntRange(0, universe-1).Draw(rt, "x"), prio: rapid.IntRange(0, len(c34Priorities)-1).Draw(rt, "prio"), id: id})
				id++
			case kind < 48:
				l = append(l, cop{kind: opPop})
			case kind < 55:
				l = append(l, cop{kind: opPeek})
			case kind < 67:
				l = append(l, cop{kind: opRemove, x: rapid.IntRange(0, universe-1).Draw(rt, "x")})
			case kind < 87:
				l = append(l, cop{kind: opExists, x: rapid.IntRange(0, universe-1).Draw(rt, "x")})
			case kind < 93:
				l = append(l, cop{kind: opLen})
			default:
				l = append(l, cop{kind: opPending})
			}
		}
		lists = append(lists, l)
	}
	return
}

func TestC34Concurrent(t *testing.T) {
	defer kit.Flush()
	kit.Note("rule", concRule)
	ensureProcs()
	reps := envInt("VERIF_C34_REPS", 12)
	hammerOps := envInt("VERIF_C34_HAMMER", 400)
	rapid.Check(t, func(rt *rapid.T) {
		_, lists := genLists(rt)
		descr := describeLists(lists)
		racesBefore := runtime.RaceErrors()
		labels := map[string]bool{fmt.Sprintf("goroutines=%d", len(lists)): true}
		sawContended := false
		var lastHist []histOp
		for r := 0; r < reps; r++ {
			hist, problem := runLogged(lists)
			if problem != "" {
				rt.Fatalf("%s\ncase: %s\nhistory:\n%s", problem, descr, formatHistory(hist))
			}
			ops := make([]porcupine.Operation, len(hist))
			for i, h := range hist {
				ops[i] = porcupine.Operation{ClientId: h.g, Input: h.op, Output: h.out, Call: h.call, Return: h.ret}
			}
			switch porcupine.CheckOperationsTimeout(queuePorcupineModel, ops, 60*time.Second) {
			case porcupine.Illegal:
				rt.Fatalf("history is not linearizable w.r.t. the queue model (run %d)\ncase: %s\nhistory (goroutine [invoke,return] op -> result):\n%s", r, descr, formatHistory(hist))
			case porcupine.Unknown:
				labels["linearizability-inconclusive(timeout)"] = true
			}
			same, any := contended(hist)
			if same {
				sawContended = true
			}
			if any {
				labels["logged-run-with-overlap"] = true
			}
			lastHist = hist
		}
		if msg := hammer(lists, hammerOps); msg != "" {
			rt.Fatalf("hammer phase: %s\ncase: %s", msg, descr)
		}
		// one site for the race verdict (logged runs + hammer), so that rapid sees the same failure while shrinking
		if runtime.RaceErrors() > racesBefore {
			rt.Fatalf("the race detector reported a data race while this case ran (WARNING: DATA RACE report(s) on stderr above)\ncase: %s\nlast logged history:\n%s", descr, formatHistory(lastHist))
		}
		if sawContended {
			labels["contended-same-transaction"] = true
		}
		kinds := map[opKind]bool{}
		for _, l := range lists {
			for _, o := range l {
				kinds[o.kind] = true
			}
		}
		if kinds[opExists] {
			labels["has-exists"] = true
		}
		if kinds[opPush] && (kinds[opPop] || kinds[opRemove]) {
			labels["push-and-leave"] = true
		}
		var ls []string
		for l := range labels {
			ls = append(ls, l)
		}
		kit.Case(descr, sawContended && kinds[opPush], ls...)
	})
}

// TestC34RegressionExistsRace: the input that exposed the defect of the
// pinned tree - membership queries concurrent with pushes and pops. Exists
// read the membership map without taking the queue's mutex.
func TestC34RegressionExistsRace(t *testing.T) {
	defer kit.Flush()
	ensureProcs()
	before := runtime.RaceErrors()
	lists := [][]cop{
		{{kind: opPush, x: 0, prio: 1}, {kind: opPop}},
		{{kind: opExists, x: 0}, {kind: opExists, x: 1}},
		{{kind: opPush, x: 1, prio: 1}, {kind: opRemove, x: 1}},
		{{kind: opExists, x: 1}, {kind: opLen}},
	}
	if msg := hammer(lists, 2000); msg != "" {
		t.Fatalf("%s", msg)
	}
	if n := runtime.RaceErrors(); n > before {
		t.Fatalf("Exists concurrent with Push/Pop/RemoveExtrinsic: the race detector reported %d data race(s)", n-before)
	}
}
