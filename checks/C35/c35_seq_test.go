package lrucache

// C35 (sequential part): LRUCache behaves as a capacity-bounded map where a
// get refreshes recency and a put into a full cache evicts the least recently
// used entry. Oracle: a recency-list model written from that sentence
// (lruModel, shared with the concurrent part through c35_model_test.go).

import (
	"fmt"
	"strings"
	"testing"

	kit "github.com/ChainSafe/gossamer/internal/verifkit"
	"pgregory.net/rapid"
)

const seqRule = "sequential: capacity 1..8 (rarely 0 = documented default 20), 1-60 Get/Put ops over a key universe slightly larger than the capacity, " +
	"every Put carries a unique value; every Get result, the entry count and the recency order are compared with the recency-list model after every step, " +
	"then every key is probed; non-trivial = at least one eviction whose victim differs from the first-in entry (recency, not insertion order, decided the victim); distinct by (capacity, op list)"

// checkInternal compares the in-package view (map size, list order) with the model.
func checkInternal(c *LRUCache[int, int], m *lruModel) string {
	if len(c.cache) != len(m.ents) || c.lruList.Len() != len(m.ents) {
		return fmt.Sprintf("size: map %d list %d model %d", len(c.cache), c.lruList.Len(), len(m.ents))
	}
	if len(c.cache) > m.capacity {
		return fmt.Sprintf("size %d exceeds capacity %d", len(c.cache), m.capacity)
	}
	i := 0
	for e := c.lruList.Front(); e != nil; e = e.Next() {
		en := e.Value.(*Entry[int, int])
		if en.key != m.ents[i].k || en.value != m.ents[i].v {
			return fmt.Sprintf("recency position %d: cache (%d=%d) model (%d=%d); model order %s", i, en.key, en.value, m.ents[i].k, m.ents[i].v, m.describe())
		}
		if c.cache[en.key] != e {
			return fmt.Sprintf("map entry of key %d does not point at its list element", en.key)
		}
		i++
	}
	return ""
}

func TestC35Sequential(t *testing.T) {
	defer kit.Flush()
	kit.Note("rule", seqRule)
	rapid.Check(t, func(rt *rapid.T) {
		capArg := rapid.SampledFrom([]int{1, 1, 2, 2, 2, 3, 3, 3, 4, 4, 5, 6, 7, 8, 0}).Draw(rt, "cap")
		effCap := capArg
		universe := 0
		if capArg == 0 {
			effCap = DefaultLRUCapacity
			universe = effCap + rapid.IntRange(1, 4).Draw(rt, "extraKeys")
		} else {
			universe = capArg + rapid.SampledFrom([]int{1, 1, 2, 2, 3, 3, 0, -1}).Draw(rt, "extraKeys")
			if universe < 1 {
				universe = 1
			}
			if universe > 11 {
				universe = 11
			}
		}
		n := rapid.IntRange(1, 60).Draw(rt, "n")
		if capArg == 0 {
			n = rapid.IntRange(30, 120).Draw(rt, "nBig")
		}
		c := NewLRUCache[int, int](uint(capArg))
		m := newLRUModel(effCap)
		labels := map[string]bool{fmt.Sprintf("cap=%d", capArg): true}
		var descr strings.Builder
		fmt.Fprintf(&descr, "cap=%d", capArg)
		evictedOnce := map[int]bool{}
		nontrivial := false
		for i := 0; i < n; i++ {
			k := rapid.IntRange(0, universe-1).Draw(rt, "k")
			if rapid.IntRange(0, 1).Draw(rt, "put") == 1 {
				v := i + 1
				fmt.Fprintf(&descr, " P%d=%d", k, v)
				info := m.put(k, v)
				c.Put(k, v)
				if info.overwrite {
					labels["put-overwrite"] = true
				}
				if info.evicted {
					labels["evict"] = true
					evictedOnce[info.victim] = true
					if info.victim != info.fifoVictim {
						labels["evict-lru!=fifo"] = true
						nontrivial = true
					}
				}
			} else {
				fmt.Fprintf(&descr, " G%d", k)
				want, hit := m.get(k)
				got := c.Get(k)
				if got != want {
					rt.Fatalf("step %d of [%s]: Get(%d) = %d, model %d (model before: hit=%v)", i, descr.String(), k, got, want, hit)
				}
				if hit {
					labels["get-hit"] = true
				} else if evictedOnce[k] {
					labels["get-miss-after-evict"] = true
				} else {
					labels["get-miss"] = true
				}
			}
			if msg := checkInternal(c, m); msg != "" {
				rt.Fatalf("after step %d of [%s]: %s", i, descr.String(), msg)
			}
		}
		// probe every key (black-box view of the final content; probing refreshes recency in both)
		for k := 0; k < universe; k++ {
			want, _ := m.get(k)
			if got := c.Get(k); got != want {
				rt.Fatalf("final probe of [%s]: Get(%d) = %d, model %d", descr.String(), k, got, want)
			}
		}
		if msg := checkInternal(c, m); msg != "" {
			rt.Fatalf("after final probe of [%s]: %s", descr.String(), msg)
		}
		var ls []string
		for l := range labels {
			ls = append(ls, l)
		}
		kit.Case(descr.String(), nontrivial, ls...)
	})
}
