//go:build race

package lrucache

// C35 (concurrent part, built with -race): 2-6 goroutines, each with a
// rapid-generated Get/Put list, started together.
//
//   - logged phase: every call is logged with invoke/return ticks taken from
//     one atomic counter; the history (<= 60 operations) must be linearizable
//     with respect to the recency-list model (porcupine).
//   - hammer phase: the same lists are cycled several hundred times per
//     goroutine on one cache without any logging (the tick counter would add
//     happens-before edges that hide unsynchronised accesses from the race
//     detector); oracle: the race detector reports nothing, nothing panics,
//     returned values belong to the key asked for, the quiescent structure is
//     consistent.
//
// Schedules are sampled (whatever the Go scheduler produces on this run), not
// enumerated. The rapid-generated op lists are the replayable unit.

import (
	"fmt"
	"os"
	"runtime"
	"strconv"
	"strings"
	"sync"
	"sync/atomic"
	"testing"
	"time"

	kit "github.com/ChainSafe/gossamer/internal/verifkit"
	"github.com/anishathalye/porcupine"
	"pgregory.net/rapid"
)

const concRule = "concurrent (-race build): capacity 1..8, 2-6 goroutines with generated Get/Put lists (gets dominate, <= 60 ops in total, unique put values), " +
	"run logged (invoke/return ticks, porcupine linearizability vs the recency-list model) several times and then cycled unlogged >= 300 ops per goroutine under the race detector; " +
	"schedules are sampled, not enumerated; non-trivial = in at least one logged run two operations of different goroutines on the same key overlap in time and an eviction is possible (more keys than capacity); distinct by (capacity, per-goroutine op lists)"

type cop struct {
	put  bool
	k, v int
}

func (o cop) String() string {
	if o.put {
		return fmt.Sprintf("P%d=%d", o.k, o.v)
	}
	return fmt.Sprintf("G%d", o.k)
}

func describeLists(capacity int, lists [][]cop) string {
	var b strings.Builder
	fmt.Fprintf(&b, "cap=%d", capacity)
	for g, l := range lists {
		fmt.Fprintf(&b, " | g%d:", g)
		for _, o := range l {
			b.WriteString(" " + o.String())
		}
	}
	return b.String()
}

func envInt(name string, def int) int {
	if s := os.Getenv(name); s != "" {
		if n, err := strconv.Atoi(s); err == nil && n > 0 {
			return n
		}
	}
	return def
}

func ensureProcs() {
	if runtime.GOMAXPROCS(0) < 4 {
		runtime.GOMAXPROCS(4)
	}
}

// spinBarrier lets n goroutines leave together.
type spinBarrier struct {
	n       int32
	arrived atomic.Int32
}

func (b *spinBarrier) wait() {
	b.arrived.Add(1)
	for i := 0; b.arrived.Load() < b.n; i++ {
		if i%64 == 63 {
			runtime.Gosched()
		}
	}
}

type histOp struct {
	g         int
	op        cop
	out       int
	call, ret int64
}

// runLogged executes the lists once on a fresh cache and returns the history.
func runLogged(capacity int, lists [][]cop) (hist []histOp, panicked string) {
	c := NewLRUCache[int, int](uint(capacity))
	var tick atomic.Int64
	per := make([][]histOp, len(lists))
	bar := &spinBarrier{n: int32(len(lists))}
	var wg sync.WaitGroup
	var pmu sync.Mutex
	for g := range lists {
		wg.Add(1)
		go func(g int) {
			defer wg.Done()
			defer func() {
				if r := recover(); r != nil {
					pmu.Lock()
					panicked = fmt.Sprintf("goroutine %d panicked: %v", g, r)
					pmu.Unlock()
				}
			}()
			mine := make([]histOp, 0, len(lists[g]))
			bar.wait()
			for _, o := range lists[g] {
				h := histOp{g: g, op: o}
				h.call = tick.Add(1)
				if o.put {
					c.Put(o.k, o.v)
				} else {
					h.out = c.Get(o.k)
				}
				h.ret = tick.Add(1)
				mine = append(mine, h)
			}
			per[g] = mine
		}(g)
	}
	wg.Wait()
	for _, p := range per {
		hist = append(hist, p...)
	}
	return hist, panicked
}

func lruPorcupineModel(capacity int) porcupine.Model {
	return porcupine.Model{
		Init: func() interface{} { return newLRUModel(capacity) },
		Step: func(state, input, output interface{}) (bool, interface{}) {
			m := state.(*lruModel).clone()
			o := input.(cop)
			if o.put {
				m.put(o.k, o.v)
				return true, m
			}
			want, _ := m.get(o.k)
			return want == output.(int), m
		},
		Equal: func(a, b interface{}) bool {
			x, y := a.(*lruModel), b.(*lruModel)
			if len(x.ents) != len(y.ents) {
				return false
			}
			for i := range x.ents {
				if x.ents[i].k != y.ents[i].k || x.ents[i].v != y.ents[i].v {
					return false
				}
			}
			return true
		},
		DescribeOperation: func(input, output interface{}) string {
			o := input.(cop)
			if o.put {
				return o.String()
			}
			return fmt.Sprintf("%s->%d", o, output.(int))
		},
	}
}

func formatHistory(hist []histOp) string {
	var b strings.Builder
	for _, h := range hist {
		if h.op.put {
			fmt.Fprintf(&b, "  g%d [%3d,%3d] %s\n", h.g, h.call, h.ret, h.op)
		} else {
			fmt.Fprintf(&b, "  g%d [%3d,%3d] %s -> %d\n", h.g, h.call, h.ret, h.op, h.out)
		}
	}
	return b.String()
}

// overlapSameKey reports whether two operations of different goroutines on the same key overlap in time.
func overlapSameKey(hist []histOp) (sameKey, any bool) {
	for i := range hist {
		for j := i + 1; j < len(hist); j++ {
			a, b := hist[i], hist[j]
			if a.g == b.g {
				continue
			}
			if a.call < b.ret && b.call < a.ret {
				any = true
				if a.op.k == b.op.k {
					return true, true
				}
			}
		}
	}
	return false, any
}

// hammer cycles the lists on one cache, opsPerG operations per goroutine, no logging.
func hammer(capacity int, lists [][]cop, opsPerG int) string {
	c := NewLRUCache[int, int](uint(capacity))
	bar := &spinBarrier{n: int32(len(lists))}
	var wg sync.WaitGroup
	problems := make([]string, len(lists))
	for g := range lists {
		wg.Add(1)
		go func(g int) {
			defer wg.Done()
			defer func() {
				if r := recover(); r != nil {
					problems[g] = fmt.Sprintf("goroutine %d panicked: %v", g, r)
				}
			}()
			l := lists[g]
			bar.wait()
			for i := 0; i < opsPerG; i++ {
				o := l[i%len(l)]
				if o.put {
					c.Put(o.k, o.v)
				} else if got := c.Get(o.k); got != 0 && got/valueStride != o.k {
					problems[g] = fmt.Sprintf("goroutine %d: Get(%d) returned %d, a value that was put under key %d", g, o.k, got, got/valueStride)
					return
				}
			}
		}(g)
	}
	wg.Wait()
	for _, p := range problems {
		if p != "" {
			return p
		}
	}
	// quiescent structure (in-package view)
	if len(c.cache) != c.lruList.Len() || len(c.cache) > capacity {
		return fmt.Sprintf("after hammer: map has %d entries, list %d, capacity %d", len(c.cache), c.lruList.Len(), capacity)
	}
	n := 0
	for e := c.lruList.Front(); e != nil; e = e.Next() {
		en := e.Value.(*Entry[int, int])
		if c.cache[en.key] != e {
			return fmt.Sprintf("after hammer: list element of key %d is not the one the map points at", en.key)
		}
		if en.value/valueStride != en.key {
			return fmt.Sprintf("after hammer: key %d holds value %d of another key", en.key, en.value)
		}
		n++
		if n > capacity {
			return "after hammer: list longer than capacity (cycle?)"
		}
	}
	return ""
}

// every put value encodes its key: v = k*valueStride + unique (unique >= 1)
const valueStride = 100000

func genLists(rt *rapid.T) (capacity, universe int, lists [][]cop) {
	capacity = rapid.SampledFrom([]int{1, 1, 2, 2, 2, 3, 3, 4, 5, 6, 7, 8}).Draw(rt, "cap")
	universe = capacity + rapid.SampledFrom([]int{1, 1, 2, 2, 3, 3, 0, -1}).Draw(rt, "extraKeys")
	if universe < 1 {
		universe = 1
	}
	if universe > 10 {
		universe = 10
	}
	ng := rapid.IntRange(2, 6).Draw(rt, "goroutines")
	maxPer := 60 / ng
	if maxPer > 14 {
		maxPer = 14
	}
	uniq := 1
	for g := 0; g < ng; g++ {
		n := rapid.IntRange(1, maxPer).Draw(rt, "len")
		l := make([]cop, 0, n)
		for i := 0; i < n; i++ {
			k := rapid.IntRange(0, universe-1).Draw(rt, "k")
			if rapid.IntRange(0, 9).Draw(rt, "kind") < 3 { // gets dominate, as in the rate limiter
				l = append(l, cop{put: true, k: k, v: k*valueStride + uniq})
				uniq++
			} else {
				l = append(l, cop{k: k})
			}
		}
		lists = append(lists, l)
	}
	return
}

func TestC35Concurrent(t *testing.T) {
	defer kit.Flush()
	kit.Note("rule", concRule)
	ensureProcs()
	reps := envInt("VERIF_C35_REPS", 12)
	hammerOps := envInt("VERIF_C35_HAMMER", 400)
	rapid.Check(t, func(rt *rapid.T) {
		capacity, universe, lists := genLists(rt)
		descr := describeLists(capacity, lists)
		racesBefore := runtime.RaceErrors()
		model := lruPorcupineModel(capacity)
		labels := map[string]bool{fmt.Sprintf("goroutines=%d", len(lists)): true}
		sawOverlapSameKey := false
		var lastHist []histOp
		for r := 0; r < reps; r++ {
			hist, panicked := runLogged(capacity, lists)
			if panicked != "" {
				rt.Fatalf("%s\ncase: %s\nhistory:\n%s", panicked, descr, formatHistory(hist))
			}
			ops := make([]porcupine.Operation, len(hist))
			for i, h := range hist {
				ops[i] = porcupine.Operation{ClientId: h.g, Input: h.op, Output: h.out, Call: h.call, Return: h.ret}
			}
			switch porcupine.CheckOperationsTimeout(model, ops, 60*time.Second) {
			case porcupine.Illegal:
				rt.Fatalf("history is not linearizable w.r.t. the LRU model (run %d)\ncase: %s\nhistory (goroutine [invoke,return] op):\n%s", r, descr, formatHistory(hist))
			case porcupine.Unknown:
				labels["linearizability-inconclusive(timeout)"] = true
			}
			same, any := overlapSameKey(hist)
			if same {
				sawOverlapSameKey = true
			}
			if any {
				labels["logged-run-with-overlap"] = true
			}
			lastHist = hist
		}
		if msg := hammer(capacity, lists, hammerOps); msg != "" {
			rt.Fatalf("%s\ncase: %s", msg, descr)
		}
		// one site for the race verdict (logged runs + hammer), so that rapid sees the same failure while shrinking
		if runtime.RaceErrors() > racesBefore {
			rt.Fatalf("the race detector reported a data race while this case ran (WARNING: DATA RACE report(s) on stderr above)\ncase: %s\nlast logged history:\n%s", descr, formatHistory(lastHist))
		}
		if sawOverlapSameKey {
			labels["overlap-same-key"] = true
		}
		if universe > capacity {
			labels["evictions-possible"] = true
		}
		hasPut, hasGet := false, false
		for _, l := range lists {
			for _, o := range l {
				if o.put {
					hasPut = true
				} else {
					hasGet = true
				}
			}
		}
		if hasPut && hasGet {
			labels["gets-and-puts"] = true
		}
		var ls []string
		for l := range labels {
			ls = append(ls, l)
		}
		kit.Case(descr, sawOverlapSameKey && universe > capacity && hasPut && hasGet, ls...)
	})
}

// TestC35RegressionConcurrentGets: the input that exposed the defect of the
// pinned tree - several goroutines only reading the same present key. Get
// relinked the recency list while holding only the read lock.
func TestC35RegressionConcurrentGets(t *testing.T) {
	defer kit.Flush()
	ensureProcs()
	before := runtime.RaceErrors()
	lists := [][]cop{{{k: 0}, {k: 1}}, {{k: 1}, {k: 0}}, {{k: 0}}, {{k: 1}}}
	c := NewLRUCache[int, int](4)
	c.Put(0, 1)
	c.Put(1, valueStride+2)
	bar := &spinBarrier{n: int32(len(lists))}
	var wg sync.WaitGroup
	for g := range lists {
		wg.Add(1)
		go func(g int) {
			defer wg.Done()
			bar.wait()
			for i := 0; i < 2000; i++ {
				o := lists[g][i%len(lists[g])]
				_ = c.Get(o.k)
			}
		}(g)
	}
	wg.Wait()
	if n := runtime.RaceErrors(); n > before {
		t.Fatalf("4 goroutines calling Get on present keys: race detector reported %d data race(s)", n-before)
	}
	if c.lruList.Len() != 2 || len(c.cache) != 2 {
		t.Fatalf("structure damaged: list %d map %d", c.lruList.Len(), len(c.cache))
	}
}
