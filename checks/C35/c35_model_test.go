package lrucache

// Reference model of C35, written from the property statement: a
// capacity-bounded map; a get of a present key refreshes its recency; a put of
// a present key replaces the value and (being a use) refreshes its recency; a
// put of an absent key into a full cache first evicts the least recently used
// entry. Shares no code with lru_cache.go.

import (
	"fmt"
	"strings"
)

type lruEnt struct {
	k, v int
	ins  int // insertion sequence number (only used to tell LRU from FIFO eviction in the statistics)
}

type lruModel struct {
	capacity int
	ents     []lruEnt // most recently used first
	nextIns  int
}

func newLRUModel(capacity int) *lruModel { return &lruModel{capacity: capacity} }

func (m *lruModel) find(k int) int {
	for i, e := range m.ents {
		if e.k == k {
			return i
		}
	}
	return -1
}

func (m *lruModel) toFront(i int) {
	e := m.ents[i]
	copy(m.ents[1:i+1], m.ents[:i])
	m.ents[0] = e
}

// get returns the value (0 when absent) and whether it was a hit.
func (m *lruModel) get(k int) (int, bool) {
	i := m.find(k)
	if i < 0 {
		return 0, false
	}
	m.toFront(i)
	return m.ents[0].v, true
}

type putInfo struct {
	overwrite  bool
	evicted    bool
	victim     int
	fifoVictim int
}

func (m *lruModel) put(k, v int) putInfo {
	var info putInfo
	if i := m.find(k); i >= 0 {
		m.ents[i].v = v
		m.toFront(i)
		info.overwrite = true
		return info
	}
	if len(m.ents) >= m.capacity {
		last := len(m.ents) - 1
		info.evicted = true
		info.victim = m.ents[last].k
		oldest := 0
		for i, e := range m.ents {
			if e.ins < m.ents[oldest].ins {
				oldest = i
			}
		}
		info.fifoVictim = m.ents[oldest].k
		m.ents = m.ents[:last]
	}
	m.ents = append(m.ents, lruEnt{})
	copy(m.ents[1:], m.ents[:len(m.ents)-1])
	m.ents[0] = lruEnt{k: k, v: v, ins: m.nextIns}
	m.nextIns++
	return info
}

func (m *lruModel) clone() *lruModel {
	c := *m
	c.ents = append([]lruEnt(nil), m.ents...)
	return &c
}

func (m *lruModel) describe() string {
	var b strings.Builder
	b.WriteString("[")
	for i, e := range m.ents {
		if i > 0 {
			b.WriteString(" ")
		}
		fmt.Fprintf(&b, "%d=%d", e.k, e.v)
	}
	b.WriteString("]")
	return b.String()
}
