package sync

// C31 - Block request planning and serving cover exactly the requested range.
//
// (a) planning: messages.NewAscendingBlockRequests(a, b, fields) is judged by
//     a direct statement of the property (ascending, contiguous, covers [a,b]
//     exactly once, every request <= 128).
// (b) serving: a SyncService literal over a REAL dot/state.BlockState
//     (in-memory Pebble, finalised-to-disk linear prefix, in-memory main chain
//     and forks) answers generated requests through CreateBlockResponse. The
//     oracle is a parent-array model of the generated tree that never calls
//     BlockState.Range / IsDescendantOf / GetHashByNumber: the only thing
//     taken from the block state is which leaf is the best block (fork choice
//     is property C16's business).

import (
	"bytes"
	"encoding/json"
	"fmt"
	"strings"
	"testing"
	"time"

	"github.com/ChainSafe/gossamer/dot/network"
	"github.com/ChainSafe/gossamer/dot/network/messages"
	"github.com/ChainSafe/gossamer/dot/peerset"
	"github.com/ChainSafe/gossamer/dot/state"
	"github.com/ChainSafe/gossamer/dot/types"
	"github.com/ChainSafe/gossamer/internal/database"
	"github.com/ChainSafe/gossamer/internal/log"
	kit "github.com/ChainSafe/gossamer/internal/verifkit"
	"github.com/ChainSafe/gossamer/lib/common"
	lrucache "github.com/ChainSafe/gossamer/lib/utils/lru-cache"
	"github.com/libp2p/go-libp2p/core/peer"
	"pgregory.net/rapid"
)

func init() {
	log.Patch(log.SetLevel(log.Critical))
	logger.Patch(log.SetLevel(log.Critical))
}

const c31ProtoMax = 128 // protocol maximum, stated by the property (not read from the code)

// ------------------------------------------------------------------ planning

// c31CheckPlan judges one planning result; returns "" when it is fine.
func c31CheckPlan(a, b uint, fields byte, reqs []*messages.BlockRequestMessage) string {
	if a > b {
		if len(reqs) != 0 {
			return fmt.Sprintf("empty range [%d,%d] planned %d requests", a, b, len(reqs))
		}
		return ""
	}
	if len(reqs) == 0 {
		return fmt.Sprintf("range [%d,%d] planned no request", a, b)
	}
	next := a
	for i, r := range reqs {
		if r == nil {
			return fmt.Sprintf("request %d is nil", i)
		}
		start, ok := r.StartingBlock.RawValue().(uint)
		if !ok {
			return fmt.Sprintf("request %d does not start at a number: %T", i, r.StartingBlock.RawValue())
		}
		if r.Direction != messages.Ascending {
			return fmt.Sprintf("request %d is not ascending", i)
		}
		if r.RequestedData != fields {
			return fmt.Sprintf("request %d asks fields %d, want %d", i, r.RequestedData, fields)
		}
		if r.Max == nil {
			return fmt.Sprintf("request %d has no max", i)
		}
		if *r.Max == 0 || *r.Max > c31ProtoMax {
			return fmt.Sprintf("request %d has max %d (want 1..%d)", i, *r.Max, c31ProtoMax)
		}
		if start != next {
			return fmt.Sprintf("request %d starts at %d, want %d (gap or overlap)", i, start, next)
		}
		next = start + uint(*r.Max)
	}
	if next != b+1 {
		return fmt.Sprintf("requests end at %d, want %d", next-1, b)
	}
	return ""
}

func c31DescribePlan(reqs []*messages.BlockRequestMessage) string {
	var sb strings.Builder
	for i, r := range reqs {
		if i > 6 {
			fmt.Fprintf(&sb, " ...(%d)", len(reqs))
			break
		}
		if r == nil {
			sb.WriteString(" nil")
			continue
		}
		m := "nil"
		if r.Max != nil {
			m = fmt.Sprint(*r.Max)
		}
		fmt.Fprintf(&sb, " {%s +%s}", r.StartingBlock.String(), m)
	}
	return sb.String()
}

// TestC31PlanSweep: every start 0..3 and 126..130, every length 0..700.
func TestC31PlanSweep(t *testing.T) {
	defer kit.Flush()
	starts := []uint{0, 1, 2, 3, 126, 127, 128, 129, 130, 255, 256, 257, 1 << 20}
	for _, a := range starts {
		for n := uint(0); n <= 700; n++ {
			// n blocks: [a, a+n-1]; n == 0 is the empty range (only for a > 0)
			if n == 0 && a == 0 {
				continue
			}
			b := a + n - 1
			reqs := messages.NewAscendingBlockRequests(a, b, messages.BootstrapRequestData)
			if msg := c31CheckPlan(a, b, messages.BootstrapRequestData, reqs); msg != "" {
				t.Fatalf("plan [%d,%d]: %s; got%s", a, b, msg, c31DescribePlan(reqs))
			}
			kit.Case(fmt.Sprintf("plan-sweep a=%d n=%d", a, n), n >= 129, "plan-sweep")
		}
	}
}

func TestC31Plan(t *testing.T) {
	defer kit.Flush()
	rapid.Check(t, func(t *rapid.T) {
		a := rapid.OneOf(
			rapid.UintRange(0, 3),
			rapid.UintRange(0, 1000),
			rapid.UintRange(0, 1<<31),
		).Draw(t, "a")
		k := rapid.SampledFrom([]uint{0, 1, 2, 3, 4, 8, 10, 39}).Draw(t, "k")
		off := rapid.IntRange(-2, 2).Draw(t, "off")
		var n uint // number of blocks
		switch rapid.IntRange(0, 3).Draw(t, "shape") {
		case 0:
			n = rapid.UintRange(0, 5).Draw(t, "n")
		case 1, 2:
			v := int(k)*c31ProtoMax + off
			if v < 0 {
				v = 0
			}
			n = uint(v)
		default:
			n = rapid.UintRange(0, 5000).Draw(t, "n")
		}
		fields := byte(rapid.IntRange(1, 31).Draw(t, "fields"))
		var b uint
		if n == 0 {
			if a == 0 {
				a = 1
			}
			b = a - 1 - rapid.UintRange(0, min(a-1, 3)).Draw(t, "below")
		} else {
			b = a + n - 1
		}
		reqs := messages.NewAscendingBlockRequests(a, b, fields)
		if msg := c31CheckPlan(a, b, fields, reqs); msg != "" {
			t.Fatalf("plan [%d,%d] fields %d: %s; got%s", a, b, fields, msg, c31DescribePlan(reqs))
		}
		labels := []string{"plan"}
		switch {
		case n == 0:
			labels = append(labels, "plan-empty")
		case n%c31ProtoMax == 0:
			labels = append(labels, "plan-multiple-of-128")
		case n%c31ProtoMax == 1:
			labels = append(labels, "plan-multiple-plus-1")
		}
		if a == 0 {
			labels = append(labels, "plan-from-0")
		}
		kit.Case(fmt.Sprintf("plan a=%d n=%d f=%d", a, n, fields), n >= 129, labels...)
	})
}

// ------------------------------------------------------------------ world

type c31Telemetry struct{}

func (c31Telemetry) SendMessage(json.Marshaler) {}

type c31Net struct{ reports int }

func (n *c31Net) AllConnectedPeersIDs() []peer.ID                       { return nil }
func (n *c31Net) ReportPeer(peerset.ReputationChange, peer.ID)          { n.reports++ }
func (n *c31Net) BlockAnnounceHandshake(*types.Header) error            { return nil }
func (n *c31Net) GossipMessageExcluding(network.NotificationsMessage, peer.ID) {}
func (n *c31Net) GetRequestResponseProtocol(string, time.Duration, uint64) *network.RequestResponseProtocol {
	return nil
}

type c31Blk struct {
	parent  int // -1 for genesis
	number  uint
	hash    common.Hash
	hdr     *types.Header
	body    types.Body
	receipt []byte // nil = not stored
	mq      []byte
	just    []byte
}

type c31World struct {
	db     database.Database
	bs     *state.BlockState
	blocks []c31Blk
	byHash map[common.Hash]int
	fin    int   // index of the finalised head
	best   int   // index of the best block (taken from the block state)
	onBest []int // onBest[number] = index of the best-chain block with that number
	shape  string
}

func (w *c31World) close() { _ = w.db.Close() }

func c31Digest(slot uint64, primary bool) types.Digest {
	var pre *types.PreRuntimeDigest
	var err error
	if primary {
		pre, err = types.NewBabePrimaryPreDigest(0, slot, [32]byte{}, [64]byte{}).ToPreRuntimeDigest()
	} else {
		pre, err = types.NewBabeSecondaryPlainPreDigest(0, slot).ToPreRuntimeDigest()
	}
	if err != nil {
		panic(err)
	}
	d := types.NewDigest()
	if err := d.Add(*pre); err != nil {
		panic(err)
	}
	return d
}

// c31Branch: `length` blocks on top of block `at`.
type c31Branch struct {
	at      int // index into the list of blocks existing when the branch is added
	length  int
	primary bool
}

type c31Spec struct {
	finalised int // finalised prefix length (block number of the finalised head)
	main      int // number of main-chain blocks above the finalised head
	mainPrim  bool
	forks     []c31Branch
	extras    int // seed for which blocks carry receipt/message queue/justification
}

func (s c31Spec) String() string {
	var sb strings.Builder
	fmt.Fprintf(&sb, "fin=%d main=%d/%v x=%d", s.finalised, s.main, s.mainPrim, s.extras)
	for _, f := range s.forks {
		fmt.Fprintf(&sb, " fork(at=%d len=%d prim=%v)", f.at, f.length, f.primary)
	}
	return sb.String()
}

func c31Build(spec c31Spec) (*c31World, error) {
	db, err := database.NewPebble("", true)
	if err != nil {
		return nil, err
	}
	w := &c31World{db: db, byHash: map[common.Hash]int{}, shape: spec.String()}
	genesis := types.NewHeader(common.Hash{}, common.Hash{0x31}, common.Hash{0xee}, 0, types.NewDigest())
	w.bs, err = state.NewBlockStateFromGenesis(db, state.NewTries(), genesis, c31Telemetry{})
	if err != nil {
		return nil, fmt.Errorf("NewBlockStateFromGenesis: %w", err)
	}
	w.blocks = []c31Blk{{parent: -1, number: 0, hash: genesis.Hash(), hdr: genesis, body: *types.NewBody([]types.Extrinsic{})}}
	w.byHash[genesis.Hash()] = 0

	add := func(parent int, primary bool) error {
		p := w.blocks[parent]
		id := len(w.blocks)
		hdr := &types.Header{
			ParentHash:     p.hash,
			Number:         p.number + 1,
			StateRoot:      common.Hash{0x31, byte(id), byte(id >> 8)},
			ExtrinsicsRoot: common.Hash{byte(id), byte(id >> 8), 0x31},
			Digest:         c31Digest(uint64(1000+id), primary),
		}
		var exts []types.Extrinsic
		for e := 0; e < (id+spec.extras)%3; e++ {
			exts = append(exts, types.Extrinsic{byte(id), byte(e), 0xab})
		}
		if exts == nil {
			exts = []types.Extrinsic{}
		}
		blk := &types.Block{Header: *hdr, Body: *types.NewBody(exts)}
		// deterministic arrival times: never the wall clock (fork choice ties)
		if err := w.bs.AddBlockWithArrivalTime(blk, time.Unix(int64(1_700_000_000+id), 0)); err != nil {
			return fmt.Errorf("AddBlock(child of #%d): %w", parent, err)
		}
		b := c31Blk{parent: parent, number: hdr.Number, hash: hdr.Hash(), hdr: hdr, body: blk.Body}
		sel := (id*7 + spec.extras) % 11
		if sel == 0 || sel == 3 {
			b.just = []byte{0x6a, byte(id)}
			if err := w.bs.SetJustification(b.hash, b.just); err != nil {
				return err
			}
		}
		if sel == 1 || sel == 3 {
			b.receipt = []byte{0x7e, byte(id)}
			if err := w.bs.SetReceipt(b.hash, b.receipt); err != nil {
				return err
			}
		}
		if sel == 2 || sel == 3 {
			b.mq = []byte{0x3a, byte(id), 1}
			if err := w.bs.SetMessageQueue(b.hash, b.mq); err != nil {
				return err
			}
		}
		w.byHash[b.hash] = id
		w.blocks = append(w.blocks, b)
		return nil
	}

	tip := 0
	for i := 0; i < spec.finalised; i++ {
		if err := add(tip, spec.mainPrim); err != nil {
			return w, err
		}
		tip = len(w.blocks) - 1
	}
	w.fin = tip
	if spec.finalised > 0 {
		if err := w.bs.SetFinalisedHash(w.blocks[tip].hash, 1, 0); err != nil {
			return w, fmt.Errorf("SetFinalisedHash: %w", err)
		}
	}
	for i := 0; i < spec.main; i++ {
		if err := add(tip, spec.mainPrim); err != nil {
			return w, err
		}
		tip = len(w.blocks) - 1
	}
	for _, f := range spec.forks {
		// branch points are the finalised head or anything above it
		cands := len(w.blocks) - w.fin
		at := w.fin + f.at%cands
		for i := 0; i < f.length; i++ {
			if err := add(at, f.primary); err != nil {
				return w, err
			}
			at = len(w.blocks) - 1
		}
	}

	bestHash := w.bs.BestBlockHash()
	bi, ok := w.byHash[bestHash]
	if !ok {
		return w, fmt.Errorf("best block %s is not a generated block", bestHash)
	}
	w.best = bi
	w.onBest = make([]int, w.blocks[bi].number+1)
	for i := bi; i >= 0; i = w.blocks[i].parent {
		w.onBest[w.blocks[i].number] = i
	}
	return w, nil
}

func (w *c31World) isOnBest(i int) bool {
	n := w.blocks[i].number
	return int(n) < len(w.onBest) && w.onBest[n] == i
}

func (w *c31World) bestNumber() uint { return w.blocks[w.best].number }

// ------------------------------------------------------------------ requests

type c31Req struct {
	desc   bool
	byHash bool
	num    uint
	blk    int // block index when byHash (-1: unknown hash)
	max    *uint32
	fields byte
}

func (r c31Req) String() string {
	d := "asc"
	if r.desc {
		d = "desc"
	}
	m := "nil"
	if r.max != nil {
		m = fmt.Sprint(*r.max)
	}
	if r.byHash {
		return fmt.Sprintf("%s hash#%d max=%s f=%d", d, r.blk, m, r.fields)
	}
	return fmt.Sprintf("%s num=%d max=%s f=%d", d, r.num, m, r.fields)
}

func (r c31Req) message(w *c31World) *messages.BlockRequestMessage {
	dir := messages.Ascending
	if r.desc {
		dir = messages.Descending
	}
	var from *messages.FromBlock
	if r.byHash {
		h := common.Hash{0xde, 0xad}
		if r.blk >= 0 {
			h = w.blocks[r.blk].hash
		}
		from = messages.NewFromBlock(h)
	} else {
		from = messages.NewFromBlock(r.num)
	}
	return &messages.BlockRequestMessage{RequestedData: r.fields, StartingBlock: *from, Direction: dir, Max: r.max}
}

func c31EffMax(r c31Req) uint {
	// max 0 (and nil) are read as "no limit" (Substrate) - the protocol maximum applies
	if r.max == nil || *r.max == 0 || *r.max > c31ProtoMax {
		return c31ProtoMax
	}
	return uint(*r.max)
}

// c31Judge applies the oracle to a served (err == nil) response. It returns
// a violation text or "".
func c31Judge(w *c31World, r c31Req, resp *messages.BlockResponseMessage) string {
	if resp == nil {
		return "served response is nil"
	}
	// by-number requests that resolve to block 0 (number 0, or a descending
	// request from above the best block when the best block is genesis)
	genesisByNumber := !r.byHash && (r.num == 0 || (r.desc && w.bestNumber() == 0))
	if len(resp.BlockData) == 0 {
		if r.max != nil && *r.max == 0 {
			return "" // "at most 0 blocks": an empty answer is a defensible reading
		}
		if genesisByNumber {
			return "" // the service never serves genesis by number (design choice, not judged)
		}
		return "served response is empty"
	}
	if lim := c31EffMax(r); uint(len(resp.BlockData)) > lim {
		return fmt.Sprintf("served %d blocks, more than min(requested max, %d) = %d", len(resp.BlockData), c31ProtoMax, lim)
	}
	idx := make([]int, len(resp.BlockData))
	for i, bd := range resp.BlockData {
		if bd == nil {
			return fmt.Sprintf("item %d is nil", i)
		}
		j, ok := w.byHash[bd.Hash]
		if !ok {
			return fmt.Sprintf("item %d has a hash that is not a stored block: %s", i, bd.Hash)
		}
		idx[i] = j
	}
	// starts at the requested block
	switch {
	case r.byHash:
		if idx[0] != r.blk {
			return fmt.Sprintf("starts at block #%d (number %d), requested #%d", idx[0], w.blocks[idx[0]].number, r.blk)
		}
	case genesisByNumber:
		// not judged (see NOTES): ascending 0 is answered from block 1
	default:
		want := r.num
		if r.desc && want > w.bestNumber() {
			want = w.bestNumber() // documented: descending from above the best block starts at the best block
		}
		if want > w.bestNumber() {
			return fmt.Sprintf("served an ascending request from number %d above the best block %d", r.num, w.bestNumber())
		}
		if idx[0] != w.onBest[want] {
			return fmt.Sprintf("starts at block #%d (number %d), want best-chain block number %d (#%d)",
				idx[0], w.blocks[idx[0]].number, want, w.onBest[want])
		}
	}
	// gap-free chain in the requested direction
	for i := 0; i+1 < len(idx); i++ {
		if r.desc {
			if w.blocks[idx[i]].parent != idx[i+1] {
				return fmt.Sprintf("descending: item %d (#%d, number %d) is not the parent of item %d (#%d, number %d)",
					i+1, idx[i+1], w.blocks[idx[i+1]].number, i, idx[i], w.blocks[idx[i]].number)
			}
		} else if w.blocks[idx[i+1]].parent != idx[i] {
			return fmt.Sprintf("ascending: item %d (#%d, number %d) is not the parent of item %d (#%d, number %d)",
				i, idx[i], w.blocks[idx[i]].number, i+1, idx[i+1], w.blocks[idx[i+1]].number)
		}
	}
	// exactly the requested (and stored) fields
	for i, bd := range resp.BlockData {
		b := w.blocks[idx[i]]
		if want := r.fields&1 != 0; (bd.Header != nil) != want {
			return fmt.Sprintf("item %d: header present=%v, requested=%v", i, bd.Header != nil, want)
		}
		if bd.Header != nil && bd.Header.Hash() != b.hash {
			return fmt.Sprintf("item %d: header does not hash to the block hash", i)
		}
		if want := r.fields&2 != 0; (bd.Body != nil) != want {
			return fmt.Sprintf("item %d: body present=%v, requested=%v", i, bd.Body != nil, want)
		}
		if bd.Body != nil {
			if len(*bd.Body) != len(b.body) {
				return fmt.Sprintf("item %d: body has %d extrinsics, stored %d", i, len(*bd.Body), len(b.body))
			}
			for e := range b.body {
				if !bytes.Equal((*bd.Body)[e], b.body[e]) {
					return fmt.Sprintf("item %d: extrinsic %d differs", i, e)
				}
			}
		}
		opt := func(name string, bit byte, got *[]byte, stored []byte) string {
			want := r.fields&bit != 0 && stored != nil
			if (got != nil) != want {
				return fmt.Sprintf("item %d: %s present=%v, requested=%v stored=%v", i, name, got != nil, r.fields&bit != 0, stored != nil)
			}
			if got != nil && !bytes.Equal(*got, stored) {
				return fmt.Sprintf("item %d: %s differs from the stored one", i, name)
			}
			return ""
		}
		if m := opt("receipt", 4, bd.Receipt, b.receipt); m != "" {
			return m
		}
		if m := opt("message queue", 8, bd.MessageQueue, b.mq); m != "" {
			return m
		}
		if m := opt("justification", 16, bd.Justification, b.just); m != "" {
			return m
		}
	}
	return ""
}

// c31Span: how many blocks exist from the start block in the requested
// direction (model only): used for the non-triviality rule and labels.
func c31Span(w *c31World, r c31Req, start int) uint {
	if r.desc {
		return w.blocks[start].number + 1
	}
	// ascending: longest path below start
	depth := make([]uint, len(w.blocks))
	var best uint
	for i := len(w.blocks) - 1; i > start; i-- {
		// children have larger indexes than parents
		p := w.blocks[i].parent
		if depth[i]+1 > depth[p] {
			depth[p] = depth[i] + 1
		}
	}
	best = depth[start] + 1
	return best
}

func c31NewService(w *c31World) *SyncService {
	return &SyncService{
		blockState:            w.bs,
		network:               &c31Net{},
		seenBlockSyncRequests: lrucache.NewLRUCache[common.Hash, uint](100),
	}
}

var c31Maxes = []int{-1, 0, 1, 2, 3, 5, 127, 128, 129, 500}

func c31GenSpec(t *rapid.T) c31Spec {
	var spec c31Spec
	big := rapid.IntRange(0, 9).Draw(t, "big") == 0
	if big {
		spec.finalised = rapid.IntRange(0, 150).Draw(t, "fin")
		spec.main = rapid.IntRange(0, 150).Draw(t, "main")
	} else {
		spec.finalised = rapid.IntRange(0, 8).Draw(t, "fin")
		spec.main = rapid.IntRange(0, 12).Draw(t, "main")
	}
	spec.mainPrim = rapid.Bool().Draw(t, "mainPrim")
	spec.extras = rapid.IntRange(0, 10).Draw(t, "extras")
	nf := rapid.IntRange(0, 3).Draw(t, "nforks")
	for i := 0; i < nf; i++ {
		f := c31Branch{at: rapid.IntRange(0, 400).Draw(t, "at"), primary: rapid.Bool().Draw(t, "prim")}
		if big && rapid.IntRange(0, 2).Draw(t, "longfork") == 0 {
			f.length = rapid.IntRange(1, 140).Draw(t, "flen")
		} else {
			f.length = rapid.IntRange(1, 10).Draw(t, "flen")
		}
		spec.forks = append(spec.forks, f)
	}
	return spec
}

func c31GenReq(t *rapid.T, w *c31World) c31Req {
	var r c31Req
	r.desc = rapid.Bool().Draw(t, "desc")
	if m := rapid.SampledFrom(c31Maxes).Draw(t, "max"); m >= 0 {
		v := uint32(m)
		r.max = &v
	}
	switch rapid.IntRange(0, 9).Draw(t, "fieldsKind") {
	case 0:
		r.fields = messages.RequestedDataHeader
	case 1, 2:
		r.fields = messages.BootstrapRequestData
	case 3:
		r.fields = 31
	case 4:
		r.fields = 0 // invalid: must be refused
	default:
		r.fields = byte(rapid.IntRange(1, 255).Draw(t, "fields"))
	}
	r.byHash = rapid.Bool().Draw(t, "byHash")
	eff := c31EffMax(r)
	if r.byHash {
		switch k := rapid.IntRange(0, 9).Draw(t, "hashKind"); {
		case k == 0:
			r.blk = -1
		case k <= 5 && len(w.blocks) > int(w.bestNumber())+1:
			// a block that is not on the best chain
			var forkBlocks []int
			for i := range w.blocks {
				if !w.isOnBest(i) {
					forkBlocks = append(forkBlocks, i)
				}
			}
			r.blk = forkBlocks[rapid.IntRange(0, len(forkBlocks)-1).Draw(t, "forkBlk")]
		default:
			r.blk = rapid.IntRange(0, len(w.blocks)-1).Draw(t, "blk")
		}
		return r
	}
	bn := w.bestNumber()
	switch rapid.IntRange(0, 5).Draw(t, "numKind") {
	case 0:
		r.num = rapid.UintRange(0, 2).Draw(t, "num")
	case 1, 2:
		// around the boundary of the requested maximum
		r.num = uint(int(eff) + rapid.IntRange(-1, 2).Draw(t, "aroundMax"))
	case 3:
		r.num = uint(max(0, int(bn)+rapid.IntRange(-2, 3).Draw(t, "aroundBest")))
	case 4:
		r.num = uint(max(0, int(w.blocks[w.fin].number)+rapid.IntRange(-2, 2).Draw(t, "aroundFin")))
	default:
		r.num = rapid.UintRange(0, bn+2).Draw(t, "num")
	}
	return r
}

// c31RunReq serves one request and judges it; returns (violation, labels, nontrivial).
func c31RunReq(w *c31World, svc *SyncService, r c31Req, who int) (string, []string, bool) {
	resp, err := svc.CreateBlockResponse(peer.ID(fmt.Sprintf("c31-peer-%d", who)), r.message(w))
	labels := []string{}
	dir := "asc"
	if r.desc {
		dir = "desc"
	}
	kind := "num"
	if r.byHash {
		kind = "hash"
	}
	labels = append(labels, "req-"+dir+"-"+kind)
	if err != nil {
		if resp != nil {
			return "error together with a response", labels, false
		}
		labels = append(labels, "refused", "refused-"+dir+"-"+kind)
		return "", labels, false
	}
	if r.fields == 0 {
		return "a request for no field at all was served", labels, false
	}
	labels = append(labels, "served", "served-"+dir+"-"+kind)
	if msg := c31Judge(w, r, resp); msg != "" {
		return msg, labels, false
	}
	nontrivial := false
	if len(resp.BlockData) > 0 {
		start := w.byHash[resp.BlockData[0].Hash]
		span := c31Span(w, r, start)
		if r.byHash && !w.isOnBest(start) {
			labels = append(labels, "served-from-fork", "served-from-fork-"+dir)
			nontrivial = true
		}
		if r.max != nil && *r.max != 0 && span > c31EffMax(r) || span > c31ProtoMax {
			labels = append(labels, "served-truncated", "served-truncated-"+dir+"-"+kind)
			nontrivial = true
		}
		if uint(len(resp.BlockData)) == c31EffMax(r) {
			labels = append(labels, "served-full-max")
		}
		if len(resp.BlockData) >= 2 {
			labels = append(labels, "served-len>=2")
			a, b := w.byHash[resp.BlockData[0].Hash], w.byHash[resp.BlockData[len(resp.BlockData)-1].Hash]
			lo, hi := min(w.blocks[a].number, w.blocks[b].number), max(w.blocks[a].number, w.blocks[b].number)
			if fn := w.blocks[w.fin].number; lo <= fn && hi > fn && fn > 0 {
				labels = append(labels, "served-across-finalised-boundary")
			}
		}
	} else {
		labels = append(labels, "served-empty-tolerated")
	}
	return "", labels, nontrivial
}

func TestC31Serve(t *testing.T) {
	defer kit.Flush()
	rapid.Check(t, func(t *rapid.T) {
		spec := c31GenSpec(t)
		w, err := c31Build(spec)
		if w != nil {
			defer w.close()
		}
		if err != nil {
			t.Fatalf("harness: cannot build %s: %v", spec, err)
		}
		svc := c31NewService(w)
		nreq := rapid.IntRange(1, 8).Draw(t, "nreq")
		var descr strings.Builder
		fmt.Fprintf(&descr, "%s best=#%d/%d |", w.shape, w.best, w.bestNumber())
		labels := []string{}
		if len(spec.forks) > 0 {
			labels = append(labels, "tree-with-forks")
		}
		if !func() bool { // best block is not the highest block
			for _, b := range w.blocks {
				if b.number > w.bestNumber() {
					return false
				}
			}
			return true
		}() {
			labels = append(labels, "tree-best-not-highest")
		}
		nontrivial := false
		for i := 0; i < nreq; i++ {
			r := c31GenReq(t, w)
			fmt.Fprintf(&descr, " [%s]", r)
			msg, ls, nt := c31RunReq(w, svc, r, i)
			if msg != "" {
				t.Fatalf("tree {%s} best=#%d (number %d): request [%s]: %s", w.shape, w.best, w.bestNumber(), r, msg)
			}
			labels = append(labels, ls...)
			nontrivial = nontrivial || nt
		}
		kit.Case(descr.String(), nontrivial, labels...)
	})
}
