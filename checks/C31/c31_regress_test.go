package sync

import (
	"testing"

	"github.com/ChainSafe/gossamer/dot/network/messages"
	kit "github.com/ChainSafe/gossamer/internal/verifkit"
)

func c31U32(v uint32) *uint32 { return &v }

type c31Fixed struct {
	name string
	spec c31Spec
	reqs []c31Req
}

// Shrunk inputs of defects found by TestC31Serve on the pinned tree (see
// fixes/): they must be served correctly (or refused) from now on.
var c31Regressions = []c31Fixed{
	{
		// descending by number with start == max+1 answered max+1 blocks
		name: "descending-start-is-max-plus-one",
		spec: c31Spec{finalised: 0, main: 4},
		reqs: []c31Req{
			{desc: true, num: 2, max: c31U32(1), fields: 1},
			{desc: true, num: 3, max: c31U32(2), fields: 1},
			{desc: true, num: 4, max: c31U32(3), fields: 19},
			{desc: true, num: 2, max: c31U32(2), fields: 1},
			{desc: true, num: 4, max: c31U32(2), fields: 1},
		},
	},
	{
		name: "descending-start-is-129",
		spec: c31Spec{finalised: 60, main: 75},
		reqs: []c31Req{
			{desc: true, num: 129, max: nil, fields: 1},
			{desc: true, num: 129, max: c31U32(128), fields: 1},
			{desc: true, num: 129, max: c31U32(500), fields: 3},
			{desc: true, num: 130, max: nil, fields: 1},
			{desc: true, num: 128, max: nil, fields: 1},
		},
	},
	{
		// descending by hash from a fork block: the end of the answer was taken
		// from the best chain by number, which is not an ancestor of the start
		// block: genesis <- 1 <- 2 <- 3 <- 4 (best), fork 1 <- 2' <- 3' <- 4'
		name: "descending-by-hash-from-fork",
		spec: c31Spec{finalised: 0, main: 5, mainPrim: true, forks: []c31Branch{{at: 1, length: 3}}},
		reqs: []c31Req{
			{desc: true, byHash: true, blk: 8, max: c31U32(2), fields: 1},
			{desc: true, byHash: true, blk: 8, max: c31U32(3), fields: 1},
			{desc: true, byHash: true, blk: 7, max: c31U32(1), fields: 1},
			{desc: true, byHash: true, blk: 8, max: nil, fields: 1},
			{desc: false, byHash: true, blk: 6, max: c31U32(2), fields: 1},
		},
	},
}

func TestC31Regressions(t *testing.T) {
	defer kit.Flush()
	for _, fx := range c31Regressions {
		w, err := c31Build(fx.spec)
		if err != nil {
			t.Fatalf("%s: harness: %v", fx.name, err)
		}
		svc := c31NewService(w)
		for i, r := range fx.reqs {
			if r.byHash && w.isOnBest(r.blk) && fx.name == "descending-by-hash-from-fork" {
				t.Fatalf("%s: block #%d is expected to be off the best chain (best=#%d)", fx.name, r.blk, w.best)
			}
			msg, labels, _ := c31RunReq(w, svc, r, i)
			if msg != "" {
				t.Fatalf("%s: tree {%s} request [%s]: %s", fx.name, w.shape, r, msg)
			}
			kit.Case("regression "+fx.name+" "+r.String(), true, append(labels, "regression")...)
		}
		w.close()
	}
	_ = messages.MaxBlocksInResponse
}
