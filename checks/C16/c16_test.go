package blocktree

import (
	"bytes"
	"fmt"
	"os"
	"strings"
	"testing"
	"time"

	kit "github.com/ChainSafe/gossamer/internal/verifkit"
	"github.com/ChainSafe/gossamer/lib/common"
	"pgregory.net/rapid"
)

const c16Rule = "random tree of 1-24 blocks with drawn primary/secondary marks and arrival times from a 1-3 value set (value 0 is the zero time.Time, each in UTC/fixed-zone/local representation), " +
	"added to two block trees in two independent random parent-first orders (same arrival times), optionally with a Prune " +
	"in the middle; BestBlockHash is compared with the model (leaf maximising primary count after the root, then number, " +
	"then earlier arrival, then lower hash) after every insertion of order A and at the sync points for order B; " +
	"non-trivial = at the end >=2 leaves tie on the maximal primary count; distinct by (marks, arrivals, both orders)"

// c16Time maps the abstract arrival a to an instant. Arrival 0 is the zero
// time.Time (the earliest instant there is, and what a caller that does not
// track arrivals hands over); it must order before every other arrival and
// tie with itself like any other instant.
func c16Time(a int64) time.Time {
	if a == 0 {
		return time.Time{}
	}
	return time.Unix(1_700_000_000+a, 0)
}

// c16TimeRep returns the arrival instant a in one of three representations
// (UTC, a fixed +01:00 zone, the local zone), chosen per block: blocks that
// arrive at the same instant must tie on arrival whatever the Location of the
// time.Time value they were added with.
func c16TimeRep(a int64, sel byte) time.Time {
	t := c16Time(a)
	switch sel % 3 {
	case 0:
		return t.UTC()
	case 1:
		return t.In(time.FixedZone("c16+1", 3600))
	}
	return t
}

type c16Score struct {
	primaries int
	num       uint
	arrival   int64
	hash      common.Hash
}

// better: the total order of the property statement.
func (a c16Score) better(b c16Score) bool {
	if a.primaries != b.primaries {
		return a.primaries > b.primaries
	}
	if a.num != b.num {
		return a.num > b.num
	}
	if a.arrival != b.arrival {
		return a.arrival < b.arrival
	}
	return bytes.Compare(a.hash[:], b.hash[:]) < 0
}

func (m *c16Model) score(l int) c16Score {
	s := c16Score{num: m.b[l].num, arrival: m.b[l].arrival, hash: m.b[l].hash}
	for x := l; x != m.root; x = m.b[x].parent {
		if m.b[x].kind == kindPrimary {
			s.primaries++
		}
	}
	return s
}

type c16Ties struct {
	leaves       int
	count        int // leaves with the maximal primary count
	countHeight  int // ... that also share the winner's number
	countHtArr   int // ... and the winner's arrival time (hash decides)
	notHighest   bool
	arrivalLater bool // the winner beat an equally scored (count, height) leaf only by arrival
}

// best returns the model's best leaf and tie statistics.
func (m *c16Model) best() (int, c16Ties) {
	ls := m.leaves()
	best := ls[0]
	for _, l := range ls[1:] {
		if m.score(l).better(m.score(best)) {
			best = l
		}
	}
	bs := m.score(best)
	ti := c16Ties{leaves: len(ls)}
	for _, l := range ls {
		s := m.score(l)
		if s.num > bs.num {
			ti.notHighest = true
		}
		if s.primaries == bs.primaries {
			ti.count++
			if s.num == bs.num {
				ti.countHeight++
				if s.arrival == bs.arrival {
					ti.countHtArr++
				}
			}
		}
	}
	return best, ti
}

type c16Fataler interface {
	Fatalf(format string, args ...any)
}

func c16Describe(m *c16Model) string {
	var sb strings.Builder
	for _, l := range m.leaves() {
		s := m.score(l)
		fmt.Fprintf(&sb, " leaf%d(prim=%d num=%d arr=%d hash=%x)", l, s.primaries, s.num, s.arrival, s.hash[:3])
	}
	return sb.String()
}

// c16CheckBest compares the tree's best block with the model's.
func c16CheckBest(t c16Fataler, bt *BlockTree, m *c16Model, ctx string) (int, c16Ties) {
	want, ti := m.best()
	got := bt.BestBlockHash()
	if got != m.b[want].hash {
		g, ok := m.byHash[got]
		isLeaf := false
		for _, l := range m.leaves() {
			if ok && l == g {
				isLeaf = true
			}
		}
		t.Fatalf("%s: BestBlockHash = block %d (known=%v, leaf=%v), model best = %d; root %d, leaves:%s", ctx, g, ok, isLeaf, want, m.root, c16Describe(m))
	}
	// the by-number lookup on the best chain ends at the same block
	h, err := bt.GetHashByNumber(m.b[want].num)
	if err != nil || h != got {
		t.Fatalf("%s: GetHashByNumber(%d) = %x, %v; best block is %d", ctx, m.b[want].num, h[:3], err, want)
	}
	return want, ti
}

// c16Order draws a random parent-first order of the blocks in `set` whose
// parents are in `have` or earlier in the order.
func c16Order(t *rapid.T, m *c16Model, set map[int]bool, have map[int]bool, label string) []int {
	done := map[int]bool{}
	for k := range have {
		done[k] = true
	}
	var out []int
	for {
		var ready []int
		for i := 1; i < len(m.b); i++ {
			if set[i] && !done[i] && done[m.b[i].parent] {
				ready = append(ready, i)
			}
		}
		if len(ready) == 0 {
			return out
		}
		x := ready[rapid.IntRange(0, len(ready)-1).Draw(t, label)]
		out = append(out, x)
		done[x] = true
	}
}

func TestC16Best(t *testing.T) {
	defer kit.Flush()
	kit.Note("rule", c16Rule)
	rapid.Check(t, func(t *rapid.T) {
		n := rapid.IntRange(1, 24).Draw(t, "n")
		chain := rapid.SampledFrom([]int{0, 3, 6, 8}).Draw(t, "chain")
		pPrim := rapid.SampledFrom([]int{0, 3, 5, 7, 10}).Draw(t, "pPrimary")
		nArr := rapid.IntRange(1, 3).Draw(t, "arrivalValues")
		rootNum := rapid.SampledFrom([]uint{0, 0, 1, 9}).Draw(t, "rootNum")
		salt := byte(rapid.IntRange(0, 7).Draw(t, "salt"))
		parent := make([]int, n+1)
		kind := make([]int, n+1)
		arrival := make([]int64, n+1)
		for i := 1; i <= n; i++ {
			if i > 1 && rapid.IntRange(0, 9).Draw(t, "ext") < chain {
				parent[i] = i - 1
			} else {
				parent[i] = rapid.IntRange(0, i-1).Draw(t, "parent")
			}
			if rapid.IntRange(0, 9).Draw(t, "prim") < pPrim {
				kind[i] = kindPrimary
			} else {
				kind[i] = kindSecondaryPlain + rapid.IntRange(0, 1).Draw(t, "sec")
			}
			arrival[i] = int64(rapid.IntRange(0, nArr-1).Draw(t, "arrival"))
		}
		kind[0] = rapid.IntRange(0, 2).Draw(t, "rootKind")
		m := newC16Model(parent, kind, arrival, rootNum, salt)
		btA := NewBlockTreeFromRoot(m.b[0].hdr)
		btB := NewBlockTreeFromRoot(m.b[0].hdr)
		labels := map[string]bool{}
		var descr strings.Builder
		fmt.Fprintf(&descr, "root#%d tree[%s] marks[", rootNum, m.shape())
		for i := 1; i <= n; i++ {
			fmt.Fprintf(&descr, "%c%d", "PsS"[kind[i]], arrival[i])
		}
		descr.WriteString("] A:")

		all := map[int]bool{}
		for i := 1; i <= n; i++ {
			all[i] = true
		}
		orderA := c16Order(t, m, all, map[int]bool{0: true}, "nextA")
		withPrune := rapid.IntRange(0, 2).Draw(t, "withPrune") == 0
		k := n
		if withPrune {
			k = rapid.IntRange(0, n).Draw(t, "phase1")
		}
		ctx := func() string { return descr.String() }
		addTo := func(bt *BlockTree, i int, which string) {
			if err := bt.AddBlock(m.b[i].hdr, c16TimeRep(m.b[i].arrival, m.b[i].hash[1])); err != nil {
				t.Fatalf("%s: AddBlock(%d) into tree %s: %v", ctx(), i, which, err)
			}
		}
		// phase 1, order A, model follows A
		s1 := map[int]bool{}
		c16CheckBest(t, btA, m, ctx())
		for _, i := range orderA[:k] {
			fmt.Fprintf(&descr, " %d", i)
			addTo(btA, i, "A")
			m.add(i)
			s1[i] = true
			c16CheckBest(t, btA, m, ctx())
		}
		// phase 1, order B: the same set in an independent parent-first order
		descr.WriteString(" B:")
		for _, i := range c16Order(t, m, s1, map[int]bool{0: true}, "nextB") {
			fmt.Fprintf(&descr, " %d", i)
			addTo(btB, i, "B")
		}
		c16CheckBest(t, btB, m, ctx()+" (tree B)")
		if a, b := btA.BestBlockHash(), btB.BestBlockHash(); a != b {
			t.Fatalf("%s: the two insertion orders disagree on the best block", ctx())
		}
		if withPrune {
			al := m.aliveList()
			h := al[rapid.IntRange(0, len(al)-1).Draw(t, "pruneTarget")]
			for m.b[h].parent >= 0 && rapid.IntRange(0, 2).Draw(t, "walk") > 0 {
				h = m.b[h].parent
			}
			fmt.Fprintf(&descr, " X%d", h)
			btA.Prune(m.b[h].hash)
			btB.Prune(m.b[h].hash)
			m.prune(h)
			labels["finalised-first"] = true
			if h != 0 && m.b[h].kind == kindPrimary {
				labels["new-root-is-primary"] = true
			}
			c16CheckBest(t, btA, m, ctx())
			c16CheckBest(t, btB, m, ctx()+" (tree B)")
			// phase 2: everything that can still be added, again in two orders
			rest := map[int]bool{}
			have := map[int]bool{}
			for _, i := range m.aliveList() {
				have[i] = true
			}
			for i := 1; i <= n; i++ {
				if !m.added[i] {
					rest[i] = true
				}
			}
			descr.WriteString(" A:")
			for _, i := range orderA[k:] {
				if !m.canAdd(i) {
					continue
				}
				fmt.Fprintf(&descr, " %d", i)
				addTo(btA, i, "A")
				m.add(i)
				c16CheckBest(t, btA, m, ctx())
			}
			descr.WriteString(" B:")
			for _, i := range c16Order(t, m, rest, have, "nextB2") {
				if !m.alive[i] {
					t.Fatalf("harness: order B wants block %d which order A could not add", i)
				}
				fmt.Fprintf(&descr, " %d", i)
				addTo(btB, i, "B")
			}
		}
		_, ti := c16CheckBest(t, btA, m, ctx())
		c16CheckBest(t, btB, m, ctx()+" (tree B)")
		if a, b := btA.BestBlockHash(), btB.BestBlockHash(); a != b {
			t.Fatalf("%s: the two insertion orders disagree on the best block", ctx())
		}
		if ti.leaves == 1 {
			labels["single-leaf"] = true
		}
		if ti.count >= 2 {
			labels["tie-on-primary-count"] = true
		}
		if ti.countHeight >= 2 {
			labels["tie-on-count+height"] = true
		}
		if ti.countHtArr >= 2 {
			labels["tie-on-count+height+arrival(hash-decides)"] = true
		}
		if ti.notHighest {
			labels["best-is-not-the-highest-leaf"] = true
		}
		var ls []string
		for l := range labels {
			ls = append(ls, l)
		}
		kit.Case(descr.String(), ti.count >= 2, ls...)
	})
}

// TestC16Exhaustive: every parent[] array with <= N non-root blocks (every
// tree shape in every parent-first labelling) x every primary/secondary
// assignment x every arrival assignment over {0,1} (for 6 blocks: of the
// leaves, inner blocks arrive at 0); each built twice (index
// order, and a second parent-first order: level by level, highest index
// first) and compared with the model. N = 4 (quick), 6 (thorough).
func TestC16Exhaustive(t *testing.T) {
	defer kit.Flush()
	maxN := 4
	if os.Getenv("VERIF_TIER") == "thorough" {
		maxN = 6
	}
	trees, cases, ties, hashTies := 0, 0, 0, 0
	run := func(parent []int) {
		n := len(parent) - 1
		if n == 0 {
			return
		}
		trees++
		// second parent-first order
		var orderB []int
		level := []int{0}
		for len(level) > 0 {
			var next []int
			for i := n; i >= 1; i-- {
				for _, p := range level {
					if parent[i] == p {
						next = append(next, i)
					}
				}
			}
			orderB = append(orderB, next...)
			level = next
		}
		kind := make([]int, n+1)
		arrival := make([]int64, n+1)
		for pm := 0; pm < 1<<n; pm++ {
			for i := 1; i <= n; i++ {
				kind[i] = kindSecondaryPlain
				if pm>>(i-1)&1 == 1 {
					kind[i] = kindPrimary
				}
			}
			m := newC16Model(parent, kind, arrival, 0, byte(pm))
			for i := 1; i <= n; i++ {
				m.add(i)
			}
			// arrival masks: over all blocks for n <= 5; for n = 6 over the leaves only
			// (arrival times of inner blocks are fixed to 0 there, to bound the sweep)
			var varying []int
			for i := 1; i <= n; i++ {
				if n <= 5 || len(m.aliveKids(i)) == 0 {
					varying = append(varying, i)
				}
			}
			for am := 0; am < 1<<len(varying); am++ {
				for j, i := range varying {
					m.b[i].arrival = int64(am >> j & 1)
				}
				btA := NewBlockTreeFromRoot(m.b[0].hdr)
				btB := NewBlockTreeFromRoot(m.b[0].hdr)
				for i := 1; i <= n; i++ {
					if err := btA.AddBlock(m.b[i].hdr, c16TimeRep(m.b[i].arrival, m.b[i].hash[1])); err != nil {
						t.Fatalf("AddBlock: %v", err)
					}
				}
				for _, i := range orderB {
					if err := btB.AddBlock(m.b[i].hdr, c16TimeRep(m.b[i].arrival, m.b[i].hash[1])); err != nil {
						t.Fatalf("AddBlock: %v", err)
					}
				}
				ctx := fmt.Sprintf("exh tree[%s] primary-mask %b arrival-mask %b", m.shape(), pm, am)
				_, ti := c16CheckBest(t, btA, m, ctx)
				c16CheckBest(t, btB, m, ctx+" (order B)")
				cases++
				if ti.count >= 2 {
					ties++
				}
				if ti.countHtArr >= 2 {
					hashTies++
				}
				ls := []string{"exhaustive"}
				if ti.count >= 2 {
					ls = append(ls, "exh:tie-on-primary-count")
				}
				if ti.countHeight >= 2 {
					ls = append(ls, "exh:tie-on-count+height")
				}
				if ti.countHtArr >= 2 {
					ls = append(ls, "exh:tie-on-count+height+arrival(hash-decides)")
				}
				if ti.notHighest {
					ls = append(ls, "exh:best-is-not-the-highest-leaf")
				}
				kit.Case(ctx, ti.count >= 2, ls...)
			}
		}
	}
	var rec func(parent []int, n int)
	rec = func(parent []int, n int) {
		run(parent)
		if n == maxN {
			return
		}
		for p := 0; p <= n; p++ {
			rec(append(append([]int(nil), parent...), p), n+1)
		}
	}
	rec([]int{-1}, 0)
	msg := fmt.Sprintf("all %d parent arrays with 1..%d non-root blocks x all primary masks x all arrival masks over {0,1}: %d cases x 2 insertion orders, %d with >=2 leaves tied on the primary count, %d decided by the hash", trees, maxN, cases, ties, hashTies)
	kit.Note("exhaustive", msg)
	t.Log(msg)
}
