package allocator

// Check of property C28 (the Wasm heap allocator never hands out overlapping
// memory), injected into lib/runtime/allocator.
//
// The harness plays the Wasm program: it calls Allocate/Deallocate on a
// FreeingBumpHeapAllocator over a sparse fake runtime.Memory (so the full
// 4 GiB address space can be reached without using it) and writes a unique
// byte pattern into every block it is given.
//
// Oracle (independent of the allocator: an interval set of live blocks plus
// the bytes the harness wrote itself):
//
//   * every returned pointer is 8-aligned, ptr-8 >= heapBase (header and data
//     lie above the heap base), ptr + max(8, nextpow2(size)) <= mem.Size(),
//     and [ptr-8, ptr+rounded) is disjoint from the same range of every live block;
//   * after every operation every live block still holds exactly the bytes
//     the harness wrote into it;
//   * Deallocate of a live pointer succeeds;
//   * Deallocate of an invalid pointer (classes below) returns an error;
//   * Allocate(size > 32 MiB) returns an error;
//   * after ANY error every later call returns ErrAllocatorPoisoned and leaves memory alone;
//   * mem.Size() <= 4 GiB at all times;
//   * an allocation of <= 32 MiB may fail only when memory is (nearly) exhausted:
//     it must succeed while highWater + 8 + rounded <= 4 GiB - 64 KiB, where
//     highWater is the highest block end handed out so far (even an allocator
//     that never reuses anything can place the block there).
//
// Which invalid frees are asserted to fail. The allocator (a port of
// Substrate's freeing-bump allocator) recognises a block only by the 8-byte
// header in front of the pointer: bit 32 set = occupied, low word = order
// (< 23). It can therefore know a pointer to be invalid exactly when that
// header is unreadable or does not say "occupied":
//
//   low          ptr < 8 (no room for a header)
//   beyond       ptr > mem.Size() (header outside linear memory)
//   double-free  a pointer freed earlier and not handed out again since (header was rewritten as a free-list link)
//   virgin-above header window [ptr-8, ptr) in memory no block was ever placed in (above every block, all zero)
//   virgin-below header window entirely below the aligned heap base (the harness leaves that area zero)
//   interior     ptr strictly inside a live block where the harness's own bytes (all even, so bit 32 of any
//                8-byte window is clear) or the upper header bytes form the window
//
// A pointer whose preceding 8 bytes happen to look like an occupied header
// (arbitrary program data, garbage below the heap base) cannot be told from a
// real one by this design; such frees are not generated.

import (
	"errors"
	"fmt"
	"sort"
	"strings"
	"testing"

	kit "github.com/ChainSafe/gossamer/internal/verifkit"
	"pgregory.net/rapid"
)

const c28Rule = "one case = heap base (aligned/unaligned, 0 .. just below 4 GiB), initial memory pages and a history of up to 240 operations: " +
	"Allocate(size) with sizes at and around every power of two from 0 to 32 MiB (drawn mostly from a per-case palette of 2-5 orders so that orders recur), " +
	"Deallocate(live pointer), pattern write into every block; optionally one bad operation (Allocate > 32 MiB, or Deallocate of a low / beyond-memory / already-freed / " +
	"never-used / interior pointer) followed by operations that must all be refused; profiles: small, all-orders, near-limit (heap base close to 4 GiB), " +
	"fill (large blocks until exhaustion) and exact-fill (directed: fills the address space to the last byte, then allocates again). " +
	"non-trivial = the history contains a successful Deallocate followed by a successful Allocate of the same order while that freed block was still unused; " +
	"distinct by (heap base, pages, operation list)"

const (
	c28MaxPages  = 65536
	c28FourGiB   = uint64(1) << 32
	c28ChunkBits = 10
	c28ChunkSize = 1 << c28ChunkBits
)

// ---------------------------------------------------------------- fake memory

// sparseMem implements runtime.Memory over a map of 1 KiB chunks. Grow is
// honoured up to 65536 pages (4 GiB), like a wasm32 memory without a declared
// maximum. Reads and writes outside [0, Size()) fail, as in wazero.
type sparseMem struct {
	pages      uint32
	chunks     map[uint32]*[c28ChunkSize]byte
	grows      int
	refusedAsk bool // a Grow that would exceed 4 GiB was requested
}

var c28Spare []*[c28ChunkSize]byte

func newSparseMem(pages uint32) *sparseMem {
	return &sparseMem{pages: pages, chunks: map[uint32]*[c28ChunkSize]byte{}}
}

func (m *sparseMem) release() {
	for _, c := range m.chunks {
		*c = [c28ChunkSize]byte{}
		if len(c28Spare) < 4096 {
			c28Spare = append(c28Spare, c)
		}
	}
	m.chunks = nil
}

func (m *sparseMem) Size() uint64 { return uint64(m.pages) * PageSize }

func (m *sparseMem) Grow(delta uint32) (uint32, bool) {
	if uint64(m.pages)+uint64(delta) > c28MaxPages {
		m.refusedAsk = true
		return 0, false
	}
	prev := m.pages
	m.pages += delta
	m.grows++
	return prev, true
}

func (m *sparseMem) inRange(off uint32, n uint64) bool {
	return uint64(off)+n <= m.Size()
}

func (m *sparseMem) read(off uint64, dst []byte) {
	for len(dst) > 0 {
		ci, co := uint32(off>>c28ChunkBits), int(off&(c28ChunkSize-1))
		n := c28ChunkSize - co
		if n > len(dst) {
			n = len(dst)
		}
		if c := m.chunks[ci]; c != nil {
			copy(dst[:n], c[co:co+n])
		} else {
			for i := 0; i < n; i++ {
				dst[i] = 0
			}
		}
		dst = dst[n:]
		off += uint64(n)
	}
}

func (m *sparseMem) write(off uint64, src []byte) {
	for len(src) > 0 {
		ci, co := uint32(off>>c28ChunkBits), int(off&(c28ChunkSize-1))
		n := c28ChunkSize - co
		if n > len(src) {
			n = len(src)
		}
		c := m.chunks[ci]
		if c == nil {
			if k := len(c28Spare); k > 0 {
				c = c28Spare[k-1]
				c28Spare = c28Spare[:k-1]
			} else {
				c = new([c28ChunkSize]byte)
			}
			m.chunks[ci] = c
		}
		copy(c[co:co+n], src[:n])
		src = src[n:]
		off += uint64(n)
	}
}

func (m *sparseMem) ReadByte(off uint32) (byte, bool) { //nolint:govet
	if !m.inRange(off, 1) {
		return 0, false
	}
	var b [1]byte
	m.read(uint64(off), b[:])
	return b[0], true
}

func (m *sparseMem) ReadUint64Le(off uint32) (uint64, bool) {
	if !m.inRange(off, 8) {
		return 0, false
	}
	var b [8]byte
	m.read(uint64(off), b[:])
	var v uint64
	for i := 7; i >= 0; i-- {
		v = v<<8 | uint64(b[i])
	}
	return v, true
}

func (m *sparseMem) WriteUint64Le(off uint32, v uint64) bool {
	if !m.inRange(off, 8) {
		return false
	}
	var b [8]byte
	for i := 0; i < 8; i++ {
		b[i] = byte(v >> (8 * uint(i)))
	}
	m.write(uint64(off), b[:])
	return true
}

func (m *sparseMem) Read(off uint32, n uint64) ([]byte, bool) {
	if !m.inRange(off, n) || n > 1<<20 {
		return nil, false
	}
	b := make([]byte, n)
	m.read(uint64(off), b)
	return b, true
}

func (m *sparseMem) WriteByte(off uint32, v byte) bool { //nolint:govet
	if !m.inRange(off, 1) {
		return false
	}
	m.write(uint64(off), []byte{v})
	return true
}

func (m *sparseMem) Write(off uint32, v []byte) bool {
	if !m.inRange(off, uint64(len(v))) {
		return false
	}
	m.write(uint64(off), v)
	return true
}

// ---------------------------------------------------------------- the model

// specRounded: "max(8, nextpow2(size))" written from the property statement.
func specRounded(size uint32) uint64 {
	r := uint64(8)
	for r < uint64(size) {
		r <<= 1
	}
	return r
}

func specOrder(size uint32) int {
	o := 0
	for r := uint64(8); r < uint64(size); r <<= 1 {
		o++
	}
	return o
}

type span struct{ off, n uint64 } // written range relative to ptr

type block struct {
	id      int
	ptr     uint64
	size    uint32
	rounded uint64
	spans   []span
}

func (b *block) lo() uint64 { return b.ptr - 8 }
func (b *block) hi() uint64 { return b.ptr + b.rounded }

// patByte: the byte the harness writes at offset i of block id. Always even:
// no 8-byte window of harness data has bit 32 set (see "interior" above).
func patByte(id int, i uint64) byte {
	return byte((uint64(id)*37+i*11+uint64(id)*i)&0x7f) << 1
}

type harness struct {
	t        interface{ Fatalf(string, ...any) }
	mem      *sparseMem
	a        *FreeingBumpHeapAllocator
	heapBase uint32
	aligned  uint64
	live     []*block       // sorted by ptr
	freed    map[uint64]int // freed pointer -> order, removed when handed out again
	freedOrd [NumOrders]int // freed-and-unused blocks per order
	high     uint64         // highest block end ever handed out (>= aligned base)
	poisoned bool           // an operation has returned an error
	nextID   int
	ops      []string
	labels   map[string]bool
	nontriv  bool
	buf      []byte
}

func (h *harness) ctx() string {
	s := h.ops
	if len(s) > 60 {
		s = s[len(s)-60:]
	}
	return fmt.Sprintf("heapBase=%d pages0=%s ... %s", h.heapBase, h.ops[0], strings.Join(s, " "))
}

func (h *harness) failf(format string, args ...any) {
	h.t.Fatalf("%s\n  history: %s", fmt.Sprintf(format, args...), h.ctx())
}

// spansFor: which bytes of a block of that size the harness writes.
func spansFor(size uint32) []span {
	s := uint64(size)
	if s == 0 {
		return nil
	}
	if s <= 160 {
		return []span{{0, s}}
	}
	return []span{{0, 64}, {s / 2, 16}, {s - 64, 64}}
}

func (h *harness) writePattern(b *block) {
	for _, sp := range b.spans {
		if cap(h.buf) < int(sp.n) {
			h.buf = make([]byte, sp.n)
		}
		buf := h.buf[:sp.n]
		for i := range buf {
			buf[i] = patByte(b.id, sp.off+uint64(i))
		}
		if !h.mem.Write(uint32(b.ptr+sp.off), buf) {
			h.failf("harness could not write %d bytes at %d into block ptr=%d size=%d (memory size %d)", sp.n, b.ptr+sp.off, b.ptr, b.size, h.mem.Size())
		}
	}
}

func (h *harness) checkPatterns(after string) {
	for _, b := range h.live {
		for _, sp := range b.spans {
			if cap(h.buf) < int(sp.n) {
				h.buf = make([]byte, sp.n)
			}
			buf := h.buf[:sp.n]
			h.mem.read(b.ptr+sp.off, buf)
			for i := range buf {
				if want := patByte(b.id, sp.off+uint64(i)); buf[i] != want {
					h.failf("after %s: live block ptr=%d size=%d: byte at offset %d is %#x, the program wrote %#x", after, b.ptr, b.size, sp.off+uint64(i), buf[i], want)
				}
			}
		}
	}
	if h.mem.Size() > c28FourGiB {
		h.failf("after %s: memory size %d exceeds 4 GiB", after, h.mem.Size())
	}
}

func (h *harness) expectPoisoned(err error, what string) {
	if err == nil {
		h.failf("%s succeeded although an earlier operation had returned an error (allocator must be poisoned)", what)
	}
	if !errors.Is(err, ErrAllocatorPoisoned) {
		h.failf("%s after an earlier error returned %q, want ErrAllocatorPoisoned", what, err)
	}
}

// allocate performs Allocate(size) and judges the result.
func (h *harness) allocate(size uint32) {
	op := fmt.Sprintf("A%d", size)
	h.ops = append(h.ops, op)
	ptr32, err := h.a.Allocate(h.mem, size)
	ptr := uint64(ptr32)
	if h.poisoned {
		h.expectPoisoned(err, op)
		h.checkPatterns(op)
		return
	}
	if size > MaxPossibleAllocations { // 32 MiB, property statement
		if err == nil {
			h.failf("%s: request above 32 MiB succeeded with ptr=%d", op, ptr)
		}
		h.poisoned = true
		h.labels["bad:oversize"] = true
		h.checkPatterns(op)
		return
	}
	rounded := specRounded(size)
	order := specOrder(size)
	if err != nil {
		if h.high+8+rounded <= c28FourGiB-PageSize {
			h.failf("%s failed with %q although only %d bytes of address space were ever used (memory size %d)", op, err, h.high, h.mem.Size())
		}
		h.poisoned = true
		h.labels["exhausted"] = true
		h.checkPatterns(op)
		return
	}
	if ptr%8 != 0 {
		h.failf("%s returned ptr=%d, not 8-aligned", op, ptr)
	}
	if ptr < 8 || ptr-8 < uint64(h.heapBase) {
		h.failf("%s returned ptr=%d: block (header at %d) does not lie above the heap base %d", op, ptr, int64(ptr)-8, h.heapBase)
	}
	if ptr+rounded > h.mem.Size() {
		h.failf("%s returned ptr=%d: rounded block of %d bytes ends at %d, beyond linear memory (%d)", op, ptr, rounded, ptr+rounded, h.mem.Size())
	}
	nb := &block{id: h.nextID, ptr: ptr, size: size, rounded: rounded, spans: spansFor(size)}
	h.nextID++
	// disjoint from every live block (binary search on the sorted list)
	i := sort.Search(len(h.live), func(i int) bool { return h.live[i].ptr >= ptr })
	if i < len(h.live) && h.live[i].lo() < nb.hi() {
		o := h.live[i]
		h.failf("%s returned ptr=%d: block [%d,%d) overlaps live block ptr=%d size=%d [%d,%d)", op, ptr, nb.lo(), nb.hi(), o.ptr, o.size, o.lo(), o.hi())
	}
	if i > 0 && h.live[i-1].hi() > nb.lo() {
		o := h.live[i-1]
		h.failf("%s returned ptr=%d: block [%d,%d) overlaps live block ptr=%d size=%d [%d,%d)", op, ptr, nb.lo(), nb.hi(), o.ptr, o.size, o.lo(), o.hi())
	}
	h.live = append(h.live, nil)
	copy(h.live[i+1:], h.live[i:])
	h.live[i] = nb

	if h.freedOrd[order] > 0 {
		h.nontriv = true
		h.labels["alloc-after-free-same-order"] = true
	}
	if fo, ok := h.freed[ptr]; ok {
		delete(h.freed, ptr)
		h.freedOrd[fo]--
		h.labels["reused-freed-block"] = true
	}
	// any other freed pointer that now lies inside the new block is no longer a
	// "freed and unused" pointer (cannot happen with fixed size classes; kept so
	// that the double-free class stays sound for any allocator)
	for p, fo := range h.freed {
		if p >= nb.lo() && p < nb.hi()+8 {
			delete(h.freed, p)
			h.freedOrd[fo]--
		}
	}
	if nb.hi() > h.high {
		h.high = nb.hi()
	}
	h.writePattern(nb)
	h.labels[fmt.Sprintf("order:%02d", order)] = true
	if h.mem.Size() >= 1<<30 {
		h.labels["memory>=1GiB"] = true
	}
	if h.mem.Size() == c28FourGiB {
		h.labels["memory=4GiB"] = true
	}
	if nb.hi() == c28FourGiB {
		h.labels["block-ends-at-4GiB"] = true
	}
	h.checkPatterns(op)
}

// free performs Deallocate on the i-th live block.
func (h *harness) free(i int) {
	b := h.live[i]
	op := fmt.Sprintf("F%d", b.id)
	h.ops = append(h.ops, op)
	err := h.a.Deallocate(h.mem, uint32(b.ptr))
	if h.poisoned {
		h.expectPoisoned(err, op)
		h.checkPatterns(op)
		return
	}
	if err != nil {
		h.failf("%s: Deallocate of live pointer %d (size %d) failed: %v", op, b.ptr, b.size, err)
	}
	h.live = append(h.live[:i], h.live[i+1:]...)
	o := specOrder(b.size)
	h.freed[b.ptr] = o
	h.freedOrd[o]++
	h.checkPatterns(op)
}

// invalidFree performs Deallocate(ptr) for a pointer of one of the invalid
// classes and demands an error.
func (h *harness) invalidFree(class string, ptr uint64) {
	op := fmt.Sprintf("X%s@%d", class, ptr)
	h.ops = append(h.ops, op)
	err := h.a.Deallocate(h.mem, uint32(ptr))
	if h.poisoned {
		h.expectPoisoned(err, op)
		h.checkPatterns(op)
		return
	}
	if err == nil {
		h.failf("%s: Deallocate of an invalid pointer (%s) succeeded", op, class)
	}
	h.poisoned = true
	h.labels["bad:"+class] = true
	h.checkPatterns(op)
}

// pickInvalid chooses a pointer of the wanted class, or falls through to the
// next class that is available in the current state. Returns ok=false if none.
func (h *harness) pickInvalid(t *rapid.T, first int) (string, uint64, bool) {
	classes := []string{"double-free", "low", "beyond", "virgin-above", "virgin-below", "interior"}
	for k := 0; k < len(classes); k++ {
		c := classes[(first+k)%len(classes)]
		switch c {
		case "double-free":
			if len(h.freed) == 0 {
				continue
			}
			ps := make([]uint64, 0, len(h.freed))
			for p := range h.freed {
				ps = append(ps, p)
			}
			sort.Slice(ps, func(i, j int) bool { return ps[i] < ps[j] })
			return c, ps[rapid.IntRange(0, len(ps)-1).Draw(t, "dfIdx")], true
		case "low":
			return c, uint64(rapid.IntRange(0, 7).Draw(t, "lowPtr")), true
		case "beyond":
			sz := h.mem.Size()
			if sz >= c28FourGiB-1 {
				continue
			}
			return c, rapid.Uint64Range(sz+1, c28FourGiB-1).Draw(t, "beyondPtr"), true
		case "virgin-above":
			sz := h.mem.Size()
			if h.high+8 > sz || h.high+8 > c28FourGiB-1 {
				continue
			}
			hiLimit := sz
			if hiLimit > c28FourGiB-1 {
				hiLimit = c28FourGiB - 1
			}
			span := hiLimit - (h.high + 8)
			if span > 4096 && rapid.Bool().Draw(t, "vaNear") {
				span = 4096
			}
			return c, h.high + 8 + rapid.Uint64Range(0, span).Draw(t, "vaOff"), true
		case "virgin-below":
			if h.aligned < 8 {
				continue
			}
			return c, rapid.Uint64Range(8, h.aligned).Draw(t, "vbPtr"), true
		case "interior":
			var cand []*block
			for _, b := range h.live {
				if b.size >= 1 {
					cand = append(cand, b)
				}
			}
			if len(cand) == 0 {
				continue
			}
			b := cand[rapid.IntRange(0, len(cand)-1).Draw(t, "inBlk")]
			maxOff := b.spans[0].n // first written span starts at offset 0
			return c, b.ptr + rapid.Uint64Range(1, maxOff).Draw(t, "inOff"), true
		}
	}
	return "", 0, false
}

// ---------------------------------------------------------------- generators

var c28Boundary = func() []uint32 {
	s := []uint32{0, 1, 2, 7, 8, 9}
	for k := uint(4); k <= 25; k++ {
		s = append(s, 1<<k-1, 1<<k)
		if k < 25 {
			s = append(s, 1<<k+1)
		}
	}
	return s
}()

var c28TooLarge = []uint32{1<<25 + 1, 1<<25 + 8, 1 << 26, 1<<31 - 1, 1 << 31, 1<<31 + 1, 1<<32 - 8, 1<<32 - 1}

// sizeInOrder: a size whose rounded block has the given order (0..22).
func sizeInOrder(t *rapid.T, o int) uint32 {
	hi := uint32(8) << uint(o)
	lo := hi/2 + 1
	if o == 0 {
		lo = 0
	}
	switch rapid.IntRange(0, 3).Draw(t, "szPos") {
	case 0:
		return lo
	case 1:
		return hi
	case 2:
		return hi - 1
	}
	return rapid.Uint32Range(lo, hi).Draw(t, "szIn")
}

func genSize(t *rapid.T, palette []int, maxOrder int) uint32 {
	switch r := rapid.IntRange(0, 9).Draw(t, "szKind"); {
	case r <= 5:
		return sizeInOrder(t, palette[rapid.IntRange(0, len(palette)-1).Draw(t, "pal")])
	case r <= 7:
		for {
			s := rapid.SampledFrom(c28Boundary).Draw(t, "szB")
			if specOrder(s) <= maxOrder {
				return s
			}
		}
	default:
		return uint32(rapid.IntRange(0, 300).Draw(t, "szSmall"))
	}
}

type c28Setup struct {
	profile  string
	pages    uint32
	heapBase uint32
	palette  []int
	maxOrder int
	nOps     int
}

func genSetup(t *rapid.T) c28Setup {
	var s c28Setup
	s.profile = rapid.SampledFrom([]string{"small", "small", "all", "all", "near-limit", "near-limit", "fill", "exact-fill"}).Draw(t, "profile")
	np := rapid.IntRange(2, 5).Draw(t, "nPalette")
	switch s.profile {
	case "small":
		s.maxOrder = 9
		s.pages = rapid.SampledFrom([]uint32{0, 1, 1, 2, 3, 16, 17}).Draw(t, "pages")
		s.nOps = rapid.IntRange(1, 80).Draw(t, "nOps")
	case "all", "fill", "exact-fill":
		s.maxOrder = 22
		s.pages = rapid.SampledFrom([]uint32{0, 1, 2, 17, 512, 1024, 2048, 32768}).Draw(t, "pages")
		s.nOps = rapid.IntRange(1, 80).Draw(t, "nOps")
		if s.profile != "all" {
			s.nOps = rapid.IntRange(1, 30).Draw(t, "nOps") // mixed prefix before the fill
		}
	case "near-limit":
		s.maxOrder = rapid.SampledFrom([]int{3, 6, 9, 14}).Draw(t, "maxOrder")
		s.pages = rapid.SampledFrom([]uint32{65535, 65536, 65536, 65000, 65534}).Draw(t, "pages")
		s.nOps = rapid.IntRange(1, 120).Draw(t, "nOps")
	}
	for i := 0; i < np; i++ {
		s.palette = append(s.palette, rapid.IntRange(0, s.maxOrder).Draw(t, "palOrder"))
	}
	size := uint64(s.pages) * PageSize
	// heap base: real modules have __heap_base inside their initial memory and
	// (far) below 4 GiB - 16, so that aligning it up cannot overflow
	maxBase := size
	if maxBase > c28FourGiB-16 {
		maxBase = c28FourGiB - 16
	}
	switch {
	case s.profile == "near-limit":
		// distance of the heap base from the 4 GiB end of the address space
		back := rapid.Uint64Range(16, 1<<uint(rapid.IntRange(5, 16).Draw(t, "backBits"))).Draw(t, "back")
		b := c28FourGiB - back
		if b > maxBase {
			b = maxBase
		}
		s.heapBase = uint32(b)
	default:
		switch rapid.IntRange(0, 3).Draw(t, "hbKind") {
		case 0:
			s.heapBase = uint32(rapid.SampledFrom([]uint64{0, 1, 7, 8, 9, 15, 16, 1000, 1024, 65535, 65536, 65537, 1048579}).Draw(t, "hbFixed"))
		case 1:
			s.heapBase = uint32(rapid.Uint64Range(0, maxBase).Draw(t, "hbAny"))
		case 2:
			s.heapBase = uint32(maxBase - rapid.Uint64Range(0, min(maxBase, 64)).Draw(t, "hbEnd"))
		default:
			s.heapBase = uint32(rapid.Uint64Range(0, min(maxBase, 4096)).Draw(t, "hbLow"))
		}
		if uint64(s.heapBase) > maxBase {
			s.heapBase = uint32(maxBase)
		}
	}
	return s
}

// exactFill (directed, no random choice): with every free list drained, choose
// block sizes so that the last block ends exactly at 4 GiB.
func (h *harness) exactFill() {
	for n := 0; n < 400 && !h.poisoned; n++ {
		// drain: while blocks are freed-and-unused, allocating their order may reuse them
		drained := true
		for o := 0; o < int(NumOrders); o++ {
			if h.freedOrd[o] > 0 {
				h.allocate(uint32(8) << uint(o))
				drained = false
				break
			}
		}
		if !drained {
			continue
		}
		r := (c28FourGiB - h.high) / 8 // remaining address space in units of 8 bytes
		if r < 2 {
			break
		}
		k := 22
		for k > 0 && (uint64(1)<<uint(k))+1 > r {
			k--
		}
		if r-((uint64(1)<<uint(k))+1) == 1 && k > 0 {
			k--
		}
		h.allocate(uint32(8) << uint(k))
	}
}

func newHarness(t interface{ Fatalf(string, ...any) }, profile string, heapBase, pages uint32) *harness {
	h := &harness{
		t: t, mem: newSparseMem(pages), a: NewFreeingBumpHeapAllocator(heapBase), heapBase: heapBase,
		aligned: (uint64(heapBase) + 7) / 8 * 8,
		freed:   map[uint64]int{}, labels: map[string]bool{},
	}
	h.high = h.aligned
	h.ops = append(h.ops, fmt.Sprintf("%s hb=%d pages=%d", profile, heapBase, pages))
	return h
}

// ---------------------------------------------------------------- the property

func runC28(t *rapid.T) {
	s := genSetup(t)
	h := newHarness(t, s.profile, s.heapBase, s.pages)
	mem := h.mem
	defer mem.release()
	h.labels["profile:"+s.profile] = true
	if s.heapBase%8 != 0 {
		h.labels["heapBase-unaligned"] = true
	}

	// at most one deliberately bad operation, at a drawn step
	badAt, badKind := -1, 0
	if rapid.IntRange(0, 2).Draw(t, "withBad") == 0 {
		badAt = rapid.IntRange(0, s.nOps).Draw(t, "badAt")
		badKind = rapid.IntRange(0, 6).Draw(t, "badKind") // 0 = oversize, 1.. = invalid free class
	}
	doBad := func() {
		if badKind == 0 {
			h.allocate(rapid.SampledFrom(c28TooLarge).Draw(t, "tooLarge"))
			return
		}
		if c, p, ok := h.pickInvalid(t, badKind-1); ok {
			h.invalidFree(c, p)
		}
	}
	afterPoison := 0
	step := func() bool { // one mixed operation; false = stop the history
		if h.poisoned {
			afterPoison++
			if afterPoison > 4 {
				return false
			}
			h.labels["ops-after-poison"] = true
			// a refused operation of every kind
			switch rapid.IntRange(0, 2).Draw(t, "pKind") {
			case 0:
				h.allocate(genSize(t, s.palette, s.maxOrder))
			case 1:
				if len(h.live) > 0 {
					h.free(rapid.IntRange(0, len(h.live)-1).Draw(t, "pFree"))
				} else {
					h.allocate(8)
				}
			default:
				if c, p, ok := h.pickInvalid(t, rapid.IntRange(0, 5).Draw(t, "pBad")); ok {
					h.invalidFree(c, p)
				}
			}
			return true
		}
		if len(h.live) > 0 && rapid.IntRange(0, 9).Draw(t, "opKind") < 4 {
			h.free(rapid.IntRange(0, len(h.live)-1).Draw(t, "freeIdx"))
		} else {
			h.allocate(genSize(t, s.palette, s.maxOrder))
		}
		return true
	}

	for i := 0; i < s.nOps; i++ {
		if i == badAt {
			doBad()
		}
		if !step() {
			break
		}
	}
	if badAt == s.nOps && !h.poisoned {
		doBad()
	}

	switch s.profile {
	case "fill":
		// large blocks until the address space is exhausted, with frees in between
		o := rapid.IntRange(20, 22).Draw(t, "fillOrder")
		for n := 0; n < 1500 && !h.poisoned; n++ {
			if len(h.live) > 0 && rapid.IntRange(0, 7).Draw(t, "fillFree") == 0 {
				h.free(rapid.IntRange(0, len(h.live)-1).Draw(t, "fillFreeIdx"))
				continue
			}
			h.allocate(sizeInOrder(t, o))
		}
		if !h.poisoned {
			h.failf("fill profile: 1500 operations with blocks of order %d did not exhaust a 4 GiB address space", o)
		}
	case "exact-fill":
		h.exactFill()
		if !h.poisoned && h.high == c28FourGiB {
			h.labels["filled-to-last-byte"] = true
		}
	}
	if s.profile == "fill" || s.profile == "exact-fill" || (s.profile == "near-limit" && !h.poisoned && c28FourGiB-h.high < 1<<16) {
		// the address space is (nearly) full: a few more operations of every kind
		for n := 0; n < 6; n++ {
			if len(h.live) > 0 && rapid.IntRange(0, 2).Draw(t, "tailFree") == 0 {
				h.free(rapid.IntRange(0, len(h.live)-1).Draw(t, "tailFreeIdx"))
			} else {
				h.allocate(genSize(t, s.palette, s.maxOrder))
			}
		}
		h.labels["tail-ops-at-full-memory"] = true
	}

	if mem.refusedAsk {
		h.labels["grow-beyond-4GiB-requested"] = true
	}
	if mem.grows > 0 {
		h.labels["memory-grew"] = true
	}
	ls := make([]string, 0, len(h.labels))
	for l := range h.labels {
		ls = append(ls, l)
	}
	sort.Strings(ls)
	kit.Case(strings.Join(h.ops, " "), h.nontriv, ls...)
}

func TestC28History(t *testing.T) {
	defer kit.Flush()
	kit.Note("rule", c28Rule)
	rapid.Check(t, runC28)
}

// TestC28Regressions: deterministic replays of failures found on the pinned
// tree. 1: the address space filled to its last byte (block ending exactly at
// 4 GiB) wrapped the 32-bit bumper to 0, and the next allocation was placed at
// address 8, below the heap base and on top of the first live block.
func TestC28Regressions(t *testing.T) {
	defer kit.Flush()
	for _, c := range []struct{ heapBase, pages uint32 }{{1, 1}, {8, 0}, {65539, 2}, {1 << 20, 17}} {
		h := newHarness(t, "regression-exact-fill", c.heapBase, c.pages)
		h.allocate(0)
		h.allocate(100)
		h.free(0)
		h.exactFill()
		full := h.high
		for _, sz := range []uint32{0, 100, 8, 1 << 25} {
			h.allocate(sz)
		}
		if len(h.live) > 0 {
			h.free(0)
		}
		h.mem.release()
		kit.Case(fmt.Sprintf("regression exact fill hb=%d pages=%d filled-to=%d poisoned=%v", c.heapBase, c.pages, full, h.poisoned), true, "regression")
	}
}
