package sync

// C32 - Full sync imports only consistent chains, parents first.
//
// A FullSyncStrategy literal (real request queue, real unreadyBlocks, real
// Process / validateResults / sort / merge code) is wired to
//   * a tree-model block state: the set of known header hashes plus the
//     highest finalised header, nothing else (every other BlockState method
//     panics if Process ever calls it), and
//   * a recording importer that mirrors what blockImporter.importBlock does
//     before it executes a block: a block whose stated hash is already known
//     is skipped, anything else is ACCEPTED (handed to execution) and becomes
//     known under the hash of its header.
// Responses are cut from a generated block tree: a partition of the tree into
// ascending chains, plus duplicates / overlapping chains, minus dropped
// chains (gaps), shuffled, each attached to the request it answers
// (ascending by number, or descending by hash with a descending payload, as
// full sync itself issues them), fed to Process in 1-4 batches. Adversarial
// responses: broken parent link, forged stated hash (random, or chosen so
// that the stated hashes link although the headers do not), payload in the
// wrong direction.

import (
	"fmt"
	"sort"
	"strings"
	"testing"

	"container/list"

	"github.com/ChainSafe/gossamer/dot/network/messages"
	"github.com/ChainSafe/gossamer/dot/types"
	"github.com/ChainSafe/gossamer/internal/log"
	kit "github.com/ChainSafe/gossamer/internal/verifkit"
	"github.com/ChainSafe/gossamer/lib/common"
	"github.com/libp2p/go-libp2p/core/peer"
	"pgregory.net/rapid"
)

func init() {
	log.Patch(log.SetLevel(log.Critical))
	logger.Patch(log.SetLevel(log.Critical))
}

// ------------------------------------------------------------------ fakes

// c32State implements the two BlockState calls Process needs. The embedded
// nil interface makes any other call panic (the harness would notice).
type c32State struct {
	BlockState
	known     map[common.Hash]*types.Header
	finalised *types.Header
}

func (s *c32State) HasHeader(h common.Hash) (bool, error) { _, ok := s.known[h]; return ok, nil }
func (s *c32State) GetHighestFinalisedHeader() (*types.Header, error) {
	return s.finalised, nil
}
func (s *c32State) IsPaused() bool { return false }

type c32Call struct {
	resp     int // index of the response the BlockData object came from
	blk      int // tree index of the header (-1: unknown header)
	accepted bool
}

type c32Importer struct {
	st        *c32State
	source    map[*types.BlockData]int // BlockData object -> response index
	bad       map[int]string           // response index -> why it must be rejected
	byHash    map[common.Hash]int      // real header hash -> tree index
	justified map[int]bool             // tree blocks whose acceptance finalises them
	calls     []c32Call
	violation string
}

func (im *c32Importer) fail(format string, args ...any) {
	if im.violation == "" {
		im.violation = fmt.Sprintf(format, args...)
	}
}

// importBlock mirrors blockImporter.importBlock up to the point where the real
// one starts executing the block.
func (im *c32Importer) importBlock(bd *types.BlockData, _ BlockOrigin) (bool, error) {
	src, ok := im.source[bd]
	if !ok {
		src = -1
	}
	call := c32Call{resp: src, blk: -1}
	if bd.Header != nil {
		if i, ok := im.byHash[bd.Header.Hash()]; ok {
			call.blk = i
		}
	}
	if _, exists := im.st.known[bd.Hash]; exists {
		im.calls = append(im.calls, call) // raw duplicate call: skipped like the real importer does
		return false, nil
	}
	call.accepted = true
	im.calls = append(im.calls, call)
	if bd.Header == nil {
		im.fail("a block without header was handed to the importer (response %d)", src)
		return true, nil
	}
	real := bd.Header.Hash()
	if why, isBad := im.bad[src]; isBad {
		im.fail("block #%d (number %d) of response %d was handed to the importer although that response must be rejected: %s",
			call.blk, bd.Header.Number, src, why)
	}
	if _, twice := im.st.known[real]; twice {
		im.fail("block #%d (number %d) accepted twice (second time with stated hash %s)", call.blk, bd.Header.Number, bd.Hash.Short())
	}
	if _, parentKnown := im.st.known[bd.Header.ParentHash]; !parentKnown {
		im.fail("block #%d (number %d, response %d) handed to the importer while its parent is unknown",
			call.blk, bd.Header.Number, src)
	}
	im.st.known[real] = bd.Header
	if im.justified[call.blk] && bd.Header.Number > im.st.finalised.Number {
		im.st.finalised = bd.Header
	}
	return true, nil
}

func c32NewStrategy(st *c32State, im *c32Importer) *FullSyncStrategy {
	return &FullSyncStrategy{
		blockState:    st,
		numOfTasks:    defaultNumOfTasks,
		blockImporter: im,
		unreadyBlocks: newUnreadyBlocks(),
		requestQueue:  &requestsQueue[*messages.BlockRequestMessage]{queue: list.New()},
		peers:         &peerViewSet{view: make(map[peer.ID]peerView), target: 0},
	}
}

// ------------------------------------------------------------------ tree

type c32Tree struct {
	parent []int // parent[0] = -1
	hdr    []*types.Header
	number []uint
	byHash map[common.Hash]int
}

func c32MakeTree(parent []int) *c32Tree {
	tr := &c32Tree{parent: parent, byHash: map[common.Hash]int{}}
	for i, p := range parent {
		var h *types.Header
		if p < 0 {
			h = types.NewHeader(common.Hash{}, common.Hash{0x32}, common.Hash{0xee}, 0, types.NewDigest())
		} else {
			h = types.NewHeader(tr.hdr[p].Hash(), common.Hash{0x32, byte(i)}, common.Hash{byte(i), byte(i >> 8), 0x32},
				tr.number[p]+1, types.NewDigest())
		}
		tr.hdr = append(tr.hdr, h)
		tr.number = append(tr.number, h.Number)
		tr.byHash[h.Hash()] = i
	}
	return tr
}

// blockData makes a fresh BlockData object (fresh header copy) for block i.
func (tr *c32Tree) blockData(i int, justified bool) *types.BlockData {
	src := tr.hdr[i]
	h := types.NewHeader(src.ParentHash, src.StateRoot, src.ExtrinsicsRoot, src.Number, src.Digest)
	bd := &types.BlockData{Hash: h.Hash(), Header: h, Body: types.NewBody([]types.Extrinsic{{byte(i)}})}
	if justified {
		j := []byte{0x6a, byte(i)}
		bd.Justification = &j
	}
	return bd
}

// ------------------------------------------------------------------ responses

type c32Resp struct {
	blocks    []int // tree indexes, ascending chain order (before any damage)
	desc      bool  // answers a descending-by-hash request (payload descending)
	damage    string
	bad       string // non-empty: must be rejected, with the reason
	payload   []*types.BlockData
	req       *messages.BlockRequestMessage
	who       peer.ID
	completed bool
	sent      string // payload as sent: tree index per item, '*' = stated hash is not the header hash
}

func c32Sent(tr *c32Tree, payload []*types.BlockData) string {
	var sb strings.Builder
	for i, bd := range payload {
		if i > 0 {
			sb.WriteByte(',')
		}
		idx, ok := tr.byHash[bd.Header.Hash()]
		if !ok {
			idx = -1
		}
		fmt.Fprintf(&sb, "%d", idx)
		if bd.Hash != bd.Header.Hash() {
			if k, ok := tr.byHash[bd.Hash]; ok {
				fmt.Fprintf(&sb, "*as%d", k)
			} else {
				sb.WriteByte('*')
			}
		}
	}
	return sb.String()
}

func (r *c32Resp) String() string {
	var sb strings.Builder
	if r.desc {
		sb.WriteString("desc")
	} else {
		sb.WriteString("asc")
	}
	sb.WriteString(fmt.Sprint(r.blocks))
	if r.damage != "" {
		sb.WriteString("!" + r.damage + "!sent=" + r.sent)
	}
	if !r.completed {
		sb.WriteString("!incomplete")
	}
	return sb.String()
}

// c32IsHonestChain is the oracle's reading of "a hash-linked chain whose
// stated hashes are the hashes of the headers", on the payload as sent,
// in the direction of the request.
func c32IsHonestChain(payload []*types.BlockData, desc bool) (bool, string) {
	seq := payload
	if desc {
		seq = make([]*types.BlockData, len(payload))
		for i := range payload {
			seq[len(payload)-1-i] = payload[i]
		}
	}
	for i, bd := range seq {
		if bd.Header == nil {
			return false, fmt.Sprintf("item %d has no header", i)
		}
		if bd.Hash != bd.Header.Hash() {
			return false, fmt.Sprintf("item %d (number %d): stated hash differs from the hash of its header", i, bd.Header.Number)
		}
		if i > 0 {
			prev := seq[i-1].Header
			if bd.Header.ParentHash != prev.Hash() || bd.Header.Number != prev.Number+1 {
				return false, fmt.Sprintf("item %d (number %d) is not the child of item %d (number %d)", i, bd.Header.Number, i-1, prev.Number)
			}
		}
	}
	return true, ""
}

type c32Case struct {
	tree      *c32Tree
	pre       int          // blocks 0..pre are known before the first batch
	justified map[int]bool // blocks that finalise themselves when accepted
	resps     []*c32Resp
	batches   [][]int // response indexes per batch, in feed order
}

func (c *c32Case) describe() string {
	var sb strings.Builder
	fmt.Fprintf(&sb, "parents=%v pre=%d", c.tree.parent, c.pre)
	if len(c.justified) > 0 {
		var js []int
		for j := range c.justified {
			js = append(js, j)
		}
		sort.Ints(js)
		fmt.Fprintf(&sb, " justified=%v", js)
	}
	for bi, b := range c.batches {
		fmt.Fprintf(&sb, " | batch%d:", bi)
		for _, ri := range b {
			fmt.Fprintf(&sb, " r%d=%s", ri, c.resps[ri])
		}
	}
	return sb.String()
}

func c32GenTree(t *rapid.T) *c32Tree {
	n := rapid.IntRange(1, 40).Draw(t, "n")
	parent := []int{-1}
	for i := 1; i <= n; i++ {
		p := i - 1
		if rapid.IntRange(0, 4).Draw(t, "forkHere") == 0 {
			p = rapid.IntRange(0, i-1).Draw(t, "parent")
		}
		parent = append(parent, p)
	}
	return c32MakeTree(parent)
}

// c32Path returns the ascending chain that ends at block `end` and has at
// most `maxLen` blocks, never including block 0 (genesis is never sent).
func c32Path(tr *c32Tree, end, maxLen int) []int {
	var rev []int
	for i := end; i > 0 && len(rev) < maxLen; i = tr.parent[i] {
		rev = append(rev, i)
	}
	out := make([]int, len(rev))
	for i := range rev {
		out[len(rev)-1-i] = rev[i]
	}
	return out
}

func c32Gen(t *rapid.T) *c32Case {
	tr := c32GenTree(t)
	n := len(tr.parent) - 1
	c := &c32Case{tree: tr, justified: map[int]bool{}}
	if rapid.IntRange(0, 2).Draw(t, "hasPre") == 0 {
		c.pre = rapid.IntRange(0, n/2).Draw(t, "pre")
	}
	if rapid.IntRange(0, 2).Draw(t, "finality") == 0 {
		k := rapid.IntRange(2, 7).Draw(t, "justEvery")
		for i := 1; i <= n; i++ {
			if i%k == 0 {
				c.justified[i] = true
			}
		}
	}

	// partition of the not yet known blocks into ascending chains
	covered := make([]bool, n+1)
	var chains [][]int
	for end := n; end > c.pre; end-- {
		if covered[end] {
			continue
		}
		maxLen := rapid.IntRange(1, 8).Draw(t, "chainLen")
		var rev []int
		for i := end; i > c.pre && !covered[i] && len(rev) < maxLen; i = tr.parent[i] {
			rev = append(rev, i)
			covered[i] = true
		}
		ch := make([]int, len(rev))
		for i := range rev {
			ch[len(rev)-1-i] = rev[i]
		}
		chains = append(chains, ch)
	}
	// gaps: drop some chains
	if len(chains) > 1 && rapid.IntRange(0, 4).Draw(t, "gap") == 0 {
		d := rapid.IntRange(0, len(chains)-1).Draw(t, "dropped")
		chains = append(chains[:d], chains[d+1:]...)
	}
	// duplicates and overlapping chains (may reach into the known prefix)
	for x := rapid.IntRange(0, 3).Draw(t, "extra"); x > 0; x-- {
		end := rapid.IntRange(1, n).Draw(t, "dupEnd")
		chains = append(chains, c32Path(tr, end, rapid.IntRange(1, 8).Draw(t, "dupLen")))
	}

	for _, ch := range chains {
		c.resps = append(c.resps, &c32Resp{blocks: ch, completed: true})
	}
	// adversarial copies / damage
	nAdv := 0
	if rapid.Bool().Draw(t, "adversarial") {
		nAdv = rapid.IntRange(1, 2).Draw(t, "nAdv")
	}
	for a := 0; a < nAdv; a++ {
		ri := rapid.IntRange(0, len(c.resps)-1).Draw(t, "victim")
		victim := c.resps[ri]
		if victim.damage != "" {
			continue
		}
		kind := rapid.SampledFrom([]string{"broken-link", "forged-random", "forged-link", "wrong-direction", "forged-known"}).Draw(t, "damage")
		// damage either the response itself (its blocks then only arrive damaged: a gap)
		// or an additional copy of it (the honest one arrives as well)
		if rapid.Bool().Draw(t, "damageCopy") {
			cp := &c32Resp{blocks: append([]int(nil), victim.blocks...), completed: true}
			c.resps = append(c.resps, cp)
			victim = cp
		}
		victim.damage = kind
	}
	// a few requests that no peer answered
	for x := rapid.IntRange(0, 4).Draw(t, "incomplete"); x == 0 && len(c.resps) > 0; x = 1 {
		c.resps = append(c.resps, &c32Resp{blocks: []int{rapid.IntRange(1, n).Draw(t, "incBlk")}, completed: false})
	}

	// materialise payloads and requests
	for ri, r := range c.resps {
		r.who = peer.ID(fmt.Sprintf("c32-peer-%d", ri))
		r.desc = rapid.IntRange(0, 3).Draw(t, "desc") == 0
		for _, b := range r.blocks {
			r.payload = append(r.payload, tr.blockData(b, c.justified[b]))
		}
		c32Damage(t, tr, r)
		first, last := r.blocks[0], r.blocks[len(r.blocks)-1]
		if r.desc {
			// what full sync asks during an ancestor search: descending from a hash
			r.req = messages.NewBlockRequest(*messages.NewFromBlock(tr.hdr[last].Hash()), messages.MaxBlocksInResponse,
				messages.BootstrapRequestData, messages.Descending)
			for i, j := 0, len(r.payload)-1; i < j; i, j = i+1, j-1 {
				r.payload[i], r.payload[j] = r.payload[j], r.payload[i]
			}
		} else {
			r.req = messages.NewBlockRequest(*messages.NewFromBlock(tr.number[first]), uint32(len(r.blocks)),
				messages.BootstrapRequestData, messages.Ascending)
		}
		if r.damage == "wrong-direction" {
			for i, j := 0, len(r.payload)-1; i < j; i, j = i+1, j-1 {
				r.payload[i], r.payload[j] = r.payload[j], r.payload[i]
			}
		}
		if r.completed {
			r.sent = c32Sent(tr, r.payload)
			if ok, why := c32IsHonestChain(r.payload, r.desc); !ok {
				r.bad = why
			} else if r.damage != "" {
				r.damage = "" // the damage had no effect on this response (too short, no foreign block available)
			}
		}
	}

	// feed order and batches
	order := rapid.Permutation(c32Iota(len(c.resps))).Draw(t, "order")
	nb := rapid.IntRange(1, 4).Draw(t, "batches")
	c.batches = make([][]int, nb)
	for _, ri := range order {
		b := 0
		if nb > 1 {
			b = rapid.IntRange(0, nb-1).Draw(t, "batchOf")
		}
		c.batches[b] = append(c.batches[b], ri)
	}
	return c
}

func c32Iota(n int) []int {
	out := make([]int, n)
	for i := range out {
		out[i] = i
	}
	return out
}

// c32Damage applies r.damage to the ascending payload (before the payload is
// put into the direction of the request).
func c32Damage(t *rapid.T, tr *c32Tree, r *c32Resp) {
	if r.damage == "" || !r.completed {
		return
	}
	n := len(r.payload)
	randomHash := func() common.Hash {
		var h common.Hash
		copy(h[:], rapid.SliceOfN(rapid.Byte(), 32, 32).Draw(t, "forgedHash"))
		h[0] |= 1 // never the zero hash
		return h
	}
	// a block with the given number that is not block `not`
	foreign := func(number uint, not int) int {
		var cands []int
		for i := 1; i < len(tr.parent); i++ {
			if tr.number[i] == number && i != not {
				cands = append(cands, i)
			}
		}
		if len(cands) == 0 {
			return -1
		}
		return cands[rapid.IntRange(0, len(cands)-1).Draw(t, "foreign")]
	}
	switch r.damage {
	case "broken-link":
		if n < 2 {
			return
		}
		j := rapid.IntRange(1, n-1).Draw(t, "breakAt")
		f := foreign(tr.number[r.blocks[j]], r.blocks[j])
		if f < 0 || tr.parent[f] == r.blocks[j-1] {
			// no block of another branch at that height: swap two neighbours instead
			r.payload[j-1], r.payload[j] = r.payload[j], r.payload[j-1]
			return
		}
		r.payload[j] = tr.blockData(f, false)
	case "forged-random":
		j := rapid.IntRange(0, n-1).Draw(t, "forgeAt")
		if rapid.Bool().Draw(t, "forgeLast") {
			j = n - 1
		}
		r.payload[j].Hash = randomHash()
	case "forged-known":
		// the stated hash is the hash of another (real) block
		j := n - 1
		other := rapid.IntRange(0, len(tr.parent)-1).Draw(t, "otherBlock")
		r.payload[j].Hash = tr.hdr[other].Hash()
	case "forged-link":
		// headers do not link, stated hashes do: item j-1 states the parent hash of a foreign item j
		if n < 2 {
			r.payload[0].Hash = randomHash()
			return
		}
		j := rapid.IntRange(1, n-1).Draw(t, "forgeLinkAt")
		f := foreign(tr.number[r.blocks[j]], r.blocks[j])
		if f < 0 || tr.parent[f] == r.blocks[j-1] {
			r.payload[n-1].Hash = randomHash()
			return
		}
		r.payload = r.payload[:j+1]
		r.payload[j] = tr.blockData(f, false)
		r.payload[j-1].Hash = tr.hdr[f].ParentHash
	case "wrong-direction":
		// done by the caller after the direction of the request is applied
	}
}

// ------------------------------------------------------------------ run

type c32Outcome struct {
	accepted  int
	dupCalls  int
	badCount  int
	reported  int // bad responses whose peer got a reputation change
	knownAll  bool
	violation string
}

func c32Run(c *c32Case) c32Outcome {
	tr := c.tree
	st := &c32State{known: map[common.Hash]*types.Header{}, finalised: tr.hdr[0]}
	for i := 0; i <= c.pre; i++ {
		st.known[tr.hdr[i].Hash()] = tr.hdr[i]
	}
	im := &c32Importer{st: st, source: map[*types.BlockData]int{}, bad: map[int]string{}, byHash: tr.byHash, justified: c.justified}
	for ri, r := range c.resps {
		for _, bd := range r.payload {
			im.source[bd] = ri
		}
		if r.bad != "" {
			im.bad[ri] = r.bad
		}
	}
	f := c32NewStrategy(st, im)
	var out c32Outcome
	out.badCount = len(im.bad)
	reported := map[peer.ID]bool{}
	for bi, batch := range c.batches {
		var results []*SyncTaskResult
		for _, ri := range batch {
			r := c.resps[ri]
			if !r.completed {
				results = append(results, &SyncTaskResult{completed: false, request: r.req, response: nil})
				continue
			}
			results = append(results, &SyncTaskResult{who: r.who, completed: true, request: r.req,
				response: &messages.BlockResponseMessage{BlockData: r.payload}})
		}
		done, reps, _, err := f.Process(results)
		if err != nil {
			out.violation = fmt.Sprintf("batch %d: Process returned an error although the importer never fails: %v", bi, err)
			return out
		}
		if done {
			out.violation = fmt.Sprintf("batch %d: full sync reported itself finished", bi)
			return out
		}
		for _, ch := range reps {
			reported[ch.who] = true
		}
		if im.violation != "" {
			out.violation = fmt.Sprintf("batch %d: %s", bi, im.violation)
			return out
		}
	}
	for _, cl := range im.calls {
		if cl.accepted {
			out.accepted++
		} else {
			out.dupCalls++
		}
	}
	for ri := range im.bad {
		if reported[c.resps[ri].who] {
			out.reported++
		}
	}
	out.knownAll = true
	for i := range tr.parent {
		if _, ok := st.known[tr.hdr[i].Hash()]; !ok {
			out.knownAll = false
		}
	}
	return out
}

// c32OutOfOrder: some response is fed before a response that starts lower.
func c32OutOfOrder(c *c32Case) bool {
	first := true
	var maxStart uint
	for _, b := range c.batches {
		for _, ri := range b {
			r := c.resps[ri]
			if !r.completed {
				continue
			}
			s := c.tree.number[r.blocks[0]]
			if !first && s < maxStart {
				return true
			}
			if first || s > maxStart {
				maxStart = s
			}
			first = false
		}
	}
	return false
}

func TestC32Process(t *testing.T) {
	defer kit.Flush()
	rapid.Check(t, func(t *rapid.T) {
		c := c32Gen(t)
		out := c32Run(c)
		if out.violation != "" {
			t.Fatalf("%s\ncase: %s", out.violation, c.describe())
		}
		completed := 0
		labels := []string{fmt.Sprintf("batches=%d", len(c.batches))}
		forks := false
		seenParent := map[int]bool{}
		for i := 1; i < len(c.tree.parent); i++ {
			if seenParent[c.tree.parent[i]] {
				forks = true
			}
			seenParent[c.tree.parent[i]] = true
		}
		if forks {
			labels = append(labels, "tree-with-forks")
		}
		if len(c.justified) > 0 {
			labels = append(labels, "with-finality")
		}
		for _, r := range c.resps {
			if r.completed {
				completed++
			} else {
				labels = append(labels, "incomplete-result")
			}
			if r.bad != "" {
				labels = append(labels, "bad:"+r.damage)
			}
			if r.desc && r.completed {
				labels = append(labels, "descending-response")
			}
		}
		ooo := c32OutOfOrder(c)
		if ooo {
			labels = append(labels, "out-of-order")
		}
		if out.badCount > 0 {
			labels = append(labels, "adversarial")
			if out.reported == out.badCount {
				labels = append(labels, "adversarial-all-reported")
			}
		}
		if out.accepted > 0 {
			labels = append(labels, "some-accepted")
		}
		if out.dupCalls > 0 {
			labels = append(labels, "duplicate-calls-skipped")
		}
		if out.knownAll {
			labels = append(labels, "whole-tree-imported")
		}
		nontrivial := (completed >= 2 && ooo) || out.badCount > 0
		kit.Case(c.describe(), nontrivial, labels...)
	})
}
