package sync

// C32 - Full sync imports only consistent chains, parents first.
//
// A FullSyncStrategy literal (real request queue, real unreadyBlocks, real
// Process / validateResults / sort / merge code) is wired to
//   * a tree-model block state: the set of known header hashes plus the
//     highest finalised header, nothing else (every other BlockState method
//     panics if Process ever calls it), and
//   * a recording importer that mirrors what blockImporter.importBlock does
//     before it executes a block: a block whose stated hash is already known
//     is skipped, anything else is ACCEPTED (handed to execution) and becomes
//     known under the hash of its header.
// Responses are cut from a generated block tree: a partition of the tree into
// ascending chains, plus duplicates / overlapping chains, minus dropped
// chains (gaps), shuffled, each attached to the request it answers
// (ascending by number, or descending by hash with a descending payload, as
// full sync itself issues them), fed to Process in 1-4 batches. Adversarial
// responses: broken parent link, forged stated hash (random, or chosen so
// that the stated hashes link although the headers do not), payload in the
// wrong direction.

import (
	"encoding/json"
	"fmt"
	"sort"
	"strings"
	gosync "sync"
	"testing"

	"container/list"

	"github.com/ChainSafe/gossamer/dot/network/messages"
	"github.com/ChainSafe/gossamer/dot/types"
	"github.com/ChainSafe/gossamer/internal/database"
	"github.com/ChainSafe/gossamer/internal/log"
	kit "github.com/ChainSafe/gossamer/internal/verifkit"
	"github.com/ChainSafe/gossamer/lib/common"
	"github.com/ChainSafe/gossamer/lib/runtime"
	rtstorage "github.com/ChainSafe/gossamer/lib/runtime/storage"
	"github.com/ChainSafe/gossamer/pkg/trie/inmemory"
	"github.com/libp2p/go-libp2p/core/peer"
	"pgregory.net/rapid"
)

func init() {
	log.Patch(log.SetLevel(log.Critical))
	logger.Patch(log.SetLevel(log.Critical))
}

// ------------------------------------------------------------------ fakes

// c32State implements the two BlockState calls Process needs. The embedded
// nil interface makes any other call panic (the harness would notice).
type c32State struct {
	BlockState
	known     map[common.Hash]*types.Header
	finalised *types.Header
	// only used below the real blockImporter (TestC32ProcessRealImporter)
	rt            runtime.Instance
	onMissingHdr  func(common.Hash)
	justification map[common.Hash]int // SetJustification calls per block
}

func (s *c32State) HasHeader(h common.Hash) (bool, error) { _, ok := s.known[h]; return ok, nil }
func (s *c32State) GetHighestFinalisedHeader() (*types.Header, error) {
	return s.finalised, nil
}
func (s *c32State) IsPaused() bool { return false }

// The calls blockImporter.processBlockData / handleBlock make on the block state.
func (s *c32State) GetHeader(h common.Hash) (*types.Header, error) {
	hdr, ok := s.known[h]
	if !ok {
		if s.onMissingHdr != nil {
			s.onMissingHdr(h)
		}
		return nil, database.ErrNotFound
	}
	return hdr, nil
}
func (s *c32State) GetRuntime(common.Hash) (runtime.Instance, error) { return s.rt, nil }
func (s *c32State) SetFinalisedHash(h common.Hash, _, _ uint64) error {
	hdr, ok := s.known[h]
	if !ok {
		return fmt.Errorf("c32 state: finalising the unknown block %s", h)
	}
	if hdr.Number > s.finalised.Number {
		s.finalised = hdr
	}
	return nil
}
func (s *c32State) SetJustification(h common.Hash, _ []byte) error {
	if s.justification == nil {
		s.justification = map[common.Hash]int{}
	}
	s.justification[h]++
	return nil
}
func (s *c32State) CompareAndSetBlockData(*types.BlockData) error { return nil }

type c32Call struct {
	resp     int // index of the response the BlockData object came from
	blk      int // tree index of the header (-1: unknown header)
	accepted bool
}

type c32Importer struct {
	st        *c32State
	source    map[*types.BlockData]int // BlockData object -> response index
	bad       map[int]string           // response index -> why it must be rejected
	byHash    map[common.Hash]int      // real header hash -> tree index
	justified map[int]bool             // tree blocks whose acceptance finalises them
	calls     []c32Call
	violation string
}

func (im *c32Importer) fail(format string, args ...any) {
	if im.violation == "" {
		im.violation = fmt.Sprintf(format, args...)
	}
}

// importBlock mirrors blockImporter.importBlock up to the point where the real
// one starts executing the block.
func (im *c32Importer) importBlock(bd *types.BlockData, _ BlockOrigin) (bool, error) {
	src, ok := im.source[bd]
	if !ok {
		src = -1
	}
	call := c32Call{resp: src, blk: -1}
	if bd.Header != nil {
		if i, ok := im.byHash[bd.Header.Hash()]; ok {
			call.blk = i
		}
	}
	if _, exists := im.st.known[bd.Hash]; exists {
		im.calls = append(im.calls, call) // raw duplicate call: skipped like the real importer does
		return false, nil
	}
	call.accepted = true
	im.calls = append(im.calls, call)
	if bd.Header == nil {
		im.fail("a block without header was handed to the importer (response %d)", src)
		return true, nil
	}
	real := bd.Header.Hash()
	if why, isBad := im.bad[src]; isBad {
		im.fail("block #%d (number %d) of response %d was handed to the importer although that response must be rejected: %s",
			call.blk, bd.Header.Number, src, why)
	}
	if _, twice := im.st.known[real]; twice {
		im.fail("block #%d (number %d) accepted twice (second time with stated hash %s)", call.blk, bd.Header.Number, bd.Hash.Short())
	}
	if _, parentKnown := im.st.known[bd.Header.ParentHash]; !parentKnown {
		im.fail("block #%d (number %d, response %d) handed to the importer while its parent is unknown",
			call.blk, bd.Header.Number, src)
	}
	im.st.known[real] = bd.Header
	if im.justified[call.blk] && bd.Header.Number > im.st.finalised.Number {
		im.st.finalised = bd.Header
	}
	return true, nil
}

func c32NewStrategy(st *c32State, im importer) *FullSyncStrategy {
	return &FullSyncStrategy{
		blockState:    st,
		numOfTasks:    defaultNumOfTasks,
		blockImporter: im,
		unreadyBlocks: newUnreadyBlocks(),
		requestQueue:  &requestsQueue[*messages.BlockRequestMessage]{queue: list.New()},
		peers:         &peerViewSet{view: make(map[peer.ID]peerView), target: 0},
	}
}

// ------------------------------------------------------------------ the real blockImporter over fakes

// c32Real puts the REAL blockImporter (dot/sync/block_importer.go: importBlock,
// processBlockData, processBlockDataWithHeaderAndBody, handleBlock) between
// Process and the recording point. Below it: the tree-model block state, a
// runtime instance whose ExecuteBlock records, a BlockImportHandler that
// records and makes the block known (what core.Service.HandleBlockImport does
// through BlockState.AddBlock), a finality gadget that accepts every
// justification, and do-nothing storage / transaction / telemetry fakes.
// "Handed to the importer" is observed where a block is executed and where it
// is handed to the import handler; whether the importer's own "already
// known" guard lets a block through is thereby part of what is checked.
type c32Real struct {
	*c32Importer // bookkeeping: source, bad, byHash, calls, violation
	bi           *blockImporter

	cur      *types.BlockData // BlockData object of the importBlock call in progress
	curSrc   int
	curBlk   int
	handedIn int // HandleBlockImport calls during the importBlock call in progress

	executed map[common.Hash]int
	handed   map[common.Hash]int
	round    int
	knownAt  map[common.Hash]int // header hash -> Process round in which it was handed over

	// coverage: calls in which an already known block arrived again
	reKnown          int // ... at all
	reJustifiedSame  int // ... carrying a justification, first handed over in the same Process round
	reJustifiedLater int // ... carrying a justification, known since an earlier round (or initially)
}

type c32Runtime struct {
	runtime.Instance // anything but the two calls of handleBlock panics
	r                *c32Real
}

func (c32Runtime) SetContextStorage(runtime.Storage) {}
func (rt c32Runtime) ExecuteBlock(block *types.Block) ([]byte, error) {
	rt.r.handOver("executed", &block.Header, rt.r.executed)
	return nil, nil
}

type c32Storage struct{ gosync.Mutex }

var c32EmptyRoot = inmemory.NewEmptyTrie().MustHash()

// every header of the generated trees has the root of the empty trie as state
// root (handleBlock panics when the trie state of the parent does not hash to
// the parent's state root)
func (*c32Storage) TrieState(*common.Hash) (*rtstorage.TrieState, error) {
	return rtstorage.NewTrieState(inmemory.NewEmptyTrie()), nil
}

type c32TxState struct{}

func (c32TxState) RemoveExtrinsic(types.Extrinsic) {}

type c32Telemetry struct{}

func (c32Telemetry) SendMessage(json.Marshaler) {}

type c32Babe struct{}

func (c32Babe) VerifyBlock(*types.Header) error { return nil }

type c32Finality struct{}

func (c32Finality) VerifyBlockJustification(common.Hash, uint, []byte) (uint64, uint64, error) {
	return 1, 0, nil
}

func c32NewReal(im *c32Importer) *c32Real {
	r := &c32Real{c32Importer: im, executed: map[common.Hash]int{}, handed: map[common.Hash]int{}, knownAt: map[common.Hash]int{}}
	im.st.rt = c32Runtime{r: r}
	im.st.onMissingHdr = func(h common.Hash) {
		if r.cur != nil && r.cur.Header != nil && r.cur.Header.ParentHash == h {
			r.fail("block #%d (number %d, response %d) handed to the importer (execution) while its parent is unknown",
				r.curBlk, r.cur.Header.Number, r.curSrc)
		}
	}
	r.bi = newBlockImporter(&FullSyncConfig{
		BlockState:         im.st,
		StorageState:       &c32Storage{},
		TransactionState:   c32TxState{},
		BabeVerifier:       c32Babe{},
		FinalityGadget:     c32Finality{},
		BlockImportHandler: r,
		Telemetry:          c32Telemetry{},
	})
	return r
}

func c32HasJustification(bd *types.BlockData) bool {
	return bd.Justification != nil && len(*bd.Justification) > 0
}

// importBlock is what Process calls: it only notes which BlockData object is
// being imported and passes it to the real blockImporter.
func (r *c32Real) importBlock(bd *types.BlockData, origin BlockOrigin) (bool, error) {
	src, ok := r.source[bd]
	if !ok {
		src = -1
	}
	call := c32Call{resp: src, blk: -1}
	if bd.Header != nil {
		if i, ok := r.byHash[bd.Header.Hash()]; ok {
			call.blk = i
		}
		if _, known := r.st.known[bd.Header.Hash()]; known {
			r.reKnown++
			if c32HasJustification(bd) {
				if at, ok := r.knownAt[bd.Header.Hash()]; ok && at == r.round {
					r.reJustifiedSame++
				} else {
					r.reJustifiedLater++
				}
			}
		}
	}
	r.cur, r.curSrc, r.curBlk, r.handedIn = bd, src, call.blk, 0
	imported, err := r.bi.importBlock(bd, origin)
	r.cur = nil
	call.accepted = r.handedIn > 0
	r.calls = append(r.calls, call)
	return imported, err
}

// handOver is the oracle at the two points below the real importer.
func (r *c32Real) handOver(what string, hdr *types.Header, count map[common.Hash]int) {
	hash := hdr.Hash()
	blk := -1
	if i, ok := r.byHash[hash]; ok {
		blk = i
	}
	if why, isBad := r.bad[r.curSrc]; isBad {
		r.fail("block #%d (number %d) of response %d was %s although that response must be rejected: %s",
			blk, hdr.Number, r.curSrc, what, why)
	}
	count[hash]++
	_, known := r.st.known[hash]
	if count[hash] > 1 || known {
		how := "although it was already known"
		if count[hash] > 1 {
			how = fmt.Sprintf("%d times", count[hash])
		}
		r.fail("block #%d (number %d) %s %s (this time from response %d, justification: %v)",
			blk, hdr.Number, what, how, r.curSrc, r.cur != nil && c32HasJustification(r.cur))
	}
	if _, parentKnown := r.st.known[hdr.ParentHash]; !parentKnown {
		r.fail("block #%d (number %d, response %d) %s while its parent is unknown", blk, hdr.Number, r.curSrc, what)
	}
}

// HandleBlockImport is the BlockImportHandler below the real importer.
func (r *c32Real) HandleBlockImport(block *types.Block, _ *rtstorage.TrieState, _ bool) error {
	r.handedIn++
	r.handOver("handed to the import handler", &block.Header, r.handed)
	hdr := block.Header
	hash := hdr.Hash()
	r.st.known[hash] = &hdr
	if _, ok := r.knownAt[hash]; !ok {
		r.knownAt[hash] = r.round
	}
	return nil
}

// ------------------------------------------------------------------ tree

type c32Tree struct {
	parent []int // parent[0] = -1
	hdr    []*types.Header
	number []uint
	byHash map[common.Hash]int
}

func c32MakeTree(parent []int) *c32Tree {
	tr := &c32Tree{parent: parent, byHash: map[common.Hash]int{}}
	for i, p := range parent {
		var h *types.Header
		if p < 0 {
			h = types.NewHeader(common.Hash{}, c32EmptyRoot, common.Hash{0xee}, 0, types.NewDigest())
		} else {
			// state root: see c32Storage; the extrinsics root keeps the headers distinct
			h = types.NewHeader(tr.hdr[p].Hash(), c32EmptyRoot, common.Hash{byte(i), byte(i >> 8), 0x32},
				tr.number[p]+1, types.NewDigest())
		}
		tr.hdr = append(tr.hdr, h)
		tr.number = append(tr.number, h.Number)
		tr.byHash[h.Hash()] = i
	}
	return tr
}

// blockData makes a fresh BlockData object (fresh header copy) for block i.
func (tr *c32Tree) blockData(i int, justified bool) *types.BlockData {
	src := tr.hdr[i]
	h := types.NewHeader(src.ParentHash, src.StateRoot, src.ExtrinsicsRoot, src.Number, src.Digest)
	bd := &types.BlockData{Hash: h.Hash(), Header: h, Body: types.NewBody([]types.Extrinsic{{byte(i)}})}
	if justified {
		j := []byte{0x6a, byte(i)}
		bd.Justification = &j
	}
	return bd
}

// ------------------------------------------------------------------ responses

type c32Resp struct {
	blocks    []int // tree indexes, ascending chain order (before any damage)
	desc      bool  // answers a descending-by-hash request (payload descending)
	damage    string
	bad       string // non-empty: must be rejected, with the reason
	payload   []*types.BlockData
	req       *messages.BlockRequestMessage
	who       peer.ID
	completed bool
	sent      string // payload as sent: tree index per item, '*' = stated hash is not the header hash
	noJust    []int  // blocks of the case's justified set that this response carries WITHOUT their justification
}

func c32Sent(tr *c32Tree, payload []*types.BlockData) string {
	var sb strings.Builder
	for i, bd := range payload {
		if i > 0 {
			sb.WriteByte(',')
		}
		idx, ok := tr.byHash[bd.Header.Hash()]
		if !ok {
			idx = -1
		}
		fmt.Fprintf(&sb, "%d", idx)
		if bd.Hash != bd.Header.Hash() {
			if k, ok := tr.byHash[bd.Hash]; ok {
				fmt.Fprintf(&sb, "*as%d", k)
			} else {
				sb.WriteByte('*')
			}
		}
	}
	return sb.String()
}

func (r *c32Resp) String() string {
	var sb strings.Builder
	if r.desc {
		sb.WriteString("desc")
	} else {
		sb.WriteString("asc")
	}
	sb.WriteString(fmt.Sprint(r.blocks))
	if len(r.noJust) > 0 {
		sb.WriteString("!nojust" + fmt.Sprint(r.noJust))
	}
	if r.damage != "" {
		sb.WriteString("!" + r.damage + "!sent=" + r.sent)
	}
	if !r.completed {
		sb.WriteString("!incomplete")
	}
	return sb.String()
}

// c32IsHonestChain is the oracle's reading of "a hash-linked chain whose
// stated hashes are the hashes of the headers", on the payload as sent,
// in the direction of the request.
func c32IsHonestChain(payload []*types.BlockData, desc bool) (bool, string) {
	seq := payload
	if desc {
		seq = make([]*types.BlockData, len(payload))
		for i := range payload {
			seq[len(payload)-1-i] = payload[i]
		}
	}
	for i, bd := range seq {
		if bd.Header == nil {
			return false, fmt.Sprintf("item %d has no header", i)
		}
		if bd.Hash != bd.Header.Hash() {
			return false, fmt.Sprintf("item %d (number %d): stated hash differs from the hash of its header", i, bd.Header.Number)
		}
		if i > 0 {
			prev := seq[i-1].Header
			if bd.Header.ParentHash != prev.Hash() || bd.Header.Number != prev.Number+1 {
				return false, fmt.Sprintf("item %d (number %d) is not the child of item %d (number %d)", i, bd.Header.Number, i-1, prev.Number)
			}
		}
	}
	return true, ""
}

type c32Case struct {
	tree      *c32Tree
	pre       int          // blocks 0..pre are known before the first batch
	justified map[int]bool // blocks that finalise themselves when accepted
	resps     []*c32Resp
	batches   [][]int // response indexes per batch, in feed order
	real      bool    // Process drives the real blockImporter (c32Real) instead of the recording fake
}

func (c *c32Case) describe() string {
	var sb strings.Builder
	if c.real {
		sb.WriteString("real-importer ")
	}
	fmt.Fprintf(&sb, "parents=%v pre=%d", c.tree.parent, c.pre)
	if len(c.justified) > 0 {
		var js []int
		for j := range c.justified {
			js = append(js, j)
		}
		sort.Ints(js)
		fmt.Fprintf(&sb, " justified=%v", js)
	}
	for bi, b := range c.batches {
		fmt.Fprintf(&sb, " | batch%d:", bi)
		for _, ri := range b {
			fmt.Fprintf(&sb, " r%d=%s", ri, c.resps[ri])
		}
	}
	return sb.String()
}

func c32GenTree(t *rapid.T) *c32Tree {
	n := rapid.IntRange(1, 40).Draw(t, "n")
	parent := []int{-1}
	for i := 1; i <= n; i++ {
		p := i - 1
		if rapid.IntRange(0, 4).Draw(t, "forkHere") == 0 {
			p = rapid.IntRange(0, i-1).Draw(t, "parent")
		}
		parent = append(parent, p)
	}
	return c32MakeTree(parent)
}

// c32Path returns the ascending chain that ends at block `end` and has at
// most `maxLen` blocks, never including block 0 (genesis is never sent).
func c32Path(tr *c32Tree, end, maxLen int) []int {
	var rev []int
	for i := end; i > 0 && len(rev) < maxLen; i = tr.parent[i] {
		rev = append(rev, i)
	}
	out := make([]int, len(rev))
	for i := range rev {
		out[len(rev)-1-i] = rev[i]
	}
	return out
}

// c32Gen generates a case. real = the case is meant for the real blockImporter:
// the same tree / partition / damage / order generator, but finality in 2 of 3
// cases (every k-th block, or a random subset of the blocks), up to 4 extra
// chains of which some are exact re-sends of a response already in the case,
// and a copy of a justified block may come without its justification (the
// peer that answered did not have it).
func c32Gen(t *rapid.T, real bool) *c32Case {
	tr := c32GenTree(t)
	n := len(tr.parent) - 1
	c := &c32Case{tree: tr, justified: map[int]bool{}, real: real}
	if rapid.IntRange(0, 2).Draw(t, "hasPre") == 0 {
		c.pre = rapid.IntRange(0, n/2).Draw(t, "pre")
	}
	fin := rapid.IntRange(0, 2).Draw(t, "finality")
	if (!real && fin == 0) || (real && fin != 0) {
		if !real || rapid.Bool().Draw(t, "justPeriodic") {
			k := rapid.IntRange(2, 7).Draw(t, "justEvery")
			for i := 1; i <= n; i++ {
				if i%k == 0 {
					c.justified[i] = true
				}
			}
		} else {
			for i := 1; i <= n; i++ {
				if rapid.IntRange(0, 2).Draw(t, "justHere") == 0 {
					c.justified[i] = true
				}
			}
		}
	}

	// partition of the not yet known blocks into ascending chains
	covered := make([]bool, n+1)
	var chains [][]int
	for end := n; end > c.pre; end-- {
		if covered[end] {
			continue
		}
		maxLen := rapid.IntRange(1, 8).Draw(t, "chainLen")
		var rev []int
		for i := end; i > c.pre && !covered[i] && len(rev) < maxLen; i = tr.parent[i] {
			rev = append(rev, i)
			covered[i] = true
		}
		ch := make([]int, len(rev))
		for i := range rev {
			ch[len(rev)-1-i] = rev[i]
		}
		chains = append(chains, ch)
	}
	// gaps: drop some chains
	if len(chains) > 1 && rapid.IntRange(0, 4).Draw(t, "gap") == 0 {
		d := rapid.IntRange(0, len(chains)-1).Draw(t, "dropped")
		chains = append(chains[:d], chains[d+1:]...)
	}
	// duplicates and overlapping chains (may reach into the known prefix)
	maxExtra := 3
	if real {
		maxExtra = 4
	}
	for x := rapid.IntRange(0, maxExtra).Draw(t, "extra"); x > 0; x-- {
		if real && len(chains) > 0 && rapid.IntRange(0, 2).Draw(t, "resend") == 0 {
			// the same request answered once more (another peer, a retry): an exact re-send
			again := chains[rapid.IntRange(0, len(chains)-1).Draw(t, "resendOf")]
			chains = append(chains, append([]int(nil), again...))
			continue
		}
		end := rapid.IntRange(1, n).Draw(t, "dupEnd")
		chains = append(chains, c32Path(tr, end, rapid.IntRange(1, 8).Draw(t, "dupLen")))
	}

	for _, ch := range chains {
		c.resps = append(c.resps, &c32Resp{blocks: ch, completed: true})
	}
	// adversarial copies / damage
	nAdv := 0
	if rapid.Bool().Draw(t, "adversarial") {
		nAdv = rapid.IntRange(1, 2).Draw(t, "nAdv")
	}
	for a := 0; a < nAdv; a++ {
		ri := rapid.IntRange(0, len(c.resps)-1).Draw(t, "victim")
		victim := c.resps[ri]
		if victim.damage != "" {
			continue
		}
		kind := rapid.SampledFrom([]string{"broken-link", "forged-random", "forged-link", "wrong-direction", "forged-known"}).Draw(t, "damage")
		// damage either the response itself (its blocks then only arrive damaged: a gap)
		// or an additional copy of it (the honest one arrives as well)
		if rapid.Bool().Draw(t, "damageCopy") {
			cp := &c32Resp{blocks: append([]int(nil), victim.blocks...), completed: true}
			c.resps = append(c.resps, cp)
			victim = cp
		}
		victim.damage = kind
	}
	// a few requests that no peer answered
	for x := rapid.IntRange(0, 4).Draw(t, "incomplete"); x == 0 && len(c.resps) > 0; x = 1 {
		c.resps = append(c.resps, &c32Resp{blocks: []int{rapid.IntRange(1, n).Draw(t, "incBlk")}, completed: false})
	}

	// materialise payloads and requests
	for ri, r := range c.resps {
		r.who = peer.ID(fmt.Sprintf("c32-peer-%d", ri))
		r.desc = rapid.IntRange(0, 3).Draw(t, "desc") == 0
		for _, b := range r.blocks {
			just := c.justified[b]
			if just && real && r.completed && rapid.IntRange(0, 3).Draw(t, "withoutJustification") == 0 {
				just = false
				r.noJust = append(r.noJust, b)
			}
			r.payload = append(r.payload, tr.blockData(b, just))
		}
		c32Damage(t, tr, r)
		first, last := r.blocks[0], r.blocks[len(r.blocks)-1]
		if r.desc {
			// what full sync asks during an ancestor search: descending from a hash
			r.req = messages.NewBlockRequest(*messages.NewFromBlock(tr.hdr[last].Hash()), messages.MaxBlocksInResponse,
				messages.BootstrapRequestData, messages.Descending)
			for i, j := 0, len(r.payload)-1; i < j; i, j = i+1, j-1 {
				r.payload[i], r.payload[j] = r.payload[j], r.payload[i]
			}
		} else {
			r.req = messages.NewBlockRequest(*messages.NewFromBlock(tr.number[first]), uint32(len(r.blocks)),
				messages.BootstrapRequestData, messages.Ascending)
		}
		if r.damage == "wrong-direction" {
			for i, j := 0, len(r.payload)-1; i < j; i, j = i+1, j-1 {
				r.payload[i], r.payload[j] = r.payload[j], r.payload[i]
			}
		}
		if r.completed {
			r.sent = c32Sent(tr, r.payload)
			if ok, why := c32IsHonestChain(r.payload, r.desc); !ok {
				r.bad = why
			} else if r.damage != "" {
				r.damage = "" // the damage had no effect on this response (too short, no foreign block available)
			}
		}
	}

	// feed order and batches
	order := rapid.Permutation(c32Iota(len(c.resps))).Draw(t, "order")
	nb := rapid.IntRange(1, 4).Draw(t, "batches")
	c.batches = make([][]int, nb)
	for _, ri := range order {
		b := 0
		if nb > 1 {
			b = rapid.IntRange(0, nb-1).Draw(t, "batchOf")
		}
		c.batches[b] = append(c.batches[b], ri)
	}
	return c
}

func c32Iota(n int) []int {
	out := make([]int, n)
	for i := range out {
		out[i] = i
	}
	return out
}

// c32Damage applies r.damage to the ascending payload (before the payload is
// put into the direction of the request).
func c32Damage(t *rapid.T, tr *c32Tree, r *c32Resp) {
	if r.damage == "" || !r.completed {
		return
	}
	n := len(r.payload)
	randomHash := func() common.Hash {
		var h common.Hash
		copy(h[:], rapid.SliceOfN(rapid.Byte(), 32, 32).Draw(t, "forgedHash"))
		h[0] |= 1 // never the zero hash
		return h
	}
	// a block with the given number that is not block `not`
	foreign := func(number uint, not int) int {
		var cands []int
		for i := 1; i < len(tr.parent); i++ {
			if tr.number[i] == number && i != not {
				cands = append(cands, i)
			}
		}
		if len(cands) == 0 {
			return -1
		}
		return cands[rapid.IntRange(0, len(cands)-1).Draw(t, "foreign")]
	}
	switch r.damage {
	case "broken-link":
		if n < 2 {
			return
		}
		j := rapid.IntRange(1, n-1).Draw(t, "breakAt")
		f := foreign(tr.number[r.blocks[j]], r.blocks[j])
		if f < 0 || tr.parent[f] == r.blocks[j-1] {
			// no block of another branch at that height: swap two neighbours instead
			r.payload[j-1], r.payload[j] = r.payload[j], r.payload[j-1]
			return
		}
		r.payload[j] = tr.blockData(f, false)
	case "forged-random":
		j := rapid.IntRange(0, n-1).Draw(t, "forgeAt")
		if rapid.Bool().Draw(t, "forgeLast") {
			j = n - 1
		}
		r.payload[j].Hash = randomHash()
	case "forged-known":
		// the stated hash is the hash of another (real) block
		j := n - 1
		other := rapid.IntRange(0, len(tr.parent)-1).Draw(t, "otherBlock")
		r.payload[j].Hash = tr.hdr[other].Hash()
	case "forged-link":
		// headers do not link, stated hashes do: item j-1 states the parent hash of a foreign item j
		if n < 2 {
			r.payload[0].Hash = randomHash()
			return
		}
		j := rapid.IntRange(1, n-1).Draw(t, "forgeLinkAt")
		f := foreign(tr.number[r.blocks[j]], r.blocks[j])
		if f < 0 || tr.parent[f] == r.blocks[j-1] {
			r.payload[n-1].Hash = randomHash()
			return
		}
		r.payload = r.payload[:j+1]
		r.payload[j] = tr.blockData(f, false)
		r.payload[j-1].Hash = tr.hdr[f].ParentHash
	case "wrong-direction":
		// done by the caller after the direction of the request is applied
	}
}

// ------------------------------------------------------------------ run

type c32Outcome struct {
	accepted  int
	dupCalls  int
	badCount  int
	reported  int // bad responses whose peer got a reputation change
	knownAll  bool
	violation string
	// real importer only
	reKnown, reJustifiedSame, reJustifiedLater int
	finalised                                  bool // the finalised head moved
}

func c32Run(c *c32Case) c32Outcome {
	tr := c.tree
	st := &c32State{known: map[common.Hash]*types.Header{}, finalised: tr.hdr[0]}
	for i := 0; i <= c.pre; i++ {
		st.known[tr.hdr[i].Hash()] = tr.hdr[i]
	}
	im := &c32Importer{st: st, source: map[*types.BlockData]int{}, bad: map[int]string{}, byHash: tr.byHash, justified: c.justified}
	for ri, r := range c.resps {
		for _, bd := range r.payload {
			im.source[bd] = ri
		}
		if r.bad != "" {
			im.bad[ri] = r.bad
		}
	}
	var real *c32Real
	var f *FullSyncStrategy
	if c.real {
		real = c32NewReal(im)
		f = c32NewStrategy(st, real)
	} else {
		f = c32NewStrategy(st, im)
	}
	var out c32Outcome
	out.badCount = len(im.bad)
	reported := map[peer.ID]bool{}
	for bi, batch := range c.batches {
		var results []*SyncTaskResult
		for _, ri := range batch {
			r := c.resps[ri]
			if !r.completed {
				results = append(results, &SyncTaskResult{completed: false, request: r.req, response: nil})
				continue
			}
			results = append(results, &SyncTaskResult{who: r.who, completed: true, request: r.req,
				response: &messages.BlockResponseMessage{BlockData: r.payload}})
		}
		if real != nil {
			real.round = bi
		}
		done, reps, _, err := f.Process(results)
		if im.violation != "" {
			out.violation = fmt.Sprintf("batch %d: %s", bi, im.violation)
			return out
		}
		if err != nil {
			out.violation = fmt.Sprintf("batch %d: Process returned an error although the importer never fails: %v", bi, err)
			return out
		}
		if done {
			out.violation = fmt.Sprintf("batch %d: full sync reported itself finished", bi)
			return out
		}
		for _, ch := range reps {
			reported[ch.who] = true
		}
		if im.violation != "" {
			out.violation = fmt.Sprintf("batch %d: %s", bi, im.violation)
			return out
		}
	}
	for _, cl := range im.calls {
		if cl.accepted {
			out.accepted++
		} else {
			out.dupCalls++
		}
	}
	for ri := range im.bad {
		if reported[c.resps[ri].who] {
			out.reported++
		}
	}
	if real != nil {
		out.reKnown, out.reJustifiedSame, out.reJustifiedLater = real.reKnown, real.reJustifiedSame, real.reJustifiedLater
	}
	out.finalised = st.finalised != tr.hdr[0]
	out.knownAll = true
	for i := range tr.parent {
		if _, ok := st.known[tr.hdr[i].Hash()]; !ok {
			out.knownAll = false
		}
	}
	return out
}

// c32OutOfOrder: some response is fed before a response that starts lower.
func c32OutOfOrder(c *c32Case) bool {
	first := true
	var maxStart uint
	for _, b := range c.batches {
		for _, ri := range b {
			r := c.resps[ri]
			if !r.completed {
				continue
			}
			s := c.tree.number[r.blocks[0]]
			if !first && s < maxStart {
				return true
			}
			if first || s > maxStart {
				maxStart = s
			}
			first = false
		}
	}
	return false
}

func TestC32Process(t *testing.T) {
	defer kit.Flush()
	rapid.Check(t, func(t *rapid.T) { c32Property(t, false) })
}

// TestC32ProcessRealImporter: the same search with the real blockImporter
// between Process and the recording point (see c32Real), and a generator that
// lets already imported blocks arrive again with and without justifications,
// in the same and in later Process rounds.
func TestC32ProcessRealImporter(t *testing.T) {
	defer kit.Flush()
	rapid.Check(t, func(t *rapid.T) { c32Property(t, true) })
}

func c32Property(t *rapid.T, real bool) {
	{
		c := c32Gen(t, real)
		out := c32Run(c)
		if out.violation != "" {
			t.Fatalf("%s\ncase: %s", out.violation, c.describe())
		}
		completed := 0
		labels := []string{fmt.Sprintf("batches=%d", len(c.batches))}
		forks := false
		seenParent := map[int]bool{}
		for i := 1; i < len(c.tree.parent); i++ {
			if seenParent[c.tree.parent[i]] {
				forks = true
			}
			seenParent[c.tree.parent[i]] = true
		}
		if forks {
			labels = append(labels, "tree-with-forks")
		}
		if len(c.justified) > 0 {
			labels = append(labels, "with-finality")
		}
		for _, r := range c.resps {
			if r.completed {
				completed++
			} else {
				labels = append(labels, "incomplete-result")
			}
			if r.bad != "" {
				labels = append(labels, "bad:"+r.damage)
			}
			if r.desc && r.completed {
				labels = append(labels, "descending-response")
			}
		}
		ooo := c32OutOfOrder(c)
		if ooo {
			labels = append(labels, "out-of-order")
		}
		if out.badCount > 0 {
			labels = append(labels, "adversarial")
			if out.reported == out.badCount {
				labels = append(labels, "adversarial-all-reported")
			}
		}
		if out.accepted > 0 {
			labels = append(labels, "some-accepted")
		}
		if out.dupCalls > 0 {
			labels = append(labels, "duplicate-calls-skipped")
		}
		if out.knownAll {
			labels = append(labels, "whole-tree-imported")
		}
		nontrivial := (completed >= 2 && ooo) || out.badCount > 0
		if real {
			labels = append(labels, "real-importer")
			if out.finalised {
				labels = append(labels, "finalised-head-moved")
			}
			if out.reKnown > 0 {
				labels = append(labels, "known-block-reached-real-importer-again")
			}
			if out.reJustifiedSame > 0 {
				labels = append(labels, "known-justified-block-again-same-round")
			}
			if out.reJustifiedLater > 0 {
				labels = append(labels, "known-justified-block-again-later-round")
			}
			for _, r := range c.resps {
				if len(r.noJust) > 0 {
					labels = append(labels, "copy-without-justification")
					break
				}
			}
			// an already imported block that reaches the real importer again exercises its guard
			nontrivial = nontrivial || out.reKnown > 0
		}
		kit.Case(c.describe(), nontrivial, labels...)
	}
}
