package sync

import (
	"testing"

	"github.com/ChainSafe/gossamer/dot/network/messages"
	"github.com/ChainSafe/gossamer/dot/types"
	kit "github.com/ChainSafe/gossamer/internal/verifkit"
	"github.com/ChainSafe/gossamer/lib/common"
	"github.com/libp2p/go-libp2p/core/peer"
)

type c32FixedResp struct {
	blocks []int
	desc   bool
	forge  func(tr *c32Tree, payload []*types.BlockData) []*types.BlockData
}

// c32Fixed builds a deterministic case: every response is its own batch.
func c32Fixed(parents []int, pre int, rs []c32FixedResp, oneBatch bool) *c32Case {
	return c32FixedJ(parents, pre, nil, rs, oneBatch)
}

// c32FixedJ: as c32Fixed, the blocks listed in justified carry a justification in every copy.
func c32FixedJ(parents []int, pre int, justified []int, rs []c32FixedResp, oneBatch bool) *c32Case {
	tr := c32MakeTree(parents)
	c := &c32Case{tree: tr, pre: pre, justified: map[int]bool{}}
	for _, j := range justified {
		c.justified[j] = true
	}
	for ri, fr := range rs {
		r := &c32Resp{blocks: fr.blocks, desc: fr.desc, completed: true, who: peer.ID("c32-fixed-" + string(rune('a'+ri)))}
		for _, b := range fr.blocks {
			r.payload = append(r.payload, tr.blockData(b, c.justified[b]))
		}
		if fr.forge != nil {
			r.payload = fr.forge(tr, r.payload)
			r.damage = "fixed"
		}
		first, last := fr.blocks[0], fr.blocks[len(fr.blocks)-1]
		if r.desc {
			r.req = messages.NewBlockRequest(*messages.NewFromBlock(tr.hdr[last].Hash()), messages.MaxBlocksInResponse,
				messages.BootstrapRequestData, messages.Descending)
			for i, j := 0, len(r.payload)-1; i < j; i, j = i+1, j-1 {
				r.payload[i], r.payload[j] = r.payload[j], r.payload[i]
			}
		} else {
			r.req = messages.NewBlockRequest(*messages.NewFromBlock(tr.number[first]), uint32(len(fr.blocks)),
				messages.BootstrapRequestData, messages.Ascending)
		}
		r.sent = c32Sent(tr, r.payload)
		if ok, why := c32IsHonestChain(r.payload, r.desc); !ok {
			r.bad = why
		}
		c.resps = append(c.resps, r)
		if oneBatch {
			if len(c.batches) == 0 {
				c.batches = [][]int{{}}
			}
			c.batches[0] = append(c.batches[0], ri)
		} else {
			c.batches = append(c.batches, []int{ri})
		}
	}
	return c
}

// tree used below: 0 <- 1 <- 2 <- 3 (numbers 1,2,3) and 0 <- 4 <- 5 (numbers 1,2)
var c32TwoBranches = []int{-1, 0, 1, 2, 0, 4}

func TestC32Regressions(t *testing.T) {
	defer kit.Flush()

	// sanity (not vacuous): one honest chain on top of a known block is handed over completely, in order
	{
		for _, real := range []bool{false, true} {
			c := c32Fixed(c32TwoBranches, 0, []c32FixedResp{{blocks: []int{1, 2, 3}}}, false)
			c.real = real
			out := c32Run(c)
			if out.violation != "" {
				t.Fatalf("honest chain: %s", out.violation)
			}
			if out.accepted != 3 || out.badCount != 0 {
				t.Fatalf("honest chain 1,2,3 on genesis (real importer: %v): %d blocks accepted, want 3", real, out.accepted)
			}
			kit.Case("regression honest "+c.describe(), false, "regression")
		}
	}
	// sanity: fork and main chain, children first, descending payload: everything ends up imported
	{
		c := c32Fixed(c32TwoBranches, 0, []c32FixedResp{
			{blocks: []int{5}}, {blocks: []int{2, 3}, desc: true}, {blocks: []int{4}}, {blocks: []int{1}}, {blocks: []int{5}}, {blocks: []int{2, 3}},
		}, false)
		out := c32Run(c)
		if out.violation != "" {
			t.Fatalf("reordered honest responses: %s\ncase: %s", out.violation, c.describe())
		}
		// completeness is not part of the property: only recorded
		lbl := "regression-reordered-incomplete"
		if out.knownAll {
			lbl = "regression-reordered-whole-tree-imported"
		}
		kit.Case("regression reordered "+c.describe(), true, "regression", lbl)
	}

	bad := []struct {
		name string
		rs   []c32FixedResp
	}{
		// found by TestC32Process on the pinned tree: nothing compared the stated
		// hash of a block with the hash of its header
		{"forged-hash-single-block", []c32FixedResp{{blocks: []int{1}, forge: func(tr *c32Tree, p []*types.BlockData) []*types.BlockData {
			p[0].Hash = common.Hash{0xf0, 0x01}
			return p
		}}}},
		{"forged-hash-last-block", []c32FixedResp{{blocks: []int{1, 2, 3}, forge: func(tr *c32Tree, p []*types.BlockData) []*types.BlockData {
			p[2].Hash = common.Hash{0xf0, 0x02}
			return p
		}}}},
		// block 1 states the hash of block 4, so that block 5 (child of 4, unknown) looks like its child
		{"forged-link", []c32FixedResp{{blocks: []int{1, 5}, forge: func(tr *c32Tree, p []*types.BlockData) []*types.BlockData {
			p[0].Hash = tr.hdr[4].Hash()
			return p
		}}}},
		// the same block twice under two stated hashes
		{"forged-hash-same-header-twice", []c32FixedResp{
			{blocks: []int{1}},
			{blocks: []int{1}, forge: func(tr *c32Tree, p []*types.BlockData) []*types.BlockData {
				p[0].Hash = common.Hash{0xf0, 0x03}
				return p
			}}}},
		// plain broken links and wrong directions (were already rejected)
		{"broken-link", []c32FixedResp{{blocks: []int{1, 5}}}},
		{"descending-payload-for-ascending-request", []c32FixedResp{{blocks: []int{3, 2, 1}}}},
		{"ascending-payload-for-descending-request", []c32FixedResp{{blocks: []int{3, 2, 1}, desc: true}}},
	}
	for _, b := range bad {
		for _, real := range []bool{false, true} {
			c := c32Fixed(c32TwoBranches, 0, b.rs, false)
			c.real = real
			nbad := 0
			for _, r := range c.resps {
				if r.bad != "" {
					nbad++
				}
			}
			if nbad != 1 {
				t.Fatalf("%s: harness: expected exactly one response to be judged bad, got %d", b.name, nbad)
			}
			out := c32Run(c)
			if out.violation != "" {
				t.Fatalf("%s: %s\ncase: %s", b.name, out.violation, c.describe())
			}
			kit.Case("regression "+b.name+" "+c.describe(), true, "regression", "regression-bad")
		}
	}

	// Already imported blocks that arrive again, some of them with a justification, through the
	// REAL blockImporter (seeded change C32-e: its "already known" guard let a known block pass
	// when it came with a justification, so the block was executed and handed to the import
	// handler a second time). Chain 0<-1<-2<-3<-4<-5.
	chain := []int{-1, 0, 1, 2, 3, 4}
	again := []struct {
		name      string
		justified []int
		rs        []c32FixedResp
		oneBatch  bool
		want      int // distinct blocks offered
	}{
		{"duplicated-response-unjustified", nil, []c32FixedResp{{blocks: []int{1, 2, 3, 4}}, {blocks: []int{1, 2, 3, 4}}}, true, 4},
		{"duplicated-response-justified-same-round", []int{3}, []c32FixedResp{{blocks: []int{1, 2, 3, 4}}, {blocks: []int{1, 2, 3, 4}}}, true, 4},
		{"overlapping-responses-justified-later-round", []int{3}, []c32FixedResp{{blocks: []int{1, 2, 3}}, {blocks: []int{3, 4, 5}}}, false, 5},
		{"descending-response-overlaps-justified-later-round", []int{2, 3}, []c32FixedResp{{blocks: []int{1, 2, 3}}, {blocks: []int{2, 3, 4}, desc: true}}, false, 4},
		{"justified-head-resent-alone", []int{2}, []c32FixedResp{{blocks: []int{1, 2}}, {blocks: []int{2}}, {blocks: []int{2}}}, false, 2},
	}
	for _, a := range again {
		c := c32FixedJ(chain, 0, a.justified, a.rs, a.oneBatch)
		c.real = true
		out := c32Run(c)
		if out.violation != "" {
			t.Fatalf("%s: %s\ncase: %s", a.name, out.violation, c.describe())
		}
		// whether everything offered ends up imported and whether the duplicates reach the importer
		// at all is not part of the property: recorded, not asserted
		lbl, lbl2 := "regression-known-block-again-reached-importer", "regression-known-block-again-incomplete"
		if out.reKnown == 0 || (len(a.justified) > 0 && out.reJustifiedSame+out.reJustifiedLater == 0) {
			lbl = "regression-known-block-again-NOT-reached"
		}
		if out.accepted == a.want {
			lbl2 = "regression-known-block-again-all-imported"
		}
		kit.Case("regression "+a.name+" "+c.describe(), true, "regression", lbl, lbl2)
	}
}

// TestC32ProbeDegenerate is NOT part of the check (not listed in check.json):
// it documents, when run by hand, what Process does with degenerate inputs
// that the property statement does not talk about (an answered request with
// zero blocks). It never fails.
func TestC32ProbeDegenerate(t *testing.T) {
	tr := c32MakeTree(c32TwoBranches)
	st := &c32State{known: map[common.Hash]*types.Header{tr.hdr[0].Hash(): tr.hdr[0]}, finalised: tr.hdr[0]}
	im := &c32Importer{st: st, source: map[*types.BlockData]int{}, bad: map[int]string{}, byHash: tr.byHash}
	f := c32NewStrategy(st, im)
	req := messages.NewBlockRequest(*messages.NewFromBlock(uint(1)), 3, messages.BootstrapRequestData, messages.Ascending)
	func() {
		defer func() {
			if r := recover(); r != nil {
				t.Logf("PROBE empty response: Process panicked: %v", r)
			}
		}()
		_, _, _, err := f.Process([]*SyncTaskResult{{who: peer.ID("x"), completed: true, request: req,
			response: &messages.BlockResponseMessage{}}})
		t.Logf("PROBE empty response: Process returned err=%v", err)
	}()
}
