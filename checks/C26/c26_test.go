package state

// C26 - BABE epoch data is taken from the block's own fork.
//
// In-package check (dot/state): a real BlockState + EpochState over an
// in-memory Pebble database. A generated block tree (<= 14 blocks, BABE
// pre-digests with generated slots, forks at every height including genesis)
// carries NextEpochData / NextConfigData consensus digests on competing forks.
// Blocks are imported parent first (AddBlock, then HandleBABEDigest per
// consensus digest, as dot/digest.BlockImportHandler does), optionally with
// finalisations in between (SetFinalisedHash, FinalizeBABENextEpochData,
// FinalizeBABENextConfigData, as dot/digest.Handler does). GetEpochDataRaw and
// GetConfigData are then asked from every live block for every epoch and
// compared with a model that only knows the tree (parent array) and which
// block announced what.

import (
	"encoding/json"
	"fmt"
	"io"
	"os"
	"sort"
	"strings"
	"testing"
	"time"

	"github.com/ChainSafe/gossamer/dot/types"
	"github.com/ChainSafe/gossamer/internal/database"
	"github.com/ChainSafe/gossamer/internal/log"
	kit "github.com/ChainSafe/gossamer/internal/verifkit"
	"github.com/ChainSafe/gossamer/lib/common"
	"github.com/ChainSafe/gossamer/pkg/scale"
	"pgregory.net/rapid"
)

const c26Rule = "block tree of 2-14 blocks (forks at any height incl. genesis, slot gaps that skip epochs, epoch length 2-4 slots) with NextEpochData/NextConfigData digests, " +
	"at most one announcement per target epoch on any one ancestry; imported parent-first through AddBlock+HandleBABEDigest; mode 'free' (announcements at arbitrary blocks) or " +
	"mode 'runtime' (every first block of an epoch announces); in both modes finalisations of any live block are interleaved (SetFinalisedHash, FinalizeBABENextEpochData, FinalizeBABENextConfigData); GetEpochDataRaw/GetConfigData from every live block for every epoch vs a tree model; " +
	"non-trivial = some queried (epoch, block) has that epoch announced (data or config) by a block on a competing fork (neither ancestor-or-self nor descendant of the querying block); distinct by the canonical history string"

const c26Watchdog = 10 * time.Second

type c26NoTelemetry struct{}

func (c26NoTelemetry) SendMessage(json.Marshaler) {}

func c26Quiet() {
	logger.Patch(log.SetLevel(log.Critical), log.SetWriter(io.Discard))
}

var c26DevNull *os.File

// c26Silenced runs f with os.Stdout pointing at /dev/null
// (storeBABENextConfigData prints a line per call with fmt.Printf).
func c26Silenced(f func() error) error {
	if c26DevNull == nil {
		c26DevNull, _ = os.OpenFile(os.DevNull, os.O_WRONLY, 0)
	}
	if c26DevNull == nil {
		return f()
	}
	old := os.Stdout
	os.Stdout = c26DevNull
	defer func() { os.Stdout = old }()
	return f()
}

type c26Block struct {
	parent   int // index into blocks; block 0 is genesis (parent -1)
	number   uint
	slot     uint64
	first    uint64 // slot of the number-1 ancestor-or-self
	epoch    uint64
	annData  bool // announces NextEpochData for epoch+1
	annCfg   bool // announces NextConfigData for epoch+1
	header   *types.Header
	imported bool
}

type c26Case struct {
	epochLen uint64
	mode     string
	blocks   []c26Block
	// restartAfter: after the import of this block the EpochState is rebuilt from the
	// database with NewEpochState (what a node start does; the block state, whose
	// block tree a node stores on shutdown and reloads, is kept). 0 = never.
	restartAfter int
}

func (c *c26Case) isAncestorOrSelf(a, b int) bool {
	for b >= 0 {
		if a == b {
			return true
		}
		if c.blocks[b].number <= c.blocks[a].number {
			return false
		}
		b = c.blocks[b].parent
	}
	return false
}

// announcer returns the nearest ancestor-or-self of b announcing (data or
// config) for target epoch e, or -1.
func (c *c26Case) announcer(b int, e uint64, cfg bool) int {
	for x := b; x > 0; x = c.blocks[x].parent {
		bl := &c.blocks[x]
		if bl.epoch+1 != e {
			continue
		}
		if (cfg && bl.annCfg) || (!cfg && bl.annData) {
			return x
		}
	}
	return -1
}

func c26EpochData(idx int) types.NextEpochData {
	var d types.NextEpochData
	var a types.AuthorityRaw
	a.Key[0] = byte(idx)
	a.Key[1] = 0xC2
	a.Weight = uint64(idx)
	d.Authorities = []types.AuthorityRaw{a}
	d.Randomness[0] = byte(idx)
	d.Randomness[1] = 0xEE
	return d
}

func c26Config(idx int) types.NextConfigDataV1 {
	return types.NextConfigDataV1{C1: uint64(idx), C2: uint64(idx) + 100, SecondarySlots: byte(idx % 3)}
}

func c26Genesis(epochLen uint64) *types.BabeConfiguration {
	var a types.AuthorityRaw
	a.Key[0] = 0xAA
	a.Weight = 1
	cfg := &types.BabeConfiguration{
		SlotDuration:       6000,
		EpochLength:        epochLen,
		C1:                 1,
		C2:                 4,
		GenesisAuthorities: []types.AuthorityRaw{a},
		SecondarySlots:     1,
	}
	cfg.Randomness[0] = 0xAA
	return cfg
}

func c26BuildHeader(c *c26Case, i int) (*types.Header, []types.BabeConsensusDigest, error) {
	b := &c.blocks[i]
	digest := types.NewDigest()
	pre, err := types.NewBabeSecondaryPlainPreDigest(0, b.slot).ToPreRuntimeDigest()
	if i%2 == 1 {
		pre, err = types.NewBabePrimaryPreDigest(0, b.slot, [32]byte{}, [64]byte{}).ToPreRuntimeDigest()
	}
	if err != nil {
		return nil, nil, err
	}
	if err = digest.Add(*pre); err != nil {
		return nil, nil, err
	}
	var cds []types.BabeConsensusDigest
	add := func(v any) error {
		d := types.NewBabeConsensusDigest()
		if err := d.SetValue(v); err != nil {
			return err
		}
		enc, err := scale.Marshal(d)
		if err != nil {
			return err
		}
		if err := digest.Add(types.ConsensusDigest{ConsensusEngineID: types.BabeEngineID, Data: enc}); err != nil {
			return err
		}
		// what dot/digest does: decode the item of the header again
		dec := types.NewBabeConsensusDigest()
		if err := scale.Unmarshal(enc, &dec); err != nil {
			return err
		}
		cds = append(cds, dec)
		return nil
	}
	if b.annData {
		if err := add(c26EpochData(i)); err != nil {
			return nil, nil, err
		}
	}
	if b.annCfg {
		v := types.NewVersionedNextConfigData()
		if err := v.SetValue(c26Config(i)); err != nil {
			return nil, nil, err
		}
		if err := add(v); err != nil {
			return nil, nil, err
		}
	}
	var xroot common.Hash
	xroot[0] = byte(i)
	xroot[1] = 0x26
	h := types.NewHeader(c.blocks[b.parent].header.Hash(), common.Hash{0x01}, xroot, b.number, digest)
	return h, cds, nil
}

type c26Harness struct {
	bs *BlockState
	es *EpochState
	db database.Database
}

// c26Hung is set when a watchdog fired: the leaked goroutine still uses its
// database, which must then not be closed.
var c26Hung bool

func c26NewHarness(epochLen uint64) (*c26Harness, *types.Header, error) {
	db, err := database.LoadDatabase("", true)
	if err != nil {
		return nil, nil, err
	}
	gen := types.NewHeader(common.Hash{}, common.Hash{0x01}, common.Hash{0x02}, 0, types.NewDigest())
	bs, err := NewBlockStateFromGenesis(db, NewTries(), gen, c26NoTelemetry{})
	if err != nil {
		return nil, nil, err
	}
	es, err := NewEpochStateFromGenesis(db, bs, c26Genesis(epochLen))
	if err != nil {
		return nil, nil, err
	}
	return &c26Harness{bs: bs, es: es, db: db}, gen, nil
}

type c26T interface {
	Fatalf(format string, args ...any)
}

type c26Result struct {
	data *types.EpochDataRaw
	cfg  *types.ConfigData
	err  error
}

// c26Guard runs f in a goroutine; if it does not return within the watchdog
// the history is printed and the test fails (the goroutine is leaked).
func c26Guard(t c26T, what string, hist *strings.Builder, f func() c26Result) c26Result {
	ch := make(chan c26Result, 1)
	go func() { ch <- f() }()
	select {
	case r := <-ch:
		return r
	case <-time.After(c26Watchdog):
		c26Hung = true
		fmt.Printf("C26 WATCHDOG: %s did not return within %s\nhistory: %s\n", what, c26Watchdog, hist.String())
		t.Fatalf("C26 watchdog: %s did not return within %s (hang); history: %s", what, c26Watchdog, hist.String())
		return c26Result{}
	}
}

func c26GenCase(t *rapid.T) *c26Case {
	c := &c26Case{}
	c.epochLen = uint64(rapid.IntRange(2, 4).Draw(t, "epochLen"))
	c.mode = rapid.SampledFrom([]string{"free", "free", "runtime"}).Draw(t, "mode")
	n := rapid.IntRange(2, 14).Draw(t, "n")
	c.blocks = make([]c26Block, 1, n+1)
	c.blocks[0] = c26Block{parent: -1}
	L := int(c.epochLen)
	deltas := []int{1, 1, 1, 2, L, L + 1, 2 * L, 2*L + 1}
	for i := 1; i <= n; i++ {
		var p int
		switch rapid.IntRange(0, 9).Draw(t, "pk") {
		case 0, 1, 2, 3, 4, 5:
			p = i - 1
		case 6:
			p = 0
		default:
			p = rapid.IntRange(0, i-1).Draw(t, "p")
		}
		b := c26Block{parent: p, number: c.blocks[p].number + 1}
		if p == 0 {
			b.slot = uint64(rapid.IntRange(1, 40).Draw(t, "slot1"))
			b.first = b.slot
		} else {
			b.slot = c.blocks[p].slot + uint64(rapid.SampledFrom(deltas).Draw(t, "delta"))
			b.first = c.blocks[p].first
		}
		b.epoch = (b.slot - b.first) / c.epochLen
		c.blocks = append(c.blocks, b)
		firstOfEpoch := p == 0 || c.blocks[p].epoch != b.epoch
		if c.mode == "runtime" {
			// what the runtime does: the first block of every epoch announces the next
			// epoch's data, and optionally a configuration
			c.blocks[i].annData = firstOfEpoch
			c.blocks[i].annCfg = firstOfEpoch && rapid.IntRange(0, 1).Draw(t, "cfg") == 0
			continue
		}
		// free mode: any block may announce, but an ancestry announces a target epoch at most once
		pd, pc := 20, 15
		if firstOfEpoch {
			pd, pc = 75, 50
		}
		if c.announcer(p, b.epoch+1, false) < 0 && rapid.IntRange(0, 99).Draw(t, "ad") < pd {
			c.blocks[i].annData = true
		}
		if c.announcer(p, b.epoch+1, true) < 0 && rapid.IntRange(0, 99).Draw(t, "ac") < pc {
			c.blocks[i].annCfg = true
		}
	}
	if len(c.blocks) > 2 && rapid.IntRange(0, 3).Draw(t, "restart") == 0 {
		c.restartAfter = rapid.IntRange(1, len(c.blocks)-1).Draw(t, "restartAfter")
	}
	return c
}

func c26DescribeBlock(c *c26Case, i int) string {
	b := &c.blocks[i]
	s := fmt.Sprintf("b%d(p%d s%d e%d", i, b.parent, b.slot, b.epoch)
	if b.annData {
		s += " D"
	}
	if b.annCfg {
		s += " C"
	}
	return s + ")"
}

// c26Run executes one case. finalAt[i] (runtime mode) = a finalisation attempt is made after the import of block i,
// finalPick[i] chooses among the admissible candidates.
func c26Run(t c26T, c *c26Case, finalAfter map[int]int) {
	c26Quiet()
	h, gen, err := c26NewHarness(c.epochLen)
	if err != nil {
		t.Fatalf("harness: %v", err)
	}
	defer func() {
		if !c26Hung {
			_ = h.db.Close()
		}
	}()
	c.blocks[0].header = gen
	c.blocks[0].imported = true

	var hist strings.Builder
	fmt.Fprintf(&hist, "L%d %s:", c.epochLen, c.mode)
	labels := map[string]bool{"mode-" + c.mode: true}
	nontrivial := false
	lastFinal := 0
	// What finalisation may legitimately have made unavailable (see NOTES.md "finalisation"): persisting the data of
	// epoch E at a finalisation drops the in-memory announcements of all epochs <= E; an epoch <= E that was never
	// persisted itself (finality skipped the epoch whose finalisation would have persisted it) is "lost": lookups of
	// it are not judged, except that returned epoch data must still be the data of the own ancestry.
	dataPers, cfgPers1, cfgPers2 := map[uint64]bool{}, map[uint64]bool{}, map[uint64]bool{}
	var dataDel, cfgDel1, cfgDel2 uint64
	lostData := func(e uint64) bool { return e <= dataDel && !dataPers[e] }
	lostCfg := func(e uint64) bool { return (e <= cfgDel1 && !cfgPers1[e]) || (e <= cfgDel2 && !cfgPers2[e]) }
	round := uint64(0)
	maxEpoch := uint64(0)

	live := func(i int) bool { return c.blocks[i].imported && c.isAncestorOrSelf(lastFinal, i) }

	queryFrom := func(b int) {
		hdr := c.blocks[b].header
		for e := uint64(0); e <= maxEpoch+2; e++ {
			e := e
			// ---- epoch data
			r := c26Guard(t, fmt.Sprintf("GetEpochDataRaw(%d, b%d)", e, b), &hist, func() c26Result {
				d, err := h.es.GetEpochDataRaw(e, hdr)
				return c26Result{data: d, err: err}
			})
			foreignD, foreignC := false, false
			for x := 1; x < len(c.blocks); x++ {
				bl := &c.blocks[x]
				if !bl.imported || bl.epoch+1 != e || c.isAncestorOrSelf(x, b) || c.isAncestorOrSelf(b, x) {
					continue
				}
				if bl.annData {
					foreignD = true
				}
				if bl.annCfg {
					foreignC = true
				}
			}
			if foreignD || foreignC {
				nontrivial = true
			}
			if e == 0 {
				if r.err != nil || r.data == nil || r.data.Randomness[0] != 0xAA {
					t.Fatalf("GetEpochDataRaw(0, b%d) = %v, %v; want the genesis data; history: %s", b, r.data, r.err, hist.String())
				}
			} else {
				a := c.announcer(b, e, false)
				if a < 0 {
					if foreignD {
						labels["data-only-on-other-fork=>error"] = true
					}
					if r.err == nil {
						t.Fatalf("GetEpochDataRaw(%d, b%d) returned data (randomness %x) although no ancestor-or-self of b%d announces epoch %d; history: %s",
							e, b, r.data.Randomness[:2], b, e, hist.String())
					}
				} else {
					if foreignD {
						labels["data-on-own-and-other-fork"] = true
					}
					want := c26EpochData(a)
					if r.err != nil && lostData(e) {
						labels["lookup-of-epoch-data-dropped-by-epoch-skipping-finality-not-judged"] = true
					} else if r.err != nil {
						t.Fatalf("GetEpochDataRaw(%d, b%d) failed: %v; want the data announced by b%d; history: %s", e, b, r.err, a, hist.String())
					}
					if r.err == nil && (r.data == nil || r.data.Randomness != want.Randomness || len(r.data.Authorities) != 1 || r.data.Authorities[0] != want.Authorities[0]) {
						t.Fatalf("GetEpochDataRaw(%d, b%d) = %+v; want the data announced by b%d (randomness %x); history: %s", e, b, r.data, a, want.Randomness[:2], hist.String())
					}
				}
			}
			// ---- config data
			r = c26Guard(t, fmt.Sprintf("GetConfigData(%d, b%d)", e, b), &hist, func() c26Result {
				cd, err := h.es.GetConfigData(e, hdr)
				return c26Result{cfg: cd, err: err}
			})
			wantCfg := types.ConfigData{C1: 1, C2: 4, SecondarySlots: 1}
			from := "genesis"
			cfgNotJudged := false
			for te := e; te >= 1; te-- {
				if a := c.announcer(b, te, true); a >= 0 {
					if lostCfg(te) {
						cfgNotJudged = true
						labels["lookup-of-config-dropped-by-epoch-skipping-finality-not-judged"] = true
						break
					}
					nc := c26Config(a)
					wantCfg = types.ConfigData{C1: nc.C1, C2: nc.C2, SecondarySlots: nc.SecondarySlots}
					from = fmt.Sprintf("b%d (epoch %d)", a, te)
					if te < e {
						labels["config-fallback-to-earlier-epoch"] = true
					}
					break
				}
			}
			if from == "genesis" && e > 0 {
				labels["config-fallback-to-genesis"] = true
			}
			if foreignC && c.announcer(b, e, true) < 0 {
				labels["config-only-on-other-fork=>fallback"] = true
			}
			if cfgNotJudged {
				continue
			}
			if r.err != nil {
				t.Fatalf("GetConfigData(%d, b%d) failed: %v; want the configuration of %s; history: %s", e, b, r.err, from, hist.String())
			}
			if r.cfg == nil || *r.cfg != wantCfg {
				t.Fatalf("GetConfigData(%d, b%d) = %+v; want %+v from %s; history: %s", e, b, r.cfg, wantCfg, from, hist.String())
			}
		}
	}

	for i := 1; i < len(c.blocks); i++ {
		b := &c.blocks[i]
		if !live(b.parent) {
			// the parent was discarded by (or lies below) a finalisation: the block cannot be imported any more
			fmt.Fprintf(&hist, " skip-b%d", i)
			labels["import-skipped-after-finalisation"] = true
			continue
		}
		hdr, cds, err := c26BuildHeader(c, i)
		if err != nil {
			t.Fatalf("building header: %v", err)
		}
		b.header = hdr
		hist.WriteString(" " + c26DescribeBlock(c, i))
		if err := h.bs.AddBlock(&types.Block{Header: *hdr, Body: types.Body{}}); err != nil {
			t.Fatalf("AddBlock(b%d): %v; history: %s", i, err, hist.String())
		}
		for _, cd := range cds {
			cd := cd
			r := c26Guard(t, fmt.Sprintf("HandleBABEDigest(b%d)", i), &hist, func() c26Result {
				return c26Result{err: c26Silenced(func() error { return h.es.HandleBABEDigest(hdr, cd) })}
			})
			if r.err != nil {
				t.Fatalf("HandleBABEDigest(b%d): %v; history: %s", i, r.err, hist.String())
			}
		}
		b.imported = true
		if c.restartAfter == i {
			es2, err := NewEpochState(h.db, h.bs, c26Genesis(c.epochLen))
			if err != nil {
				t.Fatalf("NewEpochState after b%d: %v; history: %s", i, err, hist.String())
			}
			h.es = es2
			hist.WriteString(" RESTART")
			labels["epoch-state-rebuilt-from-database"] = true
		}
		if b.epoch > maxEpoch {
			maxEpoch = b.epoch
		}
		if b.parent == 0 && i > 1 {
			labels["fork-at-genesis"] = true
		}
		if b.parent != 0 && b.epoch > c.blocks[b.parent].epoch+1 {
			labels["epoch-skipped"] = true
		}
		// the new block sees its own fork only
		queryFrom(i)

		pick, doFinal := finalAfter[i]
		if !doFinal {
			continue
		}
		// candidates: every live strict descendant of the last finalised block, whatever lies above it
		var cands []int
		for x := 1; x <= i; x++ {
			if x != lastFinal && live(x) {
				cands = append(cands, x)
			}
		}
		if len(cands) == 0 {
			continue
		}
		f := cands[pick%len(cands)]
		fh := c.blocks[f].header
		round++
		fmt.Fprintf(&hist, " FIN-b%d", f)
		if err := h.bs.SetFinalisedHash(fh.Hash(), round, 0); err != nil {
			t.Fatalf("SetFinalisedHash(b%d): %v; history: %s", f, err, hist.String())
		}
		r := c26Guard(t, fmt.Sprintf("FinalizeBABENextEpochData(b%d)", f), &hist, func() c26Result {
			return c26Result{err: h.es.FinalizeBABENextEpochData(fh)}
		})
		if r.err != nil {
			labels["finalize-epoch-data-error"] = true
		}
		r = c26Guard(t, fmt.Sprintf("FinalizeBABENextConfigData(b%d)", f), &hist, func() c26Result {
			return c26Result{err: h.es.FinalizeBABENextConfigData(fh)}
		})
		if r.err != nil {
			labels["finalize-config-data-error"] = true
		}
		lastFinal = f
		labels["finalised"] = true
		{
			ne := c.blocks[f].epoch + 1
			// epoch data of ne is persisted iff an ancestor-or-self of f announced it
			if !dataPers[ne] && c.announcer(f, ne, false) >= 0 {
				dataPers[ne] = true
				dataDel = max(dataDel, ne)
				labels["finalisation-persists-epoch-data"] = true
			} else if !dataPers[ne] {
				labels["finalisation-before-the-next-epoch-announcement"] = true
				for x := 1; x <= i; x++ {
					if live(x) && x != f && c.blocks[x].epoch+1 == ne && (c.blocks[x].annData || c.blocks[x].annCfg) {
						labels["finalisation-below-live-announcements-of-the-next-epoch"] = true
					}
				}
			}
			// config: the pinned code skips it when the epoch data of ne is in the database (it probes with
			// epochDataKey); a corrected version persists whenever the finalised chain announced one. Both are allowed.
			if c.announcer(f, ne, true) >= 0 {
				if !dataPers[ne] && !cfgPers1[ne] {
					cfgPers1[ne] = true
					cfgDel1 = max(cfgDel1, ne)
				}
				if !cfgPers2[ne] {
					cfgPers2[ne] = true
					cfgDel2 = max(cfgDel2, ne)
				}
			}
		}
		for x := 1; x <= i; x++ {
			if live(x) {
				queryFrom(x)
			}
		}
	}
	// final sweep: every live block, every epoch, with all forks imported
	for x := 0; x < len(c.blocks); x++ {
		if live(x) {
			queryFrom(x)
		}
	}
	labels[fmt.Sprintf("max-epoch-%d", min(maxEpoch, 4))] = true
	var ls []string
	for l := range labels {
		ls = append(ls, l)
	}
	sort.Strings(ls)
	kit.Case(hist.String(), nontrivial, ls...)
}

func TestC26EpochDataOwnFork(t *testing.T) {
	defer kit.Flush()
	kit.Note("rule", c26Rule)
	rapid.Check(t, func(t *rapid.T) {
		c := c26GenCase(t)
		finalAfter := map[int]int{}
		if c.mode == "runtime" || rapid.Bool().Draw(t, "freeFinal") {
			for i := 1; i < len(c.blocks); i++ {
				// 1/4 after each import, 3/4 after the last one (all forks present, announcements above the finalised block)
				if d := rapid.IntRange(0, 3).Draw(t, "fin"); d == 0 || (i == len(c.blocks)-1 && d != 3) {
					finalAfter[i] = rapid.IntRange(0, 13).Draw(t, "finPick")
				}
			}
		}
		c26Run(t, c, finalAfter)
	})
}

// c26Fixed builds a case from explicit (parent, slot, annData, annCfg) rows.
func c26Fixed(epochLen uint64, mode string, rows [][4]int) *c26Case {
	c := &c26Case{epochLen: epochLen, mode: mode, blocks: []c26Block{{parent: -1}}}
	for _, r := range rows {
		p := r[0]
		b := c26Block{parent: p, number: c.blocks[p].number + 1, slot: uint64(r[1]), annData: r[2] == 1, annCfg: r[3] == 1}
		if p == 0 {
			b.first = b.slot
		} else {
			b.first = c.blocks[p].first
		}
		b.epoch = (b.slot - b.first) / epochLen
		c.blocks = append(c.blocks, b)
	}
	return c
}

// TestC26Regressions: the shrunk inputs of the defects found by the search.
func TestC26Regressions(t *testing.T) {
	defer kit.Flush()
	t.Run("epoch-data-announced-on-sibling-fork-only", func(t *testing.T) {
		// b1 (child of genesis) announces epoch 1; its sibling b2 and b2's child b3 announce nothing.
		// GetEpochDataRaw(1, b3) must fail promptly (pinned tree: findAncestor re-reads b3's parent for ever).
		c26Run(t, c26Fixed(2, "free", [][4]int{{0, 10, 1, 0}, {0, 20, 0, 0}, {2, 21, 0, 0}}), nil)
	})
	t.Run("config-announced-on-sibling-fork-only", func(t *testing.T) {
		// b1 announces a configuration for epoch 1; GetConfigData(1, b2) from the sibling b2
		// must fall back to the genesis configuration (pinned tree: "hash not found in memory map").
		c26Run(t, c26Fixed(2, "free", [][4]int{{0, 10, 0, 1}, {0, 20, 0, 0}}), nil)
	})
	t.Run("finalisation-below-announcements-on-two-live-forks", func(t *testing.T) {
		// genesis - b1 - {b2(D C) - b3, b4 - b5}: b1 is finalised after everything is imported. Nothing on the
		// finalised chain announces epoch 1, so nothing may be persisted: b4/b5 must still get an error for the
		// epoch-1 data and the genesis configuration, b2/b3 the announcement of b2.
		c26Run(t, c26Fixed(4, "free", [][4]int{{0, 10, 0, 0}, {1, 11, 1, 1}, {2, 12, 0, 0}, {1, 11, 0, 0}, {4, 12, 0, 0}}), map[int]int{5: 0})
	})
	t.Run("epoch-10-announcement-survives-finalisation-of-epoch-1-and-restart", func(t *testing.T) {
		// one chain, announcements for the epochs 1,2,3,6,8,9,10; b1 is finalised after b12 was imported
		// (which persists epoch 1 and deletes the stored announcements of the epochs <= 1), then b13 is
		// imported and the EpochState is rebuilt from the database: b13 must still get the epoch-10 data
		// announced by b12 (pinned tree: the deletion of "nextepochdata1" also removed "nextepochdata10:..").
		c := c26Fixed(2, "runtime", [][4]int{{0, 1, 1, 1}, {1, 2, 0, 0}, {2, 3, 1, 1}, {3, 4, 0, 0}, {4, 6, 1, 1}, {5, 11, 1, 1}, {6, 12, 0, 0},
			{7, 15, 1, 1}, {8, 16, 0, 0}, {9, 17, 1, 1}, {10, 18, 0, 0}, {11, 19, 1, 1}, {12, 20, 0, 0}})
		c.restartAfter = 13
		c26Run(t, c, map[int]int{12: 0})
	})
	t.Run("config-fallback-to-earlier-epoch-of-own-fork", func(t *testing.T) {
		// own fork: b1 announces config for epoch 1, b3 (epoch 1) announces nothing;
		// other fork: b2 (epoch 1) announces config for epoch 2. GetConfigData(2, b3) = config of b1.
		c26Run(t, c26Fixed(2, "free", [][4]int{{0, 10, 1, 1}, {1, 12, 1, 1}, {1, 13, 1, 0}}), nil)
	})
}
