package wazero_runtime

// C09 - Storage append follows Substrate semantics.
//
// Oracle (written from the SCALE spec and parity-scale-codec's
// `Compact<u32>::decode` / `append_or_new_vec_with_any_item`, as used by
// sp-state-machine `StorageAppend::append`): the stored value is treated as
// `Compact<u32> len ‖ items`. If the value is non-empty, starts with a
// *canonical* compact u32 `n` (smallest mode, all bytes of the mode present)
// and `n+1` does not overflow u32, the new value is
// `compact(n+1) ‖ old bytes after the prefix ‖ item`; in every other case
// (absent, empty, truncated, non-canonical, > u32, n == u32::MAX) it is
// `compact(1) ‖ item`. The comparison is byte-exact. Nothing of pkg/scale is
// used on the oracle side.

import (
	"bytes"
	"encoding/binary"
	"encoding/hex"
	"fmt"
	"math"
	"strings"
	"testing"

	kit "github.com/ChainSafe/gossamer/internal/verifkit"
	"github.com/ChainSafe/gossamer/lib/runtime/storage"
	"github.com/ChainSafe/gossamer/pkg/trie"
	"github.com/ChainSafe/gossamer/pkg/trie/inmemory"
	"pgregory.net/rapid"
)

const c09Rule = "existing value = absent | empty | (compact prefix x arbitrary tail), prefix drawn from canonical encodings at every mode boundary, " +
	"wider-than-needed modes, big-integer mode with 5..67 bytes (leading zeros or >= 2^32), prefixes cut short, random bytes; 1-3 appended items; " +
	"value held in the base trie, in a (nested) storage transaction, or deleted by a transaction; storageAppend called directly or through " +
	"ext_storage_append_version_1 with real wazero guest memory. non-trivial = the existing value is present and non-empty and its prefix is " +
	"non-canonical, truncated, out of u32 range, or canonical with n in {0,63,64,16383,16384,2^30-1,2^30,2^32-2,2^32-1}; distinct by (existing value, items, placement, path)"

// ---------------------------------------------------------------- reference

type prefixClass int

const (
	pcCanonical prefixClass = iota
	pcTruncated
	pcNonCanonical
	pcOutOfRange
)

func (c prefixClass) String() string {
	return [...]string{"canonical", "truncated", "non-canonical", "out-of-u32-range"}[c]
}

// refCompactU32 decodes a Compact<u32> at the start of b exactly as
// parity-scale-codec does: smallest mode only, value <= u32::MAX.
func refCompactU32(b []byte) (n uint32, used int, c prefixClass) {
	if len(b) == 0 {
		return 0, 0, pcTruncated
	}
	switch b[0] & 3 {
	case 0:
		return uint32(b[0] >> 2), 1, pcCanonical
	case 1:
		if len(b) < 2 {
			return 0, 0, pcTruncated
		}
		x := (uint32(b[0]) | uint32(b[1])<<8) >> 2
		if x <= 0x3f {
			return 0, 0, pcNonCanonical
		}
		return x, 2, pcCanonical
	case 2:
		if len(b) < 4 {
			return 0, 0, pcTruncated
		}
		x := binary.LittleEndian.Uint32(b[:4]) >> 2
		if x <= 0x3fff {
			return 0, 0, pcNonCanonical
		}
		return x, 4, pcCanonical
	default:
		if b[0]>>2 != 0 {
			// more than four value bytes: cannot be a u32
			return 0, 0, pcOutOfRange
		}
		if len(b) < 5 {
			return 0, 0, pcTruncated
		}
		x := binary.LittleEndian.Uint32(b[1:5])
		if x <= math.MaxUint32>>2 {
			return 0, 0, pcNonCanonical
		}
		return x, 5, pcCanonical
	}
}

// refCompact is the canonical compact encoding of a u32.
func refCompact(n uint32) []byte {
	switch {
	case n < 1<<6:
		return []byte{byte(n) << 2}
	case n < 1<<14:
		return []byte{byte(n<<2) | 1, byte(n >> 6)}
	case n < 1<<30:
		v := n<<2 | 2
		return []byte{byte(v), byte(v >> 8), byte(v >> 16), byte(v >> 24)}
	default:
		return []byte{3, byte(n), byte(n >> 8), byte(n >> 16), byte(n >> 24)}
	}
}

// refAppend is the whole oracle.
func refAppend(old, item []byte) []byte {
	if len(old) > 0 {
		if n, used, c := refCompactU32(old); c == pcCanonical && n != math.MaxUint32 {
			out := append([]byte{}, refCompact(n+1)...)
			out = append(out, old[used:]...)
			return append(out, item...)
		}
	}
	return append([]byte{0x04}, item...)
}

// encWide encodes v in the given compact mode (0,1,2) or, for mode 3, in
// big-integer mode with nbytes value bytes (4..67); no canonicity check.
func encWide(v uint64, mode, nbytes int, hi []byte) []byte {
	switch mode {
	case 0:
		return []byte{byte(v << 2)}
	case 1:
		x := uint16(v<<2) | 1
		return []byte{byte(x), byte(x >> 8)}
	case 2:
		x := uint32(v<<2) | 2
		return []byte{byte(x), byte(x >> 8), byte(x >> 16), byte(x >> 24)}
	}
	out := make([]byte, 1+nbytes)
	out[0] = byte(nbytes-4)<<2 | 3
	for i := 0; i < nbytes && i < 8; i++ {
		out[1+i] = byte(v >> (8 * i))
	}
	if nbytes > 8 {
		copy(out[9:], hi) // bytes beyond the 8th
	}
	return out
}

var c09Boundaries = []uint32{0, 1, 62, 63, 64, 65, 16382, 16383, 16384, 16385,
	1<<30 - 2, 1<<30 - 1, 1 << 30, 1<<30 + 1, math.MaxUint32 - 2, math.MaxUint32 - 1, math.MaxUint32}

// modeBoundaries are the lengths at which the compact mode of n or of n+1
// changes (and 0, u32::MAX-1, u32::MAX); c09Boundaries adds their neighbours.
var modeBoundaries = []uint32{0, 63, 64, 16383, 16384, 1<<30 - 1, 1 << 30, math.MaxUint32 - 1, math.MaxUint32}

func isBoundary(n uint32) bool {
	for _, b := range modeBoundaries {
		if n == b {
			return true
		}
	}
	return false
}

// ---------------------------------------------------------------- generator

func genTail(t *rapid.T) []byte {
	if rapid.IntRange(0, 3).Draw(t, "tailEmpty") == 0 {
		return nil
	}
	return rapid.SliceOfN(rapid.Byte(), 1, 40).Draw(t, "tail")
}

// genPrefix draws a complete (all bytes present) compact prefix of some kind.
func genPrefix(t *rapid.T) (kind string, p []byte) {
	kind = rapid.SampledFrom([]string{"canon-boundary", "canon-boundary", "canon-random", "wider-mode", "wider-mode",
		"bigint-leading-zeros", "bigint-over-u32", "bigint-long"}).Draw(t, "pkind")
	switch kind {
	case "canon-boundary":
		p = refCompact(rapid.SampledFrom(c09Boundaries).Draw(t, "n"))
	case "canon-random":
		bits := rapid.IntRange(0, 32).Draw(t, "bits")
		n := rapid.Uint32().Draw(t, "n")
		if bits < 32 {
			n &= 1<<uint(bits) - 1
		}
		p = refCompact(n)
	case "wider-mode":
		// a value in a mode wider than the smallest one that holds it
		type wm struct {
			v    uint64
			mode int
		}
		c := rapid.SampledFrom([]wm{
			{0, 1}, {0, 2}, {0, 3}, {1, 1}, {1, 2}, {1, 3}, {63, 1}, {63, 2}, {63, 3},
			{64, 2}, {64, 3}, {16383, 2}, {16383, 3}, {16384, 3}, {1<<30 - 1, 3},
		}).Draw(t, "wm")
		p = encWide(c.v, c.mode, 4, nil)
	case "bigint-leading-zeros":
		// 5..8 value bytes whose upper bytes are zero: the value fits in u32
		nb := rapid.IntRange(5, 8).Draw(t, "nbytes")
		v := uint64(rapid.SampledFrom([]uint32{0, 1, 64, 16384, 1 << 30, math.MaxUint32 - 1, math.MaxUint32}).Draw(t, "v"))
		p = encWide(v, 3, nb, nil)
	case "bigint-over-u32":
		// 5..8 value bytes, most significant byte non-zero: >= 2^32
		nb := rapid.IntRange(5, 8).Draw(t, "nbytes")
		v := rapid.Uint64().Draw(t, "v")
		top := uint64(rapid.IntRange(1, 255).Draw(t, "top"))
		v = v&^(0xff<<(8*uint(nb-1))) | top<<(8*uint(nb-1))
		if nb < 8 {
			v &= 1<<(8*uint(nb)) - 1
		}
		p = encWide(v, 3, nb, nil)
	case "bigint-long":
		// 9..67 value bytes
		nb := rapid.SampledFrom([]int{9, 12, 16, 32, 66, 67}).Draw(t, "nbytes")
		hi := rapid.SliceOfN(rapid.Byte(), nb-8, nb-8).Draw(t, "hi")
		p = encWide(rapid.Uint64().Draw(t, "v"), 3, nb, hi)
	}
	return kind, p
}

// genExisting draws the value present under the key before the append.
// present=false means the key is absent.
func genExisting(t *rapid.T) (kind string, present bool, val []byte) {
	// (rapid favours small draws, so the plain classes sit at the high end)
	switch ek := rapid.IntRange(0, 29).Draw(t, "ekind"); {
	case ek >= 28:
		return "absent", false, nil
	case ek >= 26:
		return "empty", true, []byte{}
	case ek >= 19:
		// a prefix cut short: 1..len-1 bytes of it, nothing else
		k, p := genPrefix(t)
		if len(p) < 2 {
			return k, true, append(p, genTail(t)...)
		}
		cut := rapid.IntRange(1, len(p)-1).Draw(t, "cut")
		return "truncated-" + k, true, p[:cut]
	case ek == 18:
		return "random-bytes", true, rapid.SliceOfN(rapid.Byte(), 1, 12).Draw(t, "raw")
	default:
		k, p := genPrefix(t)
		return k, true, append(p, genTail(t)...)
	}
}

func genItem(t *rapid.T) []byte {
	if rapid.IntRange(0, 5).Draw(t, "itemEmpty") == 0 {
		return []byte{}
	}
	return rapid.SliceOfN(rapid.Byte(), 1, 40).Draw(t, "item")
}

func hexShort(b []byte) string {
	if len(b) > 24 {
		return fmt.Sprintf("%x..(%d)", b[:24], len(b))
	}
	return fmt.Sprintf("%x", b)
}

// ---------------------------------------------------------------- property

func c09Case(t *rapid.T) {
	kind, present, old := genExisting(t)
	nItems := rapid.SampledFrom([]int{1, 1, 2, 3}).Draw(t, "nItems")
	items := make([][]byte, nItems)
	for i := range items {
		items[i] = genItem(t)
	}
	key := kit.GenKey().Draw(t, "key")
	placement := rapid.SampledFrom([]string{"base", "base", "base", "base", "tx", "tx", "nested-tx", "nested-tx",
		"tx-over-base", "tx-over-base", "tx-deleted"}).Draw(t, "placement")
	path := rapid.SampledFrom([]string{"direct", "host"}).Draw(t, "path")
	v1 := rapid.Bool().Draw(t, "v1")

	// another key that must not be affected
	other := append(append([]byte{}, key...), 0x77)
	otherVal := []byte{0xaa, 0xbb}

	tr := inmemory.NewEmptyTrie()
	if v1 {
		tr.SetVersion(trie.V1)
	}
	ts := storage.NewTrieState(tr)
	must := func(err error, what string) {
		if err != nil {
			t.Fatalf("%s: %v", what, err)
		}
	}
	must(ts.Put(other, otherVal), "put other")
	txDepth := 0
	switch placement {
	case "base":
		if present {
			must(ts.Put(key, old), "put")
		}
	case "tx", "nested-tx":
		ts.StartTransaction()
		txDepth++
		if placement == "nested-tx" {
			ts.StartTransaction()
			txDepth++
		}
		if present {
			must(ts.Put(key, old), "put")
		}
	case "tx-over-base":
		must(ts.Put(key, []byte{0x08, 0x01, 0x02}), "put base")
		ts.StartTransaction()
		txDepth++
		if present {
			must(ts.Put(key, old), "put")
		} else {
			must(ts.Delete(key), "delete")
		}
	case "tx-deleted":
		// whatever was generated is stored in the base trie and deleted by the transaction
		if present {
			must(ts.Put(key, old), "put base")
		} else {
			must(ts.Put(key, []byte{0x04, 0x09}), "put base")
		}
		ts.StartTransaction()
		txDepth++
		must(ts.Delete(key), "delete")
		present, old, kind = false, nil, "absent"
	}

	// precondition check of the harness itself: the storage really holds `old`
	if got := ts.Get(key); present && !bytes.Equal(got, old) || !present && got != nil {
		t.Fatalf("harness: storage holds %x before the append, wanted %x (present=%v)", got, old, present)
	}

	var g *guest
	if path == "host" {
		var err error
		g, err = newGuest(ts)
		must(err, "guest")
	}

	labels := map[string]bool{"existing:" + kind: true, "placement:" + placement: true, "path:" + path: true}
	nontrivial := false
	cur := old
	var descr strings.Builder
	fmt.Fprintf(&descr, "%s %s key=%x old=%s(%s)", placement, path, key, hexShort(old), kind)
	for i, item := range items {
		// classify the value the append starts from (non-triviality is judged on
		// the generated existing value only, i.e. the first append)
		pre := "start:"
		if i > 0 {
			pre = "later:"
		}
		if len(cur) == 0 {
			if present {
				labels[pre+"empty"] = true
			} else {
				labels[pre+"absent"] = true
			}
		} else {
			n, _, c := refCompactU32(cur)
			labels[pre+c.String()] = true
			switch {
			case c != pcCanonical:
				nontrivial = nontrivial || i == 0
			case n == math.MaxUint32:
				labels[pre+"n=u32max"] = true
				nontrivial = nontrivial || i == 0
			default:
				if len(refCompact(n)) != len(refCompact(n+1)) {
					labels[pre+"prefix-grows"] = true
				}
				if isBoundary(n) {
					labels[pre+"mode-boundary"] = true
					nontrivial = nontrivial || i == 0
				}
			}
		}
		want := refAppend(cur, item)
		fmt.Fprintf(&descr, " +%s", hexShort(item))

		itemCopy := append([]byte{}, item...)
		if g == nil {
			must(storageAppend(ts, key, itemCopy), "storageAppend")
		} else {
			ks, err := g.put(key)
			must(err, "guest put key")
			vs, err := g.put(item)
			must(err, "guest put item")
			ext_storage_append_version_1(g.ctx, g.mod, ks, vs)
			// the host function must not have disturbed the guest's buffers
			if gk := read(g.mod, ks); !bytes.Equal(gk, key) {
				t.Fatalf("host call changed the key buffer in guest memory: %x -> %x", key, gk)
			}
			if gv := read(g.mod, vs); !bytes.Equal(gv, item) {
				t.Fatalf("host call changed the item buffer in guest memory: %x -> %x", item, gv)
			}
			must(g.free(ks), "guest free")
			must(g.free(vs), "guest free")
		}
		got := ts.Get(key)
		if !bytes.Equal(got, want) {
			n, used, c := refCompactU32(cur)
			t.Fatalf("append #%d of item %x to %x (prefix %s, n=%d, %d bytes; %s, %s):\n stored %x\n wanted %x",
				i+1, item, cur, c, n, used, placement, path, got, want)
		}
		cur = want
	}
	if got := ts.Get(other); !bytes.Equal(got, otherVal) {
		t.Fatalf("append to %x changed key %x: %x", key, other, got)
	}
	// the appended value survives committing the transactions
	for ; txDepth > 0; txDepth-- {
		ts.CommitTransaction()
		if got := ts.Get(key); !bytes.Equal(got, cur) {
			t.Fatalf("after commit: %x holds %x, wanted %x", key, got, cur)
		}
	}
	if got := ts.Trie().Get(key); !bytes.Equal(got, cur) {
		t.Fatalf("base trie: %x holds %x, wanted %x", key, got, cur)
	}
	var ls []string
	for l := range labels {
		ls = append(ls, l)
	}
	kit.Case(descr.String(), nontrivial, ls...)
}

func TestC09Append(t *testing.T) {
	defer kit.Flush()
	kit.Note("rule", c09Rule)
	rapid.Check(t, c09Case)
}

// TestC09OracleSelfCheck pins the reference decoder/encoder against the
// examples of the SCALE specification and against the kit's independent
// compact encoder, before it judges anything.
func TestC09OracleSelfCheck(t *testing.T) {
	defer kit.Flush()
	spec := map[uint32]string{ // https://docs.substrate.io/reference/scale-codec/ (compact examples)
		0: "00", 1: "04", 42: "a8", 69: "1501", 65535: "feff0300", 1 << 30: "0300000040", math.MaxUint32: "03ffffffff",
		63: "fc", 64: "0101", 16383: "fdff", 16384: "02000100", 1<<30 - 1: "feffffff",
	}
	for n, hx := range spec {
		if got := fmt.Sprintf("%x", refCompact(n)); got != hx {
			t.Fatalf("refCompact(%d) = %s, spec %s", n, got, hx)
		}
		if got := kit.SpecCompact(uint64(n)); !bytes.Equal(got, refCompact(n)) {
			t.Fatalf("kit.SpecCompact(%d) = %x", n, got)
		}
		m, used, c := refCompactU32(append(refCompact(n), 0xee))
		if c != pcCanonical || m != n || used != len(refCompact(n)) {
			t.Fatalf("refCompactU32(compact(%d)) = %d,%d,%s", n, m, used, c)
		}
	}
	bad := map[string]prefixClass{
		"": pcTruncated, "01": pcTruncated, "0200": pcTruncated, "020001": pcTruncated, "03000000": pcTruncated,
		"0100": pcNonCanonical, "fd00": pcNonCanonical, "02000000": pcNonCanonical, "feff0000": pcNonCanonical,
		"0300000000": pcNonCanonical, "03ffffff3f": pcNonCanonical,
		"070000000001": pcOutOfRange, "0700000000": pcOutOfRange, "ff": pcOutOfRange, "130000000000000001": pcOutOfRange,
	}
	for hx, want := range bad {
		b, _ := hex.DecodeString(hx)
		if _, _, c := refCompactU32(b); c != want {
			t.Fatalf("refCompactU32(%s) = %s, want %s", hx, c, want)
		}
	}
	// the three shapes of the statement
	eq := func(got []byte, hx string) {
		if fmt.Sprintf("%x", got) != hx {
			t.Fatalf("refAppend = %x, want %s", got, hx)
		}
	}
	eq(refAppend(nil, []byte{0xaa}), "04aa")
	eq(refAppend([]byte{0x04, 0x11}, []byte{0xaa}), "0811aa")
	eq(refAppend([]byte{0xfc, 0x11}, []byte{0xaa}), "010111aa")                     // 63 -> 64: prefix grows
	eq(refAppend([]byte{0x03, 0xff, 0xff, 0xff, 0xff, 0x11}, []byte{0xaa}), "04aa") // u32::MAX: overflow
	eq(refAppend([]byte{0x01, 0x00, 0x11}, []byte{0xaa}), "04aa")                   // non-canonical
	kit.Case("oracle-self-check", true, "self-check")
}

// TestC09Regressions: shrunk failures found by TestC09Append on the pinned
// tree (repaired by fixes/01-storage-append-strict-compact-u32.patch), kept as
// deterministic cases that bypass the generator.
func TestC09Regressions(t *testing.T) {
	defer kit.Flush()
	cases := []struct{ name, old, item string }{
		{"wider-mode-zero", "0100", ""},                     // stored 0400
		{"wider-mode-63-with-tail", "fd001122", "aa"},       // stored 0101 00 1122 aa
		{"bigint-5-bytes-leading-zero", "070000000000", ""}, // stored 0400...
		{"bigint-over-u32", "0700000000011122", "aa"},       // 2^32 accepted, length 2^32+1 written
		{"u32-max", "03ffffffff1122", "aa"},                 // n+1 overflows u32
		{"truncated-mode2-zero-filled", "0200", "aa"},       // short read zero-filled -> n=0
		{"truncated-mode2-panics", "020001", "aa"},          // zero-filled -> n=16384, 4-byte prefix > 3-byte value: makeslice panic
		{"truncated-bigint", "03000000", "aa"},
		{"canonical-63-to-64", "fc1122", "aa"},
		{"canonical-2^30-1", "feffffff1122", "aa"},
		{"canonical-u32max-1", "03feffffff1122", "aa"},
	}
	for _, c := range cases {
		old, _ := hex.DecodeString(c.old)
		item, _ := hex.DecodeString(c.item)
		for _, path := range []string{"direct", "host"} {
			func() {
				defer func() {
					if r := recover(); r != nil {
						t.Errorf("%s (%s): append of %x to %x panicked: %v", c.name, path, item, old, r)
					}
				}()
				ts := storage.NewTrieState(inmemory.NewEmptyTrie())
				key := []byte("k")
				if err := ts.Put(key, old); err != nil {
					t.Fatal(err)
				}
				if path == "direct" {
					if err := storageAppend(ts, key, append([]byte{}, item...)); err != nil {
						t.Fatalf("%s: %v", c.name, err)
					}
				} else {
					g, err := newGuest(ts)
					if err != nil {
						t.Fatal(err)
					}
					ks, _ := g.put(key)
					vs, _ := g.put(item)
					ext_storage_append_version_1(g.ctx, g.mod, ks, vs)
				}
				want := refAppend(old, item)
				if got := ts.Get(key); !bytes.Equal(got, want) {
					t.Errorf("%s (%s): append of %x to %x stored %x, wanted %x", c.name, path, item, old, got, want)
				}
			}()
			kit.Case(c.name+"/"+path, true, "regression")
		}
	}
}
