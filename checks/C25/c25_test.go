package babe

// C25 - BABE lottery arithmetic.
//
// Oracle (independent of lib/babe): arbitrary-precision evaluation of
// 1-(1-c)^(1/n) with math/big.Float (own ln / exp, validated by a self check
// that only uses multiplication), big.Int floor, own byte-wise modular
// reduction for the secondary author.

import (
	"encoding/binary"
	"errors"
	"fmt"
	"math"
	"math/big"
	"testing"

	kit "github.com/ChainSafe/gossamer/internal/verifkit"
	"github.com/ChainSafe/gossamer/pkg/scale"
	"pgregory.net/rapid"
)

const c25Rule = "(c1,c2,n) with 1<=c1<=c2 (ratios exactly 1/4,1/3,1/2,1, tiny, within 2^-k of 1, random; operands up to 2^64-1) and n in 1..2^20 (mostly 1..10000); " +
	"non-trivial = c<1 and n>=2; distinct by (c1,c2,n). Secondary author: (randomness, slot, n), non-trivial = n>=2; distinct by input"

const c25Prec = 256

// ---------------------------------------------------------------------------
// arbitrary precision helpers

func c25f() *big.Float { return new(big.Float).SetPrec(c25Prec) }

func c25fInt(i int64) *big.Float { return c25f().SetInt64(i) }

// atanh(z) for small |z| by its Taylor series.
func c25atanh(z *big.Float, terms int) *big.Float {
	z2 := c25f().Mul(z, z)
	pow := c25f().Set(z)
	sum := c25f().Set(z)
	for k := 1; k < terms; k++ {
		pow.Mul(pow, z2)
		sum.Add(sum, c25f().Quo(pow, c25fInt(int64(2*k+1))))
	}
	return sum
}

var c25ln2 = func() *big.Float {
	// ln 2 = 2 atanh(1/3); z^2 = 1/9 gives 3.17 bits per term
	third := c25f().Quo(c25fInt(1), c25fInt(3))
	return c25f().Mul(c25fInt(2), c25atanh(third, 90))
}()

// ln(x), x > 0.
func c25ln(x *big.Float) *big.Float {
	if x.Sign() <= 0 {
		panic("c25ln: non-positive")
	}
	mant := c25f()
	e := x.MantExp(mant) // x = mant * 2^e, mant in [0.5,1)
	const k = 8
	m := c25f().Set(mant)
	for i := 0; i < k; i++ {
		m.Sqrt(m)
	}
	// m in [0.9973,1): z = (m-1)/(m+1), |z| < 0.00136, z^2 < 1.9e-6 (19 bits per term)
	z := c25f().Quo(c25f().Sub(m, c25fInt(1)), c25f().Add(m, c25fInt(1)))
	lnm := c25f().Mul(c25atanh(z, 15), c25fInt(2<<k))
	return lnm.Add(lnm, c25f().Mul(c25ln2, c25fInt(int64(e))))
}

// exp(t).
func c25exp(t *big.Float) *big.Float {
	q := c25f().Quo(t, c25ln2)
	kf, _ := q.Float64()
	k := int(math.Floor(kf + 0.5))
	r := c25f().Sub(t, c25f().Mul(c25ln2, c25fInt(int64(k))))
	const s = 8
	r.SetMantExp(r, -s) // r / 256, |r| < 0.0014
	sum := c25fInt(1)
	term := c25fInt(1)
	for i := 1; i < 30; i++ {
		term.Mul(term, r)
		term.Quo(term, c25fInt(int64(i)))
		sum.Add(sum, term)
	}
	for i := 0; i < s; i++ {
		sum.Mul(sum, sum)
	}
	return sum.SetMantExp(sum, k)
}

// x^th for 0 <= x <= 1, th > 0.
func c25pow(x, th *big.Float) *big.Float {
	if x.Sign() == 0 {
		return c25fInt(0)
	}
	if x.Cmp(c25fInt(1)) == 0 {
		return c25fInt(1)
	}
	return c25exp(c25f().Mul(th, c25ln(x)))
}

var c25two128 = new(big.Int).Lsh(big.NewInt(1), 128)
var c25max = new(big.Int).Sub(c25two128, big.NewInt(1))

// floor(2^128 * p) for p in [0,1] (not clamped).
func c25scale(p *big.Float) *big.Int {
	v := c25f().SetMantExp(p, 128)
	i, _ := v.Int(nil) // truncation toward zero = floor for v >= 0
	if v.Sign() < 0 {
		return big.NewInt(0)
	}
	return i
}

func c25clamp(i *big.Int) *big.Int {
	if i.Sign() < 0 {
		return big.NewInt(0)
	}
	if i.Cmp(c25max) > 0 {
		return new(big.Int).Set(c25max)
	}
	return i
}

func c25u128(u *scale.Uint128) *big.Int {
	r := new(big.Int).SetUint64(u.Upper)
	r.Lsh(r, 64)
	return r.Or(r, new(big.Int).SetUint64(u.Lower))
}

// IEEE-754 binary64 emulation of the three elementary steps whose result is
// fully determined by the standard (conversion, division, subtraction): 53-bit
// big.Float with round-to-nearest-even. The exponent range is not an issue
// (all values are 0 or in [2^-64, 2^64]).
func c25f64() *big.Float { return new(big.Float).SetPrec(53).SetMode(big.ToNearestEven) }

type c25ref struct {
	cf, xf, thf *big.Float // f64 values of c, 1-c, 1/n
	tA          *big.Int   // floor(2^128 (1 - xf^thf)), clamped to u128
	lo, hi      *big.Int   // enclosure derived from the exact rational c and 1/n (see NOTES.md)
	exact       *big.Int   // floor(2^128 (1-(1-c)^(1/n))) clamped
}

// tolerance of the f64 evaluation of p = 1 - pow(x, th) given the f64 inputs
// x, th: |pow_f64 - x^th| <= 2.1 * 2^-53 (faithful pow: 1 ulp <= 2^-53 for a
// result <= 1; Go's exp(th*log x): relative error of t=th*ln x is <= 3*2^-53,
// which moves e^t by |t| e^t 3*2^-53 <= (3/e) 2^-53, plus 1 ulp of exp), and
// the final subtraction adds <= 2^-54. Sum < 2^-51.
var c25tolA = new(big.Int).Lsh(big.NewInt(1), 128-51)

func c25reference(c1, c2 uint64, n int) c25ref {
	var r c25ref
	one53 := c25f64().SetInt64(1)
	a := c25f64().SetUint64(c1)
	b := c25f64().SetUint64(c2)
	r.cf = c25f64().Quo(a, b)
	r.xf = c25f64().Sub(one53, r.cf)
	r.thf = c25f64().Quo(one53, c25f64().SetInt64(int64(n)))

	one := c25fInt(1)
	yA := c25pow(c25f().Set(r.xf), c25f().Set(r.thf))
	r.tA = c25clamp(c25scale(c25f().Sub(one, yA)))

	// exact: x = 1 - c1/c2 as a rational rounded once to 256 bits
	x := c25f().Quo(c25f().SetInt(new(big.Int).Sub(new(big.Int).SetUint64(c2), new(big.Int).SetUint64(c1))),
		c25f().SetInt(new(big.Int).SetUint64(c2)))
	th := c25f().Quo(one, c25fInt(int64(n)))
	r.exact = c25clamp(c25scale(c25f().Sub(one, c25pow(x, th))))

	// enclosure: |x_f64 - x| <= 2^-51, |th_f64 - th| <= th 2^-53, g(x,th)=1-x^th
	// is decreasing in x and increasing in th on [0,1]x(0,inf); evaluation error
	// 2^-51 as above.
	eps := c25f().SetMantExp(one, -51)
	xlo := c25f().Sub(x, eps)
	if xlo.Sign() < 0 {
		xlo = c25fInt(0)
	}
	xhi := c25f().Add(x, eps)
	if xhi.Cmp(one) > 0 {
		xhi = c25fInt(1)
	}
	rel := c25f().SetMantExp(one, -52)
	thlo := c25f().Mul(th, c25f().Sub(one, rel))
	thhi := c25f().Mul(th, c25f().Add(one, rel))
	glo := c25f().Sub(c25f().Sub(one, c25pow(xhi, thlo)), eps)
	ghi := c25f().Add(c25f().Sub(one, c25pow(xlo, thhi)), eps)
	r.lo = c25clamp(new(big.Int).Sub(c25scale(glo), big.NewInt(1)))
	r.hi = c25clamp(new(big.Int).Add(c25scale(ghi), big.NewInt(1)))
	return r
}

// ---------------------------------------------------------------------------
// oracle self check: the ln/exp code is validated by identities that only
// need multiplication, and the whole reference against hand-computable values.

func TestC25OracleSelfCheck(t *testing.T) {
	defer kit.Flush()
	tol := c25f().SetMantExp(c25fInt(1), -225)
	closeRel := func(a, b *big.Float) bool {
		d := c25f().Sub(a, b)
		d.Abs(d)
		lim := c25f().Mul(tol, c25f().Abs(b))
		return d.Cmp(lim) <= 0
	}
	// ln 2 to 50 digits
	want, _, _ := big.ParseFloat("0.69314718055994530941723212145817656807550013436025525412068000949339362196969471560586332699641868754", 10, c25Prec, big.ToNearestEven)
	// absolute comparison with the ~100 digit decimal constants
	tolC := c25f().SetMantExp(c25fInt(1), -235)
	closeC := func(a, b *big.Float) bool {
		d := c25f().Sub(a, b)
		return d.Abs(d).Cmp(tolC) <= 0
	}
	if !closeC(c25ln2, want) {
		t.Fatalf("ln2 = %s", c25ln2.Text('g', 60))
	}
	e, _, _ := big.ParseFloat("2.71828182845904523536028747135266249775724709369995957496696762772407663035354759457138217852516642742746", 10, c25Prec, big.ToNearestEven)
	if !closeC(c25exp(c25fInt(1)), e) {
		t.Fatalf("exp(1) = %s", c25exp(c25fInt(1)).Text('g', 60))
	}
	// y = x^(1/n)  =>  y^n = x by repeated multiplication (independent of ln/exp)
	for _, xs := range []string{"0.75", "0.5", "0.999999999999", "1e-19", "0.3333333333333333333333333", "5.4e-20", "0.9"} {
		x, _, _ := big.ParseFloat(xs, 10, c25Prec, big.ToNearestEven)
		for _, n := range []int{1, 2, 3, 7, 100, 1023, 10000} {
			y := c25pow(x, c25f().Quo(c25fInt(1), c25fInt(int64(n))))
			p := c25fInt(1)
			for i := 0; i < n; i++ {
				p.Mul(p, y)
			}
			// relative error grows at most n-fold
			d := c25f().Sub(p, x)
			d.Abs(d)
			lim := c25f().Mul(c25f().SetMantExp(c25fInt(int64(n)), -225), x)
			if d.Cmp(lim) > 0 {
				t.Fatalf("(%s^(1/%d))^%d = %s", xs, n, n, p.Text('g', 50))
			}
		}
		if !closeRel(c25exp(c25ln(x)), x) {
			t.Fatalf("exp(ln %s)", xs)
		}
	}
	// hand values: c=3/4,n=2: 1-sqrt(1/4)=1/2 ; c=1/2,n=1: 1/2 ; c=15/16,n=4: 1-1/2=1/2 ; c=1/4,n=1: 2^126
	half := new(big.Int).Lsh(big.NewInt(1), 127)
	for _, c := range []struct {
		c1, c2 uint64
		n      int
		want   *big.Int
	}{{3, 4, 2, half}, {1, 2, 1, half}, {15, 16, 4, half}, {1, 4, 1, new(big.Int).Lsh(big.NewInt(1), 126)}, {1, 1, 5, c25max}} {
		r := c25reference(c.c1, c.c2, c.n)
		d := new(big.Int).Sub(r.exact, c.want)
		if d.CmpAbs(big.NewInt(1)) > 0 {
			t.Fatalf("reference(%d/%d,%d) = %s want %s", c.c1, c.c2, c.n, r.exact, c.want)
		}
		if r.lo.Cmp(r.exact) > 0 || r.hi.Cmp(r.exact) < 0 {
			t.Fatalf("enclosure does not contain the exact value")
		}
	}
	// Known-good constant pinned by Substrate's/gossamer's own tests: c=(1,4), 3 equal authorities
	// gives 0x1a36e2eb1c432ca57a786c226809d495 ... not used: only the mathematical definition is.
	kit.Case("selfcheck", true, "selfcheck")
}

// ---------------------------------------------------------------------------
// generators

func c25genC(t *rapid.T) (c1, c2 uint64, class string) {
	class = rapid.SampledFrom([]string{"ratio", "ratio", "tiny", "near1", "random", "random-big", "one"}).Draw(t, "cclass")
	switch class {
	case "ratio":
		d := rapid.SampledFrom([]uint64{2, 3, 4, 5, 7, 10, 16, 100}).Draw(t, "den")
		nu := rapid.Uint64Range(1, d-1).Draw(t, "num")
		k := rapid.SampledFrom([]uint64{1, 1, 1, 3, 1000, 1 << 20, 1 << 40, 1 << 56}).Draw(t, "scale")
		return nu * k, d * k, class
	case "tiny":
		c2 = rapid.SampledFrom([]uint64{1000, 1 << 20, 1 << 32, 1 << 52, 1 << 53, 1<<63 + 12345, ^uint64(0)}).Draw(t, "c2")
		c1 = rapid.Uint64Range(1, 1000).Draw(t, "c1")
		if c1 > c2 {
			c1 = c2
		}
		return c1, c2, class
	case "near1":
		c2 = rapid.SampledFrom([]uint64{10, 1000, 1 << 20, 1 << 32, 1 << 52, 1 << 53, 1<<53 + 1, 1 << 60, ^uint64(0)}).Draw(t, "c2")
		d := rapid.Uint64Range(1, 9).Draw(t, "d")
		return c2 - d, c2, class
	case "random":
		c2 = rapid.Uint64Range(1, 1<<20).Draw(t, "c2")
		c1 = rapid.Uint64Range(1, c2).Draw(t, "c1")
		return c1, c2, class
	case "random-big":
		c2 = rapid.Uint64Range(1<<53, ^uint64(0)).Draw(t, "c2")
		c1 = rapid.Uint64Range(1, c2).Draw(t, "c1")
		return c1, c2, class
	default: // one
		c2 = rapid.SampledFrom([]uint64{1, 2, 4, 1000, 1 << 53, 1<<53 + 1, ^uint64(0)}).Draw(t, "c2")
		return c2, c2, class
	}
}

func c25genN(t *rapid.T) (int, string) {
	switch rapid.IntRange(0, 9).Draw(t, "nclass") {
	case 0:
		return 1, "n=1"
	case 1, 2, 3:
		return rapid.IntRange(2, 10).Draw(t, "n"), "n=2..10"
	case 4, 5, 6:
		return rapid.IntRange(11, 1000).Draw(t, "n"), "n=11..1000"
	case 7, 8:
		return rapid.IntRange(1001, 10000).Draw(t, "n"), "n=1001..10000"
	default:
		return rapid.IntRange(10001, 1<<20).Draw(t, "n"), "n>10000"
	}
}

func c25check(t interface {
	Fatalf(string, ...any)
}, c1, c2 uint64, n int) (*big.Int, c25ref) {
	got, err := CalculateThreshold(c1, c2, n)
	if err != nil {
		t.Fatalf("CalculateThreshold(%d,%d,%d): unexpected error %v (c in (0,1], n>=1)", c1, c2, n, err)
	}
	if got == nil {
		t.Fatalf("CalculateThreshold(%d,%d,%d): nil threshold without error", c1, c2, n)
	}
	g := c25u128(got)
	r := c25reference(c1, c2, n)
	if c1 == c2 && g.Cmp(c25max) != 0 {
		t.Fatalf("CalculateThreshold(%d,%d,%d) = %s: c = 1 must saturate at 2^128-1", c1, c2, n, g)
	}
	if n == 1 && c1 != c2 {
		// theta = 1: pow(x, 1.0) returns x exactly in every libm (Rust's powf and Go's
		// math.Pow alike), so Substrate's f64 evaluation p = 1 - (1 - c) is fully
		// determined by IEEE-754 and the threshold is floor(2^128 p) exactly - no tolerance.
		one53 := c25f64().SetInt64(1)
		p53 := c25f64().Sub(one53, r.xf)
		want := c25clamp(c25scale(c25f().Set(p53)))
		if g.Cmp(want) != 0 {
			t.Fatalf("CalculateThreshold(%d,%d,1) = %s; with one authority the f64 computation 1-(1-c) is exact and gives %s (c_f64=%s)",
				c1, c2, g, want, r.cf.Text('g', 20))
		}
	}
	d := new(big.Int).Sub(g, r.tA)
	if d.CmpAbs(c25tolA) > 0 {
		t.Fatalf("CalculateThreshold(%d,%d,%d) = %s; f64-input reference floor(2^128(1-x^th)) = %s with x=%s th=%s; |diff| = %s > 2^77",
			c1, c2, n, g, r.tA, r.xf.Text('g', 20), r.thf.Text('g', 20), new(big.Int).Abs(d))
	}
	if g.Cmp(r.lo) < 0 || g.Cmp(r.hi) > 0 {
		t.Fatalf("CalculateThreshold(%d,%d,%d) = %s outside the enclosure [%s,%s] of the exact expression (exact %s)",
			c1, c2, n, g, r.lo, r.hi, r.exact)
	}
	return g, r
}

func TestC25Threshold(t *testing.T) {
	defer kit.Flush()
	kit.Note("rule", c25Rule)
	rapid.Check(t, func(t *rapid.T) {
		c1, c2, class := c25genC(t)
		n, nclass := c25genN(t)
		g, r := c25check(t, c1, c2, n)
		labels := []string{"c:" + class, nclass}
		if c1 >= 1<<53 || c2 >= 1<<53 {
			labels = append(labels, "operand>=2^53")
		}
		if g.Cmp(c25max) == 0 {
			labels = append(labels, "saturated")
		}
		if g.Sign() == 0 {
			labels = append(labels, "threshold=0")
		}
		// margin to the asserted tolerance 2^77 (measured)
		if da := new(big.Int).Sub(g, r.tA).BitLen(); da <= 74 {
			labels = append(labels, "|impl-refA|<2^74")
		} else {
			labels = append(labels, fmt.Sprintf("|impl-refA|<2^%d", da))
		}
		// how tight is the agreement with the exact expression (measured, not asserted)
		dd := new(big.Int).Sub(g, r.exact)
		switch bl := dd.BitLen(); {
		case bl <= 77:
			labels = append(labels, "|impl-exact|<=2^77")
		case bl <= 79:
			labels = append(labels, "|impl-exact|<=2^79 (2^-49)")
		default:
			labels = append(labels, "|impl-exact|>2^79 (ill-conditioned: c near 1)")
		}

		// monotone in c: a second ratio c' >= c (exact comparison by cross multiplication)
		if rapid.Bool().Draw(t, "mono") {
			var d1, d2 uint64
			switch rapid.IntRange(0, 2).Draw(t, "monokind") {
			case 0: // numerator up
				if c1 < c2 {
					d1 = rapid.Uint64Range(1, min(c2-c1, 1<<20)).Draw(t, "up")
				}
				d1, d2 = c1+d1, c2
			case 1: // denominator down
				var dn uint64
				if c1 < c2 {
					dn = rapid.Uint64Range(1, min(c2-c1, 1<<20)).Draw(t, "down")
				}
				d1, d2 = c1, c2-dn
			default: // unrelated ratio, ordered afterwards
				d1, d2, _ = c25genC(t)
			}
			lo1, lo2, hi1, hi2 := c1, c2, d1, d2
			// c <= c'  <=>  lo1*hi2 <= hi1*lo2
			l := new(big.Int).Mul(new(big.Int).SetUint64(lo1), new(big.Int).SetUint64(hi2))
			rr := new(big.Int).Mul(new(big.Int).SetUint64(hi1), new(big.Int).SetUint64(lo2))
			if l.Cmp(rr) > 0 {
				lo1, lo2, hi1, hi2 = hi1, hi2, lo1, lo2
			}
			gl, _ := c25check(t, lo1, lo2, n)
			gh, _ := c25check(t, hi1, hi2, n)
			if lo1 < 1<<53 && lo2 < 1<<53 && hi1 < 1<<53 && hi2 < 1<<53 {
				// exact conversions: c_f64 and 1-c_f64 are monotone functions of c, so
				// the only slack is twice the evaluation error of pow and the subtraction
				slack := new(big.Int).Lsh(c25tolA, 1)
				if new(big.Int).Sub(gl, gh).Cmp(slack) > 0 {
					t.Fatalf("not monotone in c: T(%d/%d,n=%d)=%s > T(%d/%d)=%s + 2^78", lo1, lo2, n, gl, hi1, hi2, gh)
				}
				labels = append(labels, "monotone-pair")
				if gl.Cmp(gh) < 0 {
					labels = append(labels, "monotone-pair-strict")
				}
			} else {
				labels = append(labels, "monotone-pair-via-enclosure-only")
			}
		}
		kit.Case(fmt.Sprintf("c=%d/%d n=%d", c1, c2, n), c1 < c2 && n >= 2, labels...)
	})
}

// TestC25Errors: documented handling outside (0,1]: c1 = 0 or c2 = 0 =>
// ErrThresholdOneIsZero, c > 1 => error (asserted when the f64 images of c1 and
// c2 differ, i.e. whenever the quotient as Substrate computes it exceeds 1).
func TestC25Errors(t *testing.T) {
	defer kit.Flush()
	rapid.Check(t, func(t *rapid.T) {
		n, _ := c25genN(t)
		kind := rapid.SampledFrom([]string{"c1=0", "c2=0", "both=0", "c>1"}).Draw(t, "kind")
		var c1, c2 uint64
		switch kind {
		case "c1=0":
			c2 = rapid.Uint64Range(1, ^uint64(0)).Draw(t, "c2")
		case "c2=0":
			c1 = rapid.Uint64Range(1, ^uint64(0)).Draw(t, "c1")
		case "both=0":
		default:
			c2 = rapid.Uint64Range(1, ^uint64(0)-1).Draw(t, "c2")
			if rapid.Bool().Draw(t, "close") {
				c1 = c2 + rapid.Uint64Range(1, min(^uint64(0)-c2, 4096)).Draw(t, "d")
			} else {
				c1 = rapid.Uint64Range(c2+1, ^uint64(0)).Draw(t, "c1")
			}
		}
		got, err := CalculateThreshold(c1, c2, n)
		switch kind {
		case "c>1":
			a := c25f64().SetUint64(c1)
			b := c25f64().SetUint64(c2)
			if a.Cmp(b) > 0 {
				if err == nil || got != nil {
					t.Fatalf("CalculateThreshold(%d,%d,%d): c > 1 must be an error, got %v, %v", c1, c2, n, got, err)
				}
				kit.Case(fmt.Sprintf("%d/%d n=%d", c1, c2, n), true, "err:c>1")
			} else {
				// c1 > c2 but equal as f64: quotient is 1.0 as Substrate computes it
				if err == nil && c25u128(got).Cmp(c25max) != 0 {
					t.Fatalf("CalculateThreshold(%d,%d,%d): f64 quotient is 1, got %v", c1, c2, n, got)
				}
				kit.Case(fmt.Sprintf("%d/%d n=%d", c1, c2, n), false, "c>1-but-equal-as-f64")
			}
		default:
			if !errors.Is(err, ErrThresholdOneIsZero) || got != nil {
				t.Fatalf("CalculateThreshold(%d,%d,%d): want ErrThresholdOneIsZero, got %v, %v", c1, c2, n, got, err)
			}
			kit.Case(fmt.Sprintf("%d/%d n=%d", c1, c2, n), true, "err:"+kind)
		}
	})
}

// ---------------------------------------------------------------------------
// secondary slot author

// big-endian reduction of a byte string modulo n, one byte at a time.
func c25modBE(b []byte, n uint64) uint64 {
	var r uint64
	for _, x := range b {
		// r < n <= 2^31  =>  r*256 + x < 2^40
		r = (r<<8 | uint64(x)) % n
	}
	return r
}

func TestC25SecondaryAuthor(t *testing.T) {
	defer kit.Flush()
	rapid.Check(t, func(t *rapid.T) {
		var rnd Randomness
		switch rapid.IntRange(0, 3).Draw(t, "rkind") {
		case 0: // zero
		case 1:
			b := rapid.Byte().Draw(t, "fill")
			for i := range rnd {
				rnd[i] = b
			}
		default:
			copy(rnd[:], rapid.SliceOfN(rapid.Byte(), 32, 32).Draw(t, "rnd"))
		}
		var slot uint64
		switch rapid.IntRange(0, 3).Draw(t, "skind") {
		case 0:
			slot = rapid.Uint64Range(0, 300).Draw(t, "slot")
		case 1:
			slot = rapid.SampledFrom([]uint64{1 << 8, 1 << 16, 1 << 32, 1<<32 + 1, 1 << 56, 0x0102030405060708, ^uint64(0)}).Draw(t, "slot")
		default:
			slot = rapid.Uint64().Draw(t, "slot")
		}
		var n int
		switch rapid.IntRange(0, 4).Draw(t, "nkind") {
		case 0:
			n = 1
		case 1, 2:
			n = rapid.IntRange(2, 10).Draw(t, "n")
		case 3:
			n = rapid.IntRange(11, 10000).Draw(t, "n")
		default:
			n = rapid.SampledFrom([]int{255, 256, 257, 65535, 65536, 65537, 1<<31 - 1, 1 << 31}).Draw(t, "n")
		}
		got, err := getSecondarySlotAuthor(slot, n, rnd)
		if err != nil {
			t.Fatalf("getSecondarySlotAuthor(%d,%d,%x): %v", slot, n, rnd, err)
		}
		msg := make([]byte, 0, 40)
		msg = append(msg, rnd[:]...)
		msg = binary.LittleEndian.AppendUint64(msg, slot)
		h := kit.Blake256(msg)
		want := c25modBE(h[:], uint64(n))
		if uint64(got) != want {
			t.Fatalf("getSecondarySlotAuthor(slot=%d,n=%d,rnd=%x) = %d, want BE(blake2b256(rnd||slotLE)) mod n = %d (hash %x)", slot, n, rnd, got, want, h)
		}
		// the claim/verify helpers agree with it (who may author, and nobody else)
		other := uint32((want + 1) % uint64(n))
		if err := verifySecondarySlotPlain(uint32(want), slot, n, rnd); err != nil {
			t.Fatalf("verifySecondarySlotPlain rejects the assigned author: %v", err)
		}
		if n >= 2 {
			if err := verifySecondarySlotPlain(other, slot, n, rnd); !errors.Is(err, ErrBadSecondarySlotClaim) {
				t.Fatalf("verifySecondarySlotPlain accepts index %d, assigned is %d: %v", other, want, err)
			}
		}
		kit.Case(fmt.Sprintf("rnd=%x slot=%d n=%d", rnd, slot, n), n >= 2, fmt.Sprintf("nkind<=%d", func() int {
			switch {
			case n == 1:
				return 1
			case n <= 10:
				return 10
			case n <= 10000:
				return 10000
			}
			return 1 << 31
		}()))
	})
}

// TestC25ConcurrentCallers: block production and block verification evaluate the
// lottery arithmetic on different goroutines at the same time; every caller must get
// the answer a lone caller gets (the functions are pure functions of their
// arguments). The inputs are drawn; the Go scheduler is not controlled, so the
// interleaving only affects detection power: on a tree where the functions keep no
// shared state every run passes whatever the schedule.
func TestC25ConcurrentCallers(t *testing.T) {
	defer kit.Flush()
	kit.Note("rule-concurrent", "8 goroutines x 300 calls of getSecondarySlotAuthor / verifySecondarySlotPlain / CalculateThreshold on drawn, pairwise different arguments, all started together; every result must equal the from-the-definition author (BLAKE2b-256 of randomness||slot mod n) resp. the threshold a lone sequential call returned; non-trivial = always (8 distinct argument tuples)")
	rapid.Check(t, func(t *rapid.T) {
		const workers, reps = 8, 300
		type job struct {
			rnd    Randomness
			slot   uint64
			n      int
			want   uint32
			c1, c2 uint64
			thr    *scale.Uint128
		}
		jobs := make([]job, workers)
		for i := range jobs {
			j := &jobs[i]
			copy(j.rnd[:], rapid.SliceOfN(rapid.Byte(), 32, 32).Draw(t, "rnd"))
			j.rnd[0] = byte(i) // pairwise different
			j.slot = rapid.Uint64().Draw(t, "slot")
			j.n = rapid.IntRange(2, 1000).Draw(t, "n")
			msg := binary.LittleEndian.AppendUint64(append([]byte{}, j.rnd[:]...), j.slot)
			h := kit.Blake256(msg)
			j.want = uint32(c25modBE(h[:], uint64(j.n)))
			j.c2 = rapid.Uint64Range(2, 1000).Draw(t, "c2")
			j.c1 = rapid.Uint64Range(1, j.c2-1).Draw(t, "c1")
			thr, err := CalculateThreshold(j.c1, j.c2, j.n)
			if err != nil {
				t.Fatalf("CalculateThreshold(%d,%d,%d): %v", j.c1, j.c2, j.n, err)
			}
			j.thr = thr
		}
		start := make(chan struct{})
		errs := make(chan string, workers)
		for i := range jobs {
			go func(j job) {
				<-start
				for r := 0; r < reps; r++ {
					got, err := getSecondarySlotAuthor(j.slot, j.n, j.rnd)
					if err != nil || got != j.want {
						errs <- fmt.Sprintf("call %d of getSecondarySlotAuthor(slot=%d,n=%d,rnd=%x) among %d concurrent callers = %d, %v; a lone caller gets %d", r, j.slot, j.n, j.rnd, workers, got, err, j.want)
						return
					}
					if err := verifySecondarySlotPlain(j.want, j.slot, j.n, j.rnd); err != nil {
						errs <- fmt.Sprintf("call %d of verifySecondarySlotPlain(assigned author %d, slot=%d,n=%d) among %d concurrent callers: %v", r, j.want, j.slot, j.n, workers, err)
						return
					}
					if r%16 == 0 {
						thr, err := CalculateThreshold(j.c1, j.c2, j.n)
						if err != nil || thr.Compare(j.thr) != 0 {
							errs <- fmt.Sprintf("call %d of CalculateThreshold(%d,%d,%d) among %d concurrent callers = %v, %v; a lone caller gets %v", r, j.c1, j.c2, j.n, workers, thr, err, j.thr)
							return
						}
					}
				}
				errs <- ""
			}(jobs[i])
		}
		close(start)
		bad := ""
		for range jobs {
			if e := <-errs; e != "" && bad == "" {
				bad = e
			}
		}
		if bad != "" {
			t.Fatalf("%s", bad)
		}
		kit.Case(fmt.Sprintf("concurrent %x/%d/%d ...", jobs[0].rnd[:4], jobs[0].slot, jobs[0].n), true, "concurrent-callers")
	})
}

// TestC25Regressions: fixed cases (hand-computable values and corners of the
// f64 evaluation) that bypass the generator.
func TestC25Regressions(t *testing.T) {
	defer kit.Flush()
	for _, c := range []struct {
		c1, c2 uint64
		n      int
	}{
		{1, 4, 1}, {1, 4, 3}, {1, 4, 1000}, {1, 2, 2}, {3, 4, 2}, {1, 1, 1}, {1, 1, 1000},
		{1, ^uint64(0), 1}, {1, ^uint64(0), 7}, // 1-c rounds to 1 in f64: threshold 0, exact ~2^64/n
		{^uint64(0) - 1, ^uint64(0), 2}, // c rounds to 1 in f64: saturates, exact 2^128(1-2^-32)
		{1<<53 - 1, 1 << 53, 2}, {1<<53 - 1, 1 << 53, 10000},
	} {
		c25check(t, c.c1, c.c2, c.n)
		kit.Case(fmt.Sprintf("reg c=%d/%d n=%d", c.c1, c.c2, c.n), true, "regression")
	}
}
