package blocktree

import (
	"errors"
	"fmt"
	"os"
	"strings"
	"testing"
	"time"

	"github.com/ChainSafe/gossamer/dot/types"
	kit "github.com/ChainSafe/gossamer/internal/verifkit"
	"github.com/ChainSafe/gossamer/lib/common"
	"pgregory.net/rapid"
)

const c15Rule = "random tree of <=40 blocks added in a random parent-first order, interleaved with invalid adds " +
	"(orphan / duplicate / wrong number / no pre-digest) and 1-4 Prune calls at drawn points; after every op the queries " +
	"are compared with a parent[]-array model; non-trivial = some Prune was issued on a stored set with >=2 forks and " +
	"removed >=2 sibling subtrees under one parent; distinct by (root number, op list)"

type fataler interface {
	Fatalf(format string, args ...any)
}

func c15Time(a int64) time.Time { return time.Unix(1_700_000_000+a, 0) }

// c15CheckCheap: stored set and leaf set (O(n)).
func c15CheckCheap(t fataler, bt *BlockTree, m *c15Model, ctx string) {
	if err := m.sameSet(bt.GetAllBlocks(), m.aliveList()); err != nil {
		t.Fatalf("%s: GetAllBlocks: %v", ctx, err)
	}
	if err := m.sameSet(bt.Leaves(), m.leaves()); err != nil {
		t.Fatalf("%s: Leaves: %v", ctx, err)
	}
	if bt.root.hash != m.b[m.root].hash || bt.root.number != m.b[m.root].num {
		t.Fatalf("%s: root is %s, want block %d", ctx, m.names([]common.Hash{bt.root.hash}), m.root)
	}
}

func c15EqList(got []common.Hash, want []common.Hash) bool {
	if len(got) != len(want) {
		return false
	}
	for i := range got {
		if got[i] != want[i] {
			return false
		}
	}
	return true
}

// c15CheckPair: ancestry, LCA and range queries for one ordered pair of stored blocks.
func c15CheckPair(t fataler, bt *BlockTree, m *c15Model, a, b int, ctx string) {
	ha, hb := m.b[a].hash, m.b[b].hash
	got, err := bt.IsDescendantOf(ha, hb)
	want := m.isAnc(a, b)
	if err != nil || got != want {
		t.Fatalf("%s: IsDescendantOf(parent=%d, child=%d) = %v, %v; model %v", ctx, a, b, got, err, want)
	}
	l, err := bt.LowestCommonAncestor(ha, hb)
	if err != nil || l != m.b[m.lca(a, b)].hash {
		t.Fatalf("%s: LowestCommonAncestor(%d,%d) = %s, %v; model %d", ctx, a, b, m.names([]common.Hash{l}), err, m.lca(a, b))
	}
	switch {
	case want:
		p := m.hashes(m.path(a, b))
		r1, err1 := bt.Range(ha, hb)
		r2, err2 := bt.RangeInMemory(ha, hb)
		if err1 != nil || !c15EqList(r1, p) {
			t.Fatalf("%s: Range(%d,%d) = %s, %v; model %v", ctx, a, b, m.names(r1), err1, m.path(a, b))
		}
		if err2 != nil || !c15EqList(r2, p) {
			t.Fatalf("%s: RangeInMemory(%d,%d) = %s, %v; model %v", ctx, a, b, m.names(r2), err2, m.path(a, b))
		}
	case m.b[a].num > m.b[b].num:
		// start above end: documented error
		if r, err := bt.Range(ha, hb); !errors.Is(err, ErrStartGreaterThanEnd) {
			t.Fatalf("%s: Range(start=%d above end=%d) = %s, %v; want ErrStartGreaterThanEnd", ctx, a, b, m.names(r), err)
		}
		if r, err := bt.RangeInMemory(ha, hb); !errors.Is(err, ErrStartGreaterThanEnd) {
			t.Fatalf("%s: RangeInMemory(start=%d above end=%d) = %s, %v; want ErrStartGreaterThanEnd", ctx, a, b, m.names(r), err)
		}
	default:
		// start is not above end and not an ancestor of it (another fork, or another
		// block of the same number): there is no chain from start to end, so no range
		if r, err := bt.Range(ha, hb); err == nil {
			t.Fatalf("%s: Range(%d,%d) = %s without an error although %d is not an ancestor of %d", ctx, a, b, m.names(r), a, b)
		}
		if r, err := bt.RangeInMemory(ha, hb); err == nil {
			t.Fatalf("%s: RangeInMemory(%d,%d) = %s without an error although %d is not an ancestor of %d", ctx, a, b, m.names(r), a, b)
		}
	}
}

// c15CheckNodes: per-block and per-number queries, and the documented errors for blocks that are not stored.
func c15CheckNodes(t fataler, bt *BlockTree, m *c15Model, ctx string) {
	c15CheckCheap(t, bt, m, ctx)
	alive := m.aliveList()
	var maxNum uint
	for _, i := range alive {
		if m.b[i].num > maxNum {
			maxNum = m.b[i].num
		}
		d, err := bt.GetAllDescendants(m.b[i].hash)
		if err != nil {
			t.Fatalf("%s: GetAllDescendants(%d): %v", ctx, i, err)
		}
		if err := m.sameSet(d, m.desc(i)); err != nil {
			t.Fatalf("%s: GetAllDescendants(%d): %v", ctx, i, err)
		}
		at, err := bt.GetArrivalTime(m.b[i].hash)
		if err != nil || (i != 0 && !at.Equal(c15Time(m.b[i].arrival))) {
			t.Fatalf("%s: GetArrivalTime(%d) = %v, %v", ctx, i, at, err)
		}
		n := bt.getNode(m.b[i].hash)
		if n == nil || n.number != m.b[i].num || (i != m.root && n.parent.hash != m.b[m.b[i].parent].hash) || (i == m.root && n.parent != nil) {
			t.Fatalf("%s: node %d has wrong number/parent link", ctx, i)
		}
		if i != 0 && n.isPrimary != (m.b[i].kind == kindPrimary) {
			t.Fatalf("%s: node %d isPrimary=%v, header kind %d", ctx, i, n.isPrimary, m.b[i].kind)
		}
	}
	rootNum := m.b[m.root].num
	// by-number queries
	bestHash := bt.BestBlockHash()
	best, ok := m.byHash[bestHash]
	if !ok || !m.alive[best] {
		t.Fatalf("%s: BestBlockHash %x is not a stored block", ctx, bestHash[:4])
	}
	lo := rootNum
	if lo > 0 {
		lo--
	}
	for num := lo; num <= maxNum+1; num++ {
		var want []int
		for _, i := range alive {
			if m.b[i].num == num {
				want = append(want, i)
			}
		}
		if err := m.sameSet(bt.GetHashesAtNumber(num), want); err != nil {
			t.Fatalf("%s: GetHashesAtNumber(%d): %v (best block %d at number %d, highest stored %d)", ctx, num, err, best, m.b[best].num, maxNum)
		}
		h, err := bt.GetHashByNumber(num)
		switch {
		case num > m.b[best].num:
			// no block of the best chain has this number: an error; the documented
			// sentinel is only required when no stored block at all has the number
			if err == nil || (num > maxNum && !errors.Is(err, ErrNumGreaterThanHighest)) {
				t.Fatalf("%s: GetHashByNumber(%d) above the best block %d = %s, %v", ctx, num, best, m.names([]common.Hash{h}), err)
			}
		case num < rootNum:
			if !errors.Is(err, ErrNumLowerThanRoot) {
				t.Fatalf("%s: GetHashByNumber(%d) below the root = %s, %v", ctx, num, m.names([]common.Hash{h}), err)
			}
		default:
			w := m.ancestorAt(best, num)
			if err != nil || h != m.b[w].hash {
				t.Fatalf("%s: GetHashByNumber(%d) = %s, %v; ancestor of best block %d at that number is %d", ctx, num, m.names([]common.Hash{h}), err, best, w)
			}
		}
	}
	// blocks that are not stored (pruned, finalised away, or never added) are unknown to every query
	for i := range m.b {
		if m.alive[i] {
			continue
		}
		h := m.b[i].hash
		if _, err := bt.GetAllDescendants(h); !errors.Is(err, ErrNodeNotFound) {
			t.Fatalf("%s: GetAllDescendants(not stored %d): err %v", ctx, i, err)
		}
		rh := m.b[m.root].hash
		if _, err := bt.IsDescendantOf(h, rh); err == nil {
			t.Fatalf("%s: IsDescendantOf(not stored %d, root) gave no error", ctx, i)
		}
		if _, err := bt.IsDescendantOf(rh, h); err == nil {
			t.Fatalf("%s: IsDescendantOf(root, not stored %d) gave no error", ctx, i)
		}
		if _, err := bt.LowestCommonAncestor(h, rh); !errors.Is(err, ErrNodeNotFound) {
			t.Fatalf("%s: LowestCommonAncestor(not stored %d, root): err %v", ctx, i, err)
		}
		if _, err := bt.Range(rh, h); !errors.Is(err, ErrEndNodeNotFound) {
			t.Fatalf("%s: Range(root, not stored %d): err %v", ctx, i, err)
		}
		if _, err := bt.RangeInMemory(rh, h); !errors.Is(err, ErrEndNodeNotFound) {
			t.Fatalf("%s: RangeInMemory(root, not stored %d): err %v", ctx, i, err)
		}
		if _, err := bt.GetArrivalTime(h); !errors.Is(err, ErrNodeNotFound) {
			t.Fatalf("%s: GetArrivalTime(not stored %d): err %v", ctx, i, err)
		}
		// start unknown: Range documents "all blocks between the end and the root inclusive",
		// RangeInMemory documents an error.
		e := alive[len(alive)-1]
		r, err := bt.Range(h, m.b[e].hash)
		if err != nil || !c15EqList(r, m.hashes(m.path(m.root, e))) {
			t.Fatalf("%s: Range(not stored %d, %d) = %s, %v; want root..end %v", ctx, i, e, m.names(r), err, m.path(m.root, e))
		}
		if _, err := bt.RangeInMemory(h, m.b[e].hash); !errors.Is(err, ErrStartNodeNotFound) {
			t.Fatalf("%s: RangeInMemory(not stored %d, %d): err %v", ctx, i, e, err)
		}
	}
}

func c15CheckAllPairs(t fataler, bt *BlockTree, m *c15Model, ctx string) {
	alive := m.aliveList()
	for _, a := range alive {
		for _, b := range alive {
			c15CheckPair(t, bt, m, a, b, ctx)
		}
	}
}

// c15CheckPrune issues Prune(h) on the tree and the model and compares the reported set.
func c15CheckPrune(t fataler, bt *BlockTree, m *c15Model, h int, ctx string) c15PruneInfo {
	before := m.aliveList()
	got := bt.Prune(m.b[h].hash)
	info := m.prune(h)
	if err := m.sameSet(got, info.pruned); err != nil {
		t.Fatalf("%s: Prune(%d) on stored blocks %v reported %v", ctx, h, before, err)
	}
	return info
}

type c15Labels map[string]bool

func (l c15Labels) list() []string {
	var out []string
	for k := range l {
		out = append(out, k)
	}
	return out
}

func (l c15Labels) prune(info c15PruneInfo, forks int) {
	l["prune"] = true
	if len(info.pruned) == 0 {
		l["prune-removes-nothing"] = true
	}
	if info.siblingSubtrees >= 2 {
		l["prune-removes->=2-sibling-subtrees"] = true
	}
	if info.afterPruned {
		l["sibling-follows-pruned-sibling"] = true
	}
	if info.beforeCanonical {
		l["pruned-sibling-before-canonical-child"] = true
	}
	if info.afterCanonical {
		l["pruned-sibling-after-canonical-child"] = true
	}
	if info.deepFork {
		l["pruned-fork-at-depth>=3"] = true
	}
	if forks >= 2 {
		l["prune-on->=2-forks"] = true
	}
}

func TestC15Tree(t *testing.T) {
	defer kit.Flush()
	kit.Note("rule", c15Rule)
	rapid.Check(t, func(t *rapid.T) {
		n := rapid.IntRange(1, 40).Draw(t, "n")
		chain := rapid.SampledFrom([]int{0, 3, 6, 8}).Draw(t, "chain") // of 10: chance that a block extends the newest block
		rootNum := rapid.SampledFrom([]uint{0, 0, 1, 7, 1 << 33}).Draw(t, "rootNum")
		salt := byte(rapid.IntRange(0, 3).Draw(t, "salt"))
		parent := make([]int, n+1)
		kind := make([]int, n+1)
		arrival := make([]int64, n+1)
		for i := 1; i <= n; i++ {
			if i > 1 && rapid.IntRange(0, 9).Draw(t, "ext") < chain {
				parent[i] = i - 1
			} else {
				parent[i] = rapid.IntRange(0, i-1).Draw(t, "parent")
			}
			kind[i] = rapid.IntRange(0, 2).Draw(t, "kind")
			arrival[i] = int64(rapid.IntRange(0, 3).Draw(t, "arrival"))
		}
		m := newC15Model(parent, kind, arrival, rootNum, salt)
		bt := NewBlockTreeFromRoot(m.b[0].hdr)
		labels := c15Labels{}
		var descr strings.Builder
		fmt.Fprintf(&descr, "root#%d", rootNum)
		nontrivial := false
		step := 0

		ctx := func() string { return fmt.Sprintf("tree [%s] after %s", m.shape(), descr.String()) }

		insertable := func() []int {
			var out []int
			for i := 1; i <= n; i++ {
				if m.canAdd(i) {
					out = append(out, i)
				}
			}
			return out
		}
		orphans := func() []int { // never added and parent not stored
			var out []int
			for i := 1; i <= n; i++ {
				if !m.added[i] && !m.alive[m.b[i].parent] {
					out = append(out, i)
				}
			}
			return out
		}
		pickAlive := func(label string) int {
			al := m.aliveList()
			return al[rapid.IntRange(0, len(al)-1).Draw(t, label)]
		}
		doPrune := func() {
			// a stored block, then walk up a drawn number of steps so shallow targets are common
			// (the root itself, a no-op, only when drawn so or when it is alone)
			h := m.root
			if al := m.aliveList(); len(al) > 1 && rapid.IntRange(0, 9).Draw(t, "pruneRoot") > 0 {
				h = al[1+rapid.IntRange(0, len(al)-2).Draw(t, "pruneTarget")]
				for m.b[h].parent != m.root && rapid.IntRange(0, 2).Draw(t, "walk") > 0 {
					h = m.b[h].parent
				}
			}
			forks := m.forks()
			fmt.Fprintf(&descr, " X%d", h)
			info := c15CheckPrune(t, bt, m, h, ctx())
			labels.prune(info, forks)
			if h == m.root && len(info.pruned) == 0 {
				labels["prune-of-root-or-only-chain"] = true
			}
			if forks >= 2 && info.siblingSubtrees >= 2 {
				nontrivial = true
			}
			c15CheckNodes(t, bt, m, ctx())
			if len(m.aliveList()) <= 7 {
				c15CheckAllPairs(t, bt, m, ctx())
			}
		}
		samplePairs := func(k int) {
			for j := 0; j < k; j++ {
				b := pickAlive("pb")
				a := pickAlive("pa")
				if rapid.Bool().Draw(t, "anc") { // make ancestor pairs common
					a = m.ancestorAt(b, m.b[m.root].num+uint(rapid.IntRange(0, m.depth(b)).Draw(t, "ad")))
				}
				c15CheckPair(t, bt, m, a, b, ctx())
				c15CheckPair(t, bt, m, b, a, ctx())
			}
		}
		invalidAdd := func() {
			var hdr *types.Header
			var want error
			var what string
			switch rapid.IntRange(0, 4).Draw(t, "invalidKind") {
			case 0: // a generated block whose parent is not stored (not yet added, pruned, or finalised away)
				or := orphans()
				if len(or) == 0 {
					return
				}
				i := or[rapid.IntRange(0, len(or)-1).Draw(t, "orphan")]
				hdr, want, what = m.b[i].hdr, ErrParentNotFound, fmt.Sprintf("orphan%d", i)
				labels["invalid-add-parent-not-stored"] = true
			case 1: // parent hash nobody ever saw
				p := pickAlive("p")
				hdr = &types.Header{ParentHash: common.Hash{0xde, 0xad, byte(step)}, Number: m.b[p].num + 1, Digest: c15Digest(kindPrimary, 5, 0)}
				want, what = ErrParentNotFound, "unknownparent"
				labels["invalid-add-unknown-parent"] = true
			case 2: // duplicate of a stored non-root block
				p := pickAlive("dup")
				if p == m.root {
					return
				}
				hdr, want, what = m.b[p].hdr, ErrBlockExists, fmt.Sprintf("dup%d", p)
				labels["invalid-add-duplicate"] = true
			case 3: // stored parent, number != parent number + 1
				p := pickAlive("p")
				delta := rapid.SampledFrom([]int{-2, -1, 1, 4}).Draw(t, "delta")
				num := int64(m.b[p].num) + 1 + int64(delta)
				if num < 0 {
					return
				}
				hdr = &types.Header{ParentHash: m.b[p].hash, Number: uint(num), StateRoot: common.Hash{0x77, byte(step)}, Digest: c15Digest(kindSecondaryPlain, 9, 1)}
				want, what = errUnexpectedNumber, fmt.Sprintf("num%d%+d", p, delta)
				labels["invalid-add-wrong-number"] = true
			default: // stored parent, right number, no BABE pre-runtime digest: primary/secondary cannot be told
				p := pickAlive("p")
				hdr = &types.Header{ParentHash: m.b[p].hash, Number: m.b[p].num + 1, StateRoot: common.Hash{0x78, byte(step)}, Digest: types.NewDigest()}
				want, what = nil, fmt.Sprintf("nodigest%d", p)
				labels["invalid-add-no-predigest"] = true
			}
			fmt.Fprintf(&descr, " !%s", what)
			err := bt.AddBlock(hdr, c15Time(9))
			if err == nil {
				t.Fatalf("%s: invalid AddBlock was accepted", ctx())
			}
			if want != nil && !errors.Is(err, want) {
				t.Fatalf("%s: invalid AddBlock failed with %v, documented error is %v", ctx(), err, want)
			}
			if bt.getNode(hdr.Hash()) != nil && what[:3] != "dup" {
				t.Fatalf("%s: rejected block is stored", ctx())
			}
			c15CheckCheap(t, bt, m, ctx())
		}

		midPrunes := rapid.SampledFrom([]int{0, 0, 1, 2}).Draw(t, "midPrunes")
		pruneAt := map[int]bool{}
		for j := 0; j < midPrunes; j++ {
			pruneAt[rapid.IntRange(1, n).Draw(t, "pruneAt")] = true
		}
		inserted := 0
		for {
			step++
			ins := insertable()
			if len(ins) == 0 {
				break
			}
			switch op := rapid.IntRange(0, 11).Draw(t, "op"); {
			case op <= 8:
				i := ins[rapid.IntRange(0, len(ins)-1).Draw(t, "next")]
				fmt.Fprintf(&descr, " +%d<%d", i, m.b[i].parent)
				if err := bt.AddBlock(m.b[i].hdr, c15Time(m.b[i].arrival)); err != nil {
					t.Fatalf("%s: valid AddBlock failed: %v", ctx(), err)
				}
				m.add(i)
				inserted++
				c15CheckCheap(t, bt, m, ctx())
				if pruneAt[inserted] {
					doPrune()
				}
			case op <= 10:
				invalidAdd()
			default:
				labels["mid-insertion-query-check"] = true
				c15CheckNodes(t, bt, m, ctx())
				samplePairs(6)
			}
		}
		if len(orphans()) > 0 {
			labels["blocks-orphaned-by-prune"] = true
		}
		// everything addable is added: full comparison, then 1..2 prunes, each followed by a full comparison
		c15CheckNodes(t, bt, m, ctx())
		if len(m.aliveList()) <= 7 {
			c15CheckAllPairs(t, bt, m, ctx())
		} else {
			samplePairs(24)
		}
		invalidAdd()
		endPrunes := rapid.IntRange(1, 2).Draw(t, "endPrunes")
		for j := 0; j < endPrunes; j++ {
			doPrune()
			samplePairs(12)
			if j == 0 {
				invalidAdd()
			}
		}
		if f := m.forks(); f >= 2 {
			labels["final-forks>=2"] = true
		}
		if nontrivial {
			labels["nontrivial"] = true
		}
		kit.Case(descr.String(), nontrivial, labels.list()...)
	})
}

// TestC15Exhaustive: every parent[] array with parent[i] < i for up to N
// non-root blocks (= every rooted tree shape together with every parent-first
// insertion order, children ordered by insertion), times every prune target,
// times (for the survivors) every second prune target. N = 6 (quick), 7 (thorough).
func TestC15Exhaustive(t *testing.T) {
	defer kit.Flush()
	maxN := 6
	if os.Getenv("VERIF_TIER") == "thorough" {
		maxN = 7
	}
	trees, prunes, second := 0, 0, 0
	var rec func(parent []int, n int)
	run := func(parent []int) {
		n := len(parent) - 1
		kind := make([]int, n+1)
		arrival := make([]int64, n+1)
		for i := range kind {
			kind[i] = i % 3
			arrival[i] = int64(i % 2)
		}
		trees++
		build := func() (*BlockTree, *c15Model) {
			m := newC15Model(parent, kind, arrival, uint(n%2), 0)
			bt := NewBlockTreeFromRoot(m.b[0].hdr)
			for i := 1; i <= n; i++ {
				if err := bt.AddBlock(m.b[i].hdr, c15Time(arrival[i])); err != nil {
					t.Fatalf("tree [%s]: AddBlock(%d): %v", m.shape(), i, err)
				}
				m.add(i)
			}
			return bt, m
		}
		bt, m := build()
		c15CheckNodes(t, bt, m, "tree ["+m.shape()+"]")
		c15CheckAllPairs(t, bt, m, "tree ["+m.shape()+"]")
		for h := 0; h <= n; h++ {
			bt, m := build()
			labels := c15Labels{}
			forks := m.forks()
			ctx := fmt.Sprintf("tree [%s] Prune(%d)", m.shape(), h)
			info := c15CheckPrune(t, bt, m, h, ctx)
			labels.prune(info, forks)
			c15CheckNodes(t, bt, m, ctx)
			c15CheckAllPairs(t, bt, m, ctx)
			prunes++
			ls := []string{"exhaustive"}
			for _, l := range labels.list() {
				ls = append(ls, "exh:"+l)
			}
			kit.Case("exh "+ctx, forks >= 2 && info.siblingSubtrees >= 2, ls...)
			surv := m.aliveList()
			if len(surv) < 3 {
				continue
			}
			for _, h2 := range surv[1:] {
				bt, m := build()
				bt.Prune(m.b[h].hash)
				m.prune(h)
				ctx2 := fmt.Sprintf("%s Prune(%d)", ctx, h2)
				c15CheckPrune(t, bt, m, h2, ctx2)
				c15CheckNodes(t, bt, m, ctx2)
				second++
			}
		}
	}
	rec = func(parent []int, n int) {
		run(parent)
		if n == maxN {
			return
		}
		for p := 0; p <= n; p++ {
			rec(append(append([]int(nil), parent...), p), n+1)
		}
	}
	rec([]int{-1}, 0)
	kit.Note("exhaustive", fmt.Sprintf("all %d parent arrays with <=%d non-root blocks x every prune target: %d prunes, %d second prunes", trees, maxN, prunes, second))
	kit.Label(fmt.Sprintf("exhaustive-trees<=%d", maxN))
	t.Logf("exhaustive: %d trees, %d prunes, %d second prunes", trees, prunes, second)
}

// TestC15Regressions: shrunk inputs of defects found by this check on the pinned tree.
func TestC15Regressions(t *testing.T) {
	defer kit.Flush()
	cases := []struct {
		name   string
		parent []int
		kind   []int // nil: all primary
		prune  int   // -1: none
	}{
		// root with children 1, 2(+child 3), 4; Prune(4) must report {1,2,3}; the pinned tree reported {1}
		{"sibling-after-pruned-sibling", []int{-1, 0, 0, 2, 0}, nil, 4},
		// root with children 1, 2, 3; Prune(2) must report {1,3}; the pinned tree reported [1 3 3]
		{"duplicate-report", []int{-1, 0, 0, 0}, nil, 2},
		// children of a pruned block: Prune(1) must report {2,3,4}
		{"children-of-pruned-block", []int{-1, 0, 0, 2, 2}, nil, 1},
		// pruned sibling precedes the canonical child, whose own siblings sit one level down
		{"pruned-before-canonical", []int{-1, 0, 0, 2, 2, 2}, nil, 4},
		// best block (1, primary) is lower than the highest block (3): GetHashesAtNumber(2) must be {3}; the pinned tree returned []
		{"hashes-above-best", []int{-1, 0, 0, 2}, []int{0, kindPrimary, kindSecondaryPlain, kindSecondaryVRF}, -1},
	}
	for _, c := range cases {
		n := len(c.parent) - 1
		kind := make([]int, n+1)
		if c.kind != nil {
			kind = c.kind
		}
		arrival := make([]int64, n+1)
		m := newC15Model(c.parent, kind, arrival, 0, 0)
		bt := NewBlockTreeFromRoot(m.b[0].hdr)
		for i := 1; i <= n; i++ {
			if err := bt.AddBlock(m.b[i].hdr, c15Time(0)); err != nil {
				t.Fatalf("%s: %v", c.name, err)
			}
			m.add(i)
		}
		if c.prune >= 0 {
			c15CheckPrune(t, bt, m, c.prune, c.name)
		}
		c15CheckNodes(t, bt, m, c.name)
		c15CheckAllPairs(t, bt, m, c.name)
		kit.Case("regression "+c.name, true, "regression")
	}
}
