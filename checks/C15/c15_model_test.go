package blocktree

// Pure reference model of a rooted block tree (parent[] arrays) for property
// C15. Nothing in this file calls into the block tree under test; the only
// repository code used is types.Header (construction and Hash) and the BABE
// pre-digest constructors, which are inputs of the code under test.

import (
	"fmt"
	"sort"
	"strings"

	"github.com/ChainSafe/gossamer/dot/types"
	"github.com/ChainSafe/gossamer/internal/log"
	"github.com/ChainSafe/gossamer/lib/common"
)

func init() {
	// Prune logs a warning on every call when no runtime instance is stored.
	logger.Patch(log.SetLevel(log.Critical))
}

const (
	kindPrimary = iota
	kindSecondaryPlain
	kindSecondaryVRF
)

type c15Block struct {
	parent  int // index of the parent, -1 for the original root
	num     uint
	kind    int
	slot    uint64
	arrival int64
	hdr     *types.Header
	hash    common.Hash
}

// c15Model: blocks are numbered 0..n, parent[i] < i, block 0 is the original
// root. alive = currently stored set (descendants of the current root that
// were added); kids[p] = added children of p in the order they were added.
type c15Model struct {
	b      []c15Block
	root   int
	alive  []bool
	added  []bool // was ever added successfully (or is the original root)
	kids   [][]int
	byHash map[common.Hash]int
}

func c15Digest(kind int, slot uint64, auth uint32) types.Digest {
	var pd *types.PreRuntimeDigest
	var err error
	switch kind {
	case kindPrimary:
		pd, err = types.NewBabePrimaryPreDigest(auth, slot, [32]byte{}, [64]byte{}).ToPreRuntimeDigest()
	case kindSecondaryPlain:
		pd, err = types.NewBabeSecondaryPlainPreDigest(auth, slot).ToPreRuntimeDigest()
	default:
		pd, err = types.NewBabeSecondaryVRFPreDigest(auth, slot, [32]byte{}, [64]byte{}).ToPreRuntimeDigest()
	}
	if err != nil {
		panic(err)
	}
	d := types.NewDigest()
	if err := d.Add(*pd); err != nil {
		panic(err)
	}
	return d
}

// newC15Model builds the headers for the tree given by parent[] (parent[0] is
// ignored), in index order so that parent hashes are known.
func newC15Model(parent []int, kind []int, arrival []int64, rootNum uint, salt byte) *c15Model {
	n := len(parent)
	m := &c15Model{b: make([]c15Block, n), alive: make([]bool, n), added: make([]bool, n), kids: make([][]int, n), byHash: map[common.Hash]int{}}
	for i := 0; i < n; i++ {
		blk := c15Block{parent: -1, num: rootNum, kind: kind[i], arrival: arrival[i]}
		var ph common.Hash
		if i > 0 {
			blk.parent = parent[i]
			blk.num = m.b[parent[i]].num + 1
			ph = m.b[parent[i]].hash
		} else {
			ph = common.Hash{0xee, salt}
		}
		blk.slot = uint64(1000 + 10*int(blk.num) + i)
		var dg types.Digest
		if i == 0 && rootNum == 0 {
			dg = types.NewDigest() // genesis carries no pre-digest
		} else {
			dg = c15Digest(blk.kind, blk.slot, uint32(i%5))
		}
		blk.hdr = &types.Header{
			ParentHash:     ph,
			Number:         blk.num,
			StateRoot:      common.Hash{byte(i), salt, 0x15},
			ExtrinsicsRoot: common.Hash{0x03, 0x17},
			Digest:         dg,
		}
		blk.hash = blk.hdr.Hash()
		m.b[i] = blk
		m.byHash[blk.hash] = i
	}
	m.root = 0
	m.alive[0] = true
	m.added[0] = true
	return m
}

func (m *c15Model) add(i int) {
	m.alive[i] = true
	m.added[i] = true
	m.kids[m.b[i].parent] = append(m.kids[m.b[i].parent], i)
}

// canAdd: the parent is currently stored and the block was never added.
func (m *c15Model) canAdd(i int) bool {
	return i > 0 && !m.added[i] && m.alive[m.b[i].parent]
}

// isAnc reports whether a is an ancestor of b or b itself (both stored).
func (m *c15Model) isAnc(a, b int) bool {
	for x := b; x >= 0; x = m.b[x].parent {
		if x == a {
			return true
		}
		if x == m.root {
			return false
		}
	}
	return false
}

func (m *c15Model) aliveList() []int {
	var out []int
	for i, a := range m.alive {
		if a {
			out = append(out, i)
		}
	}
	return out
}

func (m *c15Model) aliveKids(p int) []int {
	var out []int
	for _, k := range m.kids[p] {
		if m.alive[k] {
			out = append(out, k)
		}
	}
	return out
}

func (m *c15Model) leaves() []int {
	var out []int
	for _, i := range m.aliveList() {
		if len(m.aliveKids(i)) == 0 {
			out = append(out, i)
		}
	}
	return out
}

func (m *c15Model) desc(a int) []int {
	var out []int
	for _, i := range m.aliveList() {
		if m.isAnc(a, i) {
			out = append(out, i)
		}
	}
	return out
}

func (m *c15Model) lca(a, b int) int {
	for x := a; ; x = m.b[x].parent {
		if m.isAnc(x, b) {
			return x
		}
	}
}

// path returns a..b (a an ancestor of b), ascending by number.
func (m *c15Model) path(a, b int) []int {
	var rev []int
	for x := b; ; x = m.b[x].parent {
		rev = append(rev, x)
		if x == a {
			break
		}
	}
	out := make([]int, len(rev))
	for i, x := range rev {
		out[len(rev)-1-i] = x
	}
	return out
}

// ancestorAt returns the ancestor of b (or b) with the given number.
func (m *c15Model) ancestorAt(b int, num uint) int {
	x := b
	for m.b[x].num > num {
		x = m.b[x].parent
	}
	return x
}

func (m *c15Model) depth(i int) int { return int(m.b[i].num - m.b[m.root].num) }

type c15PruneInfo struct {
	pruned          []int
	siblingSubtrees int  // max number of pruned children under one parent
	afterPruned     bool // a pruned or canonical child directly follows a pruned sibling in the parent's child order
	beforeCanonical bool // pruned sibling added before the canonical child
	afterCanonical  bool // pruned sibling added after the canonical child
	deepFork        bool // a pruned subtree hangs >= 2 levels below the old root
}

// prune applies "finalise h" to the model: the result lists exactly the stored
// blocks that are neither ancestors nor descendants of h; afterwards the
// stored set is the descendants of h.
func (m *c15Model) prune(h int) c15PruneInfo {
	var info c15PruneInfo
	keep := map[int]bool{}
	for _, i := range m.aliveList() {
		switch {
		case m.isAnc(h, i):
			keep[i] = true
		case m.isAnc(i, h):
		default:
			info.pruned = append(info.pruned, i)
		}
	}
	prunedSet := map[int]bool{}
	for _, i := range info.pruned {
		prunedSet[i] = true
	}
	for _, p := range m.aliveList() {
		ks := m.aliveKids(p)
		cnt := 0
		seenCanon := false
		for j, k := range ks {
			canon := m.isAnc(k, h)
			if prunedSet[k] {
				cnt++
				if seenCanon {
					info.afterCanonical = true
				}
				if m.depth(k) >= 3 && !prunedSet[p] {
					info.deepFork = true
				}
			}
			if canon {
				seenCanon = true
			}
			if j > 0 && prunedSet[ks[j-1]] {
				info.afterPruned = true
			}
		}
		if !prunedSet[p] {
			for j, k := range ks {
				if prunedSet[k] {
					for _, k2 := range ks[j+1:] {
						if m.isAnc(k2, h) {
							info.beforeCanonical = true
						}
					}
				}
			}
		}
		if cnt > info.siblingSubtrees {
			info.siblingSubtrees = cnt
		}
	}
	for i := range m.alive {
		m.alive[i] = keep[i]
	}
	m.root = h
	return info
}

func (m *c15Model) forks() int {
	f := 0
	for _, p := range m.aliveList() {
		if len(m.aliveKids(p)) >= 2 {
			f++
		}
	}
	return f
}

func (m *c15Model) hashes(idx []int) []common.Hash {
	out := make([]common.Hash, len(idx))
	for i, x := range idx {
		out[i] = m.b[x].hash
	}
	return out
}

// names renders a hash list with model indices (or the short hash when the
// hash is not a model block), for failure messages.
func (m *c15Model) names(hs []common.Hash) string {
	var sb strings.Builder
	sb.WriteString("[")
	for i, h := range hs {
		if i > 0 {
			sb.WriteString(" ")
		}
		if x, ok := m.byHash[h]; ok {
			fmt.Fprintf(&sb, "%d", x)
		} else {
			fmt.Fprintf(&sb, "?%x", h[:3])
		}
	}
	sb.WriteString("]")
	return sb.String()
}

func (m *c15Model) shape() string {
	var sb strings.Builder
	for i := 1; i < len(m.b); i++ {
		if i > 1 {
			sb.WriteString(",")
		}
		fmt.Fprintf(&sb, "%d", m.b[i].parent)
	}
	return sb.String()
}

// sameSet compares a returned hash list with the expected index set; it
// reports duplicates, missing and unexpected entries.
func (m *c15Model) sameSet(got []common.Hash, want []int) error {
	seen := map[common.Hash]bool{}
	for _, h := range got {
		if seen[h] {
			return fmt.Errorf("duplicate %s in %s", m.names([]common.Hash{h}), m.names(got))
		}
		seen[h] = true
	}
	w := append([]int(nil), want...)
	sort.Ints(w)
	if len(got) != len(w) {
		return fmt.Errorf("got %s, want blocks %v", m.names(got), w)
	}
	for _, x := range w {
		if !seen[m.b[x].hash] {
			return fmt.Errorf("got %s, want blocks %v", m.names(got), w)
		}
	}
	return nil
}
