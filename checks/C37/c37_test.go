// Package c37: black-box check of property C37 (keystore encryption is a
// faithful, tamper-evident round trip) against lib/keystore.
//
// Oracle (from the property statement only; no knowledge of AES-GCM is used
// beyond "the first 12 bytes of the stored blob are the nonce", which is only
// needed to build the nonce-swap mutation):
//
//	same password, untouched blob     => the same key (same scheme, same private bytes, same public key)
//	other password, or modified blob  => an error (never a key), and never a panic
//
// Every library call goes through a recover() wrapper, so a panic is reported
// as a violation with the offending input instead of killing the process.
package c37

import (
	"bytes"
	"encoding/json"
	"fmt"
	"os"
	"path/filepath"
	"strings"
	"testing"
	"unicode"

	kit "github.com/ChainSafe/gossamer/internal/verifkit"
	"github.com/ChainSafe/gossamer/lib/crypto"
	"github.com/ChainSafe/gossamer/lib/crypto/ed25519"
	"github.com/ChainSafe/gossamer/lib/crypto/secp256k1"
	"github.com/ChainSafe/gossamer/lib/crypto/sr25519"
	"github.com/ChainSafe/gossamer/lib/keystore"
	"pgregory.net/rapid"
)

const rule = "one case = one private key (ed25519/sr25519/secp256k1 from a generated 32-byte seed) and one password " +
	"(empty, 1 byte, ASCII, 1 KiB, multi-byte UTF-8, invalid UTF-8, binary); the blob is decrypted untouched (must give the same key) and then " +
	"truncated to EVERY shorter length, with each byte XORed with a generated non-zero mask, extended at either end, with the nonce swapped with a " +
	"second encryption, and untouched under 6-9 different passwords (each must give an error, no key, no panic). " +
	"non-trivial = the positive round trip succeeded and at least one mutated-blob decryption and one other-password decryption were judged; " +
	"distinct by (scheme, seed, password, mask)"

const nonceLen = 12 // documented layout of keystore.Encrypt: nonce || sealed

// ---------------------------------------------------------------- generators

var schemes = []string{crypto.Ed25519Type, crypto.Sr25519Type, crypto.Secp256k1Type}

func genSeed() *rapid.Generator[[]byte] {
	return rapid.Custom(func(t *rapid.T) []byte {
		s := rapid.SliceOfN(rapid.Byte(), 32, 32).Draw(t, "seed")
		return s
	})
}

// mkKey builds a private key of the scheme from a 32-byte seed the way callers
// of the library do (keypair-from-seed for the two 25519 schemes, raw scalar
// for secp256k1). The seed is normalised to a valid secp256k1 scalar
// (non-zero, below the group order) because real keys always are.
func mkKey(scheme string, seed []byte) (crypto.PrivateKey, error) {
	switch scheme {
	case crypto.Ed25519Type:
		kp, err := ed25519.NewKeypairFromSeed(seed)
		if err != nil {
			return nil, err
		}
		return kp.Private(), nil
	case crypto.Sr25519Type:
		kp, err := sr25519.NewKeypairFromSeed(seed)
		if err != nil {
			return nil, err
		}
		return kp.Private(), nil
	case crypto.Secp256k1Type:
		s := append([]byte{}, seed...)
		if s[0] == 0xff {
			s[0] = 0x7f // any value whose first byte is < 0xff is below the group order
		}
		s[31] |= 1 // non-zero
		return secp256k1.NewPrivateKey(s)
	}
	return nil, fmt.Errorf("unknown scheme %q", scheme)
}

type password struct {
	class string
	b     []byte
}

var invalidUTF8 = [][]byte{
	{0xff}, {0xfe, 0xff}, {0x80}, {0xc0, 0xaf}, {0xe2, 0x82}, {0xed, 0xa0, 0x80}, {0xf4, 0x90, 0x80, 0x80}, {0xc3},
}

func genPassword() *rapid.Generator[password] {
	return rapid.Custom(func(t *rapid.T) password {
		class := rapid.SampledFrom([]string{"empty", "1byte", "ascii", "long", "utf8", "invalid-utf8", "binary"}).Draw(t, "pwclass")
		switch class {
		case "empty":
			if rapid.Bool().Draw(t, "nil") {
				return password{class, nil}
			}
			return password{class, []byte{}}
		case "1byte":
			return password{class, []byte{rapid.Byte().Draw(t, "b")}}
		case "ascii":
			return password{class, []byte(rapid.StringMatching(`[ -~]{1,48}`).Draw(t, "pw"))}
		case "long":
			n := rapid.SampledFrom([]int{31, 32, 33, 64, 65, 128, 1024, 4096}).Draw(t, "n")
			return password{class, rapid.SliceOfN(rapid.Byte(), n, n).Draw(t, "pw")}
		case "utf8":
			s := rapid.StringOfN(rapid.RuneFrom(nil, unicode.Han, unicode.Cyrillic, unicode.Greek, unicode.Latin, unicode.So, unicode.Mn), 1, 24, -1).Draw(t, "pw")
			return password{class, []byte(s)}
		case "invalid-utf8":
			pre := rapid.StringMatching(`[a-zé世]{0,6}`).Draw(t, "pre")
			bad := rapid.SampledFrom(invalidUTF8).Draw(t, "bad")
			suf := rapid.StringMatching(`[a-zé世]{0,6}`).Draw(t, "suf")
			return password{class, append(append([]byte(pre), bad...), suf...)}
		default:
			return password{class, rapid.SliceOfN(rapid.Byte(), 1, 64).Draw(t, "pw")}
		}
	})
}

// otherPasswords returns passwords that differ from pw in their bytes: the
// near misses an implementation could confuse with pw (trimmed, padded,
// NUL-terminated, sanitised to valid UTF-8, truncated to a block, case
// folded) plus one generated password.
func otherPasswords(t *rapid.T, pw []byte) [][]byte {
	var out [][]byte
	add := func(b []byte) {
		if bytes.Equal(b, pw) {
			return
		}
		for _, o := range out {
			if bytes.Equal(o, b) {
				return
			}
		}
		out = append(out, b)
	}
	cat := func(a []byte, b ...byte) []byte { return append(append([]byte{}, a...), b...) }
	add(cat(pw, 0))
	add(cat(pw, ' '))
	add(cat(pw, '\n'))
	add(cat([]byte{' '}, pw...))
	if len(pw) > 0 {
		add(cat(pw[:len(pw)-1]))
		add(cat(pw[1:]))
		i := rapid.IntRange(0, len(pw)-1).Draw(t, "flipAt")
		f := cat(pw)
		f[i] ^= 1 << uint(rapid.IntRange(0, 7).Draw(t, "flipBit"))
		add(f)
		add([]byte{})
	}
	add([]byte(string([]rune(string(pw)))))          // invalid UTF-8 replaced by U+FFFD
	add([]byte(strings.ToValidUTF8(string(pw), ""))) // invalid UTF-8 dropped
	add([]byte(strings.ToUpper(string(pw))))
	add([]byte(strings.ToLower(string(pw))))
	add(bytes.TrimSpace(pw))
	add(genPassword().Draw(t, "otherpw").b)
	return out
}

// ------------------------------------------------------------ guarded calls

type outcome struct {
	out []byte
	key crypto.PrivateKey
	err error
	pan any
}

func guard(f func() outcome) (o outcome) {
	defer func() {
		if r := recover(); r != nil {
			o = outcome{pan: r}
		}
	}()
	return f()
}

func decrypt(data, pw []byte) outcome {
	return guard(func() outcome {
		out, err := keystore.Decrypt(data, pw)
		return outcome{out: out, err: err}
	})
}

func decryptKey(data, pw []byte, scheme string) outcome {
	return guard(func() outcome {
		k, err := keystore.DecryptPrivateKey(data, pw, scheme)
		return outcome{key: k, err: err}
	})
}

func readFile(path string, pw []byte) outcome {
	return guard(func() outcome {
		k, err := keystore.ReadFromFileAndDecrypt(path, pw)
		return outcome{key: k, err: err}
	})
}

func isNilKey(k crypto.PrivateKey) bool {
	if k == nil {
		return true
	}
	switch v := k.(type) {
	case *ed25519.PrivateKey:
		return v == nil
	case *sr25519.PrivateKey:
		return v == nil
	case *secp256k1.PrivateKey:
		return v == nil
	}
	return false
}

// mustReject: the property demands an error, no key and no panic.
func mustReject(t *rapid.T, o outcome, format string, args ...any) {
	if o.pan == nil && o.err != nil {
		return
	}
	what := fmt.Sprintf(format, args...)
	if o.pan != nil {
		t.Fatalf("%s: PANIC %v", what, o.pan)
	}
	if o.err == nil {
		if o.key != nil {
			t.Fatalf("%s: no error, returned a key %x", what, o.key.Encode())
		}
		t.Fatalf("%s: no error, returned plaintext %x", what, o.out)
	}
}

// sameKey: same scheme (concrete type), same private bytes, same public key.
func sameKey(want, got crypto.PrivateKey) error {
	if isNilKey(got) {
		return fmt.Errorf("nil key")
	}
	if fmt.Sprintf("%T", want) != fmt.Sprintf("%T", got) {
		return fmt.Errorf("key type %T, want %T", got, want)
	}
	if !bytes.Equal(want.Encode(), got.Encode()) {
		return fmt.Errorf("private bytes %x, want %x", got.Encode(), want.Encode())
	}
	wp, err1 := want.Public()
	gp, err2 := got.Public()
	if err1 != nil || err2 != nil {
		return fmt.Errorf("Public(): %v / %v", err1, err2)
	}
	if !bytes.Equal(wp.Encode(), gp.Encode()) {
		return fmt.Errorf("public key %x, want %x", gp.Encode(), wp.Encode())
	}
	return nil
}

func short(b []byte) string {
	if len(b) > 40 {
		h := kit.Blake256(b)
		return fmt.Sprintf("%x..(%d bytes,h %x)", b[:16], len(b), h[:4])
	}
	return fmt.Sprintf("%x", b)
}

// ------------------------------------------------------------ the properties

// tamperAll runs every blob mutation of the property against dec (which
// decrypts with the right password) and returns how many were judged.
func tamperAll(t *rapid.T, ct, ct2 []byte, mask byte, extra []byte, dec func([]byte) outcome, what string) int {
	n := 0
	// truncated to every length (0 .. len-1)
	for l := 0; l < len(ct); l++ {
		mustReject(t, dec(append([]byte{}, ct[:l]...)), "%s truncated to %d of %d bytes", what, l, len(ct))
		n++
	}
	// truncated at the front
	for _, l := range []int{1, nonceLen, len(ct) - 1} {
		if l < len(ct) {
			mustReject(t, dec(append([]byte{}, ct[l:]...)), "%s with the first %d bytes removed", what, l)
			n++
		}
	}
	// each byte modified
	for i := range ct {
		c := append([]byte{}, ct...)
		c[i] ^= mask
		mustReject(t, dec(c), "%s with byte %d ^= %#x", what, i, mask)
		n++
	}
	// extended
	mustReject(t, dec(append(append([]byte{}, ct...), extra...)), "%s extended by %x", what, extra)
	mustReject(t, dec(append(append([]byte{}, extra...), ct...)), "%s prefixed by %x", what, extra)
	mustReject(t, dec(append(append([]byte{}, ct...), ct...)), what+" doubled")
	n += 3
	// nonce swapped between two encryptions of the same key under the same password
	if len(ct) >= nonceLen && len(ct2) >= nonceLen && !bytes.Equal(ct[:nonceLen], ct2[:nonceLen]) {
		a := append(append([]byte{}, ct2[:nonceLen]...), ct[nonceLen:]...)
		b := append(append([]byte{}, ct[:nonceLen]...), ct2[nonceLen:]...)
		mustReject(t, dec(a), what+" with the nonce of the second encryption")
		mustReject(t, dec(b), what+" (second encryption) with the nonce of the first")
		n += 2
	}
	return n
}

// TestC37Blob: Encrypt/Decrypt and EncryptPrivateKey/DecryptPrivateKey.
func TestC37Blob(t *testing.T) {
	defer kit.Flush()
	kit.Note("rule", rule)
	rapid.Check(t, func(t *rapid.T) {
		scheme := rapid.SampledFrom(schemes).Draw(t, "scheme")
		seed := genSeed().Draw(t, "seed")
		pw := genPassword().Draw(t, "password")
		mask := byte(rapid.IntRange(1, 255).Draw(t, "mask"))
		extra := rapid.SliceOfN(rapid.Byte(), 1, 20).Draw(t, "extra")

		priv, err := mkKey(scheme, seed)
		if err != nil {
			t.Fatalf("building a %s key from seed %x: %v", scheme, seed, err)
		}
		plain := append([]byte{}, priv.Encode()...)

		ct, err := keystore.EncryptPrivateKey(priv, pw.b)
		if err != nil {
			t.Fatalf("EncryptPrivateKey: %v", err)
		}
		ct2, err := keystore.EncryptPrivateKey(priv, pw.b)
		if err != nil {
			t.Fatalf("EncryptPrivateKey (second): %v", err)
		}
		orig := append([]byte{}, ct...)

		// same password => same key, for both encryptions, through both entry points
		for i, c := range [][]byte{ct, ct2} {
			o := decrypt(c, pw.b)
			if o.pan != nil || o.err != nil {
				t.Fatalf("Decrypt of encryption %d with the same password: err %v panic %v", i, o.err, o.pan)
			}
			if !bytes.Equal(o.out, plain) {
				t.Fatalf("Decrypt of encryption %d: %x, want %x", i, o.out, plain)
			}
			ok := decryptKey(c, pw.b, scheme)
			if ok.pan != nil || ok.err != nil {
				t.Fatalf("DecryptPrivateKey of encryption %d with the same password: err %v panic %v", i, ok.err, ok.pan)
			}
			if err := sameKey(priv, ok.key); err != nil {
				t.Fatalf("DecryptPrivateKey of encryption %d with the same password: %v", i, err)
			}
		}
		if !bytes.Equal(ct, orig) {
			t.Fatalf("Decrypt modified the caller's ciphertext")
		}

		// generic message path (Encrypt/Decrypt of arbitrary bytes, including empty)
		msg := rapid.SliceOfN(rapid.Byte(), 0, 80).Draw(t, "msg")
		mct, err := keystore.Encrypt(msg, pw.b)
		if err != nil {
			t.Fatalf("Encrypt(msg): %v", err)
		}
		if o := decrypt(mct, pw.b); o.pan != nil || o.err != nil || !bytes.Equal(o.out, msg) {
			t.Fatalf("Decrypt(Encrypt(%x)) = %x, err %v, panic %v", msg, o.out, o.err, o.pan)
		}

		// modified / truncated blob => error
		n := tamperAll(t, ct, ct2, mask, extra, func(c []byte) outcome { return decrypt(c, pw.b) }, "Decrypt: blob")
		n += tamperAll(t, ct, ct2, mask, extra, func(c []byte) outcome { return decryptKey(c, pw.b, scheme) }, "DecryptPrivateKey: blob")
		n += tamperAll(t, mct, nil, mask, extra, func(c []byte) outcome { return decrypt(c, pw.b) }, "Decrypt: message blob")
		// a blob made for another plaintext under the same password, grafted onto this nonce
		if len(mct) > nonceLen {
			g := append(append([]byte{}, ct[:nonceLen]...), mct[nonceLen:]...)
			mustReject(t, decrypt(g, pw.b), "Decrypt: nonce of the key blob + body of the message blob")
			n++
		}

		// other password => error
		others := otherPasswords(t, pw.b)
		for _, op := range others {
			mustReject(t, decrypt(ct, op), "Decrypt with password %q instead of %q", op, pw.b)
			mustReject(t, decryptKey(ct, op, scheme), "DecryptPrivateKey with password %q instead of %q", op, pw.b)
		}
		// and the converse: encrypted under the other password, opened with ours
		oct, err := keystore.EncryptPrivateKey(priv, others[0])
		if err != nil {
			t.Fatalf("EncryptPrivateKey: %v", err)
		}
		mustReject(t, decryptKey(oct, pw.b, scheme), "DecryptPrivateKey with password %q of a blob made with %q", pw.b, others[0])

		// the caller's password buffer is its own: a caller that wipes or reuses it after
		// a call (as callers holding secrets do) must see the same verdicts as one that
		// passes fresh slices. buf holds pw, is used for a call, then overwritten in place
		// with another password of the same length.
		if len(pw.b) > 0 {
			var same []byte // another password with the length of pw
			for _, op := range others {
				if len(op) == len(pw.b) {
					same = op
					break
				}
			}
			if same == nil {
				same = append([]byte{}, pw.b...)
				same[0] ^= 0x01
			}
			// (a call with another password first, so that the call with buf is not the
			// repetition of the previous password)
			if _, err := keystore.EncryptPrivateKey(priv, append([]byte{}, same...)); err != nil {
				t.Fatalf("EncryptPrivateKey: %v", err)
			}
			buf := append([]byte{}, pw.b...)
			ct3, err := keystore.EncryptPrivateKey(priv, buf)
			if err != nil {
				t.Fatalf("EncryptPrivateKey: %v", err)
			}
			copy(buf, same)
			mustReject(t, decryptKey(ct3, buf, scheme), "DecryptPrivateKey with a reused password buffer now holding %q, blob made when it held %q", same, pw.b)
			ct4, err := keystore.EncryptPrivateKey(priv, buf) // made under `same`
			if err != nil {
				t.Fatalf("EncryptPrivateKey: %v", err)
			}
			mustReject(t, decryptKey(ct4, append([]byte{}, pw.b...), scheme), "DecryptPrivateKey with %q of a blob made with a reused buffer holding %q", pw.b, same)
			if o := decryptKey(ct4, append([]byte{}, same...), scheme); o.err != nil || o.pan != nil {
				t.Fatalf("DecryptPrivateKey with %q of the blob made with a reused buffer holding %q: err %v panic %v", same, same, o.err, o.pan)
			}
			if o := decryptKey(ct3, append([]byte{}, pw.b...), scheme); o.err != nil || o.pan != nil {
				t.Fatalf("DecryptPrivateKey with the same password %q after the caller's buffer was reused: err %v panic %v", pw.b, o.err, o.pan)
			}
		}

		labels := []string{"scheme:" + scheme, "pw:" + pw.class, fmt.Sprintf("blob-len:%d", len(ct))}
		if mask&(mask-1) == 0 {
			labels = append(labels, "mask:single-bit")
		}
		if len(msg) == 0 {
			labels = append(labels, "msg:empty")
		}
		kit.Case(fmt.Sprintf("%s seed=%x pw(%s)=%s mask=%#x mutated=%d otherpw=%d", scheme, seed, pw.class, short(pw.b), mask, n, len(others)),
			n > 0 && len(others) > 0, labels...)
	})
}

// ----------------------------------------------------------------- file path

type fileForm struct {
	Type       string
	PublicKey  string
	Ciphertext []byte
}

var scratchDir string

func scratch(t *testing.T) string {
	cwd, err := os.Getwd()
	if err != nil {
		t.Fatal(err)
	}
	if strings.HasPrefix(cwd, "/verif/checks") || strings.HasPrefix(cwd, "/repo") {
		t.Fatalf("refusing to write key files under %s; run from a scratch directory", cwd)
	}
	d, err := os.MkdirTemp(cwd, "c37-keys-")
	if err != nil {
		t.Fatal(err)
	}
	return d
}

const fileRule = "one case = one key + password written with EncryptAndWriteToFile and read back with ReadFromFileAndDecrypt (same password => same key of the same scheme); " +
	"then the Ciphertext field of the JSON file is truncated (to 0, 1, the lengths around the nonce and tag boundaries, len-1 and 4 generated lengths), set to null, has 4 generated bytes modified, is extended, is replaced by a second encryption with swapped nonce, " +
	"and the file is read with other passwords (all => error, no key, no panic); the file itself cut at a generated length => error or (only when just trailing white space was cut) the same key. " +
	"non-trivial = positive round trip through the file succeeded and >= 1 mutated file was judged"

// TestC37File: EncryptAndWriteToFile / ReadFromFileAndDecrypt.
func TestC37File(t *testing.T) {
	defer kit.Flush()
	kit.Note("rule-file", fileRule)
	scratchDir = scratch(t)
	defer os.RemoveAll(scratchDir)
	seq := 0
	rapid.Check(t, func(t *rapid.T) {
		scheme := rapid.SampledFrom(schemes).Draw(t, "scheme")
		seed := genSeed().Draw(t, "seed")
		pw := genPassword().Draw(t, "password")
		mask := byte(rapid.IntRange(1, 255).Draw(t, "mask"))
		extra := rapid.SliceOfN(rapid.Byte(), 1, 20).Draw(t, "extra")
		priv, err := mkKey(scheme, seed)
		if err != nil {
			t.Fatalf("building a %s key from seed %x: %v", scheme, seed, err)
		}
		seq++
		path := filepath.Join(scratchDir, fmt.Sprintf("k%d.key", seq))
		relPath, _ := filepath.Rel(mustCwd(), path)
		defer os.Remove(path)

		if err := keystore.EncryptAndWriteToFile(path, priv, pw.b); err != nil {
			t.Fatalf("EncryptAndWriteToFile: %v", err)
		}
		// read back through an absolute and a relative name
		for _, p := range []string{path, relPath} {
			o := readFile(p, pw.b)
			if o.pan != nil || o.err != nil {
				t.Fatalf("ReadFromFileAndDecrypt(%s) with the same password: err %v panic %v", p, o.err, o.pan)
			}
			if err := sameKey(priv, o.key); err != nil {
				t.Fatalf("ReadFromFileAndDecrypt(%s) with the same password: %v", p, err)
			}
		}
		raw, err := os.ReadFile(path)
		if err != nil {
			t.Fatal(err)
		}
		var ff fileForm
		if err := json.Unmarshal(raw, &ff); err != nil {
			t.Fatalf("key file is not JSON: %v", err)
		}
		if ff.Type != scheme {
			t.Fatalf("key file records type %q for a %s key", ff.Type, scheme)
		}
		// the stored blob itself must open with the password (it is the stored ciphertext of the property)
		if o := decryptKey(ff.Ciphertext, pw.b, scheme); o.pan != nil || o.err != nil || sameKey(priv, o.key) != nil {
			t.Fatalf("DecryptPrivateKey of the stored Ciphertext field: err %v panic %v", o.err, o.pan)
		}

		// other passwords on the untouched file
		others := otherPasswords(t, pw.b)
		for _, op := range others {
			mustReject(t, readFile(path, op), "ReadFromFileAndDecrypt with password %q instead of %q", op, pw.b)
		}

		// mutated Ciphertext field, rewritten as JSON
		ct := ff.Ciphertext
		ct2, err := keystore.EncryptPrivateKey(priv, pw.b)
		if err != nil {
			t.Fatal(err)
		}
		viaFile := func(c []byte) outcome {
			g := ff
			g.Ciphertext = c
			b, err := json.MarshalIndent(g, "", "\t")
			if err != nil {
				t.Fatal(err)
			}
			if err := os.WriteFile(path, append(b, '\n'), 0o600); err != nil {
				t.Fatal(err)
			}
			return readFile(path, pw.b)
		}
		n := 0
		// (truncation to EVERY length is judged on the blob in TestC37Blob; through the
		// file only the lengths around the nonce and tag boundaries plus generated ones)
		lens := []int{0, 1, nonceLen - 1, nonceLen, nonceLen + 1, nonceLen + 15, nonceLen + 16, nonceLen + 17, len(ct) - 16, len(ct) - 1}
		for k := 0; k < 4; k++ {
			lens = append(lens, rapid.IntRange(0, len(ct)-1).Draw(t, "truncTo"))
		}
		for _, l := range lens {
			if l < 0 || l >= len(ct) {
				continue
			}
			mustReject(t, viaFile(append([]byte{}, ct[:l]...)), "file with Ciphertext truncated to %d of %d bytes", l, len(ct))
			n++
		}
		// Ciphertext null / absent
		mustReject(t, viaFile(nil), "file with Ciphertext null")
		n++
		for k := 0; k < 4; k++ {
			i := rapid.IntRange(0, len(ct)-1).Draw(t, "modAt")
			c := append([]byte{}, ct...)
			c[i] ^= mask
			mustReject(t, viaFile(c), "file with Ciphertext byte %d ^= %#x", i, mask)
			n++
		}
		mustReject(t, viaFile(append(append([]byte{}, ct...), extra...)), "file with Ciphertext extended by %x", extra)
		mustReject(t, viaFile(append(append([]byte{}, ct2[:nonceLen]...), ct[nonceLen:]...)), "file with the nonce of another encryption")
		n += 2
		// sanity: the harness's rewrite is itself faithful (unmodified blob through viaFile opens)
		if o := viaFile(ct); o.pan != nil || o.err != nil || sameKey(priv, o.key) != nil {
			t.Fatalf("rewritten but unmodified file does not open: err %v panic %v", o.err, o.pan)
		}

		// the file itself cut short
		trimmed := len(bytes.TrimRight(raw, " \t\r\n"))
		cuts := []int{0, 1, trimmed - 1, rapid.IntRange(0, trimmed-1).Draw(t, "cut1"), rapid.IntRange(0, trimmed-1).Draw(t, "cut2")}
		for _, c := range cuts {
			if err := os.WriteFile(path, raw[:c], 0o600); err != nil {
				t.Fatal(err)
			}
			mustReject(t, readFile(path, pw.b), "file cut to %d of %d bytes", c, len(raw))
			n++
		}
		if trimmed < len(raw) { // only trailing white space removed: still the same stored ciphertext
			if err := os.WriteFile(path, raw[:trimmed], 0o600); err != nil {
				t.Fatal(err)
			}
			if o := readFile(path, pw.b); o.pan != nil || o.err != nil || sameKey(priv, o.key) != nil {
				t.Fatalf("file without trailing newline: err %v panic %v", o.err, o.pan)
			}
		}
		// missing file
		os.Remove(path)
		mustReject(t, readFile(path, pw.b), "missing file")

		kit.Case(fmt.Sprintf("file %s seed=%x pw(%s)=%s mask=%#x mutated=%d otherpw=%d", scheme, seed, pw.class, short(pw.b), mask, n, len(others)),
			n > 0, "file", "file-scheme:"+scheme, "file-pw:"+pw.class)
	})
}

func mustCwd() string {
	d, err := os.Getwd()
	if err != nil {
		panic(err)
	}
	return d
}

// ---------------------------------------------------------------- regressions

// TestC37Regressions: shrunk inputs of failures found on the pinned tree
// (Decrypt panicked with "slice bounds out of range [:12]" on every blob
// shorter than the nonce), kept as deterministic cases.
func TestC37Regressions(t *testing.T) {
	defer kit.Flush()
	for _, pw := range [][]byte{nil, []byte("password")} {
		for l := 0; l < nonceLen; l++ {
			data := make([]byte, l)
			for _, o := range []outcome{decrypt(data, pw), decryptKey(data, pw, crypto.Sr25519Type)} {
				if o.pan != nil {
					t.Errorf("blob of %d bytes, password %q: PANIC %v", l, pw, o.pan)
				} else if o.err == nil {
					t.Errorf("blob of %d bytes, password %q: no error", l, pw)
				}
			}
			kit.Case(fmt.Sprintf("regression short blob %d pw=%q", l, pw), true, "regression")
		}
	}
	// a 12-byte blob (nonce only) and a 27-byte blob (shorter than nonce+tag)
	for _, l := range []int{12, 13, 27} {
		if o := decrypt(make([]byte, l), []byte("x")); o.pan != nil || o.err == nil {
			t.Errorf("blob of %d zero bytes: err %v panic %v", l, o.err, o.pan)
		}
	}
}
