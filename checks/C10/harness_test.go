package wazero_runtime

// Guest-memory harness shared by the host-function checks: a hand-assembled
// Wasm module that declares and exports one linear memory and nothing else is
// instantiated with the real wazero runtime, so the Go host functions of
// imports.go can be called directly with a genuine api.Module (real wazero
// memory: bounds checks, Grow) and a runtime.Context carrying the real
// FreeingBumpHeapAllocator. No runtime blob is needed.

import (
	"context"
	"fmt"
	"sync"

	"github.com/ChainSafe/gossamer/internal/log"
	"github.com/ChainSafe/gossamer/lib/runtime"
	"github.com/ChainSafe/gossamer/lib/runtime/allocator"
	"github.com/tetratelabs/wazero"
	"github.com/tetratelabs/wazero/api"
)

// (module (memory (export "memory") 32))
var memOnlyWasm = []byte{
	0x00, 0x61, 0x73, 0x6d, 0x01, 0x00, 0x00, 0x00, // magic, version 1
	0x05, 0x03, 0x01, 0x00, 0x20, // memory section: one memory, no max, min 32 pages
	0x07, 0x0a, 0x01, 0x06, 'm', 'e', 'm', 'o', 'r', 'y', 0x02, 0x00, // export section: "memory" = memory 0
}

// heapBase plays the role of the guest's __heap_base global.
const harnessHeapBase = 1024

var (
	harnessOnce sync.Once
	harnessRT   wazero.Runtime
	harnessMod  api.Module
	harnessErr  error
)

// guestModule returns the process-wide module (instantiated once; cases get a
// fresh allocator each, like Instance.Exec does for every call).
func guestModule() (api.Module, error) {
	harnessOnce.Do(func() {
		// the host functions log every rejected input at error level; keep the
		// shard outputs readable (the return values are what is judged)
		logger.Patch(log.SetLevel(log.Critical))
		ctx := context.Background()
		harnessRT = wazero.NewRuntimeWithConfig(ctx, wazero.NewRuntimeConfigInterpreter())
		harnessMod, harnessErr = harnessRT.Instantiate(ctx, memOnlyWasm)
		if harnessErr == nil && harnessMod.Memory() == nil {
			harnessErr = fmt.Errorf("module has no memory")
		}
	})
	return harnessMod, harnessErr
}

// guest bundles what one host call needs.
type guest struct {
	mod   api.Module
	rtCtx *runtime.Context
	ctx   context.Context
}

func newGuest(storage runtime.Storage) (*guest, error) {
	mod, err := guestModule()
	if err != nil {
		return nil, err
	}
	rtCtx := &runtime.Context{
		Storage:   storage,
		Allocator: allocator.NewFreeingBumpHeapAllocator(harnessHeapBase),
	}
	return &guest{
		mod:   mod,
		rtCtx: rtCtx,
		ctx:   context.WithValue(context.Background(), runtimeContextKey, rtCtx),
	}, nil
}

// put copies data into guest memory through the allocator (as the guest would
// before calling a host function) and returns the pointer-size span.
func (g *guest) put(data []byte) (uint64, error) {
	ptr, err := g.rtCtx.Allocator.Allocate(g.mod.Memory(), uint32(len(data)))
	if err != nil {
		return 0, err
	}
	if !g.mod.Memory().Write(ptr, data) {
		return 0, fmt.Errorf("guest memory write out of range: ptr %d len %d", ptr, len(data))
	}
	return newPointerSize(ptr, uint32(len(data))), nil
}

func (g *guest) free(span uint64) error {
	ptr, _ := splitPointerSize(span)
	return g.rtCtx.Allocator.Deallocate(g.mod.Memory(), ptr)
}
