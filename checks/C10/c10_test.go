package wazero_runtime

// C10 - Host trie-root functions compute spec roots.
//
// The four host functions are called directly (no runtime blob) with a real
// wazero api.Module (harness_test.go) and a runtime.Context carrying the real
// FreeingBumpHeapAllocator. The input is SCALE-encoded by an encoder written
// here from the SCALE spec; the expected root comes from kit.SpecRoot, the
// from-the-spec trie of the kit (shares no code with pkg/trie); decodability
// of damaged inputs is decided by a reference decoder written here.
//
//	ext_trie_blake2_256_root_version_2(Vec<(Vec<u8>,Vec<u8>)>, v)  = root of the last-wins map (trie-root collects into a BTreeMap)
//	ext_trie_blake2_256_ordered_root_version_2(Vec<Vec<u8>>, v)    = root of { compact(i) -> value_i }
//	v = 0 -> state version 0, v = 1 -> state version 1 (values > 32 bytes hashed), anything else: failure
//	..._version_1(x) = ..._version_2(x, 0)
//	failure (unknown version, undecodable input) = return value 0, as the code documents.

import (
	"bytes"
	"encoding/binary"
	"encoding/hex"
	"fmt"
	"math"
	"testing"

	kit "github.com/ChainSafe/gossamer/internal/verifkit"
	"pgregory.net/rapid"
)

const c10Rule = "entry lists of 0-300 (key,value) pairs over the kit's nibble-colliding key alphabet (duplicates, empty values, values around the 32-byte V1 threshold) " +
	"and value lists of 0-300 items (indices cross the 1-/2-byte compact boundary at 64), SCALE-encoded by the check; version 0..255; " +
	"inputs valid, cut short at a drawn position, with an inflated element count or an inflated last byte-string length; " +
	"both the _version_1 and _version_2 form are called. non-trivial = (>= 2 distinct keys sharing a nibble prefix) or (>= 65 ordered values) or " +
	"(the input must be rejected); distinct by (function, version, input bytes)"

const c10ZeroFill = "C10-truncated-last-value-zero-filled"

// ---------------------------------------------------------------- reference SCALE

// c10CompactU32 decodes a canonical Compact<u32> at the start of b
// (parity-scale-codec rules). ok=false: truncated, non-canonical or > u32.
func c10CompactU32(b []byte) (n uint32, used int, ok bool) {
	if len(b) == 0 {
		return 0, 0, false
	}
	switch b[0] & 3 {
	case 0:
		return uint32(b[0] >> 2), 1, true
	case 1:
		if len(b) < 2 {
			return 0, 0, false
		}
		x := (uint32(b[0]) | uint32(b[1])<<8) >> 2
		return x, 2, x > 0x3f
	case 2:
		if len(b) < 4 {
			return 0, 0, false
		}
		x := binary.LittleEndian.Uint32(b[:4]) >> 2
		return x, 4, x > 0x3fff
	default:
		if b[0]>>2 != 0 || len(b) < 5 {
			return 0, 0, false
		}
		x := binary.LittleEndian.Uint32(b[1:5])
		return x, 5, x > math.MaxUint32>>2
	}
}

func encBytes(out, b []byte) []byte {
	out = append(out, kit.SpecCompact(uint64(len(b)))...)
	return append(out, b...)
}

// encList encodes Vec<Vec<u8>> (per=1) or Vec<(Vec<u8>,Vec<u8>)> (per=2, the
// strings are key0,value0,key1,value1,...).
func encList(strs [][]byte, per int) []byte {
	out := kit.SpecCompact(uint64(len(strs) / per))
	for _, s := range strs {
		out = encBytes(out, s)
	}
	return out
}

// refDecodeList decodes data as a vector of `per` byte strings per element.
// On failure it reports whether the only thing missing is part of the body of
// the very last byte string while at least one byte of that body is present
// (partialLast, with the offset where that body starts) - the trigger class of
// the known finding.
func refDecodeList(data []byte, per int) (strs [][]byte, ok bool, partialLast bool, lastBodyStart int) {
	n, used, good := c10CompactU32(data)
	if !good {
		return nil, false, false, 0
	}
	pos := used
	total := uint64(n) * uint64(per)
	for i := uint64(0); i < total; i++ {
		l, u, good := c10CompactU32(data[pos:])
		if !good {
			return nil, false, false, 0
		}
		pos += u
		if uint64(len(data)-pos) < uint64(l) {
			return nil, false, i == total-1 && len(data)-pos >= 1, pos
		}
		strs = append(strs, data[pos:pos+int(l)])
		pos += int(l)
	}
	return strs, true, false, 0
}

// ---------------------------------------------------------------- generators

func genCount(t *rapid.T) int {
	switch rapid.IntRange(0, 9).Draw(t, "nclass") {
	case 0:
		return rapid.IntRange(0, 1).Draw(t, "n")
	case 1, 2, 3, 4:
		return rapid.IntRange(2, 12).Draw(t, "n")
	case 5, 6:
		return rapid.IntRange(13, 63).Draw(t, "n")
	case 7:
		return rapid.IntRange(64, 70).Draw(t, "n")
	default:
		return rapid.IntRange(71, 300).Draw(t, "n")
	}
}

func genVersion(t *rapid.T) uint32 {
	switch rapid.IntRange(0, 9).Draw(t, "vclass") {
	case 0, 1, 2:
		return 0
	case 3, 4, 5, 6:
		return 1
	case 7:
		return rapid.SampledFrom([]uint32{2, 3, 4, 127, 128, 254, 255}).Draw(t, "version")
	default:
		return uint32(rapid.IntRange(2, 255).Draw(t, "version"))
	}
}

func nBucket(n int) string {
	switch {
	case n == 0:
		return "n=0"
	case n == 1:
		return "n=1"
	case n < 64:
		return "n=2..63"
	case n <= 65:
		return "n=64..65"
	default:
		return "n=66..300"
	}
}

// damage turns a valid encoding into one that the spec decoder rejects.
func damage(t *rapid.T, enc []byte, strs [][]byte, per int) (string, []byte) {
	kinds := []string{"cut", "cut", "cut-in-last-body", "inflate-count"}
	if len(strs) > 0 {
		kinds = append(kinds, "inflate-last-length")
	}
	switch k := rapid.SampledFrom(kinds).Draw(t, "damage"); k {
	case "cut":
		return k, enc[:rapid.IntRange(0, len(enc)-1).Draw(t, "cut")]
	case "cut-in-last-body":
		// the cut falls inside (or at the start of) the last byte string
		if len(strs) == 0 {
			return "cut", enc[:0]
		}
		last := len(strs[len(strs)-1])
		if last == 0 {
			return "cut", enc[:len(enc)-1]
		}
		return k, enc[:len(enc)-last+rapid.IntRange(0, last-1).Draw(t, "keep")]
	case "inflate-count":
		n := len(strs) / per
		add := rapid.SampledFrom([]int{1, 1, 2, 63, 64, 1000, 20000}).Draw(t, "add")
		_, used, _ := c10CompactU32(enc)
		return k, append(kit.SpecCompact(uint64(n+add)), enc[used:]...)
	default: // inflate-last-length: the last byte string declares more bytes than the input holds
		lastStr := strs[len(strs)-1]
		add := rapid.SampledFrom([]int{1, 1, 2, 5, 64, 1000, 70000}).Draw(t, "add")
		head := enc[:len(enc)-len(lastStr)-len(kit.SpecCompact(uint64(len(lastStr))))]
		out := append([]byte{}, head...)
		out = append(out, kit.SpecCompact(uint64(len(lastStr)+add))...)
		return k, append(out, lastStr...)
	}
}

// ---------------------------------------------------------------- property

type rootFn struct {
	name string
	per  int
	v1   func(g *guest, span uint64) uint32
	v2   func(g *guest, span uint64, version uint32) uint32
}

var c10Fns = []rootFn{
	{"root", 2,
		func(g *guest, s uint64) uint32 { return ext_trie_blake2_256_root_version_1(g.ctx, g.mod, s) },
		func(g *guest, s uint64, v uint32) uint32 {
			return ext_trie_blake2_256_root_version_2(g.ctx, g.mod, s, v)
		}},
	{"ordered_root", 1,
		func(g *guest, s uint64) uint32 { return ext_trie_blake2_256_ordered_root_version_1(g.ctx, g.mod, s) },
		func(g *guest, s uint64, v uint32) uint32 {
			return ext_trie_blake2_256_ordered_root_version_2(g.ctx, g.mod, s, v)
		}},
}

// specModel is the map whose root the function has to return.
func specModel(strs [][]byte, per int) kit.OrdMap {
	m := kit.OrdMap{}
	if per == 2 {
		for i := 0; i+1 < len(strs); i += 2 {
			m[string(strs[i])] = strs[i+1] // later entries win
		}
		return m
	}
	for i, v := range strs {
		m[string(kit.SpecCompact(uint64(i)))] = v
	}
	return m
}

// callAndCheck performs one host call and judges it. wantOK=false: must return 0.
func callAndCheck(t *rapid.T, g *guest, what string, call func(span uint64) uint32, data []byte, wantOK bool, want [32]byte) {
	span, err := g.put(data)
	if err != nil {
		t.Fatalf("harness: writing input to guest memory: %v", err)
	}
	ptr := call(span)
	if after := read(g.mod, span); !bytes.Equal(after, data) {
		t.Fatalf("%s: the input buffer in guest memory was modified by the call", what)
	}
	if !wantOK {
		if ptr != 0 {
			got, _ := g.mod.Memory().Read(ptr, 32)
			t.Fatalf("%s: must fail (return 0) but returned pointer %d -> %x; input %x", what, ptr, got, data)
		}
	} else {
		if ptr == 0 {
			t.Fatalf("%s: returned 0 (failure) for a valid input; wanted root %x; input %x", what, want, data)
		}
		got, ok := g.mod.Memory().Read(ptr, 32)
		if !ok {
			t.Fatalf("%s: returned pointer %d is outside guest memory", what, ptr)
		}
		if !bytes.Equal(got, want[:]) {
			t.Fatalf("%s: root in guest memory %x, spec root %x; input %x", what, got, want, data)
		}
		inPtr, inLen := splitPointerSize(span)
		if uint64(ptr) < uint64(inPtr)+inLen && uint64(inPtr) < uint64(ptr)+32 {
			t.Fatalf("%s: result [%d,+32) overlaps the input buffer [%d,+%d)", what, ptr, inPtr, inLen)
		}
		// the result is an allocation of the context's allocator: the guest frees it
		if err := g.rtCtx.Allocator.Deallocate(g.mod.Memory(), ptr); err != nil {
			t.Fatalf("%s: result pointer %d cannot be freed through the allocator: %v", what, ptr, err)
		}
	}
	if err := g.free(span); err != nil {
		t.Fatalf("harness: freeing the input: %v", err)
	}
}

func c10Case(t *rapid.T) {
	fn := rapid.SampledFrom(c10Fns).Draw(t, "fn")
	n := genCount(t)
	strs := make([][]byte, 0, n*fn.per)
	for i := 0; i < n; i++ {
		if fn.per == 2 {
			strs = append(strs, kit.GenKey().Draw(t, "k"))
		}
		strs = append(strs, kit.GenValue().Draw(t, "v"))
	}
	version := genVersion(t)
	data := encList(strs, fn.per)
	variant := "valid"
	if rapid.IntRange(0, 3).Draw(t, "damaged") == 0 {
		variant, data = damage(t, data, strs, fn.per)
	}

	labels := []string{"fn:" + fn.name, "input:" + variant, nBucket(n)}
	dec, ok, partialLast, bodyStart := refDecodeList(data, fn.per)
	if variant == "valid" && (!ok || len(dec) != len(strs)) {
		t.Fatalf("harness: reference decoder rejects the reference encoding %x", data)
	}
	if variant != "valid" && ok {
		t.Fatalf("harness: damaged input %x is decodable", data)
	}
	if partialLast && kit.KnownOpen(c10ZeroFill) {
		// known finding: steer around exactly this class - end the input where the
		// body of the last byte string starts instead (still truncated, no partial body)
		kit.Excluded(c10ZeroFill)
		data = data[:bodyStart]
		variant += "-steered"
		labels = append(labels, "steered-away-from-partial-last-body")
		if _, ok2, p2, _ := refDecodeList(data, fn.per); ok2 || p2 {
			t.Fatalf("harness: steering produced %x (ok=%v partial=%v)", data, ok2, p2)
		}
		partialLast = false
	}
	if partialLast {
		labels = append(labels, "partial-last-body")
	}

	model := kit.OrdMap{}
	var want0, want1 [32]byte
	if ok {
		model = specModel(dec, fn.per)
		want0, want1 = kit.SpecRoot(model, false), kit.SpecRoot(model, true)
	}
	want := want0
	if version == 1 {
		want = want1
	}

	g, err := newGuest(nil)
	if err != nil {
		t.Fatalf("harness: %v", err)
	}
	callAndCheck(t, g, fmt.Sprintf("ext_trie_blake2_256_%s_version_2(version=%d, %s, n=%d)", fn.name, version, variant, n),
		func(s uint64) uint32 { return fn.v2(g, s, version) }, data, ok && version <= 1, want)
	callAndCheck(t, g, fmt.Sprintf("ext_trie_blake2_256_%s_version_1(%s, n=%d)", fn.name, variant, n),
		func(s uint64) uint32 { return fn.v1(g, s) }, data, ok, want0)

	switch {
	case version == 0:
		labels = append(labels, "version:0")
	case version == 1:
		labels = append(labels, "version:1")
	default:
		labels = append(labels, "version:unknown")
	}
	if ok && version <= 1 {
		labels = append(labels, "result:root")
	} else {
		labels = append(labels, "result:failure")
	}
	if ok {
		big, empty := false, false
		for _, v := range model {
			big = big || len(v) > 32
			empty = empty || len(v) == 0
		}
		if big {
			labels = append(labels, "value>32-bytes")
			if want0 != want1 {
				labels = append(labels, "v0-root!=v1-root")
			}
		}
		if empty {
			labels = append(labels, "empty-value")
		}
		if fn.per == 2 && len(model) < n {
			labels = append(labels, "duplicate-keys")
		}
		if fn.per == 1 && n >= 65 {
			labels = append(labels, "index-crosses-64")
		}
	}
	nontrivial := !(ok && version <= 1) ||
		(fn.per == 2 && len(model) >= 2 && model.SharesNibblePrefix()) ||
		(fn.per == 1 && n >= 65)
	h := kit.Blake256(data)
	head := data
	if len(head) > 48 {
		head = head[:48]
	}
	kit.Case(fmt.Sprintf("%s v=%d %s n=%d len=%d blake2=%x data=%x", fn.name, version, variant, n, len(data), h[:8], head), nontrivial, labels...)
}

func TestC10Roots(t *testing.T) {
	defer kit.Flush()
	kit.Note("rule", c10Rule)
	rapid.Check(t, c10Case)
}

// ---------------------------------------------------------------- fixed cases

func mustHex(s string) []byte {
	b, err := hex.DecodeString(s)
	if err != nil {
		panic(err)
	}
	return b
}

// TestC10OracleSelfCheck pins the encoder, the reference decoder and the
// spec-root oracle to constants that do not come from this check: the empty
// trie root, and the ordered root of Substrate's own test
// (sp-io `trie::blake2_256_ordered_root` of [b"doe", b"reindeer"] is not
// reproduced here offline; instead the single-leaf root is recomputed by hand).
func TestC10OracleSelfCheck(t *testing.T) {
	defer kit.Flush()
	// encoding examples from the SCALE specification
	if got := encList([][]byte{{1}, {2, 3}}, 1); !bytes.Equal(got, mustHex("080401080203")) {
		t.Fatalf("encList = %x", got)
	}
	if got := encList([][]byte{{0xaa}, {}}, 2); !bytes.Equal(got, mustHex("0404aa00")) {
		t.Fatalf("encList pairs = %x", got)
	}
	strs, ok, _, _ := refDecodeList(mustHex("080401080203"), 1)
	if !ok || len(strs) != 2 || !bytes.Equal(strs[1], []byte{2, 3}) {
		t.Fatalf("refDecodeList: %v %x", ok, strs)
	}
	for hx, wantPartial := range map[string]bool{"": false, "08": false, "0804": false, "080401": false, "08040108": false, "0804010802": true, "0c0401080203": false} {
		_, ok, partial, _ := refDecodeList(mustHex(hx), 1)
		if ok || partial != wantPartial {
			t.Fatalf("refDecodeList(%s): ok=%v partial=%v", hx, ok, partial)
		}
	}
	// empty list -> empty trie root, both functions, both versions
	empty := kit.Blake256([]byte{0})
	if kit.SpecRoot(kit.OrdMap{}, false) != empty || kit.SpecRoot(kit.OrdMap{}, true) != empty {
		t.Fatalf("spec root of the empty map is not blake2b-256(0x00)")
	}
	// one ordered value "a": single leaf, key = compact(0) = 0x00 (nibbles 0,0):
	// header 0x42, partial key 0x00, value compact(1) 'a'
	leaf := []byte{0x42, 0x00, 0x04, 'a'}
	if got := kit.SpecRoot(specModel([][]byte{{'a'}}, 1), false); got != kit.Blake256(leaf) {
		t.Fatalf("single-leaf ordered root: %x", got)
	}
	// index 64 is keyed by the two-byte compact 0x0101
	m := specModel(make([][]byte, 65), 1)
	if _, ok := m["\x01\x01"]; !ok || len(m) != 65 {
		t.Fatalf("ordered model does not key index 64 by 0x0101")
	}
	kit.Case("oracle-self-check", true, "self-check")
}

// TestC10Fixed: a few deterministic inputs through the _version_2 functions
// with every version byte 0..255 (exhaustive over the version).
func TestC10Fixed(t *testing.T) {
	defer kit.Flush()
	long := bytes.Repeat([]byte{0x5a}, 40)
	cases := []struct {
		name string
		per  int
		strs [][]byte
	}{
		{"empty-list", 2, nil},
		{"empty-ordered", 1, nil},
		{"duplicates-last-wins", 2, [][]byte{{0x10}, {1}, {0x11}, {2}, {0x10}, long}},
		{"ordered-65-values", 1, append(make([][]byte, 64), long)},
	}
	for _, c := range cases {
		fn := c10Fns[0]
		if c.per == 1 {
			fn = c10Fns[1]
		}
		data := encList(c.strs, c.per)
		model := specModel(c.strs, c.per)
		for version := uint32(0); version < 256; version++ { // every version byte
			g, err := newGuest(nil)
			if err != nil {
				t.Fatal(err)
			}
			span, _ := g.put(data)
			ptr := fn.v2(g, span, version)
			if version > 1 {
				if ptr != 0 {
					t.Errorf("%s: version %d accepted", c.name, version)
				}
				continue
			}
			want := kit.SpecRoot(model, version == 1)
			got, _ := g.mod.Memory().Read(ptr, 32)
			if ptr == 0 || !bytes.Equal(got, want[:]) {
				t.Errorf("%s version %d: ptr %d root %x, spec %x", c.name, version, ptr, got, want)
			}
		}
		kit.Case(c.name, true, "fixed")
	}
}

// TestC10OrderedLarge: 16 390 ordered values, so the index keys cross the
// 2-/4-byte compact boundary at 16 384 as well (both state versions), and the
// input needs the allocator to grow guest memory.
func TestC10OrderedLarge(t *testing.T) {
	defer kit.Flush()
	const n = 16390
	strs := make([][]byte, n)
	for i := range strs {
		strs[i] = []byte{byte(i), byte(i >> 8)}
		if i%1000 == 0 {
			strs[i] = bytes.Repeat([]byte{byte(i / 1000)}, 33+i/1000)
		}
	}
	data := encList(strs, 1)
	model := specModel(strs, 1)
	if _, ok := model["\x02\x00\x01\x00"]; !ok {
		t.Fatalf("harness: index 16384 is not keyed by 0x02000100")
	}
	for version := uint32(0); version < 2; version++ {
		g, err := newGuest(nil)
		if err != nil {
			t.Fatal(err)
		}
		span, err := g.put(data)
		if err != nil {
			t.Fatal(err)
		}
		ptr := ext_trie_blake2_256_ordered_root_version_2(g.ctx, g.mod, span, version)
		want := kit.SpecRoot(model, version == 1)
		got, _ := g.mod.Memory().Read(ptr, 32)
		if ptr == 0 || !bytes.Equal(got, want[:]) {
			t.Errorf("ordered root of %d values, version %d: ptr %d root %x, spec %x", n, version, ptr, got, want)
		}
		kit.Case(fmt.Sprintf("ordered-large n=%d v=%d", n, version), true, "ordered-16390", "index-crosses-16384")
	}
}

// TestC10KnownZeroFill is the witness of the known finding: an input that ends
// inside the body of its last byte string is accepted (the missing bytes are
// read as zeros) instead of being rejected.
func TestC10KnownZeroFill(t *testing.T) {
	defer kit.Flush()
	// Vec<(Vec<u8>,Vec<u8>)> with one entry: key 0x01, value declared 4 bytes, only 0xaa present
	data := mustHex("04040110aa")
	if _, ok, partial, _ := refDecodeList(data, 2); ok || !partial {
		t.Fatalf("witness input is not in the trigger class")
	}
	g, err := newGuest(nil)
	if err != nil {
		t.Fatal(err)
	}
	span, err := g.put(data)
	if err != nil {
		t.Fatal(err)
	}
	ptr := ext_trie_blake2_256_root_version_2(g.ctx, g.mod, span, 0)
	if ptr == 0 {
		kit.WitnessResult(c10ZeroFill, false, "")
		return
	}
	got, _ := g.mod.Memory().Read(ptr, 32)
	zeroFilled := kit.SpecRoot(kit.OrdMap{"\x01": {0xaa, 0, 0, 0}}, false)
	if !bytes.Equal(got, zeroFilled[:]) {
		t.Fatalf("truncated input %x accepted with an unexpected root %x (recorded signature: root of {01: aa000000} = %x)", data, got, zeroFilled)
	}
	kit.WitnessResult(c10ZeroFill, true, fmt.Sprintf("input %x (value declares 4 bytes, 1 present) returned the root of {01: aa000000} instead of 0", data))
}
