package c13

import (
	"bytes"
	"encoding/binary"
	"encoding/json"
	"fmt"
	"math/big"
	"testing"

	"github.com/ChainSafe/gossamer/dot/types"
	kit "github.com/ChainSafe/gossamer/internal/verifkit"
	"github.com/ChainSafe/gossamer/pkg/scale"
	"pgregory.net/rapid"
)

const rule = "(upper, lower) uniform or concentrated on byte boundaries (2^(8k), 2^(8k)+-1, a single non-zero byte at each of the 16 positions, all-ones prefixes/suffixes); " +
	"oracle n = upper*2^64+lower in math/big: String/MarshalJSON = decimal(n), json round trip, Bytes(LE)/Bytes(BE) = minimal little/big-endian bytes of n, " +
	"NewUint128(big.Int / LE bytes / BE bytes, trimmed and padded) = the value, Compare = big.Cmp, SCALE = 16 LE bytes, and dot/types.AccountData renders the same decimal/bytes; " +
	"non-trivial = the 16-byte LE string is not a palindrome and has >= 2 non-zero bytes; distinct by value"

func toBig(upper, lower uint64) *big.Int {
	n := new(big.Int).SetUint64(upper)
	n.Lsh(n, 64)
	return n.Add(n, new(big.Int).SetUint64(lower))
}

// le16 is the 16-byte little-endian image of n, computed with math/big only.
func le16(n *big.Int) []byte {
	out := make([]byte, 16)
	be := n.Bytes()
	for i := range be {
		out[i] = be[len(be)-1-i]
	}
	return out
}

func genWord(t *rapid.T, label string) uint64 {
	switch rapid.IntRange(0, 7).Draw(t, label+"-class") {
	case 0:
		return 0
	case 1:
		k := rapid.IntRange(0, 7).Draw(t, label+"-k")
		d := rapid.SampledFrom([]int64{-1, 0, 1}).Draw(t, label+"-d")
		return uint64(int64(uint64(1)<<(8*uint(k))) + d)
	case 2: // a single non-zero byte
		k := rapid.IntRange(0, 7).Draw(t, label+"-pos")
		b := rapid.SampledFrom([]uint64{1, 2, 0x7f, 0x80, 0xff}).Draw(t, label+"-byte")
		return b << (8 * uint(k))
	case 3: // all-ones prefix / suffix
		k := rapid.IntRange(0, 8).Draw(t, label+"-ones")
		if k == 8 {
			return ^uint64(0)
		}
		if rapid.Bool().Draw(t, label+"-hi") {
			return ^uint64(0) << (8 * uint(k))
		}
		return 1<<(8*uint(k)) - 1
	case 4: // two distinct non-zero bytes
		a := rapid.IntRange(0, 7).Draw(t, label+"-a")
		b := rapid.IntRange(0, 7).Draw(t, label+"-b")
		return uint64(1)<<(8*uint(a)) | uint64(2)<<(8*uint(b))
	}
	return rapid.Uint64().Draw(t, label)
}

func nontrivial(le []byte) bool {
	nz := 0
	pal := true
	for i := range le {
		if le[i] != 0 {
			nz++
		}
		if le[i] != le[len(le)-1-i] {
			pal = false
		}
	}
	return nz >= 2 && !pal
}

func eq(u *scale.Uint128, upper, lower uint64) bool {
	return u != nil && u.Upper == upper && u.Lower == lower
}

func show(u *scale.Uint128) string {
	if u == nil {
		return "nil"
	}
	return fmt.Sprintf("{Upper:%#x Lower:%#x}", u.Upper, u.Lower)
}

type failer interface {
	Fatalf(format string, args ...any)
}

// checkViews is the C13 oracle for one value.
func checkViews(t failer, upper, lower uint64) {
	n := toBig(upper, lower)
	dec := n.String()
	u := &scale.Uint128{Upper: upper, Lower: lower}
	ctx := fmt.Sprintf("Uint128{Upper:%#x, Lower:%#x} = %s", upper, lower, dec)

	if got := u.String(); got != dec {
		t.Fatalf("String() = %s, want %s (%s)", got, dec, ctx)
	}
	for _, v := range []any{u, *u} {
		j, err := json.Marshal(v)
		if err != nil || string(j) != dec {
			t.Fatalf("json.Marshal(%T) = %s, %v, want %s (%s)", v, j, err, dec, ctx)
		}
		var back scale.Uint128
		if err := json.Unmarshal(j, &back); err != nil || !eq(&back, upper, lower) {
			t.Fatalf("json.Unmarshal(%s) = %s, %v (%s)", j, show(&back), err, ctx)
		}
	}
	var fromDec scale.Uint128
	if err := fromDec.UnmarshalJSON([]byte(dec)); err != nil || !eq(&fromDec, upper, lower) {
		t.Fatalf("UnmarshalJSON(%s) = %s, %v", dec, show(&fromDec), err)
	}
	// JSON-decoding gives back the original value also when the destination already
	// holds another value (encoding/json reuses a non-nil pointee, e.g. a *Uint128
	// struct field decoded twice): every word of the previous value must be replaced
	for _, prev := range []scale.Uint128{
		{Upper: 1, Lower: 0}, {Upper: ^uint64(0), Lower: ^uint64(0)}, {Upper: 1 << 56, Lower: 7}, {Upper: 0, Lower: ^uint64(0)},
	} {
		used := prev
		if err := json.Unmarshal([]byte(dec), &used); err != nil || !eq(&used, upper, lower) {
			t.Fatalf("json.Unmarshal(%s) into a Uint128 that held %s = %s, %v (%s)", dec, show(&prev), show(&used), err, ctx)
		}
		holder := struct{ Amount *scale.Uint128 }{Amount: &scale.Uint128{Upper: prev.Upper, Lower: prev.Lower}}
		if err := json.Unmarshal([]byte(`{"Amount":`+dec+`}`), &holder); err != nil || !eq(holder.Amount, upper, lower) {
			t.Fatalf("json.Unmarshal into a struct whose *Uint128 field held %s = %s, %v (%s)", show(&prev), show(holder.Amount), err, ctx)
		}
	}

	// byte forms: minimal (trimmed) encodings of n
	full := le16(n)
	be := n.Bytes()
	le := bytes.TrimRight(full, "\x00")
	if got := u.Bytes(); !bytes.Equal(got, le) {
		t.Fatalf("Bytes() = %x, want LE %x (%s)", got, le, ctx)
	}
	if got := u.Bytes(binary.LittleEndian); !bytes.Equal(got, le) {
		t.Fatalf("Bytes(LE) = %x, want %x (%s)", got, le, ctx)
	}
	if got := u.Bytes(binary.BigEndian); !bytes.Equal(got, be) {
		t.Fatalf("Bytes(BE) = %x, want %x (%s)", got, be, ctx)
	}

	// constructors invert the views
	if got, err := scale.NewUint128(n); err != nil || !eq(got, upper, lower) {
		t.Fatalf("NewUint128(big %s) = %s, %v (%s)", dec, show(got), err, ctx)
	}
	for _, in := range [][]byte{le, full} {
		arg := append([]byte{}, in...)
		if got, err := scale.NewUint128(arg); err != nil || !eq(got, upper, lower) {
			t.Fatalf("NewUint128(LE %x) = %s, %v (%s)", in, show(got), err, ctx)
		}
		if !bytes.Equal(arg, in) {
			t.Fatalf("NewUint128(LE %x) changed the bytes it was given to %x: they no longer denote the number (%s)", in, arg, ctx)
		}
		arg = append([]byte{}, in...)
		if got, err := scale.NewUint128(arg, binary.LittleEndian); err != nil || !eq(got, upper, lower) {
			t.Fatalf("NewUint128(LE %x, LittleEndian) = %s, %v (%s)", in, show(got), err, ctx)
		}
		if !bytes.Equal(arg, in) {
			t.Fatalf("NewUint128(LE %x, LittleEndian) changed the bytes it was given to %x (%s)", in, arg, ctx)
		}
	}
	// the byte form may be a window into a longer buffer (a field of a decoded
	// message): what follows the window is not part of the number
	for _, fill := range []byte{0xa5, 0xff, 0x01} {
		buf := append(append(make([]byte, 0, len(le)+24), le...), bytes.Repeat([]byte{fill}, 24)...)
		if got, err := scale.NewUint128(buf[:len(le)]); err != nil || !eq(got, upper, lower) {
			t.Fatalf("NewUint128(LE %x as a window of a longer buffer filled with %#x) = %s, %v (%s)", le, fill, show(got), err, ctx)
		}
		buf = append(append(make([]byte, 0, len(le)+24), le...), bytes.Repeat([]byte{fill}, 24)...)
		if got, err := scale.NewUint128(buf[:len(le)], binary.LittleEndian); err != nil || !eq(got, upper, lower) {
			t.Fatalf("NewUint128(LE %x as a window of a longer buffer filled with %#x, LittleEndian) = %s, %v (%s)", le, fill, show(got), err, ctx)
		}
		buf = append(append(make([]byte, 0, len(be)+24), be...), bytes.Repeat([]byte{fill}, 24)...)
		if got, err := scale.NewUint128(buf[:len(be)], binary.BigEndian); err != nil || !eq(got, upper, lower) {
			t.Fatalf("NewUint128(BE %x as a window of a longer buffer filled with %#x, BigEndian) = %s, %v (%s)", be, fill, show(got), err, ctx)
		}
	}
	be16 := make([]byte, 16)
	copy(be16[16-len(be):], be)
	for _, in := range [][]byte{be, be16} {
		arg := append([]byte{}, in...)
		if got, err := scale.NewUint128(arg, binary.BigEndian); err != nil || !eq(got, upper, lower) {
			t.Fatalf("NewUint128(BE %x, BigEndian) = %s, %v, want Upper %#x Lower %#x (%s)", in, show(got), err, upper, lower, ctx)
		}
		// the byte form handed in is still a view of the same number afterwards
		if !bytes.Equal(arg, in) {
			t.Fatalf("NewUint128(BE %x, BigEndian) changed the bytes it was given to %x: they no longer denote the number (%s)", in, arg, ctx)
		}
	}

	// constructed values are independent: decoding another value into one result
	// of a constructor (a used receiver, as above) must not change what the same
	// constructor input, or any other view, gives afterwards
	for _, mk := range []func() (*scale.Uint128, error){
		func() (*scale.Uint128, error) { return scale.NewUint128(toBig(upper, lower)) },
		func() (*scale.Uint128, error) { return scale.NewUint128(append([]byte{}, le...)) },
		func() (*scale.Uint128, error) { return scale.NewUint128(append([]byte{}, be...), binary.BigEndian) },
	} {
		first, err := mk()
		if err != nil {
			t.Fatalf("constructor: %v (%s)", err, ctx)
		}
		other := "170141183460469231731687303715884105729" // 2^127+1
		if err := json.Unmarshal([]byte(other), first); err != nil || first.String() != other {
			t.Fatalf("json.Unmarshal(%s) into a constructed Uint128 = %s, %v (%s)", other, show(first), err, ctx)
		}
		second, err := mk()
		if err != nil || !eq(second, upper, lower) || second.String() != dec {
			t.Fatalf("constructor after a previous result was overwritten with %s = %s, %v; results share storage (%s)", other, show(second), err, ctx)
		}
		var viaJSON scale.Uint128
		if err := json.Unmarshal([]byte(dec), &viaJSON); err != nil || !eq(&viaJSON, upper, lower) {
			t.Fatalf("json.Unmarshal(%s) after a constructed value was overwritten = %s, %v (%s)", dec, show(&viaJSON), err, ctx)
		}
	}

	// SCALE form: u128 = 16 bytes little endian
	enc, err := scale.Marshal(u)
	if err != nil || !bytes.Equal(enc, full) {
		t.Fatalf("scale.Marshal = %x, %v, want %x (%s)", enc, err, full, ctx)
	}
	var dst *scale.Uint128
	if err := scale.Unmarshal(full, &dst); err != nil || !eq(dst, upper, lower) {
		t.Fatalf("scale.Unmarshal(%x) = %s, %v (%s)", full, show(dst), err, ctx)
	}

	// anchored user: dot/types.AccountData / AccountInfo
	zero := &scale.Uint128{}
	ad := types.AccountData{Free: u, Reserved: zero, MiscFrozen: u, FreeFrozen: zero}
	j, err := json.Marshal(ad)
	want := fmt.Sprintf(`{"Free":%s,"Reserved":0,"MiscFrozen":%s,"FreeFrozen":0}`, dec, dec)
	if err != nil || string(j) != want {
		t.Fatalf("json.Marshal(AccountData) = %s, %v, want %s", j, err, want)
	}
	var adBack types.AccountData
	if err := json.Unmarshal(j, &adBack); err != nil || !eq(adBack.Free, upper, lower) || !eq(adBack.MiscFrozen, upper, lower) || !eq(adBack.Reserved, 0, 0) {
		t.Fatalf("json.Unmarshal(%s) into AccountData: Free %s MiscFrozen %s, %v", j, show(adBack.Free), show(adBack.MiscFrozen), err)
	}
	ai := types.AccountInfo{Nonce: 1, Consumers: 2, Producers: 3, Sufficients: 4, Data: ad}
	encAI, err := scale.Marshal(ai)
	wantAI := append([]byte{1, 0, 0, 0, 2, 0, 0, 0, 3, 0, 0, 0, 4, 0, 0, 0}, full...)
	wantAI = append(append(append(wantAI, make([]byte, 16)...), full...), make([]byte, 16)...)
	if err != nil || !bytes.Equal(encAI, wantAI) {
		t.Fatalf("scale.Marshal(AccountInfo) = %x, %v, want %x", encAI, err, wantAI)
	}
	var aiBack types.AccountInfo
	if err := scale.Unmarshal(encAI, &aiBack); err != nil || !eq(aiBack.Data.Free, upper, lower) || aiBack.Data.Free.String() != dec {
		t.Fatalf("scale.Unmarshal(AccountInfo): %v, Free = %s", err, show(aiBack.Data.Free))
	}
}

func labels(upper, lower uint64) []string {
	var ls []string
	n := toBig(upper, lower)
	ls = append(ls, fmt.Sprintf("bytelen-%02d", len(n.Bytes())))
	if upper != 0 && lower == 0 {
		ls = append(ls, "lower-zero")
	}
	le := le16(n)
	if !nontrivial(le) {
		ls = append(ls, "palindrome-or-single-byte")
	}
	for i := 1; i < 16; i++ {
		if le[i-1] == 0 && le[i] != 0 {
			ls = append(ls, "interior-zero-byte")
			break
		}
	}
	return ls
}

// TestC13Views: every view of one value denotes the same number.
func TestC13Views(t *testing.T) {
	defer kit.Flush()
	kit.Note("rule", rule)
	rapid.Check(t, func(t *rapid.T) {
		upper := genWord(t, "upper")
		lower := genWord(t, "lower")
		checkViews(t, upper, lower)
		kit.Case(fmt.Sprintf("%016x%016x", upper, lower), nontrivial(le16(toBig(upper, lower))), labels(upper, lower)...)
	})
}

// TestC13Compare: Compare agrees with big.Int.Cmp, on pairs that are equal, differ
// in one word only, or differ in both words in opposite directions.
func TestC13Compare(t *testing.T) {
	defer kit.Flush()
	rapid.Check(t, func(t *rapid.T) {
		au, al := genWord(t, "aupper"), genWord(t, "alower")
		bu, bl := au, al
		switch rapid.IntRange(0, 4).Draw(t, "relation") {
		case 0: // equal
		case 1:
			bl = genWord(t, "blower")
		case 2:
			bu = genWord(t, "bupper")
		default:
			bu, bl = genWord(t, "bupper"), genWord(t, "blower")
		}
		a, b := &scale.Uint128{Upper: au, Lower: al}, &scale.Uint128{Upper: bu, Lower: bl}
		want := toBig(au, al).Cmp(toBig(bu, bl))
		if got := a.Compare(b); got != want {
			t.Fatalf("Compare(%x:%x, %x:%x) = %d, big.Cmp = %d", au, al, bu, bl, got, want)
		}
		if got := b.Compare(a); got != -want {
			t.Fatalf("Compare(%x:%x, %x:%x) = %d, big.Cmp = %d", bu, bl, au, al, got, -want)
		}
		opposite := (au > bu && al < bl) || (au < bu && al > bl)
		l := "cmp-same-direction"
		if opposite {
			l = "cmp-words-disagree"
		}
		if want == 0 {
			l = "cmp-equal"
		}
		kit.Case(fmt.Sprintf("cmp %016x%016x %016x%016x", au, al, bu, bl), au != bu || al != bl, l)
	})
}

// TestC13Regressions: shrunk failures found on the pinned tree.
func TestC13Regressions(t *testing.T) {
	defer kit.Flush()
	checkViews(t, 0, 256)                // String() printed "1"
	checkViews(t, 0, 0x0102)             // String() printed 513
	checkViews(t, 1, 0)                  // 2^64
	checkViews(t, 1, 2)                  // NewUint128(BE bytes) swapped the words
	checkViews(t, 0x0100000000000000, 0) // top byte only
	checkViews(t, 0, 0)
	checkViews(t, ^uint64(0), ^uint64(0))
}
