package peerset

// C30 - the peer set never exceeds its slots and never connects banned peers.
//
// In-package check of dot/peerset. The unexported PeerSet methods the action
// loop of listenActionAllocSlots dispatches to are called synchronously (no
// goroutine of the peer set runs), the result channel is drained after every
// call, and elapsed seconds are injected by moving PeerSet.latestTimeUpdate
// back. After every operation the invariants of the property statement are
// checked against the PeersState and the emitted messages.

import (
	"fmt"
	"io"
	"math"
	"strings"
	"testing"
	"time"

	"github.com/ChainSafe/gossamer/internal/log"
	kit "github.com/ChainSafe/gossamer/internal/verifkit"
	"github.com/libp2p/go-libp2p/core/peer"
	"pgregory.net/rapid"
)

// The generation / non-triviality rule is stated in check.json ("rule").

const c30N = 6

// the watchdog for "every call returns": the operations take microseconds.
const c30Watchdog = 15 * time.Second

var c30Peers = [c30N]peer.ID{"c30-p0", "c30-p1", "c30-p2", "c30-p3", "c30-p4", "c30-p5"}

func c30Index(p peer.ID) int {
	for i, q := range c30Peers {
		if p == q {
			return i
		}
	}
	return -1
}

func init() {
	// allocSlots logs at warn/critical level in perfectly legal states
	logger.Patch(log.SetWriter(io.Discard), log.SetLevel(log.Critical))
}

const c30Ban = int64(BannedThresholdValue) // negative

// ---------------------------------------------------------------- reference arithmetic (int64, from the documentation)

func c30Clamp(v int64) int64 {
	if v > math.MaxInt32 {
		return math.MaxInt32
	}
	if v < math.MinInt32 {
		return math.MinInt32
	}
	return v
}

// one second of decay: "we use k = 0.98, so we divide by 50", moving by at
// least 1 towards zero so that zero is reached.
func c30Tick(r int64) int64 {
	d := r / 50 // truncated division, like the int32 one
	if d == 0 && r < 0 {
		d = -1
	} else if d == 0 && r > 0 {
		d = 1
	}
	return c30Clamp(r - d)
}

func c30TickN(r int64, k int) int64 {
	for i := 0; i < k && r != 0; i++ {
		r = c30Tick(r)
	}
	return r
}

// ---------------------------------------------------------------- operations

type c30Op struct {
	kind   string
	peers  []int
	change int32
	k      int
	age    bool
}

func (o c30Op) String() string {
	var b strings.Builder
	b.WriteString(o.kind)
	switch o.kind {
	case "tick", "elapse":
		fmt.Fprintf(&b, "(%ds", o.k)
		if o.age {
			b.WriteString(",aged")
		}
		b.WriteString(")")
		return b.String()
	case "report":
		fmt.Fprintf(&b, "(%d;", o.change)
	default:
		b.WriteString("(")
	}
	for i, p := range o.peers {
		if i > 0 {
			b.WriteString(",")
		}
		fmt.Fprintf(&b, "p%d", p)
	}
	b.WriteString(")")
	return b.String()
}

var c30Kinds = []string{
	"addPeer", "addPeer", "addPeer",
	"removePeer",
	"addReserved", "addReserved",
	"removeReserved", "removeReserved",
	"setReserved",
	"report", "report", "report", "report",
	"incoming", "incoming", "incoming",
	"disconnect", "disconnect",
	"tick", "tick",
	"elapse",
}

var c30Changes = []int32{
	1, -1,
	int32(c30Ban / 2), int32(-c30Ban / 2),
	int32(c30Ban), int32(-c30Ban),
	math.MaxInt32, -math.MaxInt32, math.MinInt32,
}

func c30GenPeers(t *rapid.T, minN, maxN int) []int {
	n := rapid.IntRange(minN, maxN).Draw(t, "npeers")
	avail := []int{0, 1, 2, 3, 4, 5}
	out := make([]int, 0, n)
	for i := 0; i < n; i++ {
		j := rapid.IntRange(0, len(avail)-1).Draw(t, "peer")
		out = append(out, avail[j])
		avail = append(avail[:j], avail[j+1:]...)
	}
	return out
}

func c30GenOp(t *rapid.T) c30Op {
	o := c30Op{kind: rapid.SampledFrom(c30Kinds).Draw(t, "kind")}
	switch o.kind {
	case "tick", "elapse":
		o.k = rapid.SampledFrom([]int{0, 1, 1, 2, 3, 7, 40, 300, 1000}).Draw(t, "k")
		o.age = rapid.IntRange(0, 3).Draw(t, "age") == 0
	case "report":
		o.change = rapid.SampledFrom(c30Changes).Draw(t, "change")
		o.peers = c30GenPeers(t, 1, 3)
	case "setReserved":
		o.peers = c30GenPeers(t, 0, 3)
	default:
		o.peers = c30GenPeers(t, 1, 2)
	}
	return o
}

// ---------------------------------------------------------------- harness

type c30Snap struct {
	known    [c30N]bool
	rep      [c30N]int64
	state    [c30N]MembershipState
	reserved [c30N]bool
	numIn    uint32
	numOut   uint32
}

func (s *c30Snap) connected(i int) bool { return s.state[i] == ingoing || s.state[i] == outgoing }

func (s *c30Snap) String() string {
	var b strings.Builder
	fmt.Fprintf(&b, "numIn=%d numOut=%d", s.numIn, s.numOut)
	names := map[MembershipState]string{notMember: "notMember", ingoing: "in", outgoing: "out", notConnected: "notConnected"}
	for i := 0; i < c30N; i++ {
		if !s.known[i] && !s.reserved[i] {
			continue
		}
		fmt.Fprintf(&b, " p%d{%s rep=%d", i, names[s.state[i]], s.rep[i])
		if s.reserved[i] {
			b.WriteString(" reserved")
		}
		if !s.known[i] {
			b.WriteString(" no-node")
		}
		b.WriteString("}")
	}
	return b.String()
}

type c30H struct {
	ps      *PeerSet
	maxIn   uint32
	maxOut  uint32
	ro      bool
	pending int // injected seconds not yet consumed by updateTime
	hist    []string
	labels  map[string]bool
	nontriv bool
	timer   *time.Timer
}

func c30New(maxIn, maxOut uint32, ro bool) (*c30H, error) {
	cfg := &ConfigSet{Set: []*config{{
		maxInPeers:        maxIn,
		maxOutPeers:       maxOut,
		reservedOnly:      ro,
		periodicAllocTime: time.Hour,
	}}}
	ps, err := newPeerSet(cfg)
	if err != nil {
		return nil, err
	}
	// what start() does, without the goroutine
	ps.resultMsgCh = make(chan Message, 256)
	return &c30H{ps: ps, maxIn: maxIn, maxOut: maxOut, ro: ro, labels: map[string]bool{}}, nil
}

func (h *c30H) snap() c30Snap {
	var s c30Snap
	st := h.ps.peerState
	s.numIn, s.numOut = st.sets[0].numIn, st.sets[0].numOut
	for i, p := range c30Peers {
		if n, ok := st.nodes[p]; ok {
			s.known[i] = true
			s.rep[i] = int64(n.reputation)
			s.state[i] = n.state[0]
		}
		_, s.reserved[i] = h.ps.reservedNode[p]
	}
	return s
}

func (h *c30H) ids(ix []int) []peer.ID {
	out := make([]peer.ID, len(ix))
	for i, x := range ix {
		out[i] = c30Peers[x]
	}
	return out
}

type c30Fataler interface {
	Fatalf(format string, args ...any)
	Skip(args ...any)
}

// call runs f under the watchdog; a call that does not return (or panics) is
// a violation of "every call returns".
func (h *c30H) call(t c30Fataler, f func() error) error {
	type res struct {
		err error
		pan any
	}
	done := make(chan res, 1)
	go func() {
		var r res
		defer func() {
			if p := recover(); p != nil {
				r.pan = p
			}
			done <- r
		}()
		r.err = f()
	}()
	if h.timer == nil {
		h.timer = time.NewTimer(c30Watchdog)
	} else {
		h.timer.Reset(c30Watchdog)
	}
	select {
	case r := <-done:
		if !h.timer.Stop() {
			select {
			case <-h.timer.C:
			default:
			}
		}
		if r.pan != nil {
			t.Fatalf("C30: call panicked: %v\nhistory: %s", r.pan, h.history())
		}
		return r.err
	case <-h.timer.C:
		t.Fatalf("C30: call did not return within %s (hang; the message channel holds %d of %d)\nhistory: %s",
			c30Watchdog, len(h.ps.resultMsgCh), cap(h.ps.resultMsgCh), h.history())
	}
	return nil
}

func (h *c30H) history() string {
	return fmt.Sprintf("maxIn=%d maxOut=%d reservedOnly=%v: %s", h.maxIn, h.maxOut, h.ro, strings.Join(h.hist, " "))
}

func (h *c30H) drain() []Message {
	var out []Message
	for {
		select {
		case m := <-h.ps.resultMsgCh:
			out = append(out, m)
		default:
			return out
		}
	}
}

// step executes one operation and checks every invariant of the statement.
func (h *c30H) step(t c30Fataler, o c30Op) {
	h.hist = append(h.hist, o.String())
	ps := h.ps
	pre := h.snap()

	if o.kind == "tick" || o.kind == "elapse" {
		h.pending += o.k
		if o.age && o.k >= 1 && time.Now().Second() >= 1 {
			// one second of the injected time is also applied to the "last connected"
			// stamps, which makes not-connected peers of reputation 0 eligible for
			// being forgotten (updateTime compares seconds-of-the-minute)
			for _, n := range ps.peerState.nodes {
				n.lastConnected[0] = time.Now().Add(-time.Second)
			}
			h.labels["aged"] = true
		}
		if o.kind == "elapse" {
			return
		}
	}

	// inject the pending seconds: updateTime (if the operation calls it) sees
	// pending + 1ms + (real microseconds) => exactly `pending` ticks
	marker := time.Now().Add(-time.Duration(h.pending)*time.Second - time.Millisecond)
	ps.latestTimeUpdate = marker
	opStart := time.Now()

	peers := h.ids(o.peers)
	var f func() error
	switch o.kind {
	case "addPeer":
		f = func() error { return ps.addPeer(0, peers) }
	case "removePeer":
		f = func() error { return ps.removePeer(0, peers...) }
	case "addReserved":
		f = func() error { return ps.addReservedPeers(0, peers...) }
	case "removeReserved":
		f = func() error { return ps.removeReservedPeers(0, peers...) }
	case "setReserved":
		f = func() error { return ps.setReservedPeer(0, peers...) }
	case "report":
		ch := newReputationChange(Reputation(o.change), "c30")
		f = func() error { return ps.reportPeer(ch, peers...) }
	case "incoming":
		f = func() error { return ps.incoming(0, peers...) }
	case "disconnect":
		f = func() error { return ps.disconnect(0, UnknownDrop, peers...) }
	case "tick":
		// the periodic ticker of listenActionAllocSlots
		f = func() error { return ps.allocSlots(0) }
	default:
		t.Fatalf("unknown op %q", o.kind)
	}
	err := h.call(t, f)
	if time.Since(opStart) > 400*time.Millisecond {
		// the process was stalled for so long that a real second may have
		// elapsed inside the operation: the number of ticks is not known
		kit.Label("discarded-stall")
		t.Skip("stalled")
	}
	if err != nil {
		h.labels["op-error"] = true
	}
	msgs := h.drain()
	post := h.snap()

	ran := !ps.latestTimeUpdate.Equal(marker)
	ticks := 0
	if ran {
		ticks = h.pending
		h.pending = 0
		if ticks > 0 {
			h.labels["ticks-applied"] = true
		}
	}

	fail := func(format string, args ...any) {
		t.Fatalf("C30 violated after %s: %s\nstate before: %s\nstate after:  %s\nmessages: %s\nerror returned: %v\nhistory: %s",
			o, fmt.Sprintf(format, args...), pre.String(), post.String(), c30Msgs(msgs), err, h.history())
	}

	// (1) counters equal the number of connected non-reserved peers, per direction, and stay within the maxima
	var cntIn, cntOut uint32
	for i := 0; i < c30N; i++ {
		if post.reserved[i] {
			if post.connected(i) {
				h.labels["reserved-connected"] = true
			}
			continue
		}
		switch post.state[i] {
		case ingoing:
			cntIn++
		case outgoing:
			cntOut++
		}
	}
	if post.numIn != cntIn || post.numOut != cntOut {
		fail("slot counters numIn=%d numOut=%d, but %d inbound and %d outbound non-reserved peers are connected",
			post.numIn, post.numOut, cntIn, cntOut)
	}
	if post.numIn > h.maxIn || post.numOut > h.maxOut {
		fail("slot counters numIn=%d numOut=%d exceed the maxima in=%d out=%d", post.numIn, post.numOut, h.maxIn, h.maxOut)
	}

	// (2) no connected state of a non-reserved peer below the ban threshold
	for i := 0; i < c30N; i++ {
		if post.connected(i) && !post.reserved[i] && post.rep[i] < c30Ban {
			fail("non-reserved peer p%d is connected with reputation %d < ban threshold %d", i, post.rep[i], c30Ban)
		}
	}

	// (3) no Connect/Accept emitted for a non-reserved peer below the threshold. Reputations only fall
	// after a Connect/Accept of the same operation inside a multi-peer reportPeer, where the Connect has
	// to be revoked by a later Drop.
	for j, m := range msgs {
		i := c30Index(m.PeerID)
		if i < 0 {
			fail("message for an unknown peer %q", m.PeerID)
		}
		switch m.Status {
		case Connect, Accept:
			if post.rep[i] >= c30Ban || post.reserved[i] {
				continue
			}
			revoked := false
			if o.kind == "report" {
				for _, m2 := range msgs[j+1:] {
					if m2.PeerID == m.PeerID && m2.Status == Drop {
						revoked = true
					}
				}
			}
			if !revoked {
				fail("message %d for non-reserved peer p%d whose reputation is %d < ban threshold %d", m.Status, i, post.rep[i], c30Ban)
			}
		case Reject:
			if pre.numIn >= h.maxIn && pre.rep[i] >= c30Ban && !pre.reserved[i] && !h.ro {
				h.labels["reject-no-slot"] = true
				h.nontriv = true
			}
			if post.rep[i] < c30Ban {
				h.labels["reject-banned"] = true
			}
		case Drop:
			if post.rep[i] < c30Ban && o.kind == "report" {
				h.labels["drop-on-ban"] = true
			}
		}
	}

	// (4) reputation arithmetic: decay towards zero for the injected seconds, then the saturating change, for each reported peer
	for i := 0; i < c30N; i++ {
		base := pre.rep[i]
		if ran {
			base = c30TickN(base, ticks)
		}
		want := []int64{base}
		reported := false
		for _, x := range o.peers {
			if x == i {
				reported = true
			}
		}
		switch {
		case o.kind == "report" && reported:
			w := c30Clamp(base + int64(o.change))
			want = []int64{w}
			if base+int64(o.change) > math.MaxInt32 {
				h.labels["saturate-high"] = true
			}
			if base+int64(o.change) < math.MinInt32 {
				h.labels["saturate-low"] = true
			}
			if !pre.known[i] {
				h.labels["report-unknown-peer"] = true
			}
		case o.kind == "disconnect" && reported:
			// a disconnected peer loses 256 (disconnectReputationChange); whether the
			// peer was disconnected is not part of this property
			want = append(want, c30Clamp(base-256))
		}
		ok := false
		for _, w := range want {
			if post.rep[i] == w {
				ok = true
			}
		}
		if !ok {
			fail("reputation of p%d is %d, expected %v (before %d, %d tick(s), change %d)", i, post.rep[i], want, pre.rep[i], ticks, o.change)
		}
		if (pre.rep[i] < c30Ban) != (post.rep[i] < c30Ban) {
			h.nontriv = true
			if post.rep[i] < c30Ban {
				h.labels["ban-cross-down"] = true
				if pre.connected(i) {
					h.labels["banned-while-connected"] = true
				}
			} else {
				h.labels["ban-cross-up"] = true
			}
		}
		if pre.known[i] && !post.known[i] {
			h.labels["node-forgotten"] = true
		}
	}

	// coverage
	if o.kind == "report" && len(o.peers) > 1 {
		h.labels["report-several"] = true
	}
	if h.maxIn > 0 && post.numIn == h.maxIn {
		h.labels["in-slots-full"] = true
		h.nontriv = true
	}
	if h.maxOut > 0 && post.numOut == h.maxOut {
		h.labels["out-slots-full"] = true
		h.nontriv = true
	}
	if o.kind == "removeReserved" || o.kind == "setReserved" {
		for i := 0; i < c30N; i++ {
			if pre.reserved[i] && !post.reserved[i] && pre.connected(i) {
				h.labels["unreserve-connected"] = true
				if post.connected(i) {
					h.labels["unreserve-connected-kept"] = true
				} else {
					h.labels["unreserve-connected-dropped"] = true
				}
			}
		}
	}
	if o.kind == "addReserved" {
		for i := 0; i < c30N; i++ {
			if !pre.reserved[i] && post.reserved[i] && pre.connected(i) {
				h.labels["reserve-connected"] = true
			}
		}
	}
}

func c30Msgs(ms []Message) string {
	names := map[Status]string{Connect: "Connect", Drop: "Drop", Accept: "Accept", Reject: "Reject"}
	parts := make([]string, len(ms))
	for i, m := range ms {
		parts[i] = fmt.Sprintf("%s(p%d)", names[m.Status], c30Index(m.PeerID))
	}
	return "[" + strings.Join(parts, " ") + "]"
}

func (h *c30H) finish() {
	ls := make([]string, 0, len(h.labels)+3)
	switch n := len(h.hist); {
	case n < 5:
		ls = append(ls, "ops<5")
	case n < 20:
		ls = append(ls, "ops5-19")
	default:
		ls = append(ls, "ops>=20")
	}
	for l := range h.labels {
		ls = append(ls, l)
	}
	if h.ro {
		ls = append(ls, "reserved-only")
	}
	if h.nontriv {
		ls = append(ls, "nontrivial")
	}
	kit.Case(h.history(), h.nontriv, ls...)
}

// TestC30History: the state machine.
func TestC30History(t *testing.T) {
	defer kit.Flush()
	rapid.Check(t, func(t *rapid.T) {
		maxIn := uint32(rapid.IntRange(0, 3).Draw(t, "maxIn"))
		maxOut := uint32(rapid.IntRange(0, 3).Draw(t, "maxOut"))
		ro := rapid.IntRange(0, 3).Draw(t, "reservedOnly") == 0
		// rapid's slice lengths are geometric around 2*min: draw the minimum to get long histories too
		minOps := rapid.SampledFrom([]int{1, 3, 8, 15, 25}).Draw(t, "minOps")
		ops := rapid.SliceOfN(rapid.Custom(c30GenOp), minOps, 50).Draw(t, "ops")
		h, err := c30New(maxIn, maxOut, ro)
		if err != nil {
			t.Fatalf("newPeerSet: %v", err)
		}
		for _, o := range ops {
			h.step(t, o)
		}
		h.finish()
	})
}

// TestC30Arith: Reputation.add / sub saturate (int64 reference), reputationTick
// follows the documented decay and never moves away from zero.
func TestC30Arith(t *testing.T) {
	defer kit.Flush()
	edge := []int32{0, 1, -1, 2, -2, 49, 50, 51, -49, -50, -51, math.MaxInt32, math.MaxInt32 - 1, math.MinInt32, math.MinInt32 + 1,
		int32(c30Ban), int32(c30Ban) - 1, int32(c30Ban) + 1, int32(-c30Ban), int32(c30Ban / 2), 256, -256}
	gen := rapid.OneOf(rapid.SampledFrom(edge), rapid.Int32(),
		rapid.Custom(func(t *rapid.T) int32 {
			// near an edge
			e := rapid.SampledFrom(edge).Draw(t, "e")
			d := rapid.Int32Range(-300, 300).Draw(t, "d")
			return int32(c30Clamp(int64(e) + int64(d)))
		}))
	rapid.Check(t, func(t *rapid.T) {
		a := gen.Draw(t, "a")
		b := gen.Draw(t, "b")
		sum, diff := int64(a)+int64(b), int64(a)-int64(b)
		if got := Reputation(a).add(Reputation(b)); int64(got) != c30Clamp(sum) {
			t.Fatalf("C30: Reputation(%d).add(%d) = %d, saturating sum is %d", a, b, got, c30Clamp(sum))
		}
		if got := Reputation(a).sub(Reputation(b)); int64(got) != c30Clamp(diff) {
			t.Fatalf("C30: Reputation(%d).sub(%d) = %d, saturating difference is %d", a, b, got, c30Clamp(diff))
		}
		tk := int64(reputationTick(Reputation(a)))
		if tk != c30Tick(int64(a)) {
			t.Fatalf("C30: reputationTick(%d) = %d, documented decay gives %d", a, tk, c30Tick(int64(a)))
		}
		var ls []string
		if sum != c30Clamp(sum) {
			ls = append(ls, "add-saturates")
		}
		if diff != c30Clamp(diff) {
			ls = append(ls, "sub-saturates")
		}
		kit.Case(fmt.Sprintf("arith %d %d", a, b), sum != c30Clamp(sum) || diff != c30Clamp(diff), ls...)
	})
}

// ---------------------------------------------------------------- regressions (shrunk generated failures of the pinned tree)

func c30Run(t *testing.T, maxIn, maxOut uint32, ro bool, ops ...c30Op) *c30H {
	h, err := c30New(maxIn, maxOut, ro)
	if err != nil {
		t.Fatalf("newPeerSet: %v", err)
	}
	for _, o := range ops {
		h.step(t, o)
	}
	return h
}

func TestC30Regressions(t *testing.T) {
	defer kit.Flush()
	// reportPeer returned after the first peer that stays above the ban threshold
	t.Run("report-several-peers", func(t *testing.T) {
		h := c30Run(t, 1, 1, false, c30Op{kind: "addPeer", peers: []int{0}}, c30Op{kind: "addPeer", peers: []int{1}},
			c30Op{kind: "report", change: 1, peers: []int{0, 1}})
		s := h.snap()
		if s.rep[0] != 1 || s.rep[1] != 1 {
			t.Fatalf("C30: reportPeer(+1, p0, p1): reputations %d, %d", s.rep[0], s.rep[1])
		}
		kit.Case("regression report-several-peers", true, "regression")
	})
	// addReputation on a peer the set has never seen took the PeersState lock twice
	t.Run("report-unknown-peer", func(t *testing.T) {
		h := c30Run(t, 0, 0, false, c30Op{kind: "report", change: -1, peers: []int{0}})
		if s := h.snap(); s.rep[0] != -1 {
			t.Fatalf("C30: reportPeer(-1, p0) on an unknown peer: reputation %d", s.rep[0])
		}
		kit.Case("regression report-unknown-peer", true, "regression")
	})
	// un-reserving a connected peer pushed numOut / numIn over the maximum
	t.Run("unreserve-connected-out", func(t *testing.T) {
		c30Run(t, 0, 1, false,
			c30Op{kind: "addPeer", peers: []int{0}}, c30Op{kind: "addPeer", peers: []int{1}},
			c30Op{kind: "addReserved", peers: []int{0}}, c30Op{kind: "removeReserved", peers: []int{0}})
		kit.Case("regression unreserve-connected-out", true, "regression")
	})
	t.Run("unreserve-connected-in", func(t *testing.T) {
		c30Run(t, 1, 0, false,
			c30Op{kind: "incoming", peers: []int{0}}, c30Op{kind: "addReserved", peers: []int{0}},
			c30Op{kind: "incoming", peers: []int{1}}, c30Op{kind: "removeReserved", peers: []int{0}})
		kit.Case("regression unreserve-connected-in", true, "regression")
	})
}
