package c02

import (
	"bytes"
	"fmt"
	"sort"
	"strings"
	"testing"

	kit "github.com/ChainSafe/gossamer/internal/verifkit"
	"github.com/ChainSafe/gossamer/pkg/trie"
	"github.com/ChainSafe/gossamer/pkg/trie/inmemory"
	"pgregory.net/rapid"
)

const rule = "rapid state machine of 1-40 steps (Put, Delete, ClearPrefix, ClearPrefixLimit with limit 0..matches+1, Get, NextKey, GetKeysWithPrefix, Entries) " +
	"on an inmemory trie (V0 or V1) over a small nibble-colliding key alphabet; prefixes are byte prefixes of existing keys, such prefixes with the low nibble of " +
	"the last byte zeroed or the last byte replaced, or fresh short keys; every result and, after every mutating step, the full Entries() map are compared with " +
	"kit.OrdMap; non-trivial = the sequence contains a prefix operation (GetKeysWithPrefix/ClearPrefix/ClearPrefixLimit) whose prefix matches >= 2 keys of the " +
	"model byte-wise; distinct by (version, op list)"

// Known findings of this property (see findings.json).
const (
	findZeroNibble = "C02-zero-nibble-prefix"
	findLimitZero  = "C02-limit-zero-alldeleted"
	findValueLast  = "C02-limit-children-before-value"
)

var alphabet = []byte{0x00, 0x01, 0x0f, 0x10, 0x11, 0x1f, 0xf0, 0xff}

// nibbleMatches returns the keys of m whose nibble sequence starts with the
// nibbles of p after ONE trailing zero nibble has been removed (the matching
// rule the implementation uses instead of the byte-wise rule).
func trimmedNibbleMatches(m kit.OrdMap, p []byte) []string {
	pn := kit.KeyNibbles(p)
	if len(pn) > 0 && pn[len(pn)-1] == 0 {
		pn = pn[:len(pn)-1]
	}
	var out []string
	for _, k := range m.Keys() {
		if bytes.HasPrefix(kit.KeyNibbles([]byte(k)), pn) {
			out = append(out, k)
		}
	}
	return out
}

// zeroNibbleTrigger is the exact trigger class of finding C02-zero-nibble-prefix:
// the prefix's last byte has a zero low nibble and the nibble prefix without that
// nibble matches a different key set than the byte prefix does.
func zeroNibbleTrigger(m kit.OrdMap, p []byte) bool {
	if len(p) == 0 || p[len(p)-1]&0x0f != 0 {
		return false
	}
	return len(trimmedNibbleMatches(m, p)) != len(m.WithPrefix(p))
}

// postOrder returns the matching keys in the order in which the implementation
// deletes them under a limit: the descendants of a key (ascending) before the key
// itself. It is only used to delimit the trigger class of finding
// C02-limit-children-before-value, never as an oracle.
func postOrder(matches []string) []string {
	out := append([]string{}, matches...)
	sort.SliceStable(out, func(i, j int) bool {
		a, b := out[i], out[j]
		switch {
		case a != b && strings.HasPrefix(b, a): // a is an ancestor of b: b first
			return false
		case a != b && strings.HasPrefix(a, b):
			return true
		}
		return a < b
	})
	return out
}

// valueLastTrigger is the exact trigger class of finding
// C02-limit-children-before-value: 0 < limit < matches and the first `limit` keys
// in descendants-first order are not the `limit` smallest matching keys.
func valueLastTrigger(matches []string, limit int) bool {
	if limit <= 0 || limit >= len(matches) {
		return false
	}
	po := postOrder(matches)
	a := append([]string{}, po[:limit]...)
	sort.Strings(a)
	return keysHex(a) != keysHex(matches[:limit])
}

type machine struct {
	tr     *inmemory.InMemoryTrie
	model  kit.OrdMap
	labels map[string]bool
	descr  strings.Builder
	// non-triviality: a prefix op whose prefix matched >= 2 keys
	prefixOp2 bool
}

func (m *machine) label(l string) { m.labels[l] = true }

func (m *machine) genExistingKey(t *rapid.T) ([]byte, bool) {
	ks := m.model.Keys()
	if len(ks) == 0 {
		return nil, false
	}
	return []byte(ks[rapid.IntRange(0, len(ks)-1).Draw(t, "ki")]), true
}

// genKey draws a key for Put/Delete/Get/NextKey.
func (m *machine) genKey(t *rapid.T) []byte {
	mode := rapid.IntRange(0, 9).Draw(t, "kmode")
	if k, ok := m.genExistingKey(t); ok {
		switch {
		case mode <= 3: // present key
			return k
		case mode == 4: // proper byte prefix of a present key
			return append([]byte{}, k[:rapid.IntRange(0, len(k)).Draw(t, "cut")]...)
		case mode == 5: // extension of a present key
			return append(append([]byte{}, k...), rapid.SampledFrom(alphabet).Draw(t, "ext"))
		case mode == 6 && len(k) > 0: // sibling: last byte replaced
			c := append([]byte{}, k...)
			c[len(c)-1] = rapid.SampledFrom(alphabet).Draw(t, "sib")
			return c
		}
	}
	if mode == 9 {
		return kit.GenKey().Draw(t, "k")
	}
	return kit.GenShortKey().Draw(t, "k")
}

// genPrefix draws a prefix for the prefix operations.
func (m *machine) genPrefix(t *rapid.T) []byte {
	mode := rapid.IntRange(0, 9).Draw(t, "pmode")
	if k, ok := m.genExistingKey(t); ok && mode <= 7 {
		p := append([]byte{}, k[:rapid.IntRange(0, len(k)).Draw(t, "cut")]...)
		switch {
		case mode <= 3: // byte prefix of a present key (matches something)
			return p
		case mode <= 5 && len(p) > 0: // same with the low nibble of the last byte zeroed
			p[len(p)-1] &= 0xf0
			return p
		case mode == 6 && len(p) > 0: // last byte replaced: diverges from the stored keys at equal length
			p[len(p)-1] = rapid.SampledFrom(alphabet).Draw(t, "sib")
			return p
		default: // prefix extended by one byte
			return append(p, rapid.SampledFrom(alphabet).Draw(t, "ext"))
		}
	}
	return kit.GenShortKey().Draw(t, "p")
}

func (m *machine) checkEntries(t *rapid.T, ctx string) {
	ents := m.tr.Entries()
	if len(ents) != len(m.model) {
		t.Fatalf("%s: Entries() has %d keys %s, model %s", ctx, len(ents), kit.OrdMap(ents).Describe(), m.model.Describe())
	}
	for k, v := range m.model {
		got, ok := ents[k]
		if !ok || !bytes.Equal(got, v) {
			t.Fatalf("%s: Entries()[%x] = %x (present %v), model %x; trie %s model %s", ctx, k, got, ok, v, kit.OrdMap(ents).Describe(), m.model.Describe())
		}
	}
}

func keysHex(ks []string) string {
	var sb strings.Builder
	sb.WriteString("[")
	for i, k := range ks {
		if i > 0 {
			sb.WriteString(" ")
		}
		fmt.Fprintf(&sb, "%x", k)
	}
	sb.WriteString("]")
	return sb.String()
}

// prefixLabels records the shape classes of a prefix operation and returns the
// byte-wise matches.
func (m *machine) prefixLabels(p []byte) []string {
	matches := m.model.WithPrefix(p)
	if len(matches) >= 2 {
		m.prefixOp2 = true
		m.label("prefix-matches>=2")
	}
	if len(matches) == 0 {
		m.label("prefix-matches-0")
	}
	if len(p) > 0 && p[len(p)-1]&0x0f == 0 {
		m.label("zero-low-nibble-prefix")
	}
	if len(p) == 0 {
		m.label("empty-prefix")
	}
	if _, ok := m.model[string(p)]; ok {
		m.label("key-equal-to-prefix")
	}
	return matches
}

// step performs one operation on trie and model and compares the results.
func (m *machine) step(t *rapid.T, i int) {
	ctx := func(op string) string {
		return fmt.Sprintf("step %d %s after [%s] on %s", i, op, m.descr.String(), m.model.Describe())
	}
	kind := rapid.SampledFrom([]string{
		"put", "put", "put", "put", "del", "del", "clear", "clearlimit", "clearlimit",
		"get", "next", "next", "keys", "keys", "entries",
	}).Draw(t, "op")
	switch kind {
	case "put":
		k := m.genKey(t)
		v := kit.GenValue().Draw(t, "v")
		op := fmt.Sprintf("P%x=%d:%x", k, len(v), firstByte(v))
		c := ctx(op)
		if err := m.tr.Put(k, v); err != nil {
			t.Fatalf("%s: %v", c, err)
		}
		if _, ok := m.model[string(k)]; ok {
			m.label("overwrite")
		}
		m.model[string(k)] = append([]byte{}, v...)
		m.descr.WriteString(" " + op)
		m.checkEntries(t, c)
	case "del":
		k := m.genKey(t)
		op := fmt.Sprintf("D%x", k)
		c := ctx(op)
		if err := m.tr.Delete(k); err != nil {
			t.Fatalf("%s: %v", c, err)
		}
		if _, ok := m.model[string(k)]; ok {
			m.label("delete-present")
		} else {
			m.label("delete-absent")
		}
		delete(m.model, string(k))
		m.descr.WriteString(" " + op)
		m.checkEntries(t, c)
	case "get":
		k := m.genKey(t)
		op := fmt.Sprintf("G%x", k)
		c := ctx(op)
		got := m.tr.Get(k)
		want, present := m.model[string(k)]
		if present {
			m.label("get-present")
			if got == nil || !bytes.Equal(got, want) {
				t.Fatalf("%s: Get = %x (nil %v), model has %x", c, got, got == nil, want)
			}
		} else {
			m.label("get-absent")
			if got != nil {
				t.Fatalf("%s: Get of an absent key = %x, want nil", c, got)
			}
		}
		m.descr.WriteString(" " + op)
	case "next":
		var k []byte
		switch rapid.IntRange(0, 5).Draw(t, "nmode") {
		case 0:
			k = []byte{}
			m.label("nextkey-empty")
		case 1:
			k = []byte{0xff, 0xff, 0xff, 0xff, 0xff, 0xff}
			m.label("nextkey-greater-than-all")
		default:
			k = m.genKey(t)
		}
		op := fmt.Sprintf("N%x", k)
		c := ctx(op)
		got := m.tr.NextKey(k)
		want, ok := m.model.Next(k)
		if _, present := m.model[string(k)]; present {
			m.label("nextkey-present")
		} else {
			m.label("nextkey-absent")
		}
		if !ok {
			m.label("nextkey-none")
			if got != nil {
				t.Fatalf("%s: NextKey = %x, model has no greater key", c, got)
			}
		} else if got == nil || !bytes.Equal(got, want) {
			t.Fatalf("%s: NextKey = %x (nil %v), model %x", c, got, got == nil, want)
		}
		m.descr.WriteString(" " + op)
	case "keys":
		p := m.genPrefix(t)
		if kit.KnownOpen(findZeroNibble) && zeroNibbleTrigger(m.model, p) {
			kit.Excluded(findZeroNibble)
			return
		}
		op := fmt.Sprintf("K%x", p)
		c := ctx(op)
		want := m.prefixLabels(p)
		gotB := m.tr.GetKeysWithPrefix(p)
		got := make([]string, len(gotB))
		for j, g := range gotB {
			got[j] = string(g)
		}
		// compared as a set here (ascending order is C38's claim); duplicates are an error
		sort.Strings(got)
		if keysHex(got) != keysHex(want) {
			t.Fatalf("%s: GetKeysWithPrefix = %s, model %s", c, keysHex(got), keysHex(want))
		}
		m.descr.WriteString(" " + op)
	case "clear":
		p := m.genPrefix(t)
		if kit.KnownOpen(findZeroNibble) && zeroNibbleTrigger(m.model, p) {
			kit.Excluded(findZeroNibble)
			return
		}
		op := fmt.Sprintf("C%x", p)
		c := ctx(op)
		matches := m.prefixLabels(p)
		if err := m.tr.ClearPrefix(p); err != nil {
			t.Fatalf("%s: %v", c, err)
		}
		for _, k := range matches {
			delete(m.model, k)
		}
		if len(matches) > 0 {
			m.label("clear-effective")
		}
		m.descr.WriteString(" " + op)
		m.checkEntries(t, c)
	case "clearlimit":
		p := m.genPrefix(t)
		if kit.KnownOpen(findZeroNibble) && zeroNibbleTrigger(m.model, p) {
			kit.Excluded(findZeroNibble)
			return
		}
		matches := m.model.WithPrefix(p)
		var limit int
		if len(matches) >= 2 && rapid.IntRange(0, 2).Draw(t, "partial") > 0 {
			limit = rapid.IntRange(1, len(matches)-1).Draw(t, "limit")
		} else {
			limit = rapid.IntRange(0, len(matches)+1).Draw(t, "limit")
		}
		if limit == 0 && len(matches) == 0 && kit.KnownOpen(findLimitZero) {
			kit.Excluded(findLimitZero)
			return
		}
		if kit.KnownOpen(findValueLast) && valueLastTrigger(matches, limit) {
			kit.Excluded(findValueLast)
			return
		}
		op := fmt.Sprintf("L%x/%d", p, limit)
		c := ctx(op)
		m.prefixLabels(p)
		wantDeleted := limit
		if len(matches) < wantDeleted {
			wantDeleted = len(matches)
		}
		wantAll := wantDeleted == len(matches)
		switch {
		case limit == 0:
			m.label("limit-0")
		case limit < len(matches):
			m.label("limit<matches")
			// a matching key that is a proper prefix of another matching key sits on a
			// branch: the branch value must go before its children
			for j := 0; j+1 < len(matches); j++ {
				if strings.HasPrefix(matches[j+1], matches[j]) {
					m.label("branch-with-value-under-limit")
				}
			}
		case limit == len(matches):
			m.label("limit==matches")
		default:
			m.label("limit>matches")
		}
		deleted, allDeleted, err := m.tr.ClearPrefixLimit(p, uint32(limit))
		if err != nil {
			t.Fatalf("%s: %v", c, err)
		}
		if int(deleted) != wantDeleted || allDeleted != wantAll {
			t.Fatalf("%s: ClearPrefixLimit = (deleted %d, allDeleted %v), model (%d, %v); matching keys %s",
				c, deleted, allDeleted, wantDeleted, wantAll, keysHex(matches))
		}
		for _, k := range matches[:wantDeleted] {
			delete(m.model, k)
		}
		m.descr.WriteString(" " + op)
		m.checkEntries(t, c)
	case "entries":
		m.label("entries-op")
		m.checkEntries(t, ctx("E"))
		m.descr.WriteString(" E")
	}
}

func firstByte(v []byte) []byte {
	if len(v) == 0 {
		return nil
	}
	return v[:1]
}

func sortedLabels(m map[string]bool) []string {
	ls := make([]string, 0, len(m))
	for l := range m {
		ls = append(ls, l)
	}
	sort.Strings(ls)
	return ls
}

// TestC02Machine: every result of every operation sequence equals the
// ordered-map model's.
func TestC02Machine(t *testing.T) {
	defer kit.Flush()
	kit.Note("rule", rule)
	rapid.Check(t, func(t *rapid.T) {
		m := &machine{tr: inmemory.NewEmptyTrie(), model: kit.OrdMap{}, labels: map[string]bool{}}
		if rapid.Bool().Draw(t, "v1") {
			m.tr.SetVersion(trie.V1)
			m.descr.WriteString("v1")
			m.label("v1")
		} else {
			m.descr.WriteString("v0")
		}
		// start from a populated map most of the time so that short sequences are
		// not spent on filling the trie
		nInit := rapid.IntRange(0, 12).Draw(t, "ninit")
		for j := 0; j < nInit; j++ {
			k := kit.GenShortKey().Draw(t, "ik")
			if rapid.IntRange(0, 9).Draw(t, "ilong") == 0 {
				k = kit.GenKey().Draw(t, "ik")
			}
			v := kit.GenValue().Draw(t, "iv")
			if err := m.tr.Put(k, v); err != nil {
				t.Fatalf("Put: %v", err)
			}
			m.model[string(k)] = append([]byte{}, v...)
			fmt.Fprintf(&m.descr, " P%x=%d:%x", k, len(v), firstByte(v))
		}
		m.checkEntries(t, "after initial puts ["+m.descr.String()+"]")
		n := rapid.IntRange(1, 40).Draw(t, "n")
		for i := 0; i < n; i++ {
			m.step(t, i)
		}
		m.checkEntries(t, "at the end of ["+m.descr.String()+"]")
		kit.Case(m.descr.String(), m.prefixOp2, sortedLabels(m.labels)...)
	})
}

func mkTrie(t *testing.T, v1 bool, kv ...string) *inmemory.InMemoryTrie {
	tr := inmemory.NewEmptyTrie()
	if v1 {
		tr.SetVersion(trie.V1)
	}
	for i := 0; i+1 < len(kv); i += 2 {
		if err := tr.Put([]byte(kv[i]), []byte(kv[i+1])); err != nil {
			t.Fatalf("Put: %v", err)
		}
	}
	return tr
}

func keySet(ks [][]byte) string {
	ss := make([]string, len(ks))
	for i, k := range ks {
		ss[i] = string(k)
	}
	sort.Strings(ss)
	return keysHex(ss)
}

func entryKeys(tr *inmemory.InMemoryTrie) string {
	return keysHex(kit.OrdMap(tr.Entries()).Keys())
}

// TestC02Regressions: shrunk failures found by TestC02Machine on the pinned
// tree, repaired by fixes/01 and fixes/02; plain deterministic cases.
func TestC02Regressions(t *testing.T) {
	defer kit.Flush()
	for _, v1 := range []bool{false, true} {
		// fixes/01: GetKeysWithPrefix with a prefix that diverges from a branch partial key
		func() {
			defer func() {
				if r := recover(); r != nil {
					t.Errorf("GetKeysWithPrefix(12) on {1300,1311} panics: %v", r)
				}
			}()
			tr := mkTrie(t, v1, "\x13\x00", "a", "\x13\x11", "b")
			if got := keySet(tr.GetKeysWithPrefix([]byte{0x12})); got != "[]" {
				t.Errorf("GetKeysWithPrefix(12) on {1300,1311} = %s, want []", got)
			}
		}()
		tr := mkTrie(t, v1, "\x13\x05", "a", "\x13\x11", "b")
		if got := keySet(tr.GetKeysWithPrefix([]byte{0x12, 0x05})); got != "[]" {
			t.Errorf("GetKeysWithPrefix(1205) on {1305,1311} = %s, want []", got)
		}
		// fixes/02: Get of an absent key returned the value of another key
		tr = mkTrie(t, v1, "\x00", "a", "\x00\x00", "b")
		if got := tr.Get([]byte{}); got != nil {
			t.Errorf("Get('') on {00,0000} = %x, want nil", got)
		}
		tr = mkTrie(t, v1, "\x11\x00", "a", "\x11\x11", "b")
		if got := tr.Get([]byte{0x00}); got != nil {
			t.Errorf("Get(00) on {1100,1111} = %x, want nil", got)
		}
		tr = mkTrie(t, v1, "\x61\x61", "a", "\x61\x61\x62", "b", "\x62", "c")
		if got := tr.Get([]byte{0x61}); got != nil {
			t.Errorf("Get(61) on {6161,616162,62} = %x, want nil", got)
		}
		if got := tr.Get([]byte{0x61, 0x61}); string(got) != "a" {
			t.Errorf("Get(6161) = %x, want 'a'", got)
		}
		kit.Case(fmt.Sprintf("regressions v1=%v", v1), true, "regression")
	}
}

// TestC02KnownZeroNibblePrefix: witness of finding C02-zero-nibble-prefix.
func TestC02KnownZeroNibblePrefix(t *testing.T) {
	defer kit.Flush()
	build := func() *inmemory.InMemoryTrie {
		return mkTrie(t, false, "\x10\x01", "a", "\x11\x01", "b", "\x20", "c")
	}
	const (
		right = "[1001]"      // byte-wise matches of prefix 0x10
		wide  = "[1001 1101]" // matches of the nibble prefix "1"
	)
	var obs []string
	obs = append(obs, keySet(build().GetKeysWithPrefix([]byte{0x10})))
	tr := build()
	if err := tr.ClearPrefix([]byte{0x10}); err != nil {
		t.Fatalf("ClearPrefix: %v", err)
	}
	switch entryKeys(tr) {
	case "[1101 20]":
		obs = append(obs, right)
	case "[20]":
		obs = append(obs, wide)
	default:
		t.Fatalf("ClearPrefix(10) on {1001,1101,20} left %s", entryKeys(tr))
	}
	tr = build()
	deleted, all, err := tr.ClearPrefixLimit([]byte{0x10}, 5)
	if err != nil {
		t.Fatalf("ClearPrefixLimit: %v", err)
	}
	switch {
	case entryKeys(tr) == "[1101 20]" && deleted == 1 && all:
		obs = append(obs, right)
	case entryKeys(tr) == "[20]" && deleted == 2 && all:
		obs = append(obs, wide)
	default:
		t.Fatalf("ClearPrefixLimit(10,5) on {1001,1101,20} = (%d,%v), left %s", deleted, all, entryKeys(tr))
	}
	nWide := 0
	for _, o := range obs {
		switch o {
		case wide:
			nWide++
		case right:
		default:
			t.Fatalf("GetKeysWithPrefix(10) on {1001,1101,20} = %s: neither the byte-wise nor the trimmed-nibble result", o)
		}
	}
	if nWide > 0 {
		kit.WitnessResult(findZeroNibble, true, fmt.Sprintf("on {1001,1101,20} prefix 0x10 also matches 1101 in %d of GetKeysWithPrefix/ClearPrefix/ClearPrefixLimit", nWide))
	} else {
		kit.WitnessResult(findZeroNibble, false, "")
	}
}

// TestC02KnownLimitZero: witness of finding C02-limit-zero-alldeleted.
func TestC02KnownLimitZero(t *testing.T) {
	defer kit.Flush()
	present := 0
	for i, tr := range []*inmemory.InMemoryTrie{mkTrie(t, false), mkTrie(t, false, "\x01", "a")} {
		before := entryKeys(tr)
		deleted, all, err := tr.ClearPrefixLimit([]byte{0x02}, 0)
		if err != nil || deleted != 0 || entryKeys(tr) != before {
			t.Fatalf("case %d: ClearPrefixLimit(02, 0) = (%d,%v,%v), entries %s -> %s", i, deleted, all, err, before, entryKeys(tr))
		}
		if !all {
			present++
		}
	}
	switch present {
	case 2:
		kit.WitnessResult(findLimitZero, true, "ClearPrefixLimit(0x02, 0) on {} and on {01} reports allDeleted=false although no key has the prefix")
	case 0:
		kit.WitnessResult(findLimitZero, false, "")
	default:
		t.Fatalf("ClearPrefixLimit(02, 0): allDeleted differs between the empty trie and {01}")
	}
}

// TestC02KnownChildrenBeforeValue: witness of finding C02-limit-children-before-value.
func TestC02KnownChildrenBeforeValue(t *testing.T) {
	defer kit.Flush()
	tr := mkTrie(t, false, "\x01", "a", "\x01\x00", "b", "\x01\x01", "c")
	deleted, all, err := tr.ClearPrefixLimit([]byte{0x01}, 1)
	if err != nil || deleted != 1 || all {
		t.Fatalf("ClearPrefixLimit(01, 1) on {01,0100,0101} = (%d,%v,%v), want (1,false,nil)", deleted, all, err)
	}
	switch entryKeys(tr) {
	case "[01 0101]":
		kit.WitnessResult(findValueLast, true, "ClearPrefixLimit(0x01, 1) on {01,0100,0101} removes 0100 and keeps the smaller key 01")
	case "[0100 0101]":
		kit.WitnessResult(findValueLast, false, "")
	default:
		t.Fatalf("ClearPrefixLimit(01, 1) on {01,0100,0101} left %s", entryKeys(tr))
	}
}
