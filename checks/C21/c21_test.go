package grandpa

// C21 - the voter's vote choices and finalisation follow GRANDPA-GHOST.
//
// A Service over the harness fakes (../C18/fakes_test.go) is taken through one
// round by direct synchronous calls, mirroring votingRoundHandler.Run /
// finalisationEngine of finalisation.go without goroutines or timers:
//
//	initiateRound -> [own prevote stored] -> handleVoteMessage(m) for every
//	generated message -> determinePreCommit -> [own precommit stored] ->
//	attemptToFinalize
//
// Oracle (validity predicate written from the property statement, evaluated
// on the harness tree model; signatures judged with the standard library):
//  1. a message that is not valid (bad signature, non-authority, unknown
//     block, wrong block number, block not descending from the finalised
//     head, other round / set) never changes the recorded votes or
//     equivocations of its signer and is never reported as accepted;
//  2. with W(B) = #authorities whose single valid prevote is on B or a
//     descendant + #authorities with two different valid prevotes: if some
//     block has 3W > 2n (and equivocators alone do not), determinePreCommit
//     returns a block with 3W > 2n of maximal number among those, lowered to
//     the effective number of a pending authority change on its chain;
//  3. whatever attemptToFinalize finalises has 3W' > 2n precommits (same
//     weight definition over precommits) and is that GHOST or an ancestor of it.
// When no block has more than 2/3 of the prevotes, 2 and the ancestry part of
// 3 are unconstrained.

import (
	stded "crypto/ed25519"
	"fmt"
	"sort"
	"strings"
	"testing"

	kit "github.com/ChainSafe/gossamer/internal/verifkit"
	"github.com/ChainSafe/gossamer/lib/common"
	"github.com/libp2p/go-libp2p/core/peer"
	"pgregory.net/rapid"
)

const c21Rule = "tree of 2-10 blocks, finalised head anywhere, best block = a deepest descendant of the head, 1-7 authorities (the service is authority 0, its own votes stored as finalisation.go does), " +
	"0..2n+4 received vote messages (prevote/precommit) concentrated on one branch: valid, equivocating, garbage signature, signature over another vote/stage/round/set, non-authority, " +
	"unknown block, wrong block number, block not descending from the head, other round, other set id; optional pending authority change; " +
	"non-trivial = some block has >2/3 prevotes, the GHOST is not the finalised head, and an invalid or equivocating vote was delivered; distinct by (n, tree, head, best, own votes, pending change, message list)"

type c21Msg struct {
	kind  string
	key   int
	stage Subround
	vote  Vote
	round uint64 // round carried by the message (relative meaning filled by the generator)
	setID uint64
	sig   [64]byte
}

type c21Case struct {
	n            int
	parent       []int
	head         int
	headRound    uint64
	setID        uint64
	best         int
	ownPrevote   int  // block index or -1
	ownPrecommit bool // store the determinePreCommit result as own precommit before attemptToFinalize
	pendingAt    int  // block index announcing an authority change, -1 none
	pendingEff   uint
	msgs         []c21Msg
	// authority set of this round when it is not the initial one (keys 0..n-1):
	// key numbers of the current set (n = len(keys), the service is key 0 and a
	// member of every set), key numbers that were authorities of an earlier set
	// of this Service and are not in the current one, and the round number when
	// it is not headRound+1 (first round of a new set = 1)
	keys   []int
	former []int
	round  uint64
}

// r is the number of the round this case describes.
func (c *c21Case) r() uint64 {
	if c.round != 0 {
		return c.round
	}
	return c.headRound + 1
}

// others returns the key numbers of the current authorities other than the
// service (key 0), in set order.
func (c *c21Case) others() []int {
	var out []int
	if c.keys == nil {
		for k := 1; k < c.n; k++ {
			out = append(out, k)
		}
		return out
	}
	for _, k := range c.keys {
		if k != 0 {
			out = append(out, k)
		}
	}
	return out
}

// isAuth: key is an authority of the current set.
func (c *c21Case) isAuth(key int) bool {
	if c.keys == nil {
		return key >= 0 && key < c.n
	}
	for _, k := range c.keys {
		if k == key {
			return true
		}
	}
	return false
}

type c21Result struct {
	violation   string
	labels      []string
	smNonEmpty  bool
	ghostIsHead bool
	invalidSeen bool
	equivSeen   bool
	pvEquiv     []int // authorities that equivocated in the prevote stage of this round
	pcEquiv     []int // ... in the precommit stage
	finalised   int   // block finalised by attemptToFinalize, -1 none
}

func c21Describe(c *c21Case, tree *vTree) string {
	var sb strings.Builder
	fmt.Fprintf(&sb, "n=%d tree=%s head=%d@r%d set=%d best=%d ownPV=%d ownPC=%v pending=%d@%d:", c.n, tree.describe(), c.head, c.headRound,
		c.setID, c.best, c.ownPrevote, c.ownPrecommit, c.pendingAt, c.pendingEff)
	if c.keys != nil {
		fmt.Fprintf(&sb, " round=%d keys=%v former=%v:", c.r(), c.keys, c.former)
	}
	for _, m := range c.msgs {
		bi := -1
		if i, ok := tree.index[m.vote.Hash]; ok {
			bi = i
		}
		fmt.Fprintf(&sb, " %s:%s:k%d:b%d#%d", m.kind, m.stage.String()[:5], m.key, bi, m.vote.Number)
	}
	return sb.String()
}

// c21Weights is the brute-force GRANDPA weight model for one stage.
type c21Weights struct {
	tree  *vTree
	votes map[int][]int // authority key -> distinct valid voted blocks, arrival order
}

func (w *c21Weights) add(key, blk int) {
	for _, b := range w.votes[key] {
		if b == blk {
			return
		}
	}
	w.votes[key] = append(w.votes[key], blk)
}

func (w *c21Weights) equivocators() int {
	e := 0
	for _, bs := range w.votes {
		if len(bs) >= 2 {
			e++
		}
	}
	return e
}

func (w *c21Weights) weight(b int) int {
	t := 0
	for _, bs := range w.votes {
		if len(bs) >= 2 || (len(bs) == 1 && w.tree.isAncestorOrEqual(b, bs[0])) {
			t++
		}
	}
	return t
}

// c21Eval runs a one-round case on a fresh service and evaluates the oracle.
func c21Eval(c *c21Case) (*c21Result, *vTree, error) {
	env, tree, err := c21Setup(c)
	if err != nil {
		return nil, tree, err
	}
	res, err := c21RunRound(env, tree, c)
	return res, tree, err
}

// c21Setup builds the service (authority 0 of n) over a fresh block state
// whose finalised head is c.head, finalised in round c.headRound.
func c21Setup(c *c21Case) (*vEnv, *vTree, error) {
	tree := newVTree(c.parent)
	bs := newVBlockState(tree, c.head, c.headRound, c.setID, c.best)
	keys := make([]int, c.n)
	for i := range keys {
		keys[i] = i
	}
	env, err := vNewService(bs, keys, 0, c.setID)
	if err != nil {
		return nil, tree, fmt.Errorf("NewService: %w", err)
	}
	return env, tree, nil
}

// c21RunRound takes the service through one round (initiateRound first, as
// finalisationHandler.run does) and evaluates the oracle over the votes of
// this round only. c.head / c.headRound must be the block state's current
// finalised head and highest finalised round.
func c21RunRound(env *vEnv, tree *vTree, c *c21Case) (*c21Result, error) {
	res := &c21Result{finalised: -1}
	bs, s := env.bs, env.svc
	bs.mu.Lock()
	bs.best = c.best
	bs.mu.Unlock()
	env.gs.mu.Lock()
	env.gs.pendingAt, env.gs.pendingEffective = c.pendingAt, c.pendingEff
	env.gs.mu.Unlock()
	if err := s.initiateRound(); err != nil {
		return nil, fmt.Errorf("initiateRound: %w", err)
	}
	r := c.r()
	if s.state.round != r || s.state.setID != c.setID || s.head.Hash() != tree.hashes[c.head] {
		return nil, fmt.Errorf("harness: round %d set %d head %s after initiateRound, expected %d %d %s",
			s.state.round, s.state.setID, s.head.Hash(), r, c.setID, tree.hashes[c.head])
	}
	label := func(l string) { res.labels = append(res.labels, l) }
	fail := func(f string, a ...any) (*c21Result, error) {
		res.violation = fmt.Sprintf(f, a...)
		return res, nil
	}

	pv := &c21Weights{tree: tree, votes: map[int][]int{}}
	pc := &c21Weights{tree: tree, votes: map[int][]int{}}

	if c.ownPrevote >= 0 {
		v := tree.vote(c.ownPrevote)
		sv, _, err := s.createSignedVoteAndVoteMessage(&v, prevote)
		if err != nil {
			return nil, fmt.Errorf("own prevote: %w", err)
		}
		s.prevotes.Store(s.publicKeyBytes(), sv)
		pv.add(0, c.ownPrevote)
	}

	// snapshot of what the service recorded for (key, stage)
	snap := func(key int, stage Subround) string {
		pk := vPub(key)
		out := "-"
		if sv, ok := s.loadVote(pk, stage); ok {
			out = fmt.Sprintf("%s#%d", sv.Vote.Hash.Short(), sv.Vote.Number)
		}
		eq := s.pvEquivocations
		if stage == precommit {
			eq = s.pcEquivocations
		}
		return fmt.Sprintf("%s/eq%d", out, len(eq[pk]))
	}

	for i, m := range c.msgs {
		pub := vPub(m.key)
		blk, known := tree.index[m.vote.Hash]
		valid := m.key != 0 && c.isAuth(m.key) &&
			stded.Verify(stded.PublicKey(pub[:]), vFullVotePayload(m.stage, m.vote, m.round, m.setID), m.sig[:]) &&
			m.round == r && m.setID == c.setID &&
			known && uint(m.vote.Number) == tree.number[blk] && tree.isAncestorOrEqual(c.head, blk)
		before := snap(m.key, m.stage)
		err := s.handleVoteMessage(peer.ID("peer"), vVoteMessage(m.key, m.stage, m.vote, m.round, m.setID, m.sig))
		after := snap(m.key, m.stage)
		if !valid {
			res.invalidSeen = true
			if err == nil {
				return fail("message %d (%s) is not a valid vote but was accepted (no error)", i, m.kind)
			}
			if before != after {
				return fail("message %d (%s) is not a valid vote but changed the recorded votes of its signer: %s -> %s (err: %v)", i, m.kind, before, after, err)
			}
			continue
		}
		w := pv
		if m.stage == precommit {
			w = pc
		}
		if len(w.votes[m.key]) == 0 {
			// first valid vote of this authority in this stage of this round: nothing
			// of an earlier round may stand in its way
			want := fmt.Sprintf("%s#%d/eq0", m.vote.Hash.Short(), m.vote.Number)
			if err != nil || after != want {
				return fail("message %d (%s): first valid %s of authority %d in round %d was not accepted and recorded: recorded %s -> %s, err: %v",
					i, m.kind, m.stage, m.key, r, before, after, err)
			}
		}
		w.add(m.key, blk)
	}
	for k, bl := range pv.votes {
		if len(bl) >= 2 {
			res.pvEquiv = append(res.pvEquiv, k)
		}
	}
	for k, bl := range pc.votes {
		if len(bl) >= 2 {
			res.pcEquiv = append(res.pcEquiv, k)
		}
	}
	sort.Ints(res.pvEquiv)
	sort.Ints(res.pcEquiv)
	if pv.equivocators()+pc.equivocators() > 0 {
		res.equivSeen = true
		label("equivocator")
	}

	// ---- prevote GHOST by brute force
	n := c.n
	var sm []int
	maxNum := uint(0)
	for b := 0; b < tree.size(); b++ {
		if 3*pv.weight(b) > 2*n {
			sm = append(sm, b)
			if tree.number[b] > maxNum {
				maxNum = tree.number[b]
			}
		}
	}
	degenerate := 3*pv.equivocators() > 2*n
	var ghosts []int // acceptable GHOST blocks
	for _, b := range sm {
		if tree.number[b] == maxNum {
			ghosts = append(ghosts, b)
		}
	}
	constrained := len(sm) > 0 && !degenerate
	res.smNonEmpty = constrained
	capped := func(b int) int {
		if c.pendingAt >= 0 && tree.isAncestorOrEqual(c.pendingAt, b) && c.pendingEff <= tree.number[b] {
			return tree.ancestorAt(b, c.pendingEff)
		}
		return b
	}

	vote, err := s.determinePreCommit()
	switch {
	case degenerate:
		label("prevote-equivocators-alone-supermajority")
	case len(sm) == 0:
		label("no-prevote-supermajority")
	default:
		label("prevote-supermajority")
		if err != nil {
			return fail("a block has >2/3 prevotes but determinePreCommit failed: %v", err)
		}
		ok := false
		var want []string
		for _, g := range ghosts {
			e := capped(g)
			want = append(want, fmt.Sprintf("b%d", e))
			if vote.Hash == tree.hashes[e] && uint(vote.Number) == tree.number[e] {
				ok = true
				if e != g {
					label("capped-by-pending-change")
				}
			}
		}
		if !ok {
			got := -1
			if i, k := tree.index[vote.Hash]; k {
				got = i
			}
			return fail("determinePreCommit returned b%d#%d, acceptable: %v (blocks with >2/3 prevotes: %v, GHOST candidates %v)",
				got, vote.Number, want, sm, ghosts)
		}
		g := ghosts[0]
		res.ghostIsHead = g == c.head
		if g == c.head {
			label("ghost=head")
		}
		direct := false
		for _, bsl := range pv.votes {
			if len(bsl) == 1 && bsl[0] == g {
				direct = true
			}
		}
		if !direct {
			label("ghost-not-directly-voted")
		}
		if len(ghosts) > 1 {
			label("ghost-tie")
		}
	}

	if c.ownPrecommit && err == nil && vote != nil {
		if blk, ok := tree.index[vote.Hash]; ok {
			sv, _, err := s.createSignedVoteAndVoteMessage(vote, precommit)
			if err != nil {
				return nil, fmt.Errorf("own precommit: %w", err)
			}
			s.precommits.Store(s.publicKeyBytes(), sv)
			pc.add(0, blk)
		}
	}

	callsBefore := len(bs.finalCalls())
	fin, ferr := s.attemptToFinalize()
	calls := bs.finalCalls()[callsBefore:]
	finalisable := false
	for b := 0; b < tree.size(); b++ {
		if 3*pc.weight(b) > 2*n && tree.isAncestorOrEqual(c.head, b) && b != c.head {
			for _, g := range ghosts {
				if constrained && tree.isAncestorOrEqual(b, g) {
					finalisable = true
				}
			}
		}
	}
	if len(calls) == 0 {
		if fin {
			return fail("attemptToFinalize reported finalisation but the block state was not told")
		}
		if finalisable {
			label("finalisable-but-not-finalised")
		}
	} else {
		if len(calls) != 1 || calls[0].round != r || calls[0].setID != c.setID {
			return fail("unexpected SetFinalisedHash calls %v", calls)
		}
		x, known := tree.index[calls[0].hash]
		if !known {
			return fail("finalised an unknown block %s", calls[0].hash)
		}
		if 3*pc.weight(x) <= 2*n {
			return fail("finalised b%d which has %d of %d precommits (3W <= 2n)", x, pc.weight(x), n)
		}
		if constrained {
			ok := false
			for _, g := range ghosts {
				if tree.isAncestorOrEqual(x, g) {
					ok = true
				}
			}
			if !ok {
				return fail("finalised b%d which is not the prevote GHOST %v or one of its ancestors", x, ghosts)
			}
		}
		if ferr != nil || !fin {
			return fail("block state finalised b%d but attemptToFinalize returned (%v, %v)", x, fin, ferr)
		}
		label("finalised")
		res.finalised = x
	}
	return res, nil
}

func c21Gen(t *rapid.T) *c21Case {
	c := &c21Case{pendingAt: -1}
	c.n = rapid.SampledFrom([]int{1, 2, 3, 4, 4, 5, 5, 6, 7, 7}).Draw(t, "n")
	tree := vGenTree(t, 2, 10)
	c.parent = tree.parent
	if !rapid.Bool().Draw(t, "headGenesis") {
		c.head = rapid.IntRange(0, tree.size()-1).Draw(t, "head")
	}
	c.headRound = uint64(rapid.IntRange(0, 2).Draw(t, "headRound")) //nolint:gosec
	if c.head != 0 && c.headRound == 0 {
		c.headRound = 1
	}
	c.setID = rapid.SampledFrom([]uint64{0, 0, 3}).Draw(t, "setID")
	c21GenRound(t, tree, c)
	return c
}

// c21GenRound draws the round-specific part (best block, own votes, pending
// change, messages) for the round that follows c.headRound with finalised
// head c.head.
func c21GenRound(t *rapid.T, tree *vTree, c *c21Case) {
	r := c.r()
	others := c.others()
	sub := tree.subtree(c.head)
	// best block: a deepest descendant of the head
	var deepest []int
	for _, b := range sub {
		if len(deepest) == 0 || tree.number[b] > tree.number[deepest[0]] {
			deepest = []int{b}
		} else if tree.number[b] == tree.number[deepest[0]] {
			deepest = append(deepest, b)
		}
	}
	c.best = deepest[rapid.IntRange(0, len(deepest)-1).Draw(t, "best")]
	// where most votes go: either one branch head..main ("branch" mode) or the
	// subtrees of the children of a fork point main, with some votes on main's
	// ancestors ("fork" mode: the GHOST is then typically a block nobody voted
	// for directly, below a directly voted ancestor)
	children := func(b int) []int {
		var out []int
		for i := b + 1; i < tree.size(); i++ {
			if tree.parent[i] == b {
				out = append(out, i)
			}
		}
		return out
	}
	var forkPts []int
	for _, b := range sub {
		if len(children(b)) >= 2 {
			forkPts = append(forkPts, b)
		}
	}
	forkMode := len(forkPts) > 0 && rapid.Bool().Draw(t, "forkMode")
	var main int
	if forkMode {
		main = forkPts[rapid.IntRange(0, len(forkPts)-1).Draw(t, "forkPoint")]
	} else {
		main = sub[rapid.IntRange(0, len(sub)-1).Draw(t, "main")]
		if rapid.Bool().Draw(t, "mainDeep") {
			main = sub[len(sub)-1-rapid.IntRange(0, (len(sub)-1)/2).Draw(t, "mainFromEnd")]
		}
	}
	var path []int // head .. main
	for b := main; ; b = tree.parent[b] {
		path = append([]int{b}, path...)
		if b == c.head {
			break
		}
	}
	var notDesc []int
	for b := 0; b < tree.size(); b++ {
		if !tree.isAncestorOrEqual(c.head, b) {
			notDesc = append(notDesc, b)
		}
	}
	pickBlock := func() int {
		w := rapid.IntRange(0, 9).Draw(t, "where")
		if forkMode {
			switch {
			case w == 0:
				return sub[rapid.IntRange(0, len(sub)-1).Draw(t, "blk")]
			case w <= 2 && len(path) > 1:
				return path[rapid.IntRange(0, len(path)-2).Draw(t, "blk")] // strict ancestor of the fork point
			default:
				kids := children(main)
				kid := kids[rapid.IntRange(0, len(kids)-1).Draw(t, "kid")]
				if rapid.Bool().Draw(t, "kidItself") {
					return kid
				}
				st := tree.subtree(kid)
				return st[rapid.IntRange(0, len(st)-1).Draw(t, "blk")]
			}
		}
		switch {
		case w <= 2:
			return sub[rapid.IntRange(0, len(sub)-1).Draw(t, "blk")]
		case w <= 4:
			return main
		default:
			// upper part of the main branch
			lo := len(path) / 2
			return path[rapid.IntRange(lo, len(path)-1).Draw(t, "blk")]
		}
	}
	c.ownPrevote = -1
	if rapid.IntRange(0, 3).Draw(t, "ownPV") > 0 {
		c.ownPrevote = pickBlock()
	}
	c.ownPrecommit = rapid.IntRange(0, 3).Draw(t, "ownPC") > 0
	if rapid.Bool().Draw(t, "pending") {
		c.pendingAt = rapid.IntRange(0, tree.size()-1).Draw(t, "pendingAt")
		if rapid.IntRange(0, 3).Draw(t, "pendingOnMain") > 0 {
			c.pendingAt = tree.ancestorAt(main, uint(rapid.IntRange(0, int(tree.number[main])).Draw(t, "pendingNum"))) //nolint:gosec
		}
		c.pendingEff = tree.number[c.pendingAt] + uint(rapid.SampledFrom([]int{0, 0, 1, 1, 2}).Draw(t, "delay")) //nolint:gosec
	}

	garbage := func() [64]byte {
		var sg [64]byte
		copy(sg[:], rapid.SliceOfN(rapid.Byte(), 64, 64).Draw(t, "sig"))
		return sg
	}
	badKinds := []string{"garbageSig", "sigOtherVote", "sigOtherStage", "sigRound", "sigSet", "nonAuth", "unknownBlock", "wrongNumber", "wrongNumber",
		"notDescending", "notDescending", "msgRoundAhead", "msgRoundBehind", "msgSet"}
	if len(c.former) > 0 {
		// after an authority set change: correctly signed votes (current round and
		// set id) of keys that were authorities of an earlier set only
		badKinds = append(badKinds, "formerAuth", "formerAuth", "formerAuth", "formerAuth")
	}
	nm := rapid.IntRange(0, 2*c.n+4).Draw(t, "messages")
	if rapid.IntRange(0, 3).Draw(t, "manyMessages") > 0 {
		nm = c.n - 1 + rapid.IntRange(0, c.n+5).Draw(t, "extraMessages")
	}
	voted := map[Subround][]int{} // members that already have a valid vote per stage
	for i := 0; i < nm; i++ {
		m := c21Msg{stage: prevote, round: r, setID: c.setID}
		if rapid.IntRange(0, 2).Draw(t, "stage") == 0 {
			m.stage = precommit
		}
		m.kind = "valid"
		if c.n < 2 || rapid.IntRange(0, 7).Draw(t, "bad") < 2 {
			m.kind = rapid.SampledFrom(badKinds).Draw(t, "kind")
		} else if len(voted[m.stage]) > 0 && rapid.IntRange(0, 5).Draw(t, "equivocate") == 0 {
			m.kind = "valid-again"
		}
		if c.n >= 2 {
			m.key = others[rapid.IntRange(1, c.n-1).Draw(t, "signer")-1]
		} else {
			m.key = 100
			if m.kind != "nonAuth" {
				m.kind = "nonAuth"
			}
		}
		if m.kind == "valid-again" {
			m.key = voted[m.stage][rapid.IntRange(0, len(voted[m.stage])-1).Draw(t, "again")]
		}
		m.vote = tree.vote(pickBlock())
		signed := m // what is actually signed
		switch m.kind {
		case "valid", "valid-again":
			voted[m.stage] = append(voted[m.stage], m.key)
		case "garbageSig":
		case "sigOtherVote":
			if rapid.Bool().Draw(t, "otherNumber") {
				signed.vote.Number++
			} else {
				signed.vote = tree.vote(rapid.IntRange(0, tree.size()-1).Draw(t, "otherBlk"))
				if signed.vote == m.vote {
					signed.vote.Number += 3
				}
			}
		case "sigOtherStage":
			signed.stage = 1 - m.stage
		case "sigRound":
			signed.round = r + 1
		case "sigSet":
			signed.setID = c.setID + 1
		case "nonAuth":
			m.key = 100 + rapid.IntRange(0, 2).Draw(t, "outsider")
			signed.key = m.key
		case "formerAuth":
			m.key = c.former[rapid.IntRange(0, len(c.former)-1).Draw(t, "formerSigner")]
			signed.key = m.key
		case "unknownBlock":
			m.vote.Hash = common.Hash{0xee, byte(i)}
			signed.vote = m.vote
		case "wrongNumber":
			if m.vote.Number > 0 && rapid.Bool().Draw(t, "lower") {
				m.vote.Number--
			} else {
				m.vote.Number++
			}
			signed.vote = m.vote
		case "notDescending":
			if len(notDesc) == 0 {
				m.kind = "garbageSig"
			} else {
				m.vote = tree.vote(notDesc[rapid.IntRange(0, len(notDesc)-1).Draw(t, "blk")])
				signed.vote = m.vote
			}
		case "msgRoundAhead":
			m.round = r + 1
			signed.round = m.round
		case "msgRoundBehind":
			m.round = r - 1
			signed.round = m.round
		case "msgSet":
			m.setID = c.setID + 1
			signed.setID = m.setID
		}
		if m.kind == "garbageSig" {
			m.sig = garbage()
		} else {
			m.sig = vSignVote(signed.key, signed.stage, signed.vote, signed.round, signed.setID)
		}
		c.msgs = append(c.msgs, m)
	}
}

func TestC21Round(t *testing.T) {
	defer kit.Flush()
	kit.Note("rule", c21Rule)
	rapid.Check(t, func(t *rapid.T) {
		c := c21Gen(t)
		res, tree, err := c21Eval(c)
		if err != nil {
			t.Fatalf("harness: %v", err)
		}
		descr := c21Describe(c, tree)
		if res.violation != "" {
			t.Fatalf("%s\ncase: %s", res.violation, descr)
		}
		labels := append([]string{fmt.Sprintf("n=%d", c.n)}, res.labels...)
		seen := map[string]bool{}
		for _, m := range c.msgs {
			if !seen[m.kind] {
				seen[m.kind] = true
				labels = append(labels, "msg:"+m.kind)
			}
		}
		if c.pendingAt >= 0 {
			labels = append(labels, "pending-change")
		}
		nontrivial := res.smNonEmpty && !res.ghostIsHead && (res.invalidSeen || res.equivSeen)
		kit.Case(descr, nontrivial, labels...)
	})
}

// c21Valid builds a correctly signed message of authority key for block blk
// in round headRound+1.
func c21Valid(c *c21Case, tree *vTree, kind string, key int, stage Subround, v Vote) c21Msg {
	r := c.r()
	return c21Msg{kind: kind, key: key, stage: stage, vote: v, round: r, setID: c.setID,
		sig: vSignVote(key, stage, v, r, c.setID)}
}

// TestC21Regressions: shrunk failures of TestC21Round on the pinned tree
// (repaired by the fixes/ of this check), kept as deterministic cases.
func TestC21Regressions(t *testing.T) {
	defer kit.Flush()
	cases := map[string]func() *c21Case{
		// validateVote did not compare the vote's number with the block's number
		"wrong-number-accepted": func() *c21Case {
			c := &c21Case{n: 2, parent: []int{-1, 0}, best: 1, ownPrevote: -1, pendingAt: -1}
			tree := newVTree(c.parent)
			v := tree.vote(0)
			c.msgs = append(c.msgs, c21Valid(c, tree, "valid", 1, precommit, v))
			v.Number = 1
			c.msgs = append(c.msgs, c21Valid(c, tree, "wrongNumber", 1, precommit, v))
			return c
		},
		// b1 is voted directly and has 4/4, b2 (child of b1) has 3/4 through the votes on its children b3, b4
		"ghost-above-directly-voted-ancestor": func() *c21Case {
			c := &c21Case{n: 4, parent: []int{-1, 0, 1, 2, 2}, best: 3, ownPrevote: 1, pendingAt: -1}
			tree := newVTree(c.parent)
			c.msgs = append(c.msgs,
				c21Valid(c, tree, "valid", 1, prevote, tree.vote(3)),
				c21Valid(c, tree, "valid", 2, prevote, tree.vote(4)),
				c21Valid(c, tree, "valid", 3, prevote, tree.vote(3)))
			return c
		},
		// GHOST b5 is not on the best chain (best = b3); change announced in b1 with effective number 2:
		// the precommit must be capped to b4 (ancestor of b5), not to b2 (number 2 on the best chain)
		"cap-on-ghost-chain": func() *c21Case {
			c := &c21Case{n: 3, parent: []int{-1, 0, 1, 2, 1, 4}, best: 3, ownPrevote: 5, pendingAt: 1, pendingEff: 2}
			tree := newVTree(c.parent)
			c.msgs = append(c.msgs,
				c21Valid(c, tree, "valid", 1, prevote, tree.vote(5)),
				c21Valid(c, tree, "valid", 2, prevote, tree.vote(5)))
			return c
		},
	}
	for name, mk := range cases {
		c := mk()
		res, tree, err := c21Eval(c)
		if err != nil {
			t.Fatalf("%s: harness: %v", name, err)
		}
		if res.violation != "" {
			t.Errorf("%s: %s\ncase: %s", name, res.violation, c21Describe(c, tree))
		}
		t.Logf("%s: labels %v", name, res.labels)
	}
}

// ---------------------------------------------------------------------------
// several consecutive rounds on the same Service

const c21MultiRule = "2-3 consecutive synchronous rounds on ONE Service (initiateRound between rounds exactly as finalisationHandler.run; a round the service did not finalise itself is closed " +
	"by a harness 'commit' = SetFinalisedHash on the block state, as a received commit message would do): 3-7 authorities, tree of 4-12 blocks; every round has its own generated votes signed for that round; " +
	"earlier rounds get extra prevote- and precommit-stage equivocators, later rounds are mostly 'tight': exactly floor(2n/3) or floor(2n/3)+1 genuine prevotes and precommits on one block, " +
	"preferably cast by authorities that equivocated in the round before, plus verbatim replays of the previous round's messages; per round the TestC21Round oracle over the votes of that round only, " +
	"and the first valid vote of an authority in a stage of a round must be accepted and recorded. " +
	"In about a third of the cases the authority set changes between two rounds (grandpa state publishes set id+1: same keys / smaller / larger / overlapping / all others replaced, applied by the next initiateRound -> updateAuthorities, " +
	"round numbering restarts at 1); afterwards continuing, newly added and FORMER authorities vote, correctly signed for the new round and set id; validity, acceptance and thresholds are judged against the current set. " +
	"Non-trivial = an authority equivocated in an earlier round and a later round had a block with >2/3 prevotes, or the set changed after a delivered vote and a former or new authority voted afterwards; distinct by the per-round descriptions"

// c21Deepest returns the deepest blocks of the subtree of head.
func c21Deepest(tree *vTree, head int) []int {
	var deepest []int
	for _, b := range tree.subtree(head) {
		if len(deepest) == 0 || tree.number[b] > tree.number[deepest[0]] {
			deepest = []int{b}
		} else if tree.number[b] == tree.number[deepest[0]] {
			deepest = append(deepest, b)
		}
	}
	return deepest
}

// c21GenTight draws a round in which the genuine votes sit at the
// supermajority boundary: k in {need-1, need} (rarely need+1) authorities
// prevote, and k' precommit, for one block B (or a descendant), need =
// floor(2n/3)+1. Authorities that equivocated in the previous round (prevPV,
// prevPC) are preferred as voters. Some messages of the previous round are
// replayed verbatim (they carry the old round and must be rejected).
func c21GenTight(t *rapid.T, tree *vTree, c *c21Case, prevPV, prevPC []int, prev []c21Msg) (kpv, kpc int) {
	sub := tree.subtree(c.head)
	deepest := c21Deepest(tree, c.head)
	c.best = deepest[rapid.IntRange(0, len(deepest)-1).Draw(t, "best")]
	c.ownPrevote = -1
	b := c.head
	if len(sub) > 1 {
		b = sub[rapid.IntRange(1, len(sub)-1).Draw(t, "tightBlock")]
	}
	subB := tree.subtree(b)
	need := 2*c.n/3 + 1
	var msgs []c21Msg
	for _, stage := range []Subround{prevote, precommit} {
		k := need - 1 + rapid.IntRange(0, 1).Draw(t, "atNeed")
		if rapid.IntRange(0, 7).Draw(t, "aboveNeed") == 0 {
			k = need + 1
		}
		if k > c.n {
			k = c.n
		}
		if stage == prevote {
			kpv = k
		} else {
			kpc = k
		}
		others := k
		if rapid.IntRange(0, 2).Draw(t, "self") > 0 {
			others--
			if stage == prevote {
				c.ownPrevote = b
			} else {
				c.ownPrecommit = true
			}
		}
		// voter order: equivocators of the previous round first (3/4), then the rest in a drawn order
		var first, rest []int
		pref := prevPV
		if stage == precommit {
			pref = prevPC
		}
		if rapid.IntRange(0, 3).Draw(t, "preferOldEquivocators") == 0 {
			pref = nil
		}
		isPref := map[int]bool{}
		for _, k := range pref {
			if k != 0 && c.isAuth(k) {
				isPref[k] = true
				first = append(first, k)
			}
		}
		for _, k := range c.others() {
			if !isPref[k] {
				rest = append(rest, k)
			}
		}
		if len(rest) > 1 {
			rest = rapid.Permutation(rest).Draw(t, "voters")
		}
		voters := append(first, rest...)
		if others > len(voters) {
			others = len(voters)
		}
		for _, key := range voters[:others] {
			blk := b
			if rapid.IntRange(0, 3).Draw(t, "onDescendant") == 0 {
				blk = subB[rapid.IntRange(0, len(subB)-1).Draw(t, "blk")]
			}
			msgs = append(msgs, c21Valid(c, tree, "valid", key, stage, tree.vote(blk)))
		}
		// sometimes one more authority votes validly elsewhere (ancestor of B or another fork)
		if others < len(voters) && rapid.IntRange(0, 2).Draw(t, "elsewhere") == 0 {
			var off []int
			for _, x := range sub {
				if !tree.isAncestorOrEqual(b, x) {
					off = append(off, x)
				}
			}
			if len(off) > 0 {
				msgs = append(msgs, c21Valid(c, tree, "valid-elsewhere", voters[others], stage, tree.vote(off[rapid.IntRange(0, len(off)-1).Draw(t, "blk")])))
			}
		}
	}
	// verbatim replays of the previous round (old round number in message and signature)
	if len(prev) > 0 {
		nrep := rapid.IntRange(0, 2).Draw(t, "replays")
		for i := 0; i < nrep; i++ {
			m := prev[rapid.IntRange(0, len(prev)-1).Draw(t, "replayOf")]
			m.kind = "replayPrev"
			msgs = append(msgs, m)
		}
	}
	if len(msgs) > 1 {
		msgs = rapid.Permutation(msgs).Draw(t, "order")
	}
	c.msgs = msgs
	return kpv, kpc
}

// c21AddEquivocations appends count equivocations (two valid votes of one
// authority for different blocks in one stage) at drawn positions.
func c21AddEquivocations(t *rapid.T, tree *vTree, c *c21Case, count int) {
	sub := tree.subtree(c.head)
	if len(sub) < 2 || c.n < 2 {
		return
	}
	for i := 0; i < count; i++ {
		stage := prevote
		if rapid.IntRange(0, 2).Draw(t, "eqStage") > 0 {
			stage = precommit
		}
		key := c.others()[rapid.IntRange(1, c.n-1).Draw(t, "eqSigner")-1]
		b1 := sub[rapid.IntRange(0, len(sub)-1).Draw(t, "eqBlk1")]
		b2 := sub[rapid.IntRange(0, len(sub)-1).Draw(t, "eqBlk2")]
		if b1 == b2 {
			b2 = sub[(rapid.IntRange(0, len(sub)-2).Draw(t, "eqShift")+1+indexOf(sub, b1))%len(sub)]
		}
		for _, b := range []int{b1, b2} {
			m := c21Valid(c, tree, "valid-equivocating", key, stage, tree.vote(b))
			pos := rapid.IntRange(0, len(c.msgs)).Draw(t, "eqPos")
			c.msgs = append(c.msgs[:pos], append([]c21Msg{m}, c.msgs[pos:]...)...)
		}
	}
}

// c21AddFormerVotes appends count votes of former authorities (keys of an
// earlier authority set of this Service that are not in the current one),
// correctly signed for the current round and set id, mostly for a block that a
// current authority votes for in this round (so that they would tip the
// tallies if they were counted).
func c21AddFormerVotes(t *rapid.T, tree *vTree, c *c21Case, count int) {
	if len(c.former) == 0 {
		return
	}
	sub := tree.subtree(c.head)
	for i := 0; i < count; i++ {
		stage := prevote
		if rapid.Bool().Draw(t, "formerStage") {
			stage = precommit
		}
		key := c.former[rapid.IntRange(0, len(c.former)-1).Draw(t, "formerSigner")]
		v := tree.vote(sub[rapid.IntRange(0, len(sub)-1).Draw(t, "formerBlk")])
		if len(c.msgs) > 0 && rapid.IntRange(0, 3).Draw(t, "formerOnVotedBlock") > 0 {
			v = c.msgs[rapid.IntRange(0, len(c.msgs)-1).Draw(t, "formerLike")].vote
		}
		m := c21Valid(c, tree, "formerAuth", key, stage, v)
		pos := rapid.IntRange(0, len(c.msgs)).Draw(t, "formerPos")
		c.msgs = append(c.msgs[:pos], append([]c21Msg{m}, c.msgs[pos:]...)...)
	}
}

// c21NewSet draws the authority set that replaces cur (key numbers, the
// service = key 0 stays a member): same keys under a new set id, a smaller
// set, a larger set, an overlapping set, or a set of new keys only; pool =
// keys of earlier sets that are not in cur (may be re-admitted), *fresh = next
// unused key number. 2..7 members, order optionally permuted.
func c21NewSet(t *rapid.T, cur, pool []int, fresh *int) (keys []int, mode string) {
	var oth []int
	for _, k := range cur {
		if k != 0 {
			oth = append(oth, k)
		}
	}
	add := func(cnt int) {
		for i := 0; i < cnt && len(keys) < 7; i++ {
			if len(pool) > 0 && rapid.IntRange(0, 3).Draw(t, "readmit") == 0 {
				j := rapid.IntRange(0, len(pool)-1).Draw(t, "readmitKey")
				keys = append(keys, pool[j])
				pool = append(append([]int{}, pool[:j]...), pool[j+1:]...)
				continue
			}
			keys = append(keys, *fresh)
			*fresh++
		}
	}
	keep := func(cnt int) {
		p := oth
		if len(p) > 1 {
			p = rapid.Permutation(oth).Draw(t, "kept")
		}
		kept := append([]int{}, p[:cnt]...)
		sort.Ints(kept)
		keys = append(keys, kept...)
	}
	mode = rapid.SampledFrom([]string{"same", "smaller", "smaller", "larger", "larger", "overlapping", "overlapping", "overlapping", "disjoint", "disjoint"}).Draw(t, "setMode")
	if mode == "smaller" && len(oth) < 2 {
		mode = "overlapping"
	}
	if mode == "larger" && len(cur) >= 7 {
		mode = "overlapping"
	}
	keys = []int{0}
	switch mode {
	case "same":
		keys = append(keys, oth...)
	case "smaller":
		keep(rapid.IntRange(1, len(oth)-1).Draw(t, "keep"))
	case "larger":
		keys = append(keys, oth...)
		add(rapid.IntRange(1, 3).Draw(t, "added"))
	case "overlapping":
		cnt := 1
		if len(oth) >= 2 {
			cnt = rapid.IntRange(1, len(oth)-1).Draw(t, "keep")
		}
		keep(cnt)
		add(rapid.IntRange(1, 3).Draw(t, "added"))
	case "disjoint":
		add(rapid.IntRange(1, 6).Draw(t, "added"))
	}
	if len(keys) > 2 && rapid.Bool().Draw(t, "permuteSet") {
		keys = rapid.Permutation(keys).Draw(t, "setOrder")
	}
	return keys, mode
}

func c21Sign(x int) int {
	switch {
	case x < 0:
		return -1
	case x > 0:
		return 1
	}
	return 0
}

func c21Contains(list []int, x int) bool {
	for _, v := range list {
		if v == x {
			return true
		}
	}
	return false
}

// c21Minus returns the members of a that are not in b.
func c21Minus(a, b []int) []int {
	var out []int
	for _, x := range a {
		in := false
		for _, y := range b {
			if x == y {
				in = true
			}
		}
		if !in {
			out = append(out, x)
		}
	}
	return out
}

func indexOf(list []int, x int) int {
	for i, v := range list {
		if v == x {
			return i
		}
	}
	return 0
}

// c21CloseRound makes sure the block state has a finalised block for round r
// before the next initiateRound, as checkRoundCompletable requires in
// finalisation.go: if the service did not finalise itself, a commit received
// from the network is modelled by SetFinalisedHash(blk, r, setID).
func c21CloseRound(env *vEnv, tree *vTree, r, setID uint64, blk int) error {
	has, _ := env.bs.HasFinalisedBlock(r, setID)
	if has {
		return nil
	}
	return env.bs.SetFinalisedHash(tree.hashes[blk], r, setID)
}

func TestC21MultiRound(t *testing.T) {
	defer kit.Flush()
	kit.Note("rule-multiround", c21MultiRule)
	rapid.Check(t, func(t *rapid.T) {
		n := rapid.SampledFrom([]int{3, 3, 4, 5, 6, 6, 7}).Draw(t, "n")
		tree := vGenTree(t, 4, 12)
		c0 := &c21Case{n: n, parent: tree.parent, pendingAt: -1, best: tree.size() - 1}
		if rapid.IntRange(0, 3).Draw(t, "headNotGenesis") == 0 {
			c0.head = rapid.IntRange(0, tree.size()/2).Draw(t, "head")
		}
		if c0.head != 0 {
			c0.headRound = 1
		}
		c0.setID = rapid.SampledFrom([]uint64{0, 0, 3}).Draw(t, "setID")
		rounds := rapid.IntRange(2, 3).Draw(t, "rounds")
		env, _, err := c21Setup(c0)
		if err != nil {
			t.Fatalf("harness: %v", err)
		}
		var descr strings.Builder
		labels := []string{fmt.Sprintf("n=%d", n), fmt.Sprintf("rounds=%d", rounds)}
		var prevPV, prevPC []int
		var prevMsgs []c21Msg
		everEquiv := map[int]bool{}
		earlierEquivocator, laterSupermajority, oldEquivocatorVotesLater := false, false, false
		// authority set history of this Service: current key numbers (nil = the
		// initial 0..n-1), current set id, keys of earlier sets not in the current
		// one, next unused key number
		var curKeys, formerKeys, newcomers []int
		initial := make([]int, n)
		for i := range initial {
			initial[i] = i
		}
		setID := c0.setID
		fresh := 10
		votesBeforeChange, changed, changedVoteClasses := 0, false, 0
		delivered := 0
		for k := 0; k < rounds; k++ {
			newSetRound := false
			if k > 0 && rapid.IntRange(0, 3).Draw(t, "setChange") == 0 {
				// an authority set change becomes visible in the grandpa state between two
				// rounds; the next initiateRound applies it (updateAuthorities): new set
				// id, round numbering restarts at 1, the finalised head stays
				cur := curKeys
				if cur == nil {
					cur = initial
				}
				next, mode := c21NewSet(t, cur, formerKeys, &fresh)
				formerKeys = append(c21Minus(formerKeys, next), c21Minus(cur, next)...)
				newcomers = c21Minus(next, cur)
				sort.Ints(formerKeys)
				curKeys = next
				setID++
				env.gs.changeSet(setID, vVoters(curKeys))
				newSetRound = true
				if !changed {
					votesBeforeChange = delivered
				}
				changed = true
				fmt.Fprintf(&descr, "(set change -> set %d keys %v) ", setID, curKeys)
				labels = append(labels, "set-change", "set-change:"+mode, fmt.Sprintf("set-change-before-r%d", k+1), "set-change:size"+[]string{"-down", "-equal", "-up"}[c21Sign(len(next)-len(cur))+1])
			}
			rc := &c21Case{n: n, parent: tree.parent, setID: setID, pendingAt: -1, ownPrevote: -1}
			if curKeys != nil {
				rc.keys, rc.former, rc.n = curKeys, formerKeys, len(curKeys)
			}
			env.bs.mu.Lock()
			rc.head, rc.headRound = env.bs.finalHead, env.bs.highRound
			env.bs.mu.Unlock()
			if newSetRound {
				rc.round = 1
			}
			r := rc.r()
			tight := false
			if k == 0 {
				tight = rapid.IntRange(0, 4).Draw(t, "tightFirst") == 0
			} else {
				tight = rapid.IntRange(0, 3).Draw(t, "tight") > 0
			}
			if tight {
				kpv, kpc := c21GenTight(t, tree, rc, prevPV, prevPC, prevMsgs)
				need := 2*rc.n/3 + 1
				labels = append(labels, fmt.Sprintf("tight-r%d-pv=need%+d", k+1, kpv-need), fmt.Sprintf("tight-r%d-pc=need%+d", k+1, kpc-need))
			} else {
				c21GenRound(t, tree, rc)
			}
			neq := 0
			if k < rounds-1 {
				neq = rapid.IntRange(0, 2).Draw(t, "equivocations")
			} else if rapid.IntRange(0, 3).Draw(t, "lateEquivocation") == 0 {
				neq = 1
			}
			c21AddEquivocations(t, tree, rc, neq)
			if len(rc.former) > 0 {
				c21AddFormerVotes(t, tree, rc, rapid.IntRange(0, 3).Draw(t, "formerVotes"))
			}
			fmt.Fprintf(&descr, "[round %d] %s ", r, c21Describe(rc, tree))
			res, err := c21RunRound(env, tree, rc)
			if err != nil {
				t.Fatalf("harness: %v\ncase: %s", err, descr.String())
			}
			if res.violation != "" {
				t.Fatalf("round %d (%d. of the case): %s\ncase: %s", r, k+1, res.violation, descr.String())
			}
			delivered += len(rc.msgs)
			if changed {
				// who voted (correctly signed for this round and set) after the change
				classes := map[string]bool{}
				for _, m := range rc.msgs {
					if m.round != r || m.setID != setID || m.kind == "garbageSig" || strings.HasPrefix(m.kind, "sig") {
						continue
					}
					switch {
					case c21Contains(rc.former, m.key):
						classes["former-authority-vote"] = true
					case c21Contains(newcomers, m.key):
						classes["new-authority-vote"] = true
					case rc.isAuth(m.key):
						classes["continuing-authority-vote"] = true
					}
				}
				for cl := range classes {
					labels = append(labels, "after-change:"+cl)
					if cl != "continuing-authority-vote" {
						changedVoteClasses++
					}
				}
				for _, l := range res.labels {
					if l == "finalised" || l == "prevote-supermajority" {
						labels = append(labels, "after-change:"+l)
					}
				}
			}
			if k > 0 && len(everEquiv) > 0 {
				earlierEquivocator = true
				if res.smNonEmpty {
					laterSupermajority = true
				}
				for _, m := range rc.msgs {
					if strings.HasPrefix(m.kind, "valid") && everEquiv[m.key] {
						oldEquivocatorVotesLater = true
					}
				}
			}
			for _, l := range res.labels {
				if l == "finalised" || l == "prevote-supermajority" || l == "finalisable-but-not-finalised" {
					labels = append(labels, fmt.Sprintf("r%d-%s", k+1, l))
				}
			}
			for _, key := range append(append([]int{}, res.pvEquiv...), res.pcEquiv...) {
				everEquiv[key] = true
			}
			if len(res.pvEquiv) > 0 {
				labels = append(labels, fmt.Sprintf("r%d-prevote-equivocator", k+1))
			}
			if len(res.pcEquiv) > 0 {
				labels = append(labels, fmt.Sprintf("r%d-precommit-equivocator", k+1))
			}
			prevPV, prevPC, prevMsgs = res.pvEquiv, res.pcEquiv, rc.msgs
			// close the round for the block state before the next initiateRound
			if res.finalised < 0 {
				sub := tree.subtree(rc.head)
				blk := rc.head
				if rapid.Bool().Draw(t, "commitAdvances") {
					blk = sub[rapid.IntRange(0, len(sub)-1).Draw(t, "commitBlock")]
				}
				fmt.Fprintf(&descr, "(commit b%d) ", blk)
				if err := c21CloseRound(env, tree, r, rc.setID, blk); err != nil {
					t.Fatalf("harness: closing round: %v", err)
				}
				labels = append(labels, "round-closed-by-commit")
			}
		}
		if oldEquivocatorVotesLater {
			labels = append(labels, "earlier-equivocator-votes-in-later-round")
		}
		setChangeExercised := changed && votesBeforeChange > 0 && changedVoteClasses > 0
		if setChangeExercised {
			labels = append(labels, "set-change-exercised")
		}
		seenLabel := map[string]bool{}
		uniq := labels[:0]
		for _, l := range labels {
			if !seenLabel[l] {
				seenLabel[l] = true
				uniq = append(uniq, l)
			}
		}
		kit.Case(descr.String(), (earlierEquivocator && laterSupermajority) || setChangeExercised, uniq...)
	})
}

// TestC21MultiRoundRegressions: deterministic two-round scenarios for state
// that must not leak from one round into the next.
func TestC21MultiRoundRegressions(t *testing.T) {
	defer kit.Flush()
	// chain genesis <- b1 <- b2, fork b3 (child of b1); 3 authorities
	parent := []int{-1, 0, 1, 1}
	tree := newVTree(parent)
	type scenario struct {
		r1, r2 func(c *c21Case)
	}
	scenarios := map[string]scenario{
		// authority 1 equivocates in the precommit stage of round 1; in round 2 only 2 of 3 precommit b2
		"stale-precommit-equivocator": {
			r1: func(c *c21Case) {
				c.msgs = append(c.msgs, c21Valid(c, tree, "valid-equivocating", 1, precommit, tree.vote(2)),
					c21Valid(c, tree, "valid-equivocating", 1, precommit, tree.vote(3)))
			},
			r2: func(c *c21Case) {
				c.ownPrevote, c.ownPrecommit = 2, true
				c.msgs = append(c.msgs, c21Valid(c, tree, "valid", 1, prevote, tree.vote(2)), c21Valid(c, tree, "valid", 2, prevote, tree.vote(2)),
					c21Valid(c, tree, "valid", 2, precommit, tree.vote(2)))
			},
		},
		// ... and the former equivocator's genuine votes of round 2 must be accepted
		"former-equivocator-votes-again": {
			r1: func(c *c21Case) {
				c.msgs = append(c.msgs, c21Valid(c, tree, "valid-equivocating", 1, precommit, tree.vote(2)),
					c21Valid(c, tree, "valid-equivocating", 1, precommit, tree.vote(3)),
					c21Valid(c, tree, "valid-equivocating", 2, prevote, tree.vote(2)),
					c21Valid(c, tree, "valid-equivocating", 2, prevote, tree.vote(1)))
			},
			r2: func(c *c21Case) {
				c.ownPrevote, c.ownPrecommit = 2, true
				c.msgs = append(c.msgs, c21Valid(c, tree, "valid", 2, prevote, tree.vote(2)), c21Valid(c, tree, "valid", 1, prevote, tree.vote(2)),
					c21Valid(c, tree, "valid", 1, precommit, tree.vote(2)), c21Valid(c, tree, "valid", 2, precommit, tree.vote(2)))
			},
		},
		// votes of round 1 (prevotes and precommits on b3) must not count in round 2
		"stale-votes": {
			r1: func(c *c21Case) {
				c.msgs = append(c.msgs, c21Valid(c, tree, "valid", 1, prevote, tree.vote(3)), c21Valid(c, tree, "valid", 2, prevote, tree.vote(3)),
					c21Valid(c, tree, "valid", 1, precommit, tree.vote(3)))
			},
			r2: func(c *c21Case) {
				c.ownPrevote, c.ownPrecommit = 2, true
				c.msgs = append(c.msgs, c21Valid(c, tree, "valid", 1, prevote, tree.vote(2)), c21Valid(c, tree, "valid", 1, precommit, tree.vote(2)))
			},
		},
	}
	for name, sc := range scenarios {
		c0 := &c21Case{n: 3, parent: parent, best: 2, pendingAt: -1, ownPrevote: -1}
		env, _, err := c21Setup(c0)
		if err != nil {
			t.Fatalf("%s: harness: %v", name, err)
		}
		for k, fill := range []func(c *c21Case){sc.r1, sc.r2} {
			rc := &c21Case{n: 3, parent: parent, best: 2, pendingAt: -1, ownPrevote: -1, head: env.bs.finalHead, headRound: env.bs.highRound}
			fill(rc)
			res, err := c21RunRound(env, tree, rc)
			if err != nil {
				t.Fatalf("%s: harness: %v", name, err)
			}
			if res.violation != "" {
				t.Errorf("%s: round %d: %s\ncase: %s", name, k+1, res.violation, c21Describe(rc, tree))
				break
			}
			t.Logf("%s: round %d labels %v finalised b%d", name, k+1, res.labels, res.finalised)
			if err := c21CloseRound(env, tree, rc.headRound+1, 0, rc.head); err != nil {
				t.Fatalf("%s: harness: %v", name, err)
			}
		}
	}
}

// TestC21SetChangeRegressions: deterministic histories on ONE Service across an
// authority set change (grandpa state publishes set id+1, the next
// initiateRound applies it through updateAuthorities). Votes are validated
// under the old set first; under the new set correctly signed votes (new set
// id, round 1) of FORMER authorities must be rejected and never counted, votes
// of NEW authorities must be accepted, thresholds are those of the new set.
func TestC21SetChangeRegressions(t *testing.T) {
	defer kit.Flush()
	// chain genesis <- b1 <- b2, fork b3 (child of b1)
	parent := []int{-1, 0, 1, 1}
	tree := newVTree(parent)
	type scenario struct {
		newKeys []int
		r2      func(c *c21Case)
		// expectations on top of the generic oracle
		wantFinalised int // block that must NOT be exceeded: -1 = nothing may be finalised, -2 = unconstrained
	}
	vote2 := func(c *c21Case, kind string, key int) {
		c.msgs = append(c.msgs, c21Valid(c, tree, kind, key, prevote, tree.vote(2)), c21Valid(c, tree, kind, key, precommit, tree.vote(2)))
	}
	scenarios := map[string]scenario{
		// all other authorities replaced: the two former authorities vote b2 in both stages, only the service is genuine (1 of 3)
		"disjoint-former-authorities-vote": {newKeys: []int{0, 10, 11}, wantFinalised: -1, r2: func(c *c21Case) {
			c.ownPrevote, c.ownPrecommit = 2, true
			vote2(c, "formerAuth", 1)
			vote2(c, "formerAuth", 2)
		}},
		// one authority replaced: the newcomer's votes must be accepted (3 of 3 with them), the former one's rejected
		"overlapping-new-authority-votes": {newKeys: []int{10, 0, 1}, wantFinalised: -2, r2: func(c *c21Case) {
			c.ownPrevote, c.ownPrecommit = 2, true
			vote2(c, "formerAuth", 2)
			vote2(c, "valid", 10)
			vote2(c, "valid", 1)
		}},
		// smaller set {0,1}: need 2 of 2; former authority 2 and the service are not enough
		"smaller-set-threshold": {newKeys: []int{0, 1}, wantFinalised: -1, r2: func(c *c21Case) {
			c.ownPrevote, c.ownPrecommit = 2, true
			vote2(c, "formerAuth", 2)
		}},
		// larger set {0,1,2,10,11}: need 4 of 5; the newcomers' prevotes (b3) make b1 the GHOST (5 of 5), the three
		// precommits of the old authorities (own b1, b2, b2) are not enough to finalise
		"larger-set-threshold": {newKeys: []int{0, 1, 2, 10, 11}, wantFinalised: -1, r2: func(c *c21Case) {
			c.ownPrevote, c.ownPrecommit = 2, true
			vote2(c, "valid", 1)
			vote2(c, "valid", 2)
			c.msgs = append(c.msgs, c21Valid(c, tree, "valid", 10, prevote, tree.vote(3)), c21Valid(c, tree, "valid", 11, prevote, tree.vote(3)))
		}},
	}
	for name, sc := range scenarios {
		c0 := &c21Case{n: 3, parent: parent, best: 2, pendingAt: -1, ownPrevote: -1}
		env, _, err := c21Setup(c0)
		if err != nil {
			t.Fatalf("%s: harness: %v", name, err)
		}
		// round 1 of set 0: authorities 1 and 2 vote (validated under the old set), nothing is finalised by the service
		r1 := &c21Case{n: 3, parent: parent, best: 2, pendingAt: -1, ownPrevote: -1}
		r1.msgs = append(r1.msgs, c21Valid(r1, tree, "valid", 1, prevote, tree.vote(2)), c21Valid(r1, tree, "valid", 2, prevote, tree.vote(3)),
			c21Valid(r1, tree, "valid", 2, precommit, tree.vote(1)))
		res, err := c21RunRound(env, tree, r1)
		if err != nil {
			t.Fatalf("%s: harness: %v", name, err)
		}
		if res.violation != "" {
			t.Errorf("%s: round 1 of set 0: %s\ncase: %s", name, res.violation, c21Describe(r1, tree))
			continue
		}
		if err := c21CloseRound(env, tree, 1, 0, 0); err != nil {
			t.Fatalf("%s: harness: %v", name, err)
		}
		env.gs.changeSet(1, vVoters(sc.newKeys))
		r2 := &c21Case{n: len(sc.newKeys), keys: sc.newKeys, former: c21Minus([]int{0, 1, 2}, sc.newKeys), round: 1, setID: 1,
			parent: parent, best: 2, pendingAt: -1, ownPrevote: -1, head: env.bs.finalHead, headRound: env.bs.highRound}
		sc.r2(r2)
		res, err = c21RunRound(env, tree, r2)
		if err != nil {
			t.Fatalf("%s: harness: %v", name, err)
		}
		if res.violation != "" {
			t.Errorf("%s: round 1 of set 1: %s\ncase: %s", name, res.violation, c21Describe(r2, tree))
			continue
		}
		if sc.wantFinalised == -1 && res.finalised >= 0 {
			t.Errorf("%s: finalised b%d although the current authorities' precommits are not enough", name, res.finalised)
		}
		t.Logf("%s: labels %v finalised b%d", name, res.labels, res.finalised)
	}
}
