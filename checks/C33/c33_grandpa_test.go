package grandpa

// C33 - GRANDPA network decoders (decodeMessage for every message kind, the
// handshake) withstand arbitrary peer input. Injected into lib/grandpa.

import (
	"fmt"
	"testing"
	"time"

	"github.com/ChainSafe/gossamer/dot/network"
	"github.com/ChainSafe/gossamer/internal/verifchk/c33h"
	kit "github.com/ChainSafe/gossamer/internal/verifkit"
	"github.com/ChainSafe/gossamer/lib/common"
	"pgregory.net/rapid"
)

const c33GrandpaRule = "GRANDPA: generated vote / commit / neighbour / catch-up request / catch-up response messages and handshakes, encoded through ToConsensusMessage, " +
	"then the same input variants and oracle as the dot/network unit (see check.json rule); decodeMessage is called exactly as handleNetworkMessage does (inputs of < 2 bytes are dropped before decoding there, they are fed anyway)"

func c33gHash(t *rapid.T, label string) common.Hash {
	var h common.Hash
	switch rapid.IntRange(0, 2).Draw(t, label+"-kind") {
	case 0:
	case 1:
		for i := range h {
			h[i] = 0xff
		}
	default:
		copy(h[:], rapid.SliceOfN(rapid.Byte(), 32, 32).Draw(t, label))
	}
	return h
}

func c33gU64(t *rapid.T, label string) uint64 {
	if rapid.Bool().Draw(t, label+"-b") {
		return rapid.SampledFrom([]uint64{0, 1, 63, 64, 1<<32 - 1, 1 << 32, 1<<64 - 1}).Draw(t, label)
	}
	return rapid.Uint64().Draw(t, label)
}

func c33gSig(t *rapid.T) (sig [64]byte, id [32]byte) {
	s := rapid.Byte().Draw(t, "sigseed")
	for i := range sig {
		sig[i] = s + byte(i)
	}
	for i := range id {
		id[i] = s ^ byte(i*3)
	}
	return
}

func c33gVote(t *rapid.T) Vote {
	return Vote{Hash: c33gHash(t, "vote-hash"), Number: rapid.Uint32().Draw(t, "vote-number")}
}

func c33gSignedVotes(t *rapid.T, label string) []SignedVote {
	n := rapid.IntRange(0, 3).Draw(t, label+"-n")
	out := make([]SignedVote, n)
	for i := range out {
		sig, id := c33gSig(t)
		out[i] = SignedVote{Vote: c33gVote(t), Signature: sig, AuthorityID: id}
	}
	return out
}

func c33gMessage(t *rapid.T) any {
	switch rapid.IntRange(0, 4).Draw(t, "kind") {
	case 0:
		sig, id := c33gSig(t)
		return &VoteMessage{Round: c33gU64(t, "round"), SetID: c33gU64(t, "set"), Message: SignedMessage{
			Stage: Subround(rapid.SampledFrom([]byte{0, 1, 2, 3, 255}).Draw(t, "stage")), BlockHash: c33gHash(t, "hash"),
			Number: rapid.Uint32().Draw(t, "number"), Signature: sig, AuthorityID: id}}
	case 1:
		n := rapid.IntRange(0, 3).Draw(t, "nprecommits")
		m := &CommitMessage{Round: c33gU64(t, "round"), SetID: c33gU64(t, "set"), Vote: c33gVote(t)}
		for i := 0; i < n; i++ {
			m.Precommits = append(m.Precommits, c33gVote(t))
		}
		// a peer may send a different number of signatures than precommits
		na := n
		if rapid.IntRange(0, 4).Draw(t, "mismatch") == 0 {
			na = rapid.IntRange(0, 3).Draw(t, "nauth")
		}
		for i := 0; i < na; i++ {
			sig, id := c33gSig(t)
			m.AuthData = append(m.AuthData, AuthData{Signature: sig, AuthorityID: id})
		}
		return m
	case 2:
		return &NeighbourPacketV1{Round: c33gU64(t, "round"), SetID: c33gU64(t, "set"), Number: rapid.Uint32().Draw(t, "number")}
	case 3:
		return &CatchUpRequest{Round: c33gU64(t, "round"), SetID: c33gU64(t, "set")}
	default:
		return &CatchUpResponse{SetID: c33gU64(t, "set"), Round: c33gU64(t, "round"),
			PreVoteJustification: c33gSignedVotes(t, "pv"), PreCommitJustification: c33gSignedVotes(t, "pc"),
			Hash: c33gHash(t, "hash"), Number: rapid.Uint32().Draw(t, "number")}
	}
}

var (
	shgHash       = c33h.Arr(32)
	shgVote       = c33h.Struct(shgHash, c33h.Int(4))
	shgSignedVote = c33h.Struct(shgVote, c33h.Arr(64), c33h.Arr(32))
	shgMessage    = c33h.Enum(map[byte]*c33h.Shape{
		0: c33h.Struct(c33h.Int(8), c33h.Int(8), c33h.Struct(c33h.Arr(1), shgHash, c33h.Int(4), c33h.Arr(64), c33h.Arr(32))),
		1: c33h.Struct(c33h.Int(8), c33h.Int(8), shgVote, c33h.Vec(shgVote), c33h.Vec(c33h.Struct(c33h.Arr(64), c33h.Arr(32)))),
		2: c33h.Enum(map[byte]*c33h.Shape{1: c33h.Struct(c33h.Int(8), c33h.Int(8), c33h.Int(4))}),
		3: c33h.Struct(c33h.Int(8), c33h.Int(8)),
		4: c33h.Struct(c33h.Int(8), c33h.Int(8), c33h.Vec(shgSignedVote), c33h.Vec(shgSignedVote), shgHash, c33h.Int(4)),
	})
)

var c33gDecoders = map[string]*c33h.Decoder{
	"GrandpaMessage": {
		Name: "GrandpaMessage",
		Gen:  c33gMessage,
		Encode: func(m any) ([]byte, error) {
			cm, err := m.(GrandpaMessage).ToConsensusMessage()
			if err != nil {
				return nil, err
			}
			return cm.Data, nil
		},
		Decode: func(in []byte) (any, error) {
			// the path of handleNetworkMessage: Service.decodeMessage wraps the bytes
			// into a ConsensusMessage, decodeMessage parses them
			var s *Service
			nm, err := s.decodeMessage(in)
			if err != nil {
				return nil, err
			}
			cm, ok := nm.(*network.ConsensusMessage)
			if !ok {
				return nil, fmt.Errorf("not a consensus message: %T", nm)
			}
			m, err := decodeMessage(cm)
			if err != nil {
				return nil, err
			}
			return m, nil
		},
		Shape: shgMessage,
	},
	"GrandpaHandshake": {
		Name: "GrandpaHandshake",
		Gen: func(t *rapid.T) any {
			return &GrandpaHandshake{Role: common.NetworkRole(rapid.SampledFrom([]byte{0, 1, 2, 4, 255}).Draw(t, "role"))}
		},
		Encode: func(m any) ([]byte, error) { return m.(*GrandpaHandshake).Encode() },
		Decode: func(in []byte) (any, error) {
			var s *Service
			return s.decodeHandshake(in)
		},
		Shape: c33h.Struct(c33h.Arr(1)),
	},
}

func c33gRun(t *testing.T, name string) {
	defer kit.Flush()
	kit.Note("rule-grandpa", c33GrandpaRule)
	d := c33gDecoders[name]
	defer d.ReportRatios()
	rapid.Check(t, func(t *rapid.T) { c33h.RunCase(t, d) })
}

func TestC33GrandpaMessage(t *testing.T)   { c33gRun(t, "GrandpaMessage") }
func TestC33GrandpaHandshake(t *testing.T) { c33gRun(t, "GrandpaHandshake") }

func FuzzC33GrandpaMessage(f *testing.F) {
	d := c33gDecoders["GrandpaMessage"]
	c33h.SeedCorpus(f, d)
	f.Fuzz(c33h.FuzzBody(d))
}

func FuzzC33GrandpaHandshake(f *testing.F) {
	d := c33gDecoders["GrandpaHandshake"]
	c33h.SeedCorpus(f, d)
	f.Fuzz(c33h.FuzzBody(d))
}

// TestC33GrandpaSelfCheck: the shape covers valid encodings of all five kinds
// (so crafted prefixes land on the vector length positions), and fixed hostile
// inputs are judged for both decoders.
func TestC33GrandpaSelfCheck(t *testing.T) {
	defer kit.Flush()
	d := c33gDecoders["GrandpaMessage"]
	gen := rapid.Custom(func(t *rapid.T) []byte {
		b, err := d.ValidWire(d.Gen(t))
		if err != nil {
			t.Fatalf("encode: %v", err)
		}
		return b
	})
	kinds := map[byte]int{}
	for seed := 1; seed <= 300; seed++ {
		enc := gen.Example(seed)
		w := c33h.WalkScale(d.Shape, enc)
		if w.Err || w.Consumed != len(enc) {
			t.Fatalf("shape walker does not cover valid encoding %x (err=%v consumed=%d of %d)", enc, w.Err, w.Consumed, len(enc))
		}
		kinds[enc[0]]++
	}
	for k := byte(0); k < 5; k++ {
		if kinds[k] == 0 {
			t.Fatalf("generator never produced message kind %d", k)
		}
	}
	inputs := [][]byte{{}, {0}, {1}, {2}, {2, 0}, {2, 1}, {2, 2}, {3}, {4}, {5}, {255}, {1, 0, 0, 0, 0, 0, 0, 0, 0}}
	for _, h := range c33h.HostileCompact {
		inputs = append(inputs, h.B)
		// commit message with a hostile precommit count, catch-up response with a hostile prevote count
		commit := append(make([]byte, 0, 80), 1)
		commit = append(commit, make([]byte, 16+36)...)
		inputs = append(inputs, append(commit, h.B...))
		cur := append(make([]byte, 0, 80), 4)
		cur = append(cur, make([]byte, 16)...)
		inputs = append(inputs, append(cur, h.B...))
	}
	for _, dd := range c33gDecoders {
		for _, in := range inputs {
			dd.Judge(t, in, "regression")
			kit.Case(fmt.Sprintf("%s regression in=%x", dd.Name, in), true, dd.Name+"/regression")
		}
	}
}

// TestC33GrandpaScaling: commit and catch-up response messages dominated by
// many votes / signatures at N and 8N elements, see TestC33Scaling.
func TestC33GrandpaScaling(t *testing.T) {
	defer kit.Flush()
	old := c33h.HangAfter
	c33h.HangAfter = 10 * time.Minute
	defer func() { c33h.HangAfter = old }()
	d := c33gDecoders["GrandpaMessage"]
	vote := func(i int) Vote {
		var h common.Hash
		for j := range h {
			h[j] = byte(i + j)
		}
		return Vote{Hash: h, Number: uint32(i)}
	}
	signed := func(i int) SignedVote {
		sv := SignedVote{Vote: vote(i)}
		for j := range sv.Signature {
			sv.Signature[j] = byte(i*3 + j)
		}
		for j := range sv.AuthorityID {
			sv.AuthorityID[j] = byte(i*5 + j)
		}
		return sv
	}
	scenarios := []c33h.Scenario{
		{Name: "GrandpaMessage/commit-many-precommits", D: d, Build: func(n, _ int) any {
			m := &CommitMessage{Round: 3, SetID: 1, Vote: vote(0)}
			for i := 0; i < n; i++ {
				sv := signed(i)
				m.Precommits = append(m.Precommits, sv.Vote)
				m.AuthData = append(m.AuthData, AuthData{Signature: sv.Signature, AuthorityID: sv.AuthorityID})
			}
			return m
		}},
		{Name: "GrandpaMessage/catch-up-response-many-votes", D: d, Build: func(n, _ int) any {
			m := &CatchUpResponse{SetID: 1, Round: 3, Hash: vote(1).Hash, Number: 9}
			for i := 0; i < n; i++ {
				if i%2 == 0 {
					m.PreVoteJustification = append(m.PreVoteJustification, signed(i))
				} else {
					m.PreCommitJustification = append(m.PreCommitJustification, signed(i))
				}
			}
			return m
		}},
	}
	seed := c33h.ScalingSeed()
	for i, sc := range scenarios {
		c33h.RunScaling(t, sc, seed*100+50+i)
	}
}
