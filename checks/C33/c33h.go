// Package c33h is the decoder-robustness harness of check C33. It is overlaid
// into the gossamer module as internal/verifchk/c33h and imported by the
// in-package test files of dot/network and lib/grandpa. It imports nothing
// from gossamer (so no import cycle) - only rapid and the verif kit.
package c33h

import (
	"bytes"
	"encoding/binary"
	"encoding/hex"
	"fmt"
	"os"
	"reflect"
	"runtime"
	"runtime/debug"
	"sort"
	"strings"
	"testing"
	"time"

	kit "github.com/ChainSafe/gossamer/internal/verifkit"
	"pgregory.net/rapid"
)

// PreallocFinding is the id of the inherited pkg/scale defect: decodeBytes
// allocates the declared length before reading.
const PreallocFinding = "C33-scale-prealloc"

// Memory / work bounds of the oracle: bytes (resp. heap objects) allocated by
// one decode call <= factor*len(input) + slack. The factors are deliberately
// generous (the reflection based SCALE decoder costs a few hundred bytes and
// ~10 objects per input byte for []Extrinsic); what they must separate is
// "proportional" from "declared-length" allocation.
const (
	AllocFactor  = 2048
	AllocSlack   = 1 << 20
	MallocFactor = 64
	MallocSlack  = 1 << 14
	// a bytes length prefix that declares more than the remaining input plus
	// this many bytes is in the trigger class of PreallocFinding
	TriggerOver = 256 << 10
)

// AllocBound is the allowed TotalAlloc delta for an input of n bytes.
func AllocBound(n int) uint64 { return uint64(n)*AllocFactor + AllocSlack }

// MallocBound is the allowed Mallocs delta for an input of n bytes.
func MallocBound(n int) uint64 { return uint64(n)*MallocFactor + MallocSlack }

// ---------------------------------------------------------------------------
// SCALE shape walker. It follows the read pattern of pkg/scale's decoder for
// a given type shape over a concrete input and reports every length prefix it
// passes (offset, width, declared value, remaining input). It is used to
// (a) craft hostile length prefixes at real prefix positions, (b) recognise
// the trigger class of the known pre-allocation finding, (c) label cases. It
// is NOT used as an acceptance oracle.

type Kind int

const (
	KArr     Kind = iota // N bytes read one at a time ([N]byte, byte-sized primitives): error at EOF
	KInt                 // fixed width integer of N bytes read with one Read
	KCompact             // compact unsigned (uint)
	KBytes               // compact length + bytes ([]byte, string)
	KVec                 // compact length + elements
	KOption              // 0 / 1+value
	KEnum                // index byte + variant
	KStruct              // fields in order
	KBool
)

type Shape struct {
	K        Kind
	N        int
	Elem     *Shape
	Fields   []*Shape
	Variants map[byte]*Shape
}

func Arr(n int) *Shape              { return &Shape{K: KArr, N: n} }
func Int(n int) *Shape              { return &Shape{K: KInt, N: n} }
func Compact() *Shape               { return &Shape{K: KCompact} }
func Bytes() *Shape                 { return &Shape{K: KBytes} }
func Vec(e *Shape) *Shape           { return &Shape{K: KVec, Elem: e} }
func Option(e *Shape) *Shape        { return &Shape{K: KOption, Elem: e} }
func Struct(f ...*Shape) *Shape     { return &Shape{K: KStruct, Fields: f} }
func Bool() *Shape                  { return &Shape{K: KBool} }
func Enum(v map[byte]*Shape) *Shape { return &Shape{K: KEnum, Variants: v} }

// Site is one length prefix met while walking.
type Site struct {
	Off, Width int
	Kind       string // "bytes", "vec", "compact"
	Declared   uint64
	Remaining  int // input bytes left after the prefix
}

type Walk struct {
	Sites    []Site
	Err      bool // the walker predicts a decode error (informational only)
	Consumed int
}

type walker struct {
	in    []byte
	pos   int
	sites []Site
}

var errWalk = fmt.Errorf("walk error")

func (w *walker) avail() int { return len(w.in) - w.pos }

func (w *walker) readByte() (byte, error) {
	if w.avail() == 0 {
		return 0, errWalk
	}
	b := w.in[w.pos]
	w.pos++
	return b, nil
}

// read mimics bytes.Buffer.Read into a zeroed buffer of n bytes: error only
// when nothing is left, short reads leave zeros.
func (w *walker) read(n int) ([]byte, error) {
	buf := make([]byte, n)
	if n == 0 {
		return buf, nil
	}
	if w.avail() == 0 {
		return nil, errWalk
	}
	c := copy(buf, w.in[w.pos:])
	w.pos += c
	return buf, nil
}

func (w *walker) compact() (uint64, int, error) {
	start := w.pos
	p, err := w.readByte()
	if err != nil {
		return 0, 0, err
	}
	var v uint64
	switch p & 3 {
	case 0:
		v = uint64(p >> 2)
	case 1:
		b, err := w.readByte()
		if err != nil {
			return 0, 0, err
		}
		v = uint64(binary.LittleEndian.Uint16([]byte{p, b}) >> 2)
		if v <= 63 {
			return 0, 0, errWalk
		}
	case 2:
		buf, err := w.read(3)
		if err != nil {
			return 0, 0, err
		}
		v = uint64(binary.LittleEndian.Uint32(append([]byte{p}, buf...)) >> 2)
		if v <= 16383 {
			return 0, 0, errWalk
		}
	case 3:
		n := int(p>>2) + 4
		if w.avail() == 0 {
			return 0, 0, errWalk
		}
		buf, _ := w.read(n)
		switch n {
		case 4:
			v = uint64(binary.LittleEndian.Uint32(buf))
			if v <= 1<<30-1 {
				return 0, 0, errWalk
			}
		case 8:
			v = binary.LittleEndian.Uint64(buf)
			if v <= ^uint64(0)>>8 {
				return 0, 0, errWalk
			}
		default:
			return 0, 0, errWalk
		}
	}
	return v, w.pos - start, nil
}

func (w *walker) walk(s *Shape) error {
	switch s.K {
	case KArr:
		for i := 0; i < s.N; i++ {
			if _, err := w.readByte(); err != nil {
				return err
			}
		}
	case KInt:
		_, err := w.read(s.N)
		return err
	case KBool:
		b, err := w.readByte()
		if err != nil || b > 1 {
			return errWalk
		}
	case KCompact:
		off := w.pos
		v, width, err := w.compact()
		if err != nil {
			return err
		}
		w.sites = append(w.sites, Site{off, width, "compact", v, w.avail()})
	case KBytes:
		off := w.pos
		v, width, err := w.compact()
		if err != nil {
			return err
		}
		if v > 1<<32-1 {
			w.sites = append(w.sites, Site{off, width, "bytes-toolong", v, w.avail()})
			return errWalk
		}
		w.sites = append(w.sites, Site{off, width, "bytes", v, w.avail()})
		if v > 0 {
			if w.avail() == 0 {
				return errWalk
			}
			n := int(v)
			if n > w.avail() {
				n = w.avail()
			}
			w.pos += n
		}
	case KVec:
		off := w.pos
		v, width, err := w.compact()
		if err != nil {
			return err
		}
		w.sites = append(w.sites, Site{off, width, "vec", v, w.avail()})
		for i := uint64(0); i < v; i++ {
			before := w.pos
			if err := w.walk(s.Elem); err != nil {
				return err
			}
			if w.pos == before && w.avail() == 0 && i > uint64(len(w.in))+8 {
				return errWalk // cannot happen with the shapes used here (every element consumes input)
			}
		}
	case KOption:
		b, err := w.readByte()
		if err != nil || b > 1 {
			return errWalk
		}
		if b == 1 {
			return w.walk(s.Elem)
		}
	case KEnum:
		b, err := w.readByte()
		if err != nil {
			return err
		}
		v, ok := s.Variants[b]
		if !ok {
			return errWalk
		}
		return w.walk(v)
	case KStruct:
		for _, f := range s.Fields {
			if err := w.walk(f); err != nil {
				return err
			}
		}
	}
	return nil
}

// WalkScale walks in according to shape.
func WalkScale(shape *Shape, in []byte) Walk {
	w := &walker{in: in}
	err := w.walk(shape)
	return Walk{Sites: w.sites, Err: err != nil, Consumed: w.pos}
}

// PreallocTrigger reports whether the walk passed a byte-string length prefix
// that declares more than the remaining input + TriggerOver.
func (w Walk) PreallocTrigger() bool {
	for _, s := range w.Sites {
		if s.Kind == "bytes" && s.Declared > uint64(s.Remaining)+TriggerOver {
			return true
		}
	}
	return false
}

// ---------------------------------------------------------------------------
// minimal protobuf wire walker (length-delimited fields, recursively)

type PSite struct {
	TagOff           int
	Field            int
	LenOff, LenWidth int
	DataOff, DataLen int
	Depth            int
}

func uvarint(b []byte) (uint64, int) {
	v, n := binary.Uvarint(b)
	if n <= 0 {
		return 0, 0
	}
	return v, n
}

// ProtoSites lists the length-delimited fields of a protobuf message,
// descending into payloads that themselves parse completely as messages.
func ProtoSites(in []byte, base, depth int) (sites []PSite, ok bool) {
	pos := 0
	for pos < len(in) {
		tagOff := pos
		tag, n := uvarint(in[pos:])
		if n == 0 {
			return sites, false
		}
		pos += n
		field := int(tag >> 3)
		switch tag & 7 {
		case 0:
			_, n := uvarint(in[pos:])
			if n == 0 {
				return sites, false
			}
			pos += n
		case 1:
			pos += 8
		case 5:
			pos += 4
		case 2:
			l, n := uvarint(in[pos:])
			if n == 0 || l > uint64(len(in)-pos-n) {
				return sites, false
			}
			s := PSite{TagOff: base + tagOff, Field: field, LenOff: base + pos, LenWidth: n, DataOff: base + pos + n, DataLen: int(l), Depth: depth}
			sites = append(sites, s)
			if depth < 3 && l > 0 {
				sub, subOK := ProtoSites(in[pos+n:pos+n+int(l)], base+pos+n, depth+1)
				if subOK {
					sites = append(sites, sub...)
				}
			}
			pos += n + int(l)
		default:
			return sites, false
		}
		if pos > len(in) {
			return sites, false
		}
	}
	return sites, true
}

// ---------------------------------------------------------------------------
// hostile constants

// HostileCompact are crafted SCALE compact prefixes.
var HostileCompact = []struct {
	Name string
	B    []byte
}{
	{"2^14 (4-byte mode)", []byte{0x02, 0x00, 0x01, 0x00}},
	{"2^24", []byte{0x02, 0x00, 0x00, 0x04}},
	{"2^28", []byte{0x02, 0x00, 0x00, 0x40}},
	{"2^30-1", []byte{0xfe, 0xff, 0xff, 0xff}},
	{"2^30 (big 4)", []byte{0x03, 0x00, 0x00, 0x00, 0x40}},
	{"2^32-1 (big 4)", []byte{0x03, 0xff, 0xff, 0xff, 0xff}},
	{"2^32 (big 5)", []byte{0x07, 0x00, 0x00, 0x00, 0x00, 0x01}},
	{"2^56 (big 8)", []byte{0x13, 0, 0, 0, 0, 0, 0, 0, 0x01}},
	{"2^63 (big 8)", []byte{0x13, 0, 0, 0, 0, 0, 0, 0, 0x80}},
	{"2^64-1 (big 8)", []byte{0x13, 0xff, 0xff, 0xff, 0xff, 0xff, 0xff, 0xff, 0xff}},
	{"big 67 header", append([]byte{0xff}, bytes.Repeat([]byte{0xff}, 67)...)},
	{"big 67 header only", []byte{0xff}},
	{"big 16", append([]byte{0x33}, bytes.Repeat([]byte{0xff}, 16)...)},
	{"non-canonical 2-byte 0", []byte{0x01, 0x00}},
	{"non-canonical 4-byte 1", []byte{0x06, 0x00, 0x00, 0x00}},
	{"4-byte mode cut", []byte{0xfe, 0xff}},
	{"16383", []byte{0xfd, 0xff}},
	{"63", []byte{0xfc}},
}

// HostileVarint are crafted protobuf length varints.
var HostileVarint = []struct {
	Name string
	B    []byte
}{
	{"2^31-1", []byte{0xff, 0xff, 0xff, 0xff, 0x07}},
	{"2^31", []byte{0x80, 0x80, 0x80, 0x80, 0x08}},
	{"2^32-1", []byte{0xff, 0xff, 0xff, 0xff, 0x0f}},
	{"2^32", []byte{0x80, 0x80, 0x80, 0x80, 0x10}},
	{"2^63-1", []byte{0xff, 0xff, 0xff, 0xff, 0xff, 0xff, 0xff, 0xff, 0x7f}},
	{"2^63", []byte{0x80, 0x80, 0x80, 0x80, 0x80, 0x80, 0x80, 0x80, 0x80, 0x01}},
	{"2^64-1", []byte{0xff, 0xff, 0xff, 0xff, 0xff, 0xff, 0xff, 0xff, 0xff, 0x01}},
	{"overlong 11", []byte{0xff, 0xff, 0xff, 0xff, 0xff, 0xff, 0xff, 0xff, 0xff, 0xff, 0x01}},
	{"unterminated", []byte{0xff, 0xff}},
	{"2^24", []byte{0x80, 0x80, 0x80, 0x08}},
	{"non-minimal 1", []byte{0x81, 0x00}},
	{"0", []byte{0x00}},
}

// ---------------------------------------------------------------------------
// guarded execution

type Result struct {
	Msg     any
	Err     error
	Panic   any
	Stack   string
	Alloc   uint64
	Mallocs uint64
}

// HangAfter is the hang watchdog: a decode call that has not returned after
// this long aborts the process (decoding takes microseconds; the margin covers
// a heavily loaded machine). The dedicated length-bomb run raises it.
var HangAfter = 30 * time.Second

// Guard runs f on the calling goroutine, recovers a panic (to attribute it),
// measures what the call allocated (TotalAlloc / Mallocs deltas; the test
// binary runs no other goroutine that allocates) and aborts the process when f
// has not returned after HangAfter (hang watchdog).
func Guard(what string, in []byte, f func() (any, error)) (r Result) {
	wd := time.AfterFunc(HangAfter, func() {
		fmt.Fprintf(os.Stderr, "C33 HANG: %s did not return within %s on input %x\n", what, HangAfter, clip(in, 4096))
		panic("C33 hang watchdog: " + what)
	})
	defer wd.Stop()
	var m0, m1 runtime.MemStats
	runtime.ReadMemStats(&m0)
	func() {
		defer func() {
			if p := recover(); p != nil {
				r.Panic = p
				r.Stack = string(debug.Stack())
			}
		}()
		r.Msg, r.Err = f()
	}()
	runtime.ReadMemStats(&m1)
	r.Alloc = m1.TotalAlloc - m0.TotalAlloc
	r.Mallocs = m1.Mallocs - m0.Mallocs
	return r
}

func clip(b []byte, n int) []byte {
	if len(b) > n {
		return b[:n]
	}
	return b
}

// ---------------------------------------------------------------------------
// canonical rendering of a decoded message (nil slice == empty slice, reads
// unexported fields, ignores cached "hash" fields)

func Canon(v any) string {
	var sb strings.Builder
	canon(&sb, reflect.ValueOf(v), 0)
	return sb.String()
}

func canon(sb *strings.Builder, v reflect.Value, depth int) {
	if depth > 40 {
		sb.WriteString("<deep>")
		return
	}
	if !v.IsValid() {
		sb.WriteString("<nil>")
		return
	}
	switch v.Kind() {
	case reflect.Ptr:
		if v.IsNil() {
			sb.WriteString("nil")
			return
		}
		sb.WriteString("&")
		canon(sb, v.Elem(), depth+1)
	case reflect.Interface:
		if v.IsNil() {
			sb.WriteString("nil")
			return
		}
		sb.WriteString(v.Elem().Type().String())
		sb.WriteString(":")
		canon(sb, v.Elem(), depth+1)
	case reflect.Struct:
		sb.WriteString("{")
		t := v.Type()
		for i := 0; i < v.NumField(); i++ {
			if t.Field(i).Name == "hash" {
				continue
			}
			sb.WriteString(t.Field(i).Name)
			sb.WriteString("=")
			canon(sb, v.Field(i), depth+1)
			sb.WriteString(" ")
		}
		sb.WriteString("}")
	case reflect.Slice, reflect.Array:
		if v.Type().Elem().Kind() == reflect.Uint8 {
			b := make([]byte, v.Len())
			for i := range b {
				b[i] = byte(v.Index(i).Uint())
			}
			sb.WriteString("0x")
			sb.WriteString(hex.EncodeToString(b))
			return
		}
		sb.WriteString("[")
		for i := 0; i < v.Len(); i++ {
			canon(sb, v.Index(i), depth+1)
			sb.WriteString(",")
		}
		sb.WriteString("]")
	case reflect.String:
		fmt.Fprintf(sb, "%q", v.String())
	case reflect.Bool:
		fmt.Fprintf(sb, "%v", v.Bool())
	case reflect.Int, reflect.Int8, reflect.Int16, reflect.Int32, reflect.Int64:
		fmt.Fprintf(sb, "%d", v.Int())
	case reflect.Uint, reflect.Uint8, reflect.Uint16, reflect.Uint32, reflect.Uint64, reflect.Uintptr:
		fmt.Fprintf(sb, "%d", v.Uint())
	case reflect.Map:
		keys := v.MapKeys()
		strs := make([]string, len(keys))
		for i, k := range keys {
			var s strings.Builder
			canon(&s, k, depth+1)
			s.WriteString("=>")
			canon(&s, v.MapIndex(k), depth+1)
			strs[i] = s.String()
		}
		sort.Strings(strs)
		sb.WriteString("map[" + strings.Join(strs, ",") + "]")
	default:
		fmt.Fprintf(sb, "<%s>", v.Kind())
	}
}

// ---------------------------------------------------------------------------
// the decoder under test and the generic property

type Decoder struct {
	Name   string
	Gen    func(t *rapid.T) any          // a valid message a real peer could send
	Encode func(msg any) ([]byte, error) // implementation's encoder (nil: none exists)
	Wire   func(msg any) ([]byte, error) // valid wire bytes of a generated message when there is no Encode
	Decode func(in []byte) (any, error)  // the decoder under test
	Canon  func(msg any) string          // canonical rendering for equality (default Canon)
	Shape  *Shape                        // SCALE shape of the wire format (nil: not SCALE / no lengths)
	Proto  bool                          // protobuf wire format
	Screen func(in []byte) bool          // extra pre-allocation trigger recogniser (SCALE nested in protobuf)
	Opaque bool                          // decoder accepts every input verbatim (ConsensusMessage, tx handshake)

	// measured: largest allocation per input byte over inputs of >= 32 bytes (printed by ReportRatios)
	MaxAllocPerByte, MaxMallocsPerByte float64
}

// ReportRatios prints the measured worst allocation ratios of a decoder (to
// the process output kept by the driver in work/C33/out-*.txt).
func (d *Decoder) ReportRatios() {
	fmt.Printf("C33-RATIO %s max bytes allocated per input byte %.1f (bound factor %d), max objects per input byte %.2f (bound factor %d), inputs >= 32 bytes\n",
		d.Name, d.MaxAllocPerByte, AllocFactor, d.MaxMallocsPerByte, MallocFactor)
}

func (d *Decoder) canon(m any) string {
	if d.Canon != nil {
		return d.Canon(m)
	}
	return Canon(m)
}

func (d *Decoder) wire(m any) ([]byte, error) {
	if d.Wire != nil {
		return d.Wire(m)
	}
	return d.Encode(m)
}

// ValidWire returns the valid wire bytes of a generated message.
func (d *Decoder) ValidWire(m any) ([]byte, error) { return d.wire(m) }

// Triggered reports whether in belongs to the trigger class of the known
// pre-allocation finding for this decoder.
func (d *Decoder) Triggered(in []byte) bool {
	if d.Shape != nil && WalkScale(d.Shape, in).PreallocTrigger() {
		return true
	}
	if d.Screen != nil && d.Screen(in) {
		return true
	}
	return false
}

type failer interface {
	Fatalf(format string, args ...any)
}

// Judge runs the decoder on in and applies the oracle that holds for every
// byte string: no panic, allocation and object count bounded relative to the
// input, success => non-nil message that re-encodes (if an encoder exists) to
// bytes which decode to an equal message. It returns the first result.
func (d *Decoder) Judge(t failer, in []byte, ctx string) Result {
	r := Guard(d.Name, in, func() (any, error) { return d.Decode(in) })
	if r.Panic != nil {
		t.Fatalf("%s: decoder panicked on %s input %x: %v\n%s", d.Name, ctx, clip(in, 2048), r.Panic, r.Stack)
	}
	if r.Alloc > AllocBound(len(in)) {
		t.Fatalf("%s: decoding %d bytes (%s input %x) allocated %d bytes, bound %d (=%d*len+%d)",
			d.Name, len(in), ctx, clip(in, 256), r.Alloc, AllocBound(len(in)), AllocFactor, AllocSlack)
	}
	if r.Mallocs > MallocBound(len(in)) {
		t.Fatalf("%s: decoding %d bytes (%s input %x) made %d allocations, bound %d",
			d.Name, len(in), ctx, clip(in, 256), r.Mallocs, MallocBound(len(in)))
	}
	if n := len(in); n >= 32 {
		if v := float64(r.Alloc) / float64(n); v > d.MaxAllocPerByte {
			d.MaxAllocPerByte = v
		}
		if v := float64(r.Mallocs) / float64(n); v > d.MaxMallocsPerByte {
			d.MaxMallocsPerByte = v
		}
	}
	if r.Err != nil {
		return r
	}
	if r.Msg == nil || (reflect.ValueOf(r.Msg).Kind() == reflect.Ptr && reflect.ValueOf(r.Msg).IsNil()) {
		t.Fatalf("%s: decoder returned neither a message nor an error on %s input %x", d.Name, ctx, clip(in, 2048))
	}
	if d.Encode == nil {
		return r
	}
	c1 := d.canon(r.Msg)
	var enc []byte
	re := Guard(d.Name+" re-encode", in, func() (any, error) {
		var err error
		enc, err = d.Encode(r.Msg)
		return nil, err
	})
	if re.Panic != nil {
		t.Fatalf("%s: re-encoding the message decoded from %s input %x panicked: %v\n%s", d.Name, ctx, clip(in, 2048), re.Panic, re.Stack)
	}
	if re.Err != nil {
		t.Fatalf("%s: message decoded from %s input %x does not re-encode: %v (message %s)", d.Name, ctx, clip(in, 2048), re.Err, c1)
	}
	r2 := Guard(d.Name, enc, func() (any, error) { return d.Decode(enc) })
	if r2.Panic != nil {
		t.Fatalf("%s: decoder panicked on re-encoded message %x (from %s input %x): %v\n%s", d.Name, clip(enc, 2048), ctx, clip(in, 2048), r2.Panic, r2.Stack)
	}
	if r2.Err != nil {
		t.Fatalf("%s: re-encoding %x of the message decoded from %s input %x does not decode: %v", d.Name, clip(enc, 2048), ctx, clip(in, 2048), r2.Err)
	}
	if c2 := d.canon(r2.Msg); c1 != c2 {
		t.Fatalf("%s: decode(encode(m)) != m for m decoded from %s input %x:\n m  = %s\n m' = %s", d.Name, ctx, clip(in, 2048), c1, c2)
	}
	return r
}

func replaceAt(in []byte, off, width int, with []byte) []byte {
	out := make([]byte, 0, len(in)+len(with))
	out = append(out, in[:off]...)
	out = append(out, with...)
	out = append(out, in[off+width:]...)
	return out
}

func putUvarint(v uint64) []byte {
	b := make([]byte, 10)
	return b[:binary.PutUvarint(b, v)]
}

// SpecCompact is the canonical SCALE compact encoding (from the spec).
func SpecCompact(v uint64) []byte {
	switch {
	case v < 1<<6:
		return []byte{byte(v << 2)}
	case v < 1<<14:
		return []byte{byte(v<<2) | 1, byte(v >> 6)}
	case v < 1<<30:
		x := uint32(v<<2) | 2
		return []byte{byte(x), byte(x >> 8), byte(x >> 16), byte(x >> 24)}
	}
	var b []byte
	for x := v; x > 0; x >>= 8 {
		b = append(b, byte(x))
	}
	return append([]byte{byte(len(b)-4)<<2 | 3}, b...)
}

// Variants of one generated case.
var variants = []string{"valid", "valid", "truncate", "truncate-all", "mutate", "mutate", "mutate", "craft-length", "craft-length", "craft-length", "resize", "resize", "random", "insert-delete", "widen-compact"}

// WideCompact encodes v in a compact form that is wider than the canonical
// one (mode 1 = two bytes, 2 = four bytes, 3.. = big-integer mode with
// mode+1 payload bytes); ok=false when v does not fit that form or the form
// is the canonical one.
func WideCompact(v uint64, mode int) (b []byte, ok bool) {
	canon := SpecCompact(v)
	switch {
	case mode == 1 && v < 1<<14:
		b = []byte{byte(v<<2) | 1, byte(v >> 6)}
	case mode == 2 && v < 1<<30:
		x := uint32(v<<2) | 2
		b = []byte{byte(x), byte(x >> 8), byte(x >> 16), byte(x >> 24)}
	case mode >= 3 && mode <= 7:
		n := mode + 1 // 4..8 payload bytes
		if n < 8 && v>>(8*uint(n)) != 0 {
			return nil, false
		}
		b = []byte{byte(n-4)<<2 | 3}
		for i := 0; i < n; i++ {
			b = append(b, byte(v>>(8*uint(i))))
		}
	default:
		return nil, false
	}
	return b, !bytes.Equal(b, canon)
}

// RunCase is the rapid property for one decoder.
func RunCase(t *rapid.T, d *Decoder) {
	msg := d.Gen(t)
	valid, err := d.wire(msg)
	if err != nil {
		t.Fatalf("%s: generated message does not encode (generator bug?): %v", d.Name, err)
	}
	variant := rapid.SampledFrom(variants).Draw(t, "variant")
	labels := []string{d.Name + "/" + variant}
	in := valid
	craftInfo := ""
	crafted := false

	var sites []Site
	var psites []PSite
	if d.Shape != nil {
		sites = WalkScale(d.Shape, valid).Sites
	}
	if d.Proto {
		psites, _ = ProtoSites(valid, 0, 0)
	}

	switch variant {
	case "valid":
	case "truncate":
		if len(valid) > 0 {
			in = valid[:rapid.IntRange(0, len(valid)-1).Draw(t, "cut")]
		}
	case "truncate-all":
		// every proper prefix; judged below one by one
	case "mutate":
		in = append([]byte{}, valid...)
		n := rapid.IntRange(1, 3).Draw(t, "nmut")
		for i := 0; i < n && len(in) > 0; i++ {
			pos := rapid.IntRange(0, len(in)-1).Draw(t, "pos")
			if len(sites)+len(psites) > 0 && rapid.Bool().Draw(t, "atPrefix") {
				k := rapid.IntRange(0, len(sites)+len(psites)-1).Draw(t, "site")
				if k < len(sites) {
					pos = sites[k].Off + rapid.IntRange(0, sites[k].Width-1).Draw(t, "w")
				} else {
					ps := psites[k-len(sites)]
					pos = rapid.SampledFrom([]int{ps.TagOff, ps.LenOff}).Draw(t, "tagOrLen")
				}
				if pos >= len(in) {
					pos = len(in) - 1
				}
			}
			if rapid.Bool().Draw(t, "bitflip") {
				in[pos] ^= 1 << rapid.IntRange(0, 7).Draw(t, "bit")
			} else {
				in[pos] = rapid.SampledFrom([]byte{0x00, 0x01, 0x02, 0x03, 0x04, 0x07, 0x08, 0x0b, 0x13, 0x7f, 0x80, 0xfc, 0xfd, 0xfe, 0xff}).Draw(t, "byte")
			}
		}
	case "craft-length":
		switch {
		case len(sites) > 0:
			s := sites[rapid.IntRange(0, len(sites)-1).Draw(t, "site")]
			h := HostileCompact[rapid.IntRange(0, len(HostileCompact)-1).Draw(t, "hostile")]
			in = replaceAt(valid, s.Off, s.Width, h.B)
			keep := rapid.SampledFrom([]int{-1, 0, 1, 2, 3, 5, 8, 40}).Draw(t, "keepAfter")
			if keep >= 0 && s.Off+len(h.B)+keep < len(in) {
				in = in[:s.Off+len(h.B)+keep]
			}
			craftInfo = fmt.Sprintf("%s prefix at %d := %s", s.Kind, s.Off, h.Name)
			labels = append(labels, d.Name+"/craft-"+s.Kind)
			crafted = true
		case len(psites) > 0:
			s := psites[rapid.IntRange(0, len(psites)-1).Draw(t, "site")]
			h := HostileVarint[rapid.IntRange(0, len(HostileVarint)-1).Draw(t, "hostile")]
			in = replaceAt(valid, s.LenOff, s.LenWidth, h.B)
			keep := rapid.SampledFrom([]int{-1, 0, 1, 2, 3, 5, 8, 40}).Draw(t, "keepAfter")
			if keep >= 0 && s.LenOff+len(h.B)+keep < len(in) {
				in = in[:s.LenOff+len(h.B)+keep]
			}
			craftInfo = fmt.Sprintf("protobuf field %d (depth %d) length at %d := %s", s.Field, s.Depth, s.LenOff, h.Name)
			labels = append(labels, d.Name+"/craft-varint")
			crafted = true
		default:
			// no length anywhere in this format: prepend a hostile prefix instead
			h := HostileCompact[rapid.IntRange(0, len(HostileCompact)-1).Draw(t, "hostile")]
			in = append(append([]byte{}, h.B...), valid...)
			craftInfo = "prepended " + h.Name
		}
	case "resize":
		// consistent re-sizing of one length-delimited item: its content is
		// replaced by n bytes and the prefix re-written to say n.
		n := rapid.SampledFrom([]int{0, 1, 2, 3, 4, 5, 31, 32, 33, 63, 64, 65}).Draw(t, "newLen")
		fill := bytes.Repeat([]byte{rapid.SampledFrom([]byte{0x00, 0x01, 0x04, 0xff}).Draw(t, "fill")}, n)
		var bsites []Site
		for _, s := range sites {
			if s.Kind == "bytes" && int(s.Declared) <= s.Remaining {
				bsites = append(bsites, s)
			}
		}
		switch {
		case len(psites) > 0:
			s := psites[rapid.IntRange(0, len(psites)-1).Draw(t, "site")]
			in = replaceAt(valid, s.LenOff, s.LenWidth+s.DataLen, append(putUvarint(uint64(n)), fill...))
			if s.Depth > 0 {
				// keep the enclosing lengths consistent is not attempted: nested resize
				// yields an inconsistent outer length on purpose
				labels = append(labels, d.Name+"/resize-nested")
			}
			craftInfo = fmt.Sprintf("protobuf field %d (depth %d) resized to %d", s.Field, s.Depth, n)
		case len(bsites) > 0:
			s := bsites[rapid.IntRange(0, len(bsites)-1).Draw(t, "site")]
			in = replaceAt(valid, s.Off, s.Width+int(s.Declared), append(SpecCompact(uint64(n)), fill...))
			craftInfo = fmt.Sprintf("bytes at %d resized to %d", s.Off, n)
		default:
			in = append(append([]byte{}, valid...), fill...)
			craftInfo = fmt.Sprintf("%d bytes appended", n)
		}
	case "widen-compact":
		// a compact integer or length prefix re-written in a wider, non-canonical form of
		// the same value (numbers are first moved to a drawn magnitude): it must be
		// refused, or decode to a message that survives its own re-encoding
		if len(sites) == 0 {
			break
		}
		s := sites[rapid.IntRange(0, len(sites)-1).Draw(t, "site")]
		v := s.Declared
		if s.Kind == "compact" && rapid.Bool().Draw(t, "newValue") {
			sh := uint(rapid.SampledFrom([]int{0, 6, 14, 30, 31, 32, 33, 40, 47, 48, 55, 56, 57, 63}).Draw(t, "shift"))
			v = uint64(1)<<sh + uint64(rapid.IntRange(-1, 5).Draw(t, "delta"))
		}
		var wide []byte
		for _, m := range rapid.Permutation([]int{1, 2, 3, 4, 5, 6, 7, 7, 7}).Draw(t, "modes") {
			if b, ok := WideCompact(v, m); ok {
				wide = b
				break
			}
		}
		if wide == nil {
			break
		}
		in = replaceAt(valid, s.Off, s.Width, wide)
		craftInfo = fmt.Sprintf("%s at %d: value %d written as %x", s.Kind, s.Off, v, wide)
		labels = append(labels, d.Name+"/widen-"+s.Kind)
		crafted = true
	case "random":
		n := rapid.SampledFrom([]int{0, 0, 1, 2, 3, 4, 5, 8, 16, 33, 64, 200}).Draw(t, "rlen")
		in = rapid.SliceOfN(rapid.Byte(), n, n).Draw(t, "rnd")
		if len(valid) > 0 && rapid.Bool().Draw(t, "keepHead") {
			k := rapid.IntRange(0, len(valid)).Draw(t, "head")
			in = append(append([]byte{}, valid[:k]...), in...)
		}
	case "insert-delete":
		in = append([]byte{}, valid...)
		pos := rapid.IntRange(0, len(in)).Draw(t, "pos")
		if rapid.Bool().Draw(t, "insert") || pos == len(in) {
			b := rapid.SliceOfN(rapid.Byte(), 1, 4).Draw(t, "ins")
			in = replaceAt(in, pos, 0, b)
		} else {
			n := rapid.IntRange(1, min(4, len(in)-pos)).Draw(t, "ndel")
			in = replaceAt(in, pos, n, nil)
		}
	}

	knownOpen := kit.KnownOpen(PreallocFinding)
	descr := fmt.Sprintf("%s %s %s in=%x", d.Name, variant, craftInfo, clip(in, 200))

	if variant == "truncate-all" {
		decodedPrefixes := 0
		// every proper prefix; for long encodings every cut in the first 300 bytes
		// and the last 50, and about 100 evenly spread cuts in between
		stride := 1
		if len(valid) > 450 {
			stride = (len(valid) - 350) / 100
			if stride < 1 {
				stride = 1
			}
		}
		for cut := 0; cut < len(valid); cut++ {
			if cut >= 300 && cut < len(valid)-50 && (cut-300)%stride != 0 {
				continue
			}
			p := valid[:cut]
			if knownOpen && d.Triggered(p) {
				kit.Excluded(PreallocFinding)
				continue
			}
			if r := d.Judge(t, p, fmt.Sprintf("truncated(%d of %d)", cut, len(valid))); r.Err == nil {
				decodedPrefixes++
			}
		}
		if decodedPrefixes > 0 {
			labels = append(labels, d.Name+"/proper-prefix-decodes")
		}
		kit.Case(descr, false, labels...)
		return
	}

	if knownOpen && d.Triggered(in) {
		kit.Excluded(PreallocFinding)
		kit.Case(descr, false, d.Name+"/excluded-prealloc")
		return
	}

	r := d.Judge(t, in, variant)
	if variant == "valid" {
		if r.Err != nil {
			t.Fatalf("%s: valid encoding %x of generated message %s is rejected: %v", d.Name, clip(in, 2048), d.canon(msg), r.Err)
		}
		if want, got := d.canon(msg), d.canon(r.Msg); want != got {
			t.Fatalf("%s: decode(encode(m)) != m:\n m       = %s\n decoded = %s\n bytes %x", d.Name, want, got, clip(in, 2048))
		}
	}
	if r.Err == nil {
		labels = append(labels, d.Name+"/decoded")
	} else {
		labels = append(labels, d.Name+"/error")
	}
	changed := !bytes.Equal(in, valid)
	nontrivial := !d.Opaque && ((changed && r.Err == nil) || crafted)
	if changed && r.Err == nil {
		labels = append(labels, d.Name+"/changed-still-decodes")
	}
	kit.Case(descr, nontrivial, labels...)
}

// FuzzBody is the body of a native fuzz target of one decoder.
func FuzzBody(d *Decoder) func(t *testing.T, in []byte) {
	return func(t *testing.T, in []byte) {
		if len(in) > 1<<16 {
			return
		}
		if kit.KnownOpen(PreallocFinding) && d.Triggered(in) {
			return
		}
		d.Judge(t, in, "fuzz")
	}
}

// SeedCorpus adds valid encodings of generated messages, their hostile
// variants and bare hostile constants to a fuzz target.
func SeedCorpus(f *testing.F, d *Decoder) {
	f.Add([]byte{})
	for _, h := range HostileCompact {
		f.Add(h.B)
	}
	for _, h := range HostileVarint {
		f.Add(append([]byte{0x0a}, h.B...))
	}
	gen := rapid.Custom(func(t *rapid.T) []byte {
		b, err := d.wire(d.Gen(t))
		if err != nil {
			return nil
		}
		return b
	})
	for seed := 1; seed <= 6; seed++ {
		valid := gen.Example(seed)
		f.Add(valid)
		if d.Shape != nil {
			for i, s := range WalkScale(d.Shape, valid).Sites {
				h := HostileCompact[(seed+i)%len(HostileCompact)]
				f.Add(replaceAt(valid, s.Off, s.Width, h.B))
			}
		}
		if d.Proto {
			ps, _ := ProtoSites(valid, 0, 0)
			for i, s := range ps {
				h := HostileVarint[(seed+i)%len(HostileVarint)]
				f.Add(replaceAt(valid, s.LenOff, s.LenWidth, h.B))
			}
		}
	}
}

// Bombs returns, for a valid encoding, length-bomb inputs of the trigger class
// of PreallocFinding: each reachable byte-string prefix replaced by the given
// hostile prefix and the input cut one byte after it.
func Bombs(d *Decoder, valid []byte, prefix []byte) (out [][]byte) {
	if d.Shape == nil {
		return nil
	}
	for _, s := range WalkScale(d.Shape, valid).Sites {
		if s.Kind != "bytes" {
			continue
		}
		b := replaceAt(valid, s.Off, s.Width, prefix)
		cut := s.Off + len(prefix) + 1
		if cut > len(b) {
			cut = len(b)
		}
		out = append(out, b[:cut])
	}
	return out
}

// ---------------------------------------------------------------------------
// scaling: cost must grow at most linearly with the number of repeated elements

// Scenario is one "many small repeated elements" message family.
type Scenario struct {
	Name  string
	D     *Decoder
	Build func(n, sz int) any // a valid message with n repeated elements of payload size sz
}

// Growth bounds: cost(8N) <= ScaleFactor*cost(N) + slack. A linear decoder
// gives a ratio of about 8 (up to ~16 where slice doubling dominates), a
// quadratic one 64.
const (
	ScaleFactor      = 16
	ScaleAllocSlack  = 1 << 20
	ScaleMallocSlack = 1 << 14
)

// measure decodes in with the collector switched off (a 3 GiB soft memory
// limit stays as a safety net: if a super-linear decoder produces GiBs of
// garbage the runtime may still collect it; TotalAlloc/Mallocs are cumulative
// and not affected), on the calling goroutine.
func (d *Decoder) measure(in []byte) Result {
	runtime.GC()
	oldPct := debug.SetGCPercent(-1)
	oldLim := debug.SetMemoryLimit(3 << 30)
	defer func() {
		debug.SetGCPercent(oldPct)
		debug.SetMemoryLimit(oldLim)
		runtime.GC()
	}()
	return Guard(d.Name, clip(in, 64), func() (any, error) { return d.Decode(in) })
}

// RunScaling builds the scenario at N and 8N elements (the 8N encoding is
// between 100 and 300 KiB; N, element payload size 0-3 and the target size
// are drawn by a rapid generator from seed), decodes both and requires
// TotalAlloc and Mallocs of the 8N decode to be at most 16x those of the N
// decode (+ slack), both decodes to succeed and the decoded values to
// re-encode to the input bytes (or, without an encoder, to equal the model).
func RunScaling(t *testing.T, sc Scenario, seed int) {
	type params struct{ sz, targetKiB int }
	p := rapid.Custom(func(t *rapid.T) params {
		return params{rapid.IntRange(0, 3).Draw(t, "sz"), rapid.IntRange(100, 300).Draw(t, "targetKiB")}
	}).Example(seed)
	d := sc.D
	wire := func(n int) (any, []byte) {
		m := sc.Build(n, p.sz)
		b, err := d.wire(m)
		if err != nil {
			t.Fatalf("%s: scaling message with %d elements does not encode: %v", sc.Name, n, err)
		}
		return m, b
	}
	_, p64 := wire(64)
	_, p128 := wire(128)
	perElem := (len(p128) - len(p64)) / 64
	if perElem < 1 {
		t.Fatalf("%s: encoding does not grow with the element count (%d -> %d bytes)", sc.Name, len(p64), len(p128))
	}
	n := p.targetKiB * 1024 / 8 / perElem
	if n < 16 {
		n = 16
	}
	mS, inS := wire(n)
	mL, inL := wire(8 * n)

	check := func(m any, in []byte, r Result, what string) {
		if r.Panic != nil {
			t.Fatalf("%s: decoder panicked on the %s valid message (%d bytes): %v\n%s", sc.Name, what, len(in), r.Panic, r.Stack)
		}
		if r.Err != nil {
			t.Fatalf("%s: %s valid message (%d bytes) rejected: %v", sc.Name, what, len(in), r.Err)
		}
		if d.Encode != nil {
			enc, err := d.Encode(r.Msg)
			if err != nil || !bytes.Equal(enc, in) {
				t.Fatalf("%s: the message decoded from the %s input (%d bytes) does not re-encode to the input (err %v, %d bytes)", sc.Name, what, len(in), err, len(enc))
			}
		} else if d.canon(m) != d.canon(r.Msg) {
			t.Fatalf("%s: the message decoded from the %s input differs from the generated one", sc.Name, what)
		}
	}
	// small: minimum of two (the first decode of a type also fills reflection caches)
	rS := d.measure(inS)
	check(mS, inS, rS, "N")
	if r := d.measure(inS); r.Panic == nil && r.Err == nil {
		if r.Alloc < rS.Alloc {
			rS.Alloc = r.Alloc
		}
		if r.Mallocs < rS.Mallocs {
			rS.Mallocs = r.Mallocs
		}
	}
	over := func(r Result) bool {
		return r.Alloc > ScaleFactor*rS.Alloc+ScaleAllocSlack || r.Mallocs > ScaleFactor*rS.Mallocs+ScaleMallocSlack
	}
	// large: re-measured (up to three times, minimum) only when over the bound
	rL := d.measure(inL)
	check(mL, inL, rL, "8N")
	for i := 0; i < 2 && over(rL); i++ {
		r := d.measure(inL)
		if r.Alloc < rL.Alloc {
			rL.Alloc = r.Alloc
		}
		if r.Mallocs < rL.Mallocs {
			rL.Mallocs = r.Mallocs
		}
	}
	descr := fmt.Sprintf("%s scaling sz=%d N=%d (%d bytes: alloc %d, objects %d) 8N=%d (%d bytes: alloc %d, objects %d) ratio alloc %.1f objects %.1f",
		sc.Name, p.sz, n, len(inS), rS.Alloc, rS.Mallocs, 8*n, len(inL), rL.Alloc, rL.Mallocs,
		float64(rL.Alloc)/float64(rS.Alloc+1), float64(rL.Mallocs)/float64(rS.Mallocs+1))
	fmt.Println("C33-SCALING " + descr)
	if over(rL) {
		t.Fatalf("%s: decoding cost grows faster than linearly with the number of elements: %d elements (%d bytes) allocate %d bytes / %d objects, %d elements (%d bytes) allocate %d bytes / %d objects; bound %d*small+%d bytes, %d*small+%d objects",
			sc.Name, n, len(inS), rS.Alloc, rS.Mallocs, 8*n, len(inL), rL.Alloc, rL.Mallocs, ScaleFactor, ScaleAllocSlack, ScaleFactor, ScaleMallocSlack)
	}
	kit.Case(descr, true, sc.Name+"/scaling")
}

// ScalingSeed is the seed of the scaling parameters: VERIF_SEED (default 1).
func ScalingSeed() int {
	s := 1
	fmt.Sscanf(os.Getenv("VERIF_SEED"), "%d", &s)
	if s <= 0 {
		s = 1
	}
	return s
}
