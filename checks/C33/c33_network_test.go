package network

// C33 - network message decoders withstand arbitrary peer input.
// Unit injected into dot/network (unexported decoders); it also drives the
// exported decoders of dot/network/messages and dot/types.

import (
	"bytes"
	"encoding/hex"
	"fmt"
	"os"
	"runtime"
	"runtime/pprof"
	"strings"
	"testing"
	"time"

	"github.com/ChainSafe/gossamer/dot/network/messages"
	pb "github.com/ChainSafe/gossamer/dot/network/proto"
	"github.com/ChainSafe/gossamer/dot/types"
	"github.com/ChainSafe/gossamer/internal/verifchk/c33h"
	kit "github.com/ChainSafe/gossamer/internal/verifkit"
	"github.com/ChainSafe/gossamer/lib/common"
	"github.com/ChainSafe/gossamer/pkg/scale"
	"github.com/ChainSafe/gossamer/pkg/trie"
	"google.golang.org/protobuf/proto"
	"pgregory.net/rapid"
)

const c33Rule = "per decoder: a generated valid message is encoded, then fed as-is / truncated (one cut or every cut) / with 1-3 byte or bit mutations " +
	"(half of them on length-prefix or protobuf tag/length bytes) / with a hostile length prefix written over a real prefix position (SCALE compact 2^14..2^64-1, " +
	"big-int headers, non-canonical; protobuf varints 2^24..2^64-1, overlong, unterminated) optionally followed by 0-40 bytes / with one length-delimited item " +
	"consistently resized / as random bytes / with bytes inserted or deleted. Oracle for all: no panic, bytes allocated <= 2048*len+1MiB, objects allocated <= 64*len+16Ki, " +
	"returns within 30 s (watchdog), success => non-nil message m with decode(encode(m)) == m; valid inputs must decode to the generated message. " +
	"non-trivial = a changed input that still decodes, or an executed crafted-length input; distinct by (decoder, variant, input bytes)"

// ---------------------------------------------------------------- generators

func c33Hash(t *rapid.T, label string) common.Hash {
	switch rapid.IntRange(0, 3).Draw(t, label+"-kind") {
	case 0:
		return common.Hash{}
	case 1:
		var h common.Hash
		for i := range h {
			h[i] = 0xff
		}
		return h
	}
	var h common.Hash
	copy(h[:], rapid.SliceOfN(rapid.Byte(), 32, 32).Draw(t, label))
	return h
}

var c33Lens = []int{0, 0, 1, 1, 2, 3, 4, 5, 8, 31, 32, 33, 63, 64, 65, 100, 300}

func c33Bytes(t *rapid.T, label string) []byte {
	n := rapid.SampledFrom(c33Lens).Draw(t, label+"-len")
	if rapid.IntRange(0, 149).Draw(t, label+"-big") == 0 {
		n = rapid.SampledFrom([]int{16383, 16384, 20000}).Draw(t, label+"-biglen")
	}
	seed := rapid.Byte().Draw(t, label+"-seed")
	b := make([]byte, n)
	for i := range b {
		b[i] = seed + byte(i*13)
	}
	return b
}

// short byte strings (used inside vectors so messages stay small)
func c33Short(t *rapid.T, label string) []byte {
	n := rapid.SampledFrom([]int{0, 1, 2, 4, 31, 32, 33, 64, 70}).Draw(t, label+"-len")
	seed := rapid.Byte().Draw(t, label+"-seed")
	b := make([]byte, n)
	for i := range b {
		b[i] = seed ^ byte(i*7)
	}
	return b
}

func c33BytesList(t *rapid.T, label string, max int) [][]byte {
	n := rapid.IntRange(0, max).Draw(t, label+"-n")
	out := make([][]byte, n)
	for i := range out {
		out[i] = c33Short(t, fmt.Sprintf("%s-%d", label, i))
	}
	return out
}

func c33Number(t *rapid.T) uint {
	// block numbers are u32 on the wire protocols of Polkadot; values in
	// [2^32, 2^56) are not produced (pkg/scale cannot round-trip them, C11)
	if rapid.Bool().Draw(t, "num-boundary") {
		return rapid.SampledFrom([]uint{0, 1, 63, 64, 16383, 16384, 1<<30 - 1, 1 << 30, 1<<32 - 1}).Draw(t, "num")
	}
	return uint(rapid.Uint32().Draw(t, "num"))
}

func c33Digest(t *rapid.T) types.Digest {
	d := types.NewDigest()
	n := rapid.IntRange(0, 4).Draw(t, "ndigest")
	for i := 0; i < n; i++ {
		var id types.ConsensusEngineID
		copy(id[:], rapid.SampledFrom([]string{"BABE", "FRNK", "BEEF", "\x00\x00\x00\x00"}).Draw(t, "engine"))
		data := c33Short(t, fmt.Sprintf("digest-%d", i))
		var err error
		switch rapid.IntRange(0, 4).Draw(t, "digest-kind") {
		case 4:
			// "Other" item (enum index 0, opaque bytes). It was added to dot/types by a
			// later fix commit; it is built through the decoder and skipped on a tree
			// that does not know it, so the check compiles against both.
			var item types.DigestItem
			if scale.Unmarshal(append(append([]byte{0}, c33h.SpecCompact(uint64(len(data)))...), data...), &item) == nil {
				d = append(d, item)
			}
		case 0:
			err = d.Add(types.PreRuntimeDigest{ConsensusEngineID: id, Data: data})
		case 1:
			err = d.Add(types.ConsensusDigest{ConsensusEngineID: id, Data: data})
		case 2:
			err = d.Add(types.SealDigest{ConsensusEngineID: id, Data: data})
		case 3:
			err = d.Add(types.RuntimeEnvironmentUpdated{})
		}
		if err != nil {
			t.Fatalf("digest add: %v", err)
		}
	}
	return d
}

func c33Header(t *rapid.T) *types.Header {
	return &types.Header{
		ParentHash:     c33Hash(t, "parent"),
		Number:         c33Number(t),
		StateRoot:      c33Hash(t, "state"),
		ExtrinsicsRoot: c33Hash(t, "ext"),
		Digest:         c33Digest(t),
	}
}

func c33Extrinsics(t *rapid.T, min, max int) []types.Extrinsic {
	n := rapid.IntRange(min, max).Draw(t, "next")
	out := make([]types.Extrinsic, n)
	for i := range out {
		out[i] = c33Short(t, fmt.Sprintf("ext-%d", i))
	}
	return out
}

// ---------------------------------------------------------------- wire shapes (for prefix positions / trigger class)

var (
	shHash       = c33h.Arr(32)
	shDigestItem = func() *c33h.Shape {
		item := c33h.Struct(c33h.Arr(4), c33h.Bytes())
		// 0 = "Other": a named byte-slice type, decoded element by element (no decodeBytes)
		return c33h.Enum(map[byte]*c33h.Shape{0: c33h.Vec(c33h.Arr(1)), 4: item, 5: item, 6: item, 8: c33h.Struct()})
	}()
	shHeader        = c33h.Struct(shHash, c33h.Compact(), shHash, shHash, c33h.Vec(shDigestItem))
	shBlockAnnounce = c33h.Struct(shHash, c33h.Compact(), shHash, shHash, c33h.Vec(shDigestItem), c33h.Bool())
	shBAHandshake   = c33h.Struct(c33h.Arr(1), c33h.Int(4), shHash, shHash)
	shTransactions  = c33h.Vec(c33h.Vec(c33h.Arr(1)))
	shBody          = c33h.Vec(c33h.Bytes())
	shLightRequest  = c33h.Struct(
		c33h.Struct(c33h.Bytes(), c33h.Bytes(), c33h.Bytes()),
		c33h.Struct(c33h.Bytes(), c33h.Vec(c33h.Bytes())),
		c33h.Struct(c33h.Bytes()),
		c33h.Struct(c33h.Bytes(), c33h.Bytes(), c33h.Vec(c33h.Bytes())),
		c33h.Struct(c33h.Option(shHash), c33h.Option(shHash), c33h.Bytes(), c33h.Bytes(), c33h.Option(c33h.Bytes())),
	)
	shLightResponse = c33h.Struct(
		c33h.Struct(c33h.Bytes()),
		c33h.Struct(c33h.Bytes()),
		c33h.Struct(c33h.Vec(c33h.Option(shHeader))),
		c33h.Struct(c33h.Bytes(), c33h.Vec(c33h.Bytes()), c33h.Vec(c33h.Vec(c33h.Struct(c33h.Bytes(), c33h.Bytes()))), c33h.Bytes()),
	)
	shWarpRequest = c33h.Struct(shHash)
)

// ---------------------------------------------------------------- decoders

func canonBlockResponse(m any) string {
	br := m.(*messages.BlockResponseMessage)
	var sb strings.Builder
	for _, bd := range br.BlockData {
		if bd == nil {
			sb.WriteString("<nil block>;")
			continue
		}
		optBytes := func(p *[]byte, emptyIsNil bool) string {
			if p == nil || (emptyIsNil && len(*p) == 0) {
				return "nil"
			}
			return fmt.Sprintf("&%x", *p)
		}
		body := "nil"
		if bd.Body != nil {
			body = c33h.Canon([]types.Extrinsic(*bd.Body))
		}
		// protobuf cannot carry "present but empty" for receipt / message queue
		// (justification has the is_empty_justification flag): nil == empty there.
		fmt.Fprintf(&sb, "{hash=%x header=%s body=%s receipt=%s mq=%s just=%s};", bd.Hash[:], c33h.Canon(bd.Header), body,
			optBytes(bd.Receipt, true), optBytes(bd.MessageQueue, true), optBytes(bd.Justification, false))
	}
	return sb.String()
}

func screenBlockResponse(in []byte) bool {
	msg := &pb.BlockResponse{}
	if proto.Unmarshal(in, msg) != nil {
		return false
	}
	for _, b := range msg.Blocks {
		if b.Header != nil && c33h.WalkScale(shHeader, b.Header).PreallocTrigger() {
			return true
		}
		if b.Body != nil {
			enc := c33h.SpecCompact(uint64(len(b.Body)))
			for _, e := range b.Body {
				enc = append(enc, e...)
			}
			if c33h.WalkScale(shBody, enc).PreallocTrigger() {
				return true
			}
		}
	}
	return false
}

var c33Decoders = []*c33h.Decoder{
	{
		Name: "BlockAnnounceMessage",
		Gen: func(t *rapid.T) any {
			return &BlockAnnounceMessage{
				ParentHash: c33Hash(t, "parent"), Number: c33Number(t), StateRoot: c33Hash(t, "state"),
				ExtrinsicsRoot: c33Hash(t, "ext"), Digest: c33Digest(t), BestBlock: rapid.Bool().Draw(t, "best"),
			}
		},
		Encode: func(m any) ([]byte, error) { return m.(*BlockAnnounceMessage).Encode() },
		Decode: func(in []byte) (any, error) { return decodeBlockAnnounceMessage(in) },
		Shape:  shBlockAnnounce,
	},
	{
		Name: "BlockAnnounceHandshake",
		Gen: func(t *rapid.T) any {
			return &BlockAnnounceHandshake{
				Roles:           common.NetworkRole(rapid.SampledFrom([]byte{0, 1, 2, 4, 255}).Draw(t, "role")),
				BestBlockNumber: rapid.Uint32().Draw(t, "best"), BestBlockHash: c33Hash(t, "besthash"), GenesisHash: c33Hash(t, "genesis"),
			}
		},
		Encode: func(m any) ([]byte, error) { return m.(*BlockAnnounceHandshake).Encode() },
		Decode: func(in []byte) (any, error) { return decodeBlockAnnounceHandshake(in) },
		Shape:  shBAHandshake,
	},
	{
		Name:   "TransactionMessage",
		Gen:    func(t *rapid.T) any { return &TransactionMessage{Extrinsics: c33Extrinsics(t, 0, 5)} },
		Encode: func(m any) ([]byte, error) { return m.(*TransactionMessage).Encode() },
		Decode: func(in []byte) (any, error) { return decodeTransactionMessage(in) },
		Shape:  shTransactions,
	},
	{
		Name:   "TransactionHandshake",
		Gen:    func(t *rapid.T) any { return &transactionHandshake{} },
		Encode: func(m any) ([]byte, error) { return m.(*transactionHandshake).Encode() },
		Decode: func(in []byte) (any, error) { return decodeTransactionHandshake(in) },
		Opaque: true,
	},
	{
		Name:   "ConsensusMessage",
		Gen:    func(t *rapid.T) any { return &ConsensusMessage{Data: c33Short(t, "data")} },
		Encode: func(m any) ([]byte, error) { return m.(*ConsensusMessage).Encode() },
		Decode: func(in []byte) (any, error) {
			m := new(ConsensusMessage)
			err := m.Decode(in)
			return m, err
		},
		Opaque: true,
	},
	{
		Name: "LightRequest",
		Gen: func(t *rapid.T) any {
			l := NewLightRequest()
			l.RemoteCallRequest.Block = c33Bytes(t, "call-block")
			l.RemoteCallRequest.Method = string(c33Short(t, "method"))
			l.RemoteCallRequest.Data = c33Short(t, "data")
			l.RemoteReadRequest.Block = c33Short(t, "read-block")
			l.RemoteReadRequest.Keys = c33BytesList(t, "read-keys", 3)
			l.RemoteHeaderRequest.Block = c33Short(t, "header-block")
			l.RemoteReadChildRequest.Block = c33Short(t, "child-block")
			l.RemoteReadChildRequest.StorageKey = c33Short(t, "child-key")
			l.RemoteReadChildRequest.Keys = c33BytesList(t, "child-keys", 3)
			if rapid.Bool().Draw(t, "first") {
				h := c33Hash(t, "first-hash")
				l.RemoteChangesRequest.FirstBlock = &h
			}
			if rapid.Bool().Draw(t, "last") {
				h := c33Hash(t, "last-hash")
				l.RemoteChangesRequest.LastBlock = &h
			}
			l.RemoteChangesRequest.Min = c33Short(t, "min")
			l.RemoteChangesRequest.Max = c33Short(t, "max")
			if rapid.Bool().Draw(t, "skey") {
				k := c33Short(t, "storage-key")
				l.RemoteChangesRequest.StorageKey = &k
			}
			return l
		},
		Encode: func(m any) ([]byte, error) { return m.(*LightRequest).Encode() },
		Decode: func(in []byte) (any, error) { return newLightRequestFromBytes(in) },
		Shape:  shLightRequest,
	},
	{
		Name: "LightResponse",
		Gen: func(t *rapid.T) any {
			l := NewLightResponse()
			l.RemoteCallResponse.Proof = c33Bytes(t, "call-proof")
			l.RemoteReadResponse.Proof = c33Short(t, "read-proof")
			nh := rapid.IntRange(0, 2).Draw(t, "nheaders")
			for i := 0; i < nh; i++ {
				if rapid.IntRange(0, 3).Draw(t, "nilheader") == 0 {
					l.RemoteHeaderResponse.Header = append(l.RemoteHeaderResponse.Header, nil)
				} else {
					l.RemoteHeaderResponse.Header = append(l.RemoteHeaderResponse.Header, c33Header(t))
				}
			}
			l.RemoteChangesResponse.Max = c33Short(t, "max")
			l.RemoteChangesResponse.Proof = c33BytesList(t, "proof", 3)
			nr := rapid.IntRange(0, 2).Draw(t, "nroots")
			for i := 0; i < nr; i++ {
				np := rapid.IntRange(0, 2).Draw(t, "npairs")
				pairs := make([]Pair, np)
				for j := range pairs {
					pairs[j] = Pair{First: c33Short(t, "first"), Second: c33Short(t, "second")}
				}
				l.RemoteChangesResponse.Roots = append(l.RemoteChangesResponse.Roots, pairs)
			}
			l.RemoteChangesResponse.RootsProof = c33Short(t, "roots-proof")
			return l
		},
		Encode: func(m any) ([]byte, error) { return m.(*LightResponse).Encode() },
		Decode: func(in []byte) (any, error) { return newLightResponseFromBytes(in) },
		Shape:  shLightResponse,
	},
	{
		Name: "BlockRequestMessage",
		Gen: func(t *rapid.T) any {
			m := &messages.BlockRequestMessage{
				RequestedData: rapid.SampledFrom([]byte{0, 1, 2, 3, 16, 19, 31, 255}).Draw(t, "fields"),
				Direction:     messages.SyncDirection(rapid.IntRange(0, 1).Draw(t, "dir")),
			}
			if rapid.Bool().Draw(t, "byhash") {
				m.StartingBlock = *messages.NewFromBlock(c33Hash(t, "from"))
			} else {
				m.StartingBlock = *messages.NewFromBlock(c33Number(t))
			}
			if rapid.Bool().Draw(t, "hasmax") {
				v := rapid.SampledFrom([]uint32{1, 2, 127, 128, 129, 1 << 31, 1<<32 - 1}).Draw(t, "max")
				m.Max = &v
			}
			return m
		},
		Encode: func(m any) ([]byte, error) { return m.(*messages.BlockRequestMessage).Encode() },
		Decode: func(in []byte) (any, error) {
			return decodeSyncMessage(in, "", true)
		},
		Proto: true,
	},
	{
		Name: "BlockResponseMessage",
		Gen: func(t *rapid.T) any {
			n := rapid.IntRange(0, 3).Draw(t, "nblocks")
			m := &messages.BlockResponseMessage{BlockData: make([]*types.BlockData, n)}
			for i := range m.BlockData {
				bd := &types.BlockData{Hash: c33Hash(t, "hash")}
				if rapid.Bool().Draw(t, "header") {
					bd.Header = c33Header(t)
				}
				if rapid.Bool().Draw(t, "body") {
					bd.Body = types.NewBody(c33Extrinsics(t, 1, 3))
				}
				if rapid.Bool().Draw(t, "receipt") {
					b := c33Short(t, "receipt")
					bd.Receipt = &b
				}
				if rapid.Bool().Draw(t, "mq") {
					b := c33Short(t, "mq")
					bd.MessageQueue = &b
				}
				if rapid.Bool().Draw(t, "just") {
					b := c33Short(t, "just")
					bd.Justification = &b
				}
				m.BlockData[i] = bd
			}
			return m
		},
		Encode: func(m any) ([]byte, error) { return m.(*messages.BlockResponseMessage).Encode() },
		Decode: func(in []byte) (any, error) {
			m := new(messages.BlockResponseMessage)
			err := m.Decode(in)
			return m, err
		},
		Canon:  canonBlockResponse,
		Proto:  true,
		Screen: screenBlockResponse,
	},
	{
		Name: "StateRequest",
		Gen: func(t *rapid.T) any {
			return &messages.StateRequest{Block: c33Hash(t, "block"), Start: c33BytesList(t, "start", 3), NoProof: rapid.Bool().Draw(t, "noproof")}
		},
		Encode: func(m any) ([]byte, error) { return m.(*messages.StateRequest).Encode() },
		Decode: func(in []byte) (any, error) {
			m := new(messages.StateRequest)
			err := m.Decode(in)
			return m, err
		},
		Proto: true,
	},
	{
		Name: "StateResponse",
		// StateResponse has no encoder in the repository: the generated value is the
		// message the decoder must produce, its wire bytes are built with the protobuf library.
		Gen: func(t *rapid.T) any {
			m := &messages.StateResponse{Proof: c33Short(t, "proof")}
			n := rapid.IntRange(0, 3).Draw(t, "nentries")
			for i := 0; i < n; i++ {
				e := messages.KeyValueStateEntry{StateRoot: c33Hash(t, "root"), Complete: rapid.Bool().Draw(t, "complete")}
				ne := rapid.IntRange(0, 3).Draw(t, "nkv")
				e.StateEntries = make(trie.Entries, ne)
				for j := range e.StateEntries {
					e.StateEntries[j] = trie.Entry{Key: c33Short(t, "k"), Value: c33Short(t, "v")}
				}
				m.Entries = append(m.Entries, e)
			}
			return m
		},
		Wire: func(m any) ([]byte, error) {
			sr := m.(*messages.StateResponse)
			p := &pb.StateResponse{Proof: sr.Proof}
			for _, e := range sr.Entries {
				pe := &pb.KeyValueStateEntry{StateRoot: e.StateRoot.ToBytes(), Complete: e.Complete}
				for _, kv := range e.StateEntries {
					pe.Entries = append(pe.Entries, &pb.StateEntry{Key: kv.Key, Value: kv.Value})
				}
				p.Entries = append(p.Entries, pe)
			}
			return proto.Marshal(p)
		},
		Decode: func(in []byte) (any, error) {
			m := new(messages.StateResponse)
			err := m.Decode(in)
			return m, err
		},
		Proto: true,
	},
	{
		Name:   "WarpProofRequest",
		Gen:    func(t *rapid.T) any { return &messages.WarpProofRequest{Begin: c33Hash(t, "begin")} },
		Encode: func(m any) ([]byte, error) { return m.(*messages.WarpProofRequest).Encode() },
		Decode: func(in []byte) (any, error) { return decodeWarpSyncMessage(in, "", true) },
		Shape:  shWarpRequest,
	},
	{
		Name: "Body",
		Gen:  func(t *rapid.T) any { return types.NewBody(c33Extrinsics(t, 0, 5)) },
		Encode: func(m any) ([]byte, error) {
			return scale.Marshal([]types.Extrinsic(*m.(*types.Body)))
		},
		Decode: func(in []byte) (any, error) { return types.NewBodyFromBytes(in) },
		Shape:  shBody,
	},
}

func c33Decoder(name string) *c33h.Decoder {
	for _, d := range c33Decoders {
		if d.Name == name {
			return d
		}
	}
	panic("no decoder " + name)
}

func c33Run(t *testing.T, name string) {
	defer kit.Flush()
	kit.Note("rule", c33Rule)
	d := c33Decoder(name)
	defer d.ReportRatios()
	rapid.Check(t, func(t *rapid.T) { c33h.RunCase(t, d) })
}

func TestC33BlockAnnounceMessage(t *testing.T)   { c33Run(t, "BlockAnnounceMessage") }
func TestC33BlockAnnounceHandshake(t *testing.T) { c33Run(t, "BlockAnnounceHandshake") }
func TestC33TransactionMessage(t *testing.T)     { c33Run(t, "TransactionMessage") }
func TestC33TransactionHandshake(t *testing.T)   { c33Run(t, "TransactionHandshake") }
func TestC33ConsensusMessage(t *testing.T)       { c33Run(t, "ConsensusMessage") }
func TestC33LightRequest(t *testing.T)           { c33Run(t, "LightRequest") }
func TestC33LightResponse(t *testing.T)          { c33Run(t, "LightResponse") }
func TestC33BlockRequestMessage(t *testing.T)    { c33Run(t, "BlockRequestMessage") }
func TestC33BlockResponseMessage(t *testing.T)   { c33Run(t, "BlockResponseMessage") }
func TestC33StateRequest(t *testing.T)           { c33Run(t, "StateRequest") }
func TestC33StateResponse(t *testing.T)          { c33Run(t, "StateResponse") }
func TestC33WarpProofRequest(t *testing.T)       { c33Run(t, "WarpProofRequest") }
func TestC33Body(t *testing.T)                   { c33Run(t, "Body") }

// ---------------------------------------------------------------- native fuzz targets

func c33Fuzz(f *testing.F, name string) {
	d := c33Decoder(name)
	c33h.SeedCorpus(f, d)
	f.Fuzz(c33h.FuzzBody(d))
}

func FuzzC33BlockAnnounceMessage(f *testing.F)   { c33Fuzz(f, "BlockAnnounceMessage") }
func FuzzC33BlockAnnounceHandshake(f *testing.F) { c33Fuzz(f, "BlockAnnounceHandshake") }
func FuzzC33TransactionMessage(f *testing.F)     { c33Fuzz(f, "TransactionMessage") }
func FuzzC33LightRequest(f *testing.F)           { c33Fuzz(f, "LightRequest") }
func FuzzC33LightResponse(f *testing.F)          { c33Fuzz(f, "LightResponse") }
func FuzzC33BlockRequestMessage(f *testing.F)    { c33Fuzz(f, "BlockRequestMessage") }
func FuzzC33BlockResponseMessage(f *testing.F)   { c33Fuzz(f, "BlockResponseMessage") }
func FuzzC33StateRequest(f *testing.F)           { c33Fuzz(f, "StateRequest") }
func FuzzC33StateResponse(f *testing.F)          { c33Fuzz(f, "StateResponse") }
func FuzzC33WarpProofRequest(f *testing.F)       { c33Fuzz(f, "WarpProofRequest") }
func FuzzC33Body(f *testing.F)                   { c33Fuzz(f, "Body") }

// ---------------------------------------------------------------- length bombs (one process, sequential)

// c33BombFamilies are the decoder families whose wire format contains SCALE
// byte strings (pkg/scale decodeBytes).
var c33BombFamilies = []string{"Body", "BlockAnnounceMessage", "LightRequest", "LightResponse"}

type c33BombResult struct {
	family    string
	input     []byte
	alloc     uint64
	panicked  any
	overBound bool
}

// c33RunBombs executes generated length bombs of every family sequentially in
// this process: a valid generated message, one byte-string prefix overwritten
// with a declared length of 2^26 (64 MiB; for Body additionally 2^30-1), input
// cut one byte later. Larger declared lengths (up to 2^32-1 are accepted by
// decodeBytes) are not executed: zeroing and faulting GiBs takes minutes on a
// loaded machine.
func c33RunBombs(t *testing.T) (res []c33BombResult) {
	// a large allocation is not a microsecond operation: page faults and GC
	// assists on a loaded machine were seen to take > 10 s
	old := c33h.HangAfter
	c33h.HangAfter = 10 * time.Minute
	defer func() { c33h.HangAfter = old }()
	for _, name := range c33BombFamilies {
		d := c33Decoder(name)
		gen := rapid.Custom(func(t *rapid.T) []byte {
			b, err := d.ValidWire(d.Gen(t))
			if err != nil {
				t.Fatalf("encode: %v", err)
			}
			return b
		})
		var bombs [][]byte
		for seed := 1; seed <= 40 && len(bombs) == 0; seed++ {
			bs := c33h.Bombs(d, gen.Example(seed), []byte{0x02, 0x00, 0x00, 0x10})
			if len(bs) > 0 {
				bombs = append(bombs, bs[len(bs)-1]) // the deepest byte string of the message
				if name == "Body" {
					bombs = append(bombs, c33h.Bombs(d, gen.Example(seed), []byte{0xfe, 0xff, 0xff, 0xff})[0])
				}
			}
		}
		if len(bombs) == 0 {
			t.Fatalf("%s: no byte-string prefix found in generated messages", name)
		}
		for _, in := range bombs {
			if !d.Triggered(in) {
				t.Fatalf("%s: bomb %x not recognised as trigger class", name, in)
			}
			r := c33h.Guard(name, in, func() (any, error) { return d.Decode(in) })
			res = append(res, c33BombResult{name, in, r.Alloc, r.Panic, r.Alloc > c33h.AllocBound(len(in))})
			kit.Case(fmt.Sprintf("%s bomb in=%x alloc=%d", name, in, r.Alloc), true, name+"/length-bomb")
		}
	}
	// SCALE nested in protobuf: block response with a header / body item that declares 2^26 bytes
	d := c33Decoder("BlockResponseMessage")
	hdr, _ := scale.Marshal(types.Header{Digest: types.Digest{}})
	hdr = append(hdr[:len(hdr)-1], 0x04, 0x06, 'B', 'A', 'B', 'E', 0x02, 0x00, 0x00, 0x10) // one pre-runtime digest declaring 2^26 bytes
	for _, blk := range []*pb.BlockData{
		{Hash: make([]byte, 32), Header: hdr},
		{Hash: make([]byte, 32), Body: [][]byte{{0x02, 0x00, 0x00, 0x10, 0x01}}},
	} {
		in, err := proto.Marshal(&pb.BlockResponse{Blocks: []*pb.BlockData{blk}})
		if err != nil {
			t.Fatal(err)
		}
		if !screenBlockResponse(in) {
			t.Fatalf("screenBlockResponse does not recognise bomb %x", in)
		}
		r := c33h.Guard(d.Name, in, func() (any, error) { return d.Decode(in) })
		res = append(res, c33BombResult{d.Name, in, r.Alloc, r.Panic, r.Alloc > c33h.AllocBound(len(in))})
		kit.Case(fmt.Sprintf("%s bomb in=%x alloc=%d", d.Name, in, r.Alloc), true, d.Name+"/length-bomb")
	}
	return res
}

// TestC33KnownScalePrealloc is the witness of finding C33-scale-prealloc and,
// at the same time, the dedicated sequential run of the length-bomb class.
// While the finding is listed, the generators above steer around exactly this
// class; this test executes it. When the finding is not listed, an input that
// allocates beyond the bound is a failure like any other.
func TestC33KnownScalePrealloc(t *testing.T) {
	defer kit.Flush()
	res := c33RunBombs(t)
	over := map[string]int{}
	var first *c33BombResult
	for i, r := range res {
		if r.panicked != nil {
			t.Fatalf("%s: length bomb %x panicked (different signature): %v", r.family, r.input, r.panicked)
		}
		if r.overBound {
			over[r.family]++
			if first == nil {
				first = &res[i]
			}
		}
	}
	if first == nil {
		kit.WitnessResult(c33h.PreallocFinding, false, "")
		return
	}
	var fams []string
	for _, n := range append(c33BombFamilies, "BlockResponseMessage") {
		if over[n] > 0 {
			fams = append(fams, fmt.Sprintf("%s(%d)", n, over[n]))
		}
	}
	detail := fmt.Sprintf("families %s; e.g. %s input %x (%d bytes) allocated %d bytes", strings.Join(fams, ","), first.family, first.input, len(first.input), first.alloc)
	if kit.KnownOpen(c33h.PreallocFinding) {
		kit.WitnessResult(c33h.PreallocFinding, true, detail)
		return
	}
	t.Fatalf("declared-length pre-allocation: %s", detail)
}

// ---------------------------------------------------------------- self checks and regressions

// TestC33HarnessSelfCheck: the shape walker finds the prefixes of valid
// encodings exactly (consumes the whole encoding, no error), i.e. the crafted
// prefixes land on real prefix positions; the allocation meter sees a 1 MiB
// allocation.
func TestC33HarnessSelfCheck(t *testing.T) {
	defer kit.Flush()
	for _, d := range c33Decoders {
		if d.Shape == nil {
			continue
		}
		gen := rapid.Custom(func(t *rapid.T) []byte {
			b, err := d.ValidWire(d.Gen(t))
			if err != nil {
				t.Fatalf("encode: %v", err)
			}
			return b
		})
		for seed := 1; seed <= 200; seed++ {
			enc := gen.Example(seed)
			w := c33h.WalkScale(d.Shape, enc)
			if w.Err || w.Consumed != len(enc) {
				t.Fatalf("%s: shape walker does not cover valid encoding %x (err=%v consumed=%d of %d)", d.Name, enc, w.Err, w.Consumed, len(enc))
			}
			if w.PreallocTrigger() {
				t.Fatalf("%s: valid encoding classified as pre-allocation trigger", d.Name)
			}
		}
	}
	var sink []byte
	r := c33h.Guard("meter", nil, func() (any, error) { sink = make([]byte, 1<<20); return nil, nil })
	if r.Alloc < 1<<20 || r.Alloc > 1<<20+1<<16 || len(sink) == 0 {
		t.Fatalf("allocation meter: 1 MiB allocation measured as %d", r.Alloc)
	}
	r = c33h.Guard("meter", nil, func() (any, error) { panic("x") })
	if r.Panic == nil {
		t.Fatalf("panic not attributed")
	}
	if !bytes.Equal(c33h.SpecCompact(16384), []byte{0x02, 0x00, 0x01, 0x00}) || !bytes.Equal(c33h.SpecCompact(1<<32-1), []byte{0x03, 0xff, 0xff, 0xff, 0xff}) {
		t.Fatalf("SpecCompact")
	}
	kit.Case("selfcheck", false, "selfcheck")
}

// TestC33Regressions: fixed hostile inputs for every decoder (bypass the generator).
func TestC33Regressions(t *testing.T) {
	defer kit.Flush()
	inputs := [][]byte{
		{}, {0x00}, {0x01}, {0xff}, {0x04}, {0x08, 0x04},
		{0x1a, 0x03, 0x01, 0x02, 0x03},       // block request: from-number of 3 bytes
		{0x1a, 0x05, 0x01, 0x02, 0x03, 0, 0}, // block request: from-number of 5 bytes
		{0x1a, 0x00},                         // block request: empty from-number
		{0x12, 0x00},                         // block request: empty from-hash
		{0x08, 0x01},                         // block request without from_block
		{0x0a, 0x00},                         // block response: one empty block
		{0x0a, 0x02, 0x12, 0x00},             // block response: present-but-empty header
		{0x0a, 0x02, 0x1a, 0x00},             // block response: one empty body item
		{0x0a, 0x02, 0x38, 0x01},             // block response: is_empty_justification only
	}
	for _, h := range c33h.HostileCompact {
		inputs = append(inputs, h.B)
	}
	for _, d := range c33Decoders {
		for _, in := range inputs {
			if kit.KnownOpen(c33h.PreallocFinding) && d.Triggered(in) {
				kit.Excluded(c33h.PreallocFinding)
				continue
			}
			d.Judge(t, in, "regression")
			kit.Case(fmt.Sprintf("%s regression in=%x", d.Name, in), true, d.Name+"/regression")
		}
	}
}

// TestC33ReplayHex is a manual triage helper (not part of check.json):
// C33_DECODER=<name> C33_HEX=<input hex> [C33_MEMPROFILE=file] -test.run TestC33ReplayHex
func TestC33ReplayHex(t *testing.T) {
	name, hx := os.Getenv("C33_DECODER"), os.Getenv("C33_HEX")
	if name == "" {
		t.Skip("C33_DECODER not set")
	}
	in, err := hex.DecodeString(hx)
	if err != nil {
		t.Fatal(err)
	}
	d := c33Decoder(name)
	if d.Shape != nil {
		w := c33h.WalkScale(d.Shape, in)
		t.Logf("walk: err=%v consumed=%d sites=%+v trigger=%v", w.Err, w.Consumed, w.Sites, w.PreallocTrigger())
	}
	if p := os.Getenv("C33_MEMPROFILE"); p != "" {
		runtime.MemProfileRate = 1
		defer func() {
			f, _ := os.Create(p)
			_ = pprof.Lookup("allocs").WriteTo(f, 0)
			f.Close()
		}()
	}
	r := c33h.Guard(name, in, func() (any, error) { return d.Decode(in) })
	t.Logf("len=%d alloc=%d mallocs=%d err=%v panic=%v", len(in), r.Alloc, r.Mallocs, r.Err, r.Panic)
}

// ---------------------------------------------------------------- scaling (many small repeated elements)

func c33Elem(sz, i int) []byte {
	b := make([]byte, sz)
	for j := range b {
		b[j] = byte(i*31 + j*7 + 1)
	}
	return b
}

func c33Elems(n, sz int) [][]byte {
	out := make([][]byte, n)
	for i := range out {
		out[i] = c33Elem(sz, i)
	}
	return out
}

func c33ManyExtrinsics(n, sz int) []types.Extrinsic {
	out := make([]types.Extrinsic, n)
	for i := range out {
		out[i] = c33Elem(sz, i)
	}
	return out
}

func c33ManyDigests(n, sz int) types.Digest {
	d := types.NewDigest()
	for i := 0; i < n; i++ {
		var err error
		switch i % 3 {
		case 0:
			err = d.Add(types.PreRuntimeDigest{ConsensusEngineID: types.BabeEngineID, Data: c33Elem(sz, i)})
		case 1:
			err = d.Add(types.SealDigest{ConsensusEngineID: types.BabeEngineID, Data: c33Elem(sz, i)})
		default:
			err = d.Add(types.ConsensusDigest{ConsensusEngineID: types.GrandpaEngineID, Data: c33Elem(sz, i)})
		}
		if err != nil {
			panic(err)
		}
	}
	return d
}

func c33Scenarios() []c33h.Scenario {
	hash := func(i int) common.Hash { return common.BytesToHash(c33Elem(32, i)) }
	return []c33h.Scenario{
		{Name: "BlockResponseMessage/one-block-many-body-extrinsics", D: c33Decoder("BlockResponseMessage"), Build: func(n, sz int) any {
			return &messages.BlockResponseMessage{BlockData: []*types.BlockData{{Hash: hash(1), Body: types.NewBody(c33ManyExtrinsics(n, sz))}}}
		}},
		{Name: "BlockResponseMessage/many-blocks", D: c33Decoder("BlockResponseMessage"), Build: func(n, sz int) any {
			m := &messages.BlockResponseMessage{}
			for i := 0; i < n; i++ {
				j := c33Elem(sz, i)
				bd := &types.BlockData{Hash: hash(i), Justification: &j}
				if i%4 == 0 {
					bd.Body = types.NewBody(c33ManyExtrinsics(2, sz))
				}
				m.BlockData = append(m.BlockData, bd)
			}
			return m
		}},
		{Name: "BlockResponseMessage/header-many-digest-items", D: c33Decoder("BlockResponseMessage"), Build: func(n, sz int) any {
			return &messages.BlockResponseMessage{BlockData: []*types.BlockData{{Hash: hash(1),
				Header: &types.Header{ParentHash: hash(2), Number: 7, StateRoot: hash(3), ExtrinsicsRoot: hash(4), Digest: c33ManyDigests(n, sz)}}}}
		}},
		{Name: "BlockAnnounceMessage/many-digest-items", D: c33Decoder("BlockAnnounceMessage"), Build: func(n, sz int) any {
			return &BlockAnnounceMessage{ParentHash: hash(2), Number: 7, StateRoot: hash(3), ExtrinsicsRoot: hash(4), Digest: c33ManyDigests(n, sz), BestBlock: true}
		}},
		{Name: "TransactionMessage/many-extrinsics", D: c33Decoder("TransactionMessage"), Build: func(n, sz int) any {
			return &TransactionMessage{Extrinsics: c33ManyExtrinsics(n, sz)}
		}},
		{Name: "Body/many-extrinsics", D: c33Decoder("Body"), Build: func(n, sz int) any {
			return types.NewBody(c33ManyExtrinsics(n, sz))
		}},
		{Name: "LightRequest/many-keys", D: c33Decoder("LightRequest"), Build: func(n, sz int) any {
			l := NewLightRequest()
			l.RemoteReadRequest.Keys = c33Elems(n/2, sz)
			l.RemoteReadChildRequest.Keys = c33Elems(n-n/2, sz)
			return l
		}},
		{Name: "LightResponse/many-proof-nodes-and-roots", D: c33Decoder("LightResponse"), Build: func(n, sz int) any {
			l := NewLightResponse()
			l.RemoteChangesResponse.Proof = c33Elems(n, sz)
			for i := 0; i < n; i++ {
				l.RemoteChangesResponse.Roots = append(l.RemoteChangesResponse.Roots, []Pair{{First: c33Elem(sz, i), Second: c33Elem(sz, i+1)}})
			}
			return l
		}},
		{Name: "LightResponse/many-headers", D: c33Decoder("LightResponse"), Build: func(n, sz int) any {
			l := NewLightResponse()
			for i := 0; i < n; i++ {
				if i%8 == 0 {
					l.RemoteHeaderResponse.Header = append(l.RemoteHeaderResponse.Header,
						&types.Header{ParentHash: hash(i), Number: uint(i), Digest: c33ManyDigests(1, sz)})
				} else {
					l.RemoteHeaderResponse.Header = append(l.RemoteHeaderResponse.Header, nil)
				}
			}
			return l
		}},
		{Name: "StateRequest/many-start-keys", D: c33Decoder("StateRequest"), Build: func(n, sz int) any {
			return &messages.StateRequest{Block: hash(1), Start: c33Elems(n, sz)}
		}},
		{Name: "StateResponse/one-entry-many-key-values", D: c33Decoder("StateResponse"), Build: func(n, sz int) any {
			e := messages.KeyValueStateEntry{StateRoot: hash(1), Complete: true, StateEntries: make(trie.Entries, n)}
			for i := range e.StateEntries {
				e.StateEntries[i] = trie.Entry{Key: c33Elem(sz+1, i), Value: c33Elem(sz, i)}
			}
			return &messages.StateResponse{Entries: []messages.KeyValueStateEntry{e}}
		}},
		{Name: "StateResponse/many-entries", D: c33Decoder("StateResponse"), Build: func(n, sz int) any {
			m := &messages.StateResponse{}
			for i := 0; i < n; i++ {
				m.Entries = append(m.Entries, messages.KeyValueStateEntry{StateRoot: hash(i),
					StateEntries: trie.Entries{{Key: c33Elem(sz+1, i), Value: c33Elem(sz, i)}}})
			}
			return m
		}},
	}
}

// TestC33Scaling: per decoder family a valid message dominated by many small
// repeated elements at N and 8N elements (8N encoding 100-300 KiB); the
// measured allocation (bytes and objects, collector off, one goroutine) may
// grow at most 16x, and the decoded values re-encode to the inputs. Runs the
// scenarios sequentially in this process. No wall-clock oracle.
func TestC33Scaling(t *testing.T) {
	defer kit.Flush()
	old := c33h.HangAfter
	c33h.HangAfter = 10 * time.Minute
	defer func() { c33h.HangAfter = old }()
	seed := c33h.ScalingSeed()
	for i, sc := range c33Scenarios() {
		c33h.RunScaling(t, sc, seed*100+i)
	}
}
