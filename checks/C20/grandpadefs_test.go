// grandpadefs: the GRANDPA definitions evaluated by brute force on a full
// block tree. Shared by the C19 and C20 checks (both in-package in
// pkg/finality-grandpa). Nothing in this file calls the code under test: it
// is a pure model over integer block indices and voter indices.
//
//   weight(b)   = sum of the weights of the distinct voters that have a vote on
//                 b or on a descendant of b, plus every equivocator (a voter
//                 with >= 2 distinct votes in the phase counts for EVERY block);
//   threshold   = T - floor((T-1)/3), f = floor((T-1)/3) = T - threshold;
//   GHOST       = highest block with weight >= threshold, walking up from the
//                 base (unique while the equivocating weight is <= f);
//   finalized   = highest block on base..prevoteGHOST with precommit weight >= threshold
//                 (only once the precommit participation reached the threshold);
//   estimate    = highest block on base..prevoteGHOST for which a precommit
//                 supermajority is still possible (unvoted weight counts for the
//                 block, and at most f - e further equivocations among the voters
//                 that voted elsewhere), prevoteGHOST itself while precommit
//                 participation is below the threshold;
//   completable = estimate is a strict ancestor of the prevoteGHOST, or no block
//                 strictly above the prevoteGHOST can still get a supermajority.
package grandpa

import (
	"fmt"
	"sort"
	"strings"

	"pgregory.net/rapid"
)

// ---------------------------------------------------------------- block tree

type gTree struct {
	parent []int    // parent[0] == -1, parent[i] < i
	depth  []int    // depth[0] == 0
	label  []string // hash of block i (all distinct; order unrelated to the tree order)
	offset uint64   // block number of the root
	byHash map[string]int
}

func newGTree(parent []int, label []string, offset uint64) *gTree {
	t := &gTree{parent: parent, label: label, offset: offset, depth: make([]int, len(parent)), byHash: map[string]int{}}
	for i := range parent {
		if i > 0 {
			t.depth[i] = t.depth[parent[i]] + 1
		}
		t.byHash[label[i]] = i
	}
	return t
}

func (t *gTree) n() int           { return len(t.parent) }
func (t *gTree) num(i int) uint64 { return t.offset + uint64(t.depth[i]) }

// isAncOrEq: a is b or an ancestor of b.
func (t *gTree) isAncOrEq(a, b int) bool {
	for b >= 0 {
		if a == b {
			return true
		}
		b = t.parent[b]
	}
	return false
}

func (t *gTree) children(i int) []int {
	var cs []int
	for j := range t.parent {
		if t.parent[j] == i {
			cs = append(cs, j)
		}
	}
	return cs
}

func (t *gTree) describe() string {
	var sb strings.Builder
	fmt.Fprintf(&sb, "tree@%d[", t.offset)
	for i := range t.parent {
		if i > 0 {
			sb.WriteString(" ")
		}
		if i == 0 {
			sb.WriteString(t.label[0])
		} else {
			fmt.Fprintf(&sb, "%s<%s", t.label[i], t.label[t.parent[i]])
		}
	}
	sb.WriteString("]")
	return sb.String()
}

// gChain is the harness Chain implementation over the tree model. It does not
// mention the number type, so the same value serves the uint32 and the uint64
// instantiation.
type gChain struct {
	t     *gTree
	calls *int
}

// Ancestry: the ancestors of block from its parent down to, not including,
// base; an error if block is not a strict descendant of base (same contract as
// the repository's own dummy chain).
func (c gChain) Ancestry(base, block string) ([]string, error) {
	if c.calls != nil {
		*c.calls++
	}
	bi, ok1 := c.t.byHash[base]
	ki, ok2 := c.t.byHash[block]
	if !ok1 || !ok2 || bi == ki || !c.t.isAncOrEq(bi, ki) {
		return nil, fmt.Errorf("block %q is not a descendant of base %q", block, base)
	}
	out := []string{}
	for p := c.t.parent[ki]; p != bi; p = c.t.parent[p] {
		out = append(out, c.t.label[p])
	}
	return out, nil
}

func (c gChain) IsEqualOrDescendantOf(base, block string) bool {
	bi, ok1 := c.t.byHash[base]
	ki, ok2 := c.t.byHash[block]
	return ok1 && ok2 && c.t.isAncOrEq(bi, ki)
}

// ---------------------------------------------------------------- definitions

// gPhase holds, per voter index, the distinct blocks the voter voted for in one
// phase (first-seen order; only distinctness matters to the definitions).
type gPhase struct {
	votes [][]int
}

func newGPhase(nVoters int) *gPhase { return &gPhase{votes: make([][]int, nVoters)} }

// add records a vote; it reports what kind of vote it was for the voter:
// 0 first vote, 1 exact repetition of a stored vote, 2 second distinct vote
// (the equivocation), 3 further distinct vote (ignored by the protocol).
func (p *gPhase) add(voter, block int) int {
	for i, b := range p.votes[voter] {
		if b == block {
			if i < 2 {
				return 1
			}
			return 3 // repetition of an ignored vote: still ignored, not stored
		}
	}
	p.votes[voter] = append(p.votes[voter], block)
	switch len(p.votes[voter]) {
	case 1:
		return 0
	case 2:
		return 2
	}
	return 3
}

func (p *gPhase) clone() *gPhase {
	q := newGPhase(len(p.votes))
	for i, v := range p.votes {
		q.votes[i] = append([]int(nil), v...)
	}
	return q
}

type gDefs struct {
	t     *gTree
	base  int      // round base: every vote is on base or a descendant
	w     []uint64 // weight per voter index
	total uint64
	thr   uint64
	f     uint64 // total - thr: tolerated equivocating weight
}

func newGDefs(t *gTree, base int, w []uint64) *gDefs {
	d := &gDefs{t: t, base: base, w: w}
	for _, x := range w {
		d.total += x
	}
	d.f = (d.total - 1) / 3
	d.thr = d.total - d.f
	return d
}

func (d *gDefs) equivocator(p *gPhase, v int) bool { return len(p.votes[v]) >= 2 }

// weight of block b in phase p.
func (d *gDefs) weight(p *gPhase, b int) uint64 {
	var s uint64
	for v := range d.w {
		if d.equivocator(p, v) {
			s += d.w[v]
			continue
		}
		if len(p.votes[v]) == 1 && d.t.isAncOrEq(b, p.votes[v][0]) {
			s += d.w[v]
		}
	}
	return s
}

// cur: participation = weight of the voters with at least one vote.
func (d *gDefs) cur(p *gPhase) uint64 {
	var s uint64
	for v := range d.w {
		if len(p.votes[v]) > 0 {
			s += d.w[v]
		}
	}
	return s
}

// eqw: weight of the equivocators.
func (d *gDefs) eqw(p *gPhase) uint64 {
	var s uint64
	for v := range d.w {
		if d.equivocator(p, v) {
			s += d.w[v]
		}
	}
	return s
}

// maximalSuper: the blocks (descendants-or-equal of base) with supermajority
// weight none of whose children has supermajority weight. Weight is monotone
// towards the base, so every supermajority block is connected to the base and
// these are exactly the possible outcomes of a GHOST walk. Exactly one element
// (or none) while the equivocating weight is within f.
func (d *gDefs) maximalSuper(p *gPhase) []int {
	var out []int
	for b := 0; b < d.t.n(); b++ {
		if !d.t.isAncOrEq(d.base, b) || d.weight(p, b) < d.thr {
			continue
		}
		top := true
		for _, c := range d.t.children(b) {
			if d.weight(p, c) >= d.thr {
				top = false
			}
		}
		if top {
			out = append(out, b)
		}
	}
	return out
}

// ghost: (-1, true) when no block has a supermajority; (b, true) when the
// GHOST is unique; (-1, false) when it is ambiguous.
func (d *gDefs) ghost(p *gPhase) (int, bool) {
	m := d.maximalSuper(p)
	switch len(m) {
	case 0:
		return -1, true
	case 1:
		return m[0], true
	}
	return -1, false
}

func satSub(a, b uint64) uint64 {
	if a < b {
		return 0
	}
	return a - b
}

// possible: can block b still reach a precommit supermajority, as
// finality-grandpa counts it: everything already on b (equivocators included),
// plus all weight that has not precommitted yet, plus further equivocations of
// voters that precommitted elsewhere, limited to what is left of the f
// tolerated equivocations.
func (d *gDefs) possible(pc *gPhase, b int) bool {
	cur := d.cur(pc)
	tolerated := d.total - d.thr
	additional := satSub(tolerated, d.eqw(pc))
	remaining := d.total - cur
	onB := d.weight(pc, b)
	elsewhere := satSub(cur, onB)
	more := elsewhere
	if additional < more {
		more = additional
	}
	return onB+remaining+more >= d.thr
}

// possiblePaper: the GRANDPA paper's formulation ("it is impossible for S to
// have a supermajority for B if at least (n+f+1)/2 voters either vote for a
// block not >= B or equivocate"), by weight. Coincides with possible() when
// total = 3f+1 and the equivocating weight is within f; used as a
// cross-check of the oracle itself in exactly that regime.
func (d *gDefs) possiblePaper(pc *gPhase, b int) bool {
	var against uint64
	for v := range d.w {
		if d.equivocator(pc, v) {
			against += d.w[v]
			continue
		}
		if len(pc.votes[v]) == 1 && !d.t.isAncOrEq(b, pc.votes[v][0]) {
			against += d.w[v]
		}
	}
	return 2*against < d.total+d.f+1
}

// gState is the round state by the definitions; -1 = none.
type gState struct {
	ghost, finalized, estimate int
	completable                bool
}

// stateFrom computes finalized / estimate / completable for a given
// prevote-GHOST g (-1: none).
func (d *gDefs) stateFrom(g int, pc *gPhase) gState {
	s := gState{ghost: g, finalized: -1, estimate: -1}
	if g < 0 {
		return s
	}
	cur := d.cur(pc)
	if cur >= d.thr {
		for b := g; b >= 0 && d.t.isAncOrEq(d.base, b); b = d.t.parent[b] {
			if d.weight(pc, b) >= d.thr {
				s.finalized = b
				break
			}
		}
	}
	if cur < d.thr {
		// any block could still get f+1 fresh precommits and f equivocations
		s.estimate = g
		return s
	}
	for b := g; b >= 0 && d.t.isAncOrEq(d.base, b); b = d.t.parent[b] {
		if d.possible(pc, b) {
			s.estimate = b
			break
		}
	}
	if s.estimate < 0 {
		return s
	}
	if s.estimate != g {
		s.completable = true
		return s
	}
	s.completable = true
	for b := 0; b < d.t.n(); b++ {
		if b != g && d.t.isAncOrEq(g, b) && d.possible(pc, b) {
			s.completable = false
		}
	}
	return s
}

func (d *gDefs) blk(b int) string {
	if b < 0 {
		return "-"
	}
	return d.t.label[b]
}

func (d *gDefs) fmtState(s gState) string {
	return fmt.Sprintf("{ghost %s finalized %s estimate %s completable %v}", d.blk(s.ghost), d.blk(s.finalized), d.blk(s.estimate), s.completable)
}

func (d *gDefs) fmtPhase(p *gPhase) string {
	var parts []string
	for v, bs := range p.votes {
		if len(bs) == 0 {
			continue
		}
		var ls []string
		for _, b := range bs {
			ls = append(ls, d.t.label[b])
		}
		parts = append(parts, fmt.Sprintf("v%d(w%d):%s", v, d.w[v], strings.Join(ls, "+")))
	}
	sort.Strings(parts)
	return strings.Join(parts, " ")
}

// forks: do the voted blocks of the phase lie on >= 2 forks (two voted blocks
// neither of which is an ancestor of the other)?
func (d *gDefs) forks(p *gPhase) bool {
	var bs []int
	for _, vs := range p.votes {
		bs = append(bs, vs...)
	}
	for i := range bs {
		for j := i + 1; j < len(bs); j++ {
			if !d.t.isAncOrEq(bs[i], bs[j]) && !d.t.isAncOrEq(bs[j], bs[i]) {
				return true
			}
		}
	}
	return false
}

// ---------------------------------------------------------------- tree generator (shared by C19 and C20)

var gLetters = []string{"A", "B", "C", "D", "E", "F", "G", "H", "I", "J", "K", "L", "M", "N", "O", "P"}

func genGTree(t *rapid.T, maxBlocks int) *gTree {
	n := rapid.IntRange(1, maxBlocks).Draw(t, "blocks")
	shape := rapid.IntRange(0, 2).Draw(t, "shape") // 0 any, 1 chain-heavy, 2 bushy near the root
	parent := make([]int, n)
	parent[0] = -1
	for i := 1; i < n; i++ {
		switch {
		case shape == 1 && rapid.IntRange(0, 3).Draw(t, "tip") > 0:
			parent[i] = i - 1
		case shape == 2:
			parent[i] = rapid.IntRange(0, (i-1)/2).Draw(t, "parent")
		default:
			parent[i] = rapid.IntRange(0, i-1).Draw(t, "parent")
		}
	}
	perm := rapid.Permutation(gLetters[:n]).Draw(t, "hashes")
	off := rapid.SampledFrom([]uint64{0, 1, 7, 1000, 1<<31 - 2, 1<<32 - 12}).Draw(t, "offset")
	return newGTree(parent, perm, off)
}


// ---------------------------------------------------------------- three-way split shapes (C19)

// gSplit: a trunk root..H, a main fork H <- P.. (1-2 blocks) ending in 2-3 leaves (the first optionally one block
// longer) and 1-2 side forks of 1-2 blocks hanging off H (sometimes off a trunk block below H). Votes on the leaves, the
// side forks and H put >= 3 vote-nodes under one graph node, none of which needs to reach the threshold alone while the
// shared prefix of the main fork does: the GHOST is then a merge point found by accumulating several nodes per block.
type gSplit struct {
	tr     *gTree
	h      int
	trunk  []int   // root..H
	prefix []int   // main fork blocks between H and the leaves
	leaves []int   // leaves of the main fork (and the extension of the first, if any)
	side   [][]int // side fork chains
}

func genSplitTree(t *rapid.T) *gSplit {
	sp := &gSplit{}
	parent := []int{-1}
	sp.trunk = []int{0}
	for i := rapid.IntRange(0, 2).Draw(t, "trunkAboveRoot"); i > 0; i-- {
		parent = append(parent, len(parent)-1)
		sp.trunk = append(sp.trunk, len(parent)-1)
	}
	sp.h = len(parent) - 1
	at := sp.h
	for i := rapid.IntRange(1, 2).Draw(t, "prefixLen"); i > 0; i-- {
		parent = append(parent, at)
		at = len(parent) - 1
		sp.prefix = append(sp.prefix, at)
	}
	nl := rapid.IntRange(2, 3).Draw(t, "leaves")
	for k := 0; k < nl; k++ {
		parent = append(parent, at)
		sp.leaves = append(sp.leaves, len(parent)-1)
	}
	if rapid.IntRange(0, 3).Draw(t, "longerLeaf") == 0 {
		parent = append(parent, sp.leaves[0])
		sp.leaves = append(sp.leaves, len(parent)-1)
	}
	for k := rapid.IntRange(1, 2).Draw(t, "sideForks"); k > 0; k-- {
		from := sp.h
		if sp.h > 0 && rapid.IntRange(0, 3).Draw(t, "sideFromLowerTrunk") == 0 {
			from = rapid.IntRange(0, sp.h-1).Draw(t, "sideFrom")
		}
		var chain []int
		for i := rapid.IntRange(1, 2).Draw(t, "sideLen"); i > 0; i-- {
			parent = append(parent, from)
			from = len(parent) - 1
			chain = append(chain, from)
		}
		sp.side = append(sp.side, chain)
	}
	// hashes: a random permutation, so that the side fork sorts before and after the main fork equally often
	labels := rapid.Permutation(gLetters[:len(parent)]).Draw(t, "hashes")
	off := rapid.SampledFrom([]uint64{0, 1, 7, 1000, 1<<31 - 2, 1<<32 - 12}).Draw(t, "offset")
	sp.tr = newGTree(parent, labels, off)
	return sp
}

// genSplitVotes: (voter, block) pairs over a split tree: most weight on the leaves of the main fork (spread, so that only
// the shared prefix reaches the threshold), some on the side forks, usually one voter on H (the round base), repetitions
// and equivocations within f.
func genSplitVotes(t *rapid.T, sp *gSplit, w []uint64) [][2]int {
	var total uint64
	for _, x := range w {
		total += x
	}
	f := (total - 1) / 3
	prof := rapid.SampledFrom([][4]int{{8, 2, 0, 0}, {7, 2, 1, 0}, {6, 2, 1, 1}, {9, 1, 0, 0}, {8, 1, 1, 0}, {6, 3, 0, 1}}).Draw(t, "profile")
	var cats []int
	for c, k := range prof {
		for i := 0; i < k; i++ {
			cats = append(cats, c)
		}
	}
	pickIn := func(cat int) int {
		switch cat {
		case 0:
			if rapid.IntRange(0, 9).Draw(t, "onPrefix") == 0 {
				return sp.prefix[rapid.IntRange(0, len(sp.prefix)-1).Draw(t, "prefixBlock")]
			}
			return sp.leaves[rapid.IntRange(0, len(sp.leaves)-1).Draw(t, "leaf")]
		case 1:
			ch := sp.side[rapid.IntRange(0, len(sp.side)-1).Draw(t, "sideFork")]
			return ch[rapid.IntRange(0, len(ch)-1).Draw(t, "sideBlock")]
		}
		if rapid.IntRange(0, 9).Draw(t, "onH") < 7 {
			return sp.h
		}
		return sp.trunk[rapid.IntRange(0, len(sp.trunk)-1).Draw(t, "trunkBlock")]
	}
	var out [][2]int
	var eq uint64
	baseVoter := rapid.IntRange(0, 9).Draw(t, "oneVoterOnH") < 7
	for v := range w {
		cat := rapid.SampledFrom(cats).Draw(t, "category")
		if v == 0 && baseVoter {
			out = append(out, [2]int{v, sp.h})
			continue
		}
		if cat == 3 {
			continue
		}
		first := pickIn(cat)
		out = append(out, [2]int{v, first})
		switch rapid.IntRange(0, 11).Draw(t, "extra") {
		case 0:
			out = append(out, [2]int{v, first})
		case 1:
			second := pickIn(rapid.IntRange(0, 2).Draw(t, "secondCategory"))
			if second != first && eq+w[v] > f {
				second = first
			}
			if second != first {
				eq += w[v]
			}
			out = append(out, [2]int{v, second})
		}
	}
	return out
}

// gSplitLabels: shape labels for a set of (member) votes whose GHOST by the definitions is g (-1: none) under base:
// "three-way-merge-under-one-node": g has no vote of its own, >= 2 vote-nodes above g and >= 1 vote-node on another fork
// all hang directly under the same lower vote-node (or the base); "...side-hash-below-main": for one such side node the
// first block of its branch sorts before the first block of the GHOST's branch (the insertion-in-front case of the sorted
// per-height list in ghostFindMergePoint).
func gSplitLabels(tr *gTree, base, g int, votedBlocks map[int]bool, lessHash func(a, b int) bool) []string {
	if g < 0 || base < 0 || votedBlocks[g] || g == base {
		return nil
	}
	voted := func(b int) bool { return b == base || votedBlocks[b] }
	nodeBelow := func(b int) int {
		for a := tr.parent[b]; a >= 0; a = tr.parent[a] {
			if voted(a) {
				return a
			}
		}
		return -1
	}
	a := nodeBelow(g)
	above, sideBelow, side := 0, false, false
	for b := 0; b < tr.n(); b++ {
		if !votedBlocks[b] || b == base || nodeBelow(b) != a {
			continue
		}
		if tr.isAncOrEq(g, b) {
			above++
			continue
		}
		if tr.isAncOrEq(b, g) {
			continue
		}
		side = true
		// fork point of b and g, and the two branch heads
		lca := b
		for !tr.isAncOrEq(lca, g) {
			lca = tr.parent[lca]
		}
		head := func(x int) int {
			for tr.parent[x] != lca {
				x = tr.parent[x]
			}
			return x
		}
		if lessHash != nil && lessHash(head(b), head(g)) {
			sideBelow = true
		}
	}
	if above < 2 || !side {
		return nil
	}
	out := []string{"three-way-merge-under-one-node"}
	if sideBelow {
		out = append(out, "three-way-merge:side-hash-below-main")
	}
	return out
}
