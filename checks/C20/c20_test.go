package grandpa

// C20 - the round state (prevote-GHOST, finalized, estimate, completable,
// precommit-GHOST) equals the GRANDPA definitions evaluated by brute force on
// the full block tree (grandpadefs_test.go), after EVERY import, for any
// import order, with duplicates and equivocations, for uint32 and uint64
// block numbers.

import (
	"fmt"
	"strings"
	"testing"

	kit "github.com/ChainSafe/gossamer/internal/verifkit"
	"golang.org/x/exp/constraints"
	"pgregory.net/rapid"
)

const c20Rule = "round over a generated tree (<= 8 blocks, scrambled hashes, several number offsets), 1-6 weighted voters (8%: 33-40 voters, second bitfield word), " +
	"a generated sequence of prevote/precommit imports (absent voters, exact repetitions, second and third distinct votes, non-members) run in the generated order and in a generated permutation, " +
	"for uint32 and uint64; after every import State()/PrecommitGHOST()/import result are compared with the brute-force definitions over the votes imported so far. " +
	"Full oracle while the equivocating weight of a phase is <= f = total - threshold; beyond it the GHOST is only required to be a supermajority block and estimate/completable are not judged. " +
	"non-trivial = final prevote participation >= threshold and the prevotes lie on >= 2 forks"

type c20Imp struct {
	phase int // 0 prevote, 1 precommit
	voter int // voter index, -1 = an identity outside the voter set
	block int
}

type c20HN struct {
	hash string // "" = nil
	num  uint64
}

type c20Obs struct {
	valid, dup, eqv   bool
	eqFirst, eqSecond string
	ghost, fin, est   c20HN
	pcg               c20HN
	pcgAsked          bool
	completable       bool
}

func c20hn[N constraints.Unsigned](p *HashNumber[string, N]) c20HN {
	if p == nil {
		return c20HN{}
	}
	return c20HN{p.Hash, uint64(p.Number)}
}

// c20Run drives the code under test: one round, the imports in order; obs is
// called after every import.
func c20Run[N constraints.Unsigned](t *gTree, base int, ids []string, vs *VoterSet[string], imps []c20Imp,
	pcgEvery bool, obs func(i int, o c20Obs) error) (err error) {
	defer func() {
		if r := recover(); r != nil {
			err = fmt.Errorf("panic: %v", r)
		}
	}()
	chain := gChain{t: t}
	r := NewRound[string, string, N, string](RoundParams[string, string, N]{
		RoundNumber: 1,
		Voters:      *vs,
		Base:        HashNumber[string, N]{Hash: t.label[base], Number: N(t.num(base))},
	})
	for i, im := range imps {
		id := "~outsider"
		if im.voter >= 0 {
			id = ids[im.voter]
		}
		sig := fmt.Sprintf("sig/%d/%d/%d", im.phase, im.voter, im.block)
		var o c20Obs
		if im.phase == 0 {
			ir, e := r.importPrevote(chain, Prevote[string, N]{TargetHash: t.label[im.block], TargetNumber: N(t.num(im.block))}, id, sig)
			if e != nil {
				return fmt.Errorf("import %d: importPrevote error: %v", i, e)
			}
			o.valid, o.dup, o.eqv = ir.ValidVoter, ir.Duplicated, ir.Equivocation != nil
			if ir.Equivocation != nil {
				o.eqFirst, o.eqSecond = ir.Equivocation.First.Vote.TargetHash, ir.Equivocation.Second.Vote.TargetHash
				if ir.Equivocation.Identity != id {
					return fmt.Errorf("import %d: equivocation proof names %q, signer was %q", i, ir.Equivocation.Identity, id)
				}
			}
		} else {
			ir, e := r.importPrecommit(chain, Precommit[string, N]{TargetHash: t.label[im.block], TargetNumber: N(t.num(im.block))}, id, sig)
			if e != nil {
				return fmt.Errorf("import %d: importPrecommit error: %v", i, e)
			}
			o.valid, o.dup, o.eqv = ir.ValidVoter, ir.Duplicated, ir.Equivocation != nil
			if ir.Equivocation != nil {
				o.eqFirst, o.eqSecond = ir.Equivocation.First.Vote.TargetHash, ir.Equivocation.Second.Vote.TargetHash
				if ir.Equivocation.Identity != id {
					return fmt.Errorf("import %d: equivocation proof names %q, signer was %q", i, ir.Equivocation.Identity, id)
				}
			}
		}
		st := r.State()
		o.ghost, o.fin, o.est, o.completable = c20hn(st.PrevoteGHOST), c20hn(st.Finalized), c20hn(st.Estimate), st.Completable
		if o.completable != r.Completable() || o.est != c20hn(r.Estimate()) || o.fin != c20hn(r.Finalized()) {
			return fmt.Errorf("import %d: State() disagrees with Completable()/Estimate()/Finalized()", i)
		}
		if pcgEvery || i == len(imps)-1 {
			o.pcg, o.pcgAsked = c20hn(r.PrecommitGHOST()), true
		}
		if e := obs(i, o); e != nil {
			return e
		}
	}
	return nil
}

type c20Summary struct {
	final       gState
	finalPCG    int
	overPV      bool
	overPC      bool
	sawDup      bool
	sawEqv      bool
	sawThird    bool
	sawOutsider bool
	ghostInEdge bool // final ghost is a block nobody voted for directly
}

// c20Judge runs one import sequence for number type N and compares every
// intermediate state with the definitions.
func c20Judge[N constraints.Unsigned](d *gDefs, ids []string, vs *VoterSet[string], imps []c20Imp, pcgEvery bool) (c20Summary, error) {
	var sum c20Summary
	ph := [2]*gPhase{newGPhase(len(d.w)), newGPhase(len(d.w))}
	t := d.t
	hn := func(what string, got c20HN, want int) error {
		if want < 0 {
			if got.hash != "" {
				return fmt.Errorf("%s: got %s#%d, definitions give none", what, got.hash, got.num)
			}
			return nil
		}
		if got.hash != t.label[want] || got.num != t.num(want) {
			g := got.hash
			if g == "" {
				g = "none"
			}
			return fmt.Errorf("%s: got %s#%d, definitions give %s#%d", what, g, got.num, t.label[want], t.num(want))
		}
		return nil
	}
	member := func(got c20HN, set []int) (int, bool) {
		for _, b := range set {
			if got.hash == t.label[b] && got.num == t.num(b) {
				return b, true
			}
		}
		return -1, false
	}
	err := c20Run[N](t, d.base, ids, vs, imps, pcgEvery, func(i int, o c20Obs) error {
		im := imps[i]
		ctx := func() string {
			return fmt.Sprintf("after import %d (%s); prevotes[%s] precommits[%s] total %d threshold %d", i, c20FmtImp(d, im), d.fmtPhase(ph[0]), d.fmtPhase(ph[1]), d.total, d.thr)
		}
		if im.voter < 0 {
			sum.sawOutsider = true
			if o.valid || o.dup || o.eqv {
				return fmt.Errorf("non-member import reported valid=%v dup=%v eqv=%v; %s", o.valid, o.dup, o.eqv, ctx())
			}
		} else {
			kind := ph[im.phase].add(im.voter, im.block)
			wantDup, wantEqv := kind == 1, kind == 2
			switch kind {
			case 1:
				sum.sawDup = true
			case 2:
				sum.sawEqv = true
			case 3:
				sum.sawThird = true
			}
			if !o.valid || o.dup != wantDup || o.eqv != wantEqv {
				return fmt.Errorf("import result valid=%v duplicated=%v equivocation=%v, expected valid=true duplicated=%v equivocation=%v; %s",
					o.valid, o.dup, o.eqv, wantDup, wantEqv, ctx())
			}
			if wantEqv {
				vs := ph[im.phase].votes[im.voter]
				if o.eqFirst != t.label[vs[0]] || o.eqSecond != t.label[vs[1]] {
					return fmt.Errorf("equivocation proof (%s,%s), the voter's two votes are (%s,%s); %s", o.eqFirst, o.eqSecond, t.label[vs[0]], t.label[vs[1]], ctx())
				}
			}
		}
		pv, pc := ph[0], ph[1]
		overPV, overPC := d.eqw(pv) > d.f, d.eqw(pc) > d.f
		sum.overPV, sum.overPC = overPV, overPC

		// prevote GHOST
		g := -1
		if !overPV {
			want, unique := d.ghost(pv)
			if !unique {
				return fmt.Errorf("ORACLE BUG: ambiguous GHOST within tolerance; %s", ctx())
			}
			if e := hn("prevote-GHOST", o.ghost, want); e != nil {
				return fmt.Errorf("%v; %s", e, ctx())
			}
			g = want
		} else {
			m := c20SuperBlocks(d, pv)
			if len(m) == 0 {
				if e := hn("prevote-GHOST", o.ghost, -1); e != nil {
					return fmt.Errorf("%v; %s", e, ctx())
				}
			} else {
				b, ok := member(o.ghost, m)
				if !ok {
					return fmt.Errorf("prevote-GHOST %s#%d is not a supermajority block (those are %v); %s", o.ghost.hash, o.ghost.num, c20Labels(t, m), ctx())
				}
				g = b
			}
		}
		want := d.stateFrom(g, pc)
		if e := hn("finalized", o.fin, want.finalized); e != nil {
			return fmt.Errorf("%v; %s", e, ctx())
		}
		if !overPC {
			// oracle self cross-check against the paper's formulation where both apply
			if d.total == 3*d.f+1 {
				for b := 0; b < t.n(); b++ {
					if !t.isAncOrEq(d.base, b) {
						continue
					}
					fg := d.cur(pc) < d.thr || d.possible(pc, b)
					if fg != d.possiblePaper(pc, b) {
						return fmt.Errorf("ORACLE BUG: possible(%s) finality-grandpa=%v paper=%v; %s", t.label[b], fg, !fg, ctx())
					}
				}
			}
			if e := hn("estimate", o.est, want.estimate); e != nil {
				return fmt.Errorf("%v; %s", e, ctx())
			}
			if o.completable != want.completable {
				return fmt.Errorf("completable: got %v, definitions give %v (state by definitions %s); %s", o.completable, want.completable, d.fmtState(want), ctx())
			}
		}
		// precommit GHOST
		if o.pcgAsked {
			if !overPC {
				wantP, unique := d.ghost(pc)
				if !unique {
					return fmt.Errorf("ORACLE BUG: ambiguous precommit GHOST within tolerance; %s", ctx())
				}
				if e := hn("precommit-GHOST", o.pcg, wantP); e != nil {
					return fmt.Errorf("%v; %s", e, ctx())
				}
				sum.finalPCG = wantP
			} else {
				m := c20SuperBlocks(d, pc)
				if len(m) == 0 {
					if e := hn("precommit-GHOST", o.pcg, -1); e != nil {
						return fmt.Errorf("%v; %s", e, ctx())
					}
				} else if _, ok := member(o.pcg, m); !ok {
					return fmt.Errorf("precommit-GHOST %s#%d is not a supermajority block (those are %v); %s", o.pcg.hash, o.pcg.num, c20Labels(t, m), ctx())
				}
			}
		}
		sum.final = want
		return nil
	})
	if err == nil && sum.final.ghost >= 0 {
		sum.ghostInEdge = true
		for _, vs := range ph[0].votes {
			for _, b := range vs {
				if b == sum.final.ghost {
					sum.ghostInEdge = false
				}
			}
		}
	}
	return sum, err
}

// c20SuperBlocks: all blocks >= base with supermajority weight. Beyond the
// tolerated equivocating weight several forks (even unvoted blocks, when the
// equivocators alone reach the threshold) have a supermajority, and which of
// them a GHOST walk ends on depends on the import order; the relaxed oracle only
// demands that the reported GHOST is one of them.
func c20SuperBlocks(d *gDefs, p *gPhase) []int {
	var out []int
	for b := 0; b < d.t.n(); b++ {
		if d.t.isAncOrEq(d.base, b) && d.weight(p, b) >= d.thr {
			out = append(out, b)
		}
	}
	return out
}

func c20Labels(t *gTree, bs []int) []string {
	var out []string
	for _, b := range bs {
		out = append(out, t.label[b])
	}
	return out
}

func c20FmtImp(d *gDefs, im c20Imp) string {
	ph := "PV"
	if im.phase == 1 {
		ph = "PC"
	}
	if im.voter < 0 {
		return fmt.Sprintf("%s outsider->%s", ph, d.t.label[im.block])
	}
	return fmt.Sprintf("%s v%d->%s", ph, im.voter, d.t.label[im.block])
}

func c20FmtImps(d *gDefs, imps []c20Imp) string {
	var parts []string
	for _, im := range imps {
		parts = append(parts, c20FmtImp(d, im))
	}
	return strings.Join(parts, ", ")
}

// ---------------------------------------------------------------- generators

func genVoters(t *rapid.T) (ids []string, w []uint64) {
	n := rapid.IntRange(1, 8).Draw(t, "voters")
	wide := rapid.IntRange(0, 11).Draw(t, "wide") == 0
	if wide {
		n = rapid.IntRange(33, 40).Draw(t, "wideVoters")
	}
	unit := wide || rapid.Bool().Draw(t, "unit")
	names := make([]string, n)
	for i := range names {
		names[i] = fmt.Sprintf("id%02d", i)
	}
	ids = rapid.Permutation(names).Draw(t, "ids")
	w = make([]uint64, n)
	for i := range w {
		if wide {
			// only the first and last four voters of a wide set vote (see TestC20Round); give them the bulk of the weight
			w[i] = 1
			if i < 4 || i >= n-4 {
				w[i] = rapid.SampledFrom([]uint64{9, 10, 12}).Draw(t, "w")
			}
		} else if unit {
			w[i] = 1
		} else {
			w[i] = rapid.SampledFrom([]uint64{1, 1, 2, 3, 5}).Draw(t, "w")
		}
	}
	return ids, w
}

func c20VoterSet(ids []string, w []uint64) *VoterSet[string] {
	iw := make([]IDWeight[string], len(ids))
	for i := range ids {
		iw[i] = IDWeight[string]{ID: ids[i], Weight: w[i]}
	}
	return NewVoterSet(iw)
}

func TestC20Round(t *testing.T) {
	defer kit.Flush()
	kit.Note("rule", c20Rule)
	rapid.Check(t, func(t *rapid.T) {
		tr := genGTree(t, 8)
		ids, w := genVoters(t)
		d := newGDefs(tr, 0, w)
		vs := c20VoterSet(ids, w)
		if vs == nil || uint64(vs.TotalWeight()) != d.total || uint64(vs.Threshold()) != d.thr {
			t.Fatalf("NewVoterSet on distinct ids %v weights %v: nil or wrong total/threshold", ids, w)
		}
		over := rapid.IntRange(0, 6).Draw(t, "overTolerance") == 0
		nv := len(w)
		active := nv
		if nv > 8 {
			active = 8 // wide sets: a few voters at both ends of the bitfield vote
		}
		voterAt := func(v int) int {
			if nv > 8 && v >= 4 {
				return nv - 1 - (v - 4) // the last voters of a wide set
			}
			return v
		}
		hot := rapid.IntRange(0, tr.n()-1).Draw(t, "hotBlock")
		var hotPath []int
		for b := hot; b >= 0; b = tr.parent[b] {
			hotPath = append(hotPath, b)
		}
		pick := func(onHot int) int {
			if rapid.IntRange(0, 9).Draw(t, "onHot") < onHot {
				// biased towards the hot block itself (index 0), the rest of its chain below
				i := rapid.IntRange(0, len(hotPath)-1).Draw(t, "hotPathBlock")
				if j := rapid.IntRange(0, len(hotPath)-1).Draw(t, "hotPathBlock2"); j < i {
					i = j
				}
				return hotPath[i]
			}
			return rapid.IntRange(0, tr.n()-1).Draw(t, "block")
		}
		ph := [2]*gPhase{newGPhase(nv), newGPhase(nv)}
		var plan []c20Imp
		for phase := 0; phase < 2; phase++ {
			// participation of the phase: 0 everybody, 1 most, 2 about half, 3 few
			part := rapid.SampledFrom([]int{0, 0, 0, 1, 1, 1, 1, 2, 3}).Draw(t, "participation")
			onHot := rapid.SampledFrom([]int{3, 6, 8, 10}).Draw(t, "concentration")
			p := ph[phase]
			for a := 0; a < active; a++ {
				v := voterAt(a)
				r := rapid.IntRange(0, 9).Draw(t, "takesPart")
				if (part == 1 && r == 0) || (part == 2 && r < 5) || (part == 3 && r < 8) {
					continue
				}
				first := pick(onHot)
				p.add(v, first)
				plan = append(plan, c20Imp{phase, v, first})
				switch rapid.IntRange(0, 9).Draw(t, "extra") {
				case 0: // exact repetition
					plan = append(plan, c20Imp{phase, v, first})
				case 1, 2: // second distinct vote (and sometimes a third)
					second := pick(3)
					if second != first && !over && d.eqw(p)+d.w[v] > d.f {
						second = first // would push the equivocating weight beyond f: repeat the first vote instead
					}
					p.add(v, second)
					plan = append(plan, c20Imp{phase, v, second})
					if second != first && rapid.IntRange(0, 2).Draw(t, "third") == 0 {
						third := pick(3)
						p.add(v, third)
						plan = append(plan, c20Imp{phase, v, third})
					}
				}
			}
			if rapid.IntRange(0, 9).Draw(t, "outsider") == 0 {
				plan = append(plan, c20Imp{phase, -1, pick(5)})
			}
		}
		c20Execute(t, tr, ids, w, d, vs, ph, plan, nv > 8)
	})
}

// c20Execute: draw the import order, a second order and the PrecommitGHOST call pattern, run the
// round for both number widths, compare every step with the definitions, record labels.
func c20Execute(t *rapid.T, tr *gTree, ids []string, w []uint64, d *gDefs, vs *VoterSet[string], ph [2]*gPhase, plan []c20Imp, wide bool, extraLabels ...string) {
	// the generated import order (any interleaving of the two phases)
	imps := plan
	if len(plan) > 1 {
		imps = rapid.Permutation(plan).Draw(t, "order")
	}
	pcgEvery := rapid.Bool().Draw(t, "precommitGhostEveryStep")
	perm := imps
	if len(imps) > 1 {
		perm = rapid.Permutation(imps).Draw(t, "secondOrder")
	}

	sum, err := c20Judge[uint64](d, ids, vs, imps, pcgEvery)
	if err != nil {
		t.Fatalf("uint64, generated order: %v\n%s weights %v ids %v\nimports: %s", err, tr.describe(), w, ids, c20FmtImps(d, imps))
	}
	if tr.offset+8 < 1<<32 {
		if _, err := c20Judge[uint32](d, ids, vs, imps, pcgEvery); err != nil {
			t.Fatalf("uint32, generated order: %v\n%s weights %v ids %v\nimports: %s", err, tr.describe(), w, ids, c20FmtImps(d, imps))
		}
	}
	sum2, err := c20Judge[uint64](d, ids, vs, perm, pcgEvery)
	if err != nil {
		t.Fatalf("uint64, permuted order: %v\n%s weights %v ids %v\nimports: %s", err, tr.describe(), w, ids, c20FmtImps(d, perm))
	}
	if !sum.overPV && !sum.overPC && (sum.final != sum2.final || sum.finalPCG != sum2.finalPCG) {
		t.Fatalf("ORACLE BUG: definitions depend on the order")
	}

	labels := append([]string(nil), extraLabels...)
	labels = append(labels, c20ShapeLabels(d, ph, sum.final)...)
	add := func(c bool, l string) {
		if c {
			labels = append(labels, l)
		}
	}
	f := sum.final
	add(f.ghost < 0, "ghost:none")
	add(f.ghost == 0, "ghost:base")
	add(f.ghost > 0, "ghost:above-base")
	add(sum.ghostInEdge, "ghost:unvoted-block")
	add(f.finalized >= 0, "finalized:some")
	add(f.finalized > 0, "finalized:above-base")
	add(f.ghost >= 0 && f.estimate < 0, "estimate:none")
	add(f.estimate >= 0 && f.estimate != f.ghost, "estimate:below-ghost")
	add(f.estimate >= 0 && f.estimate == f.ghost && d.cur(ph[1]) >= d.thr, "estimate:ghost-with-precommit-supermajority")
	add(f.completable, "completable")
	add(f.completable && f.estimate == f.ghost, "completable:estimate=ghost")
	add(sum.finalPCG > 0, "precommit-ghost:above-base")
	add(sum.sawDup, "import:duplicate")
	add(sum.sawEqv, "import:equivocation")
	add(sum.sawThird, "import:third-vote")
	add(sum.sawOutsider, "import:non-member")
	add(sum.overPV || sum.overPC, "over-tolerance(relaxed-oracle)")
	add(d.eqw(ph[0]) > 0 && !sum.overPV, "prevote-equivocator-within-f")
	add(d.eqw(ph[1]) > 0 && !sum.overPC, "precommit-equivocator-within-f")
	add(d.total == 3*d.f+1, "total=3f+1(paper-cross-check)")
	add(wide, "wide-voter-set(2nd-bitfield-word)")
	add(tr.offset >= 1<<31-2, "numbers-near-2^31-or-2^32")
	nontrivial := d.cur(ph[0]) >= d.thr && d.forks(ph[0])
	add(nontrivial, "nontrivial")
	kit.Case(fmt.Sprintf("%s w%v ids%v [%s]", tr.describe(), w, ids, c20FmtImps(d, imps)), nontrivial, labels...)
}

// c20ShapeLabels measures the shape class "GHOST inside the edges of several vote-nodes, with a vote-node on a sibling
// fork hanging off the same lower vote-node": the class in which FindGHOST's force-constrained descendant filter matters.
func c20ShapeLabels(d *gDefs, ph [2]*gPhase, f gState) []string {
	t := d.t
	voted := make([]bool, t.n()) // blocks with a direct vote in either phase (vote-nodes of the graph), and the base
	voted[d.base] = true
	for _, p := range ph {
		for _, vs := range p.votes {
			for _, b := range vs {
				voted[b] = true
			}
		}
	}
	g := f.ghost
	if g < 0 || voted[g] {
		return nil
	}
	nodeBelow := func(b int) int {
		for a := t.parent[b]; a >= 0; a = t.parent[a] {
			if voted[a] {
				return a
			}
		}
		return -1
	}
	kidsWithVotes := 0
	for _, c := range t.children(g) {
		for b := 0; b < t.n(); b++ {
			if voted[b] && t.isAncOrEq(c, b) {
				kidsWithVotes++
				break
			}
		}
	}
	if kidsWithVotes < 2 {
		return nil
	}
	labels := []string{"ghost-unvoted-between-two-vote-nodes"}
	sib, sibPossible := false, false
	for b := 0; b < t.n(); b++ {
		if !voted[b] || b == d.base || t.isAncOrEq(g, b) || t.isAncOrEq(b, g) {
			continue
		}
		if t.num(b) <= t.num(g) && nodeBelow(b) == nodeBelow(g) {
			sib = true
			if d.cur(ph[1]) >= d.thr && d.possible(ph[1], b) {
				sibPossible = true
			}
		}
	}
	if sib {
		labels = append(labels, "sibling-fork-node-at-or-below-ghost")
	}
	if sib && f.estimate == g && d.cur(ph[1]) >= d.thr {
		labels = append(labels, "sibling-fork+estimate=unvoted-ghost+precommit-supermajority")
		if f.completable {
			labels = append(labels, "sibling-fork+estimate=unvoted-ghost+completable")
			if sibPossible {
				labels = append(labels, "sibling-fork-still-possible+completable(FindGHOST-filter-decides)")
			}
		}
	}
	return labels
}

// ---------------------------------------------------------------- trunk-and-sibling-fork shapes

// genTrunkTree: a trunk root=0 <- 1 <- ... <- G of blocks nobody needs to vote for, 2-3 children of G (the first two
// optionally one block longer), and a short fork (1-2 blocks) hanging off a trunk block strictly below G, so that its
// first block is at or below G's height. Returns the tree, G, the blocks above G grouped per child of G, the sibling
// fork blocks and the trunk blocks (root..G).
func genTrunkTree(t *rapid.T) (tr *gTree, g int, upper [][]int, sib []int, trunk []int) {
	l := rapid.IntRange(1, 4).Draw(t, "trunkLen")
	parent := []int{-1}
	trunk = []int{0}
	for i := 1; i <= l; i++ {
		parent = append(parent, i-1)
		trunk = append(trunk, i)
	}
	g = l
	nk := rapid.IntRange(2, 3).Draw(t, "childrenOfG")
	for k := 0; k < nk; k++ {
		parent = append(parent, g)
		c := len(parent) - 1
		grp := []int{c}
		if k < 2 && rapid.Bool().Draw(t, "longerChild") {
			parent = append(parent, c)
			grp = append(grp, len(parent)-1)
		}
		upper = append(upper, grp)
	}
	at := rapid.IntRange(0, l-1).Draw(t, "forkOff")
	parent = append(parent, at)
	sib = []int{len(parent) - 1}
	if rapid.Bool().Draw(t, "longerFork") {
		parent = append(parent, sib[0])
		sib = append(sib, len(parent)-1)
	}
	labels := rapid.Permutation(gLetters[:len(parent)]).Draw(t, "hashes")
	off := rapid.SampledFrom([]uint64{0, 1, 7, 1000, 1<<31 - 2, 1<<32 - 12}).Draw(t, "offset")
	return newGTree(parent, labels, off), g, upper, sib, trunk
}

// TestC20Trunk: rounds over trunk-and-sibling-fork trees with 4-8 voters. Prevotes are split over the children of the
// unvoted trunk top G (so that the prevote-GHOST tends to be G itself, a block inside the edges of several vote-nodes),
// the rest go to the sibling fork; precommits are spread over the children of G, the sibling fork and the trunk with
// high participation, so that estimate = GHOST with every child of G impossible is frequent. Same oracle as TestC20Round.
func TestC20Trunk(t *testing.T) {
	defer kit.Flush()
	rapid.Check(t, func(t *rapid.T) {
		tr, g, upper, sib, trunk := genTrunkTree(t)
		nv := rapid.IntRange(4, 8).Draw(t, "voters")
		unit := rapid.IntRange(0, 9).Draw(t, "unit") < 6
		names := make([]string, nv)
		for i := range names {
			names[i] = fmt.Sprintf("id%02d", i)
		}
		ids := rapid.Permutation(names).Draw(t, "ids")
		w := make([]uint64, nv)
		for i := range w {
			w[i] = 1
			if !unit {
				w[i] = rapid.SampledFrom([]uint64{1, 1, 2, 3}).Draw(t, "w")
			}
		}
		d := newGDefs(tr, 0, w)
		vs := c20VoterSet(ids, w)
		if vs == nil || uint64(vs.TotalWeight()) != d.total || uint64(vs.Threshold()) != d.thr {
			t.Fatalf("NewVoterSet on distinct ids %v weights %v: nil or wrong total/threshold", ids, w)
		}
		// category profiles: weights of {above G, sibling fork, trunk (G and below), absent}
		profiles := [2][][4]int{
			{{7, 3, 0, 0}, {8, 2, 0, 0}, {6, 3, 1, 0}, {9, 1, 0, 0}, {5, 3, 1, 1}},               // prevotes
			{{4, 4, 1, 1}, {5, 4, 0, 1}, {6, 2, 1, 1}, {2, 6, 1, 1}, {3, 3, 3, 1}, {5, 5, 0, 0}}, // precommits
		}
		pickIn := func(cat int) int {
			switch cat {
			case 0:
				grp := upper[rapid.IntRange(0, len(upper)-1).Draw(t, "child")]
				return grp[rapid.IntRange(0, len(grp)-1).Draw(t, "inChild")]
			case 1:
				return sib[rapid.IntRange(0, len(sib)-1).Draw(t, "inFork")]
			}
			// trunk: mostly strictly below G, so that G keeps having no vote-node of its own
			if rapid.IntRange(0, 3).Draw(t, "onG") == 0 {
				return g
			}
			return trunk[rapid.IntRange(0, len(trunk)-2).Draw(t, "inTrunk")]
		}
		ph := [2]*gPhase{newGPhase(nv), newGPhase(nv)}
		var plan []c20Imp
		for phase := 0; phase < 2; phase++ {
			prof := rapid.SampledFrom(profiles[phase]).Draw(t, "profile")
			var cats []int
			for c, k := range prof {
				for i := 0; i < k; i++ {
					cats = append(cats, c)
				}
			}
			p := ph[phase]
			for v := 0; v < nv; v++ {
				cat := rapid.SampledFrom(cats).Draw(t, "category")
				if cat == 3 {
					continue
				}
				first := pickIn(cat)
				p.add(v, first)
				plan = append(plan, c20Imp{phase, v, first})
				switch rapid.IntRange(0, 11).Draw(t, "extra") {
				case 0:
					plan = append(plan, c20Imp{phase, v, first})
				case 1:
					second := pickIn(rapid.IntRange(0, 2).Draw(t, "secondCategory"))
					if second != first && d.eqw(p)+d.w[v] > d.f {
						second = first // stay within the tolerated equivocating weight
					}
					p.add(v, second)
					plan = append(plan, c20Imp{phase, v, second})
				}
			}
			if rapid.IntRange(0, 19).Draw(t, "outsider") == 0 {
				plan = append(plan, c20Imp{phase, -1, pickIn(rapid.IntRange(0, 2).Draw(t, "outsiderCategory"))})
			}
		}
		c20Execute(t, tr, ids, w, d, vs, ph, plan, false, "shape:trunk-and-sibling-fork")
	})
}

// ---------------------------------------------------------------- exhaustive sweep

// all rooted trees over blocks 0..n-1 with parent[i] < i
func c20AllTrees(n int) [][]int {
	out := [][]int{{-1}}
	for i := 1; i < n; i++ {
		var next [][]int
		for _, p := range out {
			for q := 0; q < i; q++ {
				next = append(next, append(append([]int(nil), p...), q))
			}
		}
		out = next
	}
	return out
}

// per-voter, per-phase options: nil (absent), {b} or {b1,b2} (b1<b2: equivocation)
func c20Options(nBlocks int) [][]int {
	opts := [][]int{nil}
	for b := 0; b < nBlocks; b++ {
		opts = append(opts, []int{b})
	}
	for a := 0; a < nBlocks; a++ {
		for b := a + 1; b < nBlocks; b++ {
			opts = append(opts, []int{a, b})
		}
	}
	return opts
}

var c20SweepLabels = []string{"M", "C", "X", "A"} // hash order unrelated to tree order

// c20Sweep: every tree with nBlocks blocks, the given weight vector, every
// assignment of prevote and precommit options to the voters with at most one
// equivocation in total, two import orders. Returns (assignments, rounds run).
func c20Sweep(t *testing.T, nBlocks int, w []uint64) (int, int) {
	opts := c20Options(nBlocks)
	nv := len(w)
	ids := make([]string, nv)
	for i := range ids {
		ids[i] = fmt.Sprintf("id%d", (i+1)%nv) // position order differs from index order
	}
	vs := c20VoterSet(ids, w)
	assignments, rounds := 0, 0
	choice := make([]int, 2*nv) // [phase*nv+voter] -> option index
	for _, parent := range c20AllTrees(nBlocks) {
		tr := newGTree(parent, c20SweepLabels[:nBlocks], 5)
		d := newGDefs(tr, 0, w)
		var rec func(pos, eqv int)
		rec = func(pos, eqv int) {
			if pos == 2*nv {
				assignments++
				var a, b []c20Imp
				for ph := 0; ph < 2; ph++ {
					for v := 0; v < nv; v++ {
						for _, blk := range opts[choice[ph*nv+v]] {
							a = append(a, c20Imp{ph, v, blk})
						}
					}
				}
				// second order: precommits first, voters and the two votes of an equivocator reversed
				for i := len(a) - 1; i >= 0; i-- {
					b = append(b, a[i])
				}
				var pvForks, pvSuper bool
				for oi, imps := range [][]c20Imp{a, b} {
					if len(imps) == 0 {
						continue
					}
					rounds++
					sum, err := c20Judge[uint32](d, ids, vs, imps, oi == 0)
					if err != nil {
						t.Fatalf("sweep: %v\n%s weights %v ids %v\nimports: %s", err, tr.describe(), w, ids, c20FmtImps(d, imps))
					}
					pvSuper = sum.final.ghost >= 0
				}
				ph0 := newGPhase(nv)
				for _, im := range a {
					if im.phase == 0 {
						ph0.add(im.voter, im.block)
					}
				}
				pvForks = d.forks(ph0)
				var labels []string
				if eqv > 0 {
					labels = append(labels, "sweep:with-equivocator")
				}
				kit.Case(fmt.Sprintf("sweep %s w%v [%s]", tr.describe(), w, c20FmtImps(d, a)), pvSuper && pvForks, labels...)
				return
			}
			for oi, o := range opts {
				e := eqv
				if len(o) == 2 {
					e++
				}
				if e > 1 {
					continue
				}
				choice[pos] = oi
				rec(pos+1, e)
			}
		}
		rec(0, 0)
	}
	return assignments, rounds
}

func c20RunSweeps(t *testing.T, maxBlocks int, vectors [][]uint64) {
	ta, tr := 0, 0
	for n := 1; n <= maxBlocks; n++ {
		for _, w := range vectors {
			a, r := c20Sweep(t, n, w)
			ta += a
			tr += r
			fmt.Printf("C20-SWEEP blocks=%d weights=%v trees=%d assignments=%d rounds=%d\n", n, w, len(c20AllTrees(n)), a, r)
		}
	}
	fmt.Printf("C20-SWEEP-TOTAL maxBlocks=%d vectors=%d assignments=%d rounds=%d\n", maxBlocks, len(vectors), ta, tr)
	kit.Note(fmt.Sprintf("sweep-%s", t.Name()), fmt.Sprintf("exhaustive: trees <= %d blocks, weight vectors %v, all vote assignments with <= 1 equivocation, 2 import orders: %d assignments, %d rounds", maxBlocks, vectors, ta, tr))
}

// quick tier: trees <= 3 blocks.
func TestC20SweepSmall(t *testing.T) {
	defer kit.Flush()
	c20RunSweeps(t, 3, [][]uint64{{1}, {1, 1}, {2, 1, 1}, {1, 1, 1}})
}

// thorough tier: trees <= 4 blocks x <= 3 voters, split over several processes.
func TestC20SweepA(t *testing.T) {
	defer kit.Flush()
	c20RunSweeps(t, 4, [][]uint64{{1}, {1, 1}, {2, 1}, {1, 1, 1}})
}
func TestC20SweepB(t *testing.T) { defer kit.Flush(); c20RunSweeps(t, 4, [][]uint64{{2, 1, 1}}) }
func TestC20SweepC(t *testing.T) { defer kit.Flush(); c20RunSweeps(t, 4, [][]uint64{{1, 2, 1}}) }
func TestC20SweepD(t *testing.T) { defer kit.Flush(); c20RunSweeps(t, 4, [][]uint64{{1, 1, 2}}) }
func TestC20SweepE(t *testing.T) { defer kit.Flush(); c20RunSweeps(t, 4, [][]uint64{{3, 2, 2}}) }
func TestC20SweepF(t *testing.T) { defer kit.Flush(); c20RunSweeps(t, 4, [][]uint64{{2, 2, 3}}) }

// ---------------------------------------------------------------- regressions

// Deterministic scripted rounds (shapes taken from the GRANDPA paper examples
// and from shrunk cases found while building the check).
func TestC20Regressions(t *testing.T) {
	defer kit.Flush()
	// chain A<-B<-C with fork B<-D ; 4 unit voters (f = 1, threshold 3)
	tr := newGTree([]int{-1, 0, 1, 1}, []string{"A", "B", "C", "D"}, 10)
	w := []uint64{1, 1, 1, 1}
	ids := []string{"id2", "id0", "id3", "id1"}
	d := newGDefs(tr, 0, w)
	vs := c20VoterSet(ids, w)
	cases := [][]c20Imp{
		// prevotes C,C,D -> ghost B (unvoted block inside an edge); precommits B,B,B -> finalized B, completable
		{{0, 0, 2}, {0, 1, 2}, {0, 2, 3}, {1, 0, 1}, {1, 1, 1}, {1, 2, 1}},
		// precommits first
		{{1, 0, 1}, {1, 1, 1}, {1, 2, 1}, {0, 0, 2}, {0, 1, 2}, {0, 2, 3}},
		// an equivocating prevoter counts for both forks
		{{0, 0, 2}, {0, 1, 2}, {0, 2, 3}, {0, 2, 2}, {1, 0, 2}, {1, 1, 2}, {1, 3, 3}},
		// estimate below ghost: precommits split
		{{0, 0, 2}, {0, 1, 2}, {0, 2, 2}, {1, 0, 2}, {1, 1, 3}, {1, 2, 1}, {1, 3, 0}},
	}
	for i, imps := range cases {
		if _, err := c20Judge[uint64](d, ids, vs, imps, true); err != nil {
			t.Fatalf("regression %d: %v", i, err)
		}
		if _, err := c20Judge[uint32](d, ids, vs, imps, false); err != nil {
			t.Fatalf("regression %d (uint32): %v", i, err)
		}
		kit.Case(fmt.Sprintf("regression %d", i), true, "regression")
	}
	// genesis-A-B-{U,V} plus genesis-S, 7 unit voters (threshold 5): prevotes a,b,c->U e,f->V d,g->S (GHOST = B, a block
	// inside the edges of the vote-nodes U and V), precommits a,b->U e,f->V c,d,g->S: estimate = B, no child of B can
	// still be precommitted, the sibling fork S can: completable by the definitions.
	{
		tr := newGTree([]int{-1, 0, 1, 2, 2, 0}, []string{"G0", "A", "B", "U", "V", "S"}, 3)
		w := []uint64{1, 1, 1, 1, 1, 1, 1}
		ids := []string{"a", "b", "c", "d", "e", "f", "g"}
		d := newGDefs(tr, 0, w)
		vs := c20VoterSet(ids, w)
		imps := []c20Imp{{0, 0, 3}, {0, 1, 3}, {0, 2, 3}, {0, 4, 4}, {0, 5, 4}, {0, 3, 5}, {0, 6, 5},
			{1, 0, 3}, {1, 1, 3}, {1, 4, 4}, {1, 5, 4}, {1, 2, 5}, {1, 3, 5}, {1, 6, 5}}
		sum, err := c20Judge[uint64](d, ids, vs, imps, true)
		if err != nil {
			t.Fatalf("regression sibling-fork: %v", err)
		}
		if sum.final.ghost != 2 || sum.final.estimate != 2 || !sum.final.completable {
			t.Fatalf("ORACLE: sibling-fork regression expects ghost=estimate=B completable, definitions give %s", d.fmtState(sum.final))
		}
		var rev []c20Imp
		for i := len(imps) - 1; i >= 0; i-- {
			rev = append(rev, imps[i])
		}
		if _, err := c20Judge[uint32](d, ids, vs, rev, false); err != nil {
			t.Fatalf("regression sibling-fork (reversed, uint32): %v", err)
		}
		kit.Case("regression sibling-fork", true, "regression")
	}
}
