package state

// C17 - Finality is monotone and fully discards abandoned forks.
//
// A real BlockState (NewBlockStateFromGenesis over an in-memory Pebble
// database, a Tries registry fed through InmemoryStorageState.StoreTrie - the
// path core.handleBlock takes) receives a generated history of AddBlock and
// SetFinalisedHash requests. A parent-array model of the block tree says
// which requests must succeed and which blocks are abandoned.

import (
	"encoding/json"
	"fmt"
	"sort"
	"strings"
	"testing"

	"github.com/ChainSafe/gossamer/dot/types"
	"github.com/ChainSafe/gossamer/internal/database"
	"github.com/ChainSafe/gossamer/internal/log"
	kit "github.com/ChainSafe/gossamer/internal/verifkit"
	"github.com/ChainSafe/gossamer/lib/common"
	rtstorage "github.com/ChainSafe/gossamer/lib/runtime/storage"
	inmemory_trie "github.com/ChainSafe/gossamer/pkg/trie/inmemory"
	"pgregory.net/rapid"
)

func init() {
	logger.Patch(log.SetLevel(log.Critical))
}

type c17Telemetry struct{}

func (c17Telemetry) SendMessage(json.Marshaler) {}

// ---------------------------------------------------------------- model

type c17Block struct {
	parent int // model index of the parent, -1 for genesis
	number uint
	rootID int // identifies the state trie content; blocks with equal rootID share a state root
	hash   common.Hash
	root   common.Hash
	hdr    types.Header // the imported header (harness model only)
	// status
	abandoned bool
}

type c17Model struct {
	blocks []c17Block
	head   int // index of the finalised head
}

func (m *c17Model) isDescOrEq(anc, d int) bool {
	for d >= 0 {
		if d == anc {
			return true
		}
		if m.blocks[d].number <= m.blocks[anc].number {
			return false
		}
		d = m.blocks[d].parent
	}
	return false
}

// live: head or one of its descendants (and not abandoned, which follows)
func (m *c17Model) live(i int) bool { return m.isDescOrEq(m.head, i) }

func (m *c17Model) onFinalisedChain(i int) bool { return m.isDescOrEq(i, m.head) }

// finalise moves the head to target (a strict descendant of the head) and
// returns the indexes abandoned by this move.
func (m *c17Model) finalise(target int) (abandonedNow []int) {
	for i := range m.blocks {
		if m.blocks[i].abandoned || !m.live(i) {
			continue
		}
		if m.isDescOrEq(i, target) || m.isDescOrEq(target, i) {
			continue // on the path head..target, or in the subtree of target
		}
		abandonedNow = append(abandonedNow, i)
	}
	for _, i := range abandonedNow {
		m.blocks[i].abandoned = true
	}
	m.head = target
	return abandonedNow
}

// ---------------------------------------------------------------- harness

type c17Harness struct {
	db      database.Database
	bs      *BlockState
	tries   *Tries
	storage *InmemoryStorageState
	model   c17Model
	unknown common.Hash
	// hashes of blocks whose import was refused and that were never part of the
	// tree (children of abandoned / stale blocks, wrong numbers, orphans)
	refused     []common.Hash
	refusedKind []string
}

func c17Trie(rootID int) *inmemory_trie.InMemoryTrie {
	tr := inmemory_trie.NewEmptyTrie()
	if err := tr.Put([]byte("state-of"), []byte(fmt.Sprintf("root-%d", rootID))); err != nil {
		panic(err)
	}
	if err := tr.Put([]byte(":code"), []byte("not a runtime")); err != nil {
		panic(err)
	}
	return tr
}

func c17Digest(slot uint64, primary bool) types.Digest {
	var pre *types.PreRuntimeDigest
	var err error
	if primary {
		pre, err = types.NewBabePrimaryPreDigest(0, slot, [32]byte{}, [64]byte{}).ToPreRuntimeDigest()
	} else {
		pre, err = types.NewBabeSecondaryPlainPreDigest(0, slot).ToPreRuntimeDigest()
	}
	if err != nil {
		panic(err)
	}
	d := types.NewDigest()
	if err := d.Add(*pre); err != nil {
		panic(err)
	}
	return d
}

func c17New() (*c17Harness, error) {
	db, err := database.NewPebble("c17", true)
	if err != nil {
		return nil, err
	}
	h := &c17Harness{db: db, tries: NewTries()}
	gtr := c17Trie(0)
	genesis := types.NewHeader(common.Hash{}, gtr.MustHash(), common.Hash{0xee}, 0, types.NewDigest())
	h.bs, err = NewBlockStateFromGenesis(db, h.tries, genesis, c17Telemetry{})
	if err != nil {
		return nil, fmt.Errorf("NewBlockStateFromGenesis: %w", err)
	}
	h.storage, err = NewStorageState(db, h.bs, h.tries)
	if err != nil {
		return nil, err
	}
	if err := h.storage.StoreTrie(rtstorage.NewTrieState(gtr), nil); err != nil {
		return nil, fmt.Errorf("StoreTrie(genesis): %w", err)
	}
	h.model.blocks = []c17Block{{parent: -1, number: 0, rootID: 0, hash: genesis.Hash(), root: gtr.MustHash(), hdr: *genesis}}
	h.unknown = common.Hash{0xde, 0xad, 0xbe, 0xef}
	return h, nil
}

func (h *c17Harness) close() { _ = h.db.Close() }

// addBlock adds a child of model block parent whose state has identity rootID,
// the way core does: StoreTrie first, then AddBlock.
func (h *c17Harness) addBlock(parent, rootID int, primary bool) error {
	p := h.model.blocks[parent]
	id := len(h.model.blocks)
	tr := c17Trie(rootID)
	hdr := types.Header{
		ParentHash:     p.hash,
		Number:         p.number + 1,
		StateRoot:      tr.MustHash(),
		ExtrinsicsRoot: common.Hash{byte(id), byte(id >> 8), 0x17},
		Digest:         c17Digest(uint64(1000+id), primary),
	}
	if err := h.storage.StoreTrie(rtstorage.NewTrieState(tr), &hdr); err != nil {
		return fmt.Errorf("StoreTrie: %w", err)
	}
	blk := &types.Block{Header: hdr, Body: types.Body{}}
	if err := h.bs.AddBlock(blk); err != nil {
		return fmt.Errorf("AddBlock(child of #%d): %w", parent, err)
	}
	h.model.blocks = append(h.model.blocks, c17Block{parent: parent, number: hdr.Number, rootID: rootID,
		hash: blk.Header.Hash(), root: hdr.StateRoot, hdr: hdr})
	return nil
}

func (h *c17Harness) maxNumber() uint {
	var mx uint
	for _, b := range h.model.blocks {
		if b.number > mx {
			mx = b.number
		}
	}
	return mx
}

// snapshot renders everything the property calls observable. chain: block
// data; rounds: finalisation round bookkeeping.
func (h *c17Harness) snapshot() (chain, rounds string) {
	var sb strings.Builder
	hf, err := h.bs.GetHighestFinalisedHash()
	fmt.Fprintf(&sb, "highest=%s/%v last=%s\n", hf, err != nil, h.bs.lastFinalised)
	probe := make([]common.Hash, 0, len(h.model.blocks)+1)
	for _, b := range h.model.blocks {
		probe = append(probe, b.hash)
	}
	probe = append(probe, h.unknown)
	probe = append(probe, h.refused...)
	for i, hash := range probe {
		has, err1 := h.bs.HasHeader(hash)
		hdr, err2 := h.bs.GetHeader(hash)
		indb, err3 := h.bs.HasHeaderInDatabase(hash)
		hn := -1
		if hdr != nil {
			hn = int(hdr.Number)
		}
		blk, err4 := h.bs.GetBlockByHash(hash)
		bn := -1
		if blk != nil {
			bn = int(blk.Header.Number)
		}
		body, err5 := h.bs.GetBlockBody(hash)
		hasBody, err6 := h.bs.HasBlockBody(hash)
		fmt.Fprintf(&sb, "b%d has=%v/%v get=%d/%v db=%v/%v block=%d/%v body=%v/%v hasBody=%v/%v\n", i, has, err1 != nil, hn, err2 != nil,
			indb, err3 != nil, bn, err4 != nil, body != nil, err5 != nil, hasBody, err6 != nil)
	}
	for n := uint(0); n <= h.maxNumber()+1; n++ {
		hash, err := h.bs.GetHashByNumber(n)
		raw, err2 := h.bs.db.Get(headerHashKey(uint64(n)))
		fmt.Fprintf(&sb, "n%d byNumber=%s/%v db=%x/%v\n", n, hash, err != nil, raw, err2 != nil)
	}
	h.bs.unfinalisedBlocks.mutex.RLock()
	keys := make([]string, 0, len(h.bs.unfinalisedBlocks.mapping))
	for k, blk := range h.bs.unfinalisedBlocks.mapping {
		keys = append(keys, fmt.Sprintf("%s:#%d:parent=%s:hash=%s", k, blk.Header.Number, blk.Header.ParentHash, blk.Header.Hash()))
	}
	h.bs.unfinalisedBlocks.mutex.RUnlock()
	sort.Strings(keys)
	fmt.Fprintf(&sb, "unfinalised=%v\n", keys)
	h.tries.mapMutex.RLock()
	roots := make([]string, 0, len(h.tries.rootToTrie))
	for k := range h.tries.rootToTrie {
		roots = append(roots, k.String())
	}
	h.tries.mapMutex.RUnlock()
	sort.Strings(roots)
	fmt.Fprintf(&sb, "tries=%d %v\n", h.tries.len(), roots)
	tree := []string{}
	for _, x := range h.bs.bt.GetAllBlocks() {
		tree = append(tree, x.String())
	}
	sort.Strings(tree)
	leaves := []string{}
	for _, x := range h.bs.bt.Leaves() {
		leaves = append(leaves, x.String())
	}
	sort.Strings(leaves)
	fmt.Fprintf(&sb, "tree=%v leaves=%v\n", tree, leaves)

	r, s, err := h.bs.GetHighestRoundAndSetID()
	lr, ls := h.bs.GetRoundAndSetID()
	rounds = fmt.Sprintf("hrs=%d/%d/%v last=%d/%d", r, s, err != nil, lr, ls)
	return sb.String(), rounds
}

func c17Diff(a, b string) string {
	la, lb := strings.Split(a, "\n"), strings.Split(b, "\n")
	var out []string
	for i := 0; i < len(la) || i < len(lb); i++ {
		var x, y string
		if i < len(la) {
			x = la[i]
		}
		if i < len(lb) {
			y = lb[i]
		}
		if x != y {
			out = append(out, fmt.Sprintf("  before: %s\n  after:  %s", x, y))
		}
	}
	return strings.Join(out, "\n")
}

// checkFinalisedChain: every number up to the head resolves to the canonical
// hash, from the database.
func (h *c17Harness) checkFinalisedChain(bs *BlockState, where string) error {
	m := &h.model
	for i := m.head; i >= 0; i = m.blocks[i].parent {
		b := m.blocks[i]
		got, err := bs.GetHashByNumber(b.number)
		if err != nil || got != b.hash {
			return fmt.Errorf("%s: GetHashByNumber(%d) = %s, %v; finalised chain has b%d %s", where, b.number, got, err, i, b.hash)
		}
		raw, err := bs.db.Get(headerHashKey(uint64(b.number)))
		if err != nil || common.NewHash(raw) != b.hash {
			return fmt.Errorf("%s: database number->hash entry of %d is %x, %v; finalised chain has b%d %s", where, b.number, raw, err, i, b.hash)
		}
		indb, err := bs.HasHeaderInDatabase(b.hash)
		if err != nil || !indb {
			return fmt.Errorf("%s: header of finalised b%d (number %d) is not in the database (%v)", where, i, b.number, err)
		}
		hdr, err := bs.GetHeader(b.hash)
		if err != nil || hdr.Number != b.number || hdr.Hash() != b.hash {
			return fmt.Errorf("%s: GetHeader of finalised b%d: %v, %v", where, i, hdr, err)
		}
	}
	// ancestry stays what the parent links say once blocks have left the block tree:
	// a finalised block below the head is an ancestor of every retrievable block above
	// it on its chain, and no block is a descendant of a block with a higher number
	for f := m.blocks[m.head].parent; f >= 0; f = m.blocks[f].parent {
		for x := range m.blocks {
			bx := m.blocks[x]
			if x == f || bx.abandoned || !(m.live(x) || m.onFinalisedChain(x)) {
				continue
			}
			if bs != h.bs && !m.onFinalisedChain(x) {
				continue // a reopened state holds the finalised chain only
			}
			want := m.isDescOrEq(f, x)
			got, err := bs.IsDescendantOf(m.blocks[f].hash, bx.hash)
			if err != nil || got != want {
				return fmt.Errorf("%s: IsDescendantOf(ancestor = finalised b%d #%d, descendant = b%d #%d) = %v, %v; parent links say %v", where, f, m.blocks[f].number, x, bx.number, got, err, want)
			}
			if bx.number > m.blocks[f].number {
				got, err := bs.IsDescendantOf(bx.hash, m.blocks[f].hash)
				if err != nil || got {
					return fmt.Errorf("%s: IsDescendantOf(ancestor = b%d #%d, descendant = finalised b%d #%d) = %v, %v; a block cannot descend from a higher one", where, x, bx.number, f, m.blocks[f].number, got, err)
				}
			}
		}
	}
	return nil
}

// checkAbandoned: no abandoned block is retrievable as an unfinalised block or
// keeps a state trie that only abandoned blocks own.
func (h *c17Harness) checkAbandoned(where string) error {
	m := &h.model
	keptRoots := map[common.Hash]bool{}
	for _, b := range m.blocks {
		if !b.abandoned {
			keptRoots[b.root] = true
		}
	}
	for i, b := range m.blocks {
		if !b.abandoned {
			continue
		}
		if blk := h.bs.unfinalisedBlocks.getBlock(b.hash); blk != nil {
			return fmt.Errorf("%s: abandoned b%d (number %d) is still in unfinalisedBlocks", where, i, b.number)
		}
		if hdr, err := h.bs.GetHeader(b.hash); err == nil {
			return fmt.Errorf("%s: abandoned b%d is still retrievable: GetHeader = #%d", where, i, hdr.Number)
		}
		if has, err := h.bs.HasHeader(b.hash); err != nil || has {
			return fmt.Errorf("%s: abandoned b%d: HasHeader = %v, %v", where, i, has, err)
		}
		if blk, err := h.bs.GetBlockByHash(b.hash); err == nil {
			return fmt.Errorf("%s: abandoned b%d is still retrievable: GetBlockByHash = #%d", where, i, blk.Header.Number)
		}
		if body, err := h.bs.GetBlockBody(b.hash); err == nil {
			return fmt.Errorf("%s: abandoned b%d is still retrievable: GetBlockBody = %v", where, i, body)
		}
		if !keptRoots[b.root] && h.tries.get(b.root) != nil {
			return fmt.Errorf("%s: state trie (rootID %d) of abandoned b%d is still held in Tries and no surviving block has that root",
				where, b.rootID, i)
		}
	}
	// blocks whose import was refused were never part of the tree: they are not
	// retrievable either, now or after any later finalisation
	for i, hash := range h.refused {
		what := fmt.Sprintf("refused import x%d (%s)", i, h.refusedKind[i])
		if blk := h.bs.unfinalisedBlocks.getBlock(hash); blk != nil {
			return fmt.Errorf("%s: %s is in unfinalisedBlocks", where, what)
		}
		if hdr, err := h.bs.GetHeader(hash); err == nil {
			return fmt.Errorf("%s: %s is retrievable: GetHeader = #%d", where, what, hdr.Number)
		}
		if has, err := h.bs.HasHeader(hash); err != nil || has {
			return fmt.Errorf("%s: %s: HasHeader = %v, %v", where, what, has, err)
		}
		if blk, err := h.bs.GetBlockByHash(hash); err == nil {
			return fmt.Errorf("%s: %s is retrievable: GetBlockByHash = #%d", where, what, blk.Header.Number)
		}
		if _, err := h.bs.GetBlockBody(hash); err == nil {
			return fmt.Errorf("%s: %s is retrievable: GetBlockBody", where, what)
		}
	}
	return nil
}

// badImport builds the block of a refused-import op and classifies it with the
// model. isNew: the hash was never imported before.
func (h *c17Harness) badImport(o c17Op) (blk *types.Block, class string, isNew bool, err error) {
	m := &h.model
	classOf := func(i int) string {
		switch {
		case m.blocks[i].abandoned:
			return "abandoned"
		case m.live(i):
			return "live"
		case m.onFinalisedChain(i):
			return "stale"
		}
		return "?"
	}
	k := len(h.refused)
	fresh := func(parent common.Hash, number uint) *types.Block {
		return &types.Block{Header: types.Header{
			ParentHash:     parent,
			Number:         number,
			StateRoot:      c17Trie(1000 + k).MustHash(),
			ExtrinsicsRoot: common.Hash{byte(k), byte(k >> 8), 0xbd},
			Digest:         c17Digest(uint64(5000+k), k%2 == 0),
		}, Body: types.Body{}}
	}
	switch o.sub {
	case "re": // the very same block again
		b := m.blocks[o.target]
		hdr := types.Header{ParentHash: b.hdr.ParentHash, Number: b.hdr.Number, StateRoot: b.hdr.StateRoot,
			ExtrinsicsRoot: b.hdr.ExtrinsicsRoot, Digest: b.hdr.Digest}
		if hdr.Hash() != b.hash {
			return nil, "", false, fmt.Errorf("harness: rebuilt header of b%d has another hash", o.target)
		}
		return &types.Block{Header: hdr, Body: types.Body{}}, "re-" + classOf(o.target), false, nil
	case "child": // a new block under target, number = parent+1+delta
		b := m.blocks[o.target]
		pc := classOf(o.target)
		if pc == "live" && o.delta == 0 {
			return nil, "", false, fmt.Errorf("harness: op %s would be a valid import", o)
		}
		n := int(b.number) + 1 + o.delta
		if n < 0 {
			n = 0
		}
		class = "child-of-" + pc
		if pc == "live" {
			class = "wrong-number"
		}
		return fresh(b.hash, uint(n)), class, true, nil
	case "orphan":
		return fresh(common.Hash{0x0f, byte(k), 0xaa}, uint(1+k%5)), "orphan", true, nil
	}
	return nil, "", false, fmt.Errorf("harness: unknown import kind %q", o.sub)
}

type c17Op struct {
	kind    string // "add" | "fin" | "bad" (an import that must be refused)
	sub     string // bad: "re" (same block again) | "child" (new block under target) | "orphan"
	delta   int    // bad/child: offset added to the correct number
	parent  int    // add: model index of parent
	rootID  int    // add
	primary bool   // add
	target  int    // fin: model index, or -1 for an unknown hash
	setBump bool   // fin: start a new authority set (set id + 1, round restarts at 1)
}

func (o c17Op) String() string {
	if o.kind == "bad" {
		switch o.sub {
		case "re":
			return fmt.Sprintf("I(again b%d)", o.target)
		case "child":
			return fmt.Sprintf("I(child-of b%d,%+d)", o.target, o.delta)
		}
		return "I(orphan)"
	}
	if o.kind == "add" {
		p := "s"
		if o.primary {
			p = "p"
		}
		return fmt.Sprintf("A(b%d,r%d,%s)", o.parent, o.rootID, p)
	}
	s := ""
	if o.setBump {
		s = "+set"
	}
	if o.target < 0 {
		return "F(unknown" + s + ")"
	}
	return fmt.Sprintf("F(b%d%s)", o.target, s)
}

type c17Stats struct {
	labels     map[string]bool
	nontrivial bool
}

// c17Exec runs ops (already consistent with the model indexes) and checks the
// oracle after every finalisation request.
func c17Exec(ops []c17Op) (st c17Stats, err error) {
	st.labels = map[string]bool{}
	h, err := c17New()
	if err != nil {
		return st, err
	}
	defer h.close()
	round, setID := uint64(0), uint64(0)
	for step, o := range ops {
		where := fmt.Sprintf("step %d %s", step, o)
		if o.kind == "add" {
			if err := h.addBlock(o.parent, o.rootID, o.primary); err != nil {
				return st, fmt.Errorf("%s: %w", where, err)
			}
			continue
		}
		if o.kind == "bad" {
			blk, class, isNew, err := h.badImport(o)
			if err != nil {
				return st, fmt.Errorf("%s: %w", where, err)
			}
			if isNew {
				// probed by the snapshot from now on (before and after)
				h.refused = append(h.refused, blk.Header.Hash())
				h.refusedKind = append(h.refusedKind, class)
			}
			st.labels["import/"+class] = true
			if class == "re-abandoned" || class == "child-of-abandoned" {
				st.nontrivial = true
			}
			chainBefore, roundsBefore := h.snapshot()
			gotErr := h.bs.AddBlock(blk)
			chainAfter, roundsAfter := h.snapshot()
			if gotErr == nil {
				return st, fmt.Errorf("%s: import (%s) that the block tree must refuse succeeded", where, class)
			}
			if chainBefore != chainAfter || roundsBefore != roundsAfter {
				return st, fmt.Errorf("%s: refused import (%s: %v) changed observable state:\n%s\n  rounds %s -> %s", where, class, gotErr,
					c17Diff(chainBefore, chainAfter), roundsBefore, roundsAfter)
			}
			if err := h.checkAbandoned(where); err != nil {
				return st, err
			}
			continue
		}
		m := &h.model
		if o.setBump {
			setID++
			round = 0
			st.labels["new-set-id"] = true
		}
		round++
		hash := h.unknown
		class := "unknown"
		if o.target >= 0 {
			b := m.blocks[o.target]
			hash = b.hash
			switch {
			case o.target == m.head:
				class = "head-again"
			case m.live(o.target):
				class = "descendant"
			case b.abandoned:
				class = "abandoned"
			case m.onFinalisedChain(o.target):
				class = "stale-ancestor"
			default:
				return st, fmt.Errorf("%s: model cannot classify b%d", where, o.target)
			}
		}
		st.labels["request/"+class] = true
		chainBefore, roundsBefore := h.snapshot()
		gotErr := h.bs.SetFinalisedHash(hash, round, setID)
		chainAfter, roundsAfter := h.snapshot()
		switch class {
		case "descendant":
			if gotErr != nil {
				return st, fmt.Errorf("%s: finalising a known descendant of the finalised head failed: %v", where, gotErr)
			}
			oldHead := m.head
			abandonedNow := m.finalise(o.target)
			hf, err := h.bs.GetHighestFinalisedHash()
			if err != nil || hf != hash {
				return st, fmt.Errorf("%s: GetHighestFinalisedHash = %s, %v after finalising %s", where, hf, err, hash)
			}
			if err := h.checkFinalisedChain(h.bs, where); err != nil {
				return st, err
			}
			if err := h.checkAbandoned(where); err != nil {
				return st, err
			}
			// labels / non-triviality
			if len(abandonedNow) >= 2 {
				st.nontrivial = true
				st.labels["abandons>=2"] = true
			}
			if len(abandonedNow) > 0 {
				st.labels["abandons>=1"] = true
			}
			if m.blocks[o.target].number-m.blocks[oldHead].number >= 2 {
				st.labels["head-advances>=2"] = true
			}
			sibs, deep, shared := 0, false, false
			for _, a := range abandonedNow {
				pa := m.blocks[a].parent
				if !m.blocks[pa].abandoned {
					sibs++ // root of an abandoned subtree
				} else {
					deep = true
				}
				for j, b := range m.blocks {
					if j != a && !b.abandoned && b.root == m.blocks[a].root {
						shared = true
					}
				}
			}
			if sibs >= 2 {
				st.labels["abandons>=2-subtrees"] = true
			}
			if deep {
				st.labels["abandons-deep-fork"] = true
			}
			if shared {
				st.labels["abandoned-shares-root-with-survivor"] = true
			}
		case "head-again":
			// The statement neither clearly requires nor forbids re-finalising the
			// head in a later round (GRANDPA does it); either way the head does not
			// move and no block data changes.
			if chainBefore != chainAfter {
				return st, fmt.Errorf("%s: re-finalising the head (err=%v) changed block state:\n%s", where, gotErr, c17Diff(chainBefore, chainAfter))
			}
			if gotErr == nil {
				st.labels["head-again-accepted"] = true
			} else if roundsBefore != roundsAfter {
				return st, fmt.Errorf("%s: rejected re-finalisation changed round bookkeeping: %s -> %s", where, roundsBefore, roundsAfter)
			}
		default: // unknown, abandoned, stale-ancestor: must fail and change nothing
			st.nontrivial = true
			if gotErr == nil {
				return st, fmt.Errorf("%s: finalising a %s block succeeded (head was b%d)", where, class, m.head)
			}
			if chainBefore != chainAfter || roundsBefore != roundsAfter {
				return st, fmt.Errorf("%s: rejected request (%v) changed observable state:\n%s\n  rounds %s -> %s", where, gotErr,
					c17Diff(chainBefore, chainAfter), roundsBefore, roundsAfter)
			}
			if err := h.checkAbandoned(where); err != nil {
				return st, err
			}
		}
	}
	// the finalised chain is readable from persistent storage alone: a new
	// BlockState over the same database
	if h.model.head != 0 {
		bs2, err := NewBlockState(h.db, NewTries(), c17Telemetry{})
		if err != nil {
			return st, fmt.Errorf("reopening the block state: %w", err)
		}
		hf, err := bs2.GetHighestFinalisedHash()
		if err != nil || hf != h.model.blocks[h.model.head].hash {
			return st, fmt.Errorf("after reopen: highest finalised %s, %v; want b%d", hf, err, h.model.head)
		}
		if err := h.checkFinalisedChain(bs2, "after reopen"); err != nil {
			return st, err
		}
		st.labels["reopened"] = true
	}
	return st, nil
}

// c17Gen draws a history. It keeps its own light model (parents, numbers,
// head, abandoned) to aim requests at every class.
func c17Gen(t *rapid.T) []c17Op {
	m := c17Model{blocks: []c17Block{{parent: -1}}}
	var ops []c17Op
	liveIdx := func() []int {
		var l []int
		for i := range m.blocks {
			if !m.blocks[i].abandoned && m.live(i) {
				l = append(l, i)
			}
		}
		return l
	}
	phases := rapid.IntRange(1, 5).Draw(t, "phases")
	for ph := 0; ph < phases; ph++ {
		nAdd := rapid.IntRange(0, 9).Draw(t, "nAdd")
		if ph == 0 && nAdd < 3 {
			nAdd = 3
		}
		for i := 0; i < nAdd && len(m.blocks) < 40; i++ {
			live := liveIdx()
			var parent int
			switch rapid.IntRange(0, 3).Draw(t, "parentMode") {
			case 0: // extend the newest live block (depth)
				parent = live[len(live)-1]
			case 1: // fork at the head
				parent = m.head
			default:
				parent = live[rapid.IntRange(0, len(live)-1).Draw(t, "parent")]
			}
			id := len(m.blocks)
			rootID := id
			if rapid.IntRange(0, 3).Draw(t, "shareRoot") == 0 {
				rootID = m.blocks[rapid.IntRange(0, id-1).Draw(t, "rootOf")].rootID
			}
			ops = append(ops, c17Op{kind: "add", parent: parent, rootID: rootID, primary: rapid.Bool().Draw(t, "primary")})
			m.blocks = append(m.blocks, c17Block{parent: parent, number: m.blocks[parent].number + 1, rootID: rootID})
		}
		drawBad := func() {
			nBad := rapid.SampledFrom([]int{0, 0, 1, 1, 2}).Draw(t, "nBad")
			for b := 0; b < nBad; b++ {
				var abandoned, stale, live []int
				for j := range m.blocks {
					switch {
					case m.blocks[j].abandoned:
						abandoned = append(abandoned, j)
					case m.live(j):
						live = append(live, j)
					default:
						stale = append(stale, j)
					}
				}
				op := c17Op{kind: "bad", sub: "orphan"}
				pick := func(c []int, sub string, delta int) {
					if len(c) > 0 {
						op.sub, op.delta = sub, delta
						op.target = c[rapid.IntRange(0, len(c)-1).Draw(t, "badTarget")]
					}
				}
				switch rapid.IntRange(0, 9).Draw(t, "badMode") {
				case 0, 1:
					pick(abandoned, "re", 0)
				case 2, 3:
					pick(abandoned, "child", rapid.SampledFrom([]int{0, 0, 0, 1}).Draw(t, "badDelta"))
				case 4:
					pick(live, "re", 0)
				case 5, 6:
					pick(live, "child", rapid.SampledFrom([]int{-1, 1}).Draw(t, "badDelta"))
				case 7:
					pick(stale, "re", 0)
				case 8:
					pick(stale, "child", 0)
				}
				ops = append(ops, op)
			}
		}
		nFin := rapid.IntRange(1, 4).Draw(t, "nFin")
		for i := 0; i < nFin; i++ {
			drawBad()
			var cands []int
			mode := rapid.IntRange(0, 9).Draw(t, "finMode")
			switch {
			case mode <= 4: // strict descendants of the head
				for _, j := range liveIdx() {
					if j != m.head {
						cands = append(cands, j)
					}
				}
			case mode == 5:
				cands = []int{m.head}
			case mode == 6: // stale ancestors
				for j := m.blocks[m.head].parent; j >= 0; j = m.blocks[j].parent {
					cands = append(cands, j)
				}
			case mode == 7 || mode == 8: // abandoned
				for j := range m.blocks {
					if m.blocks[j].abandoned {
						cands = append(cands, j)
					}
				}
			}
			op := c17Op{kind: "fin", target: -1, setBump: rapid.IntRange(0, 7).Draw(t, "setBump") == 0}
			if len(cands) > 0 {
				op.target = cands[rapid.IntRange(0, len(cands)-1).Draw(t, "target")]
			} else if mode != 9 {
				// class empty in this state: fall back to any known block
				op.target = rapid.IntRange(0, len(m.blocks)-1).Draw(t, "anyTarget")
			}
			ops = append(ops, op)
			if op.target >= 0 && op.target != m.head && !m.blocks[op.target].abandoned && m.live(op.target) {
				m.finalise(op.target)
			}
		}
		drawBad()
	}
	return ops
}

func c17Describe(ops []c17Op) string {
	parts := make([]string, len(ops))
	for i, o := range ops {
		parts[i] = o.String()
	}
	return strings.Join(parts, " ")
}

func TestC17Finality(t *testing.T) {
	defer kit.Flush()
	rapid.Check(t, func(t *rapid.T) {
		ops := c17Gen(t)
		st, err := c17Exec(ops)
		if err != nil {
			t.Fatalf("history [%s]: %v", c17Describe(ops), err)
		}
		ls := make([]string, 0, len(st.labels))
		for l := range st.labels {
			ls = append(ls, l)
		}
		kit.Case(c17Describe(ops), st.nontrivial, ls...)
	})
}

// TestC17Regressions: shrunk failing histories, replayed without the generator.
func TestC17Regressions(t *testing.T) {
	defer kit.Flush()
	add := func(p, r int) c17Op { return c17Op{kind: "add", parent: p, rootID: r, primary: true} }
	fin := func(x int) c17Op { return c17Op{kind: "fin", target: x} }
	bad := func(sub string, x, delta int) c17Op { return c17Op{kind: "bad", sub: sub, target: x, delta: delta} }
	cases := map[string][]c17Op{
		// genesis b0 with children b1, b2, b3; finalising b3 abandons b1 and b2. With
		// blocktree's node.prune ranging over the slice it mutates, b2 is skipped: it
		// stays in unfinalisedBlocks and keeps its trie (lib/blocktree fix of C15).
		"two-abandoned-siblings": {add(0, 1), add(0, 2), add(0, 3), fin(3)},
		// abandoned subtree whose root has two children
		"abandoned-fork-with-two-children": {add(0, 1), add(1, 2), add(1, 3), add(0, 4), fin(4)},
		// b1, b2 under genesis; finalising b2 abandons b1. Then b1 arrives again, a late child of b1
		// arrives, a duplicate of the head's child, a wrong number, an orphan, a child of the stale
		// genesis: all refused, nothing changes, nothing of it is retrievable after the next finalisation.
		"refused-imports-after-finalisation": {add(0, 1), add(0, 2), add(2, 3), fin(2),
			bad("re", 1, 0), bad("child", 1, 0), bad("re", 3, 0), bad("child", 3, 1), bad("child", 2, -1), bad("orphan", 0, 0),
			bad("child", 0, 0), bad("re", 0, 0), fin(3), bad("re", 1, 0), bad("child", 2, 0), fin(1)},
		"stale-and-abandoned-targets": {add(0, 1), add(0, 2), add(1, 3), fin(3), fin(2), fin(0), fin(1), fin(-1), fin(3)},
	}
	names := make([]string, 0, len(cases))
	for n := range cases {
		names = append(names, n)
	}
	sort.Strings(names)
	for _, name := range names {
		st, err := c17Exec(cases[name])
		if err != nil {
			t.Errorf("%s [%s]: %v", name, c17Describe(cases[name]), err)
		}
		ls := []string{"regression"}
		for l := range st.labels {
			ls = append(ls, "regression/"+l)
		}
		kit.Case("regression "+name, true, ls...)
	}
}
