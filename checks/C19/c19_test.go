package grandpa

// C19 (part in pkg/finality-grandpa): NewVoterSet and ValidateCommit against
// the definitions (../C20/grandpadefs_test.go), for uint32 and uint64 block
// numbers and any order of the precommits.

import (
	"fmt"
	"math"
	"math/big"
	"sort"
	"strings"
	"testing"

	kit "github.com/ChainSafe/gossamer/internal/verifkit"
	"golang.org/x/exp/constraints"
	"pgregory.net/rapid"
)

const c19Rule = "commit over a generated tree (<= 8 blocks, scrambled hashes, number offsets up to 2^32-12): voter list with weights and repeated ids (weight of an id = SUM of its entries), " +
	"precommits by members (<= 2 distinct votes per voter, exact repetitions, non-member entries) in a generated order, target = the GHOST by the definitions (60%) or any block; " +
	"oracle: valid iff members' precommits are non-empty, the lowest target is an ancestor-or-equal of all targets (round base), and the precommit GHOST over distinct voters (equivocators count for every block, threshold T-floor((T-1)/3)) is the target; " +
	"the verdict must be the same for a generated permutation of the precommits and for uint32/uint64. While the equivocating weight exceeds f the GHOST is not unique: then only 'target without supermajority => invalid' is judged. " +
	"non-trivial = >= 3 voters and member precommits on >= 2 distinct blocks"

// ---------------------------------------------------------------- NewVoterSet

type c19Entry struct {
	id string
	w  uint64
}

func c19FmtEntries(es []c19Entry) string {
	var parts []string
	for _, e := range es {
		parts = append(parts, fmt.Sprintf("%s:%d", e.id, e.w))
	}
	return "{" + strings.Join(parts, ",") + "}"
}

// c19SpecVoters: the voter set by the documentation of NewVoterSet: partial
// weights of one id are accumulated, zero weights are skipped, nil when empty
// or when the total exceeds MaxUint64.
func c19SpecVoters(es []c19Entry) (ids []string, w map[string]uint64, total uint64, ok bool) {
	sum := map[string]*big.Int{}
	tot := new(big.Int)
	for _, e := range es {
		if e.w == 0 {
			continue
		}
		if sum[e.id] == nil {
			sum[e.id] = new(big.Int)
		}
		sum[e.id].Add(sum[e.id], new(big.Int).SetUint64(e.w))
		tot.Add(tot, new(big.Int).SetUint64(e.w))
	}
	if len(sum) == 0 || tot.Cmp(new(big.Int).SetUint64(math.MaxUint64)) > 0 {
		return nil, nil, 0, false
	}
	w = map[string]uint64{}
	for id, s := range sum {
		ids = append(ids, id)
		w[id] = s.Uint64()
	}
	sort.Strings(ids)
	return ids, w, tot.Uint64(), true
}

func c19CheckVoterSet(es []c19Entry) error {
	iw := make([]IDWeight[string], len(es))
	for i, e := range es {
		iw[i] = IDWeight[string]{ID: e.id, Weight: e.w}
	}
	vs := NewVoterSet(iw)
	ids, w, total, ok := c19SpecVoters(es)
	if !ok {
		if vs != nil {
			return fmt.Errorf("NewVoterSet(%s) returned a set, expected nil (no non-zero weight, or total > MaxUint64)", c19FmtEntries(es))
		}
		return nil
	}
	if vs == nil {
		return fmt.Errorf("NewVoterSet(%s) returned nil, expected %d voters with total %d", c19FmtEntries(es), len(ids), total)
	}
	if uint64(vs.TotalWeight()) != total {
		return fmt.Errorf("NewVoterSet(%s): total weight %d, expected %d", c19FmtEntries(es), vs.TotalWeight(), total)
	}
	wantThr := total - (total-1)/3
	if uint64(vs.Threshold()) != wantThr {
		return fmt.Errorf("NewVoterSet(%s): threshold %d, expected %d", c19FmtEntries(es), vs.Threshold(), wantThr)
	}
	if vs.Len() != len(ids) || len(vs.Iter()) != len(ids) {
		return fmt.Errorf("NewVoterSet(%s): %d voters, expected %d", c19FmtEntries(es), vs.Len(), len(ids))
	}
	var sumW uint64
	for i, id := range ids {
		info := vs.Get(id)
		if info == nil || !vs.Contains(id) {
			return fmt.Errorf("NewVoterSet(%s): voter %s missing", c19FmtEntries(es), id)
		}
		if uint64(info.Weight()) != w[id] {
			return fmt.Errorf("NewVoterSet(%s): weight(%s) = %d, expected the sum of its entries %d", c19FmtEntries(es), id, info.Weight(), w[id])
		}
		if info.Position() != uint(i) {
			return fmt.Errorf("NewVoterSet(%s): position(%s) = %d, expected %d", c19FmtEntries(es), id, info.Position(), i)
		}
		nth := vs.Nth(uint(i))
		if nth == nil || nth.ID != id || uint64(nth.Weight()) != w[id] {
			return fmt.Errorf("NewVoterSet(%s): Nth(%d) is not %s with weight %d", c19FmtEntries(es), i, id, w[id])
		}
		if m := vs.NthMod(uint(i + len(ids))); m.ID != id {
			return fmt.Errorf("NewVoterSet(%s): NthMod(%d) = %s, expected %s", c19FmtEntries(es), i+len(ids), m.ID, id)
		}
		sumW += w[id]
	}
	if sumW != total {
		return fmt.Errorf("ORACLE BUG: weights do not add up")
	}
	if vs.Nth(uint(len(ids))) != nil || vs.Contains("~nobody") {
		return fmt.Errorf("NewVoterSet(%s): Nth(len) or Contains(non-member) wrong", c19FmtEntries(es))
	}
	return nil
}

func TestC19VoterSet(t *testing.T) {
	defer kit.Flush()
	rapid.Check(t, func(t *rapid.T) {
		n := rapid.IntRange(0, 8).Draw(t, "entries")
		pool := rapid.IntRange(1, 5).Draw(t, "idPool")
		huge := rapid.IntRange(0, 9).Draw(t, "huge") == 0
		var es []c19Entry
		for i := 0; i < n; i++ {
			id := fmt.Sprintf("%c", 'a'+rapid.IntRange(0, pool-1).Draw(t, "id"))
			var w uint64
			if huge {
				w = rapid.SampledFrom([]uint64{0, 1, 1 << 62, 1 << 63, math.MaxUint64, math.MaxUint64 - 1, 1<<63 - 1}).Draw(t, "w")
			} else {
				w = rapid.SampledFrom([]uint64{0, 1, 1, 1, 2, 3, 4, 7}).Draw(t, "w")
			}
			es = append(es, c19Entry{id, w})
		}
		if err := c19CheckVoterSet(es); err != nil {
			t.Fatalf("%v", err)
		}
		if len(es) > 1 {
			// the order of the entries is irrelevant (documented)
			perm := rapid.Permutation(es).Draw(t, "perm")
			if err := c19CheckVoterSet(perm); err != nil {
				t.Fatalf("permuted: %v", err)
			}
		}
		seen := map[string]int{}
		for _, e := range es {
			if e.w != 0 {
				seen[e.id]++
			}
		}
		rep := false
		for _, c := range seen {
			if c > 1 {
				rep = true
			}
		}
		_, _, _, ok := c19SpecVoters(es)
		var labels []string
		if rep {
			labels = append(labels, "voterset:repeated-id")
		}
		if !ok {
			labels = append(labels, "voterset:nil-expected")
		}
		if huge {
			labels = append(labels, "voterset:huge-weights")
		}
		kit.Case("voterset "+c19FmtEntries(es), rep && ok, labels...)
	})
}

// ---------------------------------------------------------------- ValidateCommit

type c19PC struct {
	voter int // index into the distinct member ids; -1 = non-member
	block int
}

type c19Case struct {
	tr      *gTree
	entries []c19Entry // voter list as given to NewVoterSet (repeated ids)
	ids     []string   // distinct member ids (sorted)
	w       []uint64   // summed weight per member
	pcs     []c19PC
	target  int
	// tnDelta: the commit names the target's hash with this much added to its number
	// (0 in every judged case; non-zero only in the target-number-mismatch step)
	tnDelta int64
}

func (c *c19Case) describe(pcs []c19PC) string {
	var parts []string
	for _, p := range pcs {
		who := "outsider"
		if p.voter >= 0 {
			who = c.ids[p.voter]
		}
		parts = append(parts, fmt.Sprintf("%s->%s#%d", who, c.tr.label[p.block], c.tr.num(p.block)))
	}
	return fmt.Sprintf("%s voters%s target %s#%d precommits[%s]", c.tr.describe(), c19FmtEntries(c.entries), c.tr.label[c.target], c.tr.num(c.target), strings.Join(parts, ", "))
}

type c19Verdict struct {
	valid     bool
	judged    bool // false: GHOST ambiguous (equivocating weight > f) and the target has a supermajority: either verdict allowed
	base      int
	dups      uint
	eqvs      uint
	outsiders uint
	distinct  int // distinct member target blocks
	over      bool
	why       string
}

// c19Spec: the verdict by the definitions. Order-independent by construction.
func c19Spec(c *c19Case, pcs []c19PC) c19Verdict {
	v := c19Verdict{judged: true, base: -1}
	t := c.tr
	var members []c19PC
	for _, p := range pcs {
		if p.voter < 0 {
			v.outsiders++
			continue
		}
		members = append(members, p)
	}
	if len(members) == 0 {
		v.why = "no precommit by a member"
		return v
	}
	base := members[0].block
	blocks := map[int]bool{}
	for _, p := range members {
		blocks[p.block] = true
		if t.num(p.block) < t.num(base) {
			base = p.block
		}
	}
	v.distinct = len(blocks)
	for _, p := range members {
		if !t.isAncOrEq(base, p.block) {
			v.why = fmt.Sprintf("precommit on %s does not descend from the lowest precommit block %s", t.label[p.block], t.label[base])
			return v
		}
	}
	v.base = base
	d := newGDefs(t, base, c.w)
	ph := newGPhase(len(c.w))
	for _, p := range members {
		switch ph.add(p.voter, p.block) {
		case 1:
			v.dups++
		case 2:
			v.eqvs++
		case 3:
			panic("generator: third distinct vote")
		}
	}
	v.over = d.eqw(ph) > d.f
	if !v.over {
		g, unique := d.ghost(ph)
		if !unique {
			panic("ORACLE BUG: ambiguous GHOST within tolerance")
		}
		v.valid = g == c.target
		v.why = fmt.Sprintf("base %s, precommit GHOST %s (threshold %d of %d)", t.label[base], d.blk(g), d.thr, d.total)
		return v
	}
	// Equivocating weight beyond f: several forks (even blocks nobody voted for, when the
	// equivocators alone reach the threshold) have a supermajority and the GHOST is not
	// well defined; only the one-directional statement is judged.
	if !t.isAncOrEq(base, c.target) || d.weight(ph, c.target) < d.thr {
		v.why = "target has no supermajority"
		return v
	}
	v.judged = false
	v.why = "GHOST ambiguous (equivocating weight beyond f)"
	return v
}

type c19Got struct {
	valid                  bool
	n, dups, eqvs, invalid uint
}

func c19Validate[N constraints.Unsigned](c *c19Case, pcs []c19PC) (got c19Got, err error) {
	defer func() {
		if r := recover(); r != nil {
			err = fmt.Errorf("panic: %v", r)
		}
	}()
	iw := make([]IDWeight[string], len(c.entries))
	for i, e := range c.entries {
		iw[i] = IDWeight[string]{ID: e.id, Weight: e.w}
	}
	vs := NewVoterSet(iw)
	if vs == nil {
		return got, fmt.Errorf("NewVoterSet returned nil for %s", c19FmtEntries(c.entries))
	}
	t := c.tr
	commit := Commit[string, N, string, string]{TargetHash: t.label[c.target], TargetNumber: N(int64(t.num(c.target)) + c.tnDelta)}
	for _, p := range pcs {
		id := "~outsider"
		if p.voter >= 0 {
			id = c.ids[p.voter]
		}
		commit.Precommits = append(commit.Precommits, SignedPrecommit[string, N, string, string]{
			Precommit: Precommit[string, N]{TargetHash: t.label[p.block], TargetNumber: N(t.num(p.block))},
			Signature: fmt.Sprintf("sig/%s/%s", id, t.label[p.block]),
			ID:        id,
		})
	}
	res, e := ValidateCommit[string, N, string, string](commit, *vs, gChain{t: t})
	if e != nil {
		return got, fmt.Errorf("ValidateCommit error: %v", e)
	}
	return c19Got{res.Valid(), res.NumPrecommits(), res.NumDuplicatedPrecommits(), res.NumEquiovcations(), res.NumInvalidVoters()}, nil
}

func c19Judge[N constraints.Unsigned](c *c19Case, pcs []c19PC, width string) (c19Verdict, error) {
	want := c19Spec(c, pcs)
	got, err := c19Validate[N](c, pcs)
	if err != nil {
		return want, fmt.Errorf("%s: %v\n%s", width, err, c.describe(pcs))
	}
	if want.judged && got.valid != want.valid {
		return want, fmt.Errorf("%s: verdict valid=%v, definitions give valid=%v (%s)\n%s", width, got.valid, want.valid, want.why, c.describe(pcs))
	}
	if got.n != uint(len(pcs)) || got.invalid != want.outsiders {
		return want, fmt.Errorf("%s: NumPrecommits %d NumInvalidVoters %d, expected %d and %d\n%s", width, got.n, got.invalid, len(pcs), want.outsiders, c.describe(pcs))
	}
	if got.valid && (got.dups != want.dups || got.eqvs != want.eqvs) {
		return want, fmt.Errorf("%s: valid commit reports %d duplicates %d equivocations, expected %d and %d\n%s", width, got.dups, got.eqvs, want.dups, want.eqvs, c.describe(pcs))
	}
	return want, nil
}

func genC19Case(t *rapid.T) *c19Case {
	c := &c19Case{tr: genGTree(t, 8)}
	tr := c.tr
	// voter list with repeated ids; the weight of an id is the sum of its entries
	nIDs := rapid.IntRange(1, 6).Draw(t, "ids")
	unit := rapid.Bool().Draw(t, "unit")
	repeat := rapid.IntRange(0, 2).Draw(t, "repeatIds") > 0
	names := make([]string, nIDs)
	for i := range names {
		names[i] = fmt.Sprintf("id%d", i)
	}
	names = rapid.Permutation(names).Draw(t, "idOrder")
	for _, id := range names {
		k := 1
		if repeat {
			k = rapid.SampledFrom([]int{1, 1, 2, 3}).Draw(t, "times")
		}
		for j := 0; j < k; j++ {
			w := uint64(1)
			if !unit {
				w = rapid.SampledFrom([]uint64{1, 1, 2, 3, 5}).Draw(t, "w")
			}
			c.entries = append(c.entries, c19Entry{id, w})
		}
	}
	if len(c.entries) > 1 {
		c.entries = rapid.Permutation(c.entries).Draw(t, "entryOrder")
	}
	ids, w, _, ok := c19SpecVoters(c.entries)
	if !ok {
		t.Fatalf("generator: empty voter set")
	}
	c.ids = ids
	for _, id := range ids {
		c.w = append(c.w, w[id])
	}
	nv := len(ids)
	var total uint64
	for _, x := range c.w {
		total += x
	}
	f := (total - 1) / 3

	over := rapid.IntRange(0, 7).Draw(t, "overTolerance") == 0
	hot := rapid.IntRange(0, tr.n()-1).Draw(t, "hotBlock")
	var hotPath []int
	for b := hot; b >= 0; b = tr.parent[b] {
		hotPath = append(hotPath, b)
	}
	lowest := rapid.IntRange(0, len(hotPath)-1).Draw(t, "lowest") // votes on the hot chain stay at or above this block
	pick := func(onHot int) int {
		if rapid.IntRange(0, 9).Draw(t, "onHot") < onHot {
			i := rapid.IntRange(0, lowest).Draw(t, "hotPathBlock")
			if j := rapid.IntRange(0, lowest).Draw(t, "hotPathBlock2"); j < i {
				i = j
			}
			return hotPath[i]
		}
		return rapid.IntRange(0, tr.n()-1).Draw(t, "block")
	}
	part := rapid.SampledFrom([]int{0, 0, 0, 1, 1, 1, 2}).Draw(t, "participation")
	onHot := rapid.SampledFrom([]int{6, 8, 10, 10}).Draw(t, "concentration")
	var eq uint64
	for v := 0; v < nv; v++ {
		r := rapid.IntRange(0, 9).Draw(t, "takesPart")
		if (part == 1 && r == 0) || (part == 2 && r < 5) {
			continue
		}
		first := pick(onHot)
		c.pcs = append(c.pcs, c19PC{v, first})
		switch rapid.IntRange(0, 9).Draw(t, "extra") {
		case 0:
			c.pcs = append(c.pcs, c19PC{v, first})
		case 1, 2:
			second := pick(onHot)
			if second != first && !over && eq+c.w[v] > f {
				second = first
			}
			if second != first {
				eq += c.w[v]
			}
			c.pcs = append(c.pcs, c19PC{v, second})
			if rapid.IntRange(0, 3).Draw(t, "repeatAgain") == 0 {
				c.pcs = append(c.pcs, c19PC{v, rapid.SampledFrom([]int{first, second}).Draw(t, "again")})
			}
		}
	}
	if rapid.IntRange(0, 7).Draw(t, "outsider") == 0 {
		c.pcs = append(c.pcs, c19PC{-1, pick(5)})
	}
	if len(c.pcs) > 1 {
		c.pcs = rapid.Permutation(c.pcs).Draw(t, "order")
	}
	// target: what the definitions call the GHOST (so that valid commits are frequent), or any block
	c.target = rapid.IntRange(0, tr.n()-1).Draw(t, "target")
	if rapid.IntRange(0, 9).Draw(t, "targetGhost") < 6 {
		probe := c19Spec(c, c.pcs)
		if probe.base >= 0 {
			d := newGDefs(tr, probe.base, c.w)
			ph := newGPhase(nv)
			for _, p := range c.pcs {
				if p.voter >= 0 {
					ph.add(p.voter, p.block)
				}
			}
			if g, unique := d.ghost(ph); unique && g >= 0 {
				c.target = g
			}
		}
	}
	return c
}

func TestC19Commit(t *testing.T) {
	defer kit.Flush()
	kit.Note("rule", c19Rule)
	rapid.Check(t, func(t *rapid.T) {
		c := genC19Case(t)
		perm := c.pcs
		if len(c.pcs) > 1 {
			perm = rapid.Permutation(c.pcs).Draw(t, "secondOrder")
		}
		v, err := c19Judge[uint64](c, c.pcs, "uint64")
		if err != nil {
			t.Fatalf("%v", err)
		}
		fits32 := c.tr.offset+8 < 1<<32
		if fits32 {
			if _, err := c19Judge[uint32](c, c.pcs, "uint32"); err != nil {
				t.Fatalf("%v", err)
			}
		}
		if _, err := c19Judge[uint64](c, perm, "uint64, permuted"); err != nil {
			t.Fatalf("%v", err)
		}
		if fits32 {
			if _, err := c19Judge[uint32](c, perm, "uint32, permuted"); err != nil {
				t.Fatalf("%v", err)
			}
		}
		// "the precommit GHOST is the target": a commit that names the target's hash with
		// another block number names no block of the chain and is never valid
		if rapid.IntRange(0, 3).Draw(t, "targetNumberMismatch") == 0 {
			d := rapid.SampledFrom([]int64{-1, 1, 2, 7, 1 << 32}).Draw(t, "tnDelta")
			if int64(c.tr.num(c.target))+d >= 0 {
				c.tnDelta = d
				got, err := c19Validate[uint64](c, c.pcs)
				c.tnDelta = 0
				if err == nil && got.valid {
					t.Fatalf("uint64: a commit whose target is the hash of block #%d with number %d is valid\n%s", c.tr.num(c.target), int64(c.tr.num(c.target))+d, c.describe(c.pcs))
				}
				kit.Label("commit-target-number-mismatch")
			}
		}
		// metamorphic relations stated on their own (also when the oracle does not judge the verdict
		// the two widths must agree on one and the same list)
		if fits32 {
			a, e1 := c19Validate[uint32](c, c.pcs)
			b, e2 := c19Validate[uint64](c, c.pcs)
			// (the duplicate/equivocation counters are only compared on valid commits: an invalid
			// verdict may be reached before every precommit was looked at)
			if e1 != nil || e2 != nil || a.valid != b.valid || a.n != b.n || a.invalid != b.invalid || (a.valid && a != b) {
				t.Fatalf("uint32 and uint64 disagree on the same commit: %+v vs %+v\n%s", a, b, c.describe(c.pcs))
			}
		}

		var labels []string
		add := func(cond bool, l string) {
			if cond {
				labels = append(labels, l)
			}
		}
		rep := len(c.entries) > len(c.ids)
		add(v.judged && v.valid, "verdict:valid")
		add(v.judged && !v.valid, "verdict:invalid")
		add(!v.judged, "verdict:not-judged(ambiguous-ghost)")
		add(v.valid && c.target != v.base, "valid:target-above-base")
		add(v.base < 0 && len(c.pcs) > 0, "invalid:no-common-base")
		add(v.base >= 0 && !v.valid && v.judged, "invalid:ghost-differs-or-none")
		add(rep, "voters:repeated-id")
		add(v.eqvs > 0 && !v.over, "equivocator-within-f")
		add(v.over, "equivocating-weight-beyond-f")
		add(v.dups > 0, "duplicate-precommit")
		add(v.outsiders > 0, "non-member-precommit")
		add(v.distinct >= 2, "precommits-on->=2-blocks")
		add(c.tr.offset >= 1<<31-2, "numbers-near-2^31-or-2^32")
		nontrivial := len(c.ids) >= 3 && v.distinct >= 2
		kit.Case(c.describe(c.pcs), nontrivial, labels...)
	})
}

// ---------------------------------------------------------------- three-way splits (merge points of >= 3 vote-nodes)

// TestC19CommitSplit: commits over split trees (genSplitTree): 5-8 voters, precommits spread over the leaves of the main
// fork, the side forks and H, so that the GHOST is typically the shared prefix of the main fork - a block no one voted
// for, found by ghostFindMergePoint accumulating >= 3 vote-nodes that hang under one graph node - and the verdict
// is judged for the generated order and five further permutations, both number widths. Same oracle as TestC19Commit.
func TestC19CommitSplit(t *testing.T) {
	defer kit.Flush()
	rapid.Check(t, func(t *rapid.T) {
		sp := genSplitTree(t)
		tr := sp.tr
		c := &c19Case{tr: tr}
		nv := rapid.SampledFrom([]int{5, 6, 7, 7, 7, 8, 8}).Draw(t, "voters")
		unit := rapid.IntRange(0, 9).Draw(t, "unit") < 7
		names := make([]string, nv)
		for i := range names {
			names[i] = fmt.Sprintf("id%d", i)
		}
		for _, id := range names {
			w := uint64(1)
			if !unit {
				w = rapid.SampledFrom([]uint64{1, 1, 2}).Draw(t, "w")
			}
			c.entries = append(c.entries, c19Entry{id, w})
		}
		c.entries = rapid.Permutation(c.entries).Draw(t, "entryOrder")
		ids, wm, _, _ := c19SpecVoters(c.entries)
		c.ids = ids
		for _, id := range ids {
			c.w = append(c.w, wm[id])
		}
		for _, vb := range genSplitVotes(t, sp, c.w) {
			c.pcs = append(c.pcs, c19PC{vb[0], vb[1]})
		}
		if rapid.IntRange(0, 14).Draw(t, "outsider") == 0 {
			c.pcs = append(c.pcs, c19PC{-1, rapid.IntRange(0, tr.n()-1).Draw(t, "outsiderBlock")})
		}
		if len(c.pcs) > 1 {
			c.pcs = rapid.Permutation(c.pcs).Draw(t, "order")
		}
		// target: the GHOST by the definitions (70%), the fork point H, or any block
		c.target = rapid.IntRange(0, tr.n()-1).Draw(t, "target")
		ghost := -1
		probe := c19Spec(c, c.pcs)
		voted := map[int]bool{}
		if probe.base >= 0 && !probe.over {
			d := newGDefs(tr, probe.base, c.w)
			ph := newGPhase(len(c.w))
			for _, p := range c.pcs {
				if p.voter >= 0 {
					ph.add(p.voter, p.block)
					voted[p.block] = true
				}
			}
			ghost, _ = d.ghost(ph)
		}
		switch k := rapid.IntRange(0, 9).Draw(t, "targetKind"); {
		case k < 7 && ghost >= 0:
			c.target = ghost
		case k < 9:
			c.target = sp.h
		}
		fits32 := tr.offset+8 < 1<<32
		orders := [][]c19PC{c.pcs}
		for i := 0; i < 5 && len(c.pcs) > 2; i++ {
			orders = append(orders, rapid.Permutation(c.pcs).Draw(t, "furtherOrder"))
		}
		var v c19Verdict
		for i, pcs := range orders {
			var err error
			v, err = c19Judge[uint64](c, pcs, fmt.Sprintf("uint64, order %d", i))
			if err != nil {
				t.Fatalf("%v", err)
			}
			if fits32 {
				if _, err := c19Judge[uint32](c, pcs, fmt.Sprintf("uint32, order %d", i)); err != nil {
					t.Fatalf("%v", err)
				}
			}
		}
		labels := []string{"shape:split"}
		labels = append(labels, gSplitLabels(tr, probe.base, ghost, voted, func(a, b int) bool { return tr.label[a] < tr.label[b] })...)
		add := func(cond bool, l string) {
			if cond {
				labels = append(labels, l)
			}
		}
		add(v.judged && v.valid, "verdict:valid")
		add(v.judged && !v.valid, "verdict:invalid")
		add(v.valid && c.target != v.base, "valid:target-above-base")
		add(ghost >= 0 && !voted[ghost], "split:ghost-is-unvoted-merge-point")
		add(v.base < 0, "invalid:no-common-base")
		add(v.distinct >= 3, "precommits-on->=3-blocks")
		add(v.eqvs > 0 && !v.over, "equivocator-within-f")
		add(v.over, "equivocating-weight-beyond-f")
		kit.Case("split "+c.describe(c.pcs), len(c.ids) >= 3 && v.distinct >= 2, labels...)
	})
}

// ---------------------------------------------------------------- regressions (shrunk inputs of the two defects found)

func TestC19Regressions(t *testing.T) {
	defer kit.Flush()
	// 1. a voter listed several times has its weights summed: {a:1, a:2, b:1} -> total 4, weight(a) = 3
	if err := c19CheckVoterSet([]c19Entry{{"a", 1}, {"a", 2}, {"b", 1}}); err != nil {
		t.Fatalf("%v", err)
	}
	kit.Case("regression voterset {a:1,a:2,b:1}", true, "regression")

	// 2. linear chain A<-B<-C, three unit voters, precommits listed high -> low, target A:
	//    base must be A (lowest), GHOST A; valid for both number widths.
	tr := newGTree([]int{-1, 0, 1}, []string{"A", "B", "C"}, 1)
	c := &c19Case{tr: tr, entries: []c19Entry{{"id0", 1}, {"id1", 1}, {"id2", 1}}, ids: []string{"id0", "id1", "id2"}, w: []uint64{1, 1, 1}, target: 0}
	for _, pcs := range [][]c19PC{
		{{0, 2}, {1, 1}, {2, 0}},
		{{2, 0}, {1, 1}, {0, 2}},
		{{1, 1}, {0, 2}, {2, 0}},
	} {
		if _, err := c19Judge[uint32](c, pcs, "uint32"); err != nil {
			t.Fatalf("%v", err)
		}
		if _, err := c19Judge[uint64](c, pcs, "uint64"); err != nil {
			t.Fatalf("%v", err)
		}
		kit.Case("regression chain "+c.describe(pcs), true, "regression")
	}

	// 3. repeated id decides the verdict: {a:1,a:1,b:1,c:1} (a weighs 2, T=4, thr=3): a and b on B, c on A -> GHOST B
	tr2 := newGTree([]int{-1, 0}, []string{"A", "B"}, 7)
	c2 := &c19Case{tr: tr2, entries: []c19Entry{{"a", 1}, {"b", 1}, {"a", 1}, {"c", 1}}, ids: []string{"a", "b", "c"}, w: []uint64{2, 1, 1}, target: 1}
	if _, err := c19Judge[uint64](c2, []c19PC{{0, 1}, {1, 1}, {2, 0}}, "uint64"); err != nil {
		t.Fatalf("%v", err)
	}
	kit.Case("regression repeated-id verdict", true, "regression")

	// 4. three-way merge under one node (seeded slice-aliasing change in ghostFindMergePoint's sorted insertion):
	//    A0 <- H1 <- H2; H2 <- P3 <- P4 <- {X5a, X5b}; H2 <- C3 <- C4 (hash C3 sorts before P3). 7 unit voters, threshold 5:
	//    one on H2 (base), three on X5a, two on X5b, one on C4: only the shared prefix reaches the threshold, GHOST = P4.
	tr3 := newGTree([]int{-1, 0, 1, 2, 3, 4, 4, 2, 7}, []string{"A0", "H1", "H2", "P3", "P4", "X5a", "X5b", "C3", "C4"}, 0)
	ids7 := []string{"id0", "id1", "id2", "id3", "id4", "id5", "id6"}
	var ent7 []c19Entry
	for _, id := range ids7 {
		ent7 = append(ent7, c19Entry{id, 1})
	}
	for _, target := range []int{4, 2} { // P4: valid; H2: invalid
		c3 := &c19Case{tr: tr3, entries: ent7, ids: ids7, w: []uint64{1, 1, 1, 1, 1, 1, 1}, target: target}
		for _, pcs := range [][]c19PC{
			{{1, 5}, {2, 5}, {3, 5}, {6, 8}, {4, 6}, {5, 6}, {0, 2}}, // main-fork node, side-fork node, second main-fork node
			{{0, 2}, {1, 5}, {6, 8}, {4, 6}, {2, 5}, {5, 6}, {3, 5}},
			{{6, 8}, {4, 6}, {1, 5}, {0, 2}, {2, 5}, {3, 5}, {5, 6}},
			{{4, 6}, {5, 6}, {1, 5}, {2, 5}, {3, 5}, {6, 8}, {0, 2}},
		} {
			v, err := c19Judge[uint64](c3, pcs, "uint64")
			if err != nil {
				t.Fatalf("%v", err)
			}
			if v.valid != (target == 4) {
				t.Fatalf("ORACLE: three-way regression expects GHOST P4, got valid=%v for target %s (%s)", v.valid, tr3.label[target], v.why)
			}
			if _, err := c19Judge[uint32](c3, pcs, "uint32"); err != nil {
				t.Fatalf("%v", err)
			}
		}
		kit.Case("regression three-way merge target "+tr3.label[target], true, "regression")
	}
}
