package grandpa

// C19 (part in internal/client/consensus/grandpa): a SCALE-encoded GRANDPA
// justification, with real ed25519 signatures and real generic.Header
// ancestries, is accepted by DecodeGrandpaJustificationVerifyFinalizes iff
//   - its commit target is the block to finalise,
//   - the members' precommits form a valid commit by the definitions
//     (../C20/grandpadefs_test.go: base = lowest precommit, supermajority over
//     distinct voters, GHOST == target),
//   - every precommit is signed by its voter for (round, set id), and
//   - the supplied headers are exactly the blocks on the routes from every
//     precommit down to (not including) the lowest one: none missing, none unused;
// identically for uint32 and uint64 block numbers and for a permutation of the
// precommits.

import (
	"bytes"
	"encoding/binary"
	"fmt"
	"sort"
	"strings"
	"testing"

	primitives "github.com/ChainSafe/gossamer/internal/primitives/consensus/grandpa"
	ced25519 "github.com/ChainSafe/gossamer/internal/primitives/core/ed25519"
	"github.com/ChainSafe/gossamer/internal/primitives/core/hash"
	kr "github.com/ChainSafe/gossamer/internal/primitives/keyring/ed25519"
	"github.com/ChainSafe/gossamer/internal/primitives/runtime"
	"github.com/ChainSafe/gossamer/internal/primitives/runtime/generic"
	kit "github.com/ChainSafe/gossamer/internal/verifkit"
	fg "github.com/ChainSafe/gossamer/pkg/finality-grandpa"
	"github.com/ChainSafe/gossamer/pkg/scale"
	"pgregory.net/rapid"
)

const c19jRule = "justification over a generated tree of real headers (<= 7 blocks, offsets up to 2^32-12), 1-6 ed25519 voters (keyring) with weights, member precommits (repetitions, equivocations within f), " +
	"optionally a validly signed non-member precommit above the base; target = GHOST by the definitions (70%) or any block; then at most one corruption: a precommit signed for another round / set id / vote or with garbage, " +
	"one needed ancestry header dropped, one unused header added, or another block to finalise; SCALE-encoded and passed to DecodeGrandpaJustificationVerifyFinalizes for uint32 and uint64, generated order and a permutation. " +
	"accepted iff target matches, commit valid by the brute-force definitions, all signatures valid for (round,set) and supplied headers == needed headers. " +
	"non-trivial = >= 3 voters, precommits on >= 2 distinct blocks (so that headers are needed)"

var c19jKeys = []kr.Keyring{kr.Alice, kr.Bob, kr.Charlie, kr.Dave, kr.Eve, kr.Ferdie, kr.One}

const c19jOutsider = kr.Two

// key pairs are derived once (derivation from the dev phrase is slow)
var c19jPairs = map[kr.Keyring]ced25519.Pair{}

func c19jPair(k kr.Keyring) ced25519.Pair {
	p, ok := c19jPairs[k]
	if !ok {
		p = k.Pair()
		c19jPairs[k] = p
	}
	return p
}

func c19jPublic(k kr.Keyring) ced25519.Public { return c19jPair(k).Public().(ced25519.Public) }

type c19jPC struct {
	voter   int // index into c19jKeys; -1 = outsider (validly signing non-member)
	block   int
	sigMode int // 0 valid; 1 signed for round+1; 2 signed for set id+1; 3 signature of a vote for another block; 4 garbage
}

type c19jCase struct {
	tr         *gTree // labels are placeholders; real hashes are computed per number width
	w          []uint64
	pcs        []c19jPC
	target     int
	round, set uint64
	drop       int  // index into the sorted needed-header list to leave out, -1 none
	extra      int  // block whose header is supplied although unused, -1 none
	wrongFinal bool // ask to finalise another block than the commit target
	salt       byte // mixed into every header, so that the order of the block hashes varies from case to case
	split      bool // tree and votes from genSplitTree/genSplitVotes (three-way merge shapes)
}

type c19jSpec struct {
	commitValid bool
	base        int
	needed      []int // blocks whose headers must be supplied
	sigsOK      bool
	accept      bool
	distinct    int
	why         string
}

func c19jSpecOf(c *c19jCase) c19jSpec {
	s := c19jSpec{base: -1, sigsOK: true}
	t := c.tr
	var members []c19jPC
	blocks := map[int]bool{}
	for _, p := range c.pcs {
		if p.sigMode != 0 {
			s.sigsOK = false
		}
		if p.voter >= 0 {
			members = append(members, p)
			blocks[p.block] = true
		}
	}
	s.distinct = len(blocks)
	if len(members) == 0 {
		s.why = "no member precommit"
		return s
	}
	base := members[0].block
	for _, p := range members {
		if t.num(p.block) < t.num(base) {
			base = p.block
		}
	}
	for _, p := range members {
		if !t.isAncOrEq(base, p.block) {
			s.why = "no common base"
			return s
		}
	}
	s.base = base
	d := newGDefs(t, base, c.w)
	ph := newGPhase(len(c.w))
	for _, p := range members {
		ph.add(p.voter, p.block)
	}
	if d.eqw(ph) > d.f {
		panic("generator: equivocating weight beyond f")
	}
	g, _ := d.ghost(ph)
	s.commitValid = g == c.target
	need := map[int]bool{}
	for _, p := range c.pcs {
		if !t.isAncOrEq(base, p.block) {
			panic("generator: precommit below the base")
		}
		for b := p.block; b != base; b = t.parent[b] {
			need[b] = true
		}
	}
	for b := range need {
		s.needed = append(s.needed, b)
	}
	sort.Ints(s.needed)
	headersExact := c.drop < 0 && c.extra < 0
	s.accept = s.commitValid && s.sigsOK && headersExact && !c.wrongFinal
	s.why = fmt.Sprintf("commitValid=%v (GHOST %s) sigsOK=%v headersExact=%v targetMatches=%v", s.commitValid, d.blk(g), s.sigsOK, headersExact, !c.wrongFinal)
	return s
}

type c19jNum interface{ ~uint32 | ~uint64 }

func c19jH256(fill byte, i int) hash.H256 {
	b := bytes.Repeat([]byte{fill}, 32)
	b[0] = byte(i + 1)
	return hash.H256(b)
}

// payload of a precommit as Substrate localises it: message enum index 1, target hash, target number (LE, width of N),
// round u64 LE, set id u64 LE. Written here independently of primitives.NewLocalizedPayload.
func c19jPayload[N c19jNum](h hash.H256, n N, round, set uint64) []byte {
	out := []byte{1}
	out = append(out, h.Bytes()...)
	switch v := any(n).(type) {
	case uint32:
		out = binary.LittleEndian.AppendUint32(out, v)
	case uint64:
		out = binary.LittleEndian.AppendUint64(out, v)
	}
	out = binary.LittleEndian.AppendUint64(out, round)
	out = binary.LittleEndian.AppendUint64(out, set)
	return out
}

// c19jRun builds the real justification for number type N and returns whether it was accepted.
func c19jRun[N c19jNum](c *c19jCase, s c19jSpec, pcs []c19jPC) (accepted bool, errText string, err error) {
	defer func() {
		if r := recover(); r != nil {
			err = fmt.Errorf("panic: %v", r)
		}
	}()
	t := c.tr
	n := t.n()
	headers := make([]*generic.Header[N, hash.H256, runtime.BlakeTwo256], n)
	hashes := make([]hash.H256, n)
	for i := 0; i < n; i++ {
		parent := c19jH256(0xee, 0) // parent of the root: some non-zero hash outside the tree
		if i > 0 {
			parent = hashes[t.parent[i]]
		}
		headers[i] = generic.NewHeader[N, hash.H256, runtime.BlakeTwo256](N(t.num(i)), c19jH256(0xa0, i), c19jH256(c.salt, i), parent, runtime.Digest{})
		hashes[i] = headers[i].Hash()
	}
	var weights []fg.IDWeight[string]
	for i, w := range c.w {
		weights = append(weights, fg.IDWeight[string]{ID: string(c19jPublic(c19jKeys[i]).Bytes()), Weight: w})
	}
	voters := fg.NewVoterSet(weights)
	if voters == nil {
		return false, "", fmt.Errorf("NewVoterSet nil")
	}
	just := primitives.GrandpaJustification[hash.H256, N]{Round: c.round}
	just.Commit.TargetHash, just.Commit.TargetNumber = hashes[c.target], N(t.num(c.target))
	for _, p := range pcs {
		key := c19jOutsider
		if p.voter >= 0 {
			key = c19jKeys[p.voter]
		}
		h, num := hashes[p.block], N(t.num(p.block))
		var sig ced25519.Signature
		switch p.sigMode {
		case 0:
			sig = c19jPair(key).Sign(c19jPayload(h, num, c.round, c.set))
		case 1:
			sig = c19jPair(key).Sign(c19jPayload(h, num, c.round+1, c.set))
		case 2:
			sig = c19jPair(key).Sign(c19jPayload(h, num, c.round, c.set+1))
		case 3:
			other := (p.block + 1) % n
			if n == 1 {
				sig = c19jPair(key).Sign(c19jPayload(h, num+1, c.round, c.set))
			} else {
				sig = c19jPair(key).Sign(c19jPayload(hashes[other], N(t.num(other)), c.round, c.set))
			}
		case 4:
			for i := range sig {
				sig[i] = byte(37*i + 11)
			}
		}
		just.Commit.Precommits = append(just.Commit.Precommits, fg.SignedPrecommit[hash.H256, N, primitives.AuthoritySignature, primitives.AuthorityID]{
			Precommit: fg.Precommit[hash.H256, N]{TargetHash: h, TargetNumber: num},
			Signature: sig,
			ID:        c19jPublic(key),
		})
	}
	for i, b := range s.needed {
		if i == c.drop {
			continue
		}
		just.VoteAncestries = append(just.VoteAncestries, headers[b])
	}
	if s.base < 0 {
		// no common base: supply every non-root header (the commit is invalid whatever is supplied)
		for b := 1; b < n; b++ {
			just.VoteAncestries = append(just.VoteAncestries, headers[b])
		}
	}
	if c.extra >= 0 {
		just.VoteAncestries = append(just.VoteAncestries, headers[c.extra])
	}
	enc, e := scale.Marshal(just)
	if e != nil {
		return false, "", fmt.Errorf("harness: encoding the justification: %v", e)
	}
	final := HashNumber[hash.H256, N]{Hash: hashes[c.target], Number: N(t.num(c.target))}
	if c.wrongFinal {
		final.Number++
	}
	got, e := DecodeGrandpaJustificationVerifyFinalizes[hash.H256, N, runtime.BlakeTwo256](enc, final, c.set, *voters)
	if e != nil {
		return false, e.Error(), nil
	}
	if tg := got.Target(); tg.Hash != hashes[c.target] || tg.Number != N(t.num(c.target)) {
		return true, "", fmt.Errorf("accepted justification reports another target")
	}
	return true, "", nil
}

func (c *c19jCase) describe(pcs []c19jPC) string {
	var parts []string
	for _, p := range pcs {
		who := "outsider"
		if p.voter >= 0 {
			who = c19jKeys[p.voter].String()
		}
		m := ""
		if p.sigMode != 0 {
			m = []string{"", "!round", "!set", "!othervote", "!garbage"}[p.sigMode]
		}
		parts = append(parts, fmt.Sprintf("%s->b%d%s", who, p.block, m))
	}
	return fmt.Sprintf("parents%v@%d weights%v round %d set %d target b%d drop %d extra %d wrongFinal %v precommits[%s]",
		c.tr.parent, c.tr.offset, c.w, c.round, c.set, c.target, c.drop, c.extra, c.wrongFinal, strings.Join(parts, ", "))
}

// genC19jRandom: random tree, votes concentrated on a hot chain.
func genC19jRandom(t *rapid.T, c *c19jCase) {
	c.tr = genGTree(t, 7)
	tr := c.tr
	nv := rapid.IntRange(1, 6).Draw(t, "voters")
	unit := rapid.Bool().Draw(t, "unit")
	for i := 0; i < nv; i++ {
		w := uint64(1)
		if !unit {
			w = rapid.SampledFrom([]uint64{1, 1, 2, 3}).Draw(t, "w")
		}
		c.w = append(c.w, w)
	}
	var total uint64
	for _, w := range c.w {
		total += w
	}
	f := (total - 1) / 3

	hot := rapid.IntRange(0, tr.n()-1).Draw(t, "hotBlock")
	var hotPath []int
	for b := hot; b >= 0; b = tr.parent[b] {
		hotPath = append(hotPath, b)
	}
	lowest := rapid.IntRange(0, len(hotPath)-1).Draw(t, "lowest")
	pick := func(onHot int) int {
		if rapid.IntRange(0, 9).Draw(t, "onHot") < onHot {
			return hotPath[rapid.IntRange(0, lowest).Draw(t, "hotPathBlock")]
		}
		return rapid.IntRange(0, tr.n()-1).Draw(t, "block")
	}
	onHot := rapid.SampledFrom([]int{5, 7, 9, 10}).Draw(t, "concentration")
	part := rapid.SampledFrom([]int{0, 0, 0, 1, 2}).Draw(t, "participation")
	var eq uint64
	for v := 0; v < nv; v++ {
		r := rapid.IntRange(0, 9).Draw(t, "takesPart")
		if (part == 1 && r == 0) || (part == 2 && r < 4) {
			continue
		}
		first := pick(onHot)
		c.pcs = append(c.pcs, c19jPC{voter: v, block: first})
		switch rapid.IntRange(0, 9).Draw(t, "extraVote") {
		case 0:
			c.pcs = append(c.pcs, c19jPC{voter: v, block: first})
		case 1, 2:
			second := pick(onHot)
			if second != first && eq+c.w[v] > f {
				second = first
			}
			if second != first {
				eq += c.w[v]
			}
			c.pcs = append(c.pcs, c19jPC{voter: v, block: second})
		}
	}
}

// genC19jSplit: three-way merge shapes (see gSplit), 5-7 voters.
func genC19jSplit(t *rapid.T, c *c19jCase) {
	sp := genSplitTree(t)
	c.tr = sp.tr
	nv := rapid.IntRange(5, 7).Draw(t, "voters")
	unit := rapid.IntRange(0, 9).Draw(t, "unit") < 7
	for i := 0; i < nv; i++ {
		w := uint64(1)
		if !unit {
			w = rapid.SampledFrom([]uint64{1, 1, 2}).Draw(t, "w")
		}
		c.w = append(c.w, w)
	}
	for _, vb := range genSplitVotes(t, sp, c.w) {
		c.pcs = append(c.pcs, c19jPC{voter: vb[0], block: vb[1]})
	}
}

func genC19jCase(t *rapid.T) *c19jCase {
	c := &c19jCase{drop: -1, extra: -1}
	c.salt = byte(rapid.IntRange(0, 255).Draw(t, "hashSalt"))
	c.round = rapid.Uint64Range(0, 5).Draw(t, "round")
	c.set = rapid.Uint64Range(0, 5).Draw(t, "set")
	c.split = rapid.IntRange(0, 9).Draw(t, "splitShape") < 3
	if c.split {
		genC19jSplit(t, c)
	} else {
		genC19jRandom(t, c)
	}
	tr := c.tr
	nv := len(c.w)
	// provisional spec (target irrelevant) to learn the base
	c.target = 0
	base := -1
	if len(c.pcs) > 0 {
		base = c19jSpecOf(&c19jCase{tr: tr, w: c.w, pcs: c.pcs, drop: -1, extra: -1}).base
	}
	if base >= 0 && rapid.IntRange(0, 5).Draw(t, "outsider") == 0 {
		// a validly signed precommit of a non-member, on the base or above it
		var above []int
		for b := 0; b < tr.n(); b++ {
			if tr.isAncOrEq(base, b) {
				above = append(above, b)
			}
		}
		c.pcs = append(c.pcs, c19jPC{voter: -1, block: rapid.SampledFrom(above).Draw(t, "outsiderBlock")})
	}
	if len(c.pcs) > 1 {
		c.pcs = rapid.Permutation(c.pcs).Draw(t, "order")
	}
	c.target = rapid.IntRange(0, tr.n()-1).Draw(t, "target")
	if base >= 0 && rapid.IntRange(0, 9).Draw(t, "targetGhost") < 7 {
		d := newGDefs(tr, base, c.w)
		ph := newGPhase(nv)
		for _, p := range c.pcs {
			if p.voter >= 0 {
				ph.add(p.voter, p.block)
			}
		}
		if g, unique := d.ghost(ph); unique && g >= 0 {
			c.target = g
		}
	}
	s := c19jSpecOf(c)
	// at most one corruption
	switch rapid.IntRange(0, 9).Draw(t, "corruption") {
	case 0, 1:
		if len(c.pcs) > 0 {
			i := rapid.IntRange(0, len(c.pcs)-1).Draw(t, "badSigAt")
			c.pcs[i].sigMode = rapid.IntRange(1, 4).Draw(t, "sigMode")
		}
	case 2, 3:
		if len(s.needed) > 0 {
			c.drop = rapid.IntRange(0, len(s.needed)-1).Draw(t, "drop")
		}
	case 4:
		if s.base >= 0 {
			var unused []int
			for b := 0; b < tr.n(); b++ {
				in := false
				for _, x := range s.needed {
					if x == b {
						in = true
					}
				}
				if !in {
					unused = append(unused, b) // includes the base itself, siblings, blocks below the base
				}
			}
			if len(unused) > 0 {
				c.extra = rapid.SampledFrom(unused).Draw(t, "extraHeader")
			}
		}
	case 5:
		c.wrongFinal = true
	}
	return c
}

func TestC19Justification(t *testing.T) {
	defer kit.Flush()
	kit.Note("rule-justification", c19jRule)
	rapid.Check(t, func(t *rapid.T) {
		c := genC19jCase(t)
		s := c19jSpecOf(c)
		perm := c.pcs
		if len(c.pcs) > 1 {
			perm = rapid.Permutation(c.pcs).Draw(t, "secondOrder")
		}
		judge := func(width string, pcs []c19jPC, run func(*c19jCase, c19jSpec, []c19jPC) (bool, string, error)) {
			got, text, err := run(c, s, pcs)
			if err != nil {
				t.Fatalf("%s: %v\n%s", width, err, c.describe(pcs))
			}
			if got != s.accept {
				t.Fatalf("%s: accepted=%v (error %q), expected accepted=%v: %s\n%s", width, got, text, s.accept, s.why, c.describe(pcs))
			}
		}
		judge("uint64", c.pcs, c19jRun[uint64])
		judge("uint64, permuted", perm, c19jRun[uint64])
		if c.tr.offset+8 < 1<<32 {
			judge("uint32", c.pcs, c19jRun[uint32])
			judge("uint32, permuted", perm, c19jRun[uint32])
		}
		if s.distinct >= 3 && len(c.pcs) > 2 {
			// merge points of several vote-nodes: the order in which the nodes enter the vote graph matters to the code
			for i := 0; i < 3; i++ {
				judge(fmt.Sprintf("uint64, further order %d", i), rapid.Permutation(c.pcs).Draw(t, "furtherOrder"), c19jRun[uint64])
			}
		}
		var labels []string
		add := func(cond bool, l string) {
			if cond {
				labels = append(labels, "just:"+l)
			}
		}
		badSig := !s.sigsOK
		add(s.accept, "accepted")
		add(!s.accept, "rejected")
		add(s.accept && len(s.needed) > 0, "accepted-with-headers")
		add(s.commitValid && badSig, "rejected-only-for-signature")
		add(s.commitValid && c.drop >= 0, "rejected-only-for-missing-header")
		add(s.commitValid && c.extra >= 0, "rejected-only-for-unused-header")
		add(s.commitValid && c.wrongFinal, "rejected-only-for-other-final-target")
		add(!s.commitValid && s.sigsOK && c.drop < 0 && c.extra < 0 && !c.wrongFinal, "rejected-only-for-commit")
		outsider := false
		for _, p := range c.pcs {
			if p.voter < 0 {
				outsider = true
			}
		}
		add(outsider, "non-member-precommit")
		add(c.split, "shape:split")
		add(s.distinct >= 3, "precommits-on->=3-blocks")
		if s.base >= 0 {
			d := newGDefs(c.tr, s.base, c.w)
			ph := newGPhase(len(c.w))
			voted := map[int]bool{}
			for _, p := range c.pcs {
				if p.voter >= 0 {
					ph.add(p.voter, p.block)
					voted[p.block] = true
				}
			}
			g, _ := d.ghost(ph)
			for _, l := range gSplitLabels(c.tr, s.base, g, voted, nil) {
				labels = append(labels, "just:"+l)
			}
		}
		kit.Case("just "+c.describe(c.pcs), len(c.w) >= 3 && s.distinct >= 2, labels...)
	})
}

func TestC19JustificationRegressions(t *testing.T) {
	defer kit.Flush()
	// chain b0 <- b1 <- b2, three unit voters: Alice->b2, Bob->b1, Charlie->b0 (listed high to low), target b0, headers b1 and b2.
	tr := newGTree([]int{-1, 0, 1}, []string{"x", "y", "z"}, 1)
	c := &c19jCase{tr: tr, w: []uint64{1, 1, 1}, target: 0, round: 1, set: 2, drop: -1, extra: -1,
		pcs: []c19jPC{{voter: 0, block: 2}, {voter: 1, block: 1}, {voter: 2, block: 0}}}
	s := c19jSpecOf(c)
	if !s.accept {
		t.Fatalf("ORACLE: regression case must be acceptable: %s", s.why)
	}
	for _, w := range []string{"uint64", "uint32"} {
		var got bool
		var text string
		var err error
		if w == "uint64" {
			got, text, err = c19jRun[uint64](c, s, c.pcs)
		} else {
			got, text, err = c19jRun[uint32](c, s, c.pcs)
		}
		if err != nil || !got {
			t.Fatalf("%s: valid justification (precommits listed high to low) rejected: %v %q\n%s", w, err, text, c.describe(c.pcs))
		}
	}
	kit.Case("just regression chain high->low", true, "regression")
}
