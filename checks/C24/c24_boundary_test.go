package babe

// TestC24ThresholdBoundary: "a primary claim with VRF output below the epoch
// threshold". The thresholds an epoch configuration produces never coincide with
// the 128-bit VRF value of a generated claim (probability 2^-128), so this test
// sets the threshold of a directly constructed verifier to the claim's value
// plus a drawn delta in {-2..+2, far below, far above}: the claim is authorised
// iff value < threshold, for the verifier and for the node's own lottery alike.

import (
	"errors"
	"fmt"
	"math/big"
	"testing"
	"time"

	"github.com/ChainSafe/gossamer/dot/types"
	kit "github.com/ChainSafe/gossamer/internal/verifkit"
	"github.com/ChainSafe/gossamer/lib/crypto/sr25519"
	"github.com/ChainSafe/gossamer/pkg/scale"
	"pgregory.net/rapid"
)

func TestC24ThresholdBoundary(t *testing.T) {
	defer kit.Flush()
	kit.Note("rule-boundary", "one authority key (of 8), drawn randomness/slot/epoch; the key VRF-signs the slot transcript; the verifier is built with threshold = VRF value + delta, delta in {-2,-1,0,+1,+2, -value, to the maximum}; verifyPrimarySlotWinner / verifyPreRuntimeDigest accept and claimPrimarySlot claims iff value < threshold (strictly); non-trivial = |delta| <= 1")
	max128 := new(big.Int).Sub(new(big.Int).Lsh(big.NewInt(1), 128), big.NewInt(1))
	rapid.Check(t, func(t *rapid.T) {
		kp := c24key(rapid.IntRange(0, 7).Draw(t, "key"))
		pub := kp.Public().(*sr25519.PublicKey)
		var rnd Randomness
		copy(rnd[:], rapid.SliceOfN(rapid.Byte(), 32, 32).Draw(t, "rnd"))
		slot := rapid.Uint64Range(1, 1<<40).Draw(t, "slot")
		epoch := rapid.Uint64Range(0, 1000).Draw(t, "epoch")
		out, proof, err := kp.VrfSign(makeTranscript(rnd, slot, epoch))
		if err != nil {
			t.Fatalf("VrfSign: %v", err)
		}
		v, err := c24vrfValue(out, pub, rnd, slot, epoch)
		if err != nil {
			t.Fatalf("vrf value: %v", err)
		}
		var thr *big.Int
		dk := rapid.SampledFrom([]string{"-2", "-1", "0", "0", "+1", "+1", "+2", "zero", "max"}).Draw(t, "delta")
		switch dk {
		case "zero":
			thr = big.NewInt(0)
		case "max":
			thr = new(big.Int).Set(max128)
		default:
			var d int64
			fmt.Sscanf(dk, "%d", &d)
			thr = new(big.Int).Add(v, big.NewInt(d))
		}
		if thr.Sign() < 0 || thr.Cmp(max128) > 0 {
			t.Skip("threshold outside u128")
		}
		thr128, err := scale.NewUint128(thr)
		if err != nil {
			t.Fatalf("threshold: %v", err)
		}
		want := v.Cmp(thr) < 0
		ctx := fmt.Sprintf("VRF value %s, threshold %s (delta %s), slot %d epoch %d", v, thr, dk, slot, epoch)

		vf := newVerifier(nil, nil, epoch, &verifierInfo{
			authorities: []types.AuthorityRaw{{Key: pub.AsBytes(), Weight: 1}},
			randomness:  rnd,
			threshold:   thr128,
		}, 6*time.Second)
		ok, err := vf.verifyPrimarySlotWinner(0, slot, out, proof)
		if want && (!ok || err != nil) {
			t.Fatalf("verifyPrimarySlotWinner rejects a claim below the threshold: ok=%v err=%v; %s", ok, err, ctx)
		}
		if !want && (ok || !errors.Is(err, ErrVRFOutputOverThreshold)) {
			t.Fatalf("verifyPrimarySlotWinner: ok=%v err=%v for a claim that is not below the threshold; %s", ok, err, ctx)
		}
		pre, err := types.NewBabePrimaryPreDigest(0, slot, out, proof).ToPreRuntimeDigest()
		if err != nil {
			t.Fatalf("pre-digest: %v", err)
		}
		if _, err := vf.verifyPreRuntimeDigest(pre); (err == nil) != want {
			t.Fatalf("verifyPreRuntimeDigest: err=%v, claim below threshold=%v; %s", err, want, ctx)
		}
		_, err = claimPrimarySlot(rnd, slot, epoch, thr128, kp)
		if want && err != nil {
			t.Fatalf("the node's own lottery does not claim a slot whose VRF value is below the threshold: %v; %s", err, ctx)
		}
		if !want && !errors.Is(err, errOverPrimarySlotThreshold) {
			t.Fatalf("the node's own lottery claims (err=%v) a slot whose VRF value is not below the threshold; %s", err, ctx)
		}
		kit.Case(ctx, dk == "0" || dk == "+1" || dk == "-1", "boundary-delta:"+dk, fmt.Sprintf("authorised=%v", want))
	})
}
