package babe

// C24 - BABE verification accepts exactly authorised blocks.
//
// Every case builds an epoch environment (fake EpochState / BlockState /
// SlotState), one block whose claim and seal are assembled from independently
// drawn components (each component honest by default, deviating with a small
// probability), and compares VerificationManager.VerifyBlock with a
// ground-truth oracle that is evaluated on HOW the block was built (who signed
// what over which transcript / header), not by re-running the verifier.

import (
	"bytes"
	"encoding/binary"
	"errors"
	"fmt"
	"math/big"
	"strings"
	"testing"
	"time"

	"github.com/ChainSafe/gossamer/dot/types"
	kit "github.com/ChainSafe/gossamer/internal/verifkit"
	"github.com/ChainSafe/gossamer/lib/common"
	"github.com/ChainSafe/gossamer/lib/crypto/sr25519"
	"github.com/ChainSafe/gossamer/pkg/scale"
	"pgregory.net/rapid"
)

const c24Rule = "environment: 1-5 sr25519 authorities (keys from a pool of 12 seeds, duplicates possible), per-epoch config c in {2^-40,1/4,1/2,1} x SecondarySlots in {0,1,2}, randomness, epoch 0..3, parent in genesis/same/previous/skipped/later epoch; " +
	"block: claim from the package's own claimSlot (searching up to 8 slots) or assembled directly (kind, index, VRF signer/transcript, seal signer), then 0..n component faults; " +
	"non-trivial = at least one fault component or a secondary claim; distinct by the full description (keys, configs, slot, kind, index, faults)"

const c24FindingKinds = "C24-secondary-kind-not-checked"

// ---------------------------------------------------------------------------
// keys

var c24keys = map[int]*sr25519.Keypair{}

func c24key(id int) *sr25519.Keypair {
	if kp, ok := c24keys[id]; ok {
		return kp
	}
	seed := kit.Blake256([]byte(fmt.Sprintf("verif C24 authority seed %d", id)))
	kp, err := sr25519.NewKeypairFromSeed(seed[:])
	if err != nil {
		panic(err)
	}
	c24keys[id] = kp
	return kp
}

func c24pub(id int) [32]byte {
	return c24key(id).Public().(*sr25519.PublicKey).AsBytes()
}

// ---------------------------------------------------------------------------
// fakes (only what VerifyBlock needs; anything else panics on the nil
// embedded interface, which would show up as a failing case)

type c24epochCfg struct {
	data *types.EpochDataRaw
	cfg  *types.ConfigData
}

type c24EpochState struct {
	EpochState
	firstSlot, epochLen uint64
	epochs              map[uint64]c24epochCfg
}

var errC24NoPreDigest = errors.New("fake epoch state: header has no babe pre-digest")
var errC24NoEpoch = errors.New("fake epoch state: no data for epoch")

func (s *c24EpochState) GetEpochForBlock(h *types.Header) (uint64, error) {
	slot, err := h.SlotNumber()
	if err != nil {
		return 0, fmt.Errorf("%w: %v", errC24NoPreDigest, err)
	}
	if slot < s.firstSlot {
		return 0, errC24NoEpoch
	}
	return (slot - s.firstSlot) / s.epochLen, nil
}
func (s *c24EpochState) GetSlotDuration() (time.Duration, error) { return 6 * time.Second, nil }
func (s *c24EpochState) GetEpochDataRaw(e uint64, _ *types.Header) (*types.EpochDataRaw, error) {
	if d, ok := s.epochs[e]; ok {
		return d.data, nil
	}
	return nil, errC24NoEpoch
}
func (s *c24EpochState) GetConfigData(e uint64, _ *types.Header) (*types.ConfigData, error) {
	if d, ok := s.epochs[e]; ok {
		return d.cfg, nil
	}
	return nil, errC24NoEpoch
}

type c24BlockState struct {
	BlockState
	genesis common.Hash
	headers map[common.Hash]*types.Header
}

func (s *c24BlockState) GetHeader(h common.Hash) (*types.Header, error) {
	if x, ok := s.headers[h]; ok {
		return x, nil
	}
	return nil, errors.New("fake block state: unknown header")
}
func (s *c24BlockState) GenesisHash() common.Hash { return s.genesis }

type c24SlotState struct{}

func (c24SlotState) CheckEquivocation(_, _ uint64, _ *types.Header, _ types.AuthorityID) (*types.BabeEquivocationProof, error) {
	return nil, nil // equivocation is property C27
}

// ---------------------------------------------------------------------------
// independent pieces of the oracle

// secondary author: BE(BLAKE2b-256(randomness || slot LE)) mod n, byte-wise reduction
func c24author(r Randomness, slot uint64, n int) uint32 {
	msg := append(append([]byte{}, r[:]...), binary.LittleEndian.AppendUint64(nil, slot)...)
	h := kit.Blake256(msg)
	var m uint64
	for _, b := range h {
		m = (m<<8 | uint64(b)) % uint64(n)
	}
	return uint32(m)
}

func c24u128(u *scale.Uint128) *big.Int {
	r := new(big.Int).SetUint64(u.Upper)
	r.Lsh(r, 64)
	return r.Or(r, new(big.Int).SetUint64(u.Lower))
}

// u128 (little endian) that BABE derives from a VRF output under a transcript.
// Trusted base: schnorrkel AttachInput/MakeBytes (no second implementation
// offline); the integer interpretation and comparison are done here.
func c24vrfValue(out [32]byte, pub *sr25519.PublicKey, r Randomness, slot, epoch uint64) (*big.Int, error) {
	inout, err := sr25519.AttachInput(out, pub, makeTranscript(r, slot, epoch))
	if err != nil {
		return nil, err
	}
	b, err := inout.MakeBytes(16, babeVRFPrefix)
	if err != nil {
		return nil, err
	}
	v := new(big.Int)
	for i := 15; i >= 0; i-- {
		v.Lsh(v, 8)
		v.Or(v, big.NewInt(int64(b[i])))
	}
	return v, nil
}

// ---------------------------------------------------------------------------
// the block under construction

const (
	c24Primary = 1
	c24Plain   = 2
	c24VRF     = 3
)

var c24kindName = map[int]string{c24Primary: "primary", c24Plain: "plain", c24VRF: "secvrf"}

type c24block struct {
	kind int
	idx  uint32
	slot uint64
	// VRF provenance
	vrfKey            int // key id of the VRF signer
	vrfRand           Randomness
	vrfSlot, vrfEpoch uint64
	vrfTamper         string // "", "output", "proof"
	out               [32]byte
	proof             [64]byte
	verbatim          *types.PreRuntimeDigest // digest exactly as claimSlot returned it (honest path, untouched)
	// seal provenance
	sealKey  int
	sealMode string // "ok", "modified-number", "modified-root", "modified-digest", "tampered", "missing", "not-last", "wrong-type"
	// structure
	noPreDigest bool
	middleItems int
}

func c24sign(kp *sr25519.Keypair, h *types.Header) []byte {
	enc, err := scale.Marshal(*h)
	if err != nil {
		panic(err)
	}
	hash, err := common.Blake2bHash(enc)
	if err != nil {
		panic(err)
	}
	sig, err := kp.Sign(hash[:])
	if err != nil {
		panic(err)
	}
	return sig
}

func (b *c24block) preDigest() *types.PreRuntimeDigest {
	if b.verbatim != nil {
		return b.verbatim
	}
	var d *types.PreRuntimeDigest
	var err error
	switch b.kind {
	case c24Primary:
		d, err = types.NewBabePrimaryPreDigest(b.idx, b.slot, b.out, b.proof).ToPreRuntimeDigest()
	case c24Plain:
		d, err = types.NewBabeSecondaryPlainPreDigest(b.idx, b.slot).ToPreRuntimeDigest()
	default:
		d, err = types.NewBabeSecondaryVRFPreDigest(b.idx, b.slot, b.out, b.proof).ToPreRuntimeDigest()
	}
	if err != nil {
		panic(err)
	}
	return d
}

// header assembles and seals the header the way BlockBuilder does
// (pre-digest first, runtime consensus items, seal over the SCALE encoding of
// the header without the seal, seal last).
func (b *c24block) header(parent *types.Header, salt byte) *types.Header {
	h := &types.Header{
		ParentHash:     parent.Hash(),
		Number:         parent.Number + 1,
		StateRoot:      common.Hash{salt, 1},
		ExtrinsicsRoot: common.Hash{salt, 2},
		Digest:         types.NewDigest(),
	}
	must := func(err error) {
		if err != nil {
			panic(err)
		}
	}
	if !b.noPreDigest {
		must(h.Digest.Add(*b.preDigest()))
	}
	for i := 0; i < b.middleItems; i++ {
		must(h.Digest.Add(types.ConsensusDigest{ConsensusEngineID: types.BabeEngineID, Data: []byte{4, byte(i)}}))
	}
	if b.sealMode == "missing" {
		return h
	}
	sig := c24sign(c24key(b.sealKey), h)
	switch b.sealMode {
	case "modified-number":
		h.Number++
	case "modified-root":
		h.StateRoot[31] ^= 1
	case "modified-digest":
		must(h.Digest.Add(types.ConsensusDigest{ConsensusEngineID: types.BabeEngineID, Data: []byte{9}}))
	case "tampered":
		sig[int(salt)%len(sig)] ^= 0x04
	case "inserted-seal-item":
		// a seal-typed item inserted after sealing, in front of the author's seal: the
		// author's signature does not cover this header (header without its last item)
		must(h.Digest.Add(types.SealDigest{ConsensusEngineID: types.BabeEngineID, Data: []byte{salt, 1, 2, 3}}))
	case "inserted-foreign-seal-item":
		must(h.Digest.Add(types.SealDigest{ConsensusEngineID: types.GrandpaEngineID, Data: append([]byte{salt}, sig[:20]...)}))
	}
	if b.sealMode == "wrong-type" {
		must(h.Digest.Add(types.ConsensusDigest{ConsensusEngineID: types.BabeEngineID, Data: sig}))
		return h
	}
	must(h.Digest.Add(types.SealDigest{ConsensusEngineID: types.BabeEngineID, Data: sig}))
	if b.sealMode == "not-last" {
		must(h.Digest.Add(types.ConsensusDigest{ConsensusEngineID: types.BabeEngineID, Data: []byte{7}}))
	}
	return h
}

type c24env struct {
	n         int
	keyIDs    []int
	auths     []types.AuthorityRaw
	firstSlot uint64
	epochLen  uint64
	epochs    map[uint64]c24epochCfg
	cfgDescr  []string
}

var c24cs = []struct {
	c1, c2 uint64
	name   string
}{{1, 1 << 40, "2^-40"}, {1, 4, "1/4"}, {1, 2, "1/2"}, {1, 1, "1"}}

func c24genEnv(t *rapid.T) *c24env {
	e := &c24env{}
	e.n = rapid.SampledFrom([]int{1, 2, 2, 3, 3, 4, 5}).Draw(t, "n")
	if rapid.IntRange(0, 7).Draw(t, "dupkeys") == 0 {
		for i := 0; i < e.n; i++ {
			e.keyIDs = append(e.keyIDs, rapid.IntRange(0, 2).Draw(t, "keyid"))
		}
	} else {
		e.keyIDs = rapid.Permutation([]int{0, 1, 2, 3, 4, 5, 6, 7, 8, 9}).Draw(t, "keyids")[:e.n]
	}
	for _, id := range e.keyIDs {
		e.auths = append(e.auths, types.AuthorityRaw{Key: c24pub(id), Weight: 1})
	}
	e.firstSlot = rapid.SampledFrom([]uint64{1, 1000, 281474976710656}).Draw(t, "firstSlot")
	e.epochLen = rapid.Uint64Range(10, 20).Draw(t, "epochLen")
	e.epochs = map[uint64]c24epochCfg{}
	sameRand := rapid.Bool().Draw(t, "sameRand")
	sameCfg := rapid.Bool().Draw(t, "sameCfg")
	var r0 Randomness
	copy(r0[:], rapid.SliceOfN(rapid.Byte(), 4, 4).Draw(t, "rand"))
	ci, sec := rapid.IntRange(0, len(c24cs)-1).Draw(t, "c"), byte(rapid.IntRange(0, 2).Draw(t, "sec"))
	for ep := uint64(0); ep < 4; ep++ {
		r := r0
		if !sameRand {
			r[31] = byte(ep)
		}
		if !sameCfg && ep > 0 {
			ci, sec = rapid.IntRange(0, len(c24cs)-1).Draw(t, "c"), byte(rapid.IntRange(0, 2).Draw(t, "sec"))
		}
		e.epochs[ep] = c24epochCfg{
			data: &types.EpochDataRaw{Authorities: e.auths, Randomness: r},
			cfg:  &types.ConfigData{C1: c24cs[ci].c1, C2: c24cs[ci].c2, SecondarySlots: sec},
		}
		e.cfgDescr = append(e.cfgDescr, fmt.Sprintf("e%d:c=%s,sec=%d,r=%x..%x", ep, c24cs[ci].name, sec, r[:4], r[31]))
	}
	return e
}

func (e *c24env) slotEpoch(slot uint64) uint64 { return (slot - e.firstSlot) / e.epochLen }

// ---------------------------------------------------------------------------

func TestC24VerifyBlock(t *testing.T) {
	defer kit.Flush()
	kit.Note("rule", c24Rule)
	rapid.Check(t, func(t *rapid.T) { c24case(t) })
}

// c24def is the epoch definition a block has to be judged against: the
// authority set, randomness and configuration that the epoch state answers for
// the block's header (fork dependent in TestC24ManagerAcrossForks).
type c24def struct {
	n      int
	keyIDs []int
	auths  []types.AuthorityRaw
	rnd    Randomness
	cfg    *types.ConfigData
}

// c24drawn is one generated block with its ground truth.
type c24drawn struct {
	b                                              *c24block
	slot                                           uint64
	honest                                         bool
	faults                                         []string
	labels                                         map[string]bool
	want, idxOK, sealValid, structOK, isAuthor, ok bool
	why                                            string
	excludedKnown                                  bool
}

// c24drawBlock draws a claim for epoch E (first slot epochStart, at least 10
// slots long) under definition d - from the package's own claimSlot or
// assembled, then component faults - and evaluates the ground truth against d.
// parentOK tells whether the parent's epoch is not later than E.
func c24drawBlock(t *rapid.T, d *c24def, E, epochStart, epochLen uint64, parentOK bool) *c24drawn {
	r := &c24drawn{labels: map[string]bool{}}
	labels := r.labels
	fault := func(s string) { r.faults = append(r.faults, s) }
	rnd, cfg := d.rnd, d.cfg
	thr, err := CalculateThreshold(cfg.C1, cfg.C2, d.n)
	if err != nil {
		t.Fatalf("threshold: %v", err)
	}
	thrBig := c24u128(thr)

	// ---- base claim
	slot := epochStart + rapid.Uint64Range(1, epochLen-9).Draw(t, "slotoff")
	b := &c24block{sealMode: "ok"}
	r.b = b
	honest := false
	me := rapid.IntRange(0, d.n-1).Draw(t, "me")
	if rapid.IntRange(0, 2).Draw(t, "honestPath") > 0 {
		// the node's own lottery: authority `me` tries up to 8 consecutive slots
		epd := &epochData{randomness: rnd, authorityIndex: uint32(me), authorities: d.auths, threshold: thr,
			allowedSlots: types.AllowedSlots(cfg.SecondarySlots)}
		for s := slot; s < slot+8; s++ {
			dg, err := claimSlot(E, s, epd, c24key(d.keyIDs[me]))
			if errors.Is(err, errNotOurTurnToPropose) || errors.Is(err, errOverPrimarySlotThreshold) {
				continue
			}
			if err != nil {
				t.Fatalf("claimSlot(epoch %d, slot %d): %v", E, s, err)
			}
			dec, err := types.DecodeBabePreDigest(dg.Data)
			if err != nil {
				t.Fatalf("claimSlot returned an undecodable digest: %v", err)
			}
			slot = s
			b.verbatim = dg
			b.slot, b.vrfSlot, b.vrfEpoch, b.vrfRand = s, s, E, rnd
			b.vrfKey, b.sealKey = d.keyIDs[me], d.keyIDs[me]
			switch x := dec.(type) {
			case types.BabePrimaryPreDigest:
				b.kind, b.idx, b.out, b.proof = c24Primary, x.AuthorityIndex, x.VRFOutput, x.VRFProof
			case types.BabeSecondaryPlainPreDigest:
				b.kind, b.idx = c24Plain, x.AuthorityIndex
			case types.BabeSecondaryVRFPreDigest:
				b.kind, b.idx, b.out, b.proof = c24VRF, x.AuthorityIndex, x.VrfOutput, x.VrfProof
			}
			if b.idx != uint32(me) || (b.kind != c24Primary && cfg.SecondarySlots == 0) ||
				(b.kind == c24Plain && cfg.SecondarySlots != 1) || (b.kind == c24VRF && cfg.SecondarySlots != 2) {
				t.Fatalf("claimSlot under SecondarySlots=%d by authority %d produced %s claim with index %d", cfg.SecondarySlots, me, c24kindName[b.kind], b.idx)
			}
			honest = true
			break
		}
	}
	if honest {
		labels["claimSlot-claim"] = true
	} else {
		labels["assembled-claim"] = true
		b.kind = rapid.SampledFrom([]int{c24Primary, c24Primary, c24Plain, c24VRF}).Draw(t, "kind")
		b.slot = slot
		b.idx = uint32(me)
		if b.kind != c24Primary && rapid.IntRange(0, 3).Draw(t, "rightAuthor") > 0 {
			b.idx = c24author(rnd, slot, d.n)
		}
		b.vrfKey, b.sealKey = d.keyIDs[b.idx], d.keyIDs[b.idx]
		b.vrfSlot, b.vrfEpoch, b.vrfRand = slot, E, rnd
	}
	r.honest, r.slot = honest, slot

	// ---- component faults (each with a small probability; most blocks carry zero or one)
	pick := func(name string, oneIn int) bool { return rapid.IntRange(0, oneIn-1).Draw(t, name) == 0 }
	resign := false // VRF must be (re)generated
	if !honest {
		resign = b.kind != c24Plain
	}
	if pick("f-kind", 8) {
		nk := rapid.SampledFrom([]int{c24Primary, c24Plain, c24VRF}).Draw(t, "newkind")
		if nk != b.kind {
			fault(fmt.Sprintf("kind:%s->%s", c24kindName[b.kind], c24kindName[nk]))
			if b.kind == c24Plain {
				resign = true // no VRF to carry over; primary<->secvrf share the transcript, the VRF is reused
			}
			b.kind, b.verbatim = nk, nil
		}
	}
	if pick("f-idx", 8) {
		var ni uint32
		switch rapid.IntRange(0, 3).Draw(t, "idxkind") {
		case 0, 1: // other index in range
			ni = uint32(rapid.IntRange(0, d.n-1).Draw(t, "newidx"))
		case 2:
			ni = uint32(d.n) + uint32(rapid.IntRange(0, 3).Draw(t, "over"))
		default:
			ni = rapid.SampledFrom([]uint32{1 << 16, 1<<31 - 1, 1 << 31, ^uint32(0)}).Draw(t, "hugeidx")
		}
		if ni != b.idx {
			follow := int(ni) < d.n && rapid.Bool().Draw(t, "keysFollowIdx") // the new index' own key makes VRF and seal
			fault(fmt.Sprintf("idx:%d->%d(follow=%v)", b.idx, ni, follow))
			b.idx, b.verbatim = ni, nil
			if follow {
				b.vrfKey, b.sealKey = d.keyIDs[ni], d.keyIDs[ni]
				resign = true
			}
		}
	}
	if b.kind != c24Plain {
		if pick("f-vrfkey", 10) {
			nk := rapid.IntRange(0, 11).Draw(t, "vrfkey")
			if nk != b.vrfKey {
				fault(fmt.Sprintf("vrfkey:%d", nk))
				b.vrfKey, b.verbatim, resign = nk, nil, true
			}
		}
		if pick("f-vrfinput", 8) {
			switch rapid.IntRange(0, 2).Draw(t, "vrfinput") {
			case 0:
				b.vrfSlot = b.slot + uint64(rapid.SampledFrom([]int{1, 2, 256}).Draw(t, "ds"))
				fault(fmt.Sprintf("vrf-slot:+%d", b.vrfSlot-b.slot))
			case 1:
				b.vrfEpoch = uint64(rapid.IntRange(0, 4).Draw(t, "vepoch"))
				if b.vrfEpoch != E {
					fault(fmt.Sprintf("vrf-epoch:%d", b.vrfEpoch))
				}
			default:
				b.vrfRand[rapid.IntRange(0, 31).Draw(t, "rbyte")] ^= 0x80
				fault("vrf-randomness")
			}
			b.verbatim, resign = nil, true
		}
	}
	if resign && b.kind != c24Plain {
		out, proof, err := c24key(b.vrfKey).VrfSign(makeTranscript(b.vrfRand, b.vrfSlot, b.vrfEpoch))
		if err != nil {
			t.Fatalf("VrfSign: %v", err)
		}
		b.out, b.proof = out, proof
	}
	if b.kind != c24Plain && pick("f-vrftamper", 10) {
		b.verbatim = nil
		switch rapid.IntRange(0, 2).Draw(t, "tamper") {
		case 0:
			b.vrfTamper = "output"
			// another valid ristretto point: the output of the same key for another slot
			o2, _, err := c24key(b.vrfKey).VrfSign(makeTranscript(b.vrfRand, b.vrfSlot+77, b.vrfEpoch))
			if err != nil {
				t.Fatalf("VrfSign: %v", err)
			}
			b.out = o2
		case 1:
			b.vrfTamper = "output"
			b.out[rapid.IntRange(0, 31).Draw(t, "obyte")] ^= byte(1 << rapid.IntRange(0, 7).Draw(t, "obit"))
		default:
			b.vrfTamper = "proof"
			b.proof[rapid.IntRange(0, 63).Draw(t, "pbyte")] ^= byte(1 << rapid.IntRange(0, 7).Draw(t, "pbit"))
		}
		fault("vrf-tamper:" + b.vrfTamper)
	}
	if pick("f-sealkey", 10) {
		nk := rapid.IntRange(0, 11).Draw(t, "sealkey")
		if nk != b.sealKey {
			fault(fmt.Sprintf("sealkey:%d", nk))
			b.sealKey = nk
		}
	}
	if pick("f-seal", 6) {
		b.sealMode = rapid.SampledFrom([]string{"modified-number", "modified-root", "modified-digest", "tampered", "missing", "not-last", "wrong-type", "inserted-seal-item", "inserted-foreign-seal-item"}).Draw(t, "sealmode")
		fault("seal:" + b.sealMode)
	}
	if pick("f-nopre", 25) {
		b.noPreDigest = true
		fault("no-pre-digest")
	}
	if rapid.IntRange(0, 3).Draw(t, "middle") == 0 {
		b.middleItems = rapid.IntRange(1, 2).Draw(t, "nmiddle")
		labels["runtime-digest-items-before-seal"] = true
	}

	// ---- ground truth
	idxOK := uint64(b.idx) < uint64(d.n)
	vrfValid := idxOK && c24pub(b.vrfKey) == d.auths[min(int(b.idx), d.n-1)].Key &&
		b.vrfRand == rnd && b.vrfSlot == b.slot && b.vrfEpoch == E && b.vrfTamper == ""
	sealValid := idxOK && b.sealMode == "ok" && c24pub(b.sealKey) == d.auths[min(int(b.idx), d.n-1)].Key
	isAuthor := idxOK && b.idx == c24author(rnd, b.slot, d.n)
	var claimOK bool
	switch b.kind {
	case c24Primary:
		below := false
		if vrfValid {
			pk, err := sr25519.NewPublicKey(d.auths[b.idx].Key[:])
			if err != nil {
				t.Fatalf("%v", err)
			}
			v, err := c24vrfValue(b.out, pk, rnd, b.slot, E)
			if err != nil {
				t.Fatalf("vrf value of a valid output: %v", err)
			}
			below = v.Cmp(thrBig) < 0
			if below {
				labels["primary-below-threshold"] = true
			} else {
				labels["primary-valid-vrf-over-threshold"] = true
			}
		}
		claimOK = vrfValid && below
		r.why = fmt.Sprintf("primary: vrfValid=%v below=%v", vrfValid, below)
	case c24Plain:
		claimOK = cfg.SecondarySlots == 1 && isAuthor
		r.why = fmt.Sprintf("plain: SecondarySlots=%d isAuthor=%v", cfg.SecondarySlots, isAuthor)
	default:
		claimOK = cfg.SecondarySlots == 2 && isAuthor && vrfValid
		r.why = fmt.Sprintf("secvrf: SecondarySlots=%d isAuthor=%v vrfValid=%v", cfg.SecondarySlots, isAuthor, vrfValid)
	}
	structOK := !b.noPreDigest && b.sealMode != "missing"
	r.idxOK, r.sealValid, r.structOK, r.isAuthor = idxOK, sealValid, structOK, isAuthor
	r.want = structOK && parentOK && idxOK && claimOK && sealValid
	r.why += fmt.Sprintf("; idxInRange=%v sealValid=%v structure=%v parentEpochOK=%v; c=%d/%d SecondarySlots=%d",
		idxOK, sealValid, structOK, parentOK, cfg.C1, cfg.C2, cfg.SecondarySlots)

	// known finding: a secondary claim of the kind the configuration does not allow is accepted
	wrongSecKind := (b.kind == c24Plain && cfg.SecondarySlots == 2) || (b.kind == c24VRF && cfg.SecondarySlots == 1)
	if wrongSecKind {
		labels["secondary-kind-not-allowed-by-config"] = true
		if kit.KnownOpen(c24FindingKinds) {
			// exactly this class: the verdict would only differ if everything else is valid
			if structOK && parentOK && idxOK && isAuthor && sealValid && (b.kind == c24Plain || vrfValid) {
				r.excludedKnown = true
			}
		}
	}
	labels[fmt.Sprintf("cfg-sec=%d", cfg.SecondarySlots)] = true
	labels["kind:"+c24kindName[b.kind]] = true
	if !idxOK {
		labels["idx-out-of-range"] = true
	}
	if b.kind != c24Primary && idxOK && !isAuthor {
		labels["secondary-by-non-author"] = true
	}
	return r
}

// c24faultLabels adds the per-fault coverage labels once the verdict is known.
func (r *c24drawn) faultLabels(got, parentOK bool) {
	labels := r.labels
	if got {
		labels["accept:"+c24kindName[r.b.kind]] = true
	} else {
		labels["reject"] = true
	}
	switch len(r.faults) {
	case 0:
		labels["faults=0"] = true
	case 1:
		f := r.faults[0]
		if i := strings.IndexAny(f, ":"); i > 0 && !strings.HasPrefix(f, "seal:") && !strings.HasPrefix(f, "vrf-tamper") {
			f = f[:i]
		}
		labels["single-fault:"+f] = true
		if !got && r.honest && parentOK {
			// the fault alone turned a claim of the node's own lottery into a rejected block
			labels["decisive-single-fault:"+f] = true
		}
	default:
		labels["faults>=2"] = true
	}
}

func (r *c24drawn) describe() string {
	return fmt.Sprintf("%s idx=%d claimSlot=%v faults=[%s] middle=%d",
		c24kindName[r.b.kind], r.b.idx, r.honest, strings.Join(r.faults, ","), r.b.middleItems)
}

// c24verify runs VerifyBlock and checks the verdict and that the header comes
// back unchanged.
func c24verify(t *rapid.T, vm *VerificationManager, hdr *types.Header, r *c24drawn, parentOK bool, descr string) bool {
	before, err := scale.Marshal(*hdr)
	if err != nil {
		t.Fatalf("marshal: %v", err)
	}
	verr := vm.VerifyBlock(hdr)
	got := verr == nil
	if got != r.want {
		t.Fatalf("VerifyBlock accepted=%v (err: %v), authorised=%v\n  %s\n  %s", got, verr, r.want, descr, r.why)
	}
	if r.honest && len(r.faults) == 0 && parentOK && !got {
		t.Fatalf("claim of the node's own lottery rejected: %v\n  %s", verr, descr)
	}
	// the verifier strips the seal while checking; the caller's header must come back unchanged
	after, err := scale.Marshal(*hdr)
	if err != nil {
		t.Fatalf("marshal: %v", err)
	}
	if !bytes.Equal(before, after) {
		t.Fatalf("VerifyBlock changed the header (accepted=%v): before %x after %x\n  %s", got, before, after, descr)
	}
	return got
}

func c24case(t *rapid.T) {
	env := c24genEnv(t)

	// ---- position of the block and of its parent
	E := uint64(rapid.IntRange(0, 3).Draw(t, "epoch"))
	parentKind := rapid.SampledFrom([]string{"genesis", "same", "same", "prev", "prev", "skipped", "later"}).Draw(t, "parent")
	switch {
	case parentKind == "prev" && E < 1, parentKind == "skipped" && E < 2, parentKind == "later" && E > 2:
		parentKind = "same"
	}
	genesis := &types.Header{Number: 0, Digest: types.NewDigest(), StateRoot: common.Hash{0xee}}
	bs := &c24BlockState{genesis: genesis.Hash(), headers: map[common.Hash]*types.Header{genesis.Hash(): genesis}}
	parent := genesis
	parentEpoch := E
	if parentKind != "genesis" {
		switch parentKind {
		case "prev":
			parentEpoch = E - 1
		case "skipped":
			parentEpoch = E - 2
		case "later":
			parentEpoch = E + 1
		}
		pslot := env.firstSlot + parentEpoch*env.epochLen // first slot of its epoch: always before the block's slot in "same"
		pd, err := types.NewBabeSecondaryPlainPreDigest(0, pslot).ToPreRuntimeDigest()
		if err != nil {
			t.Fatalf("%v", err)
		}
		parent = &types.Header{ParentHash: genesis.Hash(), Number: 5, Digest: types.NewDigest(), StateRoot: common.Hash{0xdd}}
		_ = parent.Digest.Add(*pd)
		bs.headers[parent.Hash()] = parent
	}
	// epoch whose data applies (Substrate: skipped epochs reuse the data announced for parentEpoch+1)
	dataEpoch := E
	if parentKind == "skipped" {
		dataEpoch = parentEpoch + 1
	}
	ed := env.epochs[dataEpoch]
	def := &c24def{n: env.n, keyIDs: env.keyIDs, auths: env.auths, rnd: ed.data.Randomness, cfg: ed.cfg}
	parentOK := parentKind != "later"
	r := c24drawBlock(t, def, E, env.firstSlot+E*env.epochLen, env.epochLen, parentOK)
	if r.excludedKnown {
		// steered away: the case is counted as excluded and not judged
		kit.Excluded(c24FindingKinds)
		return
	}

	// ---- run
	hdr := r.b.header(parent, byte(r.slot)^byte(r.b.idx))
	es := &c24EpochState{firstSlot: env.firstSlot, epochLen: env.epochLen, epochs: env.epochs}
	vm := NewVerificationManager(bs, c24SlotState{}, es)
	descr := fmt.Sprintf("n=%d keys=%v %s | epoch=%d parent=%s slot=+%d | %s",
		env.n, env.keyIDs, strings.Join(env.cfgDescr, " "), E, parentKind, r.slot-env.firstSlot, r.describe())
	got := c24verify(t, vm, hdr, r, parentOK, descr)

	// ---- coverage
	r.faultLabels(got, parentOK)
	r.labels["parent:"+parentKind] = true
	var ls []string
	for l := range r.labels {
		ls = append(ls, l)
	}
	kit.Case(descr, len(r.faults) > 0 || r.b.kind != c24Primary, ls...)
}

// ---------------------------------------------------------------------------
// one long-lived VerificationManager, several forks that define the same epoch
// numbers differently

// c24ForkEpochState answers epoch data and configuration per HEADER: the fork
// is resolved from the header's parent hash (every fork has its own parent
// headers), as dot/state.EpochState resolves NextEpochData/NextConfigData of a
// non-finalised epoch through the header's ancestry.
type c24ForkEpochState struct {
	EpochState
	firstSlot, epochLen uint64
	forkOfParent        map[common.Hash]int
	forkOfBlock         map[common.Hash]int // headers handed to SetOnDisabled
	defs                [][]c24epochCfg     // [fork][epoch]
}

func (s *c24ForkEpochState) fork(h *types.Header) (int, error) {
	if h == nil {
		return 0, errors.New("fake epoch state: nil header")
	}
	if f, ok := s.forkOfParent[h.ParentHash]; ok {
		return f, nil
	}
	return 0, errors.New("fake epoch state: header on no known fork")
}
func (s *c24ForkEpochState) GetEpochForBlock(h *types.Header) (uint64, error) {
	slot, err := h.SlotNumber()
	if err != nil {
		return 0, fmt.Errorf("%w: %v", errC24NoPreDigest, err)
	}
	if slot < s.firstSlot {
		return 0, errC24NoEpoch
	}
	return (slot - s.firstSlot) / s.epochLen, nil
}
func (s *c24ForkEpochState) GetSlotDuration() (time.Duration, error) { return 6 * time.Second, nil }
func (s *c24ForkEpochState) GetEpochDataRaw(e uint64, h *types.Header) (*types.EpochDataRaw, error) {
	f, err := s.fork(h)
	if err != nil {
		return nil, err
	}
	if e >= uint64(len(s.defs[f])) {
		return nil, errC24NoEpoch
	}
	return s.defs[f][e].data, nil
}
func (s *c24ForkEpochState) GetConfigData(e uint64, h *types.Header) (*types.ConfigData, error) {
	f, err := s.fork(h)
	if err != nil {
		return nil, err
	}
	if e >= uint64(len(s.defs[f])) {
		return nil, errC24NoEpoch
	}
	return s.defs[f][e].cfg, nil
}

// IsDescendantOf is only reached through SetOnDisabled (whose result is not judged).
func (s *c24BlockState) IsDescendantOf(a, b common.Hash) (bool, error) { return a == b, nil }

const c24ForksRule = "one VerificationManager per case; 2-3 forks define epochs 1..3 with their own authority set / randomness / c / SecondarySlots (epoch 0 = genesis definition, shared; a later epoch is shared with fork 0 with probability 1/4); " +
	"a sequence of 2-5 blocks, each on a drawn fork and epoch (parent in the same or the previous epoch of that fork), claim and faults from the same generator as TestC24VerifyBlock, judged against THAT fork's definition; optional SetOnDisabled calls in between (result not judged); " +
	"non-trivial = the sequence verifies blocks of one epoch number on at least two forks whose definitions of that epoch differ; distinct by the full description"

func c24genDef(t *rapid.T, r0 Randomness) (*c24def, string) {
	d := &c24def{}
	d.n = rapid.SampledFrom([]int{1, 2, 2, 3, 3, 4}).Draw(t, "n")
	d.keyIDs = rapid.Permutation([]int{0, 1, 2, 3, 4, 5, 6, 7, 8, 9}).Draw(t, "keyids")[:d.n]
	for _, id := range d.keyIDs {
		d.auths = append(d.auths, types.AuthorityRaw{Key: c24pub(id), Weight: 1})
	}
	d.rnd = r0
	d.rnd[31] = rapid.Byte().Draw(t, "rnd31")
	ci, sec := rapid.IntRange(0, len(c24cs)-1).Draw(t, "c"), byte(rapid.IntRange(0, 2).Draw(t, "sec"))
	d.cfg = &types.ConfigData{C1: c24cs[ci].c1, C2: c24cs[ci].c2, SecondarySlots: sec}
	return d, fmt.Sprintf("keys=%v,c=%s,sec=%d,r=..%x", d.keyIDs, c24cs[ci].name, sec, d.rnd[31])
}

func TestC24ManagerAcrossForks(t *testing.T) {
	defer kit.Flush()
	kit.Note("rule-forks", c24ForksRule)
	rapid.Check(t, func(t *rapid.T) { c24forksCase(t) })
}

func c24forksCase(t *rapid.T) {
	const nEpochs = 4
	firstSlot := rapid.SampledFrom([]uint64{1, 1000}).Draw(t, "firstSlot")
	epochLen := rapid.Uint64Range(10, 16).Draw(t, "epochLen")
	nForks := rapid.IntRange(2, 3).Draw(t, "forks")
	var r0 Randomness
	copy(r0[:], rapid.SliceOfN(rapid.Byte(), 4, 4).Draw(t, "rand"))

	// definitions: defs[f][e]; differs[f][e] = fork f's own definition of epoch e (not fork 0's)
	defs := make([][]*c24def, nForks)
	defDescr := make([][]string, nForks)
	var sb strings.Builder
	for f := 0; f < nForks; f++ {
		defs[f] = make([]*c24def, nEpochs)
		defDescr[f] = make([]string, nEpochs)
		for e := 0; e < nEpochs; e++ {
			if f > 0 && (e == 0 || rapid.IntRange(0, 3).Draw(t, "shared") == 0) {
				defs[f][e], defDescr[f][e] = defs[0][e], defDescr[0][e]
				continue
			}
			defs[f][e], defDescr[f][e] = c24genDef(t, r0)
		}
		fmt.Fprintf(&sb, "F%d{%s} ", f, strings.Join(defDescr[f], " | "))
	}

	genesis := &types.Header{Number: 0, Digest: types.NewDigest(), StateRoot: common.Hash{0xee}}
	bs := &c24BlockState{genesis: genesis.Hash(), headers: map[common.Hash]*types.Header{genesis.Hash(): genesis}}
	es := &c24ForkEpochState{firstSlot: firstSlot, epochLen: epochLen, forkOfParent: map[common.Hash]int{}}
	for f := 0; f < nForks; f++ {
		var row []c24epochCfg
		for e := 0; e < nEpochs; e++ {
			d := defs[f][e]
			row = append(row, c24epochCfg{data: &types.EpochDataRaw{Authorities: d.auths, Randomness: d.rnd}, cfg: d.cfg})
		}
		es.defs = append(es.defs, row)
	}
	// parents[f][e]: a header of fork f in epoch e (first slot of the epoch)
	parents := make([][]*types.Header, nForks)
	for f := 0; f < nForks; f++ {
		parents[f] = make([]*types.Header, nEpochs)
		for e := 0; e < nEpochs; e++ {
			pd, err := types.NewBabeSecondaryPlainPreDigest(0, firstSlot+uint64(e)*epochLen).ToPreRuntimeDigest()
			if err != nil {
				t.Fatalf("%v", err)
			}
			p := &types.Header{ParentHash: genesis.Hash(), Number: uint(10*e + 5), Digest: types.NewDigest(), StateRoot: common.Hash{0xf0, byte(f), byte(e)}}
			_ = p.Digest.Add(*pd)
			parents[f][e] = p
			bs.headers[p.Hash()] = p
			es.forkOfParent[p.Hash()] = f
		}
	}

	vm := NewVerificationManager(bs, c24SlotState{}, es) // ONE manager for the whole sequence
	steps := rapid.IntRange(2, 5).Draw(t, "steps")
	// sequences concentrate on one epoch number (3 of 4 steps) so that it is visited on several forks
	mainEpoch := uint64(rapid.IntRange(1, nEpochs-1).Draw(t, "mainEpoch"))
	labels := map[string]bool{}
	seen := map[uint64]map[int]bool{} // epoch -> forks already verified on
	crossed, revisit, lastFork := false, false, -1
	visitedForks := map[int]bool{}
	fmt.Fprintf(&sb, "::")
	for i := 0; i < steps; i++ {
		f := rapid.IntRange(0, nForks-1).Draw(t, "fork")
		E := mainEpoch
		if rapid.IntRange(0, 3).Draw(t, "otherEpoch") == 0 {
			E = uint64(rapid.IntRange(0, nEpochs-1).Draw(t, "E"))
		}
		if rapid.IntRange(0, 5).Draw(t, "disable") == 0 {
			// a digest of fork df disables an authority of epoch E there; VerifyBlock verdicts must not depend on it
			df := rapid.IntRange(0, nForks-1).Draw(t, "disableFork")
			h := &types.Header{ParentHash: parents[df][E].Hash(), Number: parents[df][E].Number + 1, Digest: types.NewDigest(), StateRoot: common.Hash{0xd1, byte(i)}}
			pd, _ := types.NewBabeSecondaryPlainPreDigest(0, firstSlot+E*epochLen+1).ToPreRuntimeDigest()
			_ = h.Digest.Add(*pd)
			idx := uint32(rapid.IntRange(0, 4).Draw(t, "disableIdx"))
			_ = vm.SetOnDisabled(idx, h)
			labels["SetOnDisabled-between"] = true
			fmt.Fprintf(&sb, " [disable F%d e%d idx%d]", df, E, idx)
		}
		pE := E
		if E > 0 && rapid.Bool().Draw(t, "parentPrev") {
			pE = E - 1 // first block of the epoch on this fork
		}
		d := defs[f][E]
		r := c24drawBlock(t, d, E, firstSlot+E*epochLen, epochLen, true)
		descr := fmt.Sprintf("%s step %d: F%d epoch=%d parentEpoch=%d slot=+%d %s", sb.String(), i, f, E, pE, r.slot-firstSlot, r.describe())
		fmt.Fprintf(&sb, " (F%d e%d %s)", f, E, r.describe())
		if r.excludedKnown {
			kit.Excluded(c24FindingKinds)
			continue
		}
		hdr := r.b.header(parents[f][pE], byte(r.slot)^byte(r.b.idx)^byte(i<<4))
		got := c24verify(t, vm, hdr, r, true, descr)
		r.faultLabels(got, true)
		for l := range r.labels {
			if strings.HasPrefix(l, "accept") || l == "reject" || l == "claimSlot-claim" || l == "faults=0" {
				labels[l] = true
			}
		}
		if seen[E] == nil {
			seen[E] = map[int]bool{}
		}
		for of := range seen[E] {
			if of != f && defs[of][E] != defs[f][E] {
				crossed = true
				if got {
					labels["accepted-after-other-fork-defined-epoch"] = true
				}
			}
		}
		if seen[E][f] && lastFork != f && visitedForks[f] {
			revisit = true
		}
		seen[E][f] = true
		visitedForks[f] = true
		lastFork = f
	}
	if crossed {
		labels["same-epoch-on-forks-with-different-definitions"] = true
	}
	if revisit {
		labels["fork-revisited-after-another"] = true
	}
	labels[fmt.Sprintf("forks=%d", nForks)] = true
	var ls []string
	for l := range labels {
		ls = append(ls, l)
	}
	kit.Case(sb.String(), crossed, ls...)
}

// TestC24KnownSecondaryKind is the witness of finding
// C24-secondary-kind-not-checked: a correctly sealed secondary-plain claim by
// the assigned author under SecondarySlots=2 (and a secondary-VRF claim under
// SecondarySlots=1).
func TestC24KnownSecondaryKind(t *testing.T) {
	defer kit.Flush()
	acc, detail := c24wrongKindAccepted(t)
	switch {
	case acc[0] && acc[1]:
		kit.WitnessResult(c24FindingKinds, true, detail)
	case !acc[0] && !acc[1]:
		kit.WitnessResult(c24FindingKinds, false, "")
	default:
		t.Fatalf("unexpected mixed behaviour: %s", detail)
	}
}

// TestC24Regressions: the same two inputs as a plain regression test (they
// must be rejected once the verifier honours the configured secondary kind);
// plus fixed honest claims of every kind under their own configuration.
func TestC24Regressions(t *testing.T) {
	defer kit.Flush()
	if !kit.KnownOpen(c24FindingKinds) {
		acc, detail := c24wrongKindAccepted(t)
		if acc[0] || acc[1] {
			t.Fatalf("secondary claim of the kind the epoch configuration does not allow was accepted: %s", detail)
		}
	}
	for sec := byte(0); sec <= 2; sec++ {
		for _, kind := range []int{c24Primary, c24Plain, c24VRF} {
			ok, err := c24fixed(t, sec, kind)
			want := kind == c24Primary || (kind == c24Plain && sec == 1) || (kind == c24VRF && sec == 2)
			if kit.KnownOpen(c24FindingKinds) && kind != c24Primary && sec != 0 {
				continue
			}
			if ok != want {
				t.Fatalf("SecondarySlots=%d %s claim by the right authority, valid VRF and seal: accepted=%v (%v), want %v", sec, c24kindName[kind], ok, err, want)
			}
			kit.Case(fmt.Sprintf("fixed sec=%d kind=%s", sec, c24kindName[kind]), true, "regression")
		}
	}
}

// c24fixed: 3 authorities (keys 0,1,2), c = 1 (every primary claim is below the
// threshold), zero randomness, epoch 0, slot 1003, parent genesis; the claim is
// made by the secondary author of the slot with a valid VRF and seal.
func c24fixed(t *testing.T, sec byte, kind int) (bool, error) {
	var auths []types.AuthorityRaw
	for id := 0; id < 3; id++ {
		auths = append(auths, types.AuthorityRaw{Key: c24pub(id), Weight: 1})
	}
	var rnd Randomness
	const slot = 1003
	es := &c24EpochState{firstSlot: 1000, epochLen: 10, epochs: map[uint64]c24epochCfg{0: {
		data: &types.EpochDataRaw{Authorities: auths, Randomness: rnd},
		cfg:  &types.ConfigData{C1: 1, C2: 1, SecondarySlots: sec}}}}
	genesis := &types.Header{Number: 0, Digest: types.NewDigest(), StateRoot: common.Hash{0xee}}
	bs := &c24BlockState{genesis: genesis.Hash(), headers: map[common.Hash]*types.Header{genesis.Hash(): genesis}}
	idx := c24author(rnd, slot, 3)
	b := &c24block{kind: kind, idx: idx, slot: slot, sealKey: int(idx), sealMode: "ok"}
	if kind != c24Plain {
		out, proof, err := c24key(int(idx)).VrfSign(makeTranscript(rnd, slot, 0))
		if err != nil {
			t.Fatalf("VrfSign: %v", err)
		}
		b.out, b.proof = out, proof
	}
	err := NewVerificationManager(bs, c24SlotState{}, es).VerifyBlock(b.header(genesis, 0))
	return err == nil, err
}

func c24wrongKindAccepted(t *testing.T) (acc [2]bool, detail string) {
	a, errA := c24fixed(t, 2, c24Plain)
	v, errV := c24fixed(t, 1, c24VRF)
	return [2]bool{a, v}, fmt.Sprintf("3 authorities, c=1/1, slot 1003: secondary-plain claim under SecondarySlots=2 accepted=%v (%v); secondary-VRF claim under SecondarySlots=1 accepted=%v (%v)", a, errA, v, errV)
}
